(** CoreRefineDupLoop.v — [cJSON_Duplicate_rec]: linking one more copied child into the partial
    copy ([link_step_sim]), closing the chain ([close_sim]) and the child loop ([dup_loop_sim]). *)
From CJ Require Import Base Dbl Heap Forest ForestLemmas CoreSpec CoreDefs CoreRefineBase CoreRefine CoreRefineDelete
  CoreRefineDupBase CoreRefineDupTree CoreRefineDupNode.
From CJ.gen Require Import Constants.
From stdpp Require Import gmap.
From Coq Require Import Lia.

Implicit Types (g h : heap) (i n b : positive) (d : rdata) (ts cs : list tree).

Ltac mn := cbv beta; rewrite ?bindM_assoc.

(** * small facts *)
Lemma flat_snoc ts t : flat (ts ++ [t]) = flat ts ++ flat_t t.
Proof. by rewrite flat_app, flat_singleton. Qed.
Lemma nids_flat_t t : nids (flat_t t) = ids_t t.
Proof. by rewrite ids_t_flat. Qed.

Lemma top_ok_last h pv R l : top_ok h pv R -> last R = Some l -> exists pvl, lk_at h l (None, pvl).
Proof.
  revert pv. induction R as [|c R IH]; intros pv H Hl; [done|]. destruct H as [H1 H2]. destruct R as [|c2 R].
  - injection Hl as <-. by exists pv.
  - rewrite last_cons_cons in Hl. by eapply IH.
Qed.
Lemma last_fmap_elem ts l : last (tid <$> ts) = Some l -> l ∈ roots ts.
Proof. intros H. apply last_Some in H as [l' H]. unfold roots. rewrite H. apply elem_of_app. right. by left. Qed.
Lemma last_None_nil {A} (l : list A) : last l = None -> l = [].
Proof. destruct l as [|a l] using rev_ind; [done|]. by rewrite last_snoc. Qed.

Lemma lk_at_fun h i e e' : lk_at h i e -> lk_at h i e' -> e = e'.
Proof. intros [_ H1] [_ H2]. congruence. Qed.

Lemma Chain_ok_set_dat h ts hp j nd :
  Chain_ok h ts hp -> j ∉ ids ts -> Chain_ok (set_dat h (<[j := nd]> (h_dat h))) ts hp.
Proof.
  intros [C1 C2 C3] Hj. constructor.
  - intros i d ks He. apply nd_at_set_dat_ne; [by apply C1|]. intros ->. apply Hj.
    rewrite <- nids_flat. by eapply elem_of_nids.
  - intros i d ks k c He Hk. apply lk_at_set_dat. by eapply C2.
  - apply (top_ok_mono_on h); [|done]. intros c e _ H. by apply lk_at_set_dat.
Qed.

(** the partial copy after an unrelated failed call *)
Lemma Partial_frame_nil g gc g2 n d tcs : Partial g gc n d tcs -> Ext [] [] gc g2 -> Partial g g2 n d tcs.
Proof.
  intros P Fr. pose proof (pt_mono_frame _ _ _ _ Fr) as Hm. constructor.
  - pose proof (Ext_trans _ _ _ _ _ _ _ (pa_frame _ _ _ _ _ P) Fr) as H. by rewrite !app_nil_r in H.
  - apply P.
  - apply Hm, P.
  - apply Hm, P.
  - eapply Chain_ok_mono; [done|apply P].
  - apply P.
  - apply P.
Qed.

(** * one more child *)
Lemma Partial_snoc_perm (n : positive) (N1 N2 O S1 S2 : list positive) :
  (n :: N1 ++ N2) ++ O ++ S1 ++ S2 ≡ₚ ((n :: N1) ++ O ++ S1) ++ N2 ++ S2.
Proof.
  cbn. apply Permutation_skip. rewrite <- !app_assoc. apply Permutation_app_head.
  rewrite !app_assoc. apply Permutation_app_tail. rewrite <- (app_assoc N2 O S1). apply Permutation_app_comm.
Qed.

Section Link.
  Context (g gc g2 : heap) (n : positive) (d : rdata) (tcs : list tree) (tc : tree).
  Hypothesis P : Partial g gc n d tcs.
  Hypothesis Fr2 : Ext (nids (flat_t tc)) (sids (flat_t tc)) gc g2.
  Hypothesis ND2 : NoDup (nids (flat_t tc) ++ sids (flat_t tc)).
  Hypothesis C2 : Chain_ok g2 [tc] None.
  Hypothesis R2 : Forall ref_ok (flat_t tc).

  Local Lemma Hold x : x ∈ (n :: nids (flat tcs)) ++ owned_strs d ++ sids (flat tcs) -> (x < h_next gc)%positive.
  Proof. intros Hx. by destruct (xt_new _ _ _ _ (pa_frame _ _ _ _ _ P) x Hx) as (_ & ? & _). Qed.
  Local Lemma Hnew x : x ∈ nids (flat_t tc) ++ sids (flat_t tc) -> (h_next gc <= x)%positive.
  Proof. intros Hx. by destruct (xt_new _ _ _ _ Fr2 x Hx) as (? & _). Qed.
  Local Lemma Hold_id x : x ∈ n :: ids tcs -> (x < h_next gc)%positive.
  Proof. intros Hx. apply Hold. apply elem_of_app. left. by rewrite nids_flat. Qed.
  Local Lemma Hnew_id x : x ∈ ids_t tc -> (h_next gc <= x)%positive.
  Proof. intros Hx. apply Hnew. apply elem_of_app. left. by rewrite nids_flat_t. Qed.

  Local Lemma snoc_frame :
    Ext (n :: nids (flat (tcs ++ [tc]))) (owned_strs d ++ sids (flat (tcs ++ [tc]))) g g2.
  Proof.
    pose proof (Ext_trans _ _ _ _ _ _ _ (pa_frame _ _ _ _ _ P) Fr2) as H.
    rewrite flat_snoc, nids_app, sids_app. by rewrite app_assoc.
  Qed.
  Local Lemma snoc_nodup :
    NoDup ((n :: nids (flat (tcs ++ [tc]))) ++ owned_strs d ++ sids (flat (tcs ++ [tc]))).
  Proof.
    rewrite flat_snoc, nids_app, sids_app. rewrite Partial_snoc_perm. apply NoDup_app. split; [apply P|].
    split; [|done]. intros x Hx Hx'. pose proof (Hold x Hx). pose proof (Hnew x Hx'). lia.
  Qed.
  Local Lemma snoc_ref : Forall ref_ok (flat (tcs ++ [tc])).
  Proof. rewrite flat_snoc. apply Forall_app. split; [apply P|done]. Qed.
  Local Lemma ids_nodup : NoDup (n :: ids tcs).
  Proof. by eapply Partial_ids_nodup. Qed.
  Local Lemma ids_tc_nodup : NoDup (ids [tc]).
  Proof.
    apply NoDup_app in ND2 as [H _]. rewrite nids_flat_t in H. unfold ids, nodes. cbn. by rewrite app_nil_r.
  Qed.
  Local Lemma tc_root_at : lk_at g2 (tid tc) (None, None).
  Proof. destruct (ck_top _ _ _ C2) as [H _]. exact H. Qed.

  Lemma link_step_sim :
    exists g3,
      (forall (K : M (bool * ptr)),
        ((if negb (is_null (last (tid <$> tcs))) then
            set_next (last (tid <$> tcs)) (Some (tid tc)) ;;; set_prev (Some (tid tc)) (last (tid <$> tcs))
          else set_child (Some n) (Some (tid tc))) ;;; K) g2 = K g3) /\
      Partial g g3 n d (tcs ++ [tc]) /\ str_mono g2 g3 /\ h_req g3 = h_req g2.
  Proof.
    pose proof (pt_mono_frame _ _ _ _ Fr2) as Hm.
    pose proof (proj1 Hm _ _ (pa_node _ _ _ _ _ P)) as Hn2.
    pose proof (proj1 (proj2 Hm) _ _ (pa_root _ _ _ _ _ P)) as Hr2.
    pose proof (Chain_ok_mono _ _ _ _ Hm (pa_chain _ _ _ _ _ P)) as Ch2.
    set (c' := tid tc).
    assert (Hc'n : c' <> n).
    { intros E. pose proof (Hold_id n ltac:(by left)). pose proof (Hnew_id c' (elem_of_ids_t_self tc)). lia. }
    destruct (last (tid <$> tcs)) as [l|] eqn:Hlast.
    - (* the chain is not empty: link behind its last element *)
      pose proof (last_fmap_elem _ _ Hlast) as Hlr.
      assert (Hlid : l ∈ ids tcs) by (by apply roots_subseteq_ids).
      assert (Hln : l <> n).
      { intros ->. pose proof ids_nodup as ND. apply NoDup_cons in ND as [ND _]. done. }
      assert (Hlc' : l <> c').
      { intros E. pose proof (Hold_id l ltac:(by right)). pose proof (Hnew_id c' (elem_of_ids_t_self tc)). lia. }
      destruct (top_ok_last _ _ _ _ (ck_top _ _ _ Ch2) Hlast) as [pvl Hl2].
      set (g3 := set_lnk g2 (<[l := (Some c', pvl)]> (h_lnk g2))).
      assert (Hc3 : lk_at g3 c' (None, None)) by (apply lk_at_set_lnk_ne; [apply tc_root_at|done]).
      set (g4 := set_lnk g3 (<[c' := (None, Some l)]> (h_lnk g3))).
      exists g4. split; [|split; [|split]].
      + intros K. cbn [is_null negb]. mn.
        rewrite (bindM_Ret _ _ _ _ _ (run_set_next_plain _ _ _ (Some c') Hl2)).
        rewrite (bindM_Ret _ _ _ _ _ (run_set_prev_plain _ _ _ (Some l) Hc3)). reflexivity.
      + assert (Hmono : forall c e, c <> l -> c <> c' -> lk_at g2 c e -> lk_at g4 c e).
        { intros c e H1 H2 H. apply lk_at_set_lnk_ne; [|done]. by apply lk_at_set_lnk_ne. }
        constructor.
        * apply Ext_st_lnk; [apply Ext_st_lnk; [apply snoc_frame|]|].
          -- right. rewrite nids_flat. rewrite ids_app. apply elem_of_app. by left.
          -- right. rewrite flat_snoc, nids_app. apply elem_of_app. right. rewrite nids_flat_t. apply elem_of_ids_t_self.
        * apply snoc_nodup.
        * apply nd_at_set_lnk, nd_at_set_lnk.
          rewrite (mk_dat_head d (tid <$> (tcs ++ [tc])) (tid <$> tcs)); [done| |].
          -- rewrite fmap_app. destruct (tid <$> tcs); [done|reflexivity].
          -- rewrite fmap_app. destruct (tid <$> tcs); [done|]. cbn. done.
        * by apply Hmono.
        * constructor.
          -- intros i d' ks He. apply nd_at_set_lnk, nd_at_set_lnk. rewrite flat_snoc in He.
             apply elem_of_app in He as [He|He]; [by apply (ck_dat _ _ _ Ch2)|].
             apply (ck_dat _ _ _ C2). by rewrite flat_singleton.
          -- intros i d' ks j c He Hj. rewrite flat_snoc in He. apply elem_of_app in He as [He|He].
             ++ assert (Hcin : c ∈ ks) by (by eapply elem_of_list_lookup_2).
                apply Hmono; [| |by eapply (ck_in _ _ _ Ch2)].
                ** intros ->. apply (child_not_root tcs i d' ks l); [|done|done|done].
                   pose proof ids_nodup as ND. by apply NoDup_cons in ND as [_ ?].
                ** intros E. pose proof (Hold_id c ltac:(right; by eapply cids_in_ids)).
                   pose proof (Hnew_id c' (elem_of_ids_t_self tc)). lia.
             ++ assert (Hcin : c ∈ ks) by (by eapply elem_of_list_lookup_2).
                assert (He' : (i, d', ks) ∈ flat [tc]) by (by rewrite flat_singleton).
                apply Hmono; [| |by eapply (ck_in _ _ _ C2)].
                ** intros ->. pose proof (Hold_id l ltac:(by right)).
                   assert (l ∈ ids_t tc).
                   { pose proof (cids_in_ids [tc] i d' ks l He' Hcin) as H1. unfold ids, nodes in H1. cbn in H1.
                     by rewrite app_nil_r in H1. }
                   pose proof (Hnew_id l ltac:(done)). lia.
                ** intros E. apply (child_not_root [tc] i d' ks c'); [apply ids_tc_nodup|done|by rewrite <- E|].
                   unfold roots. cbn. by left.
          -- rewrite fmap_app. cbn [fmap list_fmap]. fold c'.
             apply (top_ok_snoc g2 g4 None (tid <$> tcs) l c'); [apply Ch2|done| | | |].
             ++ apply NoDup_roots. pose proof ids_nodup as ND. by apply NoDup_cons in ND as [_ ?].
             ++ intros c e Hc Hcl H. apply Hmono; [done| |done]. intros E.
                pose proof (Hold_id c ltac:(right; by apply roots_subseteq_ids)).
                pose proof (Hnew_id c' (elem_of_ids_t_self tc)). lia.
             ++ intros pvl' H. pose proof (lk_at_fun _ _ _ _ Hl2 H) as E. injection E as <-.
                apply lk_at_set_lnk_ne; [|done]. by apply lk_at_set_lnk_eq with (e := (None, pvl)).
             ++ by apply lk_at_set_lnk_eq with (e := (None, None)).
        * apply P.
        * apply snoc_ref.
      + intros b s H. by apply str_is_set_lnk, str_is_set_lnk.
      + reflexivity.
    - (* first child *)
      assert (E : tcs = []).
      { apply last_None_nil in Hlast. by apply fmap_nil_inv in Hlast. }
      rewrite E in Hn2. change (tid <$> []) with (@nil positive) in Hn2.
      set (g3 := set_dat g2 (<[n := mk_dat d [c']]> (h_dat g2))).
      exists g3. split; [|split; [|split]].
      + intros K. cbn [is_null negb].
        rewrite (bindM_Ret _ _ _ _ _ (run_set_child_plain _ _ _ (Some c') Hn2)). reflexivity.
      + constructor.
        * apply Ext_st_dat; [apply snoc_frame|by left].
        * apply snoc_nodup.
        * rewrite E. apply nd_at_set_dat_eq; [apply Hn2|by rewrite lookup_insert].
        * by apply lk_at_set_dat.
        * rewrite E. cbn [app]. apply Chain_ok_set_dat; [done|].
          intros Hin. unfold ids, nodes in Hin. cbn in Hin. rewrite app_nil_r in Hin.
          pose proof (Hold_id n ltac:(by left)). pose proof (Hnew_id n Hin). lia.
        * apply P.
        * apply snoc_ref.
      + intros b s H. by apply str_is_set_dat.
      + reflexivity.
  Qed.
End Link.

(** * closing the chain: the head's back link *)
Lemma Partial_done_facts g g1 n d tcs :
  Partial g g1 n d tcs ->
  NoDup (nids (flat_t (T n d tcs)) ++ sids (flat_t (T n d tcs))) /\ Forall ref_ok (flat_t (T n d tcs)).
Proof.
  intros P. split.
  - rewrite flat_t_unfold. apply P.
  - rewrite flat_t_unfold. apply Forall_cons. split; [|apply P]. destruct (pa_refd _ _ _ _ _ P) as [R1 R2].
    split; cbn; [by rewrite R1|by rewrite R2].
Qed.

Lemma close_sim g g1 n d tcs :
  Partial g g1 n d tcs ->
  exists g2,
    (nc <~ get_child (Some n) ;;
     when (negb (is_null nc)) (nc2 <~ get_child (Some n) ;; set_prev nc2 (last (tid <$> tcs))) ;;;
     ret (Some n)) g1 = Ret (Some n, g2) /\
    Ext (nids (flat_t (T n d tcs))) (sids (flat_t (T n d tcs))) g g2 /\
    Chain_ok g2 [T n d tcs] None /\ str_mono g1 g2 /\ h_req g2 = h_req g1.
Proof.
  intros P. pose proof (pa_node _ _ _ _ _ P) as Hn. pose proof (pa_chain _ _ _ _ _ P) as [C1 C2 C3].
  assert (Hfl : flat [T n d tcs] = (n, d, tid <$> tcs) :: flat tcs) by (by rewrite flat_singleton, flat_t_unfold).
  rewrite (bindM_Ret _ _ _ _ _ (run_get_child_plain _ _ _ (proj1 Hn) (proj2 Hn))).
  change (nd_child (mk_dat d (tid <$> tcs))) with (child_of d (tid <$> tcs)).
  destruct tcs as [|t0 tr].
  - cbn [fmap list_fmap child_of]. destruct (pa_refd _ _ _ _ _ P) as [_ ->]. cbn [is_null negb when].
    exists g1. split; [reflexivity|]. split; [rewrite flat_t_unfold; apply P|]. split; [|split; [by intros ? ? ?|done]].
    constructor.
    + intros i d' ks He. rewrite Hfl in He. cbn in He. apply elem_of_list_singleton in He. injection He as -> -> ->.
      exact Hn.
    + intros i d' ks j c He Hj. rewrite Hfl in He. cbn in He. apply elem_of_list_singleton in He.
      injection He as -> -> ->. done.
    + cbn. split; [apply P|done].
  - set (c0 := tid t0). cbn [fmap list_fmap child_of is_null negb when]. fold c0. mn.
    rewrite (bindM_Ret _ _ _ _ _ (run_get_child_plain _ _ _ (proj1 Hn) (proj2 Hn))).
    change (nd_child (mk_dat d (tid <$> t0 :: tr))) with (Some c0).
    destruct C3 as [Hc0 Hrest]. fold c0 in Hc0.
    rewrite (bindM_Ret _ _ _ _ _ (run_set_prev_plain _ _ _ (last (c0 :: (tid <$> tr))) Hc0)). cbn [fst].
    set (R := tid <$> tr) in *. set (g2 := set_lnk g1 _).
    pose proof (Partial_ids_nodup _ _ _ _ _ P) as NDn. apply NoDup_cons in NDn as [Hn_notin NDids].
    assert (NDR : NoDup (c0 :: R)) by (apply (NoDup_roots (t0 :: tr)), NDids).
    assert (Hc0n : c0 <> n).
    { intros E. apply Hn_notin. rewrite <- E. apply (roots_subseteq_ids (t0 :: tr)). by left. }
    exists g2. split; [reflexivity|]. split; [|split; [|split; [|done]]].
    + rewrite flat_t_unfold. apply Ext_st_lnk; [apply P|]. right. rewrite nids_flat.
      apply (roots_subseteq_ids (t0 :: tr)). by left.
    + assert (Htop : top_ok g2 (last (c0 :: R)) (c0 :: R)).
      { apply (top_ok_close g1); [by split|done| |].
        - intros c e Hc H. apply lk_at_set_lnk_ne; [done|]. intros ->. by apply NoDup_cons in NDR as [? _].
        - intros nx H. pose proof (lk_at_fun _ _ _ _ Hc0 H) as E. injection E as <-.
          by apply lk_at_set_lnk_eq with (e := (head R, None)). }
      constructor.
      * intros i d' ks He. apply nd_at_set_lnk. rewrite Hfl in He. apply elem_of_cons in He as [He|He].
        -- injection He as -> -> ->. exact Hn.
        -- by apply C1.
      * intros i d' ks j c He Hj. rewrite Hfl in He. apply elem_of_cons in He as [He|He].
        -- injection He as -> -> ->. by apply top_ok_link_at.
        -- apply lk_at_set_lnk_ne; [by eapply C2|]. intros ->.
           apply (child_not_root (t0 :: tr) i d' ks c0); [done|done|by eapply elem_of_list_lookup_2|by left].
      * cbn. split; [|done]. apply lk_at_set_lnk_ne; [apply P|done].
    + intros b s H. by apply str_is_set_lnk.
Qed.

(** * the result of duplicating one tree *)
Lemma elem_of_flat_list (e : fnode) cs : e ∈ flat cs <-> exists c, c ∈ cs /\ e ∈ flat_t c.
Proof.
  induction cs as [|c r IH].
  - split; [intros H; by apply elem_of_nil in H|intros (c & H & _); by apply elem_of_nil in H].
  - rewrite flat_cons, elem_of_app, IH. split.
    + intros [H|(c' & H1 & H2)]; [exists c; split; [by left|done]|exists c'; split; [by right|done]].
    + intros (c' & H1 & H2). apply elem_of_cons in H1 as [->|H1]; [by left|right; eauto].
Qed.
Lemma complete_node i d cs : (cs = [] -> rd_ref d = None) -> Forall complete cs -> complete (T i d cs).
Proof.
  intros H1 H2 i' d' He. rewrite flat_t_unfold in He. apply elem_of_cons in He as [He|He].
  - injection He as -> -> Hnil. apply H1. symmetry in Hnil. by apply fmap_nil_inv in Hnil.
  - apply elem_of_flat_list in He as (c & Hc & He). rewrite Forall_forall in H2. by apply (H2 c Hc i' d').
Qed.
Lemma complete_children i d cs : complete (T i d cs) -> Forall complete cs.
Proof.
  intros H. apply Forall_forall. intros c Hc i' d' He. apply (H i' d'). rewrite flat_t_unfold. right.
  apply elem_of_flat_list. eauto.
Qed.
Lemma complete_root i d : complete (T i d []) -> rd_ref d = None.
Proof. intros H. apply (H i d). rewrite flat_t_unfold. by left. Qed.

Section Loop.
  Variable oracle : nat -> bool.
  Notation ofail := (ofail oracle).
  Notation oclean := (oclean oracle).

  Definition Done g t tc g' : Prop :=
    Ext (nids (flat_t tc)) (sids (flat_t tc)) g g' /\ NoDup (nids (flat_t tc) ++ sids (flat_t tc)) /\
    Chain_ok g' [tc] None /\ Forall ref_ok (flat_t tc) /\ copy_of g' t tc /\ complete t /\ oclean g g'.
  Definition Post g t (r : ptr) g' : Prop :=
    (r = None /\ Ext [] [] g g' /\ (complete t -> ofail g g')) \/
    (exists tc, r = Some (tid tc) /\ Done g t tc g').
  Definition RecOK (rec : ptr -> M ptr) (lf k : nat) : Prop :=
    forall c g1, Closed g1 -> src_t g1 lf k c ->
      exists r g2, rec (Some (tid c)) g1 = Ret (r, g2) /\ Post g1 c r g2.

  Lemma ofail_weaken g gc g' : h_req g <= h_req gc -> ofail gc g' -> ofail g g'.
  Proof. intros H (j & Hj & Ho). exists j. split; [lia|done]. Qed.

  Lemma dup_loop_sim rec lf k n d depth :
    (c_CJSON_CIRCULAR_LIMIT <=? depth)%Z = false -> RecOK rec lf k ->
    forall rs fuel g gc tcs, length rs < fuel -> Partial g gc n d tcs -> oclean g gc -> src_list g lf k rs ->
    exists ok nc g',
      dup_loop rec (Some n) depth fuel (head (tid <$> rs)) (last (tid <$> tcs)) (last (tid <$> tcs)) gc
      = Ret ((ok, nc), g') /\
      exists tcs2, Partial g g' n d (tcs ++ tcs2) /\ str_mono gc g' /\
        ((ok = true /\ nc = last (tid <$> (tcs ++ tcs2)) /\ copy_list g' rs tcs2 /\ oclean g g' /\ Forall complete rs) \/
         (ok = false /\ (Forall complete rs -> ofail g g'))).
  Proof.
    intros Hd Hrec rs. induction rs as [|c r IH]; intros fuel g gc tcs Hf P Hcl Hsrc.
    - destruct fuel as [|fuel]; [cbn in Hf; lia|]. cbn [dup_loop fmap list_fmap head is_null].
      exists true, (last (tid <$> tcs)), gc. split; [reflexivity|]. exists []. rewrite app_nil_r.
      split; [done|]. split; [by intros ? ? ?|]. left. split_and!; try done.
    - destruct fuel as [|fuel]; [cbn in Hf; lia|]. cbn [dup_loop fmap list_fmap head is_null]. rewrite Hd.
      rewrite src_list_cons in Hsrc. destruct Hsrc as ((pv & Hlk) & Hc & Hr).
      pose proof (pa_frame _ _ _ _ _ P) as Frg. pose proof (pt_mono_frame _ _ _ _ Frg) as Hm.
      pose proof (src_t_mono _ _ _ _ _ Hm Hc) as Hc'.
      destruct (Hrec c gc (xt_closed _ _ _ _ Frg) Hc') as (r0 & g2 & Hrun & [(-> & Fr0 & Hof)|(tc & -> & HD)]).
      + rewrite (bindM_Ret _ _ _ _ _ Hrun). cbn [is_null].
        exists false, None, g2. split; [reflexivity|]. exists []. rewrite app_nil_r.
        split; [by eapply Partial_frame_nil|]. split; [intros b s H; by eapply str_is_frame|].
        right. split; [done|]. intros HF. apply Forall_cons in HF as [HF _].
        eapply ofail_weaken; [apply Frg|by apply Hof].
      + destruct HD as (Fr2 & ND2 & C2 & R2 & Hcp & Hcomp & Hcl2).
        rewrite (bindM_Ret _ _ _ _ _ Hrun). cbn [is_null].
        destruct (link_step_sim _ _ _ _ _ _ _ P Fr2 ND2 C2 R2) as (g3 & Hlink & P3 & Hs3 & Hreq3).
        rewrite Hlink.
        pose proof (lk_at_frame _ _ _ _ _ _ (pa_frame _ _ _ _ _ P3) Hlk) as Hlk3.
        rewrite (bindM_Ret _ _ _ _ _ (run_get_next_plain _ _ _ (proj1 Hlk3) (proj2 Hlk3))). cbn [fst].
        assert (Hlast : last (tid <$> (tcs ++ [tc])) = Some (tid tc)) by (rewrite fmap_app; apply last_snoc).
        rewrite <- Hlast.
        assert (Hcl3 : oclean g g3).
        { eapply oclean_same; [|exact Hreq3]. by eapply oclean_trans. }
        destruct (IH fuel g g3 (tcs ++ [tc]) ltac:(cbn in Hf; lia) P3 Hcl3 Hr)
          as (ok & nc & g' & Hrun' & tcs2 & P' & Hs' & Hcase).
        exists ok, nc, g'. split; [exact Hrun'|]. exists (tc :: tcs2).
        rewrite <- app_assoc in P', Hcase. cbn [app] in P', Hcase.
        assert (Hs2 : str_mono g2 g') by (intros b s H; by apply Hs', Hs3).
        split; [done|]. split; [intros b s H; apply Hs2; by eapply str_is_frame|].
        destruct Hcase as [(-> & Hnc & Hcpl & Hcl' & HF)|(-> & Hof)].
        * left. split_and!; try done.
          -- rewrite copy_list_cons. split; [by eapply copy_of_mono|done].
          -- by apply Forall_cons.
        * right. split; [done|]. intros HF. apply Forall_cons in HF as [_ HF]. by apply Hof.
  Qed.

  (** * allocation and fields of one node *)
  Lemma dup_prefix_sim (K : ptr -> M ptr) g lf i d (ks : list positive) :
    Closed g -> src_node g lf i d ks ->
    (exists g',
       (newitem <~ cJSON_New_Item oracle ;;
        if is_null newitem then dup_fail newitem else
        dup_k0 (dup_k1 oracle (dup_k2 oracle (K newitem) (Some i) newitem) (Some i) newitem) (Some i) newitem) g
       = Ret (None, g') /\ Ext [] [] g g' /\ ofail g g') \/
    (exists v kk gc,
       (newitem <~ cJSON_New_Item oracle ;;
        if is_null newitem then dup_fail newitem else
        dup_k0 (dup_k1 oracle (dup_k2 oracle (K newitem) (Some i) newitem) (Some i) newitem) (Some i) newitem) g
       = K (Some (h_next g)) gc /\
       Partial g gc (h_next g) (cp_data d v kk) [] /\ oclean g gc /\ data_copy gc d (cp_data d v kk)).
  Proof.
    intros C Hsrc. destruct (oracle (h_req g)) eqn:Ho.
    - left. exists (bump g). rewrite (bindM_Ret _ _ _ _ _ (run_New_Item_fail oracle _ Ho)).
      split; [reflexivity|]. split; [by apply Ext_bump|]. exists (h_req g). split; [cbn; lia|done].
    - rewrite (bindM_Ret _ _ _ _ _ (run_New_Item_ok oracle _ Ho)). cbn [is_null].
      set (n := h_next g). pose proof (Partial_alloc g C) as P0. fold n in P0.
      assert (Hcl0 : oclean g (alloc_node_h g)).
      { eapply oclean_step; [apply oclean_refl|exact Ho|reflexivity]. }
      destruct (dup_k0_sim (dup_k1 oracle (dup_k2 oracle (K (Some n)) (Some i) (Some n)) (Some i) (Some n))
                  _ _ i n d ks P0 (proj1 Hsrc)) as (gc0 & -> & P1 & Hreq1).
      assert (Hcl1 : oclean g gc0) by (eapply oclean_same; [exact Hcl0|exact Hreq1]).
      destruct (dup_k1_sim oracle (dup_k2 oracle (K (Some n)) (Some i) (Some n)) _ _ lf i n d ks P1 Hsrc Hcl1)
        as [(g' & -> & Hfr & Hof)|(v & gc1 & -> & P2 & Hcl2 & Hv)].
      { left. by exists g'. }
      destruct (dup_k2_sim oracle (K (Some n)) _ _ lf i n d ks v P2 Hsrc Hcl2)
        as [(g' & -> & Hfr & Hof)|(kk & gc2 & -> & P3 & Hcl3 & Hs3 & Hk)].
      { left. by exists g'. }
      right. exists v, kk, gc2. split; [reflexivity|]. split; [done|]. split; [done|].
      split_and!; try reflexivity.
      + destruct (rd_vstr d) as [b|]; [|by subst v]. destruct Hv as (b' & -> & Hb').
        exists b'. split; [done|]. by eapply str_copy_mono.
      + destruct (rd_key d) as [b|]; [|by subst kk]. destruct (is_const d); [by subst kk|].
        destruct Hk as (b' & -> & Hb'). exists b'. by split.
  Qed.
End Loop.
