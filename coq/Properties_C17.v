(** Properties_C17.v — property C17: a generated patch transforms its source into its target.
    Only statements closed by [exact]; model: create_patches / compose_patch / sort_list of
    PatchDefs.v; specification: Rfc6902.v (ops_of, eval, doc_eqb / doc_eq). *)
From CJ Require Import Base Dbl Tree PointerDefs CompareDefs PatchDefs Rfc6902
  PatchProofs PatchRobust PatchConform PatchOps PatchApply PatchSort PatchTest PatchMove PatchSeq PatchGen PatchEq PatchRound PatchObj PatchRoundAll.
Local Open Scope Z_scope.

(** Termination for EVERY pair of trees and both case modes: create_patches gets the depth of 'from',
    its member walk gets |from members| + |to members| + 1, sort_list gets |members| + 1. *)
Theorem C17_total : forall from to cs, generate_patches from to cs <> OutOfFuel.
Proof. exact generate_patches_total. Qed.
Print Assumptions C17_total.

(** For all well-formed documents (JSON types, C strings, no NaN, distinct member names; any nesting):
    the call returns a patch array; the array is empty exactly when the documents are equal (the
    executable document equality [doc_eqb] of Rfc6902.v); and both inputs come back as documents equal
    to what they were, under the same member name ([doc_eq]: only member order may have changed). *)
Theorem C17_empty_iff_and_inputs_intact : forall from to, dwf from -> dwf to ->
  exists ps f' t', cJSONUtils_GeneratePatchesCaseSensitive from to = Ok (set_children create_array ps, f', t') /\
    (ps = [] <-> doc_eqb from to = true) /\
    doc_eq f' from /\ n_key f' = n_key from /\ doc_eq t' to /\ n_key t' = n_key to.
Proof. exact generate_patches_ok. Qed.
Print Assumptions C17_empty_iff_and_inputs_intact.

(** "Empty exactly when equal", with the declarative equality: same JSON type; numbers with equal integer
    view and doubles within the library's tolerance; strings byte-equal; arrays pointwise in order;
    objects as name -> value sets. *)
Theorem C17_empty_iff : forall from to, dwf from -> dwf to ->
  exists ps f' t', cJSONUtils_GeneratePatchesCaseSensitive from to = Ok (set_children create_array ps, f', t') /\
                   (ps = [] <-> doc_eq from to).
Proof. exact generate_empty_iff. Qed.
Print Assumptions C17_empty_iff.

(** The same facts for every recursive call (any accumulated patch list [ps], any path): the call only
    appends to [ps]; it appends nothing exactly when the two subdocuments are equal. *)
Theorem C17_create_patches : forall fuel ps path from to, (node_depth from <= fuel)%nat -> dwf from -> dwf to ->
  exists new f' t', create_patches fuel ps path from to true = Ok (ps ++ new, f', t') /\
    (new = [] <-> doc_eqb from to = true) /\
    (doc_eq f' from /\ n_key f' = n_key from) /\ (doc_eq t' to /\ n_key t' = n_key to).
Proof. exact create_patches_spec. Qed.
Print Assumptions C17_create_patches.

(** Round trip, for ALL well-formed documents (null, booleans, numbers, strings, arrays, objects with distinct
    member names — including names containing '/' and '~' —, nested to any depth; 'to' no deeper than
    CJSON_CIRCULAR_LIMIT so that cJSON_Duplicate succeeds): the generated array decodes as an RFC 6902 patch
    ([ops_of]: every element an object with "op", "path" and, where required, "value"; paths built with
    sprintf "%lu" and encode_string_as_pointer parse back to the intended reference tokens), and evaluating it
    with the RFC 6902 evaluator on the ORIGINAL 'from' (members in their original order) succeeds with a
    document equal to 'to' (arrays in order, objects as name/value sets).  Array tails are removed at the index
    of the first surplus element, appended at "-"; object members are removed / added / descended into in the
    sorted merge order.
    (DESIGN also mentions the same through the model's own apply_patch: that needs C16 for operation
    sequences, which is proved per operation only — see Properties_C16.v.) *)
Theorem C17_roundtrip : forall from to, dwf from -> dwf to -> shallow to ->
  exists patches f' t' ops d,
    cJSONUtils_GeneratePatchesCaseSensitive from to = Ok (patches, f', t') /\
    ops_of patches = Some ops /\ eval from ops = Some d /\ doc_eq d to.
Proof. exact roundtrip_all. Qed.
Print Assumptions C17_roundtrip.

(** The pieces the generator relies on: sort_list returns a sorted permutation of the members (so the
    inputs keep their members), and sorted lists of distinct names list the names in one order only. *)
Theorem C17_sort_sorted_perm : forall fuel l, (length l < fuel)%nat -> keyed_children l ->
  exists r, sort_list fuel l true = Ok r /\ Permutation.Permutation l r /\ Sorted.StronglySorted kle r.
Proof. exact sort_list_sorted. Qed.
Print Assumptions C17_sort_sorted_perm.

(** non-vacuity, and a round trip through an object and a nested array on a concrete pair (the witness of
    finding F14): {"b":1,"a":2} -> {"b":1,"a":2,"c":[3]}: hypotheses hold, the documents differ, 'from'
    comes back re-ordered but equal, the patch has one operation and evaluates to a document equal to 'to'. *)
Theorem C17_nonvacuous :
  dwf g_from /\ dwf g_to /\ shallow g_to /\ doc_eqb g_from g_to = false /\
  exists patches f' t' ops d,
    cJSONUtils_GeneratePatchesCaseSensitive g_from g_to = Ok (patches, f', t') /\
    f' <> g_from /\ doc_eqb f' g_from = true /\
    ops_of patches = Some ops /\ length ops = 1%nat /\ eval g_from ops = Some d /\ doc_eqb d g_to = true /\ doc_eqb g_to d = true.
Proof. exact gen_example. Qed.
Print Assumptions C17_nonvacuous.
