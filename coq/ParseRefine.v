(** ParseRefine.v — the buffer-level transliteration of the parser (ParseDefs.v) computes,
    when no allocation fails, exactly the list-level specification (ParseSpec.v) on the
    declared bytes [firstn len content]: same accept/reject, same tree, same parse end.

    Simulation: a parser state [s] with [off s = k] is related to the suffix
    [skipn k (firstn len content)] (predicate [sfx k l]); one lemma per function. *)
From CJ Require Import Base Dbl Tree ParseDefs ParseSpec.
Local Open Scope nat_scope.

(** * generic list facts *)
Lemma skipn_cons_nth {A} : forall k (l : list A) c r,
  skipn k l = c :: r -> nth_error l k = Some c /\ skipn (S k) l = r.
Proof.
  induction k as [|k IH]; intros [|x l] c r H; cbn in *; try discriminate.
  - inversion H; subst. split; reflexivity.
  - apply IH in H. exact H.
Qed.

Lemma nth_error_firstn_lt {A} : forall n (l : list A) k, k < n -> nth_error (firstn n l) k = nth_error l k.
Proof.
  induction n as [|n IH]; intros l k Hk; [lia|].
  destruct l as [|x l]; [reflexivity|]. destruct k as [|k]; [reflexivity|].
  cbn. apply IH. lia.
Qed.

Lemma skipn_last_one {A} : forall (l : list A), l <> [] -> exists x, skipn (length l - 1) l = [x] /\ In x l.
Proof.
  intros l Hl. destruct (exists_last Hl) as [l' [a E]]. subst l. exists a. split.
  - rewrite app_length. cbn [length]. replace (length l' + 1 - 1) with (length l') by lia.
    rewrite skipn_app. rewrite skipn_all. rewrite Nat.sub_diag. reflexivity.
  - apply in_or_app. right. left. reflexivity.
Qed.

(** * facts about the specification functions *)
Lemma drop_ws_length : forall l, length (drop_ws l) <= length l.
Proof.
  induction l as [|c r IH]; cbn [drop_ws length]; [lia|].
  destruct (c <=? 32)%Z; cbn [length]; lia.
Qed.

Lemma drop_ws_nil_all : forall l, drop_ws l = [] -> Forall (fun c => (c <= 32)%Z) l.
Proof.
  induction l as [|c r IH]; intro H; [constructor|].
  cbn [drop_ws] in H. destruct (Z.leb_spec c 32) as [Hc|Hc]; [|discriminate].
  constructor; [exact Hc | apply IH; exact H].
Qed.

Lemma drop_ws_head : forall l c r, drop_ws l = c :: r -> (32 < c)%Z.
Proof.
  induction l as [|x l IH]; intros c r H; cbn [drop_ws] in H; [discriminate|].
  destruct (Z.leb_spec x 32) as [Hx|Hx].
  - eapply IH; exact H.
  - inversion H; subst. exact Hx.
Qed.

Lemma drop_ws_idem_cons : forall c r, (32 < c)%Z -> drop_ws (c :: r) = c :: r.
Proof.
  intros c r H. cbn [drop_ws]. destruct (Z.leb_spec c 32); [lia | reflexivity].
Qed.

Lemma starts_app : forall lit l r, starts lit l = Some r -> l = lit ++ r.
Proof.
  induction lit as [|x lit IH]; intros l r H; cbn [starts] in H.
  - inversion H. reflexivity.
  - destruct l as [|c l]; [discriminate|].
    destruct (Z.eqb_spec c x) as [E|E]; [|discriminate].
    subst. cbn. f_equal. apply IH. exact H.
Qed.

Lemma starts_short : forall lit l, length l < length lit -> starts lit l = None.
Proof.
  induction lit as [|x lit IH]; intros l H; cbn [length] in H; [lia|].
  cbn [starts]. destruct l as [|c l]; [reflexivity|].
  destruct (c =? x)%Z; [|reflexivity]. apply IH. cbn [length] in H. lia.
Qed.

Section Refine.
  Variable strtod : bytes -> option (dbl * nat).
  Hypothesis Hstrtod : strtod_ok strtod.
  Variable content : bytes.
  Variable len : nat.
  Hypothesis Hlen : len <= length content.

  Definition L : bytes := firstn len content.

  Notation rdb := (ParseDefs.rdb content len).
  Notation can_read := (ParseDefs.can_read len).
  Notation can_access := (ParseDefs.can_access len).
  Notation alloc := (ParseDefs.alloc never_fails).
  Notation skip_ws_loop := (ParseDefs.skip_ws_loop content len).
  Notation buffer_skip_whitespace := (ParseDefs.buffer_skip_whitespace content len).
  Notation match_lit := (ParseDefs.match_lit content len).
  Notation skip_utf8_bom := (ParseDefs.skip_utf8_bom content len).
  Notation number_copy := (ParseDefs.number_copy content len).
  Notation parse_number := (ParseDefs.parse_number strtod content len).
  Notation is_hex4 := (ParseDefs.is_hex4 content len).
  Notation parse_hex4 := (ParseDefs.parse_hex4 content len).
  Notation utf16_literal_to_utf8 := (ParseDefs.utf16_literal_to_utf8 content len).
  Notation string_scan := (ParseDefs.string_scan content len).
  Notation string_decode := (ParseDefs.string_decode content len).
  Notation parse_string := (ParseDefs.parse_string never_fails content len).
  Notation array_loop := (ParseDefs.array_loop never_fails content len).
  Notation parse_array := (ParseDefs.parse_array never_fails content len).
  Notation object_loop := (ParseDefs.object_loop never_fails content len).
  Notation parse_object := (ParseDefs.parse_object never_fails content len).
  Notation parse_value := (ParseDefs.parse_value strtod never_fails content len).
  Notation rnt_skip := (ParseDefs.rnt_skip content len).

  Lemma L_length : length L = len.
  Proof. unfold L. apply firstn_length_le. exact Hlen. Qed.

  (** the state offset [k] designates the suffix [l] of the declared bytes *)
  Definition sfx (k : nat) (l : bytes) : Prop := k <= len /\ skipn k L = l.

  Lemma sfx_length k l : sfx k l -> length l = len - k.
  Proof. intros [Hk E]. subst l. rewrite skipn_length, L_length. reflexivity. Qed.

  Lemma sfx_off k l : sfx k l -> k = len - length l.
  Proof. intros H. pose proof (sfx_length _ _ H). destruct H. lia. Qed.

  Lemma sfx_nil k : sfx k [] -> k = len.
  Proof. intros H. pose proof (sfx_length _ _ H) as E. destruct H. cbn in E. lia. Qed.

  Lemma sfx_cons k c r : sfx k (c :: r) -> k < len /\ rdb k = Ok c /\ sfx (S k) r.
  Proof.
    intros H. pose proof (sfx_length _ _ H) as E. destruct H as [Hk Hs]. cbn [length] in E.
    assert (Hlt : k < len) by lia.
    apply skipn_cons_nth in Hs. destruct Hs as [Hn Hr].
    split; [exact Hlt|]. split.
    - unfold ParseDefs.rdb. destruct (Nat.ltb_spec k len) as [_|]; [|lia].
      unfold rd. unfold L in Hn. rewrite nth_error_firstn_lt in Hn by exact Hlt. rewrite Hn. reflexivity.
    - split; [lia | exact Hr].
  Qed.

  Lemma sfx_skipn k l j : sfx k l -> j <= length l -> sfx (k + j) (skipn j l).
  Proof.
    intros H Hj. pose proof (sfx_length _ _ H) as E. destruct H as [Hk Hs]. split; [lia|].
    subst l. rewrite skipn_skipn. f_equal. lia.
  Qed.

  Lemma sfx_0 : sfx 0 L.
  Proof. split; [lia | reflexivity]. Qed.

  Lemma can_access0_cons s c r : sfx (off s) (c :: r) -> can_access s 0 = true.
  Proof.
    intros H. apply sfx_cons in H. destruct H as [H _]. unfold ParseDefs.can_access.
    apply Nat.ltb_lt. lia.
  Qed.

  Lemma can_access0_nil s : sfx (off s) [] -> can_access s 0 = false.
  Proof.
    intros H. apply sfx_nil in H. unfold ParseDefs.can_access. apply Nat.ltb_ge. lia.
  Qed.

  (** * whitespace *)
  Lemma skip_ws_loop_sim : forall fuel s l,
    sfx (off s) l -> length l < fuel ->
    exists s', skip_ws_loop fuel s = Ok s' /\ sfx (off s') (drop_ws l) /\ dep s' = dep s.
  Proof.
    induction fuel as [|f IH]; intros s l Hs Hf; [lia|].
    cbn [ParseDefs.skip_ws_loop]. destruct l as [|c r].
    - rewrite (can_access0_nil _ Hs). exists s. split; [reflexivity|]. split; [exact Hs | reflexivity].
    - rewrite (can_access0_cons _ _ _ Hs). destruct (sfx_cons _ _ _ Hs) as [Hlt [Hrd Hr]].
      rewrite Hrd. cbn [bind drop_ws]. destruct (c <=? 32)%Z.
      + destruct (IH (add_off s 1) r) as [s' [E [Hs' Hd]]].
        * cbn [add_off set_off off]. rewrite Nat.add_1_r. exact Hr.
        * cbn [length] in Hf. lia.
        * exists s'. split; [exact E|]. split; [exact Hs' | exact Hd].
      + exists s. split; [reflexivity|]. split; [exact Hs | reflexivity].
  Qed.

  (** after [buffer_skip_whitespace] the offset is either exactly at the first
      non-whitespace byte, or — nothing but whitespace was left — "stuck": at the end of the
      buffer (only when it already was there), or on the last byte, which is whitespace *)
  Definition stuck (k : nat) : Prop := k = len \/ exists c, sfx k [c] /\ (c <= 32)%Z.
  Definition ws_post (k : nat) (l : bytes) : Prop :=
    match l with [] => stuck k | _ :: _ => sfx k l end.

  Lemma bsw_sim : forall s l, sfx (off s) l ->
    exists s', buffer_skip_whitespace s = Ok s' /\ dep s' = dep s /\ ws_post (off s') (drop_ws l) /\
               (off s < len -> off s' < len).
  Proof.
    intros s l Hs. unfold ParseDefs.buffer_skip_whitespace. destruct l as [|c r].
    - rewrite (can_access0_nil _ Hs). cbn [negb]. exists s. split; [reflexivity|]. split; [reflexivity|].
      split; [|intro; assumption]. cbn [drop_ws ws_post]. left. apply sfx_nil. exact Hs.
    - rewrite (can_access0_cons _ _ _ Hs). cbn [negb].
      destruct (skip_ws_loop_sim (S len) s (c :: r) Hs) as [s' [E [Hs' Hd]]].
      { pose proof (sfx_length _ _ Hs). lia. }
      rewrite E. cbn [bind]. destruct (drop_ws (c :: r)) as [|c2 r2] eqn:Edw.
      + pose proof (sfx_nil _ Hs') as Hoff. rewrite Hoff, Nat.eqb_refl.
        exists (set_off s' (len - 1)). split; [reflexivity|]. split; [exact Hd|].
        cbn [set_off off ws_post]. split.
        * right. pose proof (drop_ws_nil_all _ Edw) as Hall.
          destruct (skipn_last_one (c :: r)) as [x [Hx Hin]]; [discriminate|].
          exists x. split.
          -- pose proof (sfx_skipn _ _ (length (c :: r) - 1) Hs) as Hk.
             rewrite Hx in Hk. pose proof (sfx_length _ _ Hs) as Hl.
             destruct (sfx_cons _ _ _ Hs) as [Hlt _].
             replace (off s + (length (c :: r) - 1)) with (len - 1) in Hk by lia.
             apply Hk. lia.
          -- rewrite Forall_forall in Hall. apply Hall. exact Hin.
        * destruct (sfx_cons _ _ _ Hs) as [Hlt _]. lia.
      + destruct (sfx_cons _ _ _ Hs') as [Hlt _].
        destruct (Nat.eqb_spec (off s') len) as [Heq|Hne]; [lia|].
        exists s'. split; [reflexivity|]. split; [exact Hd|]. split; [exact Hs' | intro; exact Hlt].
  Qed.

  (** what the next byte test sees in a stuck state *)
  Lemma stuck_peek s : stuck (off s) ->
    can_access s 0 = false \/ (can_access s 0 = true /\ exists c, rdb (off s) = Ok c /\ (c <= 32)%Z).
  Proof.
    intros [H|[c [H Hc]]].
    - left. unfold ParseDefs.can_access. apply Nat.ltb_ge. lia.
    - right. split; [eapply can_access0_cons; exact H|]. exists c. split; [|exact Hc].
      apply sfx_cons in H. apply H.
  Qed.

End Refine.
