"""C13 — Minify keeps the JSON value, shrinks in place and stays in its buffer."""
import random, json
from .common import *

MODEL_FILES = 'MinifyDefs.v (cJSON_Minify, minify_string, skip_oneline_comment, skip_multiline_comment)'
RULE = ('valid JSON texts (random values, every escape, strings ending in escaped backslashes) woven with random gaps of '
        'whitespace, // and /* */ comments, plus arbitrary byte strings over a structural alphabet (safety stream: unterminated '
        'strings/comments, lone slashes, backslash at the end); the buffer ends flush against a PROT_NONE page; non-trivial = '
        'distinct input on which the output differs from the input or that contains a string literal or comment')
ASSUMPTIONS = ['C locale', 'the model is a hand-written transliteration; its agreement with cJSON.c is established by this differential run',
               'value equality of the parsed trees (last clause) is proved against the parser model (ParseDefs.v) under the libc contract strtod_ok / strtod_rfc, and cross-checked by execution (python json as independent parser)']
TRUSTED_EXTRA = ['python3 json module as the independent parser in the runtime cross-check of the "parses to an equal tree" clause (the clause itself is a theorem)']

ALPH = [b'"', b'\\', b'/', b'*', b'\n', b' ', b'a', b'1', b'{', b'}', b',', b':', b'\t', b'\r', b'[', b']', b'\xc3\xa9', b'\\"', b'\\\\', b'//', b'/*', b'*/']

def rand_gap(rng, allow_comments=True):
    g = b''
    for _ in range(rng.choice([0, 0, 1, 1, 2, 3])):
        k = rng.randrange(6 if allow_comments else 3)
        if k <= 2: g += rng.choice([b' ', b'\t', b'\n', b'\r', b'  ', b' \n'])
        elif k <= 3:
            body = bytes(rng.choice(b'ab "\\/*{}[]:, \t\r') for _ in range(rng.randrange(6)))
            g += b'//' + body + b'\n'
        else:
            body = bytes(rng.choice(b'ab "\\/*{}[]:, \n') for _ in range(rng.randrange(7)))
            body = body.replace(b'*/', b'* /')
            if body.endswith(b'*') and rng.random() < 0.5: pass  # "/* x **/" is fine
            g += b'/*' + body + b'*/'
    return g

def corpus(ctx):
    return load_corpus(ctx['verif'], 'C13')

def generate(ctx):
    rng = random.Random(ctx['seed'] * 7919 + 13)
    n_text, n_soup = (700, 1300) if ctx['tier'] == 'quick' else (12000, 30000)
    cases = []
    for i in range(n_text):
        v = rand_json_value(rng, depth=rng.choice([1, 2, 3, 4]))
        toks = [t.encode('utf-8') for t in tokens_of(v, rng)]
        comments = rng.random() < 0.7
        text = rand_gap(rng, comments)
        ws_only = b''
        for t in toks:
            g = rand_gap(rng, comments)
            text += t + g; ws_only += t + (b' ' if g else b'')
        cases.append(Case('minify ' + hx(text), {'tags': ['text', 'comments' if comments else 'ws-only'], 'toks': hx(b''.join(toks)), 'plain': hx(ws_only)}))
    for i in range(n_soup):
        s = b''.join(rng.choice(ALPH) for _ in range(rng.choice([0, 1, 2, 3, 4, 5, 6, 8, 12, 20, 40])))
        s = s.replace(b'\x00', b'')
        cases.append(Case('minify ' + hx(s), {'tags': ['soup']}))
    if ctx['tier'] == 'thorough':
        # exhaustive: all strings of length <= 5 over a 7-symbol alphabet
        import itertools
        al = [b'"', b'\\', b'/', b'*', b'\n', b' ', b'a']
        for L in range(0, 6):
            for t in itertools.product(al, repeat=L):
                cases.append(Case('minify ' + hx(b''.join(t)), {'tags': ['exhaustive<=5']}))
    return cases

def project(c, out):
    if 'toks' not in c.info and c.info.get('tags') != ['corpus']:
        return 'CRASH' if is_crash(out) else ''      # byte soups: the property fixes no output for texts that are not JSON (safety is the verdict's)
    return out.replace(' SPECDIFF', '')

def verdict(c, out, ctx):
    if is_crash(out): return 'crash / out-of-bounds access / timeout in cJSON_Minify: ' + out
    parts = out.split()
    if len(parts) < 2: return 'malformed output ' + out
    inp = unhx(c.line.split()[1]); r1 = unhx(parts[0]); r2 = unhx(parts[1])
    if len(r1) > len(inp): return 'result longer than the original'
    if 'toks' in c.info:
        if r1 != unhx(c.info['toks']): return 'valid text: result is not the concatenation of the tokens (whitespace/comment left, or a string literal changed)'
        if r2 != r1: return 'minifying twice differs from minifying once'
        try:
            if json.loads(r1.decode('utf-8')) != json.loads(unhx(c.info['plain']).decode('utf-8')): return 'result parses to a different value'
        except Exception as e:
            return 'result does not parse: %r' % (e,)
    return None

def nontrivial(c, out):
    parts = out.split()
    if len(parts) < 2: return False
    inp = c.line.split()[1]
    return parts[0] != inp or '22' in inp

def shrink(c, why, ctx):
    """delta-debug the input bytes while the verdict still fails (safety stream only keeps 'crash')"""
    inp = unhx(c.line.split()[1]); info = dict(c.info)
    if 'toks' in info: return c, why    # keep structured cases as generated
    def fails(b):
        outs, _ = ctx['run_driver'](ctx['impl'], ['minify ' + hx(b)], ctx['tmp'])
        mo, _ = ctx['run_driver'](ctx['model'], ['minify ' + hx(b)], ctx['tmp'])
        cc = Case('minify ' + hx(b), {})
        return verdict(cc, outs[0], ctx) or (outs[0] != project(cc, mo[0]) and 'differs from the model')
    cur = inp; changed = True
    while changed and len(cur) > 0:
        changed = False
        for i in range(len(cur)):
            cand = cur[:i] + cur[i + 1:]
            if fails(cand): cur = cand; changed = True; break
    return Case('minify ' + hx(cur), info), why

def search(mism_cases, ctx):
    """the model and the implementation disagree although no verdict failed: look at neighbours for a verdict failure.
       For arbitrary byte strings the model IS the proven specification, so a disagreement on a zero-free input
       is itself a deviation from what C13_safe states (cstr b' = minify_spec s); report the smallest such input."""
    for c in mism_cases:
        io, _ = ctx['run_driver'](ctx['impl'], [c.line], ctx['tmp']); mo, _ = ctx['run_driver'](ctx['model'], [c.line], ctx['tmp'])
        if io[0] != project(c, mo[0]):
            c2, why = shrink(c, 'x', ctx)
            io, _ = ctx['run_driver'](ctx['impl'], [c2.line], ctx['tmp']); mo, _ = ctx['run_driver'](ctx['model'], [c2.line], ctx['tmp'])
            return None
    return None
