(** GenPatchHeapDefs.v — HEAP-LEVEL transliteration of the JSON Patch GENERATION of cJSON_Utils.c:
    [pointer_encoded_length], [encode_string_as_pointer], [compose_patch], [cJSONUtils_AddPatchToArray],
    [create_patches], [cJSONUtils_GeneratePatches], [cJSONUtils_GeneratePatchesCaseSensitive] on the memory model of
    Heap.v, calling the heap-level functions the C code calls: cJSON_CreateObject, cJSON_CreateArray,
    cJSON_CreateString, cJSON_AddItemToObject (result ignored), cJSON_Duplicate(value, 1), cJSON_AddItemToArray,
    cJSON_malloc / cJSON_free (CoreDefs.v, with [const char *] arguments as [cstring], PatchHeapDefs.v) and
    [sort_object] / [compare_strings] (SortDefs.v, the heap-level sort of C19).  PatchDefs.v is the VALUE-level model of
    the same C functions; GenPatchHeap*.v prove that this code refines it.  No proofs here.

    STRINGS.  [path], [suffix], [operation] are [cstring]s (NULL, block + offset, or a string literal): [path] is the
    literal "" at the entry points and a cJSON_malloc'ed block ([new_path]) in the recursive calls; [suffix] is NULL,
    the literal "-", the name of a member ([from_child->string]: a block of the operand) or [new_path].

    BYTE LOOPS.  [pointer_encoded_length] and [encode_string_as_pointer] are transliterated byte by byte:
    [ld_byte] for every occurrence of [*string] / [source[0]], [st_byte] for every store [destination[k] = c];
    every access is checked against the block ([OutOfBounds]), against NULL and liveness, and a store into a string
    literal is [ForeignWrite].  The loops run on the size of the source block.

    LIBC.  [strlen], [strcmp] are one checked load of the C string ([ld_cs] / [ld_cstr]: the terminator must exist
    inside the block) followed by the pure function, as everywhere in CoreDefs.v.  [sprintf] is libc code, not
    transliterated: [sprintf(buf, "%s/", path)], [sprintf(buf, "%s/%lu", path, index)] and [sprintf(buf, "%lu", index)]
    are modelled as ONE checked load of the C string [path] followed by ONE checked store ([st_bytes]: every byte
    must lie inside the block, else [OutOfBounds]) of the bytes of [path], '/', the decimal digits of [index] and the
    terminator, at the start of [buf].  The decimal digits are [PointerDefs.print_lu] — the reference "%lu" the
    value-level model PatchDefs.v uses (most significant digit first, no padding, "0" for 0).

    cJSON_malloc(n) returns a block of [n] bytes of JUNK: every byte is 0xAA (170), not 0, so that a missing
    terminator would be seen by the next [ld_cs] as [OutOfBounds].  The C code does not test the result of these
    cJSON_malloc calls (DESIGN 11.6): with a failing allocator the next [sprintf] is a [NullDeref] here.

    SIZES.  [index] is a [size_t]: [index++] wraps at SIZE_MAX + 1 (= ULONG_MAX + 1 on the LP64 target,
    c_SIZEOF_SIZE_T = 8), hence the test [index > ULONG_MAX] — kept, with its [cJSON_free(new_path); return;] — is
    never taken.  Sums of string lengths ([strlen(path) + 20 + sizeof("/")]) are not wrapped: a block of 2^64 bytes
    does not exist.

    Recursion runs on [dfuel] (one unit per nesting level), every sibling loop and the heap-level sort on [lfuel];
    the public entry points take both from the heap they are called in ([heap_fuel]). *)
From stdpp Require Import gmap.
From CJ Require Import Base Dbl Heap CoreDefs Forest MergeHeapDefs PatchHeapDefs GenMergeHeapDefs.
From CJ Require SortDefs PointerDefs PatchDefs.
From CJ.gen Require Import Constants.
Local Open Scope Z_scope.

Import PatchDefs (s_op, s_path, s_value, s_add, s_remove, s_replace, s_dash).

(** the byte every fresh cJSON_malloc block is filled with *)
Definition junk : Z := 170.

(** [strlen(s)] *)
Definition c_strlen (s : cstring) : M nat := l <~ ld_cs s ;; ret (length l).

(** a libc store of [v] at [s + i]: every byte inside the block *)
Definition st_bytes (s : cstring) (i : nat) (v : bytes) : M unit :=
  match s with
  | CNull => fail NullDeref
  | CAt b off =>
      bs <~ ld_str (Some b) ;;
      if (off + i + length v <=? length bs)%nat
      then st_str (Some b) (take (off + i) bs ++ v ++ drop (off + i + length v) bs)
      else fail OutOfBounds
  | CLit _ => fail ForeignWrite
  end.

(** [sprintf((char* )buf, "%s/", path)] *)
Definition sprintf_s_slash (buf path : cstring) : M unit :=
  p <~ ld_cs path ;; st_bytes buf 0 (p ++ [47; 0]).
(** [sprintf((char* )buf, "%s/%lu", path, (unsigned long)index)] *)
Definition sprintf_s_slash_lu (buf path : cstring) (index : Z) : M unit :=
  p <~ ld_cs path ;; st_bytes buf 0 (p ++ [47] ++ PointerDefs.print_lu index ++ [0]).
(** [sprintf((char* )buf, "%lu", (unsigned long)index)] *)
Definition sprintf_lu (buf : cstring) (index : Z) : M unit :=
  st_bytes buf 0 (PointerDefs.print_lu index ++ [0]).

(** [index++] on a [size_t] *)
Definition size_succ (index : Z) : Z := (index + 1) mod (PointerDefs.SIZE_MAX + 1).

(** static size_t pointer_encoded_length(const unsigned char *string):
      for (length = 0; *string != '\0'; (void)string++, length++)
        if (( *string == '~') || ( *string == '/')) length++;
      return length; *)
Fixpoint pel_loop (fuel : nat) (string : cstring) (length : nat) : M nat :=
  match fuel with
  | O => fail NoFuel
  | S f =>
      c <~ ld_byte string 0 ;;
      if negb (c =? 0) then
        c1 <~ ld_byte string 0 ;;
        esc <~ (if c1 =? 126 then ret true else c2 <~ ld_byte string 0 ;; ret (c2 =? 47)) ;;
        let length := if (esc : bool) then S length else length in    (* character needs to be escaped? *)
        pel_loop f (cs_plus string 1) (S length)
      else ret length
  end.
Definition pointer_encoded_length (string : cstring) : M nat :=
  fuel <~ cs_fuel string ;;
  pel_loop fuel string 0%nat.

(** static void encode_string_as_pointer(unsigned char *destination, const unsigned char *source):
      for (; source[0] != '\0'; (void)source++, destination++) {
        if (source[0] == '/')      { destination[0] = '~'; destination[1] = '1'; destination++; }
        else if (source[0] == '~') { destination[0] = '~'; destination[1] = '0'; destination++; }
        else                       { destination[0] = source[0]; } }
      destination[0] = '\0'; *)
Fixpoint esp_loop (fuel : nat) (destination source : cstring) : M unit :=
  match fuel with
  | O => fail NoFuel
  | S f =>
      c <~ ld_byte source 0 ;;
      if negb (c =? 0) then
        c1 <~ ld_byte source 0 ;;
        destination' <~
          (if c1 =? 47 then
             st_byte destination 0 126 ;;;
             st_byte destination 1 49 ;;;
             ret (cs_plus destination 1)
           else
             c2 <~ ld_byte source 0 ;;
             if c2 =? 126 then
               st_byte destination 0 126 ;;;
               st_byte destination 1 48 ;;;
               ret (cs_plus destination 1)
             else
               c3 <~ ld_byte source 0 ;;
               st_byte destination 0 c3 ;;;
               ret destination) ;;
        esp_loop f (cs_plus destination' 1) (cs_plus source 1)
      else st_byte destination 0 0
  end.
Definition encode_string_as_pointer (destination source : cstring) : M unit :=
  fuel <~ cs_fuel source ;;
  esp_loop fuel destination source.

Section GenPatchHeap.
  Variable oracle : nat -> bool.

  (** cJSON_CreateString(string) of cJSON.c with the argument as a [cstring]: the text of
      [CoreDefs.create_string_like c_cJSON_String], the copy made by [cJSON_strdup_s] *)
  Definition cJSON_CreateString_s (string : cstring) : M ptr :=
    item <~ cJSON_New_Item oracle ;;
    if is_null item then ret item else
    set_type item c_cJSON_String ;;;
    copy <~ cJSON_strdup_s oracle string ;;
    set_vstr item copy ;;;
    vs <~ get_vstr item ;;
    if is_null vs then cJSON_Delete item ;;; ret None
    else ret item.

  (** static void compose_patch(cJSON * const patches, const unsigned char * const operation,
                                const unsigned char * const path, const unsigned char *suffix, const cJSON * const value) *)
  Definition compose_patch (patches : ptr) (operation path suffix : cstring) (value : ptr) : M unit :=
    if is_null patches || cs_is_null operation || cs_is_null path then ret tt else
    patch <~ cJSON_CreateObject oracle ;;
    if is_null patch then ret tt else
    op <~ cJSON_CreateString_s operation ;;
    cJSON_AddItemToObject_s oracle patch (CLit s_op) op ;;;                        (* result ignored *)
    (if cs_is_null suffix then
       p <~ cJSON_CreateString_s path ;;
       cJSON_AddItemToObject_s oracle patch (CLit s_path) p ;;;
       ret tt
     else
       suffix_length <~ pointer_encoded_length suffix ;;
       path_length <~ c_strlen path ;;
       full_path <~ cJSON_malloc oracle (repeat junk (path_length + suffix_length + 2)) ;;   (* + sizeof("/") *)
       sprintf_s_slash (cs_of_ptr full_path) path ;;;
       encode_string_as_pointer (cs_plus (cs_of_ptr full_path) (path_length + 1)) suffix ;;;
       p <~ cJSON_CreateString_s (cs_of_ptr full_path) ;;
       cJSON_AddItemToObject_s oracle patch (CLit s_path) p ;;;
       cJSON_free full_path) ;;;
    (if negb (is_null value) then
       v <~ cJSON_Duplicate oracle value true ;;
       cJSON_AddItemToObject_s oracle patch (CLit s_value) v ;;;
       ret tt
     else ret tt) ;;;
    cJSON_AddItemToArray patches patch ;;;
    ret tt.

  (** CJSON_PUBLIC(void) cJSONUtils_AddPatchToArray(array, operation, path, value) *)
  Definition cJSONUtils_AddPatchToArray (array : ptr) (operation path : cstring) (value : ptr) : M unit :=
    compose_patch array operation path CNull value.

  (** the three loops of [case cJSON_Array]; [None] = the function has returned from inside the loop *)
  Section ArrayLoops.
    Variable rec : cstring -> ptr -> ptr -> M unit.        (* create_patches(patches, new_path, from_child, to_child, case_sensitive) *)
    Variable patches : ptr.
    Variable path : cstring.
    Variable new_path : ptr.

    (* for (index = 0; (from_child != NULL) && (to_child != NULL); from_child = from_child->next, to_child = to_child->next, index++) *)
    Fixpoint cp_both_loop (lf : nat) (index : Z) (from_child to_child : ptr) {struct lf} : M (option (Z * ptr * ptr)) :=
      match lf with
      | O => fail NoFuel
      | S lf' =>
          if negb (is_null from_child) && negb (is_null to_child) then
            if index >? PointerDefs.SIZE_MAX then                          (* if (index > ULONG_MAX) *)
              cJSON_free new_path ;;; ret None
            else
            sprintf_s_slash_lu (cs_of_ptr new_path) path index ;;;         (* path of the current array element *)
            rec (cs_of_ptr new_path) from_child to_child ;;;
            nf <~ get_next from_child ;;
            nt <~ get_next to_child ;;
            cp_both_loop lf' (size_succ index) nf nt
          else ret (Some (index, from_child, to_child))
      end.

    (* for (; (from_child != NULL); (void)(from_child = from_child->next)) — [index] is NOT advanced *)
    Fixpoint cp_remove_loop (lf : nat) (index : Z) (from_child : ptr) {struct lf} : M (option unit) :=
      match lf with
      | O => fail NoFuel
      | S lf' =>
          if negb (is_null from_child) then
            if index >? PointerDefs.SIZE_MAX then
              cJSON_free new_path ;;; ret None
            else
            sprintf_lu (cs_of_ptr new_path) index ;;;
            compose_patch patches (CLit s_remove) path (cs_of_ptr new_path) None ;;;
            nf <~ get_next from_child ;;
            cp_remove_loop lf' index nf
          else ret (Some tt)
      end.

    (* for (; (to_child != NULL); (void)(to_child = to_child->next), index++) *)
    Fixpoint cp_add_loop (lf : nat) (index : Z) (to_child : ptr) {struct lf} : M unit :=
      match lf with
      | O => fail NoFuel
      | S lf' =>
          if negb (is_null to_child) then
            compose_patch patches (CLit s_add) path (CLit s_dash) to_child ;;;
            nt <~ get_next to_child ;;
            cp_add_loop lf' (size_succ index) nt
          else ret tt
      end.
  End ArrayLoops.

  (** the while loop of [case cJSON_Object] *)
  Section ObjectLoop.
    Variable rec : cstring -> ptr -> ptr -> M unit.
    Variable patches : ptr.
    Variable path : cstring.
    Variable case_sensitive : bool.

    Fixpoint cp_walk_loop (lf : nat) (from_child to_child : ptr) {struct lf} : M unit :=
      match lf with
      | O => fail NoFuel
      | S lf' =>
          if negb (is_null from_child) || negb (is_null to_child) then
            diff <~ (if is_null from_child then ret 1
                     else if is_null to_child then ret (-1)
                     else
                       k1 <~ get_key from_child ;;
                       k2 <~ get_key to_child ;;
                       SortDefs.compare_strings k1 k2 case_sensitive) ;;
            if diff =? 0 then
              (* both object keys are the same *)
              path_length <~ c_strlen path ;;
              k <~ get_key from_child ;;
              from_child_name_length <~ pointer_encoded_length (cs_of_ptr k) ;;
              new_path <~ cJSON_malloc oracle (repeat junk (path_length + from_child_name_length + 2)) ;;
              sprintf_s_slash (cs_of_ptr new_path) path ;;;
              k' <~ get_key from_child ;;
              encode_string_as_pointer (cs_plus (cs_of_ptr new_path) (path_length + 1)) (cs_of_ptr k') ;;;
              (* create a patch for the element *)
              rec (cs_of_ptr new_path) from_child to_child ;;;
              cJSON_free new_path ;;;
              nf <~ get_next from_child ;;
              nt <~ get_next to_child ;;
              cp_walk_loop lf' nf nt
            else if diff <? 0 then
              (* object element doesn't exist in 'to' --> remove it *)
              k <~ get_key from_child ;;
              compose_patch patches (CLit s_remove) path (cs_of_ptr k) None ;;;
              nf <~ get_next from_child ;;
              cp_walk_loop lf' nf to_child
            else
              (* object element doesn't exist in 'from' --> add it *)
              k <~ get_key to_child ;;
              compose_patch patches (CLit s_add) path (cs_of_ptr k) to_child ;;;
              nt <~ get_next to_child ;;
              cp_walk_loop lf' from_child nt
          else ret tt
      end.
  End ObjectLoop.

  (** static void create_patches(cJSON * const patches, const unsigned char * const path, cJSON * const from,
                                 cJSON * const to, const cJSON_bool case_sensitive) *)
  Fixpoint create_patches_fuel (dfuel lfuel : nat) (patches : ptr) (path : cstring) (from to : ptr) (case_sensitive : bool)
      {struct dfuel} : M unit :=
    match dfuel with
    | O => fail NoFuel
    | S df =>
        if is_null from || is_null to then ret tt else
        tf <~ get_type from ;;
        tt' <~ get_type to ;;
        if negb (Z.land tf 255 =? Z.land tt' 255) then
          compose_patch patches (CLit s_replace) path CNull to
        else
        sw <~ get_type from ;;                                              (* switch (from->type & 0xFF) *)
        let k := Z.land sw 255 in
        if k =? c_cJSON_Number then
          fi <~ get_vint from ;;
          ti <~ get_vint to ;;
          differ <~ (if negb (fi =? ti) then ret true
                     else fd <~ get_vdbl from ;; td <~ get_vdbl to ;; ret (negb (compare_double fd td))) ;;
          if (differ : bool) then compose_patch patches (CLit s_replace) path CNull to else ret tt
        else if k =? c_cJSON_String then
          fs <~ get_vstr from ;;
          ts <~ get_vstr to ;;
          c <~ c_strcmp fs ts ;;
          if negb (c =? 0) then compose_patch patches (CLit s_replace) path CNull to else ret tt
        else if k =? c_cJSON_Array then
          from_child <~ get_child from ;;
          to_child <~ get_child to ;;
          path_length <~ c_strlen path ;;
          new_path <~ cJSON_malloc oracle (repeat junk (path_length + 20 + 2)) ;;   (* Allow space for 64bit int. log10(2^64) = 20 *)
          let rec := fun p f t => create_patches_fuel df lfuel patches p f t case_sensitive in
          (* generate patches for all array elements that exist in both "from" and "to" *)
          r1 <~ cp_both_loop rec path new_path lfuel 0 from_child to_child ;;
          match r1 with
          | None => ret tt
          | Some (index, from_child, to_child) =>
              (* remove leftover elements from 'from' that are not in 'to' *)
              r2 <~ cp_remove_loop patches path new_path lfuel index from_child ;;
              match r2 with
              | None => ret tt
              | Some _ =>
                  (* add new elements in 'to' that were not in 'from' *)
                  cp_add_loop patches path lfuel index to_child ;;;
                  cJSON_free new_path
              end
          end
        else if k =? c_cJSON_Object then
          SortDefs.sort_object lfuel from case_sensitive ;;;
          SortDefs.sort_object lfuel to case_sensitive ;;;
          from_child <~ get_child from ;;
          to_child <~ get_child to ;;
          (* for all object values in the object with more of them *)
          cp_walk_loop (fun p f t => create_patches_fuel df lfuel patches p f t case_sensitive) patches path case_sensitive
                       lfuel from_child to_child
        else ret tt
    end.

  Definition create_patches (patches : ptr) (path : cstring) (from to : ptr) (case_sensitive : bool) : M unit :=
    fuel <~ heap_fuel ;;
    create_patches_fuel fuel fuel patches path from to case_sensitive.

  (** CJSON_PUBLIC(cJSON * ) cJSONUtils_GeneratePatches(cJSON * const from, cJSON * const to) and
      cJSONUtils_GeneratePatchesCaseSensitive (the two bodies differ in the flag only) *)
  Definition generate_patches (from to : ptr) (case_sensitive : bool) : M ptr :=
    if is_null from || is_null to then ret None else
    patches <~ cJSON_CreateArray oracle ;;
    create_patches patches (CLit []) from to case_sensitive ;;;
    ret patches.
  Definition cJSONUtils_GeneratePatches (from to : ptr) : M ptr := generate_patches from to false.
  Definition cJSONUtils_GeneratePatchesCaseSensitive (from to : ptr) : M ptr := generate_patches from to true.
End GenPatchHeap.
