(** CoreRefineDupUnroll.v — what [cJSON_Duplicate] reads from a node of a well-formed forest that
    may contain reference nodes with a borrowed child pointer ([rd_ref d = Some c]): the C code
    follows [item->child] regardless of the cJSON_IsReference bit, so below such a node it reads
    the chain that starts at [c] — [c] and its following siblings in the children list of its
    parent (or [c] alone when it is a root).

    * [kids F t]: the children the walk sees below forest node [t];
    * [unroll F k t]: the unrolling of [t] to [k] levels (level-[k] nodes are cut: no children,
      the real child pointer kept in [rd_ref]);
    * [src_t_unroll]: on [WF h F] with readable strings and reference targets inside [F], the heap
      reads as [unroll F k t] from every node [t] of [F];
    * [dup_copy_ref]: [dup_copy_src] for it — the copy owns copies of the borrowed chains. *)
From CJ Require Import Base Dbl Heap Forest ForestLemmas CoreSpec CoreDefs CoreRefineBase CoreRefine CoreRefineDelete
  CoreRefineDupBase CoreRefineDupTree CoreRefineDupNode CoreRefineDupLoop CoreRefineDup CoreRefineDupForest.
From CJ.gen Require Import Constants.
From stdpp Require Import gmap.
From Coq Require Import Lia.

Implicit Types (g h : heap) (i c : positive) (d : rdata) (ts cs : list tree) (F : forest).

(** the chain that starts at node [c]: [c] and its following siblings *)
Definition chain_from F c : list tree :=
  match List.find (fun n => bool_decide (c ∈ cids n)) (nodes F) with
  | Some n => match index_of c (cids n) with Some j => drop j (tchildren n) | None => [] end
  | None => match find_root c F with Some r => [r] | None => [] end
  end.

(** the children the duplication sees below a node of the forest *)
Definition kids F (t : tree) : list tree :=
  match t with
  | T i d (c :: r) => c :: r
  | T i d [] => match rd_ref d with None => [] | Some c => chain_from F c end
  end.

Definition cut_data d (ks : list positive) : rdata :=
  mkRD (rd_type d) (rd_vstr d) (rd_vint d) (rd_vdbl d) (rd_key d) (child_of d ks).

Fixpoint unroll F (k : nat) (t : tree) {struct k} : tree :=
  match k with
  | O => match t with T i d cs => T i (cut_data d (tid <$> cs)) [] end
  | S k' => match t with T i d cs => T i d (unroll F k' <$> kids F t) end
  end.

Lemma tid_unroll F k t : tid (unroll F k t) = tid t.
Proof. by destruct k, t. Qed.
Lemma tids_unroll F k ts : tid <$> (unroll F k <$> ts) = tid <$> ts.
Proof. induction ts as [|t ts IH]; [done|]. cbn. by rewrite tid_unroll, IH. Qed.

(** every reference target is a node of the forest *)
Definition refs_in F : Prop :=
  forall i d (ks : list positive) c, (i, d, ks) ∈ flat F -> rd_ref d = Some c -> c ∈ ids F.
(** the strings of every node are readable *)
Definition all_readable h F : Prop :=
  forall i d (ks : list positive), (i, d, ks) ∈ flat F ->
    (forall b, rd_vstr d = Some b -> readable h b) /\
    (forall b, rd_key d = Some b -> is_const d = false -> readable h b).

(** where a chain comes from *)
Lemma chain_from_cases F c :
  NoDup (ids F) -> c ∈ ids F ->
  (exists p dp csp j, T p dp csp ∈ nodes F /\ (tid <$> csp) !! j = Some c /\ chain_from F c = drop j csp) \/
  (exists r, r ∈ F /\ tid r = c /\ chain_from F c = [r]).
Proof.
  intros ND Hc. unfold chain_from.
  destruct (List.find (fun n => bool_decide (c ∈ cids n)) (nodes F)) as [[p dp csp]|] eqn:Ef.
  - left. apply find_some in Ef as [Hn Hb]. apply bool_decide_eq_true in Hb. unfold cids in Hb. cbn in Hb.
    assert (NDc : NoDup (tid <$> csp)).
    { pose proof (elem_of_flat F _ ltac:(by apply elem_of_list_In)) as He. cbn in He.
      apply elem_of_Permutation in He as [FL HFL].
      destruct (heap_lnk_of_focus _ _ _ _ _ _ ND (reflexivity _) HFL) as [_ HN]. by apply NoDup_app in HN as [? _]. }
    apply elem_of_list_lookup in Hb as [j Hj].
    exists p, dp, csp, j. split; [by apply elem_of_list_In|]. split; [done|].
    unfold cids. cbn. by rewrite (index_of_lookup _ _ _ NDc Hj).
  - right. rewrite <- lnk_keys_ids in Hc. apply elem_of_app in Hc as [Hr|Hch].
    + apply elem_of_list_fmap in Hr as (r & -> & Hr). exists r. split; [done|]. split; [done|].
      destruct (find_root (tid r) F) as [r'|] eqn:Er.
      * apply find_root_Some in Er as [Hr' Ht].
        assert (r' = r) as ->; [|done].
        apply (NoDup_fmap_inj_on tid F); [by apply NoDup_roots|done|done|done].
      * exfalso. unfold find_root in Er. pose proof (find_none _ _ Er r ltac:(by apply elem_of_list_In)) as Hb.
        cbn in Hb. by rewrite bool_decide_eq_true_2 in Hb.
    + exfalso. apply elem_of_list_bind in Hch as ([[i d] ks] & Hk & He). cbn in Hk.
      apply elem_of_list_fmap in He as (n & Hn & Hnn).
      pose proof (find_none _ _ Ef n ltac:(by apply elem_of_list_In)) as Hb. cbn in Hb.
      apply bool_decide_eq_false in Hb. apply Hb. destruct n as [i' d' cs']. injection Hn as -> -> ->. done.
Qed.

(** sibling links of a suffix of a children list, for any trees carrying the right identities *)
Lemma src_list_of_ids h lf k F i d (ks : list positive) :
  WF h F -> (i, d, ks) ∈ flat F ->
  forall pre us, ks = pre ++ (tid <$> us) -> Forall (src_t h lf k) us -> src_list h lf k us.
Proof.
  intros W He pre us. revert pre. induction us as [|u r IH]; intros pre E HF; [done|].
  apply Forall_cons in HF as [Hu HF]. rewrite src_list_cons. split; [|split; [done|]].
  - assert (Hj : ks !! length pre = Some (tid u)).
    { rewrite E. rewrite lookup_app_r by done. by rewrite Nat.sub_diag. }
    exists (link_at ks (length pre)).2. split.
    + apply (WF_ids_live _ _ _ W). eapply cids_in_ids; [exact He|]. by eapply elem_of_list_lookup_2.
    + rewrite (WF_lookup_lnk_child _ _ _ _ _ _ _ W He Hj). unfold link_at. cbn [fst snd]. f_equal. f_equal.
      rewrite E. rewrite lookup_app_r by lia.
      replace (S (length pre) - length pre) with 1 by lia. cbn. by rewrite head_lookup.
  - apply (IH (pre ++ [tid u])); [by rewrite <- app_assoc|done].
Qed.

Section Unroll.
  Context (h : heap) (F : forest).
  Hypothesis W : WF h F.
  Hypothesis RI : refs_in F.
  Hypothesis AR : all_readable h F.
  Notation lf := (Pos.to_nat (h_next h)).

  Local Lemma node_facts i d cs :
    T i d cs ∈ nodes F ->
    (i, d, tid <$> cs) ∈ flat F /\ nd_at h i (mk_dat d (tid <$> cs)) /\ length (tid <$> cs) < lf.
  Proof.
    intros Hn. assert (He : (i, d, tid <$> cs) ∈ flat F) by (apply (elem_of_flat F (T i d cs)); done).
    split; [done|]. split.
    - split; [|by apply (WF_lookup_dat _ _ _ _ _ W He)].
      apply (WF_ids_live _ _ _ W). rewrite ids_flat. apply elem_of_list_fmap. by exists (i, d, tid <$> cs).
    - by apply (chain_fuel _ _ _ _ _ W He).
  Qed.

  (** the children seen below a node: members of the forest, a chain in the heap, short enough,
      and starting where the node's child pointer points *)
  Local Lemma kids_facts k i d cs :
    T i d cs ∈ nodes F ->
    Forall (fun x : tree => x ∈ nodes F) (kids F (T i d cs)) /\
    (Forall (src_t h lf k) (unroll F k <$> kids F (T i d cs)) -> src_list h lf k (unroll F k <$> kids F (T i d cs))) /\
    length (kids F (T i d cs)) < lf /\
    child_of d (tid <$> kids F (T i d cs)) = child_of d (tid <$> cs) /\
    (kids F (T i d cs) = [] -> rd_ref d = None).
  Proof.
    intros Hn. destruct (node_facts _ _ _ Hn) as (He & Hnd & Hlen).
    destruct cs as [|c0 cs0].
    2:{ cbn [kids]. split_and!.
        - apply Forall_forall. intros c Hc. by eapply nodes_child.
        - intros HF. apply (src_list_of_ids h lf k F i d _ W He []); [|done]. by rewrite tids_unroll.
        - by rewrite fmap_length in Hlen.
        - done.
        - done. }
    cbn [kids]. destruct (rd_ref d) as [c|] eqn:Er.
    2:{ split_and!; try done; cbn; pose proof (Pos2Nat.is_pos (h_next h)); lia. }
    pose proof (RI _ _ _ _ He Er) as Hc.
    destruct (chain_from_cases F c (wf_nodup _ _ W) Hc) as [(p & dp & csp & j & Hp & Hj & ->)|(r & Hr & Hrc & ->)].
    - destruct (node_facts _ _ _ Hp) as (Hep & _ & Hlenp).
      assert (Hsplit : csp = take j csp ++ drop j csp) by (by rewrite take_drop).
      assert (Hjlt : j < length csp).
      { apply lookup_lt_Some in Hj. by rewrite fmap_length in Hj. }
      split_and!.
      + apply Forall_forall. intros x Hx. eapply nodes_child; [exact Hp|]. rewrite Hsplit. apply elem_of_app. by right.
      + intros HF. apply (src_list_of_ids h lf k F p dp _ W Hep (tid <$> take j csp)); [|done].
        rewrite tids_unroll. rewrite <- fmap_app. by rewrite take_drop.
      + rewrite drop_length. rewrite fmap_length in Hlenp. lia.
      + cbn [fmap list_fmap child_of]. rewrite Er. rewrite fmap_drop.
        destruct (drop j (tid <$> csp)) as [|x l] eqn:Ed.
        * apply (f_equal length) in Ed. rewrite drop_length, fmap_length in Ed. cbn in Ed. lia.
        * cbn. f_equal. pose proof (lookup_drop (tid <$> csp) j 0) as H0. rewrite Ed, Nat.add_0_r, Hj in H0.
          cbn in H0. by injection H0.
      + intros E. apply (f_equal length) in E. rewrite drop_length in E. cbn in E. lia.
    - split_and!.
      + apply Forall_singleton. by apply roots_in_nodes.
      + intros HF. cbn [fmap list_fmap] in *. apply Forall_cons in HF as [HF _]. rewrite src_list_cons.
        split; [|split; [done|done]]. exists None. cbn. rewrite tid_unroll. split.
        * apply (WF_ids_live _ _ _ W). apply roots_subseteq_ids. apply elem_of_list_fmap. by exists r.
        * apply (WF_lookup_lnk_root _ _ _ W). apply elem_of_list_fmap. by exists r.
      + cbn. pose proof (Pos2Nat.is_pos (h_next h)). destruct (Pos.to_nat (h_next h)) as [|[|m]] eqn:E; try lia.
        exfalso. assert (h_next h = 1%positive) by lia.
        pose proof (WF_ids_fresh _ _ _ W Hc) as Hlt. lia.
      + cbn. by rewrite Er, Hrc.
      + done.
  Qed.

  Theorem src_t_unroll k : forall t, t ∈ nodes F -> src_t h lf k (unroll F k t).
  Proof.
    induction k as [|k IH]; intros [i d cs] Hn; destruct (node_facts _ _ _ Hn) as (He & Hnd & Hlen).
    - cbn [unroll]. rewrite src_t_O. split; [|done]. split_and!.
      + exact Hnd.
      + cbn. pose proof (Pos2Nat.is_pos (h_next h)). lia.
      + apply (AR _ _ _ He).
      + apply (AR _ _ _ He).
    - cbn [unroll]. destruct (kids_facts k i d cs Hn) as (K1 & K2 & K3 & K4 & K5).
      rewrite src_t_S. split_and!.
      + split_and!.
        * rewrite tids_unroll. destruct Hnd as [H1 H2]. split; [done|]. rewrite H2. f_equal.
          unfold mk_dat. by rewrite K4.
        * by rewrite !fmap_length.
        * apply (AR _ _ _ He).
        * apply (AR _ _ _ He).
      + intros E. apply fmap_nil_inv in E. by apply K5.
      + apply K2. apply Forall_fmap. eapply Forall_impl; [exact K1|]. intros c Hc. by apply IH.
  Qed.
End Unroll.

(** * property C11 with reference nodes: the borrowed chains are copied *)
Theorem dup_copy_ref (oracle : nat -> bool) h F p t :
  WF h F -> Closed h -> refs_in F -> all_readable h F -> find_tree p F = Some t ->
  let u := unroll F (Z.to_nat c_CJSON_CIRCULAR_LIMIT) t in
  exists r h',
    cJSON_Duplicate oracle (Some p) true h = Ret (r, h') /\
    ((r = None /\ WF h' F /\ (NoLeak h F -> NoLeak h' F) /\
      h_lnk h' = h_lnk h /\ h_dat h' = h_dat h /\ h_str h' = h_str h /\ h_live h' = h_live h /\
      h_hooks h' = h_hooks h /\ lib_live h' = lib_live h /\ Closed h' /\ (complete u -> ofail oracle h h')) \/
     (exists tc, r = Some (tid tc) /\ WF h' (F ++ [tc]) /\ (NoLeak h F -> NoLeak h' (F ++ [tc])) /\
        copy_of h' u tc /\ complete u /\
        Ext (nids (flat_t tc)) (sids (flat_t tc)) h h' /\
        h_lnk h' !! tid tc = Some (None, None) /\
        (forall b, b ∈ owned F -> b ∉ owned [tc]) /\
        (forall b, b ∈ owned [tc] -> (h_next h <= b)%positive /\ b ∉ h_live h) /\
        oclean oracle h h')).
Proof.
  intros W C RI AR Hp u. apply find_tree_Some in Hp as [Hn <-].
  pose proof (src_t_unroll h F W RI AR (Z.to_nat c_CJSON_CIRCULAR_LIMIT) t Hn) as Hsrc.
  rewrite <- (tid_unroll F (Z.to_nat c_CJSON_CIRCULAR_LIMIT) t).
  exact (dup_copy_src oracle h F _ W C Hsrc).
Qed.

(** * a subtree higher than the limit is refused *)
Lemma height_list_gt k cs : k < height_list cs -> exists x : tree, x ∈ cs /\ k <= height x.
Proof.
  induction cs as [|a r IH]; cbn; intros H; [lia|].
  destruct (Nat.max_spec (S (height a)) (height_list r)) as [[_ E]|[_ E]]; rewrite E in H.
  - destruct (IH H) as (x & Hx & Hk). exists x. split; [by right|done].
  - exists a. split; [by left|lia].
Qed.

Lemma unroll_cut F k : forall t, k < height t -> ~ complete (unroll F k t).
Proof.
  induction k as [|k IH]; intros [i d cs] Hh Hc; rewrite height_unfold in Hh.
  - cbn [unroll] in Hc. apply complete_root in Hc. cbn in Hc.
    destruct cs as [|x r]; [cbn in Hh; lia|]. discriminate Hc.
  - destruct (height_list_gt _ _ Hh) as (x & Hin & Hk).
    cbn [unroll] in Hc. apply complete_children in Hc.
    assert (Hkids : kids F (T i d cs) = cs) by (destruct cs; [by apply elem_of_nil in Hin|done]).
    rewrite Hkids in Hc. rewrite Forall_fmap, Forall_forall in Hc.
    apply (IH x); [lia|]. by apply Hc.
Qed.

Theorem dup_too_deep (oracle : nat -> bool) h F p t :
  WF h F -> Closed h -> refs_in F -> all_readable h F -> find_tree p F = Some t ->
  Z.to_nat c_CJSON_CIRCULAR_LIMIT < height t ->
  exists h',
    cJSON_Duplicate oracle (Some p) true h = Ret (None, h') /\ WF h' F /\ (NoLeak h F -> NoLeak h' F) /\
    h_lnk h' = h_lnk h /\ h_dat h' = h_dat h /\ h_str h' = h_str h /\ h_live h' = h_live h /\
    h_hooks h' = h_hooks h /\ lib_live h' = lib_live h /\ Closed h'.
Proof.
  intros W C RI AR Hp Hh.
  destruct (dup_copy_ref oracle h F p t W C RI AR Hp) as (r & h' & Hrun & [H|H]).
  - destruct H as (-> & H2 & H3 & H4 & H5 & H6 & H7 & H8 & H9 & H10 & _). exists h'. by split_and!.
  - destruct H as (tc & _ & _ & _ & _ & Hc & _). exfalso. by apply (unroll_cut F _ t Hh).
Qed.
