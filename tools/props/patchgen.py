"""patchgen.py — documents, patch streams and an independent RFC 6902 / RFC 6901 evaluator for C16 and C17.

Python-side documents: None / bool / int / float / str / list / common.Obj([(key, value), ...]) (ordered members).
Values read back from a driver dump use NumV (integer view + double) for numbers and Bad for non-JSON node types."""
import copy, re, random
from .common import *

PKEYS = ['', '/', '~', '~0', '~1', 'a/b', 'm~n', '0', '01', 'a', 'A', 'foo', 'Foo']
PNUMS = [0, 1, -1, 2, 3, 10, 42, 1.5, -0.25, 1e15, 2147483647, 2147483648, 0.9999999999999999, 1.0, 1.0000000000000002, 1e100, 0.1,
         1e-300, 1e-20, 3e-20, -2.5e-17, 2.5e-17, 5e-324, 1e-310, 2e-310, 0.5, 0.5000000000000001, 1e15 + 1, -1e-300, 1e300, 1.0000000000000004e300]
# pairs of numbers on both sides of the tolerance test (relative DBL_EPSILON) at very different magnitudes
NUM_PAIRS = [(0, 1e-300), (1e-20, 3e-20), (-2.5e-17, 2.5e-17), (5e-324, 0), (1e-310, 2e-310), (0.5, 0.5000000000000001), (1.0, 1.0000000000000002),
             (1.0, 1.0000000000000004), (1e300, 1.0000000000000002e300), (1e300, 1.0000000000000004e300), (0.1, 0.10000000000000002), (1e15, 1e15 + 1), (0, -1e-300), (3, 3.0000000000000004)]
PSTRS = ['', 'x', 'foo', 'a/b', '~', 'hello world', 'Foo', '-', '0']
EPS = 2.220446049250313e-16


def esc(k): return k.replace('~', '~0').replace('/', '~1')


class NumV:
    __slots__ = ('vi', 'd')
    def __init__(self, vi, d): self.vi = vi; self.d = d
    def __repr__(self): return 'NumV(%r,%r)' % (self.vi, self.d)
class Bad:
    def __init__(self, ty): self.ty = ty
    def __repr__(self): return 'Bad(%r)' % self.ty


def is_num(x): return isinstance(x, (int, float, NumV)) and not isinstance(x, bool)
def num_views(x):
    if isinstance(x, NumV): return x.vi, x.d
    return sat_int(x), float(x)
def dbl_eq(a, b):
    if a != a or b != b: return False
    m = max(abs(a), abs(b))
    if m == float('inf'): return a == b
    return abs(a - b) <= m * EPS


def doc_eq(a, b):
    """equality of documents of C16-C18: numbers by integer view and tolerant double, objects as key/value sets"""
    if isinstance(a, Bad) or isinstance(b, Bad): return False
    if a is None or b is None: return a is None and b is None
    if isinstance(a, bool) or isinstance(b, bool): return isinstance(a, bool) and isinstance(b, bool) and a == b
    if is_num(a) or is_num(b):
        if not (is_num(a) and is_num(b)): return False
        (ia, da), (ib, db) = num_views(a), num_views(b)
        return ia == ib and dbl_eq(da, db)
    if isinstance(a, str) or isinstance(b, str): return isinstance(a, str) and isinstance(b, str) and a == b
    if isinstance(a, Obj) or isinstance(b, Obj):
        if not (isinstance(a, Obj) and isinstance(b, Obj)) or len(a) != len(b): return False
        db = {}
        for k, v in b: db.setdefault(k, v)
        return all(k in db and doc_eq(v, db[k]) for k, v in a) and len({k for k, _ in a}) == len(a) == len(db)
    return isinstance(a, list) and isinstance(b, list) and len(a) == len(b) and all(doc_eq(x, y) for x, y in zip(a, b))


# ------------------------------------------------------------------ RFC 6901 / 6902, written from the RFCs
class PatchError(Exception): pass        # the operation fails (RFC 6902 section 5)
class PointerSyntax(Exception): pass     # not a JSON pointer: outside the conformance claim
class Undefined(Exception): pass         # removal of the whole document

def parse_pointer(s):
    if s == '': return []
    if not s.startswith('/'): raise PointerSyntax(s)
    out = []
    for t in s[1:].split('/'):
        u = ''; i = 0
        while i < len(t):
            if t[i] == '~':
                if t[i + 1:i + 2] == '0': u += '~'
                elif t[i + 1:i + 2] == '1': u += '/'
                else: raise PointerSyntax(s)
                i += 2
            else: u += t[i]; i += 1
        out.append(u)
    return out

IDX = re.compile(r'^(0|[1-9][0-9]*)$')
def index_of(t):
    if not IDX.match(t) or not t.isascii(): raise PatchError('not an array index: %r' % t)
    return int(t)

def member_pos(o, k):
    for i, (kk, _) in enumerate(o):
        if kk == k: return i
    return None

def get(d, toks):
    for t in toks:
        if isinstance(d, Obj):
            i = member_pos(d, t)
            if i is None: raise PatchError('no member %r' % t)
            d = d[i][1]
        elif isinstance(d, list):
            i = index_of(t)
            if i >= len(d): raise PatchError('index %d out of range' % i)
            d = d[i]
        else: raise PatchError('not a container')
    return d

def add(d, toks, v):
    """returns the new document (d is modified in place below the root)"""
    if not toks: return v
    c = get(d, toks[:-1]); t = toks[-1]
    if isinstance(c, Obj):
        i = member_pos(c, t)
        if i is None: c.append((t, v))
        else: c[i] = (t, v)
    elif isinstance(c, list):
        if t == '-': c.append(v)
        else:
            i = index_of(t)
            if i > len(c): raise PatchError('index %d beyond the end' % i)
            c.insert(i, v)
    else: raise PatchError('not a container')
    return d

def remove(d, toks):
    if not toks: raise Undefined()
    c = get(d, toks[:-1]); t = toks[-1]
    if isinstance(c, Obj):
        i = member_pos(c, t)
        if i is None: raise PatchError('no member %r' % t)
        del c[i]
    elif isinstance(c, list):
        i = index_of(t)
        if i >= len(c): raise PatchError('index %d out of range' % i)
        del c[i]
    else: raise PatchError('not a container')
    return d

def has_dup_names(o): return len({k for k, _ in o}) != len(o)

def apply_op(d, o):
    """one operation object on document d (modified in place); returns the new document"""
    if not isinstance(o, Obj): raise PatchError('operation is not an object')
    m = {}
    for k, v in o: m.setdefault(k, v)
    op = m.get('op'); path = m.get('path')
    if not isinstance(op, str) or op not in ('add', 'remove', 'replace', 'move', 'copy', 'test'): raise PatchError('bad op')
    if not isinstance(path, str): raise PatchError('bad path')
    p = parse_pointer(path)
    if op in ('add', 'replace', 'test') and 'value' not in m: raise PatchError('missing value')
    if op in ('move', 'copy'):
        if not isinstance(m.get('from'), str): raise PatchError('bad from')
        f = parse_pointer(m['from'])
    if op == 'add': return add(d, p, copy.deepcopy(m['value']))
    if op == 'remove': return remove(d, p)
    if op == 'replace':
        if not p: return copy.deepcopy(m['value'])
        get(d, p)
        return add(remove(d, p), p, copy.deepcopy(m['value']))
    if op == 'test':
        if not doc_eq(get(d, p), m['value']): raise PatchError('test failed')
        return d
    if op == 'copy':
        return add(d, p, copy.deepcopy(get(d, f)))
    # move
    if len(f) < len(p) and p[:len(f)] == f: raise PatchError('move into own child')
    v = get(d, f)
    return add(remove(d, f), p, v)

def apply_patch_doc(doc, patch):
    """-> ('ok', result) | ('fail', why) | ('noclaim', why): the RFC 6902 verdict for any JSON value as patch"""
    d = copy.deepcopy(doc)
    if isinstance(patch, Obj) or not isinstance(patch, list): return ('fail', 'patch document is not an array')
    for o in patch:
        if isinstance(o, Obj) and has_dup_names(o): return ('noclaim', 'duplicate member names in an operation')
        try: d = apply_op(d, o)
        except PatchError as e: return ('fail', str(e))
        except PointerSyntax as e: return ('noclaim', 'not a JSON pointer: %r' % (e.args[0],))
        except Undefined: return ('noclaim', 'removal of the whole document')
    return ('ok', d)


# ------------------------------------------------------------------ reading driver dumps back
def parse_dump(tok, pos):
    """tokens 'N ty vs vi vd key k child...' -> (value, key, newpos)"""
    assert tok[pos] == 'N', tok[pos:pos + 8]
    ty = int(tok[pos + 1]) & 255; vs = tok[pos + 2]; vi = int(tok[pos + 3]); vd = tok[pos + 4]; key = tok[pos + 5]; k = int(tok[pos + 6])
    pos += 7; ch = []
    for _ in range(k):
        v, kk, pos = parse_dump(tok, pos); ch.append((kk, v))
    keystr = None if key == '-' else unhx(key).decode('utf-8', 'replace')
    if ty == T_NULL: val = None
    elif ty == T_TRUE: val = True
    elif ty == T_FALSE: val = False
    elif ty == T_NUMBER: val = NumV(vi, float('nan') if vd == 'nan' else bits_dbl(int(vd, 16)))
    elif ty == T_STRING: val = unhx(vs).decode('utf-8', 'replace') if vs != '-' else Bad('string without valuestring')
    elif ty == T_ARRAY: val = [v for _, v in ch]
    elif ty == T_OBJECT: val = Obj([(kk if kk is not None else '\x00nokey', v) for kk, v in ch])
    else: val = Bad(ty)
    return val, keystr, pos

def count_blocks(tok, start, end):
    """allocated blocks of the dumped trees between token positions: node + owned strings"""
    n = 0; i = start
    while i < end:
        if tok[i] == 'N' and i + 6 < len(tok):
            ty = int(tok[i + 1]); n += 1 + (tok[i + 2] != '-' and not ty & F_REF) + (tok[i + 5] != '-' and not ty & F_CONST); i += 7
        else: i += 1
    return n

def tree_len(tok, pos):
    """number of tokens of the tree starting at pos"""
    k = int(tok[pos + 6]); p = pos + 7
    for _ in range(k): p += tree_len(tok, p)
    return p - pos


# ------------------------------------------------------------------ documents
def rand_scalar(rng):
    k = rng.randrange(6)
    if k == 0: return None
    if k == 1: return rng.random() < 0.5
    if k in (2, 3): return rng.choice(PNUMS)
    return rng.choice(PSTRS)

def rand_doc(rng, depth, keys=PKEYS, root=True):
    r = rng.random()
    if depth <= 0 or (r < 0.25 and not root): return rand_scalar(rng)
    if r < 0.55: return [rand_doc(rng, depth - 1, keys, False) for _ in range(rng.choice([0, 1, 2, 2, 3, 4]))]
    ks = rng.sample(keys, rng.choice([0, 1, 2, 3, 3, 4, 5]))
    return Obj([(k, rand_doc(rng, depth - 1, keys, False)) for k in ks])

def shuffled(v, rng):
    """an equal document with the members of every object permuted"""
    if isinstance(v, Obj):
        l = [(k, shuffled(e, rng)) for k, e in v]; rng.shuffle(l); return Obj(l)
    if isinstance(v, list): return [shuffled(e, rng) for e in v]
    return v

def nodes(v, here=()):
    """(token tuple, value) of every node"""
    yield here, v
    if isinstance(v, Obj):
        for k, e in v: yield from nodes(e, here + (k,))
    elif isinstance(v, list):
        for i, e in enumerate(v): yield from nodes(e, here + (str(i),))

def ptr(toks): return ''.join('/' + esc(t) for t in toks)

def mk_op(op, path, value=Ellipsis, frm=None, order=None, rng=None):
    m = [('op', op), ('path', path)]
    if frm is not None: m.append(('from', frm))
    if value is not Ellipsis: m.append(('value', value))
    if rng is not None and rng.random() < 0.3: rng.shuffle(m)
    return Obj(m)

def mutate(v, rng, keys=PKEYS):
    """a document near v: a few random edits"""
    v = copy.deepcopy(v)
    for _ in range(rng.choice([1, 1, 2, 3])):
        ns = list(nodes(v))
        toks, x = rng.choice(ns)
        if isinstance(x, Obj) and rng.random() < 0.8:
            k = rng.randrange(4)
            if k == 0 and x: del x[rng.randrange(len(x))]
            elif k == 1:
                free = [kk for kk in keys if member_pos(x, kk) is None]
                if free: x.append((rng.choice(free), rand_doc(rng, 1, keys, False)))
            elif k == 2 and x: i = rng.randrange(len(x)); x[i] = (x[i][0], rand_doc(rng, 1, keys, False))
            else: rng.shuffle(x)
        elif isinstance(x, list) and not isinstance(x, Obj) and rng.random() < 0.8:
            k = rng.randrange(4)
            if k == 0 and x: del x[rng.randrange(len(x))]
            elif k == 1: x.append(rand_doc(rng, 1, keys, False))
            elif k == 2: x.insert(rng.randrange(len(x) + 1), rand_scalar(rng))
            elif x: del x[len(x) // 2:]
        elif toks:
            parent = get(v, list(toks[:-1]))
            nv = rand_doc(rng, 1, keys, False)
            if isinstance(parent, Obj): i = member_pos(parent, toks[-1]); parent[i] = (toks[-1], nv)
            else: parent[int(toks[-1])] = nv
        else:
            v = rand_doc(rng, 2, keys, True)
    return v
