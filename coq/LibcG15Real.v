(** LibcG15Real.v — the bridge to Flocq's real-number semantics needed for clause N4:

      [dec_exact_round]  [LibcNum.dec_to_dbl_exact] is correctly rounded: when its result is finite,
                         it is a well-formed double whose value is the nearest-even rounding of
                         m * 10^e10 (Flocq: [binary_normalize_correct], [Bdiv_correct_aux]);
      [rnd_nearest]      no well-formed double is closer to x than its rounding;
      [rv_frac], [scaled_real], [scaled_decade]
                         the value of a finite double is the fraction fmt_g works with, and the
                         result of [g_scale] is its decimal normalisation;
      [near_ZR], [near_eq_ZR]
                         the integer rounding conditions of [g_round] as inequalities on reals.
    Flocq is built on Coq's real numbers: every theorem that uses this file lists the standard
    axioms of the Reals library under [Print Assumptions]. *)
From Coq Require Import ZArith Reals List Bool Lia Lra Floats.SpecFloat.
From Flocq Require Import Core.Core IEEE754.BinarySingleNaN.
From CJ Require Import Base Dbl LibcNum LibcPrint RoundTripNum RoundTripFlocq LibcG15Scale.
Local Open Scope Z_scope.

Definition ten : radix := Build_radix 10 eq_refl.
Notation fx := (SpecFloat.fexp P E).
Notation rnd := (round radix2 fx (round_mode mode_NE)).

(** the real value of a double *)
Definition rv (d : dbl) : R := SF2R radix2 d.

Lemma IZR_pow10 k : 0 <= k -> IZR (10 ^ k) = bpow ten k.
Proof. intro H. exact (IZR_Zpower ten k H). Qed.

Lemma IZR_pow2 k : 0 <= k -> IZR (2 ^ k) = bpow radix2 k.
Proof. intro H. exact (IZR_Zpower radix2 k H). Qed.

(** * correct rounding of the reference decimal -> binary conversion *)
Lemma dec_exact_round m e10 : 0 < m -> -400 <= ndigits 2000 m + e10 <= 400 ->
  Dbl.is_finite (dec_to_dbl_exact false m e10) = true ->
  valid_binary P E (dec_to_dbl_exact false m e10) = true /\
  rv (dec_to_dbl_exact false m e10) = rnd (IZR m * bpow ten e10).
Proof.
  intros Hm Hr. unfold dec_to_dbl_exact.
  destruct (Z.eqb_spec m 0) as [|_]; [lia|].
  destruct (Z.ltb_spec 400 (ndigits 2000 m + e10)) as [|_]; [lia|].
  destruct (Z.ltb_spec (ndigits 2000 m + e10) (-400)) as [|_]; [lia|].
  destruct (Z.leb_spec 0 e10) as [He|He].
  - change (SpecFloat.binary_normalize Dbl.prec Dbl.emax (m * 10 ^ e10) 0 false)
      with (SpecFloat.binary_normalize P E (m * 10 ^ e10) 0 false).
    rewrite normalize_equiv.
    pose proof (binary_normalize_correct P E Hp53 Hm1024 mode_NE (m * 10 ^ e10) 0 false) as C.
    cbv zeta in C.
    set (z := binary_normalize P E Hp53 Hm1024 mode_NE (m * 10 ^ e10) 0 false) in *.
    assert (Ex : F2R (Float radix2 (m * 10 ^ e10) 0) = (IZR m * bpow ten e10)%R).
    { unfold F2R. cbn [Fnum Fexp bpow]. rewrite Rmult_1_r, mult_IZR, IZR_pow10 by lia. reflexivity. }
    rewrite Ex in C.
    destruct (Rlt_bool (Rabs (rnd (IZR m * bpow ten e10))) (bpow radix2 E)).
    + intros _. split; [apply valid_binary_B2SF|]. unfold rv. rewrite SF2R_B2SF. exact (proj1 C).
    + rewrite C. cbn. discriminate.
  - unfold div_to_dbl. cbn [SFdiv].
    pose proof (Bdiv_correct_aux 53 1024 Hp53 Hm1024 mode_NE false (Z.to_pos m) 0 false
                  (Z.to_pos (10 ^ (- e10))) 0) as B.
    cbv zeta in B.
    change Dbl.prec with 53. change Dbl.emax with 1024.
    destruct (SFdiv_core_binary 53 1024 (Z.pos (Z.to_pos m)) 0 (Z.pos (Z.to_pos (10 ^ (- e10)))) 0)
      as [[mz ez] lz].
    rewrite round_aux_equiv. destruct B as [V B]. cbn [xorb] in *.
    assert (PT : 0 < 10 ^ (- e10)) by (apply Z.pow_pos_nonneg; lia).
    assert (Ex : (F2R (Float radix2 (cond_Zopp false (Z.pos (Z.to_pos m))) 0) /
                  F2R (Float radix2 (cond_Zopp false (Z.pos (Z.to_pos (10 ^ (- e10))))) 0))%R
                 = (IZR m * bpow ten e10)%R).
    { unfold F2R. cbn [Fnum Fexp bpow cond_Zopp]. rewrite !Rmult_1_r.
      rewrite !Z2Pos.id by lia. rewrite IZR_pow10 by lia.
      rewrite (bpow_opp ten e10). unfold Rdiv. rewrite Rinv_inv. reflexivity. }
    rewrite Ex in B.
    destruct (Rlt_bool (Rabs (rnd (IZR m * bpow ten e10))) (bpow radix2 1024)).
    + intros _. split; [exact V|exact (proj1 B)].
    + rewrite B. cbn. discriminate.
Qed.

(** * rounding to nearest *)
Lemma rv_format d : valid_binary P E d = true -> generic_format radix2 fx (rv d).
Proof. intro H. unfold rv. rewrite <- (B2R_SF2B P E d H). apply generic_format_B2R. Qed.

Lemma rnd_nearest x d : valid_binary P E d = true -> (Rabs (rnd x - x) <= Rabs (rv d - x))%R.
Proof.
  intro H.
  destruct (round_N_pt radix2 fx (fun z => negb (Z.even z)) x) as [_ N].
  exact (N (rv d) (rv_format d H)).
Qed.

(** * the value of a finite double as the fraction fmt_g works with *)
Lemma g_den_pos e : 0 < g_den e.
Proof. unfold g_den. destruct (Z.leb_spec 0 e); [lia|]. apply Z.pow_pos_nonneg; lia. Qed.

Lemma g_num_pos m e : 0 < g_num m e.
Proof.
  unfold g_num. destruct (Z.leb_spec 0 e); [|lia]. apply Z.mul_pos_pos; [lia|]. apply Z.pow_pos_nonneg; lia.
Qed.

Lemma rv_frac m e : rv (S754_finite false m e) = (IZR (g_num m e) / IZR (g_den e))%R.
Proof.
  unfold rv, SF2R, F2R. cbn [Fnum Fexp cond_Zopp]. unfold g_num, g_den.
  destruct (Z.leb_spec 0 e) as [He|He].
  - rewrite mult_IZR, IZR_pow2 by lia. field.
  - rewrite IZR_pow2 by lia. rewrite (bpow_opp radix2 e). field.
    apply Rgt_not_eq, bpow_gt_0.
Qed.

Lemma rv_pos m e : (0 < rv (S754_finite false m e))%R.
Proof. unfold rv, SF2R. apply F2R_gt_0. reflexivity. Qed.

Lemma rv_neg m e : (rv (S754_finite true m e) < 0)%R.
Proof. unfold rv, SF2R. apply F2R_lt_0. reflexivity. Qed.

(** 10^X as the fraction p10n X / p10d X *)
Lemma p10_bpow X : IZR (p10n X) = (bpow ten X * IZR (p10d X))%R.
Proof.
  destruct (Z_le_gt_dec 0 X) as [H|H].
  - destruct (p10n_nonneg X H) as [-> ->]. rewrite IZR_pow10 by lia. ring.
  - destruct (p10d_neg X ltac:(lia)) as [-> ->]. rewrite IZR_pow10 by lia.
    rewrite <- bpow_plus. replace (X + - X) with 0 by lia. reflexivity.
Qed.

Lemma scaled_real num den nS dS X : 0 < num -> 0 < den -> scaled num den nS dS X ->
  (IZR num / IZR den = IZR nS / IZR dS * bpow ten X)%R.
Proof.
  intros Hn Hd (PdS & Hr & Hf). unfold frac_eq in Hf.
  apply (f_equal IZR) in Hf. rewrite !mult_IZR in Hf. rewrite (p10_bpow X) in Hf.
  assert (Pd : (0 < IZR (p10d X))%R) by (apply IZR_lt, p10d_pos).
  assert (Pden : (0 < IZR den)%R) by (apply IZR_lt; exact Hd).
  assert (PdS' : (0 < IZR dS)%R) by (apply IZR_lt; exact PdS).
  apply Rmult_eq_reg_r with (r := (IZR den * IZR dS * IZR (p10d X))%R).
  - field_simplify; [|lra|lra]. rewrite Hf. ring.
  - apply Rgt_not_eq. apply Rmult_lt_0_compat; [apply Rmult_lt_0_compat|]; assumption.
Qed.

(** the decade of a scaled value *)
Lemma scaled_decade nS dS X : 0 < dS -> dS <= nS < 10 * dS ->
  (bpow ten X <= IZR nS / IZR dS * bpow ten X < bpow ten (X + 1))%R.
Proof.
  intros PdS [H1 H2].
  assert (PdS' : (0 < IZR dS)%R) by (apply IZR_lt; exact PdS).
  pose proof (bpow_gt_0 ten X) as Pb.
  rewrite bpow_plus_1. change (IZR ten) with 10%R.
  apply IZR_le in H1. apply IZR_lt in H2. rewrite mult_IZR in H2.
  assert (Q1 : (1 <= IZR nS / IZR dS)%R).
  { apply Rmult_le_reg_r with (r := IZR dS); [exact PdS'|]. field_simplify; lra. }
  assert (Q2 : (IZR nS / IZR dS < 10)%R).
  { apply Rmult_lt_reg_r with (r := IZR dS); [exact PdS'|]. field_simplify; lra. }
  split; nra.
Qed.

(** a scaled value in units of 10^(X-14) *)
Lemma scaled_units nS dS X : 0 < dS ->
  (IZR nS / IZR dS * bpow ten X = IZR (nS * 10 ^ 14) / IZR dS * bpow ten (X - 14))%R.
Proof.
  intro PdS. assert (PdS' : (0 < IZR dS)%R) by (apply IZR_lt; exact PdS).
  rewrite mult_IZR, IZR_pow10 by lia.
  replace X with (14 + (X - 14)) at 1 by lia. rewrite bpow_plus. field. lra.
Qed.

(** * the rounding conditions of g_round on reals *)
Lemma near_scale N dS D : 0 < dS ->
  (Rabs (IZR N / IZR dS - IZR D) * (2 * IZR dS) = IZR (2 * Z.abs (N - D * dS)))%R.
Proof.
  intro PdS. assert (PdS' : (0 < IZR dS)%R) by (apply IZR_lt; exact PdS).
  rewrite mult_IZR, abs_IZR, minus_IZR, mult_IZR.
  replace (IZR N - IZR D * IZR dS)%R with ((IZR N / IZR dS - IZR D) * IZR dS)%R by (field; lra).
  rewrite Rabs_mult, (Rabs_pos_eq (IZR dS)) by lra. ring.
Qed.

Lemma near_ZR N dS D : 0 < dS ->
  (2 * Z.abs (N - D * dS) <= dS <-> (Rabs (IZR N / IZR dS - IZR D) <= / 2)%R).
Proof.
  intro PdS. assert (PdS' : (0 < IZR dS)%R) by (apply IZR_lt; exact PdS).
  pose proof (near_scale N dS D PdS) as S. split.
  - intro H. apply IZR_le in H. rewrite <- S in H. nra.
  - intro H. apply le_IZR. rewrite <- S. nra.
Qed.

Lemma near_eq_ZR N dS D : 0 < dS ->
  (2 * Z.abs (N - D * dS) = dS <-> (Rabs (IZR N / IZR dS - IZR D) = / 2)%R).
Proof.
  intro PdS. assert (PdS' : (0 < IZR dS)%R) by (apply IZR_lt; exact PdS).
  pose proof (near_scale N dS D PdS) as S. split.
  - intro H. apply (f_equal IZR) in H. rewrite <- S in H. nra.
  - intro H. apply eq_IZR. rewrite <- S. rewrite H. field.
Qed.

(** * the doubles lie on the grid 2^-1074, which is coarser than 10^-324 *)
Lemma rv_grid d : valid_binary P E d = true -> exists kd, rv d = (IZR kd * bpow radix2 (-1074))%R.
Proof.
  intro Hv. destruct d as [s|s| |s m e]; try (exists 0; unfold rv; cbn [SF2R]; ring).
  assert (Hb : SpecFloat.bounded P E m e = true) by exact Hv.
  assert (He : -1074 <= e).
  { unfold SpecFloat.bounded, SpecFloat.canonical_mantissa in Hb. apply andb_true_iff in Hb as [Hb _].
    apply Zeq_bool_eq in Hb. unfold SpecFloat.fexp, SpecFloat.emin in Hb. lia. }
  exists (cond_Zopp s (Zpos m) * 2 ^ (e + 1074)).
  unfold rv, SF2R, F2R. cbn [Fnum Fexp]. rewrite mult_IZR, IZR_pow2 by lia.
  rewrite Rmult_assoc, <- bpow_plus. do 2 f_equal. lia.
Qed.

Lemma grid_eq a b ka kb c : (0 < c)%R -> a = (IZR ka * c)%R -> b = (IZR kb * c)%R ->
  (Rabs (a - b) < c)%R -> a = b.
Proof.
  intros Hc -> -> H.
  replace (IZR ka * c - IZR kb * c)%R with (IZR (ka - kb) * c)%R in H by (rewrite minus_IZR; ring).
  rewrite Rabs_mult, (Rabs_pos_eq c) in H by lra.
  assert (H1 : (Rabs (IZR (ka - kb)) < 1)%R) by nra.
  rewrite <- abs_IZR in H1. apply lt_IZR in H1.
  assert (ka = kb) by lia. subst kb. reflexivity.
Qed.

Lemma c_grid : 2 ^ 1074 < 10 ^ 324. Proof. vm_compute. reflexivity. Qed.

Lemma grid_coarse : (bpow ten (-324) < bpow radix2 (-1074))%R.
Proof.
  pose proof (bpow_gt_0 ten (-324)) as Pb. pose proof (bpow_gt_0 radix2 (-1074)) as Pc.
  assert (E1 : (bpow ten (-324) * IZR (10 ^ 324) = 1)%R).
  { rewrite IZR_pow10 by lia. rewrite <- bpow_plus. reflexivity. }
  assert (E2 : (bpow radix2 (-1074) * IZR (2 ^ 1074) = 1)%R).
  { rewrite IZR_pow2 by lia. rewrite <- bpow_plus. reflexivity. }
  pose proof (IZR_lt _ _ c_grid) as HL.
  assert (PA : (0 < IZR (2 ^ 1074))%R) by (apply IZR_lt; reflexivity).
  set (b := bpow ten (-324)) in *. set (c := bpow radix2 (-1074)) in *.
  set (A := IZR (2 ^ 1074)) in *. set (B := IZR (10 ^ 324)) in *.
  destruct (Rlt_or_le b c) as [H|H]; [exact H|exfalso].
  assert (c * A < b * B)%R; [|lra].
  apply Rle_lt_trans with (b * A)%R; [apply Rmult_le_compat_r; lra|].
  apply Rmult_lt_compat_l; lra.
Qed.

(** a finite well-formed double is determined by its (nonzero) value *)
Lemma rv_inj_pos t m e : valid_binary P E t = true -> SpecFloat.bounded P E m e = true ->
  rv t = rv (S754_finite false m e) -> t = S754_finite false m e.
Proof.
  intros Vt Hb Er.
  pose proof (rv_pos m e) as Hp. rewrite <- Er in Hp.
  destruct t as [s|s| |s mt et]; try (unfold rv in Hp; cbn [SF2R] in Hp; lra).
  assert (Hbt : SpecFloat.bounded P E mt et = true) by exact Vt.
  pose proof (B2R_inj P E (B754_finite s mt et Hbt) (B754_finite false m e Hb) eq_refl eq_refl Er) as H.
  apply (f_equal (@B2SF P E)) in H. exact H.
Qed.
