(** Tree.v — the value-level view of a cJSON tree: exactly the fields of the C struct, with
    the sibling chain flattened into a list (the chain itself is the subject of the heap
    model).  No proofs about cJSON here. *)
From Coq Require Export Floats.SpecFloat.
From CJ Require Export Base Dbl.
From CJ.gen Require Export Constants.
Local Open Scope Z_scope.

Inductive node : Type :=
  Node (ty : Z) (vstr : option bytes) (vint : Z) (vdbl : dbl) (key : option bytes) (children : list node).

Definition n_ty (n : node) := let 'Node t _ _ _ _ _ := n in t.
Definition n_vstr (n : node) := let 'Node _ s _ _ _ _ := n in s.
Definition n_vint (n : node) := let 'Node _ _ i _ _ _ := n in i.
Definition n_vdbl (n : node) := let 'Node _ _ _ d _ _ := n in d.
Definition n_key (n : node) := let 'Node _ _ _ _ k _ := n in k.
Definition n_children (n : node) := let 'Node _ _ _ _ _ c := n in c.

(** [type & 0xFF] *)
Definition tymask (t : Z) : Z := Z.land t 255.
Definition is_type (k : Z) (n : node) : bool := tymask (n_ty n) =? k.
Definition is_array := is_type c_cJSON_Array.
Definition is_object := is_type c_cJSON_Object.
Definition is_string := is_type c_cJSON_String.
Definition is_number := is_type c_cJSON_Number.
Definition is_null := is_type c_cJSON_NULL.

(** a node is designated by the list of child indices leading to it from the root *)
Definition path := list nat.

Fixpoint subtree (n : node) (p : path) : option node :=
  match p with
  | [] => Some n
  | i :: p' => match nth_error (n_children n) i with Some c => subtree c p' | None => None end
  end.

(** induction principle that reaches through the children list *)
Section NodeInd.
  Variable P : node -> Prop.
  Hypothesis H : forall t s i d k cs, Forall P cs -> P (Node t s i d k cs).
  Fixpoint node_ind' (n : node) : P n :=
    match n with
    | Node t s i d k cs =>
        H t s i d k cs ((fix go (l : list node) : Forall P l :=
                           match l with [] => Forall_nil P | c :: r => Forall_cons c (node_ind' c) (go r) end) cs)
    end.
End NodeInd.

Fixpoint node_size (n : node) : nat :=
  match n with Node _ _ _ _ _ cs => S ((fix go l := match l with [] => O | c :: r => (node_size c + go r)%nat end) cs) end.
Fixpoint node_depth (n : node) : nat :=
  match n with Node _ _ _ _ _ cs => S ((fix go l := match l with [] => O | c :: r => Nat.max (node_depth c) (go r) end) cs) end.
