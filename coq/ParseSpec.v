(** ParseSpec.v — the dialect cJSON accepts, as a short functional specification on byte
    LISTS (no offsets, no buffer, no allocator): RFC 8259 plus the library's long-standing
    leniencies (every byte <= 0x20 is whitespace, raw control bytes inside strings, number
    spellings strtod accepts on the run of at most 63 number bytes, anything may follow the
    first value when termination is not required).  The end of the list is the end of the
    buffer.  ParseRefine.v proves that the buffer-level transliteration (ParseDefs.v)
    computes exactly this function.  No proofs here. *)
From CJ Require Import Base Dbl Tree ParseDefs.
Local Open Scope Z_scope.

Section Spec.
  Variable strtod : bytes -> option (dbl * nat).

  Fixpoint drop_ws (l : bytes) : bytes :=
    match l with c :: r => if c <=? 32 then drop_ws r else l | [] => [] end.

  (* [starts lit l] = Some rest when l begins with lit *)
  Fixpoint starts (lit l : bytes) : option bytes :=
    match lit with
    | [] => Some l
    | x :: lit' => match l with c :: r => if c =? x then starts lit' r else None | [] => None end
    end.

  Definition hex4_l (l : bytes) : option (Z * bytes) :=
    match l with
    | a :: b :: c :: d :: r =>
        match hex_val a, hex_val b, hex_val c, hex_val d with
        | Some ha, Some hb, Some hc, Some hd => Some (((ha * 16 + hb) * 16 + hc) * 16 + hd, r)
        | _, _, _, _ => None
        end
    | _ => None
    end.

  (* the body of a string literal after the opening quote: decoded bytes and the rest after
     the closing quote.  One escape is consumed per step, so fuel = length suffices. *)
  Fixpoint str_l (fuel : nat) (l : bytes) : option (bytes * bytes) :=
    match fuel with
    | O => None
    | S f =>
        match l with
        | [] => None
        | c :: r =>
            if c =? 34 then Some ([], r)
            else if c =? 92 then
              match r with
              | [] => None
              | e :: r' =>
                  let simple (b : Z) := match str_l f r' with Some (o, rest) => Some (b :: o, rest) | None => None end in
                  if e =? 98 then simple 8 else if e =? 102 then simple 12 else if e =? 110 then simple 10
                  else if e =? 114 then simple 13 else if e =? 116 then simple 9
                  else if (e =? 34) || (e =? 92) || (e =? 47) then simple e
                  else if e =? 117 then
                    match hex4_l r' with
                    | None => None
                    | Some (first_code, r2) =>
                        if (56320 <=? first_code) && (first_code <=? 57343) then None
                        else if (55296 <=? first_code) && (first_code <=? 56319) then
                          match r2 with
                          | c0 :: c1 :: r3 =>
                              if negb ((c0 =? 92) && (c1 =? 117)) then None
                              else
                              match hex4_l r3 with
                              | None => None
                              | Some (second_code, r4) =>
                                  if (second_code <? 56320) || (second_code >? 57343) then None
                                  else
                                    let cp := 65536 + Z.lor (Z.shiftl (Z.land first_code 1023) 10) (Z.land second_code 1023) in
                                    match utf8_encode_c cp, str_l f r4 with
                                    | Some b, Some (o, rest) => Some (b ++ o, rest)
                                    | _, _ => None
                                    end
                              end
                          | _ => None
                          end
                        else
                          match utf8_encode_c first_code, str_l f r2 with
                          | Some b, Some (o, rest) => Some (b ++ o, rest)
                          | _, _ => None
                          end
                    end
                  else None
              end
            else match str_l f r with Some (o, rest) => Some (c :: o, rest) | None => None end
        end
    end.
  (* the C string the caller sees: cut at an embedded zero (escape \u0000) *)
  Definition string_l (l : bytes) : option (bytes * bytes) :=
    match str_l (S (length l)) l with Some (o, rest) => Some (cstr (o ++ [0]), rest) | None => None end.

  (* at most 63 leading number bytes *)
  Fixpoint number_run (fuel : nat) (l : bytes) : bytes :=
    match fuel with
    | O => []
    | S f => match l with c :: r => if number_byte c then c :: number_run f r else [] | [] => [] end
    end.
  Definition number_l (l : bytes) : option (node * bytes) :=
    match strtod (number_run (Z.to_nat (c_NUMBER_C_STRING_SIZE - 1)) l) with
    | None => None
    | Some (d, consumed) => Some (Node c_cJSON_Number None (sat_int d) d None [], skipn consumed l)
    end.

  (* arrays and objects, given the function [vl] for a value one level down.  [elems_l] starts
     at the first element, [members_l] at the first key; every round consumes a separator, so
     the local fuel [S (length r)] suffices. *)
  Section Containers.
    Variable vl : bytes -> option (node * bytes).

    Fixpoint elems_l (k : nat) (l0 : bytes) (acc : list node) : option (list node * bytes) :=
      match k with
      | O => None
      | S k' =>
          match vl (drop_ws l0) with
          | None => None
          | Some (v, r2) =>
              match drop_ws r2 with
              | c2 :: r3 =>
                  if c2 =? 44 then elems_l k' r3 (v :: acc)
                  else if c2 =? 93 then Some (rev (v :: acc), r3)
                  else None
              | [] => None
              end
          end
      end.

    (* after the opening bracket *)
    Definition array_l (r : bytes) : option (node * bytes) :=
      match drop_ws r with
      | [] => None
      | c1 :: r1 =>
          if c1 =? 93 then Some (Node c_cJSON_Array None 0 dzero None [], r1)
          else match elems_l (S (length r)) (c1 :: r1) [] with
               | Some (items, rest) => Some (Node c_cJSON_Array None 0 dzero None items, rest)
               | None => None
               end
      end.

    Fixpoint members_l (k : nat) (l0 : bytes) (acc : list node) : option (list node * bytes) :=
      match k with
      | O => None
      | S k' =>
          match drop_ws l0 with
          | q :: rq =>
              if negb (q =? 34) then None
              else
                match string_l rq with
                | None => None
                | Some (key, r2) =>
                    match drop_ws r2 with
                    | col :: r3 =>
                        if negb (col =? 58) then None
                        else
                          match vl (drop_ws r3) with
                          | None => None
                          | Some (v0, r4) =>
                              let v := with_key key v0 in
                              match drop_ws r4 with
                              | c2 :: r5 =>
                                  if c2 =? 44 then members_l k' r5 (v :: acc)
                                  else if c2 =? 125 then Some (rev (v :: acc), r5)
                                  else None
                              | [] => None
                              end
                          end
                    | [] => None
                    end
                end
          | [] => None
          end
      end.

    (* after the opening brace *)
    Definition object_l (r : bytes) : option (node * bytes) :=
      match drop_ws r with
      | [] => None
      | c1 :: r1 =>
          if c1 =? 125 then Some (Node c_cJSON_Object None 0 dzero None [], r1)
          else match members_l (S (length r)) (c1 :: r1) [] with
               | Some (items, rest) => Some (Node c_cJSON_Object None 0 dzero None items, rest)
               | None => None
               end
      end.
  End Containers.

  (* value at nesting depth [depth] (number of enclosing containers); one unit of fuel per
     nesting level, so fuel = S (length l) suffices *)
  Fixpoint value_l (fuel : nat) (depth : Z) (l : bytes) : option (node * bytes) :=
    match fuel with
    | O => None
    | S f =>
        match starts [110; 117; 108; 108] l with
        | Some r => Some (Node c_cJSON_NULL None 0 dzero None [], r)
        | None =>
        match starts [102; 97; 108; 115; 101] l with
        | Some r => Some (Node c_cJSON_False None 0 dzero None [], r)
        | None =>
        match starts [116; 114; 117; 101] l with
        | Some r => Some (Node c_cJSON_True None 1 dzero None [], r)
        | None =>
        match l with
        | [] => None
        | c :: r =>
            if c =? 34 then
              match string_l r with Some (s, rest) => Some (Node c_cJSON_String (Some s) 0 dzero None [], rest) | None => None end
            else if (c =? 45) || ((48 <=? c) && (c <=? 57)) then number_l l
            else if c =? 91 then
              if c_CJSON_NESTING_LIMIT <=? depth then None else array_l (value_l f (depth + 1)) r
            else if c =? 123 then
              if c_CJSON_NESTING_LIMIT <=? depth then None else object_l (value_l f (depth + 1)) r
            else None
        end end end end
    end.

  (* skip whitespace up to, but not beyond, the first zero byte *)
  Fixpoint drop_ws_nz (l : bytes) : bytes :=
    match l with c :: r => if negb (c =? 0) && (c <=? 32) then drop_ws_nz r else l | [] => [] end.

  (* a whole text: optional BOM, whitespace, one value; with [rnt] the value must be followed by
     whitespace and a zero byte.  Result: the tree and what follows the parse end. *)
  Definition text_l (l : bytes) (rnt : bool) : option (node * bytes) :=
    let l1 := match starts [239; 187; 191] l with Some r => r | None => l end in
    match value_l (S (length l)) 0 (drop_ws l1) with
    | None => None
    | Some (t, rest) =>
        if rnt then
          match drop_ws_nz rest with
          | c :: r => if c =? 0 then Some (t, c :: r) else None
          | [] => None
          end
        else Some (t, rest)
    end.
End Spec.
