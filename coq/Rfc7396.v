(** Rfc7396.v — the specification side of C18: the MergePatch pseudo-code of RFC 7396 §2 as a Gallina
    function on JSON values, the equality of documents [doc_eq] of DESIGN "Equality of documents in
    C16–C18", and the side conditions of the theorems as boolean predicates (so that the extracted oracle can
    evaluate them).  Values are [Tree.node]s read as JSON values: the masked type selects the kind, an object
    is its list of members (children carrying a key).  No proofs here.

      define MergePatch(Target, Patch):
        if Patch is an Object:
          if Target is not an Object:
            Target = {} # Ignore the contents and set it to an empty Object
          for each Name/Value pair in Patch:
            if Value is null:
              if Name exists in Target:
                remove the Name/Value pair from Target
            else:
              Target[Name] = MergePatch(Target[Name], Value)
          return Target
        else:
          return Patch                                                                         *)
From CJ Require Import Base Dbl Tree.
Local Open Scope Z_scope.

(** ---- objects as finite maps from names to values ---- *)
Definition m7396_key_eqb (a b : option bytes) : bool :=
  match a, b with Some x, Some y => bytes_eqb x y | _, _ => false end.
Definition m7396_named (k : option bytes) (c : node) : bool := m7396_key_eqb (n_key c) k.

(* Target[Name] *)
Definition m7396_lookup (k : option bytes) (members : list node) : option node := find (m7396_named k) members.
(* remove the Name/Value pair *)
Definition m7396_remove (k : option bytes) (members : list node) : list node :=
  filter (fun c => negb (m7396_named k c)) members.
(* Target[Name] = Value.  Objects are unordered; the new pair is put last. *)
Definition m7396_with_key (k : option bytes) (v : node) : node :=
  match v with Node ty vs vi vd _ ch => Node ty vs vi vd k ch end.
Definition m7396_set (k : option bytes) (v : node) (members : list node) : list node :=
  m7396_remove k members ++ [m7396_with_key k v].

Definition m7396_empty_object : node := Node c_cJSON_Object None 0 dzero None [].
Definition m7396_set_members (n : node) (ch : list node) : node :=
  match n with Node ty vs vi vd k _ => Node ty vs vi vd k ch end.

(** ---- MergePatch(Target, Patch); an absent Target (Target[Name] undefined) is [None] ---- *)
Fixpoint merge (target : option node) (patch : node) {struct patch} : node :=
  match patch with
  | Node pty _ _ _ _ pmembers =>
      if tymask pty =? c_cJSON_Object then
        let target0 := match target with
                       | Some t => if is_object t then t else m7396_empty_object
                       | None => m7396_empty_object
                       end in
        m7396_set_members target0
          ((fix each (pm : list node) (tm : list node) : list node :=
              match pm with
              | [] => tm
              | v :: r =>
                  if is_null v then each r (m7396_remove (n_key v) tm)
                  else each r (m7396_set (n_key v) (merge (m7396_lookup (n_key v) tm) v) tm)
              end) pmembers (n_children target0))
      else patch
  end.

(* a patch that was not generated (NULL) means "no change" *)
Definition merge_opt (target : node) (patch : option node) : node :=
  match patch with None => target | Some p => merge (Some target) p end.

(** ---- equality of documents: same kind; numbers: equal integer view and compare_double; strings
    byte-equal; arrays pointwise in order; objects as name -> value maps ---- *)
Fixpoint doc_eq (a b : node) {struct a} : bool :=
  match a with
  | Node tya vsa via vda _ cha =>
      let t := tymask tya in
      (t =? tymask (n_ty b)) &&
      (if t =? c_cJSON_Number then (via =? n_vint b) && compare_double vda (n_vdbl b)
       else if (t =? c_cJSON_String) || (t =? c_cJSON_Raw) then
         match vsa, n_vstr b with Some x, Some y => bytes_eqb x y | _, _ => false end
       else if t =? c_cJSON_Array then
         (fix arr (la lb : list node) : bool :=
            match la, lb with
            | [], [] => true
            | x :: la', y :: lb' => doc_eq x y && arr la' lb'
            | _, _ => false
            end) cha (n_children b)
       else if t =? c_cJSON_Object then
         forallb (fun x => match m7396_lookup (n_key x) (n_children b) with Some y => doc_eq x y | None => false end) cha
         && forallb (fun y => match m7396_lookup (n_key y) cha with Some _ => true | None => false end) (n_children b)
       else (t =? c_cJSON_False) || (t =? c_cJSON_True) || (t =? c_cJSON_NULL))
  end.

(* the declarative reading of [doc_eq] *)
Inductive doc_equiv : node -> node -> Prop :=
| de_lit a b : tymask (n_ty a) = tymask (n_ty b) ->
    (tymask (n_ty a) = c_cJSON_False \/ tymask (n_ty a) = c_cJSON_True \/ tymask (n_ty a) = c_cJSON_NULL) ->
    doc_equiv a b
| de_num a b : tymask (n_ty a) = c_cJSON_Number -> tymask (n_ty b) = c_cJSON_Number ->
    n_vint a = n_vint b -> compare_double (n_vdbl a) (n_vdbl b) = true -> doc_equiv a b
| de_str a b s : tymask (n_ty a) = tymask (n_ty b) ->
    (tymask (n_ty a) = c_cJSON_String \/ tymask (n_ty a) = c_cJSON_Raw) ->
    n_vstr a = Some s -> n_vstr b = Some s -> doc_equiv a b
| de_arr a b : tymask (n_ty a) = c_cJSON_Array -> tymask (n_ty b) = c_cJSON_Array ->
    Forall2 doc_equiv (n_children a) (n_children b) -> doc_equiv a b
| de_obj a b : tymask (n_ty a) = c_cJSON_Object -> tymask (n_ty b) = c_cJSON_Object ->
    (* every member of a has a counterpart of the same name in b with an equal value … *)
    Forall (fun x => exists y, m7396_lookup (n_key x) (n_children b) = Some y /\ doc_equiv x y) (n_children a) ->
    (* … and b has no other names *)
    Forall (fun y => exists x, m7396_lookup (n_key y) (n_children a) = Some x) (n_children b) ->
    doc_equiv a b.

(** ---- side conditions ---- *)
Definition m7396_cstring (s : bytes) : bool := forallb (fun c => (0 <? c) && (c <? 256)) s.

Fixpoint m7396_distinct (ks : list (option bytes)) : bool :=
  match ks with
  | [] => true
  | k :: r => negb (existsb (m7396_key_eqb k) r) && m7396_distinct r
  end.

(* a JSON document in the sense of the property: one of the seven JSON kinds at every node, numbers are not
   NaN, strings and member names are C strings, every member of an object has a name, names of one object
   are pairwise distinct *)
Fixpoint m7396_doc (n : node) : bool :=
  match n with
  | Node ty vs vi vd _ ch =>
      let t := tymask ty in
      ((t =? c_cJSON_False) || (t =? c_cJSON_True) || (t =? c_cJSON_NULL) || (t =? c_cJSON_Number) ||
       (t =? c_cJSON_String) || (t =? c_cJSON_Array) || (t =? c_cJSON_Object)) &&
      (if t =? c_cJSON_Number then negb (is_nan vd) else true) &&
      (if t =? c_cJSON_String then match vs with Some s => m7396_cstring s | None => false end else true) &&
      (if t =? c_cJSON_Object then
         forallb (fun c => match n_key c with Some k => m7396_cstring k | None => false end) ch &&
         m7396_distinct (map n_key ch)
       else true) &&
      (if (t =? c_cJSON_Array) || (t =? c_cJSON_Object) then true else match ch with [] => true | _ => false end) &&
      forallb m7396_doc ch
  end.

(* no null member in the object, nor in an object that is (transitively) a member of it: those are the
   places where a merge patch cannot express "null" (below an array the patch replaces wholesale) *)
Fixpoint no_null_member (n : node) : bool :=
  match n with
  | Node ty _ _ _ _ ch =>
      if tymask ty =? c_cJSON_Object then forallb (fun c => negb (is_null c) && no_null_member c) ch else true
  end.

(* nesting below the depth at which cJSON_Duplicate gives up *)
Definition m7396_depth_ok (n : node) : bool := Z.of_nat (node_depth n) <=? c_CJSON_CIRCULAR_LIMIT + 1.
