(** CompareHeapEx.v — non-vacuity of CompareHeapForest.v on a concrete heap, by computation.

    [exc_heap] encodes the forest [exc_F] = [a; b; c]:
      a (root 1)   {"a":"x","b":[1,true]}      nodes 1-5,   string blocks 101-103
      b (root 10)  {"b":[1,true],"a":"x"}      nodes 10-14, string blocks 111-113   (members in the other order)
      c (root 20)  {"b":[1,false],"a":"x"}     nodes 20-24, string blocks 121-123
    The heap-level [cJSON_Compare] is RUN on it ([vm_compute]) for operands of different roots in both orders,
    the same node, a node and its own member (nested), inner nodes of different roots, and NULL. *)
From CJ Require Import Base Dbl Heap Forest ForestLemmas CoreDefs CoreRefineDupValue CoreRefineDupForest.
From CJ Require Import TierBridgeDefs MergeHeapInv MergeHeapEx.
From CJ Require Import CompareHeapDefs CompareHeapRO CompareHeapViewDefs CompareHeapProofs CompareHeapForest.
From CJ Require Tree CompareDefs CompareProofs.
From CJ.gen Require Import Constants.
From stdpp Require Import gmap.
Local Open Scope Z_scope.

Definition exc_obj (i : positive) (k1 v1 k2 : positive) (i1 i2 i3 i4 : positive) (ty4 : Z) (swap : bool) : tree :=
  let m1 := exh_mk i1 c_cJSON_String (Some v1) 0 (Some k1) [] in
  let m2 := exh_mk i2 c_cJSON_Array None 0 (Some k2) [exh_mk i3 c_cJSON_Number None 1 None []; exh_mk i4 ty4 None 0 None []] in
  exh_mk i c_cJSON_Object None 0 None (if swap then [m2; m1] else [m1; m2]).
Definition exc_a : tree := exc_obj 1 101 102 103 2 3 4 5 c_cJSON_True false.
Definition exc_b : tree := exc_obj 10 112 113 111 11 12 13 14 c_cJSON_True true.
Definition exc_c : tree := exc_obj 20 122 123 121 21 22 23 24 c_cJSON_False true.
Definition exc_F : forest := [exc_a; exc_b; exc_c].
Definition exc_St : gmap positive bytes :=
  list_to_map [(101%positive, [97; 0]); (102%positive, [120; 0]); (103%positive, [98; 0]);
               (111%positive, [98; 0]); (112%positive, [97; 0]); (113%positive, [120; 0]);
               (121%positive, [98; 0]); (122%positive, [97; 0]); (123%positive, [120; 0])].
Definition exc_heap : heap := heap_of_forest exc_F exc_St.

Lemma exc_MInv : MInv exc_heap exc_F.
Proof. apply heap_of_forest_MInv; vm_compute; reflexivity. Qed.

(** a run whose value is computed: the heap part comes from the read-only theorem *)
Lemma run_value {A} (m : M A) h (r : A) : ReadOnly m -> out_val (m h) = Some r -> m h = Ret (r, h).
Proof.
  intros RO E. destruct (m h) as [[a h']|e] eqn:Em; [|discriminate E]. cbn in E. injection E as ->.
  by rewrite (RO _ _ _ Em).
Qed.

Lemma Ret_val_inj {A} (a b : A) (h h' : heap) : Ret (a, h) = Ret (b, h') -> a = b.
Proof. by intros [= -> _]. Qed.

Definition exc_cmp (a b : ptr) (cs : bool) : option bool := out_val (cJSON_Compare a b cs exc_heap).

Lemma exc_runs :
  exc_cmp (Some 1%positive) (Some 10%positive) true = Some true /\      (* a, b: equal as JSON values *)
  exc_cmp (Some 10%positive) (Some 1%positive) true = Some true /\
  exc_cmp (Some 1%positive) (Some 20%positive) true = Some false /\     (* a, c: differ in one element *)
  exc_cmp (Some 1%positive) (Some 1%positive) true = Some true /\       (* the same node *)
  exc_cmp (Some 1%positive) (Some 3%positive) true = Some false /\      (* a node and its own member *)
  exc_cmp (Some 3%positive) (Some 12%positive) false = Some true /\     (* inner nodes of different roots *)
  exc_cmp (Some 3%positive) (Some 22%positive) false = Some false /\
  exc_cmp None (Some 1%positive) true = Some false.
Proof. vm_compute. repeat split. Qed.

Lemma exc_nodes :
  exc_a ∈ nodes exc_F /\ exc_b ∈ nodes exc_F /\ exc_c ∈ nodes exc_F /\
  (exists m, m ∈ nodes exc_F /\ tid m = 3%positive) /\ (exists m, m ∈ nodes exc_F /\ tid m = 12%positive).
Proof.
  split_and!.
  - apply (elem_of_list_lookup_2 _ 0%nat). reflexivity.
  - apply (elem_of_list_lookup_2 _ 5%nat). reflexivity.
  - apply (elem_of_list_lookup_2 _ 10%nat). reflexivity.
  - eexists. split; [apply (elem_of_list_lookup_2 _ 2%nat); reflexivity|reflexivity].
  - eexists. split; [apply (elem_of_list_lookup_2 _ 6%nat); reflexivity|reflexivity].
Qed.

Lemma exc_wf : CompareDefs.cmp_wf true (reify (h_str exc_heap) exc_a) /\ CompareDefs.cmp_wf true (reify (h_str exc_heap) exc_b) /\
               CompareDefs.cmp_wf true (reify (h_str exc_heap) exc_c).
Proof. split_and!; vm_compute; repeat split; try (intros H; discriminate H); repeat constructor; try lia;
         try (eexists; split; [reflexivity|]; repeat constructor; lia); cbn; intuition discriminate. Qed.

(** the hypotheses of [compare_refines] / [heap_compare_spec] hold, and the conclusions are what the run shows *)
Opaque exc_heap.
Theorem compare_heap_nonvacuous :
  MInv exc_heap exc_F /\ WF exc_heap exc_F /\ strings_readable exc_heap exc_F /\
  exc_a ∈ nodes exc_F /\ exc_b ∈ nodes exc_F /\ exc_c ∈ nodes exc_F /\
  no_borrowed exc_a /\ no_borrowed exc_b /\ no_borrowed exc_c /\
  CompareDefs.cmp_wf true (reify (h_str exc_heap) exc_a) /\ CompareDefs.cmp_wf true (reify (h_str exc_heap) exc_b) /\
  CompareDefs.cmp_wf true (reify (h_str exc_heap) exc_c) /\
  cJSON_Compare (Some 1%positive) (Some 10%positive) true exc_heap = Ret (true, exc_heap) /\
  cJSON_Compare (Some 10%positive) (Some 1%positive) true exc_heap = Ret (true, exc_heap) /\
  cJSON_Compare (Some 1%positive) (Some 20%positive) true exc_heap = Ret (false, exc_heap) /\
  cJSON_Compare (Some 1%positive) (Some 1%positive) true exc_heap = Ret (true, exc_heap) /\
  cJSON_Compare (Some 1%positive) (Some 3%positive) true exc_heap = Ret (false, exc_heap) /\
  cJSON_Compare (Some 3%positive) (Some 12%positive) false exc_heap = Ret (true, exc_heap) /\
  CompareDefs.sem_eq true (reify (h_str exc_heap) exc_a) (reify (h_str exc_heap) exc_b) /\
  ~ CompareDefs.sem_eq true (reify (h_str exc_heap) exc_a) (reify (h_str exc_heap) exc_c).
Proof.
  pose proof exc_MInv as I. pose proof (mi_wf _ _ I) as W. pose proof (MInv_strings_readable _ _ I) as SR.
  destruct exc_nodes as (Na & Nb & Nc & _). destruct exc_wf as (Wa & Wb & Wc).
  destruct exc_runs as (R1 & R2 & R3 & R4 & R5 & R6 & _).
  pose proof (run_value (cJSON_Compare (Some 1%positive) (Some 10%positive) true) exc_heap true (compare_read_only _ _ _) R1) as E1.
  pose proof (run_value (cJSON_Compare (Some 10%positive) (Some 1%positive) true) exc_heap true (compare_read_only _ _ _) R2) as E2.
  pose proof (run_value (cJSON_Compare (Some 1%positive) (Some 20%positive) true) exc_heap false (compare_read_only _ _ _) R3) as E3.
  pose proof (run_value (cJSON_Compare (Some 1%positive) (Some 1%positive) true) exc_heap true (compare_read_only _ _ _) R4) as E4.
  pose proof (run_value (cJSON_Compare (Some 1%positive) (Some 3%positive) true) exc_heap false (compare_read_only _ _ _) R5) as E5.
  pose proof (run_value (cJSON_Compare (Some 3%positive) (Some 12%positive) false) exc_heap true (compare_read_only _ _ _) R6) as E6.
  pose proof (MInv_no_borrowed _ _ I _ Na) as Ba.
  pose proof (MInv_no_borrowed _ _ I _ Nb) as Bb.
  pose proof (MInv_no_borrowed _ _ I _ Nc) as Bc.
  split; [exact I|]. split; [exact W|]. split; [exact SR|]. split; [exact Na|]. split; [exact Nb|]. split; [exact Nc|].
  split; [exact Ba|]. split; [exact Bb|]. split; [exact Bc|]. split; [exact Wa|]. split; [exact Wb|]. split; [exact Wc|].
  split; [exact E1|]. split; [exact E2|]. split; [exact E3|]. split; [exact E4|]. split; [exact E5|]. split; [exact E6|].
  assert (Hab : tid exc_a <> tid exc_b) by (intros H; discriminate H).
  assert (Hac : tid exc_a <> tid exc_c) by (intros H; discriminate H).
  split.
  - destruct (heap_compare_spec exc_heap exc_F W SR true exc_a exc_b Na Nb Ba Bb Hab Wa Wb) as (r & Hr & Hiff).
    change (tid exc_a) with 1%positive in Hr. change (tid exc_b) with 10%positive in Hr.
    apply (proj1 Hiff). rewrite E1 in Hr. symmetry. exact (Ret_val_inj _ _ _ _ Hr).
  - destruct (heap_compare_spec exc_heap exc_F W SR true exc_a exc_c Na Nc Ba Bc Hac Wa Wc) as (r & Hr & Hiff).
    change (tid exc_a) with 1%positive in Hr. change (tid exc_c) with 20%positive in Hr.
    intros Hs. apply (proj2 Hiff) in Hs. rewrite E3 in Hr. rewrite Hs in Hr. apply Ret_val_inj in Hr. discriminate Hr.
Qed.
