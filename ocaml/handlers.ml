(* handlers.ml — one function per case kind *)
open Model
open Driver

(* minify <hex s> -> <hex minify s> <hex minify (minify s)>  (C13) *)
let h_minify (a : string array) : string =
  let s = bytes_of_hex a.(1) in
  match cJSON_Minify (s @ [Z0]) with
  | Ok b ->
      let r1 = cstr b in
      let spec = minify_spec s in
      let r2 = (match cJSON_Minify (r1 @ [Z0]) with Ok b2 -> hex_of_bytes (cstr b2) | OOB -> "MODEL_OOB" | OutOfFuel -> "MODEL_OUTOFFUEL") in
      (hex_of_bytes r1) ^ " " ^ r2 ^ (if spec = r1 then "" else " SPECDIFF")
  | OOB -> "MODEL_OOB"
  | OutOfFuel -> "MODEL_OUTOFFUEL"

let handlers : (string * (string array -> string)) list = [
  ("minify", h_minify);
]
