(** PatchHeapStaticEx.v — non-vacuity of [PatchHeapStatic.c16_heap_conform_static]: its hypotheses (MInv, and the static
    hypotheses of Properties_C16.C16_conform_static on the REIFIED document and patch array — nothing about the run)
    hold on the five-operation heap [py_heap] of PatchHeapEx.v, and its conclusion there: status 0, the document left
    in the heap is [doc_same] to the RFC 6902 evaluation, nothing leaks. *)
From CJ Require Import Base Dbl Heap Forest ForestLemmas CoreSpec CoreDefs CoreRefineFrame CoreRefineDupValue CoreLedgerGen.
From CJ Require Import TierBridgeDefs MergeHeapDefs MergeHeapInv MergeHeapEx PatchHeapDefs PatchHeapApplyDefs
  PatchHeapTest PatchHeapLoop PatchHeapEx PatchHeapDupLoop PatchHeapStatic.
From CJ Require Tree PointerDefs PatchDefs Rfc6902 PatchConform PatchExact PatchMove PatchSeq2Op PatchSeqAll PatchSeq2Fit.
From CJ.gen Require Import Constants.
From stdpp Require Import gmap.
Local Open Scope Z_scope.

Lemma py_static :
  let vdoc := reify (h_str py_heap) py_doc in
  let vpatches := reify (h_str py_heap) py_patches in
  MInv py_heap py_F /\ NoLeak py_heap py_F /\
  PatchConform.dwf vdoc /\ Rfc6902.ops_of vpatches = Some PatchSeqAll.y_ops /\
  Forall PatchSeq2Op.op_wf2 (Tree.n_children vpatches) /\ Forall PatchSeq2Fit.op_cstr (Tree.n_children vpatches) /\
  Forall PatchMove.op_values_ok PatchSeqAll.y_ops /\ ~ In (Rfc6902.Remove []) PatchSeqAll.y_ops /\
  Z.of_nat (Nat.max (PatchSeq2Fit.width vdoc) (PatchSeq2Fit.opsw PatchSeqAll.y_ops) + length PatchSeqAll.y_ops) <= PointerDefs.SIZE_MAX /\
  Z.of_nat (PatchSeq2Fit.dbound (Tree.node_depth vdoc) PatchSeqAll.y_ops) <= c_CJSON_CIRCULAR_LIMIT /\
  exists e h' docT arrT,
    Rfc6902.eval vdoc PatchSeqAll.y_ops = Some e /\
    cJSONUtils_ApplyPatchesCaseSensitive nofail (Some (tid py_doc)) (Some (tid py_patches)) py_heap = Ret (0, h') /\
    MInv h' (F2 [] [py_bad] [] docT (put_t py_patches [] arrT)) /\ NoLeak h' (F2 [] [py_bad] [] docT (put_t py_patches [] arrT)) /\
    PatchExact.doc_same (reify (h_str h') docT) e.
Proof.
  intros vdoc vpatches. destruct py_reify as (R1 & R2 & _). unfold vdoc, vpatches. rewrite R1, R2.
  destruct PatchSeq2Fit.static_example as (Hd & Ho & Hw & Hc & Hv & Hn & Hwd & Hdp & e & Ev).
  split; [exact py_MInv|]. split; [apply heap_of_forest_NoLeak|].
  split; [exact Hd|]. split; [exact Ho|]. split; [exact Hw|]. split; [exact Hc|]. split; [exact Hv|]. split; [exact Hn|].
  split; [exact Hwd|]. split; [exact Hdp|].
  assert (Ep : py_patches = T (tid py_patches) (tdata py_patches) (tchildren py_patches)) by (vm_compute; reflexivity).
  assert (Harr : subtree_t py_patches [] = Some (T (tid py_patches) (tdata py_patches) (tchildren py_patches))) by (cbn [subtree_t]; f_equal; exact Ep).
  rewrite Ep in R2.
  destruct (c16_heap_conform_static py_heap [] [py_bad] py_doc py_patches [] (tid py_patches) (tdata py_patches) (tchildren py_patches)
              PatchSeqAll.y_ops py_MInv Harr) as (st & h' & docT & arrT & Hr & I' & _ & _ & NL & R);
    try (rewrite ?R1, ?R2; assumption).
  rewrite R1, Ev in R. destruct R as (-> & Hs & _ & _).
  exists e, h', docT, arrT. split; [done|]. split; [exact Hr|]. split; [exact I'|]. split; [apply NL, heap_of_forest_NoLeak|exact Hs].
Qed.
