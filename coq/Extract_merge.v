(** Extract_merge.v — extraction of the executable merge-patch model (area `merge`) and of the RFC 7396
    oracle to OCaml.  Only ExtrOcamlBasic is used; Z, positive, nat, spec_float and every model datatype stay
    extracted Coq datatypes. *)
Require Import ExtrOcamlBasic.
From CJ Require Import Base Dbl Tree CompareDefs MergeDefs Rfc7396.
Extraction Language OCaml.
Extraction "model_merge.ml"
  Base.cstr Dbl.sf_of_bits Dbl.bits_of_sf Dbl.sat_int Dbl.compare_double Tree.node_size Tree.node_depth
  CompareDefs.cJSON_Compare
  MergeDefs.mp_Duplicate MergeDefs.mp_merge_patch
  MergeDefs.cJSONUtils_MergePatch MergeDefs.cJSONUtils_MergePatchCaseSensitive
  MergeDefs.cJSONUtils_GenerateMergePatch MergeDefs.cJSONUtils_GenerateMergePatchCaseSensitive
  Rfc7396.merge Rfc7396.merge_opt Rfc7396.doc_eq Rfc7396.m7396_doc Rfc7396.no_null_member Rfc7396.m7396_depth_ok.
