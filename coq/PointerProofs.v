(** PointerProofs.v — proofs about the JSON Pointer transliteration (PointerDefs.v):
    the C lookup agrees with RFC 6901, and pointer construction is inverted by lookup. *)
From Coq Require Import Floats.SpecFloat ZifyBool.
From CJ Require Import Base Tree PointerDefs.
Local Open Scope Z_scope.

Ltac Zify.zify_post_hook ::= Z.div_mod_to_equations.

(** ---------- facts about SIZE_MAX, proved once ---------- *)
Lemma SIZE_MAX_bounds : 9 <= SIZE_MAX /\ SIZE_MAX < 10 ^ 25.
Proof. vm_compute. split; [intro H; discriminate H | reflexivity]. Qed.
#[local] Opaque SIZE_MAX.

Ltac zeq x y := destruct (Z.eqb_spec x y).

(** ---------- tokens ---------- *)
(* the bytes before the first '/' *)
Fixpoint first_tok (p : bytes) : bytes :=
  match p with
  | c :: r => if c =? 47 then [] else c :: first_tok r
  | [] => []
  end.

Lemma tok_skip p : p = first_tok p ++ skip_token p.
Proof.
  induction p as [|c r IH]; [reflexivity|].
  cbn [first_tok skip_token]. zeq c 47; [reflexivity|].
  cbn [app]. f_equal. exact IH.
Qed.

Lemma skip_token_shape p : skip_token p = [] \/ exists r, skip_token p = 47 :: r.
Proof.
  induction p as [|c r IH]; [left; reflexivity|].
  cbn [skip_token]. zeq c 47; [right; exists r; subst; reflexivity | exact IH].
Qed.

Lemma skip_token_length p : (length (skip_token p) <= length p)%nat.
Proof.
  induction p as [|c r IH]; [apply le_n|].
  cbn [skip_token]. zeq c 47; [apply le_n | cbn [length]; lia].
Qed.

Lemma skip_token_nz p : Forall (fun c => c <> 0) p -> Forall (fun c => c <> 0) (skip_token p).
Proof.
  induction p as [|c r IH]; intro H; [constructor|].
  cbn [skip_token]. zeq c 47; [exact H | apply IH; inversion H; assumption].
Qed.

Lemma first_tok_app t rest :
  Forall (fun c => c <> 47) t -> (rest = [] \/ exists r, rest = 47 :: r) ->
  first_tok (t ++ rest) = t /\ skip_token (t ++ rest) = rest.
Proof.
  intros Ht Hr. induction Ht as [|c t Hc Ht IH].
  - cbn [app]. destruct Hr as [->|[r ->]]; [split; reflexivity|].
    cbn [first_tok skip_token]. rewrite Z.eqb_refl. split; reflexivity.
  - cbn [app first_tok skip_token]. zeq c 47; [contradiction|].
    destruct IH as [IH1 IH2]. rewrite IH1, IH2. split; reflexivity.
Qed.

Lemma split_slash_tok p cur :
  split_slash p cur =
  (rev cur ++ first_tok p) :: match skip_token p with [] => [] | _ :: r => split_slash r [] end.
Proof.
  revert cur; induction p as [|c r IH]; intro cur.
  - cbn [split_slash first_tok skip_token]. rewrite app_nil_r. reflexivity.
  - cbn [split_slash first_tok skip_token]. zeq c 47.
    + rewrite app_nil_r. reflexivity.
    + rewrite IH. cbn [rev]. rewrite <- app_assoc. reflexivity.
Qed.

(** ---------- compare_pointers = unescape the first token and compare ---------- *)
Lemma bytes_eqb_nil_cons_opt (c : Z) (o : option bytes) :
  match option_map (cons c) o with Some u => bytes_eqb [] u | None => false end = false.
Proof. destruct o; reflexivity. Qed.

Lemma compare_pointers_spec k : forall p,
  Forall (fun c => c <> 0) p ->
  compare_pointers k p true =
  match unescape (first_tok p) with Some u => bytes_eqb k u | None => false end.
Proof.
  induction k as [|n k IH]; intros p Hp.
  - destruct p as [|c r]; [reflexivity|].
    inversion Hp as [|? ? Hc Hr]; subst.
    cbn [compare_pointers hd first_tok]. zeq c 47.
    + zeq c 0; reflexivity.
    + zeq c 0; [contradiction|]. cbn [negb andb unescape].
      zeq c 126.
      * destruct (first_tok r) as [|d r']; [reflexivity|].
        zeq d 48; [symmetry; apply bytes_eqb_nil_cons_opt|].
        zeq d 49; [symmetry; apply bytes_eqb_nil_cons_opt|reflexivity].
      * symmetry; apply bytes_eqb_nil_cons_opt.
  - destruct p as [|c r]; [reflexivity|].
    inversion Hp as [|? ? Hc Hr]; subst.
    cbn [compare_pointers first_tok]. zeq c 47; [reflexivity|].
    cbn [unescape]. zeq c 126.
    + destruct r as [|d r'].
      * cbn [hd first_tok]. reflexivity.
      * inversion Hr as [|? ? Hd Hr']; subst.
        cbn [hd tl first_tok]. zeq d 47.
        { subst d. cbn [Z.eqb negb orb andb]. reflexivity. }
        zeq d 48.
        { subst d. cbn [negb orb andb]. zeq n 126.
          - subst n. cbn [negb]. rewrite IH by assumption.
            destruct (unescape (first_tok r')) as [u|]; [|reflexivity].
            cbn [option_map bytes_eqb]. reflexivity.
          - cbn [negb]. destruct (unescape (first_tok r')) as [u|]; [|reflexivity].
            cbn [option_map bytes_eqb]. zeq n 126; [contradiction|reflexivity]. }
        zeq d 49.
        { subst d. cbn [negb orb andb]. zeq n 47.
          - subst n. cbn [negb]. rewrite IH by assumption.
            destruct (unescape (first_tok r')) as [u|]; [|reflexivity].
            cbn [option_map bytes_eqb]. reflexivity.
          - cbn [negb]. destruct (unescape (first_tok r')) as [u|]; [|reflexivity].
            cbn [option_map bytes_eqb]. zeq n 47; [contradiction|reflexivity]. }
        cbn [negb orb andb]. reflexivity.
    + zeq n c.
      * subst n. cbn [negb]. rewrite IH by assumption.
        destruct (unescape (first_tok r)) as [u|]; [|reflexivity].
        cbn [option_map bytes_eqb]. rewrite Z.eqb_refl. reflexivity.
      * cbn [negb]. destruct (unescape (first_tok r)) as [u|]; [|reflexivity].
        cbn [option_map bytes_eqb]. zeq n c; [contradiction|reflexivity].
Qed.

Lemma find_child_spec cs : forall p s,
  Forall (fun c => c <> 0) p ->
  find_child cs p true s =
  match unescape (first_tok p) with Some u => find_key cs u s | None => None end.
Proof.
  induction cs as [|c r IH]; intros p s Hp.
  - cbn [find_child find_key]. destruct (unescape (first_tok p)); reflexivity.
  - cbn [find_child find_key]. destruct (n_key c) as [k|].
    + rewrite compare_pointers_spec by assumption. rewrite IH by assumption.
      destruct (unescape (first_tok p)) as [u|]; reflexivity.
    + rewrite IH by assumption. destruct (unescape (first_tok p)) as [u|]; reflexivity.
Qed.

(** ---------- decimal digits ---------- *)
Definition digit (c : Z) : Prop := 48 <= c <= 57.

Lemma digit_test c : (48 <=? c) && (c <=? 57) = true <-> digit c.
Proof. unfold digit. lia. Qed.

Lemma digits_value_ge t : forall a v, 0 <= a -> digits_value t a = Some v -> a <= v.
Proof.
  induction t as [|c r IH]; intros a v Ha H; cbn [digits_value] in H.
  - inversion H; lia.
  - destruct ((48 <=? c) && (c <=? 57)) eqn:E; [|discriminate].
    apply digit_test in E. unfold digit in E. apply IH in H; lia.
Qed.

Lemma digits_value_digits t : forall a v, digits_value t a = Some v -> Forall digit t.
Proof.
  induction t as [|c r IH]; intros a v H; [constructor|]. cbn [digits_value] in H.
  destruct ((48 <=? c) && (c <=? 57)) eqn:E; [|discriminate].
  constructor; [apply digit_test; exact E | eapply IH; exact H].
Qed.

Lemma rfc_index_digits_value t i : rfc_array_index t = Some i -> digits_value t 0 = Some i.
Proof.
  destruct t as [|c [|d r]]; cbn [rfc_array_index]; intro H; [discriminate| |].
  - cbn [digits_value]. destruct ((48 <=? c) && (c <=? 57)); [|discriminate].
    inversion H. f_equal; lia.
  - destruct ((49 <=? c) && (c <=? 57)); [exact H | discriminate].
Qed.

Lemma rfc_index_digits t i : rfc_array_index t = Some i -> Forall digit t.
Proof. intro H. eapply digits_value_digits. apply rfc_index_digits_value. exact H. Qed.

Lemma unescape_digits t : Forall digit t -> unescape t = Some t.
Proof.
  induction 1 as [|c r Hc Hr IH]; [reflexivity|]. cbn [unescape].
  unfold digit in Hc. zeq c 126; [lia|]. rewrite IH. reflexivity.
Qed.

Lemma unescape_digits_inv t : forall u, unescape t = Some u -> Forall digit u -> u = t.
Proof.
  induction t as [|c r IH]; intros u H Hu; cbn [unescape] in H.
  - inversion H; reflexivity.
  - zeq c 126.
    + destruct r as [|d r']; [discriminate|].
      zeq d 48.
      { destruct (unescape r'); [|discriminate]. inversion H; subst u.
        inversion Hu as [|? ? Hd ?]; subst. unfold digit in Hd; lia. }
      zeq d 49; [|discriminate].
      destruct (unescape r'); [|discriminate]. inversion H; subst u.
      inversion Hu as [|? ? Hd ?]; subst. unfold digit in Hd; lia.
    + destruct (unescape r) as [u'|] eqn:E; [|discriminate]. inversion H; subst u.
      inversion Hu; subst. f_equal. apply IH; [reflexivity | assumption].
Qed.

(* the RFC reads the index from the unescaped token; the C code from the raw one *)
Lemma rfc_index_unescape t u : unescape t = Some u -> rfc_array_index u = rfc_array_index t.
Proof.
  intro H.
  destruct (rfc_array_index u) as [i|] eqn:Eu.
  - assert (u = t) by (eapply unescape_digits_inv; [exact H | eapply rfc_index_digits; exact Eu]).
    subst u. symmetry; exact Eu.
  - destruct (rfc_array_index t) as [j|] eqn:Et; [|reflexivity].
    pose proof (unescape_digits t (rfc_index_digits _ _ Et)) as H'.
    rewrite H in H'. inversion H'; subst u. congruence.
Qed.

(** the overflow guard of the C loop *)
Lemma guard_spec parsed d :
  (parsed >? (SIZE_MAX - d) / 10) = true <-> 10 * parsed + d > SIZE_MAX.
Proof. generalize SIZE_MAX; intro M. lia. Qed.

Lemma index_loop_spec r : forall acc pos,
  0 <= acc <= SIZE_MAX -> Forall (fun c => c <> 0) r ->
  match index_loop r acc pos with
  | Some (v, pos', rest) =>
      if (hd 0 rest =? 0) || (hd 0 rest =? 47)
      then digits_value (first_tok r) acc = Some v /\ 0 <= v <= SIZE_MAX
           /\ pos' = (pos + length (first_tok r))%nat
      else digits_value (first_tok r) acc = None
  | None => match digits_value (first_tok r) acc with Some v => v > SIZE_MAX | None => True end
  end.
Proof.
  induction r as [|c r IH]; intros acc pos Ha Hr.
  - cbn [index_loop hd first_tok digits_value length]. cbn [Z.eqb orb].
    repeat split; try lia.
  - inversion Hr as [|? ? Hc Hr']; subst.
    cbn [index_loop]. destruct ((48 <=? c) && (c <=? 57)) eqn:E.
    + pose proof E as Hd. apply digit_test in Hd. unfold digit in Hd.
      cbn [first_tok]. zeq c 47; [lia|]. cbn [digits_value]. rewrite E.
      destruct (acc >? (SIZE_MAX - (c - 48)) / 10) eqn:G.
      * apply guard_spec in G.
        destruct (digits_value (first_tok r) (10 * acc + (c - 48))) as [v|] eqn:Ev; [|exact I].
        apply digits_value_ge in Ev; lia.
      * assert (G' : ~ 10 * acc + (c - 48) > SIZE_MAX).
        { intro X. apply guard_spec in X. congruence. }
        specialize (IH (10 * acc + (c - 48)) (S pos)).
        destruct (index_loop r (10 * acc + (c - 48)) (S pos)) as [[[v pos'] rest]|].
        { assert (IH' := IH ltac:(lia) Hr').
          destruct ((hd 0 rest =? 0) || (hd 0 rest =? 47)); [|exact IH'].
          destruct IH' as (A & B & C). repeat split; try assumption; try lia.
          cbn [length]. lia. }
        { apply IH; [lia | assumption]. }
    + cbn [hd]. zeq c 0; [contradiction|]. cbn [orb first_tok].
      zeq c 47.
      * cbn [digits_value length]. repeat split; lia.
      * cbn [digits_value]. rewrite E. reflexivity.
Qed.

Lemma decode_spec r :
  Forall (fun c => c <> 0) r ->
  match decode_array_index_from_pointer r with
  | Some i => rfc_array_index (first_tok r) = Some i /\ 0 <= i <= SIZE_MAX
  | None => match rfc_array_index (first_tok r) with Some i => i > SIZE_MAX | None => True end
  end.
Proof.
  intro Hr. unfold decode_array_index_from_pointer.
  pose proof SIZE_MAX_bounds as [HM _].
  destruct ((hd 0 r =? 48) && negb (hd 0 (tl r) =? 0) && negb (hd 0 (tl r) =? 47)) eqn:LZ.
  - (* leading zero followed by something: the RFC rejects it, too *)
    destruct r as [|c [|d r']]; cbn [hd tl] in LZ; try (cbn in LZ; lia).
    cbn [first_tok]. zeq c 47; [lia|]. zeq d 47; [lia|].
    cbn [rfc_array_index]. assert (c = 48) by lia. subst c. cbn. exact I.
  - pose proof (index_loop_spec r 0 0%nat ltac:(lia) Hr) as S.
    destruct (index_loop r 0 0%nat) as [[[v pos'] rest]|].
    + destruct ((hd 0 rest =? 0) || (hd 0 rest =? 47)) eqn:T.
      * destruct S as (A & B & C).
        assert (T' : negb (hd 0 rest =? 0) && negb (hd 0 rest =? 47) = false) by lia.
        rewrite T', orb_false_r.
        destruct (pos' =? 0)%nat eqn:P.
        { apply Nat.eqb_eq in P. destruct (first_tok r) as [|? ?]; [exact I|].
          cbn [length] in C. lia. }
        split; [|exact B]. subst pos'.
        destruct r as [|c [|d r']].
        { cbn in P. discriminate. }
        { inversion Hr; subst. cbn [first_tok] in *. zeq c 47.
          - cbn in P. discriminate.
          - cbn [rfc_array_index]. cbn [digits_value] in A.
            destruct ((48 <=? c) && (c <=? 57)); [|discriminate].
            inversion A. f_equal; lia. }
        { inversion Hr as [|? ? Hc Hr1]; subst. inversion Hr1 as [|? ? Hd Hr2]; subst.
          cbn [hd tl] in LZ. cbn [first_tok] in *. zeq c 47.
          - cbn in P. discriminate.
          - zeq d 47.
            + cbn [rfc_array_index]. cbn [digits_value] in A.
              destruct ((48 <=? c) && (c <=? 57)); [|discriminate].
              inversion A. f_equal; lia.
            + cbn [rfc_array_index]. pose proof A as A'. cbn [digits_value] in A'.
              destruct ((48 <=? c) && (c <=? 57)) eqn:E; [|discriminate].
              assert (X : (49 <=? c) && (c <=? 57) = true) by lia.
              rewrite X. exact A. }
      * assert (T' : negb (hd 0 rest =? 0) && negb (hd 0 rest =? 47) = true) by lia.
        rewrite T', orb_true_r.
        destruct (rfc_array_index (first_tok r)) as [i|] eqn:Ei; [|exact I].
        apply rfc_index_digits_value in Ei. congruence.
    + destruct (rfc_array_index (first_tok r)) as [i|] eqn:Ei; [|exact I].
      apply rfc_index_digits_value in Ei. rewrite Ei in S. exact S.
Qed.

(** ---------- well-formedness predicates, children as [Forall] ---------- *)
Lemma small_arrays_unfold ty s i d k cs :
  small_arrays (Node ty s i d k cs) <-> Z.of_nat (length cs) <= SIZE_MAX /\ Forall small_arrays cs.
Proof.
  assert (G : forall l, (fix go (l : list node) : Prop :=
                           match l with [] => True | c :: r => small_arrays c /\ go r end) l
                        <-> Forall small_arrays l).
  { induction l as [|c r IH]; split; intro H.
    - constructor.
    - exact I.
    - destruct H as [H1 H2]. constructor; [exact H1 | apply IH; exact H2].
    - inversion H; subst. split; [assumption | apply IH; assumption]. }
  cbn [small_arrays]. rewrite G. reflexivity.
Qed.

Lemma keys_ok_unfold ty s i d k cs :
  keys_ok (Node ty s i d k cs) <->
  (tymask ty = c_cJSON_Object ->
     NoDup (map n_key cs) /\ Forall (fun c => exists k, n_key c = Some k /\ key_bytes_ok k) cs)
  /\ Forall keys_ok cs.
Proof.
  assert (G : forall l, (fix go (l : list node) : Prop :=
                           match l with [] => True | c :: r => keys_ok c /\ go r end) l
                        <-> Forall keys_ok l).
  { induction l as [|c r IH]; split; intro H.
    - constructor.
    - exact I.
    - destruct H as [H1 H2]. constructor; [exact H1 | apply IH; exact H2].
    - inversion H; subst. split; [assumption | apply IH; assumption]. }
  cbn [keys_ok]. rewrite G. reflexivity.
Qed.

Lemma containers_ok_unfold ty s i d k cs :
  containers_ok (Node ty s i d k cs) <->
  (cs <> [] -> tymask ty = c_cJSON_Array \/ tymask ty = c_cJSON_Object) /\ Forall containers_ok cs.
Proof.
  assert (G : forall l, (fix go (l : list node) : Prop :=
                           match l with [] => True | c :: r => containers_ok c /\ go r end) l
                        <-> Forall containers_ok l).
  { induction l as [|c r IH]; split; intro H.
    - constructor.
    - exact I.
    - destruct H as [H1 H2]. constructor; [exact H1 | apply IH; exact H2].
    - inversion H; subst. split; [assumption | apply IH; assumption]. }
  cbn [containers_ok]. rewrite G. reflexivity.
Qed.

(** ---------- nth_z ---------- *)
Lemma nth_z_big (l : list node) idx : Z.of_nat (length l) <= SIZE_MAX -> idx > SIZE_MAX -> nth_z l idx = None.
Proof.
  intros H1 H2. unfold nth_z.
  destruct ((0 <=? idx) && (idx <? Z.of_nat (length l))) eqn:E; [lia | reflexivity].
Qed.

Lemma nth_z_In (l : list node) idx ch : nth_z l idx = Some ch -> In ch l.
Proof.
  unfold nth_z. destruct ((0 <=? idx) && (idx <? Z.of_nat (length l))); [|discriminate].
  apply nth_error_In.
Qed.

Lemma nth_z_of_nat (l : list node) i ch : nth_error l i = Some ch -> nth_z l (Z.of_nat i) = Some ch.
Proof.
  intro H. unfold nth_z.
  assert (i < length l)%nat by (apply nth_error_Some; congruence).
  destruct ((0 <=? Z.of_nat i) && (Z.of_nat i <? Z.of_nat (length l))) eqn:E; [|lia].
  rewrite Nat2Z.id. exact H.
Qed.

Lemma find_key_In cs : forall u s i ch, find_key cs u s = Some (i, ch) -> In ch cs.
Proof.
  induction cs as [|c r IH]; intros u s i ch H; cbn [find_key] in H; [discriminate|].
  destruct (match n_key c with Some k' => bytes_eqb k' u | None => false end).
  - inversion H; subst. left; reflexivity.
  - right. eapply IH; exact H.
Qed.

(** ---------- one step of RFC 6901 resolution ---------- *)
Lemma rfc6901_nil d : rfc6901 d [] = Some [].
Proof. reflexivity. Qed.

Lemma rfc6901_noslash d c r : c <> 47 -> rfc6901 d (c :: r) = None.
Proof. intro H. unfold rfc6901, rfc_parse_pointer. zeq c 47; [contradiction | reflexivity]. Qed.

Lemma rfc6901_step d r :
  rfc6901 d (47 :: r) =
  match unescape (first_tok r) with
  | None => None
  | Some u =>
      if is_array d then
        match rfc_array_index u with
        | Some idx => match nth_z (n_children d) idx with
                      | Some ch => option_map (cons (Z.to_nat idx)) (rfc6901 ch (skip_token r))
                      | None => None
                      end
        | None => None
        end
      else if is_object d then
        match find_key (n_children d) u 0%nat with
        | Some (i, ch) => option_map (cons i) (rfc6901 ch (skip_token r))
        | None => None
        end
      else None
  end.
Proof.
  unfold rfc6901 at 1. unfold rfc_parse_pointer. rewrite Z.eqb_refl.
  rewrite split_slash_tok. cbn [rev app map all_some].
  destruct (unescape (first_tok r)) as [u|]; [|reflexivity].
  destruct (skip_token_shape r) as [E|[r' E]]; rewrite E.
  - cbn [map all_some option_map rfc_resolve]. unfold rfc6901. cbn [rfc_parse_pointer rfc_resolve].
    destruct (is_array d).
    + destruct (rfc_array_index u) as [idx|]; [|reflexivity].
      destruct (nth_z (n_children d) idx); reflexivity.
    + destruct (is_object d); [|reflexivity].
      destruct (find_key (n_children d) u 0%nat) as [[i ch]|]; reflexivity.
  - unfold rfc6901. unfold rfc_parse_pointer. rewrite Z.eqb_refl.
    destruct (all_some (map unescape (split_slash r' []))) as [ts|].
    + cbn [option_map rfc_resolve]. reflexivity.
    + cbn [option_map].
      destruct (is_array d).
      * destruct (rfc_array_index u) as [idx|]; [|reflexivity].
        destruct (nth_z (n_children d) idx); reflexivity.
      * destruct (is_object d); [|reflexivity].
        destruct (find_key (n_children d) u 0%nat) as [[i ch]|]; reflexivity.
Qed.

(** ---------- the C lookup is RFC 6901 ---------- *)
Lemma get_item_loop_rfc fuel : forall cur p,
  (length p < fuel)%nat -> small_arrays cur -> Forall (fun c => c <> 0) p ->
  get_item_loop fuel cur p true = rfc6901 cur p.
Proof.
  induction fuel as [|f IH]; intros cur p Hf Hs Hp; [lia|].
  destruct p as [|c r]; [reflexivity|].
  cbn [get_item_loop]. inversion Hp as [|? ? Hc Hr]; subst.
  zeq c 47; [subst c | symmetry; apply rfc6901_noslash; assumption].
  rewrite rfc6901_step.
  destruct cur as [ty s i d k cs]. apply small_arrays_unfold in Hs. destruct Hs as [Hlen Hcs].
  rewrite Forall_forall in Hcs. cbn [length] in Hf.
  assert (Hf' : (length (skip_token r) < f)%nat) by (pose proof (skip_token_length r); lia).
  pose proof (skip_token_nz r Hr) as Hr'.
  cbn [n_children].
  destruct (is_array (Node ty s i d k cs)).
  - pose proof (decode_spec r Hr) as D.
    destruct (decode_array_index_from_pointer r) as [idx|].
    + destruct D as [D1 D2].
      rewrite (unescape_digits _ (rfc_index_digits _ _ D1)). rewrite D1.
      destruct (nth_z cs idx) as [ch|] eqn:N; [|reflexivity].
      rewrite IH; [reflexivity | assumption | apply Hcs; eapply nth_z_In; exact N | assumption].
    + destruct (unescape (first_tok r)) as [u|] eqn:U; [|reflexivity].
      rewrite (rfc_index_unescape _ _ U).
      destruct (rfc_array_index (first_tok r)) as [j|]; [|reflexivity].
      rewrite nth_z_big by assumption. reflexivity.
  - destruct (is_object (Node ty s i d k cs)).
    + rewrite find_child_spec by assumption.
      destruct (unescape (first_tok r)) as [u|]; [|reflexivity].
      destruct (find_key cs u 0%nat) as [[j ch]|] eqn:K; [|reflexivity].
      rewrite IH; [reflexivity | assumption | apply Hcs; eapply find_key_In; exact K | assumption].
    + destruct (unescape (first_tok r)); reflexivity.
Qed.

Lemma get_pointer_rfc : forall doc p,
  small_arrays doc -> Forall (fun c => c <> 0) p ->
  cJSONUtils_GetPointerCaseSensitive doc p = rfc6901 doc p.
Proof.
  intros doc p Hs Hp. unfold cJSONUtils_GetPointerCaseSensitive, get_item_from_pointer.
  apply get_item_loop_rfc; [lia | assumption | assumption].
Qed.

(** ---------- escaping ---------- *)
Lemma encode_unescape : forall k,
  unescape (encode_string_as_pointer k) = Some k
  /\ Forall (fun c => c <> 47) (encode_string_as_pointer k).
Proof.
  induction k as [|c r [IH1 IH2]]; [split; [reflexivity | constructor]|].
  cbn [encode_string_as_pointer]. zeq c 47.
  - subst c. cbn [unescape Z.eqb Pos.eqb]. rewrite IH1. split; [reflexivity|].
    constructor; [lia|]. constructor; [lia | exact IH2].
  - zeq c 126.
    + subst c. cbn [unescape Z.eqb Pos.eqb]. rewrite IH1. split; [reflexivity|].
      constructor; [lia|]. constructor; [lia | exact IH2].
    + cbn [unescape]. zeq c 126; [contradiction|]. rewrite IH1. split; [reflexivity|].
      constructor; assumption.
Qed.

Lemma encode_nz k : key_bytes_ok k -> Forall (fun c => c <> 0) (encode_string_as_pointer k).
Proof.
  induction 1 as [|c r Hc Hr IH]; [constructor|].
  cbn [encode_string_as_pointer]. zeq c 47.
  - constructor; [lia|]. constructor; [lia | exact IH].
  - zeq c 126.
    + constructor; [lia|]. constructor; [lia | exact IH].
    + constructor; [lia | exact IH].
Qed.

(** ---------- sprintf("%lu") and back ---------- *)
Lemma dec_digits_spec fuel : forall n acc,
  (0 < fuel)%nat -> 0 <= n < 10 ^ Z.of_nat fuel ->
  exists c ds0,
    dec_digits fuel n acc = (c :: ds0) ++ acc
    /\ Forall digit (c :: ds0)
    /\ (c = 48 -> n = 0 /\ ds0 = [])
    /\ forall a rest, digits_value ((c :: ds0) ++ rest) a
                      = digits_value rest (a * 10 ^ Z.of_nat (length (c :: ds0)) + n).
Proof.
  induction fuel as [|f IH]; intros n acc Hf Hn; [lia|].
  cbn [dec_digits]. destruct (Z.ltb_spec n 10) as [L|L].
  - exists (48 + n), []. split; [reflexivity|]. split.
    { constructor; [unfold digit; lia | constructor]. }
    split; [intro; split; [lia | reflexivity]|].
    intros a rest. cbn [app digits_value length].
    assert (E : (48 <=? 48 + n) && (48 + n <=? 57) = true) by lia. rewrite E.
    f_equal. change (Z.of_nat 1) with 1. lia.
  - rewrite Nat2Z.inj_succ, Z.pow_succ_r in Hn by lia.
    assert (Hf' : (0 < f)%nat).
    { destruct f; [|lia]. cbn in Hn. lia. }
    assert (Hn' : 0 <= n / 10 < 10 ^ Z.of_nat f).
    { revert Hn. generalize (10 ^ Z.of_nat f). intros P Hn. lia. }
    destruct (IH (n / 10) ((48 + n mod 10) :: acc) Hf' Hn') as (c & ds0 & E & D & Z0 & V).
    exists c, (ds0 ++ [48 + n mod 10]). split.
    { rewrite E. cbn [app]. rewrite <- app_assoc. reflexivity. }
    split.
    { change (c :: ds0 ++ [48 + n mod 10]) with ((c :: ds0) ++ [48 + n mod 10]).
      apply Forall_app. split; [exact D|]. constructor; [unfold digit; lia | constructor]. }
    split.
    { intro C48. destruct (Z0 C48) as [Q _]. lia. }
    intros a rest.
    change ((c :: ds0 ++ [48 + n mod 10]) ++ rest) with (((c :: ds0) ++ [48 + n mod 10]) ++ rest).
    rewrite <- app_assoc. rewrite V. cbn [app digits_value].
    assert (E' : (48 <=? 48 + n mod 10) && (48 + n mod 10 <=? 57) = true) by lia. rewrite E'.
    f_equal.
    cbn [length]. rewrite app_length. cbn [length].
    rewrite ?Nat.add_1_r, ?Nat2Z.inj_succ, ?Z.pow_succ_r by lia.
    generalize (10 ^ Z.of_nat (length ds0)). intro P.
    set (q := n / 10). set (m := n mod 10).
    assert (DM : n = 10 * q + m) by (subst q m; lia).
    clearbody q m. rewrite DM. ring.
Qed.

Lemma print_lu_spec n :
  0 <= n <= SIZE_MAX ->
  rfc_array_index (print_lu n) = Some n /\ Forall digit (print_lu n).
Proof.
  intro Hn. pose proof SIZE_MAX_bounds as [_ HM]. unfold print_lu.
  destruct (dec_digits_spec 25 n [] ltac:(lia)) as (c & ds0 & E & D & Z0 & V).
  { change (Z.of_nat 25) with 25. lia. }
  rewrite E, app_nil_r. split; [|exact D].
  specialize (V 0 []). rewrite app_nil_r in V. cbn [digits_value] in V.
  rewrite Z.mul_0_l, Z.add_0_l in V.
  inversion D as [|? ? Dc D0]; subst. unfold digit in Dc.
  destruct ds0 as [|d ds1].
  - cbn [rfc_array_index]. cbn [digits_value] in V.
    assert (E' : (48 <=? c) && (c <=? 57) = true) by lia. rewrite E' in *.
    inversion V. f_equal; lia.
  - cbn [rfc_array_index].
    assert (c <> 48) by (intro C; destruct (Z0 C) as [_ X]; discriminate X).
    assert (E' : (49 <=? c) && (c <=? 57) = true) by lia. rewrite E'. exact V.
Qed.

Lemma digit_not_slash l : Forall digit l -> Forall (fun c => c <> 47) l.
Proof. apply Forall_impl. unfold digit. intros; lia. Qed.
Lemma digit_nz l : Forall digit l -> Forall (fun c => c <> 0) l.
Proof. apply Forall_impl. unfold digit. intros; lia. Qed.

Lemma decode_print_lu n tp :
  0 <= n <= SIZE_MAX -> Forall (fun c => c <> 0) tp -> (tp = [] \/ exists r, tp = 47 :: r) ->
  decode_array_index_from_pointer (print_lu n ++ tp) = Some n
  /\ skip_token (print_lu n ++ tp) = tp.
Proof.
  intros Hn Htp Hshape. destruct (print_lu_spec n Hn) as [R D].
  destruct (first_tok_app (print_lu n) tp (digit_not_slash _ D) Hshape) as [F S].
  split; [|exact S].
  assert (NZ : Forall (fun c => c <> 0) (print_lu n ++ tp)).
  { apply Forall_app. split; [apply digit_nz; exact D | exact Htp]. }
  pose proof (decode_spec _ NZ) as Q. rewrite F, R in Q.
  destruct (decode_array_index_from_pointer (print_lu n ++ tp)) as [i|].
  - destruct Q as [Q _]. congruence.
  - lia.
Qed.

(** ---------- find_pointer ---------- *)
Definition fp_result (ty : Z) (i : nat) (c : node) (tp : bytes) : option bytes :=
  if tymask ty =? c_cJSON_Array then Some (47 :: print_lu (Z.of_nat i) ++ tp)
  else if tymask ty =? c_cJSON_Object then
    match n_key c with
    | Some k => Some (47 :: encode_string_as_pointer k ++ tp)
    | None => None
    end
  else None.

Fixpoint fp_go (ty : Z) (here target : path) (l : list node) (i : nat) : option bytes :=
  match l with
  | [] => None
  | c :: r =>
      match find_pointer c (here ++ [i]) target with
      | Some tp => fp_result ty i c tp
      | None => fp_go ty here target r (S i)
      end
  end.

Lemma find_pointer_unfold ty s v d k cs here target :
  find_pointer (Node ty s v d k cs) here target =
  if (if list_eq_dec Nat.eq_dec here target then true else false) then Some []
  else fp_go ty here target cs 0%nat.
Proof.
  cbn [find_pointer]. destruct (list_eq_dec Nat.eq_dec here target); [reflexivity|].
  generalize 0%nat. induction cs as [|c r IHr]; intro i; [reflexivity|].
  cbn [fp_go]. rewrite <- IHr. reflexivity.
Qed.

Lemma find_pointer_none c : forall here target,
  (forall rel, target <> here ++ rel) -> find_pointer c here target = None.
Proof.
  induction c as [ty s v d k cs IH] using node_ind'. intros here target H.
  rewrite find_pointer_unfold.
  destruct (list_eq_dec Nat.eq_dec here target) as [E|_].
  { exfalso. apply (H []). rewrite app_nil_r. symmetry; exact E. }
  generalize 0%nat. induction IH as [|c r Hc _ IHr]; intro i; [reflexivity|].
  cbn [fp_go]. rewrite Hc; [apply IHr|].
  intros rel E. apply (H (i :: rel)). rewrite E, <- app_assoc. reflexivity.
Qed.

Lemma fp_go_at ty here rel' tp : forall cs s i ch,
  nth_error cs i = Some ch ->
  find_pointer ch (here ++ [(s + i)%nat]) (here ++ (s + i)%nat :: rel') = Some tp ->
  fp_go ty here (here ++ (s + i)%nat :: rel') cs s = fp_result ty (s + i)%nat ch tp.
Proof.
  induction cs as [|c r IH]; intros s i ch N F; [destruct i; discriminate|].
  destruct i as [|i'].
  - cbn [nth_error] in N. inversion N; subst c. rewrite Nat.add_0_r in *.
    cbn [fp_go]. rewrite F. reflexivity.
  - cbn [nth_error] in N. cbn [fp_go].
    rewrite find_pointer_none.
    + rewrite <- Nat.add_succ_comm in *. apply IH; assumption.
    + intros rel E. rewrite <- app_assoc in E. apply app_inv_head in E.
      cbn [app] in E. inversion E. lia.
Qed.

Lemma find_key_nodup cs : forall s i ch k,
  NoDup (map n_key cs) -> nth_error cs i = Some ch -> n_key ch = Some k ->
  find_key cs k s = Some ((s + i)%nat, ch).
Proof.
  induction cs as [|c r IH]; intros s i ch k ND N K; [destruct i; discriminate|].
  cbn [map] in ND. inversion ND as [|? ? Hnotin ND']; subst.
  destruct i as [|i']; cbn [nth_error] in N; cbn [find_key].
  - inversion N; subst c. rewrite K, bytes_eqb_refl, Nat.add_0_r. reflexivity.
  - destruct (match n_key c with Some k' => bytes_eqb k' k | None => false end) eqn:M.
    + exfalso. apply Hnotin. destruct (n_key c) as [k'|] eqn:Kc; [|discriminate].
      apply bytes_eqb_eq in M. subst k'. rewrite <- K. apply in_map.
      eapply nth_error_In; exact N.
    + rewrite <- Nat.add_succ_comm. apply IH; assumption.
Qed.

Lemma get_item_loop_nil fuel c : (0 < fuel)%nat -> get_item_loop fuel c [] true = Some [].
Proof. destruct fuel; [lia | reflexivity]. Qed.

Lemma find_pointer_some c : forall here rel t,
  small_arrays c -> keys_ok c -> containers_ok c -> subtree c rel = Some t ->
  exists p, find_pointer c here (here ++ rel) = Some p
         /\ Forall (fun c => c <> 0) p
         /\ (p = [] \/ exists r, p = 47 :: r)
         /\ forall fuel, (length p < fuel)%nat -> get_item_loop fuel c p true = Some rel.
Proof.
  induction c as [ty s v d k cs IH] using node_ind'. intros here rel t Hs Hk Hc Hsub.
  rewrite find_pointer_unfold.
  destruct rel as [|i rel'].
  - rewrite app_nil_r. destruct (list_eq_dec Nat.eq_dec here here) as [_|X]; [|contradiction].
    exists []. split; [reflexivity|]. split; [constructor|]. split; [left; reflexivity|].
    intros fuel Hf. apply get_item_loop_nil. cbn [length] in Hf. lia.
  - destruct (list_eq_dec Nat.eq_dec here (here ++ i :: rel')) as [X|_].
    { exfalso. rewrite <- (app_nil_r here) in X at 1. apply app_inv_head in X. discriminate X. }
    cbn [subtree n_children] in Hsub.
    destruct (nth_error cs i) as [ch|] eqn:N; [|discriminate].
    apply small_arrays_unfold in Hs. destruct Hs as [Hlen Hscs].
    apply keys_ok_unfold in Hk. destruct Hk as [Hkeys Hkcs].
    apply containers_ok_unfold in Hc. destruct Hc as [Hcont Hccs].
    pose proof (nth_error_In _ _ N) as Hin.
    rewrite Forall_forall in IH, Hscs, Hkcs, Hccs.
    destruct (IH ch Hin (here ++ [i]) rel' t (Hscs _ Hin) (Hkcs _ Hin) (Hccs _ Hin) Hsub)
      as (tp & F & NZtp & Shape & G).
    rewrite <- app_assoc in F. cbn [app] in F.
    pose proof (fp_go_at ty here rel' tp cs 0%nat i ch N F) as FG. cbn [Nat.add] in FG. rewrite FG.
    assert (Hi : (i < length cs)%nat) by (apply nth_error_Some; congruence).
    assert (Hne : cs <> []) by (intro; subst cs; cbn in Hi; lia).
    unfold fp_result.
    destruct (Hcont Hne) as [TA|TO].
    + (* array *)
      rewrite TA, Z.eqb_refl.
      destruct (decode_print_lu (Z.of_nat i) tp ltac:(lia) NZtp Shape) as [Dec Skip].
      destruct (print_lu_spec (Z.of_nat i) ltac:(lia)) as [_ Dig].
      eexists. split; [reflexivity|]. split.
      { constructor; [lia|]. apply Forall_app. split; [apply digit_nz; exact Dig | exact NZtp]. }
      split; [right; eexists; reflexivity|].
      intros fuel Hf. destruct fuel as [|f]; [lia|].
      cbn [get_item_loop]. rewrite Z.eqb_refl.
      unfold is_array, is_type. cbn [n_ty n_children]. rewrite TA, Z.eqb_refl.
      rewrite Dec, Skip. rewrite (nth_z_of_nat _ _ _ N). rewrite Nat2Z.id.
      rewrite G; [reflexivity|]. cbn [length] in Hf. rewrite app_length in Hf. lia.
    + (* object *)
      rewrite TO. change (c_cJSON_Object =? c_cJSON_Array) with false. cbv iota. rewrite Z.eqb_refl.
      destruct (Hkeys TO) as [ND Keys]. rewrite Forall_forall in Keys.
      destruct (Keys ch Hin) as (key & Kch & Kok). rewrite Kch.
      destruct (encode_unescape key) as [U NS].
      destruct (first_tok_app _ tp NS Shape) as [FT Skip].
      assert (NZp : Forall (fun c => c <> 0) (encode_string_as_pointer key ++ tp)).
      { apply Forall_app. split; [apply encode_nz; exact Kok | exact NZtp]. }
      eexists. split; [reflexivity|]. split; [constructor; [lia | exact NZp]|].
      split; [right; eexists; reflexivity|].
      intros fuel Hf. destruct fuel as [|f]; [lia|].
      cbn [get_item_loop]. rewrite Z.eqb_refl.
      unfold is_array, is_object, is_type. cbn [n_ty n_children]. rewrite TO.
      change (c_cJSON_Object =? c_cJSON_Array) with false. cbv iota. rewrite Z.eqb_refl.
      rewrite find_child_spec by exact NZp. rewrite FT, U, Skip.
      pose proof (find_key_nodup cs 0%nat i ch key ND N Kch) as FK. cbn [Nat.add] in FK. rewrite FK.
      rewrite G; [reflexivity|]. cbn [length] in Hf. rewrite app_length in Hf. lia.
Qed.

Lemma find_pointer_roundtrip : forall root target t,
  small_arrays root -> keys_ok root -> containers_ok root ->
  subtree root target = Some t ->
  exists p, cJSONUtils_FindPointerFromObjectTo root target = Some p
         /\ Forall (fun c => c <> 0) p
         /\ cJSONUtils_GetPointerCaseSensitive root p = Some target
         /\ rfc6901 root p = Some target.
Proof.
  intros root target t Hs Hk Hc Hsub.
  destruct (find_pointer_some root [] target t Hs Hk Hc Hsub) as (p & F & NZ & _ & G).
  exists p. cbn [app] in F. split; [exact F|]. split; [exact NZ|].
  assert (X : cJSONUtils_GetPointerCaseSensitive root p = Some target).
  { unfold cJSONUtils_GetPointerCaseSensitive, get_item_from_pointer. apply G. lia. }
  split; [exact X|]. rewrite <- get_pointer_rfc by assumption. exact X.
Qed.

(** ---------- a concrete document (the same terms as ex_doc in Properties_C15.v) ---------- *)
Definition pz := S754_zero false.
Definition pleaf k v := Node 8 None v pz (Some k) [].
Definition pdoc := Node 64 None 0 pz None
  [pleaf [97] 1;
   Node 32 None 0 pz (Some [97;47;98]) [pleaf [] 10; pleaf [] 11; Node 64 None 0 pz None [pleaf [126] 5; pleaf [] 6]];
   pleaf [] 3].

Lemma ex_doc_ok :
  small_arrays pdoc /\ keys_ok pdoc /\ containers_ok pdoc /\
  cJSONUtils_FindPointerFromObjectTo pdoc [1;2;0]%nat = Some [47;97;126;49;98;47;50;47;126;48] /\
  cJSONUtils_GetPointerCaseSensitive pdoc [47;97;126;49;98;47;50;47;126;48] = Some [1;2;0]%nat.
Proof.
  pose proof SIZE_MAX_bounds as [HM _].
  assert (KB : forall k, Forall (fun c => 0 < c < 256) k -> key_bytes_ok k) by (intros k H; exact H).
  split; [|split; [|split; [|split]]].
  - unfold pdoc, pleaf. cbn [small_arrays length]. repeat split; lia.
  - unfold pdoc, pleaf. cbn [keys_ok map n_key].
    repeat match goal with
           | |- 0 < _ < 256 => lia
           | |- _ /\ _ => split
           | |- True => exact I
           | |- _ -> _ => intro
           | |- Forall _ [] => constructor
           | |- Forall _ (_ :: _) => constructor
           | |- exists k, Some ?x = Some k /\ _ => exists x; split; [reflexivity | apply KB]
           | |- NoDup [] => constructor
           | |- NoDup (_ :: _) => constructor
           | |- ~ In _ _ => cbn [In]; intro X
           | |- exists k, n_key _ = Some k /\ _ => cbn [n_key]
           | X : _ \/ _ |- _ => destruct X as [X|X]
           | X : Some _ = Some _ |- _ => discriminate X
           | X : Some _ = None |- _ => discriminate X
           | X : None = Some _ |- _ => discriminate X
           | X : False |- _ => destruct X
           | X : tymask _ = c_cJSON_Object |- _ => vm_compute in X; discriminate X
           end.
  - unfold pdoc, pleaf. cbn [containers_ok].
    repeat match goal with
           | |- _ /\ _ => split
           | |- True => exact I
           | |- [] <> [] -> _ => intro X; contradiction X; reflexivity
           | |- _ -> tymask 64 = _ \/ _ => intros _; right; reflexivity
           | |- _ -> tymask 32 = _ \/ _ => intros _; left; reflexivity
           end.
  - vm_compute. reflexivity.
  - vm_compute. reflexivity.
Qed.
