(** TierBridgeSortHeap.v — C19 in forest form.  [Properties_C19.C19_sorted_perm] speaks about a heap and
    the list of children identities ([SortProofs.children_of]); here it is transported to the forest
    invariant [WF h F] of C06: for an object node [o] of a well-formed forest whose members all have
    readable keys, the heap-level [sort_object] returns normally and the heap it returns is again
    well-formed, for the forest in which the children of [o] are [sort_children] of the children before —
    whose reification is what the value-level [sort_object] of PatchDefs.v and of MergeDefs.v return. *)
From CJ Require Import Base Dbl Heap Forest ForestLemmas CoreSpec CoreRefineBase CoreRefine CoreRefineDupValue.
From CJ Require Import TierBridgeDefs TierBridgeSort TierBridgeForest TierBridgeLemmas.
From CJ Require Tree PatchDefs MergeDefs SortDefs SortSpec SortChain SortProofs.
From stdpp Require Import gmap.
From Coq Require Import Lia.
Local Open Scope Z_scope.

Lemma keyof_aux (o : option (list Z)) :
  match o with Some raw => cstr raw | None => [] end = default [] (o ≫= fun s => Some (cstr s)).
Proof. by destruct o. Qed.

Section SortHeap.
  Context (h : heap) (F : forest) (o : positive) (d : rdata) (cs : list tree).
  Hypothesis W : WF h F.
  Hypothesis KR : KeysReadable h F.
  Hypothesis Ho : find_tree o F = Some (T o d cs).
  Hypothesis Href : is_ref d = false.
  Hypothesis Hkeys : Forall (has_key (h_str h)) cs.
  Notation ks := (tid <$> cs).
  Let ND : NoDup (ids F) := wf_nodup _ _ W.

  Lemma Hflat : (o, d, ks) ∈ flat F.
  Proof. by apply find_tree_flat. Qed.

  Lemma no_borrowed_child : rd_ref d = None.
  Proof.
    pose proof (wf_ref _ _ W) as Hr. rewrite Forall_forall in Hr. destruct (Hr _ Hflat) as [_ H2]. cbn in H2.
    destruct (rd_ref d) as [b|] eqn:E; [|done]. rewrite H2 in Href; done.
  Qed.

  Lemma child_dat c : c ∈ cs -> h_dat h !! tid c = Some (mk_dat (tdata c) (cids c)).
  Proof.
    intros Hc. apply (WF_lookup_dat h F); [done|]. apply find_tree_Some in Ho as [Hn _].
    exact (elem_of_flat F c (child_in_nodes F o d cs c Hn Hc)).
  Qed.
  Lemma child_flat c : c ∈ cs -> flat_of c ∈ flat F.
  Proof. intros Hc. apply find_tree_Some in Ho as [Hn _]. exact (elem_of_flat F c (child_in_nodes F o d cs c Hn Hc)). Qed.

  (** the key string the heap-level code compares is the key of the member subtree *)
  Lemma keyof_fkey c : c ∈ cs -> SortChain.keyof h (tid c) = fkey (h_str h) c.
  Proof.
    intros Hc. unfold SortChain.keyof, SortChain.key_ptr. rewrite (child_dat c Hc). cbn [nd_key mk_dat].
    unfold fkey, key_string. destruct (rd_key (tdata c)) as [b|]; [|done]. cbn [mbind option_bind]. unfold bytes in *.
    apply keyof_aux.
  Qed.

  Lemma children_of_heap : SortProofs.children_of h o ks.
  Proof.
    assert (NDk : NoDup ks) by (by eapply children_ids_NoDup).
    split; [split|].
    - apply (WF_ids_live h F o W). apply find_tree_Some in Ho as [Hn _]. apply elem_of_list_fmap. by exists (T o d cs).
    - exists (mk_dat d ks). split; [exact (WF_lookup_dat h F o d ks W Hflat)|]. cbn [nd_child mk_dat child_of].
      destruct ks; [apply no_borrowed_child|done].
    - done.
    - intros x Hx. apply elem_of_list_lookup_1 in Hx as [k Hk].
      rewrite (WF_lookup_lnk_child h F o d ks k x W Hflat Hk). by rewrite (SortChain.slinks_lookup ks x k NDk Hk).
    - intros x Hx. apply elem_of_list_fmap in Hx as (c & -> & Hc).
      split; [|split].
      + apply (WF_ids_live h F _ W). eapply cids_in_ids; [exact Hflat|]. apply elem_of_list_fmap. by exists c.
      + rewrite (child_dat c Hc). by eexists.
      + rewrite Forall_forall in Hkeys. destruct (Hkeys c Hc) as [k Hk]. unfold key_string in Hk.
        destruct (rd_key (tdata c)) as [b|] eqn:Eb; [|done].
        destruct (KR (flat_of c) b (child_flat c Hc) Eb) as (Hl & s & Hs & Hz).
        exists b, s. unfold SortChain.key_ptr. rewrite (child_dat c Hc). cbn [nd_key mk_dat]. done.
  Qed.

  Theorem sort_object_forest (flag : bool) (fuel : nat) :
    (SortDefs.sort_fuel (length cs) <= fuel)%nat ->
    let cs' := sort_children (h_str h) flag cs in
    let F' := set_children o cs' F in
    exists h',
      SortDefs.sort_object fuel (Some o) flag h = Ret (tt, h') /\
      WF h' F' /\
      h_str h' = h_str h /\ h_live h' = h_live h /\ h_own h' = h_own h /\ h_next h' = h_next h /\
      h_trace h' = h_trace h /\
      PatchDefs.sort_object (reify (h_str h) (T o d cs)) flag = Ok (reify (h_str h') (T o d cs')) /\
      MergeDefs.mp_sort_object (reify (h_str h) (T o d cs)) flag = Ok (reify (h_str h') (T o d cs')) /\
      reify (h_str h') <$> find_tree o F' = Some (reify (h_str h') (T o d cs')).
  Proof.
    intros Hf cs' F'.
    assert (NDk : NoDup ks) by (by eapply children_ids_NoDup).
    destruct (SortProofs.sort_object_sorted_perm h o ks flag fuel children_of_heap ltac:(by rewrite fmap_length))
      as (h' & l' & d0 & Hrun & El' & Hperm & _ & _ & Hco' & Hfr & Hd0 & Eh').
    assert (El : l' = tid <$> cs').
    { rewrite El'. unfold cs'. rewrite <- sort_spec_children. do 2 f_equal. unfold member_pairs.
      change ks with (map tid cs). rewrite map_map. apply map_ext_in. intros c Hc. apply elem_of_list_In in Hc. by rewrite keyof_fkey. }
    assert (Hcs' : cs' ≡ₚ cs) by apply SortSpec.isort_perm.
    assert (Hd0' : d0 = mk_dat d ks).
    { rewrite (WF_lookup_dat h F o d ks W Hflat) in Hd0. by injection Hd0. }
    pose proof (f_equal h_str Eh') as Es. pose proof (f_equal h_live Eh') as Elive.
    pose proof (f_equal h_own Eh') as Eown. pose proof (f_equal h_next Eh') as Enext.
    pose proof (f_equal h_trace Eh') as Etr. pose proof (f_equal h_dat Eh') as Edat.
    cbn [h_str h_live h_own h_next h_trace h_dat] in Es, Elive, Eown, Enext, Etr, Edat.
    destruct (focus_container F o d cs ND Ho) as (FL0 & E1 & E2).
    set (FL := flat cs ++ FL0) in *.
    assert (E2' : flat F' ≡ₚ (o, d, tid <$> cs') :: FL).
    { unfold F'. rewrite (E2 cs'). unfold FL. apply Permutation_skip, Permutation_app_tail. by apply flat_proper. }
    destruct (heap_lnk_of_focus F (roots F) o d ks FL ND (reflexivity _) E1) as [Elnk _].
    destruct (heap_dat_of_focus F o d ks FL ND E1) as [Edat0 _].
    assert (W' : WF h' F').
    { apply (WF_refocus h h' F F' (roots F) o d ks (tid <$> cs') FL W E1); try done.
      - unfold F'. by rewrite roots_set_children.
      - rewrite Href. done.
      - (* links *)
        apply map_eq. intros z. rewrite <- El.
        assert (NDl : NoDup l') by (by rewrite Hperm).
        destruct (decide (z ∈ ks)) as [Hin|Hnin].
        + assert (Hin' : z ∈ l') by (by rewrite Hperm).
          rewrite (SortProofs.cs_links _ _ _ (SortProofs.co_shape _ _ _ Hco') z Hin').
          apply elem_of_list_lookup_1 in Hin' as [k Hk].
          rewrite (SortChain.slinks_lookup l' z k NDl Hk). symmetry. apply lookup_union_Some_l.
          exact (SortChain.slinks_lookup l' z k NDl Hk).
        + rewrite (Hfr z Hnin), (wf_lnk _ _ W), Elnk.
          rewrite !lookup_union_r; [done| |].
          * apply (SortChain.slinks_lookup_None l' z). by rewrite Hperm.
          * by apply (SortChain.slinks_lookup_None ks z).
      - (* data *)
        rewrite Edat, (wf_dat _ _ W), Edat0, insert_insert. f_equal. rewrite Hd0', <- El.
        unfold SortChain.nd_set_child, mk_dat. cbn [nd_type nd_vstr nd_vint nd_vdbl nd_key]. f_equal.
        destruct l' as [|y r]; cbn [head child_of]; [by rewrite no_borrowed_child|done]. }
    exists h'. split; [exact Hrun|]. split; [exact W'|]. rewrite Es.
    destruct (bridge_sort (h_str h) F o d cs ND Ho Hkeys flag cs' Hcs') as (_ & B1 & B2 & _ & _ & B3).
    { unfold cs'. by rewrite sort_spec_children. }
    by split_and!.
  Qed.
End SortHeap.
