(** Properties_C05_Heap.v — companion of Properties_C05.v / C09 / C04: the printer READS THE TREE FROM MEMORY.

    The printer model of PrintDefs.v takes the item as an immutable value ([Tree.node]); the C functions
    walk a linked structure (item->type, ->valuestring, ->valuedouble, ->valueint, ->string, ->child, ->next).
    PrintHeapDefs.v transliterates that walk on the heap model of the DOM API ([print_value_h],
    [print_array_h], [print_object_h], the public entry points [cJSON_Print_h], [cJSON_PrintUnformatted_h],
    [cJSON_PrintBuffered_h], [cJSON_PrintPreallocated_h] taking the item POINTER and running in a heap), writing
    its output through PrintDefs' own buffer-level primitives and print-buffer state.  This file states what is
    proved about it.  Only statements closed by [exact]; proofs in PrintHeapRO.v, PrintHeapRefine.v,
    PrintHeapForest.v, PrintHeapTransfer.v, PrintHeapParse.v, PrintHeapRef.v, PrintHeapEx.v.

    1. READ-ONLY      for every heap, item pointer and outcome, the heap returned is the heap given.
    2. REFINEMENT     on a heap that reads as the tree u from the item ([src_t], [complete], readable names) the
                      heap-level printer EQUALS PrintDefs' printer on [reify (h_str h) u], lifted: same flag, same
                      print-buffer state (bytes, offset, allocator counters), same [OOB] if any, for every buffer
                      state, oracle, junk, libc; [have_realloc] is what the heap's global_hooks say ([hr_of h]).
                      Forest level: [WF h F] + readable strings; trees without borrowed child pointers print as
                      [reify t] (public entry points: no fuel hypothesis); with reference nodes whose targets are
                      alive ([refs_in] / [refs_live], i.e. [ref_chain] defined) as [reify (unroll F k t)]: below a
                      reference node, the referenced chain.
    3. TRANSFER       C09 (no write outside the caller's buffer, caller block, content, threshold), C05 (strict
                      RFC 8259 text, the variants agree), C04 (print, parse; and parse -> heap tree -> print_h ->
                      same text, through ParseUsable's [mat]) for the heap-level entry points.
    4. NON-VACUITY    a concrete heap (object, nested arrays, escapes, %d and %g numbers, raw node, constant key,
                      array reference) printed by evaluation through the heap-level functions in both formats =
                      [render] of its reification = the bytes the real library prints for that structure. *)
From CJ Require Import Base Dbl Tree LibcNum LibcPrint Grammar ParseDefs ParseSpec ParseComplete ParseListStrtod
  PrintDefs PrintLemmas PrintStrict RoundTripNum RoundTrip RoundTripPrint ParseUsable.
From CJ Require Import Heap Forest CoreDefs CoreRefineDupTree CoreRefineDupValue CoreRefineDupForest CoreRefineDupUnroll
  CoreRefineDupExample CoreOpsBridgeRefDefs ParseUsableHeap ParseUsableWalk
  PrintHeapDefs PrintHeapRO PrintHeapRefine PrintHeapForest PrintHeapTransfer PrintHeapParse PrintHeapRef PrintHeapEx.
From stdpp Require Import gmap.
Local Open Scope Z_scope.

(** ------------------------------------------------------------------ 1. read-only *)

(** EVERY heap (no invariant assumed), every item pointer (NULL, dangling, a string block …), every libc,
    allocation schedule and fresh-memory contents: whenever one of the four public functions returns, the heap
    it returns is the heap it was called in — link map, data map, string blocks, liveness, ownership tags,
    allocator counters, hooks, trace (an error outcome carries no heap) *)
Theorem C05_heap_read_only :
  forall fmt_d fmt_g15 fmt_g17 sscanf_lg oracle junk (item : ptr) (h : heap),
    (forall r h', cJSON_Print_h fmt_d fmt_g15 fmt_g17 sscanf_lg oracle junk item h = Ret (r, h') -> h' = h) /\
    (forall r h', cJSON_PrintUnformatted_h fmt_d fmt_g15 fmt_g17 sscanf_lg oracle junk item h = Ret (r, h') -> h' = h) /\
    (forall prebuffer fmt r h',
       cJSON_PrintBuffered_h fmt_d fmt_g15 fmt_g17 sscanf_lg oracle junk item prebuffer fmt h = Ret (r, h') -> h' = h) /\
    (forall buffer length format r h',
       cJSON_PrintPreallocated_h fmt_d fmt_g15 fmt_g17 sscanf_lg oracle junk item buffer length format h = Ret (r, h') -> h' = h).
Proof. exact print_entry_points_read_only. Qed.
Print Assumptions C05_heap_read_only.

(** the recursive worker, for every fuel and every state of the print buffer *)
Theorem C05_heap_print_value_read_only :
  forall fmt_d fmt_g15 fmt_g17 sscanf_lg oracle junk (dfuel lfuel : nat) (item : ptr) (p : printbuffer) h r h',
    print_value_h fmt_d fmt_g15 fmt_g17 sscanf_lg oracle junk dfuel lfuel item p h = Ret (r, h') -> h' = h.
Proof. exact print_value_h_RO. Qed.
Print Assumptions C05_heap_print_value_read_only.

(** ------------------------------------------------------------------ 2. refinement *)

(** THE CORE.  [src_t h lf k u] (CoreRefineDupTree.v): from the node [tid u] the heap reads as the tree [u], [k]
    levels deep, children lists shorter than [lf]: live data blocks holding the fields of the nodes with
    child = first child, next links = following sibling (NULL at the end), readable valuestrings.
    [complete u]: nothing cut off (leaves have a NULL child).  [keys_readable h u]: member names are readable C
    strings.  Then, within the fuel, print_value on the pointer IS print_value on the value. *)
Theorem C05_heap_print_value_refines :
  forall fmt_d fmt_g15 fmt_g17 sscanf_lg oracle junk (h : heap) (lf k : nat) (u : tree),
    src_t h lf k u -> complete u -> keys_readable h u ->
    forall df lfuel : nat, (k < df)%nat -> (lf <= lfuel)%nat -> forall p : printbuffer,
      print_value_h fmt_d fmt_g15 fmt_g17 sscanf_lg oracle junk df lfuel (Some (tid u)) p h
      = lift (print_value fmt_d fmt_g15 fmt_g17 sscanf_lg oracle junk (reify (h_str h) u) p) h.
Proof. exact print_value_h_src. Qed.
Print Assumptions C05_heap_print_value_refines.

(** [heap_value h p n] (PrintHeapTransfer.v) packages the hypotheses for the PUBLIC entry points (fuel =
    [h_next h]): some tree [u] with [src_t], [complete], [keys_readable], [tid u = p], [reify (h_str h) u = n],
    depth and chain lengths within the fuel.  Under it the four public functions EQUAL the lifted PrintDefs
    functions on [n]; [cJSON_Print_fmt_h true / false] = cJSON_Print_h / cJSON_PrintUnformatted_h *)
Theorem C05_heap_entry_points_refine :
  forall fmt_d fmt_g15 fmt_g17 sscanf_lg oracle junk (h : heap) (p : positive) (n : node),
    heap_value h p n ->
    (forall fmt, cJSON_Print_fmt_h fmt_d fmt_g15 fmt_g17 sscanf_lg oracle junk fmt (Some p) h
                 = lift (print fmt_d fmt_g15 fmt_g17 sscanf_lg oracle junk n fmt (hr_of h)) h) /\
    (forall prebuffer fmt, cJSON_PrintBuffered_h fmt_d fmt_g15 fmt_g17 sscanf_lg oracle junk (Some p) prebuffer fmt h
                 = lift (cJSON_PrintBuffered fmt_d fmt_g15 fmt_g17 sscanf_lg oracle junk n prebuffer fmt (hr_of h)) h) /\
    (forall buffer length format,
       cJSON_PrintPreallocated_h fmt_d fmt_g15 fmt_g17 sscanf_lg oracle junk (Some p) buffer length format h
       = lift (cJSON_PrintPreallocated fmt_d fmt_g15 fmt_g17 sscanf_lg oracle junk n buffer length format (hr_of h)) h).
Proof.
  exact (fun fmt_d fmt_g15 fmt_g17 sscanf_lg oracle junk h p n HV =>
           conj (heap_Print_fmt fmt_d fmt_g15 fmt_g17 sscanf_lg oracle junk h p n HV)
                (conj (heap_Buffered fmt_d fmt_g15 fmt_g17 sscanf_lg oracle junk h p n HV)
                      (heap_Preallocated fmt_d fmt_g15 fmt_g17 sscanf_lg oracle junk h p n HV))).
Qed.
Print Assumptions C05_heap_entry_points_refine.

(** FOREST LEVEL, trees without reference-to-container nodes: [WF h F] (the C06 invariant), the printed subtree
    [t] has no borrowed child pointer, its valuestrings and keys are readable C strings ([tree_readable]:
    live block with a terminator — owned, constant and referenced strings alike).  No fuel hypothesis. *)
Theorem C05_heap_value_plain :
  forall h F p t, WF h F -> find_tree p F = Some t -> no_borrowed t -> tree_readable h t ->
    heap_value h p (reify (h_str h) t).
Proof. exact heap_value_plain. Qed.
Print Assumptions C05_heap_value_plain.

Theorem C05_heap_Print_plain :
  forall fmt_d fmt_g15 fmt_g17 sscanf_lg oracle junk (h : heap) (F : forest), WF h F ->
  forall (p : positive) (t : tree), find_tree p F = Some t -> no_borrowed t -> tree_readable h t ->
    cJSON_Print_h fmt_d fmt_g15 fmt_g17 sscanf_lg oracle junk (Some p) h
    = lift (cJSON_Print fmt_d fmt_g15 fmt_g17 sscanf_lg oracle junk (reify (h_str h) t) (hr_of h)) h.
Proof. exact cJSON_Print_h_plain. Qed.
Print Assumptions C05_heap_Print_plain.

Theorem C05_heap_PrintPreallocated_plain :
  forall fmt_d fmt_g15 fmt_g17 sscanf_lg oracle junk (h : heap) (F : forest), WF h F ->
  forall (p : positive) (t : tree), find_tree p F = Some t -> no_borrowed t -> tree_readable h t ->
  forall (buffer : option bytes) (length : Z) (format : bool),
    cJSON_PrintPreallocated_h fmt_d fmt_g15 fmt_g17 sscanf_lg oracle junk (Some p) buffer length format h
    = lift (cJSON_PrintPreallocated fmt_d fmt_g15 fmt_g17 sscanf_lg oracle junk (reify (h_str h) t) buffer length format (hr_of h)) h.
Proof. exact cJSON_PrintPreallocated_h_plain. Qed.
Print Assumptions C05_heap_PrintPreallocated_plain.

(** FOREST LEVEL with reference nodes: every reference target is a node of [F] ([refs_in]: its block has not
    been released), all strings of [F] readable, the structure below [p] is finite: its unrolling to [k] levels
    ([unroll]: the children of a reference node are the chain its child pointer designates now) is [complete].
    The item prints as that unrolling. *)
Theorem C05_heap_print_value_forest :
  forall fmt_d fmt_g15 fmt_g17 sscanf_lg oracle junk (h : heap) (F : forest),
    WF h F -> refs_in F -> forest_readable h F ->
  forall (p : positive) (t : tree) (k : nat), find_tree p F = Some t -> complete (unroll F k t) ->
  forall df lfuel : nat, (k < df)%nat -> (Pos.to_nat (h_next h) <= lfuel)%nat -> forall pb : printbuffer,
    print_value_h fmt_d fmt_g15 fmt_g17 sscanf_lg oracle junk df lfuel (Some p) pb h
    = lift (print_value fmt_d fmt_g15 fmt_g17 sscanf_lg oracle junk (reify (h_str h) (unroll F k t)) pb) h.
Proof. exact print_value_h_forest. Qed.
Print Assumptions C05_heap_print_value_forest.

Theorem C05_heap_value_forest :
  forall h F p t k, WF h F -> refs_in F -> forest_readable h F -> find_tree p F = Some t -> complete (unroll F k t) ->
    (k < Pos.to_nat (h_next h))%nat -> heap_value h p (reify (h_str h) (unroll F k t)).
Proof. exact heap_value_forest. Qed.
Print Assumptions C05_heap_value_forest.

(** the same from [ref_chain] (CoreOpsBridgeRefDefs.v): [refs_live F] = [ref_chain F (Some i)] is defined for
    every reference node [i] of [F] (the list model's "the borrowed pointer does not dangle") *)
Theorem C05_heap_value_refs_live :
  forall h F p t k, WF h F -> refs_live F -> forest_readable h F -> find_tree p F = Some t -> complete (unroll F k t) ->
    (k < Pos.to_nat (h_next h))%nat -> heap_value h p (reify (h_str h) (unroll F k t)).
Proof. exact heap_value_refs_live. Qed.
Print Assumptions C05_heap_value_refs_live.

(** … and what is printed for a reference node: its own fields, and as children the elements of [ref_chain] *)
Theorem C05_heap_reference_node_value :
  forall (S : gmap positive bytes) F p d us k,
    find_tree p F = Some (T p d []) -> ref_chain F (Some p) = Some us ->
    reify S (unroll F (Datatypes.S k) (T p d []))
    = Node (rd_type d) (cstr_of S (rd_vstr d)) (rd_vint d) (rd_vdbl d) (cstr_of S (rd_key d))
           (map (fun c => reify S (unroll F k c)) us).
Proof. exact reify_reference_node. Qed.
Print Assumptions C05_heap_reference_node_value.

(** without borrowed child pointers the unrolling is the tree *)
Theorem C05_heap_unroll_plain :
  forall F k t, no_borrowed t -> (height t <= k)%nat -> unroll F k t = t.
Proof. exact unroll_plain. Qed.
Print Assumptions C05_heap_unroll_plain.

(** ------------------------------------------------------------------ 3. transfer: C09 *)

(** no write outside the caller's buffer (never [Err OutOfBounds]), no memory error while walking the tree, no
    fuel shortage: the call returns — and returns the heap unchanged *)
Theorem C09_no_overflow_heap :
  forall fmt_d fmt_g15 fmt_g17 sscanf_lg, LibcPrintSpec fmt_d fmt_g15 fmt_g17 ->
  forall oracle junk (h : heap) (p : positive) (n : node), heap_value h p n -> fields_ok n = true ->
  forall (buf : bytes) (fmt : bool),
    exists r, cJSON_PrintPreallocated_h fmt_d fmt_g15 fmt_g17 sscanf_lg oracle junk (Some p) (Some buf) (zlen buf) fmt h = Ret (r, h).
Proof. exact C09_no_overflow_heap_proof. Qed.
Print Assumptions C09_no_overflow_heap.

Theorem C09_caller_block_heap :
  forall fmt_d fmt_g15 fmt_g17 sscanf_lg, LibcPrintSpec fmt_d fmt_g15 fmt_g17 ->
  forall oracle junk (h : heap) (p : positive) (n : node), heap_value h p n -> fields_ok n = true ->
  forall (buf : bytes) (fmt : bool) r h',
    cJSON_PrintPreallocated_h fmt_d fmt_g15 fmt_g17 sscanf_lg oracle junk (Some p) (Some buf) (zlen buf) fmt h = Ret (r, h') ->
    h' = h /\ par_live r = 0 /\ par_requests r = 0%nat /\ exists b', par_buffer r = Some b' /\ zlen b' = zlen buf.
Proof. exact C09_caller_block_heap_proof. Qed.
Print Assumptions C09_caller_block_heap.

Theorem C09_content_heap :
  forall fmt_d fmt_g15 fmt_g17 sscanf_lg, LibcPrintSpec fmt_d fmt_g15 fmt_g17 ->
  forall oracle junk (h : heap) (p : positive) (n : node), heap_value h p n -> fields_ok n = true ->
  forall (buf : bytes) (fmt : bool) r h',
    cJSON_PrintPreallocated_h fmt_d fmt_g15 fmt_g17 sscanf_lg oracle junk (Some p) (Some buf) (zlen buf) fmt h = Ret (r, h') ->
    par_flag r = true ->
    exists txt rest, render fmt_d fmt_g15 fmt_g17 sscanf_lg fmt 0 n = Some txt /\
                     par_buffer r = Some (txt ++ 0 :: rest) /\ zlen (txt ++ 0 :: rest) = zlen buf.
Proof. exact C09_content_heap_proof. Qed.
Print Assumptions C09_content_heap.

Theorem C09_threshold_heap :
  forall fmt_d fmt_g15 fmt_g17 sscanf_lg, LibcPrintSpec fmt_d fmt_g15 fmt_g17 ->
  forall oracle junk (h : heap) (p : positive) (n : node), heap_value h p n -> fields_ok n = true ->
  forall (buf : bytes) (fmt : bool) r h', zlen buf <= c_INT_MAX ->
    cJSON_PrintPreallocated_h fmt_d fmt_g15 fmt_g17 sscanf_lg oracle junk (Some p) (Some buf) (zlen buf) fmt h = Ret (r, h') ->
    (par_flag r = true <-> exists txt, render fmt_d fmt_g15 fmt_g17 sscanf_lg fmt 0 n = Some txt /\ zlen txt + 2 <= zlen buf).
Proof. exact C09_threshold_heap_proof. Qed.
Print Assumptions C09_threshold_heap.

(** the allocating entry points, every allocation schedule *)
Theorem C09_print_refines_render_heap :
  forall fmt_d fmt_g15 fmt_g17 sscanf_lg, LibcPrintSpec fmt_d fmt_g15 fmt_g17 ->
  forall oracle junk (h : heap) (p : positive) (n : node), heap_value h p n -> fields_ok n = true ->
  forall fmt : bool,
    exists r, cJSON_Print_fmt_h fmt_d fmt_g15 fmt_g17 sscanf_lg oracle junk fmt (Some p) h = Ret (r, h) /\
      (forall block, prr_block r = Some block ->
         exists txt, render fmt_d fmt_g15 fmt_g17 sscanf_lg fmt 0 n = Some txt /\ block = txt ++ [0]) /\
      ((forall i, oracle i = false) -> forall txt, render fmt_d fmt_g15 fmt_g17 sscanf_lg fmt 0 n = Some txt ->
         zlen txt + 2 <= c_INT_MAX -> prr_block r = Some (txt ++ [0])).
Proof. exact C09_print_refines_render_heap_proof. Qed.
Print Assumptions C09_print_refines_render_heap.

Theorem C09_buffered_refines_render_heap :
  forall fmt_d fmt_g15 fmt_g17 sscanf_lg, LibcPrintSpec fmt_d fmt_g15 fmt_g17 ->
  forall oracle junk (h : heap) (p : positive) (n : node), heap_value h p n -> fields_ok n = true ->
  forall (prebuffer : Z) (fmt : bool), 0 <= prebuffer ->
    exists r, cJSON_PrintBuffered_h fmt_d fmt_g15 fmt_g17 sscanf_lg oracle junk (Some p) prebuffer fmt h = Ret (r, h) /\
      (forall block, prr_block r = Some block ->
         exists txt rest, render fmt_d fmt_g15 fmt_g17 sscanf_lg fmt 0 n = Some txt /\ block = txt ++ 0 :: rest) /\
      ((forall i, oracle i = false) -> forall txt, render fmt_d fmt_g15 fmt_g17 sscanf_lg fmt 0 n = Some txt ->
         zlen txt + 2 <= c_INT_MAX -> exists rest, prr_block r = Some (txt ++ 0 :: rest)).
Proof. exact C09_buffered_refines_render_heap_proof. Qed.
Print Assumptions C09_buffered_refines_render_heap.

(** ------------------------------------------------------------------ 3. transfer: C05 *)

(** what the heap-level cJSON_Print / cJSON_PrintUnformatted return, under EVERY allocation schedule, is nothing
    but ONE RFC 8259 JSON text denoting the value of the tree; it is returned when no allocation fails *)
Theorem C05_strict_heap :
  forall fmt_d fmt_g15 fmt_g17 sscanf_lg, LibcStrictSpec fmt_d fmt_g15 fmt_g17 ->
  forall (h : heap) (p : positive) (n : node), heap_value h p n -> printable n = true -> fields_ok n = true ->
  forall fmt : bool, (cdepth n <= nesting_limit)%nat ->
    exists txt, render fmt_d fmt_g15 fmt_g17 sscanf_lg fmt 0 n = Some txt /\
      RFC_text txt (val_of fmt_d fmt_g15 fmt_g17 sscanf_lg n) /\
      forall oracle junk, exists r,
        cJSON_Print_fmt_h fmt_d fmt_g15 fmt_g17 sscanf_lg oracle junk fmt (Some p) h = Ret (r, h) /\
        (forall block, prr_block r = Some block -> block = txt ++ [0]) /\
        ((forall i, oracle i = false) -> zlen txt + 2 <= c_INT_MAX -> prr_block r = Some (txt ++ [0])).
Proof. exact C05_strict_heap_proof. Qed.
Print Assumptions C05_strict_heap.

(** all heap-level variants — both allocator configurations enter through [h_hooks h], which is arbitrary —
    return a block that starts with ONE AND THE SAME zero-free text and its terminator *)
Theorem C05_variants_heap :
  forall fmt_d fmt_g15 fmt_g17 sscanf_lg, LibcStrictSpec fmt_d fmt_g15 fmt_g17 ->
  forall (h : heap) (p : positive) (n : node), heap_value h p n -> printable n = true -> fields_ok n = true ->
  forall oracle junk (fmt : bool), (forall i, oracle i = false) ->
  exists txt,
    render fmt_d fmt_g15 fmt_g17 sscanf_lg fmt 0 n = Some txt /\ PrintLemmas.nz txt /\
    (zlen txt + 2 <= c_INT_MAX ->
       (exists r, cJSON_Print_fmt_h fmt_d fmt_g15 fmt_g17 sscanf_lg oracle junk fmt (Some p) h = Ret (r, h) /\
                  prr_block r = Some (txt ++ [0])) /\
       (forall prebuffer, 0 <= prebuffer ->
          exists r rest, cJSON_PrintBuffered_h fmt_d fmt_g15 fmt_g17 sscanf_lg oracle junk (Some p) prebuffer fmt h = Ret (r, h) /\
                         prr_block r = Some (txt ++ 0 :: rest))) /\
    (forall buf, zlen txt + 2 <= zlen buf -> zlen buf <= c_INT_MAX ->
       exists r rest,
         cJSON_PrintPreallocated_h fmt_d fmt_g15 fmt_g17 sscanf_lg oracle junk (Some p) (Some buf) (zlen buf) fmt h = Ret (r, h) /\
         par_flag r = true /\ par_buffer r = Some (txt ++ 0 :: rest)).
Proof. exact C05_variants_heap_proof. Qed.
Print Assumptions C05_variants_heap.

(** ------------------------------------------------------------------ 3. transfer: C04 *)

(** print a heap value with the heap-level entry point, parse the returned block: accepted, and the tree that
    comes back has the shape of the printed value *)
Theorem C04_print_parse_heap :
  forall fmt_d fmt_g15 fmt_g17 sscanf_lg strtod,
  strtod_ok strtod -> strtod_rfc strtod -> LibcStrictSpec fmt_d fmt_g15 fmt_g17 ->
  LibcRoundTripSpec strtod fmt_d fmt_g15 fmt_g17 sscanf_lg ->
  forall (h : heap) (p : positive) (n : node), heap_value h p n -> forall fmt : bool,
  printable n = true -> rt_ok n = true -> (cdepth n <= nesting_limit)%nat -> fields_ok n = true ->
  (forall txt, render fmt_d fmt_g15 fmt_g17 sscanf_lg fmt 0 n = Some txt -> zlen txt + 2 <= c_INT_MAX) ->
  exists txt, render fmt_d fmt_g15 fmt_g17 sscanf_lg fmt 0 n = Some txt /\
  forall junk, exists r pr,
    cJSON_Print_fmt_h fmt_d fmt_g15 fmt_g17 sscanf_lg no_failure junk fmt (Some p) h = Ret (r, h) /\
    prr_block r = Some (txt ++ [0]) /\
    cJSON_Parse strtod never_fails (txt ++ [0]) = Ok pr /\
    pr_tree pr = Some (reparsed strtod fmt_d fmt_g15 fmt_g17 sscanf_lg n) /\
    same_shape n (reparsed strtod fmt_d fmt_g15 fmt_g17 sscanf_lg n) /\
    forall hr2 junk2, exists r2,
      print fmt_d fmt_g15 fmt_g17 sscanf_lg no_failure junk2 (reparsed strtod fmt_d fmt_g15 fmt_g17 sscanf_lg n) fmt hr2 = Ok r2 /\
      prr_block r2 = Some (txt ++ [0]).
Proof. exact C04_print_parse_heap_proof. Qed.
Print Assumptions C04_print_parse_heap.

(** the heap image [mat t] of a tree without flag bits whose strings are C strings (every parsed tree) reads as
    [t]: reification gives [t] back, no borrowed pointer, every string readable *)
Theorem C04_mat_heap_value :
  forall (t : node) (h : heap) (F : forest), plain t = true -> cstrings t = true -> WF h F ->
  exists h', mat t h = Ret (Some (h_next h), h') /\ WF h' (F ++ [forest_of t (h_next h)]) /\
             reify (h_str h') (forest_of t (h_next h)) = t /\
             no_borrowed (forest_of t (h_next h)) /\ tree_readable h' (forest_of t (h_next h)) /\
             heap_value h' (h_next h) t.
Proof. exact mat_heap_value. Qed.
Print Assumptions C04_mat_heap_value.

(** parse (any schedule) -> heap tree (in any well-formed heap) -> heap-level print (any schedule): nothing but
    one RFC 8259 text denoting the tree's value, the heap unchanged *)
Theorem C01_result_usable_prints_heap :
  forall strtod fmt_d fmt_g15 fmt_g17 sscanf_lg,
  LibcStrictSpec fmt_d fmt_g15 fmt_g17 -> strtod_ok strtod -> strtod_valid strtod ->
  forall parse_oracle content len rnt r t,
    (len <= length content)%nat -> Forall (fun c => is_byte c = true) (firstn len content) ->
    cJSON_ParseWithLengthOpts strtod parse_oracle content len rnt = Ok r -> pr_tree r = Some t ->
    forall (h : heap) (F : forest), WF h F ->
    exists h', mat t h = Ret (Some (h_next h), h') /\ WF h' (F ++ [forest_of t (h_next h)]) /\
      heap_value h' (h_next h) t /\
      forall fmt, exists txt,
        render fmt_d fmt_g15 fmt_g17 sscanf_lg fmt 0 t = Some txt /\
        RFC_text txt (val_of fmt_d fmt_g15 fmt_g17 sscanf_lg t) /\
        forall oracle junk, exists pr,
          cJSON_Print_fmt_h fmt_d fmt_g15 fmt_g17 sscanf_lg oracle junk fmt (Some (h_next h)) h' = Ret (pr, h') /\
          (forall block, prr_block pr = Some block -> block = txt ++ [0]) /\
          ((forall i, oracle i = false) -> zlen txt + 2 <= c_INT_MAX -> prr_block pr = Some (txt ++ [0])).
Proof. exact parsed_prints_heap. Qed.
Print Assumptions C01_result_usable_prints_heap.

(** heap-level print -> parse -> heap tree -> heap-level print: the same bytes *)
Theorem C04_print_parse_mat_print_heap :
  forall strtod fmt_d fmt_g15 fmt_g17 sscanf_lg,
  LibcStrictSpec fmt_d fmt_g15 fmt_g17 -> strtod_ok strtod -> strtod_rfc strtod ->
  LibcRoundTripSpec strtod fmt_d fmt_g15 fmt_g17 sscanf_lg ->
  forall (h : heap) (p : positive) (n : node) (fmt : bool), heap_value h p n ->
  printable n = true -> rt_ok n = true -> (cdepth n <= nesting_limit)%nat -> fields_ok n = true ->
  (forall txt, render fmt_d fmt_g15 fmt_g17 sscanf_lg fmt 0 n = Some txt -> zlen txt + 2 <= c_INT_MAX) ->
  exists txt, render fmt_d fmt_g15 fmt_g17 sscanf_lg fmt 0 n = Some txt /\
  forall junk, exists r pr t',
    cJSON_Print_fmt_h fmt_d fmt_g15 fmt_g17 sscanf_lg no_failure junk fmt (Some p) h = Ret (r, h) /\
    prr_block r = Some (txt ++ [0]) /\
    cJSON_Parse strtod never_fails (txt ++ [0]) = Ok pr /\ pr_tree pr = Some t' /\ same_shape n t' /\
    forall (h2 : heap) (F2 : forest), WF h2 F2 ->
      exists h3, mat t' h2 = Ret (Some (h_next h2), h3) /\ WF h3 (F2 ++ [forest_of t' (h_next h2)]) /\
        heap_value h3 (h_next h2) t' /\
        forall junk2, exists r3,
          cJSON_Print_fmt_h fmt_d fmt_g15 fmt_g17 sscanf_lg no_failure junk2 fmt (Some (h_next h2)) h3 = Ret (r3, h3) /\
          prr_block r3 = Some (txt ++ [0]).
Proof. exact C04_print_parse_mat_print_heap_proof. Qed.
Print Assumptions C04_print_parse_mat_print_heap.

(** ------------------------------------------------------------------ 4. non-vacuity *)

(** the example heap ([ex_h], built from the empty heap by the construction API) satisfies the hypotheses: it
    encodes the forest [ex_F]; every reference target is alive (through [ref_chain] too); all strings are
    readable; node 9 is the root object; its unrolling to 3 levels — below the reference node 25 the three
    elements of "arr" — is complete; so the heap denotes the value [ex_value] from pointer 9 *)
Theorem C05_heap_nonvacuous_hypotheses :
  WF ex_h ex_F /\ refs_in ex_F /\ refs_live ex_F /\ forest_readable ex_h ex_F /\
  find_tree 9%positive ex_F = Some ex_t0 /\ unroll ex_F 3 ex_t0 = ex_u /\ complete ex_u /\
  ref_chain ex_F (Some 25%positive) = Some ex_elems /\
  reify (h_str ex_h) ex_u = ex_value /\ heap_value ex_h 9%positive ex_value.
Proof.
  exact (conj ex_WF (conj ex_refs_in (conj ex_refs_live (conj ex_readable (conj ex_find (conj ex_unroll (conj ex_complete
        (conj ex_ref_chain (conj ex_reify ex_heap_value))))))))).
Qed.
Print Assumptions C05_heap_nonvacuous_hypotheses.

(** evaluated through the heap-level functions (reference libc, no allocation failure, fresh memory 0xA5): the
    four entry points in both formats; [ex_text_formatted] / [ex_text_unformatted] are also the bytes the real
    library returned for this structure *)
Theorem C05_heap_nonvacuous_prints :
  block_of (cJSON_Print_h fmt_d fmt_g15 fmt_g17 sscanf_lg orc0 junk_a5 (Some 9%positive) ex_h)
    = Some (Some (ex_text_formatted ++ [0]), 1, 2%nat) /\
  block_of (cJSON_PrintUnformatted_h fmt_d fmt_g15 fmt_g17 sscanf_lg orc0 junk_a5 (Some 9%positive) ex_h)
    = Some (Some (ex_text_unformatted ++ [0]), 1, 2%nat) /\
  (exists rest, block_of (cJSON_PrintBuffered_h fmt_d fmt_g15 fmt_g17 sscanf_lg orc0 junk_a5 (Some 9%positive) 0 true ex_h)
                = Some (Some (ex_text_formatted ++ 0 :: rest), 1, 6%nat)) /\
  (exists rest, block_of (cJSON_PrintBuffered_h fmt_d fmt_g15 fmt_g17 sscanf_lg orc0 junk_a5 (Some 9%positive) 300 false ex_h)
                = Some (Some (ex_text_unformatted ++ 0 :: rest), 1, 1%nat)) /\
  prealloc_of (cJSON_PrintPreallocated_h fmt_d fmt_g15 fmt_g17 sscanf_lg orc0 junk_a5 (Some 9%positive) (Some (repeat 7 130)) 130 false ex_h)
    = Some (true, Some (ex_text_unformatted ++ 0 :: repeat 7 24), 0, 0%nat) /\
  (exists b, prealloc_of (cJSON_PrintPreallocated_h fmt_d fmt_g15 fmt_g17 sscanf_lg orc0 junk_a5 (Some 9%positive) (Some (repeat 7 100)) 100 false ex_h)
             = Some (false, Some b, 0, 0%nat)).
Proof. exact ex_prints. Qed.
Print Assumptions C05_heap_nonvacuous_prints.

(** … equal to [render] of the reification of what the heap holds, in both formats *)
Theorem C05_heap_nonvacuous_render :
  render fmt_d fmt_g15 fmt_g17 sscanf_lg true 0 ex_value = Some ex_text_formatted /\
  render fmt_d fmt_g15 fmt_g17 sscanf_lg false 0 ex_value = Some ex_text_unformatted /\
  block_of (cJSON_Print_h fmt_d fmt_g15 fmt_g17 sscanf_lg orc0 junk_a5 (Some 9%positive) ex_h)
    = option_map (fun txt => (Some (txt ++ [0]), 1, 2%nat))
                 (render fmt_d fmt_g15 fmt_g17 sscanf_lg true 0 (reify (h_str ex_h) (unroll ex_F 3 ex_t0))) /\
  block_of (cJSON_PrintUnformatted_h fmt_d fmt_g15 fmt_g17 sscanf_lg orc0 junk_a5 (Some 9%positive) ex_h)
    = option_map (fun txt => (Some (txt ++ [0]), 1, 2%nat))
                 (render fmt_d fmt_g15 fmt_g17 sscanf_lg false 0 (reify (h_str ex_h) (unroll ex_F 3 ex_t0))).
Proof. exact (conj (proj1 ex_renders) (conj (proj2 ex_renders) ex_prints_render)). Qed.
Print Assumptions C05_heap_nonvacuous_render.

(** the reference node by itself prints the borrowed elements; failure paths: a raw node with NULL valuestring
    and the NULL item give NULL with nothing left allocated; a pointer that is not a node is an error outcome *)
Theorem C05_heap_nonvacuous_reference_and_failures :
  block_of (cJSON_PrintUnformatted_h fmt_d fmt_g15 fmt_g17 sscanf_lg orc0 junk_a5 (Some 25%positive) ex_h)
    = Some (Some ([91; 116; 114; 117; 101; 44; 110; 117; 108; 108; 44; 91; 49; 46; 53; 44; 34; 120; 92; 110; 34; 93; 93] ++ [0]), 1, 2%nat) /\
  block_of (cJSON_Print_h fmt_d fmt_g15 fmt_g17 sscanf_lg orc0 junk_a5 (Some 1%positive) ex2_h) = Some (None, 0, 1%nat) /\
  render fmt_d fmt_g15 fmt_g17 sscanf_lg true 0 (Node c_cJSON_Raw None 0 dzero None []) = None /\
  block_of (cJSON_Print_h fmt_d fmt_g15 fmt_g17 sscanf_lg orc0 junk_a5 None ex_h) = Some (None, 0, 1%nat) /\
  block_of (cJSON_Print_h fmt_d fmt_g15 fmt_g17 sscanf_lg orc0 junk_a5 (Some 2%positive) ex_h) = None /\
  prealloc_of (cJSON_PrintPreallocated_h fmt_d fmt_g15 fmt_g17 sscanf_lg orc0 junk_a5 None (Some (repeat 7 10)) 10 false ex_h)
    = Some (false, Some (repeat 7 10), 0, 0%nat).
Proof. exact (conj ex_prints_reference_node ex_failures). Qed.
Print Assumptions C05_heap_nonvacuous_reference_and_failures.

(** where the hypothesis [complete] comes from: cJSON_AddItemReferenceToArray(a, a) on a non-empty array (public
    API only) gives a well-formed forest with a live reference target in which the reference node's borrowed
    chain contains the reference node itself.  No unrolling is complete (checked to 6 levels) and the heap-level
    printer runs out of fuel (public entry point; fuel 40): the real cJSON_PrintUnformatted recurses until the
    stack is exhausted (observed under ASan), while cJSON_Duplicate gives up at CJSON_CIRCULAR_LIMIT. *)
Theorem C05_heap_unbounded_structure :
  ex3_build empty_heap = Ret (Some 1%positive, ex3_h) /\ WF ex3_h ex3_F /\ refs_in ex3_F /\
  find_tree 1%positive ex3_F = Some ex3_t /\
  (forall k, (k <= 6)%nat -> ~ complete (unroll ex3_F k ex3_t)) /\
  err_of (cJSON_PrintUnformatted_h fmt_d fmt_g15 fmt_g17 sscanf_lg orc0 junk_a5 (Some 1%positive) ex3_h) = Some NoFuel /\
  err_of (print_h fmt_d fmt_g15 fmt_g17 sscanf_lg orc0 junk_a5 40 40 (Some 1%positive) false ex3_h) = Some NoFuel.
Proof. exact ex_cyclic. Qed.
Print Assumptions C05_heap_unbounded_structure.
