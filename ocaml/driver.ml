(* driver.ml — runs case files against the extracted Coq model (model.ml).
   Same protocol as harness/impl_driver.c: one case per line, one "<index> <result>" line out. *)
open Model

(* ---- conversions between OCaml ints/strings and the extracted Coq numbers ---- *)
let rec pos_of_int n = if n = 1 then XH else if n land 1 = 0 then XO (pos_of_int (n lsr 1)) else XI (pos_of_int (n lsr 1))
let z_of_int n = if n = 0 then Z0 else if n > 0 then Zpos (pos_of_int n) else Zneg (pos_of_int (- n))
let rec int_of_pos = function XH -> 1 | XO p -> 2 * int_of_pos p | XI p -> 2 * int_of_pos p + 1
let int_of_z = function Z0 -> 0 | Zpos p -> int_of_pos p | Zneg p -> - (int_of_pos p)
let rec nat_of_int n = if n <= 0 then O else S (nat_of_int (n - 1))
let rec int_of_nat = function O -> 0 | S n -> 1 + int_of_nat n

(* arbitrary-size naturals from/to hex strings, without arithmetic: via bit lists (lsb first) *)
let bits_of_hex (h : string) : bool list =
  let l = ref [] in
  String.iter (fun c ->
    let v = int_of_string ("0x" ^ String.make 1 c) in
    (* msb first within the digit; we build msb-first overall then reverse *)
    l := (v land 1 <> 0) :: (v land 2 <> 0) :: (v land 4 <> 0) :: (v land 8 <> 0) :: !l) h;
  !l  (* lsb first because each digit was pushed in front *)
let rec pos_of_bits_msb (acc : positive option) (bits : bool list) : positive option =
  match bits with
  | [] -> acc
  | b :: r -> (match acc with
      | None -> pos_of_bits_msb (if b then Some XH else None) r
      | Some p -> pos_of_bits_msb (Some (if b then XI p else XO p)) r)
let z_of_hex (h : string) : z =
  match pos_of_bits_msb None (List.rev (bits_of_hex h)) with None -> Z0 | Some p -> Zpos p
let rec bits_of_pos_lsb = function XH -> [true] | XO p -> false :: bits_of_pos_lsb p | XI p -> true :: bits_of_pos_lsb p
let hex_of_z_width (w : int) (z : z) : string =
  let bits = match z with Z0 -> [] | Zpos p -> bits_of_pos_lsb p | Zneg _ -> failwith "hex_of_z: negative" in
  let arr = Array.make (w * 4) false in
  List.iteri (fun i b -> if i < w * 4 then arr.(i) <- b) bits;
  String.init w (fun k -> let d = w - 1 - k in
    let v = (if arr.(4*d) then 1 else 0) + (if arr.(4*d+1) then 2 else 0) + (if arr.(4*d+2) then 4 else 0) + (if arr.(4*d+3) then 8 else 0) in
    "0123456789abcdef".[v])
let z_of_decimal (s : string) : z =
  (* small decimal integers only (fits OCaml int) *)
  z_of_int (int_of_string s)

let bytes_of_hex (h : string) : z list =
  if h = "=" || h = "-" then [] else
  List.init (String.length h / 2) (fun i -> z_of_int (int_of_string ("0x" ^ String.sub h (2 * i) 2)))
let hex_of_bytes (l : z list) : string =
  if l = [] then "=" else String.concat "" (List.map (fun z -> Printf.sprintf "%02x" ((int_of_z z) land 255)) l)
let opt_bytes_of_hex h = if h = "-" then None else Some (bytes_of_hex h)
let hex_of_opt = function None -> "-" | Some l -> hex_of_bytes l

let res_str (f : 'a -> string) (r : 'a res) : string =
  match r with Ok a -> f a | OOB -> "MODEL_OOB" | OutOfFuel -> "MODEL_OUTOFFUEL"

(* ---- trees: tokens "N ty vs vi vd key k child..." <-> Model.node ---- *)
let dbl_of_tok (t : string) : spec_float = if t = "nan" then S754_nan else sf_of_bits (z_of_hex t)
let tok_of_dbl (d : spec_float) : string = match d with S754_nan -> "nan" | _ -> hex_of_z_width 16 (bits_of_sf d)
let rec parse_node (a : string array) (pos : int ref) : node =
  if a.(!pos) <> "N" then failwith ("bad tree token at " ^ string_of_int !pos);
  let ty = z_of_int (int_of_string a.(!pos + 1)) in
  let vs = opt_bytes_of_hex a.(!pos + 2) in
  let vi = z_of_int (int_of_string a.(!pos + 3)) in
  let vd = dbl_of_tok a.(!pos + 4) in
  let key = opt_bytes_of_hex a.(!pos + 5) in
  let k = int_of_string a.(!pos + 6) in
  pos := !pos + 7;
  let ch = ref [] in
  for _ = 1 to k do ch := parse_node a pos :: !ch done;
  Node (ty, vs, vi, vd, key, List.rev !ch)
let parse_node_or_null a pos = if a.(!pos) = "NULL" then (incr pos; None) else Some (parse_node a pos)
let rec dump_node (n : node) : string =
  let Node (ty, vs, vi, vd, key, ch) = n in
  String.concat " " (["N"; string_of_int (int_of_z ty); hex_of_opt vs; string_of_int (int_of_z vi); tok_of_dbl vd; hex_of_opt key;
                      string_of_int (List.length ch)] @ List.map dump_node ch)
let path_str (p : nat list option) : string =
  match p with None -> "NULL" | Some l -> "P" ^ String.concat "." (List.map (fun n -> string_of_int (int_of_nat n)) l)
let path_of_str (s : string) : nat list =
  if s = "P" then [] else List.map (fun t -> nat_of_int (int_of_string t)) (String.split_on_char '.' (String.sub s 1 (String.length s - 1)))
