(** MergeDefs.v — value-level ("Tier B", DESIGN §5.6) transliteration of the JSON Merge Patch code of
    cJSON_Utils.c: compare_strings, sort_list / sort_object (on the ordered member list), compare_json
    (which sorts both operands in place), merge_patch, generate_merge_patch and the four public entry points,
    together with the value-level view of the cJSON.c primitives they call (cJSON_Duplicate,
    cJSON_Detach/DeleteItemFromObject[CaseSensitive], cJSON_AddItemToObject, cJSON_CreateObject/Null).

    Trees are [Tree.node] with ORDERED children lists, so "detach, then append at the end" and "sorted in
    place" are visible.  A NULL pointer is [None].  Allocation failures are not modelled at this tier; the
    only way a call fails is the depth limit of cJSON_Duplicate (CJSON_CIRCULAR_LIMIT), which is modelled.
    A dereference of a NULL [string]/[valuestring] by strcmp (undefined behaviour in C) is the outcome [OOB].
    No proofs here. *)
From CJ Require Import Base Dbl Tree CompareDefs.
Local Open Scope Z_scope.

(** ---- small helpers on nodes ---- *)
Definition mp_set_children (n : node) (ch : list node) : node :=
  match n with Node ty vs vi vd k _ => Node ty vs vi vd k ch end.

(* [type & ~cJSON_IsReference], [type & ~cJSON_StringIsConst] *)
Definition mp_clear_ref (ty : Z) : Z := Z.land ty (Z.lnot c_cJSON_IsReference).
Definition mp_clear_const (ty : Z) : Z := Z.land ty (Z.lnot c_cJSON_StringIsConst).

(* cJSON_IsObject / cJSON_IsNull of a possibly NULL pointer *)
Definition mp_IsObject (n : option node) : bool := match n with Some x => is_object x | None => false end.
Definition mp_IsNull (n : option node) : bool := match n with Some x => is_null x | None => false end.

(* cJSON_New_Item + type: memset 0 *)
Definition mp_new_item (ty : Z) : node := Node ty None 0 dzero None [].
Definition mp_CreateObject : node := mp_new_item c_cJSON_Object.
Definition mp_CreateNull : node := mp_new_item c_cJSON_NULL.

(** ---- cJSON_Duplicate(item, 1): same tree, IsReference cleared in every node, key and StringIsConst kept;
    fails (NULL) when a child would be duplicated at depth >= CJSON_CIRCULAR_LIMIT ---- *)
Fixpoint mp_dup_rec (depth : Z) (n : node) : option node :=
  match n with
  | Node ty vs vi vd k ch =>
      match (fix go (l : list node) : option (list node) :=
               match l with
               | [] => Some []
               | c :: r =>
                   if c_CJSON_CIRCULAR_LIMIT <=? depth then None
                   else match mp_dup_rec (depth + 1) c with
                        | None => None
                        | Some c' => match go r with None => None | Some r' => Some (c' :: r') end
                        end
               end) ch with
      | None => None
      | Some ch' => Some (Node (mp_clear_ref ty) vs vi vd k ch')
      end
  end.
Definition mp_Duplicate (item : option node) : option node :=
  match item with None => None | Some n => mp_dup_rec 0 n end.

(** ---- members of an object ---- *)
Definition mp_remove_nth (i : nat) (l : list node) : list node := firstn i l ++ skipn (S i) l.

(* cJSON_DetachItemFromObject[CaseSensitive](object, string): the detached member (first match of
   get_object_item) and the object without it *)
Definition mp_DetachItemFromObject (object : node) (name : option bytes) (cs : bool) : option node * node :=
  match get_object_item object name cs with
  | None => (None, object)
  | Some (i, c) => (Some c, mp_set_children object (mp_remove_nth i (n_children object)))
  end.
(* cJSON_DeleteItemFromObject[CaseSensitive] = cJSON_Delete(detached) *)
Definition mp_DeleteItemFromObject (object : node) (name : option bytes) (cs : bool) : node :=
  snd (mp_DetachItemFromObject object name cs).

(* cJSON_AddItemToObject(object, string, item): refuses NULL string / NULL item; the item gets a copy of
   [string] as key, loses StringIsConst, and is appended at the END of the member list *)
Definition mp_keyed (k : bytes) (item : node) : node :=
  match item with Node ty vs vi vd _ ch => Node (mp_clear_const ty) vs vi vd (Some k) ch end.
Definition mp_add_member (members : list node) (key : option bytes) (item : option node) : list node :=
  match key, item with
  | Some k, Some it => members ++ [mp_keyed k it]
  | _, _ => members
  end.
Definition mp_AddItemToObject (object : node) (key : option bytes) (item : option node) : node :=
  mp_set_children object (mp_add_member (n_children object) key item).

(** ---- compare_strings (cJSON_Utils.c): NULL on either side gives 1 ---- *)
Definition mp_compare_strings (a b : option bytes) (cs : bool) : Z :=
  match a, b with
  | Some x, Some y => if cs then strcmp x y else strcasecmp_c x y
  | _, _ => 1
  end.

(** ---- sort_list on the member list: already-sorted pre-check (strictly increasing keys), split after
    ceil(n/2) members, two recursive calls, merge preferring the first run on [<= 0] ---- *)
Fixpoint mp_strictly_sorted (cs : bool) (l : list node) : bool :=
  match l with
  | x :: ((y :: _) as r) => if mp_compare_strings (n_key x) (n_key y) cs <? 0 then mp_strictly_sorted cs r else false
  | _ => true
  end.

Fixpoint mp_merge_runs (cs : bool) (a : list node) : list node -> list node :=
  match a with
  | [] => fun b => b
  | x :: a' =>
      fix inner (b : list node) : list node :=
        match b with
        | [] => a
        | y :: b' =>
            if mp_compare_strings (n_key x) (n_key y) cs <=? 0 then x :: mp_merge_runs cs a' b
            else y :: inner b'
        end
  end.

Fixpoint mp_sort_list (fuel : nat) (cs : bool) (l : list node) : res (list node) :=
  match fuel with
  | O => OutOfFuel
  | S f =>
      match l with
      | [] | [_] => Ok l
      | _ =>
          if mp_strictly_sorted cs l then Ok l
          else
            let h := Nat.div2 (S (length l)) in
            first <- mp_sort_list f cs (firstn h l) ;;
            second <- mp_sort_list f cs (skipn h l) ;;
            Ok (mp_merge_runs cs first second)
      end
  end.

(* sort_object(object, case_sensitive); the entry point supplies fuel = number of members *)
Definition mp_sort_members (cs : bool) (l : list node) : res (list node) := mp_sort_list (S (length l)) cs l.
Definition mp_sort_object (object : node) (cs : bool) : res node :=
  l <- mp_sort_members cs (n_children object) ;; Ok (mp_set_children object l).

(** ---- compare_json(a, b, case_sensitive) for two non-NULL nodes: result and BOTH operands afterwards
    (objects met during the walk have been sorted in place) ---- *)
Section CompareWalk.
  Variable cmp : node -> node -> res (bool * node * node).
  (* the array loop: stops at the first pair that is not identical; sizes must agree *)
  Fixpoint mp_arr_walk (la lb : list node) : res (bool * list node * list node) :=
    match la, lb with
    | x :: la', y :: lb' =>
        '(r, x', y') <- cmp x y ;;
        if r then '(r2, la2, lb2) <- mp_arr_walk la' lb' ;; Ok (r2, x' :: la2, y' :: lb2)
        else Ok (false, x' :: la', y' :: lb')
    | [], [] => Ok (true, [], [])
    | _, _ => Ok (false, la, lb)
    end.
  (* the object loop on the two sorted member lists: keys first, then the values *)
  Fixpoint mp_obj_walk (cs : bool) (la lb : list node) : res (bool * list node * list node) :=
    match la, lb with
    | x :: la', y :: lb' =>
        if negb (mp_compare_strings (n_key x) (n_key y) cs =? 0) then Ok (false, la, lb)
        else
          '(r, x', y') <- cmp x y ;;
          if r then '(r2, la2, lb2) <- mp_obj_walk cs la' lb' ;; Ok (r2, x' :: la2, y' :: lb2)
          else Ok (false, x' :: la', y' :: lb')
    | [], [] => Ok (true, [], [])
    | _, _ => Ok (false, la, lb)
    end.
End CompareWalk.

Fixpoint mp_compare_json (fuel : nat) (cs : bool) (a b : node) : res (bool * node * node) :=
  match fuel with
  | O => OutOfFuel
  | S f =>
      let ta := tymask (n_ty a) in
      if negb (ta =? tymask (n_ty b)) then Ok (false, a, b)
      else if ta =? c_cJSON_Number then
        Ok ((n_vint a =? n_vint b) && compare_double (n_vdbl a) (n_vdbl b), a, b)
      else if ta =? c_cJSON_String then
        match n_vstr a, n_vstr b with
        | Some x, Some y => Ok (strcmp x y =? 0, a, b)
        | _, _ => OOB                                            (* strcmp(NULL, …) *)
        end
      else if ta =? c_cJSON_Array then
        '(r, la, lb) <- mp_arr_walk (mp_compare_json f cs) (n_children a) (n_children b) ;;
        Ok (r, mp_set_children a la, mp_set_children b lb)
      else if ta =? c_cJSON_Object then
        sa <- mp_sort_members cs (n_children a) ;;
        sb <- mp_sort_members cs (n_children b) ;;
        '(r, la, lb) <- mp_obj_walk (mp_compare_json f cs) cs sa sb ;;
        Ok (r, mp_set_children a la, mp_set_children b lb)
      else Ok (true, a, b)                                       (* null, true, false (and raw, invalid) *)
  end.
(* a->type & 0xFF must be equal at every level of the walk, so the depth of [a] bounds the recursion *)
Definition mp_compare_json_top (cs : bool) (a b : node) : res (bool * node * node) :=
  mp_compare_json (node_depth a) cs a b.

(** ---- merge_patch(target, patch, case_sensitive): consumes [target], returns the new document (NULL when
    a duplication failed; everything has been freed then) ---- *)
Fixpoint mp_merge_patch (cs : bool) (target : option node) (patch : node) {struct patch} : option node :=
  match patch with
  | Node pty _ _ _ _ pch =>
      if negb (tymask pty =? c_cJSON_Object) then
        (* scalar value, array: cJSON_Delete(target); return cJSON_Duplicate(patch, 1) *)
        mp_dup_rec 0 patch
      else
        let target0 := match target with
                       | Some t => if is_object t then t else mp_CreateObject
                       | None => mp_CreateObject
                       end in
        (fix loop (pcs : list node) (tgt : node) : option node :=
           match pcs with
           | [] => Some tgt
           | pc :: r =>
               if is_null pc then loop r (mp_DeleteItemFromObject tgt (n_key pc) cs)
               else
                 let '(replace_me, tgt') := mp_DetachItemFromObject tgt (n_key pc) cs in
                 match mp_merge_patch cs replace_me pc with
                 | None => None                                   (* cJSON_Delete(target); return NULL *)
                 | Some replacement => loop r (mp_AddItemToObject tgt' (n_key pc) (Some replacement))
                 end
           end) pch target0
  end.

(* cJSONUtils_MergePatch / cJSONUtils_MergePatchCaseSensitive; a NULL patch is "not an object" *)
Definition mp_MergePatch_gen (cs : bool) (target patch : option node) : option node :=
  match patch with
  | None => None                                                  (* cJSON_Duplicate(NULL) *)
  | Some p => mp_merge_patch cs target p
  end.
Definition cJSONUtils_MergePatch := mp_MergePatch_gen false.
Definition cJSONUtils_MergePatchCaseSensitive := mp_MergePatch_gen true.

(** ---- generate_merge_patch(from, to, case_sensitive) for non-NULL [to]: the patch (NULL = "no patch
    generated", also what a failed duplication returns) and BOTH inputs afterwards ---- *)
Section GenWalk.
  Variable cmp : node -> node -> res (bool * node * node).
  Variable gen : node -> node -> res (option node * node * node).
  (* the merge-walk over the two sorted member lists; [diff] is a plain strcmp of the two keys in BOTH
     variants (a NULL key is a NULL dereference).  Result: the members added to the patch in order, and the
     two member lists afterwards. *)
  Fixpoint mp_gen_walk (fl : list node) : list node -> res (list node * list node * list node) :=
    match fl with
    | [] =>
        fix only_to (tl : list node) : res (list node * list node * list node) :=
          match tl with
          | [] => Ok ([], [], [])
          | tc :: tr =>                                            (* diff = 1 *)
              '(p, fl2, tl2) <- only_to tr ;;
              Ok (mp_add_member [] (n_key tc) (mp_dup_rec 0 tc) ++ p, fl2, tc :: tl2)
          end
    | fc :: fr =>
        fix inner (tl : list node) : res (list node * list node * list node) :=
          match tl with
          | [] =>                                                  (* diff = -1 *)
              '(p, fl2, tl2) <- mp_gen_walk fr [] ;;
              Ok (mp_add_member [] (n_key fc) (Some mp_CreateNull) ++ p, fc :: fl2, tl2)
          | tc :: tr =>
              match n_key fc, n_key tc with
              | Some kf, Some kt =>
                  let diff := strcmp kf kt in
                  if diff <? 0 then
                    '(p, fl2, tl2) <- mp_gen_walk fr tl ;;
                    Ok (mp_add_member [] (n_key fc) (Some mp_CreateNull) ++ p, fc :: fl2, tl2)
                  else if 0 <? diff then
                    '(p, fl2, tl2) <- inner tr ;;
                    Ok (mp_add_member [] (n_key tc) (mp_dup_rec 0 tc) ++ p, fl2, tc :: tl2)
                  else
                    '(same, fc1, tc1) <- cmp fc tc ;;
                    if same then
                      '(p, fl2, tl2) <- mp_gen_walk fr tr ;; Ok (p, fc1 :: fl2, tc1 :: tl2)
                    else
                      '(sub, fc2, tc2) <- gen fc1 tc1 ;;
                      '(p, fl2, tl2) <- mp_gen_walk fr tr ;;
                      Ok (mp_add_member [] (n_key tc2) sub ++ p, fc2 :: fl2, tc2 :: tl2)
              | _, _ => OOB                                        (* strcmp(NULL, …) *)
              end
          end
    end.
End GenWalk.

Fixpoint mp_generate_merge_patch (fuel : nat) (cs : bool) (from to : node) : res (option node * node * node) :=
  match fuel with
  | O => OutOfFuel
  | S f =>
      if negb (is_object to) || negb (is_object from) then Ok (mp_dup_rec 0 to, from, to)
      else
        sf <- mp_sort_members cs (n_children from) ;;
        st <- mp_sort_members cs (n_children to) ;;
        '(p, fl, tl) <- mp_gen_walk (mp_compare_json_top cs) (mp_generate_merge_patch f cs) sf st ;;
        Ok (match p with
            | [] => None                                           (* no patch generated: cJSON_Delete(patch); NULL *)
            | _ => Some (mp_set_children mp_CreateObject p)
            end, mp_set_children from fl, mp_set_children to tl)
  end.

(* cJSONUtils_GenerateMergePatch[CaseSensitive](from, to): NULL arguments; the recursion descends one level in
   both trees per call, so the depth of [to] bounds it *)
Definition mp_GenerateMergePatch_gen (cs : bool) (from to : option node) : res (option node * option node * option node) :=
  match to with
  | None => Ok (Some mp_CreateNull, from, None)                   (* patch to delete everything *)
  | Some t =>
      match from with
      | None => Ok (mp_dup_rec 0 t, None, to)                      (* !cJSON_IsObject(NULL) *)
      | Some f =>
          '(p, f', t') <- mp_generate_merge_patch (node_depth t) cs f t ;;
          Ok (p, Some f', Some t')
      end
  end.
Definition cJSONUtils_GenerateMergePatch := mp_GenerateMergePatch_gen false.
Definition cJSONUtils_GenerateMergePatchCaseSensitive := mp_GenerateMergePatch_gen true.
