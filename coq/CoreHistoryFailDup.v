(** CoreHistoryFailDup.v — cJSON_Duplicate after a history, under an ARBITRARY allocation schedule
    (cJSON_Duplicate is not a call of the alphabet [op3]: its result forest is specified by the relation
    [copy_of], C11).  From any represented state, a duplication of a subtree that satisfies C11's
    hypotheses either returns a copy — the state "forest + the copy as a new root" is represented —
    or returns NULL in a heap that represents the state with ONLY the allocator counters advanced:
    node maps, string map, live set and ledger are equal to what they were ([CoreRefineDupForest.dup_copy],
    re-exported as C08_Duplicate).  In both cases the history theorem continues from the state
    reached, and deleting every root ends with no live library block. *)
From CJ Require Import Base Dbl Heap Forest ForestLemmas CoreSpec CoreDefs CoreRefineBase CoreRefine
  CoreRefineDelete CoreRefineFrame CoreRefineHistory CoreRefineHistoryObj CoreRefineCreate
  CoreRefineDupBase CoreRefineDupTree CoreRefineDupNode CoreRefineDupForest
  CoreLedgerGen CoreHistoryAllSteps CoreHistoryAll CoreLedgerAll CoreHistoryAllEx CoreLedgerDup
  CoreHistoryFailSteps CoreHistoryFail.
From CJ.gen Require Import Constants.
From stdpp Require Import gmap.
Implicit Types (h : heap) (F : forest) (d : rdata).

Section DupFail.
  Variable o : nat -> bool.

  Theorem dup_two_branches h S p t :
    Abs3 h S -> find_tree p (a_forest S) = Some t ->
    vals_readable S t -> no_borrowed t -> height t <= Z.to_nat c_CJSON_CIRCULAR_LIMIT ->
    exists r h' S',
      cJSON_Duplicate o (Some p) true h = Ret (r, h') /\ Abs3 h' S' /\ a_foreign S' = a_foreign S /\
      ((r = None /\ S' = with_counters S (h_next h') (h_req h') /\
        h_lnk h' = h_lnk h /\ h_dat h' = h_dat h /\ h_str h' = h_str h /\ h_live h' = h_live h /\
        lib_live h' = lib_live h /\ ofail o h h')
       \/ (exists tc, r = Some (tid tc) /\ copy_of h' t tc /\ a_forest S' = a_forest S ++ [tc] /\
             (forall b, b ∈ owned [tc] -> (h_next h <= b)%positive /\ b ∉ h_live h) /\ oclean o h h')).
  Proof.
    intros HA Hp Hvals Hnb Hht. pose proof HA as [HA2 K].
    pose proof HA2 as ((W & NL & Hnext & Hreq) & Hs & [SI1 SI2] & KO).
    pose proof (Abs3_Closed h S HA) as C.
    assert (Hn : t ∈ nodes (a_forest S)) by (by apply find_tree_Some in Hp as [? _]).
    assert (Hsub : forall e, e ∈ flat_t t -> e ∈ flat (a_forest S)).
    { intros e He. unfold flat_t in He. apply elem_of_list_fmap in He as (n & -> & Hnn). apply elem_of_flat.
      eapply nodes_t_in_nodes; eauto. }
    assert (Hrd : forall b (s : bytes), a_str S !! b = Some s -> has0 s = true -> readable h b).
    { intros b s Hb Hz. exists s. split; [|done]. split; [by apply (SI1 _ _ Hb)|by rewrite Hs]. }
    assert (Hsr : strs_readable h t).
    { intros i d ks He. split.
      - intros b Hb. destruct (Hvals i d ks b He Hb) as (nb & s & [= <-] & H1 & H2). by apply (Hrd _ s).
      - intros b Hb Hc. destruct (KO (fdata (i, d, ks)) b) as [(s & H1 & H2) _]; [|done|by apply (Hrd _ s)].
        unfold datas. apply elem_of_list_fmap. exists (i, d, ks). split; [done|by apply Hsub]. }
    destruct (dup_copy o h _ p t W C Hp Hsr Hnb Hht) as (r & h' & E & [Hfail|Hok]).
    - (* NULL: only the counters moved *)
      destruct Hfail as (-> & W' & NL' & E1 & E2 & E3 & E4 & _ & E5 & _ & Hf).
      pose proof (Cons_cJSON_Duplicate o (Some p) true _ _ _ E K) as CP.
      exists None, h', (with_counters S (h_next h') (h_req h')). split; [exact E|]. split; [|split; [done|]].
      + split; [|apply CP]. refine (Abs2_build h h' S _ _ HA CP W' (NL' NL) _ KO). by rewrite E3.
      + left. done.
    - destruct Hok as (tc & -> & W' & NL' & Hcp & Fr & _ & _ & Hfresh & Hcl).
      pose proof (Cons_cJSON_Duplicate o (Some p) true _ _ _ E K) as CP.
      exists (Some (tid tc)), h', (mk3 (a_forest S ++ [tc]) (h_next h') (h_req h') (h_str h') (a_foreign S)).
      split; [exact E|]. split; [|split; [done|right; exists tc; done]].
      split; [|apply CP].
      refine (Abs2_build h h' S _ _ HA CP W' (NL' NL) eq_refl _).
      intros e b He Hb. rewrite datas_app in He. apply elem_of_app in He as [He|He].
      + destruct (KO e b He Hb) as [(s & H1 & H2) Hc]. split; [|done]. exists s. split; [|done].
        destruct (SI1 _ _ H1) as [Hl _].
        destruct (Ext_preserves _ _ _ _ _ Fr Hl) as (_ & _ & E3 & _). rewrite E3, Hs. done.
      + unfold datas in He. rewrite flat_singleton in He. apply elem_of_list_fmap in He as ([[i' d'] ks'] & -> & He).
        cbn [fdata fn_id fn_data fst snd] in *.
        destruct (copy_of_flat _ _ _ Hcp i' d' ks' He) as (i & d & ks & Het & (Hty & _ & _ & _ & _ & Hk)).
        destruct (rd_key d) as [b0|] eqn:Ek; [|congruence].
        assert (Hed : fdata (i, d, ks) ∈ datas (a_forest S)).
        { unfold datas. apply elem_of_list_fmap. exists (i, d, ks). split; [done|by apply Hsub]. }
        assert (Hconst' : is_const d' = is_const d).
        { unfold is_const. rewrite Hty. unfold clear_flag. rewrite <- Z.land_assoc.
          change (Z.land (Z.lnot c_cJSON_IsReference) c_cJSON_StringIsConst) with c_cJSON_StringIsConst. done. }
        destruct (is_const d) eqn:Ec.
        * rewrite Hk in Hb. injection Hb as <-. destruct (KO _ b0 Hed Ek) as [(s & H1 & H2) Hc]. split; [|intros _; by apply Hc].
          exists s. split; [|done]. by apply (foreign_kept h h' S b0 s HA CP (Hc Ec)).
        * destruct Hk as (b' & Hk & (s & _ & [Hl Hstr'])). rewrite Hk in Hb. injection Hb as <-.
          split; [|rewrite Hconst'; done]. exists (cstr s ++ [0%Z]). split; [done|].
          unfold has0. rewrite existsb_app. cbn. by rewrite orb_true_r.
  Qed.

  (** an accepted history under [o], then a duplication under [o], then cJSON_Delete of every root *)
  Corollary history_dup_balanced ops p :
    pre_ok_all3ob o S0 ops = true -> dup_okb (spec_run3o o S0 ops) p = true ->
    exists h1 r h2 S2 h3,
      run_ops3o o ops empty_heap = Ret (spec_results3o o S0 ops, h1) /\
      cJSON_Duplicate o (Some p) true h1 = Ret (r, h2) /\ Abs3 h2 S2 /\
      (r = None -> a_forest S2 = a_forest (spec_run3o o S0 ops) /\ h_lnk h2 = h_lnk h1 /\ h_dat h2 = h_dat h1 /\
                   h_str h2 = h_str h1 /\ lib_live h2 = lib_live h1) /\
      delete_roots (roots (a_forest S2)) h2 = Ret (tt, h3) /\ lib_live h3 = ∅ /\
      (forall b, h_own h1 !! b = Some Foreign -> b ∈ h_live h1 -> b ∈ h_live h3 /\ h_str h3 !! b = h_str h1 !! b).
  Proof.
    intros Hpre Hdup. destruct (history3o_checked o ops Hpre) as (h1 & E1 & HA1).
    destruct (dup_okb_sound _ _ Hdup) as (t & Hp & Hv & Hnb & Hht).
    destruct (dup_two_branches h1 _ p t HA1 Hp Hv Hnb Hht) as (r & h2 & S2 & E2 & HA2 & _ & Hbr).
    destruct (delete_roots_sim (a_forest S2) S2 h2 eq_refl HA2) as (h3 & S3 & E3 & _ & _ & HL3).
    exists h1, r, h2, S2, h3. split_and!; try done.
    - intros ->. destruct Hbr as [(_ & -> & H1 & H2 & H3 & _ & H5 & _)|(tc & ? & _)]; [done|done].
    - intros b Ho Hl. pose proof (Cons_cJSON_Duplicate o (Some p) true _ _ _ E2 (proj2 HA1)) as CP.
      destruct (cp_foreign _ _ CP b Ho Hl) as [Hl2 Hs2].
      assert (Ho2 : h_own h2 !! b = Some Foreign) by (rewrite (cp_own _ _ CP); [done|by apply (hk_live _ (proj2 HA1))]).
      destruct (cp_foreign _ _ (Cons_delete_roots _ _ _ _ E3 (proj2 HA2)) b Ho2 Hl2) as [Hl3 Hs3]. split; [done|congruence].
  Qed.
End DupFail.
