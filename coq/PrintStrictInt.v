(** PrintStrictInt.v — C05, part 3 at full strength: [(double) z] is a finite double for every C
    int z (SpecFloat's binary_normalize on a mantissa below 2^52 and exponent 0 shifts left to 53
    digits and then rounds nothing), hence a Number whose double compares equal to
    (double)valueint is finite, and [int_plain] needs no separate finiteness hypothesis. *)
From Coq Require Import Floats.SpecFloat.
From CJ Require Import Base Dbl Tree Grammar PrintDefs PrintStrict PrintStrictWs.
Local Open Scope Z_scope.

Lemma digits2_shift d : forall m, digits2_pos (shift_pos d m) = (digits2_pos m + d)%positive.
Proof.
  unfold shift_pos. induction d as [|d IH] using Pos.peano_ind; intro m.
  - cbn. lia.
  - rewrite Pos.iter_succ. cbn [digits2_pos]. rewrite IH. lia.
Qed.

Lemma digits2_bound m : forall k, 0 <= k -> Zpos m < 2 ^ k -> Zpos (digits2_pos m) <= k.
Proof.
  induction m as [m IH|m IH|]; intros k Hk Hlt.
  - cbn [digits2_pos]. destruct (Z.eq_dec k 0) as [->|]; [cbn in Hlt; lia|].
    replace k with (Z.succ (k - 1)) in Hlt by lia. rewrite Z.pow_succ_r in Hlt by lia.
    specialize (IH (k - 1) ltac:(lia) ltac:(lia)). lia.
  - cbn [digits2_pos]. destruct (Z.eq_dec k 0) as [->|]; [cbn in Hlt; lia|].
    replace k with (Z.succ (k - 1)) in Hlt by lia. rewrite Z.pow_succ_r in Hlt by lia.
    specialize (IH (k - 1) ltac:(lia) ltac:(lia)). lia.
  - cbn [digits2_pos]. destruct (Z.eq_dec k 0) as [->|]; [cbn in Hlt; lia|]. lia.
Qed.

Lemma binary_round_small sx m : Zpos m < 2 ^ 52 ->
  exists m' e', binary_round prec emax sx m 0 = S754_finite sx m' e'.
Proof.
  intro Hlt. pose proof (digits2_bound m 52 ltac:(lia) Hlt) as Hn.
  unfold binary_round. set (n := Zpos (digits2_pos m)) in *.
  assert (Hf : fexp prec emax (n + 0) = n - 53) by (unfold fexp, emin, prec, emax; lia).
  rewrite Hf. unfold shl_align.
  destruct (n - 53 - 0) as [|p|p] eqn:E; try lia.
  assert (Hp : Zpos p = 53 - n) by lia.
  assert (Ez : n - 53 = Z.neg p) by lia. rewrite Ez.
  unfold binary_round_aux, shr_fexp.
  assert (H0 : fexp prec emax (Zdigits2 (Z.pos (shift_pos p m)) + Z.neg p) - Z.neg p = 0).
  { unfold fexp, emin, prec, emax. cbn [Zdigits2]. rewrite digits2_shift. fold n in Hn |- *.
    rewrite Pos2Z.inj_add. fold n. lia. }
  rewrite H0. cbn [shr shr_record_of_loc shr_m loc_of_shr_record round_nearest_even].
  rewrite H0. cbn [shr shr_record_of_loc shr_m].
  exists (shift_pos p m), (Z.neg p). reflexivity.
Qed.

Lemma dbl_of_int_finite z : int_range z = true -> is_finite (dbl_of_int z) = true.
Proof.
  intro Hr. unfold int_range in Hr. apply andb_true_iff in Hr as [Hlo Hhi].
  apply Z.leb_le in Hlo, Hhi. change c_INT_MIN with (-2147483648) in Hlo. change c_INT_MAX with 2147483647 in Hhi.
  unfold dbl_of_int, binary_normalize. destruct z as [|m|m]; [reflexivity| |].
  - destruct (binary_round_small false m) as [m' [e' E]]; [change (2 ^ 52) with 4503599627370496; lia|].
    rewrite E. reflexivity.
  - destruct (binary_round_small true m) as [m' [e' E]]; [change (2 ^ 52) with 4503599627370496; lia|].
    rewrite E. reflexivity.
Qed.

(** == against a finite double holds only of finite doubles *)
Lemma deq_finite a b : deq a b = true -> is_finite b = true -> is_nan a || is_inf a = false.
Proof.
  unfold deq, SFeqb. destruct a as [sa|sa| |sa ma ea]; try reflexivity.
  - destruct b as [sb|sb| |sb mb eb]; try discriminate; destruct sa; discriminate.
  - discriminate.
Qed.

Section IntPlain.
  Variable fmt_d : Z -> bytes.
  Variable fmt_g15 fmt_g17 : dbl -> bytes.
  Variable sscanf_lg : bytes -> option dbl.
  Hypothesis L : LibcStrictSpec fmt_d fmt_g15 fmt_g17.

  (** a Number whose double equals (double)valueint, valueint a C int, prints as "%d" of valueint,
      which matches -?[0-9]+ *)
  Theorem int_plain_full ty vs vi vd key ch fmt depth :
    tymask ty = c_cJSON_Number -> deq vd (dbl_of_int vi) = true -> int_range vi = true ->
    render fmt_d fmt_g15 fmt_g17 sscanf_lg fmt depth (Node ty vs vi vd key ch) = Some (fmt_d vi)
    /\ plain_int_b (fmt_d vi) = true.
  Proof.
    intros Ht He Hi. apply (int_plain _ _ _ _ L); auto.
    apply (deq_finite _ _ He). apply dbl_of_int_finite, Hi.
  Qed.
End IntPlain.
