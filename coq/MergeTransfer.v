(** MergeTransfer.v — from the inputs as generate_merge_patch leaves them (members reordered) back to the
    inputs as they were given: [doc_eq] does not see [dperm] on either side, MergePatch maps [dperm] targets to
    [dperm] results, MergePatch of documents is a document, and the generated patch is a document. *)
From Coq Require Import Permutation Sorted.
From CJ Require Import Base Dbl Tree CompareDefs CompareProofs MergeDefs Rfc7396 MergeLemmas MergeSort MergeApply MergePerm MergeGen MergeGenerate.
Local Open Scope Z_scope.

(** * lookups in member lists related by dperm + permutation *)
Definition lrel (tm tm' : list node) : Prop := exists mid, Forall2 dperm tm mid /\ Permutation mid tm'.

Lemma lrel_refl l : lrel l l.
Proof. exists l. split; [apply Forall2_dperm_refl|reflexivity]. Qed.

Lemma lookup_Forall2_dperm k l m : Forall2 dperm l m -> odperm (m7396_lookup (Some k) l) (m7396_lookup (Some k) m).
Proof.
  unfold m7396_lookup. induction 1 as [|x y l m H _ IH]; cbn [find odperm]; [exact I|].
  unfold m7396_named. rewrite (dperm_key _ _ H). destruct (m7396_key_eqb (n_key y) (Some k)); [exact H|exact IH].
Qed.

Lemma lookup_perm k l m : Permutation l m -> NoDup (map n_key l) -> m7396_lookup (Some k) l = m7396_lookup (Some k) m.
Proof.
  intros P N. destruct (m7396_lookup (Some k) l) as [c|] eqn:E.
  - apply lookup_some in E. destruct E as [Hin Hk]. symmetry. apply lookup_in; [|apply (Permutation_in _ P Hin)|exact Hk].
    apply (Permutation_NoDup (Permutation_map n_key P) N).
  - symmetry. apply lookup_notin. apply lookup_none in E. intro H. apply E.
    apply (Permutation_in _ (Permutation_sym (Permutation_map n_key P)) H).
Qed.

Lemma lookup_lrel k tm tm' : lrel tm tm' -> NoDup (map n_key tm) -> odperm (m7396_lookup (Some k) tm) (m7396_lookup (Some k) tm').
Proof.
  intros [mid [F P]] N. rewrite <- (lookup_perm k mid tm' P); [apply lookup_Forall2_dperm; exact F|].
  rewrite <- (dperm_keys _ _ F). exact N.
Qed.

Lemma filter_perm {A} (f : A -> bool) l m : Permutation l m -> Permutation (filter f l) (filter f m).
Proof.
  induction 1 as [|x l m _ IH|x y l|l m n _ IH1 _ IH2]; cbn [filter].
  - constructor.
  - destruct (f x); [constructor|]; exact IH.
  - destruct (f x), (f y); try reflexivity. apply perm_swap.
  - etransitivity; eassumption.
Qed.

Lemma remove_lrel k tm tm' : lrel tm tm' -> lrel (m7396_remove k tm) (m7396_remove k tm').
Proof.
  intros [mid [F P]]. exists (m7396_remove k mid). split; [|apply filter_perm; exact P].
  unfold m7396_remove. clear P. induction F as [|x y l m H _ IH]; cbn [filter]; [constructor|].
  unfold m7396_named. rewrite (dperm_key _ _ H). destruct (negb (m7396_key_eqb (n_key y) k)); [constructor; assumption|exact IH].
Qed.

Lemma app_one_lrel tm tm' a a' : lrel tm tm' -> dperm a a' -> lrel (tm ++ [a]) (tm' ++ [a']).
Proof.
  intros [mid [F P]] D. exists (mid ++ [a']). split.
  - apply Forall2_app; [exact F|constructor; [exact D|constructor]].
  - apply Permutation_app_tail. exact P.
Qed.

Lemma dperm_with_key k a a' : dperm a a' -> dperm (m7396_with_key k a) (m7396_with_key k a').
Proof. intro H. inversion H; subst. cbn [m7396_with_key]. econstructor; eassumption. Qed.

(** * MergePatch keeps documents documents, and maps dperm targets to dperm results *)
Definition rec_ok (rec : option node -> node -> node) (pc : node) : Prop :=
  forall t t', odperm t t' -> ogd t -> dperm (rec t pc) (rec t' pc) /\ gd (rec t pc).

Lemma each_dperm rec : forall pcs, Forall has_key pcs -> Forall (rec_ok rec) pcs ->
  forall tm tm', lrel tm tm' -> keys_ok tm -> Forall gd tm ->
  lrel (m7396_each rec pcs tm) (m7396_each rec pcs tm') /\
  keys_ok (m7396_each rec pcs tm) /\ Forall gd (m7396_each rec pcs tm).
Proof.
  induction pcs as [|pc r IH]; intros Hk Hr tm tm' L K G; cbn [m7396_each]; [auto|].
  inversion Hk as [|? ? [k [Hpk Zk]] Hk']; subst. inversion Hr as [|? ? Hr1 Hr']; subst. rewrite Hpk.
  destruct (is_null pc).
  - apply (IH Hk' Hr'); [apply remove_lrel; exact L|apply keys_ok_remove; exact K|apply Forall_remove; exact G].
  - pose proof (lookup_lrel k tm tm' L (proj2 K)) as Lk.
    assert (Og : ogd (m7396_lookup (Some k) tm)).
    { destruct (m7396_lookup (Some k) tm) as [c|] eqn:E; cbn [ogd]; [|exact I]. apply lookup_some in E. rewrite Forall_forall in G. apply G. tauto. }
    destruct (Hr1 _ _ Lk Og) as [D Gm].
    apply (IH Hk' Hr'); unfold m7396_set.
    + apply app_one_lrel; [apply remove_lrel; exact L|apply dperm_with_key; exact D].
    + apply keys_ok_app_one; [apply keys_ok_remove; exact K|apply has_key_with_key; exact Zk|rewrite key_with_key; apply remove_keys_notin].
    + apply Forall_app. split; [apply Forall_remove; exact G|]. constructor; [apply gd_with_key; exact Gm|constructor].
Qed.

Lemma odperm_object t t' : odperm t t' -> ogd t ->
  dperm (m7396_target0 t) (m7396_target0 t') /\ is_object (m7396_target0 t) = true /\
  keys_ok (n_children (m7396_target0 t)) /\ Forall gd (n_children (m7396_target0 t)).
Proof.
  intros D G. destruct t as [a|], t' as [b|]; cbn [odperm ogd] in *; try contradiction; unfold m7396_target0.
  - unfold is_object. rewrite <- (dperm_is_type _ _ _ D). destruct (is_type c_cJSON_Object a) eqn:E.
    + split; [exact D|]. split; [exact E|]. split; [apply gd_keys; assumption|]. apply gd_eq in G. tauto.
    + split; [apply dperm_refl|]. split; [reflexivity|]. split; [split; constructor|constructor].
  - split; [apply dperm_refl|]. split; [reflexivity|]. split; [split; constructor|constructor].
Qed.

Lemma dperm_set_members a a' l l' : dperm a a' -> is_object a = true -> lrel l l' ->
  dperm (m7396_set_members a l) (m7396_set_members a' l').
Proof.
  intros D O [mid [F P]]. inversion D; subst. cbn [m7396_set_members]. apply dperm_intro with (mid := mid); try assumption.
  intro Hn. exfalso. apply Hn. apply Z.eqb_eq. exact O.
Qed.

Theorem merge_dperm : forall patch, gd patch -> rec_ok merge patch.
Proof.
  induction patch as [pty pvs pvi pvd pk pch IH] using node_ind'. intros Gp t t' D G.
  rewrite !merge_unfold. destruct (is_object (Node pty pvs pvi pvd pk pch)) eqn:Eo; [|split; [apply dperm_refl|exact Gp]].
  cbn [n_children]. destruct (odperm_object t t' D G) as [D0 [O0 [K0 G0]]].
  assert (L0 : lrel (n_children (m7396_target0 t)) (n_children (m7396_target0 t'))).
  { apply dperm_inv in D0. destruct D0 as [_ [_ [_ [_ [_ [mid [F [P _]]]]]]]]. exists mid. auto. }
  destruct (each_dperm merge pch) with (tm := n_children (m7396_target0 t)) (tm' := n_children (m7396_target0 t')) as [L [K Gd]]; try assumption.
  - apply (gd_keys _ Gp Eo).
  - rewrite Forall_forall in IH. apply Forall_forall. intros pc Hpc. apply IH; [exact Hpc|]. apply (gd_children _ _ Gp). exact Hpc.
  - split; [apply dperm_set_members; assumption|apply gd_object_result; assumption].
Qed.

Lemma merge_doc patch t : gd patch -> ogd t -> gd (merge t patch).
Proof.
  intros Gp Gt. assert (D : odperm t t) by (destruct t; cbn [odperm]; [apply dperm_refl|exact I]).
  apply (merge_dperm patch Gp t t D Gt).
Qed.

(** * doc_eq does not see dperm *)
Lemma forallb_ext_in {A} (f g : A -> bool) l : (forall x, In x l -> f x = g x) -> forallb f l = forallb g l.
Proof.
  induction l as [|x l IH]; intro H; cbn [forallb]; [reflexivity|].
  rewrite (H x (or_introl eq_refl)). f_equal. apply IH. intros y Hy. apply H. right. exact Hy.
Qed.
Lemma lookup_nokey l : m7396_lookup None l = None.
Proof. unfold m7396_lookup. induction l as [|c l IH]; cbn [find]; [reflexivity|]. rewrite named_none. exact IH. Qed.

Lemma arr_eq_ext (f g : node -> node -> bool) : forall la lb lb',
  Forall2 (fun y y' => forall x, In x la -> f x y = g x y') lb lb' -> arr_eq f la lb = arr_eq g la lb'.
Proof.
  induction la as [|x la IH]; intros lb lb' F; inversion F as [|y y' l l' H F']; subst; cbn [arr_eq]; try reflexivity.
  rewrite (H x (or_introl eq_refl)). f_equal. apply IH.
  clear - F'. induction F' as [|a b l l' H _ IHl]; constructor; [|exact IHl]. intros z Hz. apply H. right. exact Hz.
Qed.

Lemma doc_eq_dperm_r : forall a b b', dperm b b' -> gd b -> doc_eq a b = doc_eq a b'.
Proof.
  induction a as [ty vs vi vd k ch IH] using node_ind'. intros b b' D G.
  pose proof (dperm_inv _ _ D) as [Ety [Evs [Evi [Evd [_ [mid [F [P N]]]]]]]].
  rewrite !doc_eq_unfold. cbn [n_ty n_vint n_vdbl n_vstr n_children]. rewrite <- Ety, <- Evs, <- Evi, <- Evd.
  destruct (Z.eqb_spec (tymask ty) (tymask (n_ty b))) as [Et|_]; [cbn [andb]|reflexivity].
  destruct (tymask ty =? c_cJSON_Number); [reflexivity|].
  destruct ((tymask ty =? c_cJSON_String) || (tymask ty =? c_cJSON_Raw)); [reflexivity|].
  assert (Gc : Forall gd (n_children b)) by (apply gd_eq in G; tauto).
  destruct (Z.eqb_spec (tymask ty) c_cJSON_Array) as [Ea|_].
  { assert (Hn : tymask (n_ty b) <> c_cJSON_Object) by (rewrite <- Et, Ea; discriminate). specialize (N Hn). subst mid.
    apply arr_eq_ext. clear - IH F Gc. revert Gc. induction F as [|y y' l l' H _ IHl]; intro Gc; constructor.
    - intros x Hx. inversion Gc; subst. rewrite Forall_forall in IH. apply IH; assumption.
    - apply IHl. inversion Gc; assumption. }
  destruct (Z.eqb_spec (tymask ty) c_cJSON_Object) as [Eo|_]; [|reflexivity].
  assert (Ob : is_object b = true) by (apply Z.eqb_eq; rewrite <- Et; exact Eo).
  pose proof (gd_keys _ G Ob) as Kb.
  assert (L : lrel (n_children b) (n_children b')) by (exists mid; auto).
  f_equal.
  - apply forallb_ext_in. intros x Hx.
    destruct (n_key x) as [kx|] eqn:Ekx.
    + pose proof (lookup_lrel kx _ _ L (proj2 Kb)) as R.
      destruct (m7396_lookup (Some kx) (n_children b)) as [y|] eqn:E1; destruct (m7396_lookup (Some kx) (n_children b')) as [y'|] eqn:E2;
        cbn [odperm] in R; try contradiction; [|reflexivity].
      rewrite Forall_forall in IH. apply IH; [exact Hx|exact R|]. apply lookup_some in E1. rewrite Forall_forall in Gc. apply Gc. tauto.
    + rewrite !lookup_nokey. reflexivity.
  - rewrite <- (forallb_perm _ _ _ P). apply forallb_Forall2.
    clear - F. induction F as [|y y' l l' H _ IHl]; constructor; [|exact IHl]. rewrite (dperm_key _ _ H). reflexivity.
Qed.

Lemma doc_eq_dperm_l : forall a a' z, dperm a a' -> gd a -> doc_eq a z = doc_eq a' z.
Proof.
  induction a as [ty vs vi vd k ch IH] using node_ind'. intros a' z D G.
  inversion D as [? ? ? ? ? ? mid ch' F P N]; subst.
  rewrite !doc_eq_unfold. cbn [n_ty n_vint n_vdbl n_vstr n_children].
  destruct (tymask ty =? tymask (n_ty z)); [cbn [andb]|reflexivity].
  destruct (tymask ty =? c_cJSON_Number); [reflexivity|].
  destruct ((tymask ty =? c_cJSON_String) || (tymask ty =? c_cJSON_Raw)); [reflexivity|].
  assert (Gc : Forall gd ch) by (apply gd_eq in G; tauto).
  destruct (Z.eqb_spec (tymask ty) c_cJSON_Array) as [Ea|_].
  { assert (Hn : tymask ty <> c_cJSON_Object) by (rewrite Ea; discriminate). specialize (N Hn). subst mid.
    clear - IH F Gc. revert IH Gc. generalize (n_children z). induction F as [|x x' l l' H _ IHl]; intros lz IH Gc; [reflexivity|].
    destruct lz as [|y lz]; cbn [arr_eq]; [reflexivity|]. inversion IH as [|? ? IH1 IH']; subst. inversion Gc; subst.
    rewrite (IH1 x' y H); [|assumption]. f_equal. apply IHl; assumption. }
  destruct (Z.eqb_spec (tymask ty) c_cJSON_Object) as [Eo|_]; [|reflexivity].
  assert (Oa : is_object (Node ty vs vi vd k ch) = true) by (apply Z.eqb_eq; exact Eo).
  pose proof (gd_keys _ G Oa) as Ka. cbn [n_children] in Ka.
  assert (L : lrel ch ch') by (exists mid; auto).
  f_equal.
  - rewrite <- (forallb_perm _ _ _ P). apply forallb_Forall2.
    clear - IH F Gc. revert IH Gc. induction F as [|x x' l l' H _ IHl]; intros IH Gc; constructor.
    + inversion IH as [|? ? IH1 IH']; subst. inversion Gc; subst. rewrite (dperm_key _ _ H).
      destruct (m7396_lookup (n_key x') (n_children z)); [|reflexivity]. apply IH1; assumption.
    + inversion IH; subst. inversion Gc; subst. apply IHl; assumption.
  - apply forallb_ext_in. intros y _. destruct (n_key y) as [ky|] eqn:Eky.
    + pose proof (lookup_lrel ky _ _ L (proj2 Ka)) as R.
      destruct (m7396_lookup (Some ky) ch); destruct (m7396_lookup (Some ky) ch'); cbn [odperm] in R; try contradiction; reflexivity.
    + rewrite !lookup_nokey. reflexivity.
Qed.

(** * the generated patch is a document *)
Lemma keys_ok_sfeq l m : Forall2 sfeq l m -> keys_ok m -> keys_ok l.
Proof.
  intros F [K N]. split; [|rewrite (sfeq_keys _ _ F); exact N].
  clear N. induction F as [|x y l m H _ IH]; [constructor|]. inversion K as [|? ? [ky [Hy Zy]] K']; subst.
  constructor; [|auto]. exists ky. rewrite (sfeq_key _ _ H). auto.
Qed.

Lemma gd_sfeq : forall a b, sfeq a b -> gd b -> gd a.
Proof.
  induction a as [ty vs vi vd k ch IH] using node_ind'. intros b S G.
  pose proof (sfeq_ty _ _ S) as Et. pose proof (sfeq_vstr _ _ S) as Evs. pose proof (sfeq_vdbl _ _ S) as Evd.
  pose proof (sfeq_children _ _ S) as F. cbn [n_ty n_vstr n_vdbl n_children] in *.
  apply gd_eq in G. destruct G as [[Hk [Hn [Hs Ho]]] Hc]. apply gd_eq. split.
  - unfold gd_local. cbn [n_ty n_vstr n_vdbl n_children]. rewrite Et, Evs, Evd.
    split; [exact Hk|]. split; [exact Hn|]. split; [exact Hs|]. intro E. apply (keys_ok_sfeq _ _ F). apply Ho. exact E.
  - cbn [n_children]. clear - IH F Hc. induction F as [|x y l m H _ IHl]; [constructor|].
    inversion IH; subst. inversion Hc; subst. constructor; eauto.
Qed.

Lemma gd_keyed k s : gd s -> gd (mp_keyed k s).
Proof.
  intro G. destruct s as [ty vs vi vd k0 ch]. apply gd_eq in G. apply gd_eq. cbn [mp_keyed n_children] in *.
  destruct G as [G1 G2]. split; [|exact G2]. unfold gd_local in *. cbn [n_ty n_vstr n_vdbl n_children] in *.
  rewrite tymask_clear_const. exact G1.
Qed.

Lemma gd_null : gd mp_CreateNull.
Proof.
  apply gd_eq. split; [|constructor]. unfold gd_local. cbn.
  split; [unfold json_kind; tauto|]. split; [intro E; discriminate E|]. split; intro E; discriminate E.
Qed.

Definition gen_gd (gen : node -> node -> res (option node * node * node)) : Prop :=
  forall x y s x' y', gen x y = Ok (Some s, x', y') -> gd x -> gd y -> no_null_member y = true -> depth_ok y -> gd s.

Lemma add_member_gd k o : (forall s, o = Some s -> gd s) -> Forall gd (mp_add_member [] k o).
Proof.
  intro H. unfold mp_add_member. destruct k as [kk|]; [|constructor]. destruct o as [s|]; [|constructor].
  cbn [app]. constructor; [apply gd_keyed; apply H; reflexivity|constructor].
Qed.

Lemma gen_walk_gd cmp gen : cmp_dperm cmp -> gen_gd gen -> forall fl tl p fl' tl',
  mp_gen_walk cmp gen fl tl = Ok (p, fl', tl') -> Forall gd fl -> Forall gd tl -> Forall to_member_ok tl -> Forall gd p.
Proof.
  intros Hc Hg. induction fl as [|fc fr IHf].
  - induction tl as [|tc tr IHt]; intros p fl' tl' H Gf Gt Mt.
    + rewrite gen_walk_nil_nil in H. injection H as <- <- <-. constructor.
    + rewrite gen_walk_nil_cons in H.
      destruct (mp_gen_walk cmp gen [] tr) as [[[p2 fl2] tl2]| |] eqn:E; cbn [bind] in H; try discriminate.
      injection H as <- <- <-. inversion Gt; subst. inversion Mt as [|? ? [_ [_ Hd]] Mt']; subst.
      apply Forall_app. split; [|apply (IHt _ _ _ eq_refl); assumption].
      apply add_member_gd. intros s Hs. rewrite dup_rec_ok in Hs by (unfold depth_ok in Hd; lia). injection Hs as <-.
      apply (gd_sfeq _ tc (sfeq_clear_refs tc)). assumption.
  - induction tl as [|tc tr IHt]; intros p fl' tl' H Gf Gt Mt.
    + rewrite gen_walk_cons_nil in H.
      destruct (mp_gen_walk cmp gen fr []) as [[[p2 fl2] tl2]| |] eqn:E; cbn [bind] in H; try discriminate.
      injection H as <- <- <-. inversion Gf; subst.
      apply Forall_app. split; [|apply (IHf _ _ _ _ E); assumption].
      apply add_member_gd. intros s Hs. injection Hs as <-. apply gd_null.
    + rewrite gen_walk_cons_cons in H. destruct (n_key fc) as [kf|]; [|discriminate]. destruct (n_key tc) as [kt|]; [|discriminate].
      inversion Gf as [|? ? Gf1 Gf']; subst. inversion Gt as [|? ? Gt1 Gt']; subst. inversion Mt as [|? ? [Hnull [Hnn Hd]] Mt']; subst.
      destruct (strcmp kf kt <? 0).
      { destruct (mp_gen_walk cmp gen fr (tc :: tr)) as [[[p2 fl2] tl2]| |] eqn:E; cbn [bind] in H; try discriminate.
        injection H as <- <- <-.
        change (Forall gd (mp_add_member [] (Some kf) (Some mp_CreateNull) ++ p2)).
        apply Forall_app. split; [|apply (IHf _ _ _ _ E); assumption].
        apply add_member_gd. intros s Hs. injection Hs as <-. apply gd_null. }
      destruct (0 <? strcmp kf kt).
      { destruct (mp_gen_walk cmp gen (fc :: fr) tr) as [[[p2 fl2] tl2]| |] eqn:E; cbn [bind] in H; try discriminate.
        injection H as <- <- <-. apply Forall_app. split; [|apply (IHt _ _ _ eq_refl); assumption].
        apply (add_member_gd (Some kt)). intros s Hs. rewrite dup_rec_ok in Hs by (unfold depth_ok in Hd; lia). injection Hs as <-.
        apply (gd_sfeq _ tc (sfeq_clear_refs tc)). assumption. }
      destruct (cmp fc tc) as [[[same fc1] tc1]| |] eqn:Ec; cbn [bind] in H; try discriminate.
      destruct (Hc _ _ _ _ _ Ec) as [Df Dt]. destruct same.
      { destruct (mp_gen_walk cmp gen fr tr) as [[[p2 fl2] tl2]| |] eqn:E; cbn [bind] in H; try discriminate.
        injection H as <- <- <-. apply (IHf _ _ _ _ E); assumption. }
      destruct (gen fc1 tc1) as [[[sub fc2] tc2]| |] eqn:Eg; cbn [bind] in H; try discriminate.
      destruct (mp_gen_walk cmp gen fr tr) as [[[p2 fl2] tl2]| |] eqn:E; cbn [bind] in H; try discriminate.
      injection H as <- <- <-. apply Forall_app. split; [|apply (IHf _ _ _ _ E); assumption].
      apply add_member_gd. intros s Hs. subst sub. apply (Hg _ _ _ _ _ Eg).
      * eapply gd_dperm; eassumption.
      * eapply gd_dperm; eassumption.
      * rewrite <- (nnm_dperm _ _ Dt). exact Hnn.
      * unfold depth_ok. rewrite <- (depth_dperm _ _ Dt). exact Hd.
Qed.

Theorem generate_gd : forall fuel, gen_gd (mp_generate_merge_patch fuel true).
Proof.
  induction fuel as [|f IH]; intros x y s x' y' H Gx Gy Hn Hd; [discriminate|].
  cbn [mp_generate_merge_patch] in H.
  destruct (negb (is_object y) || negb (is_object x)) eqn:Eo.
  - rewrite dup_rec_ok in H by (unfold depth_ok in Hd; lia). injection H as <- <- <-.
    apply (gd_sfeq _ y (sfeq_clear_refs y)). exact Gy.
  - apply orb_false_iff in Eo. destruct Eo as [Oy Ox]. apply negb_false_iff in Oy, Ox.
    destruct (mp_sort_members true (n_children x)) as [sf| |] eqn:Esf; cbn [bind] in H; try discriminate.
    destruct (mp_sort_members true (n_children y)) as [st| |] eqn:Est; cbn [bind] in H; try discriminate.
    destruct (mp_gen_walk (mp_compare_json_top true) (mp_generate_merge_patch f true) sf st) as [[[pm fl] tl]| |] eqn:E; cbn [bind] in H; try discriminate.
    destruct pm as [|e pm']; [discriminate|]. injection H as <- <- <-.
    destruct (sort_members_strict _ _ (gd_keys _ Gx Ox) Esf) as [Ssf [Ksf Psf]].
    destruct (sort_members_strict _ _ (gd_keys _ Gy Oy) Est) as [Sst [Kst Pst]].
    assert (Gsf : Forall gd sf) by (apply (Forall_perm _ _ _ Psf); apply gd_eq in Gx; tauto).
    assert (Gst : Forall gd st) by (apply (Forall_perm _ _ _ Pst); apply gd_eq in Gy; tauto).
    assert (Mst : Forall to_member_ok st) by (apply (Forall_perm _ _ _ Pst); apply to_members_ok; assumption).
    destruct (gen_walk_sound _ _ (compare_json_top_dperm true) compare_json_top_sound (generate_dperm true f) (generate_sound f)
                _ _ _ _ _ E Ssf Sst (proj1 Ksf) (proj1 Kst) Gsf Gst Mst) as [_ [Kp _]].
    pose proof (gen_walk_gd _ _ (compare_json_top_dperm true) IH _ _ _ _ _ E Gsf Gst Mst) as Gp.
    apply gd_eq. cbn [mp_set_children mp_CreateObject mp_new_item n_children]. split; [|exact Gp].
    unfold gd_local. cbn [n_ty n_vdbl n_vstr n_children].
    split; [unfold json_kind; tauto|]. split; [intro E0; discriminate E0|]. split; [intro E0; discriminate E0|]. intros _. exact Kp.
Qed.

(** * C18_generate on the inputs as they were given *)
Theorem generate_roundtrip from to p from' to' :
  m7396_doc from = true -> m7396_doc to = true -> no_null_member to = true -> m7396_depth_ok to = true ->
  cJSONUtils_GenerateMergePatchCaseSensitive (Some from) (Some to) = Ok (p, from', to') ->
  doc_eq (merge_opt from p) to = true.
Proof.
  intros Df Dt Hn Hd H. apply m7396_doc_gd in Df. apply m7396_doc_gd in Dt. apply Z.leb_le in Hd.
  unfold cJSONUtils_GenerateMergePatchCaseSensitive, mp_GenerateMergePatch_gen in H.
  destruct (mp_generate_merge_patch (node_depth to) true from to) as [[[p0 f'] t']| |] eqn:E; cbn [bind] in H; try discriminate.
  injection H as <- <- <-.
  destruct (generate_dperm true _ _ _ _ _ _ E) as [D1 D2].
  destruct (generate_sound _ _ _ _ _ _ E Df Dt Hn Hd) as [Hdoc _].
  rewrite (doc_eq_dperm_r _ to t' D2 Dt).
  destruct p0 as [s|]; cbn [merge_opt] in *.
  - pose proof (generate_gd _ _ _ _ _ _ E Df Dt Hn Hd) as Gs.
    destruct (merge_dperm s Gs (Some from) (Some f') D1 Df) as [Dm Gm].
    rewrite (doc_eq_dperm_l _ _ t' Dm Gm). exact Hdoc.
  - rewrite (doc_eq_dperm_l _ _ t' D1 Df). exact Hdoc.
Qed.
