#!/usr/bin/env python3
"""mk_manifest.py — writes /verif/MANIFEST.json from the table below (one entry per claimed property)."""
import json, os
V = os.path.dirname(os.path.dirname(os.path.abspath(__file__)))
CLAIMED = {
 'C13': dict(
   text="Coq theorems over the buffer-level transliteration of cJSON_Minify: for every zero-free byte string the code stays inside the buffer, terminates, keeps the size and computes the list-level function minify_spec (C13_safe); for every text = tokens woven with whitespace/comment gaps the result is exactly the concatenation of the tokens, string literals byte for byte (C13_value), hence idempotent (C13_idempotent). The model is tied to /repo by running the extracted model and the ASan/guard-page build of cJSON.c on the same generated texts and byte soups every run.",
   note="Trusted: Coq kernel; the hand-written transliteration (validated by the differential run, not proved against C); 'parses to an equal tree' is checked by execution with python's json as the independent parser, not proved; C locale.",
   technique="Coq proof (refinement of an index-level buffer model to a list function + token-level induction) + differential correspondence",
   design="DESIGN.md section 6, C13"),
 'C01': dict(
   text="Coq theorems over the buffer-level transliteration of the whole parser (ParseDefs.v: skip_utf8_bom, buffer_skip_whitespace, parse_value/number/string (both passes, explicit output capacity)/array/object, all entry points): for EVERY memory content, declared length inside it, both termination modes, every allocation-failure schedule and every strtod that consumes a non-empty prefix of its argument, the outcome is Ok — no read at an index >= length and no write beyond the string block (outcome OOB) and no fuel exhaustion (termination) — with NULL leaving nothing allocated and a tree owning exactly the live blocks (C01_length_variants_safe); the zero-terminated entry points read up to the terminator only and coincide with the length variant on strlen+1 (C01_string_variants_safe); the nesting counter never exceeds CJSON_NESTING_LIMIT+1, bounding the C recursion (C01_depth_bounded); the reference strtod satisfies the contract (C01_strtod_ref_ok). Tied to /repo every run by executing the extracted model and the guard-page/read-only-mapping + ASan build of cJSON.c on valid texts, every prefix, single-byte edits, token soups, truncation shapes, 62-66 byte numbers and nesting 998-1002 / 10^5, through all six entry-point spellings; the returned trees are walked, printed and deleted on the implementation.",
   note="Trusted: Coq kernel; the hand-written transliteration (validated by the differential run, not proved against C); libc strtod only through the stated contract; 'never writes to the input' and real stack use are observed on the implementation (read-only mapping, small-stack thread), not proved; that the returned tree can be printed/deleted is observed on the implementation and proved for the ledger count only.",
   technique="Coq proof (fuel induction with a ledger/offset invariant per parser function) + differential correspondence under guard pages",
   design="DESIGN.md section 6, C01"),
 'C10': dict(
   text="Coq theorems over the buffer-level parser transliteration (ParseDefs.v) and the list-level functional specification of the accepted dialect (ParseSpec.text_l): for every content, length, termination mode and allocation schedule a failure publishes equal end and error positions strictly inside max(len,1) and a success leaves the error pointer NULL with 0 <= end <= len, and with termination required the end designates a zero byte inside the buffer (C10_positions); with no allocation failure the entry point accepts exactly when text_l accepts the declared bytes, with the same tree and the same parse end - with termination required exactly when the value is followed by whitespace and a zero byte inside the buffer, otherwise whatever follows the value is ignored (C10_end_exact, a full simulation proof of both string passes, numbers, containers, BOM and the end-of-buffer step-back); the bytes before the parse end re-parse by themselves to the same tree (C10_prefix_reparse); the reference strtod satisfies the contract used (C10_strtod_ref_contract). Tied to /repo every run by executing the extracted model, the extracted text_l and the guard-page/ASan build of cJSON.c on all parser input streams with and without return_parse_end, both rnt values and buffers extending beyond the first zero byte; the implementation's prefix re-parse is executed and compared.",
   note="Trusted: Coq kernel; hand-written transliteration validated by the differential run; libc strtod through the contract strtod_ok + strtod_stable (consumes a non-empty prefix; the consumed prefix converts by itself to the same value), proved for the reference implementation and validated against glibc by execution.",
   technique="Coq proof (simulation between the offset-based buffer parser and a list-level specification, by fuel induction) + differential correspondence",
   design="DESIGN.md section 6, C10"),
 'C20': dict(
   text="PARTIAL by nature (see note). Coq theorem for every number of threads, every per-thread list of library calls on thread-private data, every schedule and every initial shared error position: at every moment each thread is in exactly the state (results so far, private trees, remaining calls) of its run alone (C20_noninterference_partial, C20_finished_as_alone_partial; generic in the call semantics, needing only the footprint lemma that results and private post-states do not depend on the shared state, C20_generic), instantiated with the modelled calls (parse entry points publishing the error position, minify, compare, pointer resolve/construct, delete). The absence of any other shared location is a set of kernel-checked obligations over facts REGENERATED FROM /repo's SOURCES ON EVERY RUN by the translator tools/gen_facts.py (clang AST of the preprocessed files): the only written static-storage objects are global_error, global_hooks and cJSON_Version's text, each written only by its documented writer; global_error is read only by cJSON_GetErrorPtr, which no library function calls; only thread-safe C library functions are used (C20_statics, C20_writers, C20_error_position_isolated, C20_externals). The implementation is exercised every run under ThreadSanitizer: 8 threads x seeded private call sequences over parse/print/duplicate/compare/edit/minify/patch/merge/sort/pointer/delete, per-thread result digests compared with the same sequences run alone, any race report off the documented error position is a violation.",
   note="Partial: the theorem interleaves whole calls; that instruction-level interleavings add nothing when threads share no location is C11 data-race freedom, not formalised. The model's footprint lemma holds by construction of the models (no modelled call takes the shared state as input), so the real tie to the code is the generated source facts and the TSan/alone-vs-concurrent run. ThreadSanitizer only sees schedules that occur. Trusted: Coq kernel, gen_facts.py (clang AST walk), POSIX thread-safety of the listed libc functions under an unchanged locale, libtsan.",
   technique="Coq proof (schedule induction over a footprint lemma) + kernel-checked facts regenerated from the source by a translator + ThreadSanitizer differential run",
   design="DESIGN.md section 6, C20"),
 'C12': dict(
   text="Coq theorems over the value-level transliteration of cJSON_Compare (CompareDefs.v) with IEEE binary64 doubles as Coq SpecFloat: the recursion bound always suffices (C12_total); for all pairs of trees with distinct keys per object (distinct after ASCII folding when case-insensitive) the result is true exactly when the declarative relation sem_eq holds (C12_spec); symmetric, reflexive (same pointer: any valid tree; equal copy: NaN-free), flags ignored, NULL/invalid give false (C12_symmetric, C12_reflexive, C12_flags_ignored, C12_null_invalid_false); compare_double is symmetric, reflexive off NaN and never equates finite with non-finite (C12_num), with the pinned defect re-derived (C12_num_refuted_pinned). Tied to /repo by running the extracted model and the ASan build of cJSON.c on the same generated pairs (single-point mutations, permutations, case variants, number grid) every run; purity (arguments unmodified) is observed on the implementation by dumping both trees before and after.",
   note="Trusted: Coq kernel; hand-written transliteration validated by the differential run; python's float arithmetic in the verdict oracle; C locale tolower.",
   technique="Coq proof (structural induction over trees, SpecFloat case analysis) + differential correspondence",
   design="DESIGN.md section 6, C12"),
 'C15': dict(
   text="Coq theorems over the value-level transliteration of the JSON Pointer functions of cJSON_Utils.c (PointerDefs.v): for every document and every C string the case-sensitive lookup returns exactly the node RFC 6901 designates, written separately from the RFC (C15_resolve, including the size_t overflow guard of the index loop); for every node inside a tree with distinct present keys the constructed pointer resolves back to that node (C15_construct) and escaping inverts unescaping (C15_escape). Tied to /repo by running the extracted model and the ASan/guard-page build of cJSON_Utils.c on documents over the key alphabet {empty,/,~,~0,~1,a/b,0,01,...} x exhaustive short pointer strings + long indices, and all (root,node) pairs, every run.",
   note="Trusted: Coq kernel; hand-written transliteration validated by the differential run; documents are modelled at value level (sibling chain flattened to a list), so pointer-chasing itself is covered by the correspondence run, not the proof.",
   technique="Coq proof (induction over pointer tokens and trees against an RFC 6901 reference evaluator) + differential correspondence",
   design="DESIGN.md section 6, C15"),
}
props = [json.loads(l) for l in open(os.path.join(V, 'properties.jsonl'))]
m = json.load(open(os.path.join(V, 'MANIFEST.json')))
m['checks'] = []; m['not_applicable'] = []
for p in props:
    i = p['id']
    if i in CLAIMED:
        c = CLAIMED[i]
        m['checks'].append({
          'property_id': i,
          'quick_cmd': 'python3 tools/check.py %s --tier quick' % i,
          'thorough_cmd': 'python3 tools/check.py %s --tier thorough' % i,
          'evidence_file': 'evidence/%s.json' % i,
          'replay_cmd_template': 'python3 tools/check.py %s --replay {path}' % i,
          'engine': 'coq-model+correspondence',
          'level_claimed': {'category': 'proof', 'text': c['text'], 'design_ref': c['design']},
          'level_note': c['note'], 'technique': c['technique']})
    else:
        m['not_applicable'].append({'property_id': i, 'reason': 'check not built yet in this round (work in progress; the technique applies, see DESIGN.md section 6)'})
m['engines'][0]['serves_properties'] = sorted(CLAIMED)
json.dump(m, open(os.path.join(V, 'MANIFEST.json'), 'w'), indent=1)
print('claimed:', sorted(CLAIMED))
