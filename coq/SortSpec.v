(** SortSpec.v — list-level facts about the specification of C19: the stable insertion sort
    [isort] (permutation, sorted, stable, idempotent, equal to the merge of its sorted halves), and
    the key orders of the two variants (total, transitive on C strings). *)
From CJ Require Import Base Dbl Tree Heap SortDefs.
From stdpp Require Import gmap sorting.
Local Open Scope Z_scope.

(** * Generic facts about [isort] / [merge_runs] *)
Section ISortFacts.
  Context {A : Type} (le : A -> A -> bool).
  Notation R := (fun a b => le a b = true).

  Lemma merge_runs_nil_l l2 : merge_runs le [] l2 = l2.
  Proof. destruct l2; reflexivity. Qed.
  Lemma merge_runs_nil_r l1 : merge_runs le l1 [] = l1.
  Proof. destruct l1; reflexivity. Qed.
  Lemma merge_runs_cons a l1 b l2 :
    merge_runs le (a :: l1) (b :: l2) =
    if le a b then a :: merge_runs le l1 (b :: l2) else b :: merge_runs le (a :: l1) l2.
  Proof. reflexivity. Qed.

  Lemma merge_runs_perm l1 : forall l2, Permutation (merge_runs le l1 l2) (l1 ++ l2).
  Proof.
    induction l1 as [|a l1 IH1]; intros l2.
    - rewrite merge_runs_nil_l. reflexivity.
    - induction l2 as [|b l2 IH2].
      + rewrite merge_runs_nil_r, app_nil_r. reflexivity.
      + rewrite merge_runs_cons. destruct (le a b).
        * cbn [app]. constructor. apply IH1.
        * rewrite IH2. apply Permutation_middle.
  Qed.

  Lemma isort_ext (le' : A -> A -> bool) l : (forall a b, le a b = le' a b) -> isort le l = isort le' l.
  Proof.
    intros He. induction l as [|x r IH]; cbn [isort]; [reflexivity|]. rewrite IH.
    generalize (isort le' r). intros s. induction s as [|y s IHs]; cbn [insert_sorted]; [reflexivity|].
    rewrite He, IHs. reflexivity.
  Qed.

  Lemma insert_sorted_perm x l : Permutation (insert_sorted le x l) (x :: l).
  Proof.
    induction l as [|y r IH]; cbn [insert_sorted].
    - reflexivity.
    - destruct (le x y).
      + reflexivity.
      + rewrite IH. apply perm_swap.
  Qed.

  Lemma isort_perm l : Permutation (isort le l) l.
  Proof.
    induction l as [|x r IH]; cbn [isort].
    - reflexivity.
    - rewrite insert_sorted_perm. constructor. exact IH.
  Qed.

  Lemma isort_length l : length (isort le l) = length l.
  Proof. apply Permutation_length, isort_perm. Qed.

  Lemma isort_elem x l : x ∈ isort le l <-> x ∈ l.
  Proof. rewrite (isort_perm l). reflexivity. Qed.

  Lemma isort_NoDup l : NoDup l -> NoDup (isort le l).
  Proof. intros H. rewrite (isort_perm l). exact H. Qed.

  Lemma isort_nil_inv l : isort le l = [] -> l = [].
  Proof.
    intros H. apply Permutation_nil. rewrite <- H at 1. apply isort_perm.
  Qed.

  (** stability: a class of mutually [le] elements (e.g. all members with one key) keeps its order *)
  Lemma insert_sorted_filter (P : A -> bool) x l :
    (forall a b, P a = true -> P b = true -> le a b = true) ->
    List.filter P (insert_sorted le x l) = if P x then x :: List.filter P l else List.filter P l.
  Proof.
    intros HP. induction l as [|y r IH]; cbn [insert_sorted List.filter].
    - reflexivity.
    - destruct (le x y) eqn:E; cbn [List.filter].
      + reflexivity.
      + rewrite IH. destruct (P x) eqn:Px; destruct (P y) eqn:Py; try reflexivity.
        rewrite (HP x y Px Py) in E. discriminate.
  Qed.

  Lemma isort_stable (P : A -> bool) l :
    (forall a b, P a = true -> P b = true -> le a b = true) ->
    List.filter P (isort le l) = List.filter P l.
  Proof.
    intros HP. induction l as [|x r IH]; cbn [isort List.filter].
    - reflexivity.
    - rewrite insert_sorted_filter by exact HP. rewrite IH. reflexivity.
  Qed.

  Hypothesis le_total : forall a b, le a b = true \/ le b a = true.

  Lemma insert_sorted_Sorted x l : Sorted R l -> Sorted R (insert_sorted le x l).
  Proof.
    induction l as [|y r IH]; intros Hs; cbn [insert_sorted].
    - repeat constructor.
    - destruct (le x y) eqn:E.
      + constructor; [exact Hs|]. constructor. exact E.
      + inversion Hs as [|? ? Hr Hhd]; subst.
        constructor; [apply IH; exact Hr|].
        destruct r as [|z r']; cbn [insert_sorted].
        * constructor. destruct (le_total x y) as [H|H]; [congruence|exact H].
        * destruct (le x z); constructor.
          -- destruct (le_total x y) as [H|H]; [congruence|exact H].
          -- inversion Hhd; assumption.
  Qed.

  Lemma isort_Sorted l : Sorted R (isort le l).
  Proof.
    induction l as [|x r IH]; cbn [isort].
    - constructor.
    - apply insert_sorted_Sorted. exact IH.
  Qed.

  (** a sorted list is left alone *)
  Lemma isort_id l : Sorted R l -> isort le l = l.
  Proof.
    induction l as [|x r IH]; intros Hs; cbn [isort].
    - reflexivity.
    - inversion Hs as [|? ? Hr Hhd]; subst. rewrite (IH Hr).
      destruct r as [|y r']; cbn [insert_sorted].
      + reflexivity.
      + inversion Hhd as [|? ? E]; subst. rewrite E. reflexivity.
  Qed.

  Lemma isort_idem l : isort le (isort le l) = isort le l.
  Proof. apply isort_id, isort_Sorted. Qed.

  Hypothesis le_trans : forall a b c, le a b = true -> le b c = true -> le a c = true.

  Lemma isort_StronglySorted l : StronglySorted R (isort le l).
  Proof.
    apply Sorted_StronglySorted; [|apply isort_Sorted].
    intros a b c. apply le_trans.
  Qed.

  Lemma le_false_flip a b : le a b = false -> le b a = true.
  Proof. intros H. destruct (le_total a b) as [H'|H']; [congruence|exact H']. Qed.

  (** the head of a merge is the head of one of the runs *)
  Lemma insert_sorted_front x l :
    match l with [] => True | y :: _ => le x y = true end -> insert_sorted le x l = x :: l.
  Proof. destruct l as [|y r]; cbn [insert_sorted]; [reflexivity|]. intros ->. reflexivity. Qed.

  Lemma merge_insert_le x a s1 s2 :
    le x a = true ->
    merge_runs le (x :: a :: s1) s2 = insert_sorted le x (merge_runs le (a :: s1) s2).
  Proof.
    intros Hxa. induction s2 as [|b s2 IH].
    - rewrite !merge_runs_nil_r. cbn [insert_sorted]. rewrite Hxa. reflexivity.
    - rewrite (merge_runs_cons x). destruct (le x b) eqn:Exb.
      + symmetry. apply insert_sorted_front.
        rewrite merge_runs_cons. destruct (le a b); assumption.
      + rewrite IH. rewrite (merge_runs_cons a).
        destruct (le a b) eqn:Eab.
        * rewrite (le_trans x a b Hxa Eab) in Exb. discriminate.
        * cbn [insert_sorted]. rewrite Exb. reflexivity.
  Qed.

  Lemma merge_insert x s1 : forall s2,
    merge_runs le (insert_sorted le x s1) s2 = insert_sorted le x (merge_runs le s1 s2).
  Proof.
    induction s1 as [|a s1 IH1]; intros s2.
    - cbn [insert_sorted]. rewrite merge_runs_nil_l.
      induction s2 as [|b s2 IH2].
      + reflexivity.
      + rewrite merge_runs_cons. cbn [insert_sorted]. destruct (le x b) eqn:E.
        * rewrite merge_runs_nil_l. reflexivity.
        * rewrite IH2. reflexivity.
    - cbn [insert_sorted]. destruct (le x a) eqn:Exa.
      + apply merge_insert_le. exact Exa.
      + induction s2 as [|b s2 IH2].
        * rewrite !merge_runs_nil_r. cbn [insert_sorted]. rewrite Exa. reflexivity.
        * rewrite !merge_runs_cons. destruct (le a b) eqn:Eab.
          -- rewrite IH1. cbn [insert_sorted]. rewrite Exa. reflexivity.
          -- rewrite IH2. cbn [insert_sorted].
             destruct (le x b) eqn:Exb; [|reflexivity].
             (* a <= x (since not x <= a), x <= b, hence a <= b: contradiction *)
             rewrite (le_trans a x b (le_false_flip x a Exa) Exb) in Eab. discriminate.
  Qed.

  (** merging the sorted halves is sorting the whole: what one level of [sort_list] does *)
  Lemma merge_isort l1 l2 : merge_runs le (isort le l1) (isort le l2) = isort le (l1 ++ l2).
  Proof.
    induction l1 as [|x l1 IH]; cbn [isort app].
    - apply merge_runs_nil_l.
    - rewrite merge_insert, IH. reflexivity.
  Qed.
End ISortFacts.

(** sorting commutes with decorating the elements *)
Lemma insert_sorted_map {A B} (f : A -> B) (le : B -> B -> bool) x l :
  insert_sorted le (f x) (map f l) = map f (insert_sorted (fun a b => le (f a) (f b)) x l).
Proof.
  induction l as [|y r IH]; cbn [insert_sorted map]; [reflexivity|].
  destruct (le (f x) (f y)); cbn [map]; [reflexivity|]. rewrite IH. reflexivity.
Qed.
Lemma isort_map {A B} (f : A -> B) (le : B -> B -> bool) l :
  isort le (map f l) = map f (isort (fun a b => le (f a) (f b)) l).
Proof.
  induction l as [|x r IH]; cbn [isort map]; [reflexivity|].
  rewrite IH. apply insert_sorted_map.
Qed.

(** * The key orders *)

Definition zfree (s : bytes) : Prop := Forall (fun c => c <> 0) s.

Lemma cstr_zfree b : zfree (cstr b).
Proof.
  induction b as [|c r IH]; cbn [cstr]; [constructor|].
  destruct (Z.eqb_spec c 0) as [E|E]; constructor; assumption.
Qed.

Lemma strcmp_refl a : strcmp a a = 0.
Proof. induction a as [|x a IH]; cbn [strcmp]; [reflexivity|]. rewrite Z.eqb_refl. exact IH. Qed.

Lemma strcmp_antisym a : forall b, strcmp a b = - strcmp b a.
Proof.
  induction a as [|x a IH]; intros [|y b]; cbn [strcmp]; try lia.
  rewrite (Z.eqb_sym y x). destruct (Z.eqb_spec x y) as [E|E]; [apply IH|lia].
Qed.

Lemma strcmp_trans a : forall b c, zfree a -> zfree b -> zfree c ->
  strcmp a b <= 0 -> strcmp b c <= 0 -> strcmp a c <= 0.
Proof.
  induction a as [|x a IH]; intros b c Ha Hb Hc H1 H2.
  - destruct c as [|z c]; cbn [strcmp]; [lia|].
    destruct b as [|y b]; cbn [strcmp] in *; [lia|].
    destruct (Z.eqb_spec y z); lia.
  - inversion Ha as [|? ? Hx Ha']; subst.
    destruct b as [|y b].
    + cbn [strcmp] in H1. destruct c as [|z c]; cbn [strcmp] in *; [lia|].
      destruct (Z.eqb_spec x z); lia.
    + inversion Hb as [|? ? Hy Hb']; subst. cbn [strcmp] in H1.
      destruct c as [|z c].
      * cbn [strcmp] in *. destruct (Z.eqb_spec x y); lia.
      * inversion Hc as [|? ? Hz Hc']; subst. cbn [strcmp] in *.
        destruct (Z.eqb_spec x y) as [E1|E1]; destruct (Z.eqb_spec y z) as [E2|E2]; destruct (Z.eqb_spec x z) as [E3|E3];
          try lia.
        apply (IH b c); assumption.
Qed.

Lemma strcasecmp_strcmp a : forall b, strcasecmp_c a b = strcmp (map tolower a) (map tolower b).
Proof.
  induction a as [|x a IH]; intros [|y b]; cbn [strcasecmp_c strcmp map]; try reflexivity.
  destruct (tolower x =? tolower y); [apply IH|reflexivity].
Qed.

Lemma tolower_nonzero c : c <> 0 -> tolower c <> 0.
Proof.
  intros H. unfold tolower. destruct ((65 <=? c) && (c <=? 90)) eqn:E; [|exact H].
  apply andb_true_iff in E as [E1 E2]. apply Z.leb_le in E1. lia.
Qed.

Lemma zfree_tolower s : zfree s -> zfree (map tolower s).
Proof.
  unfold zfree. induction 1 as [|c r Hc Hr IH]; cbn [map]; constructor; [apply tolower_nonzero; exact Hc|exact IH].
Qed.

(** the byte string actually compared by the variant *)
Definition key_fold (cs : bool) (s : bytes) : bytes := if cs then s else map tolower s.
Lemma key_cmp_fold cs a b : key_cmp cs a b = strcmp (key_fold cs a) (key_fold cs b).
Proof. destruct cs; cbn [key_cmp key_fold]; [reflexivity|apply strcasecmp_strcmp]. Qed.
Lemma zfree_fold cs s : zfree s -> zfree (key_fold cs s).
Proof. destruct cs; cbn [key_fold]; [tauto|apply zfree_tolower]. Qed.

Lemma key_cmp_refl cs a : key_cmp cs a a = 0.
Proof. rewrite key_cmp_fold. apply strcmp_refl. Qed.

Lemma key_le_total cs a b : key_le cs a b = true \/ key_le cs b a = true.
Proof.
  unfold key_le. rewrite !key_cmp_fold. rewrite (strcmp_antisym (key_fold cs b)).
  destruct (Z.leb_spec (strcmp (key_fold cs a) (key_fold cs b)) 0) as [H|H]; [left; reflexivity|right].
  apply Z.leb_le. lia.
Qed.

Lemma key_le_trans cs a b c : zfree a -> zfree b -> zfree c ->
  key_le cs a b = true -> key_le cs b c = true -> key_le cs a c = true.
Proof.
  unfold key_le. rewrite !key_cmp_fold. intros Ha Hb Hc H1 H2.
  apply Z.leb_le in H1. apply Z.leb_le in H2. apply Z.leb_le.
  apply (strcmp_trans _ (key_fold cs b)); try assumption; apply zfree_fold; assumption.
Qed.

(** strict order between neighbours (the pre-check of sort_list) implies the non-strict one *)
Lemma key_lt_le cs a b : key_cmp cs a b <? 0 = true -> key_le cs a b = true.
Proof. unfold key_le. intros H. apply Z.ltb_lt in H. apply Z.leb_le. lia. Qed.

(** * [sort_spec] *)

Lemma sort_spec_perm cs l : Permutation (sort_spec cs l) l.
Proof. apply isort_perm. Qed.

Lemma sort_spec_sorted cs l : Sorted (fun a b => key_le cs (snd a) (snd b) = true) (sort_spec cs l).
Proof.
  unfold sort_spec. apply (isort_Sorted (member_le cs)).
  intros a b. apply key_le_total.
Qed.

(** members whose keys are equal for the variant keep their relative order *)
Lemma sort_spec_stable cs k l :
  let same := fun m : positive * bytes => bytes_eqb (key_fold cs (snd m)) (key_fold cs k) in
  List.filter same (sort_spec cs l) = List.filter same l.
Proof.
  intros same. unfold sort_spec. apply isort_stable.
  intros a b Ha Hb. unfold same in *. apply bytes_eqb_eq in Ha. apply bytes_eqb_eq in Hb.
  unfold member_le, key_le. rewrite key_cmp_fold, Ha, Hb, strcmp_refl. reflexivity.
Qed.

Lemma sort_spec_idem cs l : sort_spec cs (sort_spec cs l) = sort_spec cs l.
Proof.
  unfold sort_spec. apply (isort_idem (member_le cs)). intros a b. apply key_le_total.
Qed.
