(** PrintProofs.v — the buffer-level printer refines the renderer.

    For every libc satisfying [LibcPrintSpec], every allocation oracle, every initial buffer
    contents: print_value never leaves its buffer ([Ok] outcome); when it returns true the
    buffer holds, after the text written before, exactly [render]'s text and a terminator;
    it returns true whenever the text (plus two bytes) fits the caller's buffer, or the
    buffer may grow and no allocation fails.  The entry points follow.  Proofs only. *)
From CJ Require Import Base Dbl Tree PrintDefs PrintLemmas PrintString.
From Coq Require Import Lia ZArith List Bool.
Import ListNotations.
Local Open Scope Z_scope.

Section Main.
  Variable fmt_d : Z -> bytes.
  Variable fmt_g15 fmt_g17 : dbl -> bytes.
  Variable sscanf_lg : bytes -> option dbl.
  Hypothesis libc : LibcPrintSpec fmt_d fmt_g15 fmt_g17.
  Variable oracle : nat -> bool.
  Variable junk : nat -> Z.

  Notation printbuffer := PrintDefs.printbuffer.
  Notation text_at := PrintLemmas.text_at.
  Notation done := PrintLemmas.done.
  Notation room := (PrintLemmas.room oracle).
  Notation ensure := (PrintDefs.ensure oracle junk).
  Notation prints := (PrintString.prints oracle).
  Notation render := (PrintDefs.render fmt_d fmt_g15 fmt_g17 sscanf_lg).
  Notation number_text := (PrintDefs.number_text fmt_d fmt_g15 fmt_g17 sscanf_lg).
  Notation print_value := (PrintDefs.print_value fmt_d fmt_g15 fmt_g17 sscanf_lg oracle junk).
  Notation print_number := (PrintDefs.print_number fmt_d fmt_g15 fmt_g17 sscanf_lg oracle junk).

  (** ---------------------------------------------------------------- numbers *)
  Lemma finite_of_not_nan_inf d : is_nan d || is_inf d = false -> is_finite d = true.
  Proof. destruct d; cbn; intros; congruence. Qed.

  Lemma number_text_props vi d :
    int_range vi = true -> valid_dbl d = true ->
    nz (number_text vi d) /\ zlen (number_text vi d) <= c_NUMBER_BUFFER_SIZE - 1.
  Proof.
    intros Hi Hv. unfold PrintDefs.number_text.
    destruct (is_nan d || is_inf d) eqn:Hn.
    - split; [unfold lit_null; repeat constructor; lia|reflexivity || (unfold zlen; cbn; lia)].
    - pose proof (finite_of_not_nan_inf d Hn) as Hf.
      destruct (deq d (dbl_of_int vi)).
      + split; [apply (lps_d_zero_free _ _ _ libc); assumption|apply (lps_d_len _ _ _ libc); assumption].
      + destruct (sscanf_lg (fmt_g15 d)) as [test|].
        * destruct (compare_double test d).
          -- split; [apply (lps_g15_zero_free _ _ _ libc)|apply (lps_g15_len _ _ _ libc)]; assumption.
          -- split; [apply (lps_g17_zero_free _ _ _ libc)|apply (lps_g17_len _ _ _ libc)]; assumption.
        * split; [apply (lps_g17_zero_free _ _ _ libc)|apply (lps_g17_len _ _ _ libc)]; assumption.
  Qed.

  Lemma sprintf_ok txt : zlen txt <= c_NUMBER_BUFFER_SIZE - 1 -> sprintf_number_buffer txt = Ok txt.
  Proof. intros H. unfold sprintf_number_buffer. destruct (Z.ltb_spec c_NUMBER_BUFFER_SIZE (zlen txt + 1)); [lia|reflexivity]. Qed.

  Lemma print_number_prints vi d :
    int_range vi = true -> valid_dbl d = true -> prints (print_number vi d) (number_text vi d).
  Proof.
    intros Hi Hv p T HT.
    destruct (number_text_props vi d Hi Hv) as (Hnz & Hlen).
    pose proof (zlen_nonneg (number_text vi d)) as H0.
    destruct (ensure_put_prints oracle junk (number_text vi d) (zlen (number_text vi d) + 1) (zlen (number_text vi d)) eq_refl ltac:(lia) p T HT)
      as (ok & p' & E & R).
    exists ok, p'. split; [|exact R]. rewrite <- E. unfold PrintDefs.print_number.
    assert (Htxt : (if is_nan d || is_inf d then sprintf_number_buffer lit_null
                    else if deq d (dbl_of_int vi) then sprintf_number_buffer (fmt_d vi)
                    else t15 <- sprintf_number_buffer (fmt_g15 d) ;;
                         match sscanf_lg t15 with
                         | Some test => if compare_double test d then Ok t15 else sprintf_number_buffer (fmt_g17 d)
                         | None => sprintf_number_buffer (fmt_g17 d)
                         end) = Ok (number_text vi d)).
    { revert Hlen. unfold PrintDefs.number_text.
      destruct (is_nan d || is_inf d) eqn:Hn; [intros; apply sprintf_ok; assumption|].
      pose proof (finite_of_not_nan_inf d Hn) as Hf.
      destruct (deq d (dbl_of_int vi)); [intros; apply sprintf_ok; assumption|].
      rewrite (sprintf_ok (fmt_g15 d)) by (apply (lps_g15_len _ _ _ libc); assumption). cbn [bind].
      destruct (sscanf_lg (fmt_g15 d)) as [test|]; [destruct (compare_double test d)|]; intros; try reflexivity; apply sprintf_ok; assumption. }
    rewrite Htxt. cbn [bind].
    destruct (Z.ltb_spec (c_NUMBER_BUFFER_SIZE - 1) (zlen (number_text vi d))); [lia|]. reflexivity.
  Qed.

  (** ---------------------------------------------------------------- the renderer's text is a C string *)
  Lemma opt_all_cons {A} (x : option A) (r : list (option A)) l :
    opt_all (x :: r) = Some l -> exists t ts, x = Some t /\ opt_all r = Some ts /\ l = t :: ts.
  Proof.
    cbn [opt_all]. destruct x as [t|]; [|discriminate]. destruct (opt_all r) as [ts|]; [|discriminate].
    intros H. inversion H. eauto.
  Qed.

  Lemma nz_join sep l : nz sep -> Forall nz l -> nz (join sep l).
  Proof.
    intros Hs H. induction H as [|x l Hx Hl IH]; [constructor|].
    cbn [join]. destruct l as [|y l']; [exact Hx|]. apply nz_app; [exact Hx|]. apply nz_app; [exact Hs|exact IH].
  Qed.
  Lemma nz_tabs d : nz (tabs d).
  Proof. unfold tabs. induction (Z.to_nat d); cbn; constructor; [unfold ch_tab; lia|assumption]. Qed.
  Lemma nz_if (b : bool) (l : bytes) : nz l -> nz (if b then l else []).
  Proof. destruct b; [auto|constructor]. Qed.
  Lemma nz_member fmt d k v last : nz v -> nz (member_text fmt d k v last).
  Proof.
    intros Hv. unfold member_text.
    repeat apply nz_app; try (apply nz_if); try apply nz_tabs; try apply render_string_nz; try assumption;
      try (destruct last); try (unfold ch_colon, ch_tab, ch_comma, ch_nl; repeat constructor; lia).
  Qed.
  Lemma nz_members fmt d keys l : Forall nz l -> nz (members_text fmt d (combine keys l)).
  Proof.
    intros H. revert keys. induction H as [|x l Hx Hl IH]; intros keys.
    - destruct keys; constructor.
    - destruct keys as [|k keys]; [constructor|]. cbn [combine members_text].
      apply nz_app; [apply nz_member; exact Hx|apply IH].
  Qed.

  Lemma opt_all_nz (f : node -> option bytes) cs :
    Forall (fun c => fields_ok c = true -> forall txt, f c = Some txt -> nz txt) cs ->
    forallb fields_ok cs = true ->
    forall l, opt_all (map f cs) = Some l -> Forall nz l.
  Proof.
    induction 1 as [|c cs Hc Hcs IH]; intros Hi l H.
    - cbn in H. inversion H. constructor.
    - cbn [forallb] in Hi. apply andb_true_iff in Hi as (Hi1 & Hi2). cbn [map] in H.
      apply opt_all_cons in H as (t & ts & H1 & H2 & ->). constructor; [eapply Hc; eauto|apply IH; auto].
  Qed.

  Lemma render_nz n : fields_ok n = true -> forall fmt d txt, render fmt d n = Some txt -> nz txt.
  Proof.
    induction n as [t s i dv k cs IH] using node_ind'. intros Hi fmt d txt.
    cbn [fields_ok] in Hi. apply andb_true_iff in Hi as (Hi1 & Hi2). apply andb_true_iff in Hi1 as (Hi1 & Hiv).
    cbn [PrintDefs.render].
    destruct (tymask t =? c_cJSON_NULL); [intros H; inversion H; unfold lit_null; repeat constructor; lia|].
    destruct (tymask t =? c_cJSON_False); [intros H; inversion H; unfold lit_false; repeat constructor; lia|].
    destruct (tymask t =? c_cJSON_True); [intros H; inversion H; unfold lit_true; repeat constructor; lia|].
    destruct (tymask t =? c_cJSON_Number).
    { destruct (c_NUMBER_BUFFER_SIZE - 1 <? zlen (number_text i dv)); [discriminate|].
      intros H; inversion H. apply number_text_props; assumption. }
    destruct (tymask t =? c_cJSON_Raw).
    { destruct s; [|discriminate]. intros H; inversion H. apply cstr_nz. }
    destruct (tymask t =? c_cJSON_String); [intros H; inversion H; apply render_string_nz|].
    assert (Hch : forall d' l, opt_all (map (render fmt d') cs) = Some l -> Forall nz l).
    { intros d' l. apply opt_all_nz; [|exact Hi2].
      eapply Forall_impl; [|exact IH]. cbn. intros c Hc Hic txt'. apply Hc. exact Hic. }
    destruct (tymask t =? c_cJSON_Array).
    { destruct (opt_all (map (render fmt (d + 1)) cs)) as [l|] eqn:E; [|discriminate].
      intros [= <-]. constructor; [unfold ch_lbrack; lia|].
      apply nz_app; [|unfold ch_rbrack; repeat constructor; lia].
      apply nz_join; [destruct fmt; unfold ch_comma, ch_space; repeat constructor; lia|eapply Hch; eauto]. }
    destruct (tymask t =? c_cJSON_Object); [|discriminate].
    destruct (opt_all (map (render fmt (d + 1)) cs)) as [l|] eqn:E; [|discriminate].
    intros [= <-]. constructor; [unfold ch_lbrace; lia|].
    apply nz_app; [apply nz_if; unfold ch_nl; repeat constructor; lia|].
    apply nz_app; [apply nz_members; eapply Hch; eauto|].
    apply nz_app; [apply nz_if; apply nz_tabs|unfold ch_rbrace; repeat constructor; lia].
  Qed.

  (** ---------------------------------------------------------------- what is proved of print_value, per node *)
  Definition spec_of (pv : node -> printbuffer -> res (bool * printbuffer)) (n : node) : Prop :=
    fields_ok n = true ->
    forall p T, text_at p T -> 0 <= pb_depth p ->
    exists ok p', pv n p = Ok (ok, p') /\ frame p p' /\
      (ok = true -> exists txt, render (pb_format p) (pb_depth p) n = Some txt /\ done p' T txt /\
                    pb_depth p' = pb_depth p /\ zlen T + zlen txt + 2 <= pb_length p' /\ grown p p') /\
      (forall txt, render (pb_format p) (pb_depth p) n = Some txt -> room p (zlen T + zlen txt + 2) -> ok = true).

  Definition sep_of (fmt : bool) : bytes := if fmt then [ch_comma; ch_space] else [ch_comma].
  Lemma sep_len fmt : zlen (sep_of fmt) = if fmt then 2 else 1.
  Proof. destruct fmt; reflexivity. Qed.
  Lemma join_cons_len (sep t : bytes) (ts : list bytes) : zlen t <= zlen (join sep (t :: ts)).
  Proof.
    cbn [join]. destruct ts as [|t1 ts]; [lia|]. rewrite !zlen_app.
    pose proof (zlen_nonneg sep). pose proof (zlen_nonneg (join sep (t1 :: ts))). lia.
  Qed.

  Lemma join_cons2 (sep t t1 : bytes) (ts : list bytes) : join sep (t :: t1 :: ts) = t ++ sep ++ join sep (t1 :: ts).
  Proof. reflexivity. Qed.

  Lemma grown_set_offset p o : grown p (set_offset p o). Proof. split; [cbn; lia|]. intros _. repeat split. Qed.
  Lemma grown_set_depth p o : grown p (set_depth p o). Proof. split; [cbn; lia|]. intros _. repeat split. Qed.

  (** the loop of print_array *)
  Lemma elements_spec pv : forall l, Forall (spec_of pv) l -> forallb fields_ok l = true ->
    forall p T, text_at p T -> 0 <= pb_depth p ->
    exists ok p', print_array_elements oracle junk pv l p = Ok (ok, p') /\ frame p p' /\
      (ok = true -> exists txts, opt_all (map (render (pb_format p) (pb_depth p)) l) = Some txts /\
                    text_at p' (T ++ join (sep_of (pb_format p)) txts) /\ pb_depth p' = pb_depth p /\ grown p p') /\
      (forall txts, opt_all (map (render (pb_format p) (pb_depth p)) l) = Some txts ->
                    room p (zlen T + zlen (join (sep_of (pb_format p)) txts) + 2) -> ok = true).
  Proof.
    induction 1 as [|c next Hc Hnext IH]; intros Hi p T HT Hd.
    - exists true, p. split; [reflexivity|]. split; [apply frame_refl|]. split; [|reflexivity].
      intros _. exists []. split; [reflexivity|]. cbn [join]. rewrite app_nil_r.
      split; [exact HT|]. split; [reflexivity|apply grown_refl].
    - cbn [forallb] in Hi. apply andb_true_iff in Hi as (Hi1 & Hi2).
      cbn [print_array_elements].
      destruct (Hc Hi1 p T HT Hd) as (ok1 & p1 & E1 & F1 & S1 & C1). rewrite E1. cbn [bind].
      destruct ok1; cbn [negb].
      2: { exists false, p1. split; [reflexivity|]. split; [exact F1|]. split; [discriminate|].
           intros txts Ht R. cbn [map] in Ht. apply opt_all_cons in Ht as (t & ts & Rt & _ & ->).
           apply (C1 t Rt). eapply room_mono; [exact R|].
           pose proof (join_cons_len (sep_of (pb_format p)) t ts). unfold bytes in *. lia. }
      destruct (S1 eq_refl) as (t & Rt & D1 & Dp1 & Len1 & G1).
      pose proof (render_nz c Hi1 _ _ _ Rt) as Hnz.
      destruct (update_offset_spec p1 T t D1 Hnz) as (p2 & E2 & P2 & TA2 & _). rewrite E2. cbn [bind].
      assert (F2 : frame p p2) by (subst p2; eapply frame_trans; [exact F1|apply frame_set_offset]).
      assert (G2 : grown p p2) by (subst p2; eapply grown_trans; [exact F1|exact G1|apply grown_set_offset]).
      assert (Dp2 : pb_depth p2 = pb_depth p) by (subst p2; exact Dp1).
      destruct next as [|c' next'].
      + cbn [print_array_elements]. exists true, p2. split; [reflexivity|]. split; [exact F2|]. split; [|reflexivity].
        intros _. exists [t]. split; [cbn [map opt_all]; rewrite Rt; reflexivity|]. cbn [join].
        split; [exact TA2|]. split; [exact Dp2|exact G2].
      + pose proof F2 as (Ff2 & Fn2 & Fr2 & _).
        rewrite Ff2.
        set (fmt := pb_format p) in *. set (len := if fmt then 2 else 1).
        assert (Hlen : 1 <= len <= 2) by (unfold len; destruct fmt; lia).
        destruct (ensure_spec oracle junk p2 (T ++ t) (len + 1) TA2 ltac:(lia)) as (ok3 & p3 & E3 & F3 & S3 & C3).
        rewrite E3. cbn [bind].
        pose proof (sep_len fmt) as SL. fold len in SL.
        assert (Hroom2 : forall k, room p k -> room p2 k).
        { intros k R. eapply room_step; [exact F2|exact G2|exact R]. }
        destruct ok3; cbn [negb].
        2: { exists false, p3. split; [reflexivity|]. split; [eapply frame_trans; [exact F2|exact F3]|].
             split; [discriminate|]. intros txts Ht R. cbn [map] in Ht.
             apply opt_all_cons in Ht as (t0 & ts & Rt0 & Hts & ->). rewrite Rt in Rt0. injection Rt0 as <-.
             apply opt_all_cons in Hts as (t1 & ts1 & _ & _ & ->).
             apply C3. apply Hroom2. eapply room_mono; [exact R|]. rewrite join_cons2, !zlen_app, SL.
             pose proof (zlen_nonneg (join (sep_of fmt) (t1 :: ts1))). lia. }
        destruct (S3 eq_refl) as (TA3 & Len3 & Dp3 & G3).
        pose proof F3 as (Ff3 & Fn3 & Fr3 & _). rewrite Ff3, Ff2. fold fmt.
        destruct TA3 as (rest3 & B3 & O3 & _).
        replace ([ch_comma] ++ (if fmt then [ch_space] else []) ++ [0]) with (sep_of fmt ++ [0]) by (destruct fmt; reflexivity).
        destruct (put_spec p3 (T ++ t) rest3 (sep_of fmt ++ [0]) 0 B3 ltac:(lia)) as (rest4 & p4 & E4 & P4 & B4 & Fp4).
        { destruct B3 as (_ & B3). rewrite !zlen_app, zlen_cons, zlen_nil in *. lia. }
        rewrite E4. cbn [bind].
        set (p5 := set_offset p4 (pb_offset p4 + len)).
        assert (TA5 : text_at p5 ((T ++ t) ++ sep_of fmt)).
        { exists (0 :: rest4). destruct B4 as (B4a & B4b). split; [split|split].
          - unfold p5. cbn. rewrite B4a. f_equal. norm_list. reflexivity.
          - unfold p5. cbn. rewrite !zlen_app, !zlen_cons, !zlen_nil in *. lia.
          - unfold p5. subst p4. cbn. rewrite O3, !zlen_app. lia.
          - rewrite zlen_cons. pose proof (zlen_nonneg rest4). lia. }
        assert (F5 : frame p p5).
        { eapply frame_trans; [exact F2|]. eapply frame_trans; [exact F3|]. eapply frame_trans; [exact Fp4|apply frame_set_offset]. }
        assert (G5 : grown p p5).
        { eapply grown_trans; [exact F2|exact G2|].
          eapply grown_trans; [exact F3|exact G3|]. unfold p5. subst p4. split; [cbn; lia|]. intros _. repeat split. }
        assert (Dp5 : pb_depth p5 = pb_depth p) by (unfold p5; subst p4; cbn; rewrite Dp3; exact Dp2).
        destruct (IH Hi2 p5 _ TA5 ltac:(lia)) as (ok6 & p6 & E6 & F6 & S6 & C6).
        rewrite E6. exists ok6, p6. split; [reflexivity|]. split; [eapply frame_trans; [exact F5|exact F6]|].
        pose proof F5 as (Ff5 & Fn5 & Fr5 & _). rewrite Ff5, Dp5 in S6, C6. fold fmt in S6, C6.
        split.
        * intros Hok. destruct (S6 Hok) as (ts & Hts & TA6 & Dp6 & G6).
          exists (t :: ts). split; [cbn [map opt_all] in Hts |- *; rewrite Rt, Hts; reflexivity|].
          split; [|split; [congruence|eapply grown_trans; [exact F5|exact G5|exact G6]]].
          cbn [map] in Hts. apply opt_all_cons in Hts as (t1 & ts1 & _ & _ & ->).
          rewrite join_cons2. replace (T ++ t ++ sep_of fmt ++ join (sep_of fmt) (t1 :: ts1)) with (((T ++ t) ++ sep_of fmt) ++ join (sep_of fmt) (t1 :: ts1)) by (rewrite <- !app_assoc; reflexivity).
          exact TA6.
        * intros txts Ht R. cbn [map] in Ht.
          apply opt_all_cons in Ht as (t0 & ts & Rt0 & Hts & ->). rewrite Rt in Rt0. injection Rt0 as <-.
          apply (C6 ts Hts).
          eapply room_step; [exact F5|exact G5|]. eapply room_mono; [exact R|].
          cbn [map] in Hts. apply opt_all_cons in Hts as (t1 & ts1 & _ & _ & ->).
          rewrite join_cons2, !zlen_app. lia.
  Qed.

  (** ---------------------------------------------------------------- the loop of print_object *)
  Definition ind (fmt : bool) (d : Z) : bytes := if fmt then tabs d else [].
  Definition col (fmt : bool) : bytes := [ch_colon] ++ (if fmt then [ch_tab] else []).
  Definition tl (fmt hn : bool) : bytes := (if hn then [ch_comma] else []) ++ (if fmt then [ch_nl] else []).
  Lemma member_text_eq fmt d k v last :
    member_text fmt d k v last = ind fmt d ++ render_string k ++ col fmt ++ v ++ tl fmt (negb last).
  Proof. unfold member_text, ind, col, tl. destruct fmt, last; cbn [negb]; norm_list; reflexivity. Qed.
  Lemma ind_len fmt d : 0 <= d -> zlen (ind fmt d) = if fmt then d else 0.
  Proof. intros H. unfold ind. destruct fmt; [apply zlen_tabs; exact H|reflexivity]. Qed.
  Lemma col_len fmt : zlen (col fmt) = if fmt then 2 else 1.
  Proof. destruct fmt; reflexivity. Qed.
  Lemma tl_len fmt hn : zlen (tl fmt hn) = (if fmt then 1 else 0) + (if hn then 1 else 0).
  Proof. destruct fmt, hn; reflexivity. Qed.
  Lemma render_string_len k : 2 <= zlen (render_string k).
  Proof.
    destruct k as [k|]; cbn [render_string]; [|unfold zlen; cbn; lia].
    rewrite zlen_cons, zlen_app, zlen_cons, zlen_nil. pose proof (zlen_nonneg (escape_body (cstr k))). lia.
  Qed.

  Lemma indent_step p T : text_at p T -> 0 <= pb_depth p ->
    exists ok p3,
      (if pb_format p then
         '(ok, p1) <- ensure p (pb_depth p) ;;
         if negb ok then Ok (false, p1)
         else p2 <- put p1 0 (tabs (pb_depth p1)) ;; Ok (true, set_offset p2 (pb_offset p2 + pb_depth p2))
       else Ok (true, p)) = Ok (ok, p3) /\ frame p p3 /\
      (room p (zlen T + zlen (ind (pb_format p) (pb_depth p)) + 1) -> ok = true) /\
      (ok = true -> text_at p3 (T ++ ind (pb_format p) (pb_depth p)) /\ pb_depth p3 = pb_depth p /\ grown p p3).
  Proof.
    intros HT Hd. destruct (pb_format p) eqn:Hf.
    - pose proof (zlen_tabs (pb_depth p) Hd) as TL.
      destruct (write_token oracle junk p T (tabs (pb_depth p)) (pb_depth p) HT Hd ltac:(lia)) as (ok1 & p1 & E1 & F1 & C1 & S1).
      rewrite E1. cbn [bind]. destruct ok1; cbn [negb].
      2: { exists false, p1. split; [reflexivity|]. split; [exact F1|]. split; [|discriminate].
           intros R. apply C1. unfold ind in R. rewrite TL in R. exact R. }
      destruct (S1 eq_refl) as (D1 & p2 & E2 & F2 & G2 & D2 & O2 & Len2 & Adv & _).
      rewrite D1, E2. cbn [bind]. eexists true, _. split; [reflexivity|].
      split; [eapply frame_trans; [exact F2|apply frame_set_offset]|]. split; [reflexivity|]. intros _.
      rewrite D2. rewrite <- TL at 1. unfold ind.
      split; [apply (Adv (tabs (pb_depth p)) []); rewrite app_nil_r; reflexivity|].
      split; [exact D2|]. eapply grown_trans; [exact F2|exact G2|apply grown_set_offset].
    - exists true, p. split; [reflexivity|]. split; [apply frame_refl|]. split; [reflexivity|]. intros _.
      unfold ind. rewrite app_nil_r. split; [exact HT|]. split; [reflexivity|apply grown_refl].
  Qed.

  Definition has_next (l : list node) : bool := match l with [] => false | _ => true end.

  Lemma members_text_cons fmt d k v r :
    members_text fmt d ((k, v) :: r) = member_text fmt d k v (match r with [] => true | _ => false end) ++ members_text fmt d r.
  Proof. reflexivity. Qed.

  Lemma combine_last (next : list node) (ts : list bytes) (f : node -> option bytes) :
    opt_all (map f next) = Some ts ->
    negb (match combine (map n_key next) ts with [] => true | _ => false end) = has_next next.
  Proof.
    destruct next as [|c' n']; cbn [map].
    - intros H. cbn in H. injection H as <-. reflexivity.
    - intros H. apply opt_all_cons in H as (t1 & ts1 & _ & _ & ->). reflexivity.
  Qed.

  Lemma members_spec pv : forall l, Forall (spec_of pv) l -> forallb fields_ok l = true ->
    forall p T, text_at p T -> 0 <= pb_depth p ->
    exists ok p', print_object_members oracle junk pv l p = Ok (ok, p') /\ frame p p' /\
      (ok = true -> exists txts, opt_all (map (render (pb_format p) (pb_depth p)) l) = Some txts /\
                    text_at p' (T ++ members_text (pb_format p) (pb_depth p) (combine (map n_key l) txts)) /\
                    pb_depth p' = pb_depth p /\ grown p p') /\
      (forall txts, opt_all (map (render (pb_format p) (pb_depth p)) l) = Some txts ->
                    room p (zlen T + zlen (members_text (pb_format p) (pb_depth p) (combine (map n_key l) txts)) + 2) -> ok = true).
  Proof.
    induction 1 as [|c next Hc Hnext IH]; intros Hi p T HT Hd.
    - exists true, p. split; [reflexivity|]. split; [apply frame_refl|]. split; [|reflexivity].
      intros _. exists []. split; [reflexivity|]. cbn [map combine members_text]. rewrite app_nil_r.
      split; [exact HT|]. split; [reflexivity|apply grown_refl].
    - cbn [forallb] in Hi. apply andb_true_iff in Hi as (Hi1 & Hi2).
      cbn [print_object_members].
      set (fmt := pb_format p) in *. set (d := pb_depth p) in *.
      (* what the completeness side knows: the text of this member and of the rest *)
      assert (Hsplit : forall txts, opt_all (map (render fmt d) (c :: next)) = Some txts ->
                exists v ts, render fmt d c = Some v /\ opt_all (map (render fmt d) next) = Some ts /\
                  zlen (members_text fmt d (combine (map n_key (c :: next)) txts)) =
                  zlen (ind fmt d) + zlen (render_string (n_key c)) + zlen (col fmt) + zlen v + zlen (tl fmt (has_next next))
                  + zlen (members_text fmt d (combine (map n_key next) ts)) /\ txts = v :: ts).
      { intros txts Ht. cbn [map] in Ht. apply opt_all_cons in Ht as (v & ts & Rv & Hts & ->).
        exists v, ts. split; [exact Rv|]. split; [exact Hts|]. split; [|reflexivity].
        cbn [map combine]. rewrite members_text_cons, member_text_eq, (combine_last next ts _ Hts). rewrite !zlen_app. lia. }
      pose proof (ind_len fmt d Hd) as IL. pose proof (col_len fmt) as CL. pose proof (tl_len fmt (has_next next)) as TLn.
      pose proof (render_string_len (n_key c)) as RL.
      assert (Hpos : forall ts, 0 <= zlen (members_text fmt d (combine (map n_key next) ts))) by (intros; apply zlen_nonneg).
      (* indentation *)
      destruct (indent_step p T HT Hd) as (ok3 & p3 & E3 & F3 & C3 & S3). fold fmt d in E3, C3, S3.
      rewrite E3. cbn [bind]. destruct ok3; cbn [negb].
      2: { exists false, p3. split; [reflexivity|]. split; [exact F3|]. split; [discriminate|].
           intros txts Ht R. destruct (Hsplit txts Ht) as (v & ts & Rv & Hts & Hl & ->).
           apply C3. eapply room_mono; [exact R|]. pose proof (zlen_nonneg v). pose proof (Hpos ts).
           destruct fmt, (has_next next); lia. }
      destruct (S3 eq_refl) as (TA3 & D3 & G3).
      (* key *)
      destruct (print_string_ptr_prints oracle junk (n_key c) p3 _ TA3) as (ok4 & p4 & E4 & F4 & S4 & C4).
      rewrite E4. cbn [bind].
      assert (Fp3 : forall k, room p k -> room p3 k) by (intros k R; eapply room_step; [exact F3|exact G3|exact R]).
      destruct ok4; cbn [negb].
      2: { exists false, p4. split; [reflexivity|]. split; [eapply frame_trans; [exact F3|exact F4]|]. split; [discriminate|].
           intros txts Ht R. destruct (Hsplit txts Ht) as (v & ts & Rv & Hts & Hl & ->).
           apply C4. apply Fp3. eapply room_mono; [exact R|]. pose proof (zlen_nonneg v). pose proof (Hpos ts).
           rewrite zlen_app. destruct fmt, (has_next next); lia. }
      destruct (S4 eq_refl) as (D4 & Dp4 & Len4 & G4).
      destruct (update_offset_spec p4 _ _ D4 (render_string_nz (n_key c))) as (p5 & E5 & P5 & TA5 & _).
      rewrite E5. cbn [bind].
      assert (F5 : frame p p5) by (subst p5; eapply frame_trans; [exact F3|]; eapply frame_trans; [exact F4|apply frame_set_offset]).
      assert (G5 : grown p p5).
      { subst p5. eapply grown_trans; [exact F3|exact G3|]. eapply grown_trans; [exact F4|exact G4|apply grown_set_offset]. }
      assert (D5 : pb_depth p5 = d) by (subst p5; cbn; rewrite Dp4; exact D3).
      pose proof F5 as (Ff5 & _ & _ & _). fold fmt in Ff5. rewrite Ff5.
      (* colon *)
      set (T5 := (T ++ ind fmt d) ++ render_string (n_key c)) in *.
      destruct (write_token oracle junk p5 T5 (col fmt) (if fmt then 2 else 1) TA5 ltac:(destruct fmt; lia) ltac:(lia))
        as (ok6 & p6 & E6 & F6 & C6 & S6).
      rewrite E6. cbn [bind].
      assert (Fp5 : forall k, room p k -> room p5 k) by (intros k R; eapply room_step; [exact F5|exact G5|exact R]).
      destruct ok6; cbn [negb].
      2: { exists false, p6. split; [reflexivity|]. split; [eapply frame_trans; [exact F5|exact F6]|]. split; [discriminate|].
           intros txts Ht R. destruct (Hsplit txts Ht) as (v & ts & Rv & Hts & Hl & ->).
           apply C6. apply Fp5. eapply room_mono; [exact R|]. pose proof (zlen_nonneg v). pose proof (Hpos ts).
           unfold T5. rewrite !zlen_app. destruct fmt, (has_next next); lia. }
      destruct (S6 eq_refl) as (D6 & p7 & E7 & F7 & G7 & D7 & O7 & Len7 & Adv7 & _).
      pose proof F6 as (Ff6 & _ & _ & _). rewrite Ff6, Ff5. fold (col fmt). rewrite E7. cbn [bind].
      rewrite <- CL.
      pose proof (Adv7 (col fmt) [] ltac:(rewrite app_nil_r; reflexivity)) as TA8.
      set (p8 := set_offset p7 (pb_offset p7 + zlen (col fmt))) in *.
      assert (F8 : frame p p8) by (eapply frame_trans; [exact F5|]; eapply frame_trans; [exact F7|apply frame_set_offset]).
      assert (G8 : grown p p8) by (eapply grown_trans; [exact F5|exact G5|]; eapply grown_trans; [exact F7|exact G7|apply grown_set_offset]).
      assert (D8 : pb_depth p8 = d) by (unfold p8; cbn; rewrite D7; exact D5).
      (* value *)
      destruct (Hc Hi1 p8 _ TA8 ltac:(lia)) as (ok9 & p9 & E9 & F9 & S9 & C9).
      pose proof F8 as (Ff8 & _ & _ & _). fold fmt in Ff8. rewrite Ff8, D8 in S9, C9.
      rewrite E9. cbn [bind].
      assert (Fp8 : forall k, room p k -> room p8 k) by (intros k R; eapply room_step; [exact F8|exact G8|exact R]).
      destruct ok9; cbn [negb].
      2: { exists false, p9. split; [reflexivity|]. split; [eapply frame_trans; [exact F8|exact F9]|]. split; [discriminate|].
           intros txts Ht R. destruct (Hsplit txts Ht) as (v & ts & Rv & Hts & Hl & ->).
           apply (C9 v Rv). apply Fp8. eapply room_mono; [exact R|]. pose proof (Hpos ts).
           unfold T5. rewrite !zlen_app. destruct fmt, (has_next next); lia. }
      destruct (S9 eq_refl) as (v & Rv & D9 & Dp9 & Len9 & G9).
      pose proof (render_nz c Hi1 _ _ _ Rv) as Hnz.
      destruct (update_offset_spec p9 _ _ D9 Hnz) as (p10 & E10 & P10 & TA10 & _).
      rewrite E10. cbn [bind].
      assert (F10 : frame p p10) by (subst p10; eapply frame_trans; [exact F8|]; eapply frame_trans; [exact F9|apply frame_set_offset]).
      assert (G10 : grown p p10).
      { subst p10. eapply grown_trans; [exact F8|exact G8|]. eapply grown_trans; [exact F9|exact G9|apply grown_set_offset]. }
      assert (D10 : pb_depth p10 = d) by (subst p10; cbn; exact Dp9).
      pose proof F10 as (Ff10 & _ & _ & _). fold fmt in Ff10. rewrite Ff10.
      (* comma / newline *)
      fold (has_next next).
      set (T10 := (T5 ++ col fmt) ++ v) in *.
      destruct (write_token oracle junk p10 T10 (tl fmt (has_next next) ++ [0])
                  ((if fmt then 1 else 0) + (if has_next next then 1 else 0) + 1) TA10
                  ltac:(destruct fmt, (has_next next); lia) ltac:(rewrite zlen_app, zlen_cons, zlen_nil; lia))
        as (ok11 & p11 & E11 & F11 & C11 & S11).
      rewrite E11. cbn [bind].
      assert (Fp10 : forall k, room p k -> room p10 k) by (intros k R; eapply room_step; [exact F10|exact G10|exact R]).
      destruct ok11; cbn [negb].
      2: { exists false, p11. split; [reflexivity|]. split; [eapply frame_trans; [exact F10|exact F11]|]. split; [discriminate|].
           intros txts Ht R. destruct (Hsplit txts Ht) as (v0 & ts & Rv0 & Hts & Hl & ->).
           rewrite Rv in Rv0. injection Rv0 as <-.
           apply C11. apply Fp10. eapply room_mono; [exact R|]. pose proof (Hpos ts).
           unfold T10, T5. rewrite !zlen_app. destruct fmt, (has_next next); lia. }
      destruct (S11 eq_refl) as (D11 & p12 & E12 & F12 & G12 & D12 & O12 & Len12 & Adv12 & _).
      pose proof F11 as (Ff11 & _ & _ & _). rewrite Ff11, Ff10.
      replace ((if has_next next then [ch_comma] else []) ++ (if fmt then [ch_nl] else []) ++ [0]) with (tl fmt (has_next next) ++ [0])
        by (unfold tl; rewrite <- app_assoc; reflexivity).
      rewrite E12. cbn [bind]. rewrite <- TLn.
      pose proof (Adv12 (tl fmt (has_next next)) [0] eq_refl) as TA13.
      set (p13 := set_offset p12 (pb_offset p12 + zlen (tl fmt (has_next next)))) in *.
      assert (F13 : frame p p13) by (eapply frame_trans; [exact F10|]; eapply frame_trans; [exact F12|apply frame_set_offset]).
      assert (G13 : grown p p13) by (eapply grown_trans; [exact F10|exact G10|]; eapply grown_trans; [exact F12|exact G12|apply grown_set_offset]).
      assert (D13 : pb_depth p13 = d) by (unfold p13; cbn; rewrite D12; exact D10).
      (* the remaining members *)
      destruct (IH Hi2 p13 _ TA13 ltac:(lia)) as (ok14 & p14 & E14 & F14 & S14 & C14).
      pose proof F13 as (Ff13 & _ & _ & _). fold fmt in Ff13. rewrite Ff13, D13 in S14, C14.
      rewrite E14. exists ok14, p14. split; [reflexivity|]. split; [eapply frame_trans; [exact F13|exact F14]|].
      split.
      + intros Hok. destruct (S14 Hok) as (ts & Hts & TA14 & Dp14 & G14).
        exists (v :: ts). split; [cbn [map opt_all]; rewrite Rv, Hts; reflexivity|].
        split; [|split; [exact Dp14|eapply grown_trans; [exact F13|exact G13|exact G14]]].
        cbn [map combine]. rewrite members_text_cons, member_text_eq, (combine_last next ts _ Hts).
        replace (T ++ (ind fmt d ++ render_string (n_key c) ++ col fmt ++ v ++ tl fmt (has_next next)) ++
                 members_text fmt d (combine (map n_key next) ts))
          with ((T10 ++ tl fmt (has_next next)) ++ members_text fmt d (combine (map n_key next) ts))
          by (unfold T10, T5; rewrite <- !app_assoc; reflexivity).
        exact TA14.
      + intros txts Ht R. destruct (Hsplit txts Ht) as (v0 & ts & Rv0 & Hts & Hl & ->).
        rewrite Rv in Rv0. injection Rv0 as <-.
        apply (C14 ts Hts). eapply room_step; [exact F13|exact G13|]. eapply room_mono; [exact R|].
        unfold T10, T5. rewrite !zlen_app. lia.
  Qed.

  (** ---------------------------------------------------------------- containers *)
  Lemma text_at_set_depth p T x : text_at p T -> text_at (set_depth p x) T.
  Proof. intros (rest & (B1 & B2) & O & S). exists rest. repeat split; assumption. Qed.
  Lemma done_set_depth p T t x : done p T t -> done (set_depth p x) T t.
  Proof. intros (rest & (B1 & B2) & O). exists rest. repeat split; try assumption; apply O. Qed.
  Lemma done_reassoc p T a b : done p (T ++ a) b -> done p T (a ++ b).
  Proof.
    intros (rest & (B1 & B2) & O). exists rest. split; [split|].
    - rewrite B1. f_equal. rewrite <- !app_assoc. reflexivity.
    - rewrite !zlen_app in *. lia.
    - rewrite !zlen_app in *. pose proof (zlen_nonneg a). lia.
  Qed.

  Lemma array_spec pv ch : Forall (spec_of pv) ch -> forallb fields_ok ch = true ->
    forall p T, text_at p T -> 0 <= pb_depth p ->
    exists ok p', print_array oracle junk pv ch p = Ok (ok, p') /\ frame p p' /\
      (ok = true -> exists txts, opt_all (map (render (pb_format p) (pb_depth p + 1)) ch) = Some txts /\
                    done p' T ([ch_lbrack] ++ join (sep_of (pb_format p)) txts ++ [ch_rbrack]) /\ pb_depth p' = pb_depth p /\
                    zlen T + zlen ([ch_lbrack] ++ join (sep_of (pb_format p)) txts ++ [ch_rbrack]) + 2 <= pb_length p' /\ grown p p') /\
      (forall txts, opt_all (map (render (pb_format p) (pb_depth p + 1)) ch) = Some txts ->
                    room p (zlen T + zlen ([ch_lbrack] ++ join (sep_of (pb_format p)) txts ++ [ch_rbrack]) + 2) -> ok = true).
  Proof.
    intros Hch Hi p T HT Hd. unfold print_array.
    set (fmt := pb_format p) in *. set (d := pb_depth p) in *.
    assert (Hlen : forall txts : list bytes, zlen ([ch_lbrack] ++ join (sep_of fmt) txts ++ [ch_rbrack]) = zlen (join (sep_of fmt) txts) + 2).
    { intros. rewrite !zlen_app, !zlen_cons, zlen_nil. lia. }
    destruct (write_token oracle junk p T [ch_lbrack] 1 HT ltac:(lia) ltac:(unfold zlen; cbn; lia)) as (ok1 & p1 & E1 & F1 & C1 & S1).
    rewrite E1. cbn [bind]. destruct ok1; cbn [negb].
    2: { exists false, p1. split; [reflexivity|]. split; [exact F1|]. split; [discriminate|].
         intros txts _ R. apply C1. eapply room_mono; [exact R|]. rewrite Hlen. pose proof (zlen_nonneg (join (sep_of fmt) txts)). lia. }
    destruct (S1 eq_refl) as (D1 & p2 & E2 & F2 & G2 & D2 & O2 & Len2 & Adv2 & _).
    rewrite E2. cbn [bind].
    pose proof (Adv2 [ch_lbrack] [] eq_refl) as TA3. change (zlen [ch_lbrack]) with 1 in TA3.
    apply (text_at_set_depth _ _ (pb_depth p2 + 1)) in TA3.
    set (p3 := set_depth (set_offset p2 (pb_offset p2 + 1)) (pb_depth p2 + 1)) in *.
    assert (F3 : frame p p3) by (eapply frame_trans; [exact F2|]; eapply frame_trans; [apply frame_set_offset|apply frame_set_depth]).
    assert (G3 : grown p p3) by (eapply grown_trans; [exact F2|exact G2|split; [cbn; lia|intros _; repeat split]]).
    assert (D3 : pb_depth p3 = d + 1) by (unfold p3; cbn; rewrite D2; reflexivity).
    destruct (elements_spec pv ch Hch Hi p3 _ TA3 ltac:(lia)) as (ok4 & p4 & E4 & F4 & S4 & C4).
    pose proof F3 as (Ff3 & _ & _ & _). fold fmt in Ff3. rewrite Ff3, D3 in S4, C4.
    rewrite E4. cbn [bind].
    destruct ok4; cbn [negb].
    2: { exists false, p4. split; [reflexivity|]. split; [eapply frame_trans; [exact F3|exact F4]|]. split; [discriminate|].
         intros txts Ht R. apply (C4 txts Ht). eapply room_step; [exact F3|exact G3|]. eapply room_mono; [exact R|].
         rewrite Hlen, zlen_app, zlen_cons, zlen_nil. lia. }
    destruct (S4 eq_refl) as (txts & Ht & TA4 & D4 & G4).
    destruct (write_token oracle junk p4 _ [ch_rbrack; 0] 2 TA4 ltac:(lia) ltac:(unfold zlen; cbn; lia)) as (ok5 & p5 & E5 & F5 & C5 & S5).
    rewrite E5. cbn [bind].
    assert (F4' : frame p p4) by (eapply frame_trans; [exact F3|exact F4]).
    assert (G4' : grown p p4) by (eapply grown_trans; [exact F3|exact G3|exact G4]).
    destruct ok5; cbn [negb].
    2: { exists false, p5. split; [reflexivity|]. split; [eapply frame_trans; [exact F4'|exact F5]|]. split; [discriminate|].
         intros txts' Ht' R. rewrite Ht in Ht'. injection Ht' as <-.
         apply C5. eapply room_step; [exact F4'|exact G4'|]. eapply room_mono; [exact R|].
         rewrite Hlen, !zlen_app, zlen_cons, zlen_nil. lia. }
    destruct (S5 eq_refl) as (D5 & p6 & E6 & F6 & G6 & D6 & O6 & Len6 & _ & Dn6).
    rewrite E6. cbn [bind].
    eexists true, _. split; [reflexivity|]. split; [eapply frame_trans; [exact F4'|]; eapply frame_trans; [exact F6|apply frame_set_depth]|].
    split; [|reflexivity]. intros _. exists txts. split; [exact Ht|].
    split; [apply done_set_depth; apply done_reassoc; apply done_reassoc; apply (Dn6 [ch_rbrack]); reflexivity|].
    split; [cbn; rewrite D6, D4; lia|].
    split; [cbn [pb_length set_depth]; rewrite Hlen; rewrite !zlen_app, zlen_cons, zlen_nil in Len6; lia|].
    eapply grown_trans; [exact F4'|exact G4'|]. eapply grown_trans; [exact F6|exact G6|split; [cbn; lia|intros _; repeat split]].
  Qed.

  Definition opn (fmt : bool) : bytes := [ch_lbrace] ++ (if fmt then [ch_nl] else []).
  Definition object_text (fmt : bool) (d : Z) (keys : list (option bytes)) (txts : list bytes) : bytes :=
    [ch_lbrace] ++ (if fmt then [ch_nl] else []) ++ members_text fmt (d + 1) (combine keys txts)
    ++ (if fmt then tabs d else []) ++ [ch_rbrace].

  Lemma object_spec pv ch : Forall (spec_of pv) ch -> forallb fields_ok ch = true ->
    forall p T, text_at p T -> 0 <= pb_depth p ->
    exists ok p', print_object oracle junk pv ch p = Ok (ok, p') /\ frame p p' /\
      (ok = true -> exists txts, opt_all (map (render (pb_format p) (pb_depth p + 1)) ch) = Some txts /\
                    done p' T (object_text (pb_format p) (pb_depth p) (map n_key ch) txts) /\ pb_depth p' = pb_depth p /\
                    zlen T + zlen (object_text (pb_format p) (pb_depth p) (map n_key ch) txts) + 2 <= pb_length p' /\ grown p p') /\
      (forall txts, opt_all (map (render (pb_format p) (pb_depth p + 1)) ch) = Some txts ->
                    room p (zlen T + zlen (object_text (pb_format p) (pb_depth p) (map n_key ch) txts) + 2) -> ok = true).
  Proof.
    intros Hch Hi p T HT Hd. unfold print_object.
    set (fmt := pb_format p) in *. set (d := pb_depth p) in *.
    pose proof (ind_len fmt d Hd) as IL.
    assert (OL : zlen (opn fmt) = if fmt then 2 else 1) by (destruct fmt; reflexivity).
    assert (Hlen : forall txts : list bytes, zlen (object_text fmt d (map n_key ch) txts) =
                     zlen (opn fmt) + zlen (members_text fmt (d + 1) (combine (map n_key ch) txts)) + zlen (ind fmt d) + 1).
    { intros. unfold object_text, opn, ind. destruct fmt; rewrite ?zlen_app, ?zlen_cons, ?zlen_nil; unfold bytes in *; lia. }
    assert (Hpos : forall txts : list bytes, 0 <= zlen (members_text fmt (d + 1) (combine (map n_key ch) txts))) by (intros; apply zlen_nonneg).
    destruct (write_token oracle junk p T (opn fmt) ((if fmt then 2 else 1) + 1) HT ltac:(destruct fmt; lia) ltac:(lia)) as (ok1 & p1 & E1 & F1 & C1 & S1).
    rewrite E1. cbn [bind]. destruct ok1; cbn [negb].
    2: { exists false, p1. split; [reflexivity|]. split; [exact F1|]. split; [discriminate|].
         intros txts _ R. apply C1. eapply room_mono; [exact R|]. rewrite Hlen. pose proof (Hpos txts). destruct fmt; lia. }
    destruct (S1 eq_refl) as (D1 & p2 & E2 & F2 & G2 & D2 & O2 & Len2 & Adv2 & _).
    pose proof F1 as (Ff1 & _ & _ & _). fold fmt in Ff1. rewrite Ff1. fold (opn fmt). rewrite E2. cbn [bind].
    pose proof (Adv2 (opn fmt) [] ltac:(rewrite app_nil_r; reflexivity)) as TA3. rewrite OL in TA3.
    apply (text_at_set_depth _ _ (pb_depth p2 + 1)) in TA3.
    change (set_depth (set_offset p2 (pb_offset p2 + (if fmt then 2 else 1))) (pb_depth p2 + 1))
      with (set_offset (set_depth p2 (pb_depth p2 + 1)) (pb_offset p2 + (if fmt then 2 else 1))) in TA3.
    set (p3 := set_offset (set_depth p2 (pb_depth p2 + 1)) (pb_offset p2 + (if fmt then 2 else 1))) in *.
    assert (F3 : frame p p3) by (eapply frame_trans; [exact F2|]; eapply frame_trans; [apply frame_set_depth|apply frame_set_offset]).
    assert (G3 : grown p p3) by (eapply grown_trans; [exact F2|exact G2|split; [cbn; lia|intros _; repeat split]]).
    assert (D3 : pb_depth p3 = d + 1) by (unfold p3; cbn; rewrite D2; reflexivity).
    destruct (members_spec pv ch Hch Hi p3 _ TA3 ltac:(lia)) as (ok4 & p4 & E4 & F4 & S4 & C4).
    pose proof F3 as (Ff3 & _ & _ & _). fold fmt in Ff3. rewrite Ff3, D3 in S4, C4.
    rewrite E4. cbn [bind].
    destruct ok4; cbn [negb].
    2: { exists false, p4. split; [reflexivity|]. split; [eapply frame_trans; [exact F3|exact F4]|]. split; [discriminate|].
         intros txts Ht R. apply (C4 txts Ht). eapply room_step; [exact F3|exact G3|]. eapply room_mono; [exact R|].
         rewrite Hlen, zlen_app. pose proof (zlen_nonneg (ind fmt d)). lia. }
    destruct (S4 eq_refl) as (txts & Ht & TA4 & D4 & G4).
    assert (F4' : frame p p4) by (eapply frame_trans; [exact F3|exact F4]).
    assert (G4' : grown p p4) by (eapply grown_trans; [exact F3|exact G3|exact G4]).
    pose proof F4' as (Ff4 & _ & _ & _). fold fmt in Ff4. rewrite Ff4, D4.
    destruct (write_token oracle junk p4 _ (ind fmt d ++ [ch_rbrace; 0]) (if fmt then d + 1 + 1 else 2) TA4
                ltac:(destruct fmt; lia) ltac:(rewrite zlen_app, IL; change (zlen [ch_rbrace; 0]) with 2; destruct fmt; lia)) as (ok5 & p5 & E5 & F5 & C5 & S5).
    rewrite E5. cbn [bind].
    destruct ok5; cbn [negb].
    2: { exists false, p5. split; [reflexivity|]. split; [eapply frame_trans; [exact F4'|exact F5]|]. split; [discriminate|].
         intros txts' Ht' R. rewrite Ht in Ht'. injection Ht' as <-.
         apply C5. eapply room_step; [exact F4'|exact G4'|]. eapply room_mono; [exact R|].
         rewrite Hlen, !zlen_app, IL. destruct fmt; lia. }
    destruct (S5 eq_refl) as (D5 & p6 & E6 & F6 & G6 & D6 & O6 & Len6 & _ & Dn6).
    pose proof F5 as (Ff5 & _ & _ & _). rewrite Ff5, Ff4, D5, D4.
    replace ((if fmt then tabs (d + 1 - 1) else []) ++ [ch_rbrace; 0]) with (ind fmt d ++ [ch_rbrace; 0])
      by (unfold ind; replace (d + 1 - 1) with d by lia; reflexivity).
    rewrite E6. cbn [bind].
    eexists true, _. split; [reflexivity|]. split; [eapply frame_trans; [exact F4'|]; eapply frame_trans; [exact F6|apply frame_set_depth]|].
    split; [|reflexivity]. intros _. exists txts. split; [exact Ht|].
    split.
    { apply done_set_depth. unfold object_text.
      apply done_reassoc, done_reassoc, done_reassoc.
      replace (((T ++ [ch_lbrace]) ++ (if fmt then [ch_nl] else [])) ++ members_text fmt (d + 1) (combine (map n_key ch) txts))
        with ((T ++ opn fmt) ++ members_text fmt (d + 1) (combine (map n_key ch) txts))
        by (unfold opn; rewrite <- !app_assoc; reflexivity).
      apply (Dn6 (ind fmt d ++ [ch_rbrace])). rewrite <- app_assoc. reflexivity. }
    split; [cbn [pb_depth set_depth]; rewrite D6, D4; lia|].
    split; [cbn [pb_length set_depth]; rewrite Hlen; rewrite !zlen_app in Len6; rewrite IL; destruct fmt; lia|].
    eapply grown_trans; [exact F4'|exact G4'|]. eapply grown_trans; [exact F6|exact G6|split; [cbn; lia|intros _; repeat split]].
  Qed.

  (** ---------------------------------------------------------------- print_value *)
  Lemma prints_spec (f : printbuffer -> res (bool * printbuffer)) (txt : bytes) p T :
    prints f txt -> text_at p T ->
    exists ok p', f p = Ok (ok, p') /\ frame p p' /\
      (ok = true -> exists t, Some txt = Some t /\ done p' T t /\ pb_depth p' = pb_depth p /\ zlen T + zlen t + 2 <= pb_length p' /\ grown p p') /\
      (forall t, Some txt = Some t -> room p (zlen T + zlen t + 2) -> ok = true).
  Proof.
    intros Hp HT. destruct (Hp p T HT) as (ok & p' & E & F & S & C). exists ok, p'. split; [exact E|]. split; [exact F|].
    split; [intros Hok; exists txt; split; [reflexivity|apply S; exact Hok]|]. intros t [= <-]. exact C.
  Qed.

  Lemma fails_spec p T :
    exists ok p', @Ok (bool * printbuffer) (false, p) = Ok (ok, p') /\ frame p p' /\
      (ok = true -> exists t, @None bytes = Some t /\ done p' T t /\ pb_depth p' = pb_depth p /\ zlen T + zlen t + 2 <= pb_length p' /\ grown p p') /\
      (forall t, @None bytes = Some t -> room p (zlen T + zlen t + 2) -> ok = true).
  Proof. exists false, p. split; [reflexivity|]. split; [apply frame_refl|]. split; [discriminate|]. intros t H; discriminate. Qed.

  Theorem print_value_spec : forall n, spec_of print_value n.
  Proof.
    induction n as [t s i dv k cs IH] using node_ind'. intros Hi p T HT Hd.
    cbn [fields_ok] in Hi. apply andb_true_iff in Hi as (Hi1 & Hi2). apply andb_true_iff in Hi1 as (Hi1 & Hiv).
    cbn [PrintDefs.print_value PrintDefs.render].
    destruct (tymask t =? c_cJSON_NULL); [apply (prints_spec (fun p => print_literal oracle junk p 5 lit_null)); [apply print_literal_prints; reflexivity|exact HT]|].
    destruct (tymask t =? c_cJSON_False); [apply (prints_spec (fun p => print_literal oracle junk p 6 lit_false)); [apply print_literal_prints; reflexivity|exact HT]|].
    destruct (tymask t =? c_cJSON_True); [apply (prints_spec (fun p => print_literal oracle junk p 5 lit_true)); [apply print_literal_prints; reflexivity|exact HT]|].
    destruct (tymask t =? c_cJSON_Number).
    { destruct (number_text_props i dv Hi1 Hiv) as (_ & Hl).
      destruct (Z.ltb_spec (c_NUMBER_BUFFER_SIZE - 1) (zlen (number_text i dv))) as [h|_]; [lia|].
      apply (prints_spec (print_number i dv)); [apply print_number_prints; assumption|exact HT]. }
    destruct (tymask t =? c_cJSON_Raw).
    { destruct s as [s0|]; [|apply fails_spec].
      apply (prints_spec (fun p => print_literal oracle junk p (zlen (cstr s0) + 1) (cstr s0))); [apply print_literal_prints; reflexivity|exact HT]. }
    destruct (tymask t =? c_cJSON_String); [apply (prints_spec (print_string_ptr oracle junk s)); [apply print_string_ptr_prints|exact HT]|].
    destruct (tymask t =? c_cJSON_Array).
    { destruct (array_spec print_value cs IH Hi2 p T HT Hd) as (ok & p' & E & F & S & C).
      exists ok, p'. split; [exact E|]. split; [exact F|]. split.
      - intros Hok. destruct (S Hok) as (txts & Ht & R). rewrite Ht. eexists. split; [reflexivity|exact R].
      - intros txt. destruct (opt_all (map (render (pb_format p) (pb_depth p + 1)) cs)) as [txts|]; [|discriminate].
        intros [= <-]. apply (C txts eq_refl). }
    destruct (tymask t =? c_cJSON_Object); [|apply fails_spec].
    destruct (object_spec print_value cs IH Hi2 p T HT Hd) as (ok & p' & E & F & S & C).
    exists ok, p'. split; [exact E|]. split; [exact F|]. split.
    - intros Hok. destruct (S Hok) as (txts & Ht & R). rewrite Ht. eexists. split; [reflexivity|exact R].
    - intros txt. destruct (opt_all (map (render (pb_format p) (pb_depth p + 1)) cs)) as [txts|]; [|discriminate].
      intros [= <-]. apply (C txts eq_refl).
  Qed.

  (** ---------------------------------------------------------------- entry points *)
  Notation cJSON_PrintPreallocated := (PrintDefs.cJSON_PrintPreallocated fmt_d fmt_g15 fmt_g17 sscanf_lg oracle junk).
  Notation cJSON_PrintBuffered := (PrintDefs.cJSON_PrintBuffered fmt_d fmt_g15 fmt_g17 sscanf_lg oracle junk).
  Notation print := (PrintDefs.print fmt_d fmt_g15 fmt_g17 sscanf_lg oracle junk).

  Lemma cstr_checked_app txt rest : nz txt -> cstr_checked (txt ++ 0 :: rest) = Ok txt.
  Proof.
    induction 1 as [|c s Hc Hs IH]; cbn [app cstr_checked]; [reflexivity|].
    destruct (Z.eqb_spec c 0); [contradiction|]. rewrite IH. reflexivity.
  Qed.

  (** cJSON_PrintPreallocated on a caller buffer of exactly [zlen buf] bytes with arbitrary contents *)
  Theorem prealloc_spec (t : node) (buf : bytes) (fmt hr : bool) :
    fields_ok t = true ->
    exists r, cJSON_PrintPreallocated t (Some buf) (zlen buf) fmt hr = Ok r /\
      (par_live r = 0 /\ par_requests r = 0%nat /\ exists b', par_buffer r = Some b' /\ zlen b' = zlen buf) /\
      (par_flag r = true -> exists txt rest, render fmt 0 t = Some txt /\ par_buffer r = Some (txt ++ 0 :: rest) /\
                            zlen (txt ++ 0 :: rest) = zlen buf /\ zlen txt + 2 <= zlen buf) /\
      (zlen buf <= c_INT_MAX -> forall txt, render fmt 0 t = Some txt -> zlen txt + 2 <= zlen buf -> par_flag r = true).
  Proof.
    intros Hi. unfold PrintDefs.cJSON_PrintPreallocated.
    pose proof (zlen_nonneg buf) as Hn. destruct (Z.ltb_spec (zlen buf) 0) as [h|_]; [lia|].
    set (p := mkpb (Some buf) (zlen buf) 0 0 true fmt hr 0 0).
    assert (HT : text_at p []).
    { exists buf. split; [split; [reflexivity|cbn; rewrite zlen_nil; lia]|]. split; [reflexivity|]. cbn. lia. }
    destruct (print_value_spec t Hi p [] HT ltac:(cbn; lia)) as (ok & p' & E & F & S & C).
    rewrite E. cbn [bind]. eexists. split; [reflexivity|]. cbn [par_flag par_buffer par_live par_requests].
    split.
    { (* success or not: the allocator was never called and the block is still the caller's n bytes *)
      destruct F as (_ & _ & _ & Q). destruct (Q eq_refl) as (q1 & q2 & q3).
      split; [exact q2|]. split; [exact q1|].
      unfold blen in q3. cbn [pb_buf p] in q3. destruct (pb_buf p') as [b'|]; [exists b'; split; [reflexivity|exact q3]|].
      pose proof (zlen_nonneg buf). lia. }
    split.
    - intros Hok. destruct (S Hok) as (txt & R & (rest & (B1 & B2) & O) & _ & Len & (_ & G)). destruct (G eq_refl) as (g1 & _).
      exists txt, rest. cbn [app] in B1, B2. change (zlen (@nil Z)) with 0 in Len. change (pb_length p) with (zlen buf) in g1.
      split; [exact R|]. split; [exact B1|]. rewrite zlen_app. split; lia.
    - intros Hmax txt R Hfit. apply (C txt R). split; [rewrite zlen_nil; lia|]. left. split; [reflexivity|]. cbn. rewrite zlen_nil. lia.
  Qed.

  Lemma room_alloc (p : printbuffer) k :
    pb_noalloc p = false -> (forall i, oracle i = false) -> k <= c_INT_MAX -> room p k.
  Proof. intros H1 H2 H3. split; [exact H3|]. right. split; assumption. Qed.

  (** print (cJSON_Print / cJSON_PrintUnformatted): for EVERY allocation schedule the call stays in its
      blocks, and what it returns is exactly the rendered text with its terminator; with no failing
      request (and a text below INT_MAX) it does return it — whatever the allocator configuration
      and the contents of fresh memory *)
  Theorem print_spec (t : node) (fmt hr : bool) :
    fields_ok t = true ->
    exists r, print t fmt hr = Ok r /\
      (forall block, prr_block r = Some block -> exists txt, render fmt 0 t = Some txt /\ block = txt ++ [0]) /\
      ((forall i, oracle i = false) -> forall txt, render fmt 0 t = Some txt -> zlen txt + 2 <= c_INT_MAX ->
        prr_block r = Some (txt ++ [0])).
  Proof.
    intros Hi. unfold PrintDefs.print, allocate. cbn [pb_req pb_live].
    destruct (oracle 0) eqn:O0.
    { eexists. split; [reflexivity|]. split; [intros block; discriminate|]. intros NF. rewrite NF in O0. discriminate. }
    set (p2 := set_length (set_buf (set_alloc (mkpb None 0 0 0 false fmt hr 0 0) 1 (0 + 1)) (Some (fresh junk c_DEFAULT_BUFFER_SIZE))) c_DEFAULT_BUFFER_SIZE).
    assert (HT : text_at p2 []).
    { exists (fresh junk c_DEFAULT_BUFFER_SIZE). split; [split; [reflexivity|]|split; [reflexivity|]].
      - rewrite fresh_len by (unfold c_DEFAULT_BUFFER_SIZE; lia). reflexivity.
      - rewrite fresh_len by (unfold c_DEFAULT_BUFFER_SIZE; lia). unfold c_DEFAULT_BUFFER_SIZE. lia. }
    destruct (print_value_spec t Hi p2 [] HT ltac:(cbn; lia)) as (ok & p3 & E & F & S & C).
    change (pb_format p2) with fmt in S, C. change (pb_depth p2) with 0 in S, C.
    rewrite E. cbn [bind]. destruct ok; cbn [negb].
    2: { eexists. split; [reflexivity|]. split; [intros block; discriminate|]. intros NF txt R Hsz.
         assert (true = false -> False) by discriminate. exfalso.
         assert (false = true) as X; [|discriminate X]. apply (C txt R). apply room_alloc; [reflexivity|exact NF|rewrite zlen_nil; lia]. }
    destruct (S eq_refl) as (txt & R & D3 & Dp3 & Len3 & G3).
    pose proof (render_nz t Hi _ _ _ R) as Hnz.
    destruct (update_offset_spec p3 [] txt D3 Hnz) as (p4 & E4 & P4 & _ & (rest & B4a & B4b)).
    rewrite E4. cbn [bind]. cbn [app] in B4a, B4b. rewrite B4a.
    assert (O4 : pb_offset p4 = zlen txt) by (subst p4; cbn; rewrite zlen_nil; lia).
    assert (L4 : pb_length p4 = pb_length p3) by (subst p4; reflexivity).
    rewrite zlen_nil in Len3. pose proof (zlen_nonneg txt) as Hz.
    assert (Hfirst : firstn (Z.to_nat (zlen txt + 1)) (txt ++ 0 :: rest) = txt ++ [0]) by apply firstn_app_one.
    destruct hr.
    - (* shrink with realloc *)
      unfold reallocate. destruct (oracle (pb_req p4)) eqn:O5.
      { eexists. split; [reflexivity|]. split; [intros block; discriminate|]. intros NF. rewrite NF in O5. discriminate. }
      rewrite O4, Hfirst.
      assert (Hskip : skipn (length (txt ++ 0 :: rest)) (fresh junk (zlen txt + 1)) = []).
      { apply skipn_all2. pose proof (fresh_len junk (zlen txt + 1) ltac:(lia)) as FL. unfold zlen in *. rewrite app_length. cbn [length]. lia. }
      rewrite Hskip, app_nil_r.
      eexists. split; [reflexivity|]. cbn [prr_block result_of]. split.
      + intros block [= <-]. exists txt. split; [exact R|reflexivity].
      + intros _ txt' R' _. rewrite R in R'. injection R' as <-. reflexivity.
    - (* copy into a block of the exact size *)
      unfold allocate. destruct (oracle (pb_req p4)) eqn:O5.
      { eexists. split; [reflexivity|]. split; [intros block; discriminate|]. intros NF. rewrite NF in O5. discriminate. }
      cbn [pb_length pb_offset set_alloc]. rewrite O4.
      assert (Hmin : Z.min (pb_length p4) (zlen txt + 1) = zlen txt + 1) by lia. rewrite Hmin.
      unfold memcpy0. destruct (Z.leb_spec (zlen txt + 1) 0) as [h|_]; [lia|].
      destruct (Z.ltb_spec (zlen (txt ++ 0 :: rest)) (zlen txt + 1)) as [h|_].
      { rewrite zlen_app, zlen_cons in h. pose proof (zlen_nonneg rest). lia. }
      rewrite Hfirst.
      destruct (wr_bytes_app (txt ++ [0]) [] (fresh junk (zlen txt + 1))) as (rest' & E5 & L5).
      { rewrite fresh_len by lia. rewrite zlen_app, zlen_cons, zlen_nil. lia. }
      change (zlen (@nil Z)) with 0 in E5. cbn [app] in E5. rewrite E5. cbn [bind].
      rewrite fresh_len in L5 by lia. rewrite zlen_app, zlen_cons, zlen_nil in L5.
      assert (rest' = []) by (apply zlen_0_nil; lia). subst rest'. rewrite app_nil_r.
      rewrite (wrz_app txt [] 0 0). cbn [bind].
      eexists. split; [reflexivity|]. cbn [prr_block result_of]. split.
      + intros block [= <-]. exists txt. split; [exact R|reflexivity].
      + intros _ txt' R' _. rewrite R in R'. injection R' as <-. reflexivity.
  Qed.

  (** cJSON_PrintBuffered: the returned block starts with the rendered text and its terminator,
      for every prebuffer >= 0, every allocation schedule, both allocator configurations *)
  Theorem print_buffered_spec (t : node) (prebuffer : Z) (fmt hr : bool) :
    fields_ok t = true -> 0 <= prebuffer ->
    exists r, cJSON_PrintBuffered t prebuffer fmt hr = Ok r /\
      (forall block, prr_block r = Some block -> exists txt rest, render fmt 0 t = Some txt /\ block = txt ++ 0 :: rest) /\
      ((forall i, oracle i = false) -> forall txt, render fmt 0 t = Some txt -> zlen txt + 2 <= c_INT_MAX ->
        exists rest, prr_block r = Some (txt ++ 0 :: rest)).
  Proof.
    intros Hi Hpre. unfold PrintDefs.cJSON_PrintBuffered, allocate. cbn [pb_req pb_live].
    destruct (Z.ltb_spec prebuffer 0) as [h|_]; [lia|].
    destruct (oracle 0) eqn:O0.
    { eexists. split; [reflexivity|]. split; [intros block; discriminate|]. intros NF. rewrite NF in O0. discriminate. }
    set (p2 := set_length (set_buf (set_alloc (mkpb None 0 0 0 false fmt hr 0 0) 1 (0 + 1)) (Some (fresh junk prebuffer))) prebuffer).
    assert (HT : text_at p2 []).
    { exists (fresh junk prebuffer). split; [split; [reflexivity|]|split; [reflexivity|]].
      - rewrite fresh_len by lia. reflexivity.
      - rewrite fresh_len by lia. cbn. lia. }
    destruct (print_value_spec t Hi p2 [] HT ltac:(cbn; lia)) as (ok & p3 & E & F & S & C).
    change (pb_format p2) with fmt in S, C. change (pb_depth p2) with 0 in S, C.
    rewrite E. cbn [bind]. destruct ok; cbn [negb].
    2: { eexists. split; [reflexivity|]. split; [intros block; discriminate|]. intros NF txt R Hsz.
         exfalso. assert (false = true) as X; [|discriminate X]. apply (C txt R). apply room_alloc; [reflexivity|exact NF|rewrite zlen_nil; lia]. }
    destruct (S eq_refl) as (txt & R & (rest & (B1 & B2) & O3) & _).
    cbn [app] in B1. eexists. split; [reflexivity|]. cbn [prr_block result_of]. rewrite B1. split.
    + intros block [= <-]. exists txt, rest. split; [exact R|reflexivity].
    + intros _ txt' R' _. rewrite R in R'. injection R' as <-. exists rest. reflexivity.
  Qed.
End Main.

(** ------------------------------------------------------------------ C09: the statements closed in Properties_C09.v *)
Section C09.
  Variable fmt_d : Z -> bytes.
  Variable fmt_g15 fmt_g17 : dbl -> bytes.
  Variable sscanf_lg : bytes -> option dbl.
  Hypothesis libc : LibcPrintSpec fmt_d fmt_g15 fmt_g17.
  Variable oracle : nat -> bool.
  Variable junk : nat -> Z.
  Notation render := (PrintDefs.render fmt_d fmt_g15 fmt_g17 sscanf_lg).
  Notation prealloc := (PrintDefs.cJSON_PrintPreallocated fmt_d fmt_g15 fmt_g17 sscanf_lg oracle junk).

  (** (1) the outcome is never OOB (no write index >= n, no read outside the buffer) nor OutOfFuel *)
  Lemma C09_no_overflow_proof (t : node) (buf : bytes) (fmt hr : bool) :
    fields_ok t = true -> exists r, prealloc t (Some buf) (zlen buf) fmt hr = Ok r.
  Proof.
    intros Hi. destruct (prealloc_spec fmt_d fmt_g15 fmt_g17 sscanf_lg libc oracle junk t buf fmt hr Hi) as (r & E & _).
    exists r. exact E.
  Qed.

  (** (1') on every path, successful or not, the allocator is never called and the block handed back is
      still the caller's n bytes: nothing outside it can have been touched through the model's state *)
  Lemma C09_caller_block_proof (t : node) (buf : bytes) (fmt hr : bool) r :
    fields_ok t = true -> prealloc t (Some buf) (zlen buf) fmt hr = Ok r ->
    par_live r = 0 /\ par_requests r = 0%nat /\ exists b', par_buffer r = Some b' /\ zlen b' = zlen buf.
  Proof.
    intros Hi E. destruct (prealloc_spec fmt_d fmt_g15 fmt_g17 sscanf_lg libc oracle junk t buf fmt hr Hi) as (r' & E' & Q & _).
    rewrite E in E'. injection E' as <-. exact Q.
  Qed.

  (** (2) true => the buffer (still n bytes) starts with the rendered text and its terminator *)
  Lemma C09_content_proof (t : node) (buf : bytes) (fmt hr : bool) r :
    fields_ok t = true -> prealloc t (Some buf) (zlen buf) fmt hr = Ok r -> par_flag r = true ->
    exists txt rest, render fmt 0 t = Some txt /\ par_buffer r = Some (txt ++ 0 :: rest) /\ zlen (txt ++ 0 :: rest) = zlen buf.
  Proof.
    intros Hi E Hf. destruct (prealloc_spec fmt_d fmt_g15 fmt_g17 sscanf_lg libc oracle junk t buf fmt hr Hi) as (r' & E' & _ & S & _).
    rewrite E in E'. injection E' as <-. destruct (S Hf) as (txt & rest & R & B & L & _). exists txt, rest. auto.
  Qed.

  (** (3) the exact threshold: true <=> the tree is printable and its text plus two bytes fits *)
  Lemma C09_threshold_proof (t : node) (buf : bytes) (fmt hr : bool) r :
    fields_ok t = true -> zlen buf <= c_INT_MAX -> prealloc t (Some buf) (zlen buf) fmt hr = Ok r ->
    (par_flag r = true <-> exists txt, render fmt 0 t = Some txt /\ zlen txt + 2 <= zlen buf).
  Proof.
    intros Hi Hm E. destruct (prealloc_spec fmt_d fmt_g15 fmt_g17 sscanf_lg libc oracle junk t buf fmt hr Hi) as (r' & E' & _ & S & C).
    rewrite E in E'. injection E' as <-. split.
    - intros Hf. destruct (S Hf) as (txt & rest & R & _ & _ & L). exists txt. auto.
    - intros (txt & R & L). exact (C Hm txt R L).
  Qed.

  (** success whenever the buffer is five bytes larger than the text and its terminator *)
  Lemma C09_slack_proof (t : node) (buf : bytes) (fmt hr : bool) r txt :
    fields_ok t = true -> zlen buf <= c_INT_MAX -> prealloc t (Some buf) (zlen buf) fmt hr = Ok r ->
    render fmt 0 t = Some txt -> zlen txt + 1 + 5 <= zlen buf -> par_flag r = true.
  Proof.
    intros Hi Hm E R L. apply (C09_threshold_proof t buf fmt hr r Hi Hm E). exists txt. split; [exact R|lia].
  Qed.
End C09.

(** success is monotone in the buffer length, whatever the two buffers contain, whatever the allocator
    state: the threshold does not mention them *)
Lemma C09_monotone_proof fmt_d fmt_g15 fmt_g17 sscanf_lg (libc : LibcPrintSpec fmt_d fmt_g15 fmt_g17)
      oracle junk oracle' junk' (t : node) (buf buf' : bytes) (fmt hr hr' : bool) r r' :
  fields_ok t = true -> zlen buf <= zlen buf' -> zlen buf' <= c_INT_MAX ->
  cJSON_PrintPreallocated fmt_d fmt_g15 fmt_g17 sscanf_lg oracle junk t (Some buf) (zlen buf) fmt hr = Ok r ->
  cJSON_PrintPreallocated fmt_d fmt_g15 fmt_g17 sscanf_lg oracle' junk' t (Some buf') (zlen buf') fmt hr' = Ok r' ->
  par_flag r = true -> par_flag r' = true.
Proof.
  intros Hi Hle Hm E E' Hf.
  apply (C09_threshold_proof fmt_d fmt_g15 fmt_g17 sscanf_lg libc oracle junk t buf fmt hr r Hi ltac:(lia) E) in Hf as (txt & R & L).
  apply (C09_threshold_proof fmt_d fmt_g15 fmt_g17 sscanf_lg libc oracle' junk' t buf' fmt hr' r' Hi Hm E'). exists txt. split; [exact R|lia].
Qed.

(** ------------------------------------------------------------------ non-vacuity *)
(** A libc satisfying [LibcPrintSpec]: the reference conversions of LibcPrint.v behind a run-time
    guard (an output that is not a C string of at most 25 bytes is replaced by "0").  On every
    argument where the reference behaves like a C library the guard is the identity. *)
From CJ Require Import LibcNum LibcPrint.
Definition c_string_25 (s : bytes) : bool := forallb (fun c => negb (c =? 0)) s && (zlen s <=? c_NUMBER_BUFFER_SIZE - 1).
Definition guard (s : bytes) : bytes := if c_string_25 s then s else [48].
Definition guarded_fmt_d (z : Z) : bytes := guard (LibcPrint.fmt_d z).
Definition guarded_fmt_g15 (d : dbl) : bytes := guard (LibcPrint.fmt_g15 d).
Definition guarded_fmt_g17 (d : dbl) : bytes := guard (LibcPrint.fmt_g17 d).

Lemma guard_ok s : Forall (fun c => c <> 0) (guard s) /\ zlen (guard s) <= c_NUMBER_BUFFER_SIZE - 1.
Proof.
  unfold guard. destruct (c_string_25 s) eqn:G.
  - unfold c_string_25 in G. apply andb_true_iff in G as (G1 & G2). apply Z.leb_le in G2. split; [|exact G2].
    apply Forall_forall. intros c Hc. rewrite forallb_forall in G1. specialize (G1 c Hc).
    apply negb_true_iff in G1. apply Z.eqb_neq in G1. exact G1.
  - split; [repeat constructor; lia|reflexivity || (unfold zlen; cbn; unfold c_NUMBER_BUFFER_SIZE; lia)].
Qed.

Lemma guarded_libc_spec : LibcPrintSpec guarded_fmt_d guarded_fmt_g15 guarded_fmt_g17.
Proof. split; intros; apply guard_ok. Qed.

(** a concrete run: {"a":[1.5,"x\n"],"b":-7} printed formatted into a 40-byte buffer full of 0xA5 *)
Definition nv_tree : node :=
  Node c_cJSON_Object None 0 (S754_zero false) None
    [ Node c_cJSON_Array None 0 (S754_zero false) (Some [97])
        [ Node c_cJSON_Number None 1 (S754_finite false 6755399441055744 (-52)) None [];
          Node c_cJSON_String (Some [120; 10]) 0 (S754_zero false) None [] ];
      Node c_cJSON_Number None (-7) (S754_finite true 7881299347898368 (-50)) (Some [98]) [] ].
Definition nv_buffer : bytes := repeat 165 40.
Definition nv_text : bytes :=
  [123; 10; 9; 34; 97; 34; 58; 9; 91; 49; 46; 53; 44; 32; 34; 120; 92; 110; 34; 93; 44; 10; 9; 34; 98; 34; 58; 9; 45; 55; 10; 125].

Lemma C09_nonvacuous_proof :
  fields_ok nv_tree = true /\
  render guarded_fmt_d guarded_fmt_g15 guarded_fmt_g17 sscanf_lg true 0 nv_tree = Some nv_text /\
  exists r, cJSON_PrintPreallocated guarded_fmt_d guarded_fmt_g15 guarded_fmt_g17 sscanf_lg (fun _ => false) (fun _ => 165)
              nv_tree (Some nv_buffer) (zlen nv_buffer) true false = Ok r /\
            par_flag r = true /\ par_buffer r = Some (nv_text ++ 0 :: repeat 165 7).
Proof.
  split; [vm_compute; reflexivity|]. split; [vm_compute; reflexivity|].
  eexists. split; [vm_compute; reflexivity|]. split; reflexivity.
Qed.

(** ------------------------------------------------------------------ F19 on the pinned tree *)
(** The manual-growth branch of ensure as the pinned tree had it: growing an EMPTY buffer (what
    cJSON_PrintBuffered(item, 0, fmt) does under custom hooks) reads one byte from a 0-byte block. *)
Lemma F19_empty_buffer_growth_refuted_pinned :
  ensure_grow_manual_pinned (fun _ => false) (fun _ => 165) (mkpb (Some []) 0 0 0 false false false 1 1) [] 12 = OOB.
Proof. vm_compute. reflexivity. Qed.
