(** CoreRefineHelpers.v — simulation lemmas (C06/C08) for the nine [cJSON_Add<Type>ToObject]
    helpers of CoreDefs.v (cJSON.c: cJSON_AddNullToObject ... cJSON_AddArrayToObject), for an
    ARBITRARY allocation oracle.

    Every helper is   item <~ constructor ;; add_created_to_object object name item   with

        add_created_to_object object name item :=
          ok <~ add_item_to_object object name item false ;;
          if ok then ret item else cJSON_Delete item ;;; ret None.

    PART 0  [created]: what a successful constructor did (a new root [T r d []] with [r = h_next h],
            heap extension [Ext] by the blocks [r :: owned_strs d], no key); [ctor_post]: the two-branch
            result of a constructor in that vocabulary; [undo_clean]: releasing exactly the blocks a
            constructor allocated gives a [clean_failure] of the heap before the constructor ran.
    PART 1  the generic lemmas about   item <~ m ;; add_created_to_object object name item :
            [add_created_sim] (container [p] in the forest, readable name): EITHER every request
            granted, the result is [Some r], the heap encodes
              [spec_add_to_object (spec_create F r d) (Some p) (Some sb) (Some r) false (Some nk)]
            = [F] with the new LAST member [T r (rd_owned_key d nk) []] of [p], [nk] a fresh library
            block holding a copy of the name; OR [None], [clean_failure h h'], [refused oracle h h']
            (the node, its string copy or the key copy was refused; in the last case the created item
            has been deleted again);
            [add_created_null] (NULL object or NULL name): the item is created, the insertion is
            refused, the item is deleted: [None] and [clean_failure h h'] (no request need be refused).
    PART 2  the nine helpers ([cJSON_AddNullToObject_sim] ... [cJSON_AddArrayToObject_sim],
            [..._null]); a NULL string / raw argument ([cJSON_AddStringToObject_null_string]).
    PART 3  non-vacuity: the hypotheses hold on a concrete heap (an object, two caller strings);
            concrete runs of [cJSON_AddStringToObject] with the 1st, 2nd, 3rd request refused and
            with all granted. *)
From CJ Require Import Base Dbl Heap Forest ForestLemmas CoreSpec CoreDefs CoreRefineBase CoreRefine
  CoreRefineDelete CoreRefineReplace CoreRefineMore CoreRefineObject CoreRefineAddObject CoreRefineCreate
  CoreRefineRef CoreRefineArray CoreRefineCreateEx.
From CJ.gen Require Import Constants.
From stdpp Require Import gmap.
Implicit Types (h : heap) (F : forest) (p x y r i b : positive) (d : rdata).

(** * PART 0 *)

Lemma free_order_root r d : free_order [T r d []] = owned_strs d ++ [r].
Proof. unfold free_order. cbn [mbind list_bind free_order_t]. rewrite app_nil_r. reflexivity. Qed.

Lemma old_key_no_key d : rd_key d = None -> old_key d = [].
Proof. intros Hk. unfold old_key. rewrite Hk. by destruct (is_const d). Qed.

Lemma owned_strs_owned_key d nk : rd_key d = None -> owned_strs (rd_owned_key d nk) = owned_strs d ++ [nk].
Proof.
  intros Hk. rewrite (owned_strs_split d), (old_key_no_key d Hk).
  unfold owned_strs. rewrite is_ref_set_key_clear, is_const_set_key_clear. cbn. by rewrite app_nil_r.
Qed.

Lemma Ext_bump h h1 N : Ext h h1 N -> Ext h (bump h1) N.
Proof. intros [A1 A2 A3 A4 A5 A6 A7]. constructor; try done. cbn. lia. Qed.

(** old strings stay readable, with the same contents, in an extension *)
Lemma Ext_Readable h h1 N b : live_below h -> Ext h h1 N -> Readable h b -> Readable h1 b /\ str_at h1 b = str_at h b.
Proof.
  intros LB E (Hl & s & Hs & Hz). pose proof (LB b Hl) as Hlt.
  destruct (ext_below _ _ _ E b Hlt) as [Hstr _]. split.
  - split; [apply (ext_live _ _ _ E); by left|]. exists s. by rewrite Hstr.
  - unfold str_at. by rewrite Hstr.
Qed.

Lemma alloc_str_new_str h (c : bytes) : alloc_str h c = new_str h c.
Proof. reflexivity. Qed.

(** a string stays readable when one more byte block is allocated *)
Lemma new_str_Readable h (c : bytes) b : live_below h -> Readable h b -> Readable (new_str h c) b /\ str_at (new_str h c) b = str_at h b.
Proof.
  intros LB (Hl & s & Hs & Hz). pose proof (LB b Hl) as Hlt. split.
  - split; [cbn; set_solver|]. exists s. cbn. rewrite lookup_insert_ne by lia. done.
  - unfold str_at. cbn. rewrite lookup_insert_ne by lia. done.
Qed.

(** releasing exactly the blocks [N] that were added to [h] (among them the new node [r], the only
    new entry of the node maps): a clean failure of [h] *)
Lemma undo_clean h F hx r (nd : ndata) (N bs : list positive) :
  WF h F -> live_below h -> r = h_next h ->
  Ext h hx N -> h_lnk hx = <[r := (None, None)]> (h_lnk h) -> h_dat hx = <[r := nd]> (h_dat h) ->
  r ∈ N -> (forall b, b ∈ N <-> b ∈ bs) ->
  clean_failure h (free_all bs hx).
Proof.
  intros W LB Hr E Hl Hd HrN Hbs.
  assert (Hge : forall b, b ∈ bs -> (h_next h <= b)%positive).
  { intros b Hb. apply Hbs in Hb. destruct (ext_new _ _ _ E b Hb). lia. }
  apply (clean_failure_intro _ _ F W LB).
  - intros b Hb. assert (Hnb : b ∉ bs) by (intros Hin; pose proof (Hge b Hin); lia).
    assert (Hbr : r <> b) by lia.
    destruct (ext_below _ _ _ E b Hb) as [Hs Ho]. split_and!.
    + rewrite free_all_lnk_lookup by done. rewrite Hl. by rewrite lookup_insert_ne.
    + rewrite free_all_dat_lookup by done. rewrite Hd. by rewrite lookup_insert_ne.
    + rewrite free_all_str_lookup by done. exact Hs.
    + rewrite free_all_own. exact Ho.
    + rewrite free_all_live. rewrite (ext_live _ _ _ E). split.
      * intros [[H1|H1] H2]; [done|]. exfalso. apply Hnb. by apply Hbs.
      * intros H1. split; [by left|done].
  - intros b Hb. destruct (decide (b ∈ bs)) as [Hin|Hnin].
    + split_and!.
      * by apply free_all_lnk_lookup_in.
      * by apply free_all_dat_lookup_in.
      * rewrite free_all_live. tauto.
    + assert (Hbr : r <> b) by (intros <-; apply Hnin; by apply Hbs).
      split_and!.
      * rewrite free_all_lnk_lookup by done. rewrite Hl, lookup_insert_ne by done. by apply (WF_above_lnk _ _ _ W).
      * rewrite free_all_dat_lookup by done. rewrite Hd, lookup_insert_ne by done. by apply (WF_above_dat _ _ _ W).
      * rewrite free_all_live. intros [H1 _]. apply (ext_live _ _ _ E) in H1 as [H1|H1].
        -- pose proof (LB b H1). lia.
        -- apply Hnin. by apply Hbs.
  - rewrite free_all_next. apply (ext_next _ _ _ E).
  - rewrite free_all_req. apply (ext_req _ _ _ E).
  - rewrite free_all_hooks. apply (ext_hooks _ _ _ E).
  - destruct (free_all_trace bs hx) as [e1 ->]. destruct (ext_trace _ _ _ E) as [e2 ->].
    exists (e1 ++ e2). by rewrite app_assoc.
Qed.

Section Helpers.
  Variable oracle : nat -> bool.

  (** what a successful constructor call did: [h1] encodes [F] plus the new root [T (h_next h) d []],
      which owns exactly the blocks allocated during the call and has no key; every request granted *)
  Record created h F h1 d : Prop := mkCreated {
    cr_WF : WF h1 (spec_create F (h_next h) d);
    cr_LB : live_below h1;
    cr_NL : NoLeak h F -> NoLeak h1 (spec_create F (h_next h) d);
    cr_ext : Ext h h1 (h_next h :: owned_strs d);
    cr_lnk : h_lnk h1 = <[h_next h := (None, None)]> (h_lnk h);
    cr_dat : h_dat h1 = <[h_next h := mk_dat d []]> (h_dat h);
    cr_key : rd_key d = None;
    cr_granted : forall k, h_req h <= k < h_req h1 -> oracle k = false
  }.

  (** a constructor call: success with [created], or NULL with a clean failure and a refused request *)
  Definition ctor_post (m : M ptr) h F d h1 : Prop :=
    (m h = Ret (Some (h_next h), h1) /\ created h F h1 d)
    \/ (exists h', m h = Ret (None, h') /\ clean_failure h h' /\ refused oracle h h').

  (** the constructors with one request *)
  Lemma ctor1_ctor_post (m : M ptr) h F d :
    owned_strs d = [] -> rd_key d = None ->
    ctor1_post oracle m h F d -> ctor_post m h F d (new_node h d).
  Proof.
    intros Hs Hk [(Ho & Hrun & W1 & LB1 & NL1)|(Ho & Hrun & Hcf & Hrf)].
    - left. split; [exact Hrun|]. constructor; try done.
      + rewrite Hs. apply Ext_new_node.
      + intros k Hk'. cbn in Hk'. assert (k = h_req h) as -> by lia. exact Ho.
    - right. by exists (bump h).
  Qed.

  (** cJSON_CreateString / cJSON_CreateRaw: two requests *)
  Lemma create_string_like_ctor_post ty h F vb :
    WF h F -> live_below h -> Readable h vb ->
    Z.land ty c_cJSON_IsReference = 0%Z -> Z.land ty c_cJSON_StringIsConst = 0%Z ->
    ctor_post (create_string_like oracle ty (Some vb)) h F (rd_string ty (Pos.succ (h_next h)))
              (new_string h ty (str_at h vb ++ [0%Z])).
  Proof.
    intros W LB HR Hr Hc.
    destruct (create_string_like_sim oracle ty h F vb W LB HR Hr Hc)
      as [(Ho1 & Ho2 & Hrun & W1 & LB1 & NL1 & _)|H]; [left|by right].
    assert (Hs : owned_strs (rd_string ty (Pos.succ (h_next h))) = [Pos.succ (h_next h)]).
    { unfold owned_strs, is_ref, is_const. cbn [rd_type rd_string]. by rewrite Hr, Hc. }
    split; [exact Hrun|]. constructor; try done.
    - rewrite Hs. apply Ext_new_string.
    - intros k Hk. cbn in Hk. destruct (decide (k = h_req h)) as [->|Hne]; [exact Ho1|].
      assert (k = S (h_req h)) as -> by lia. exact Ho2.
  Qed.

  (** the value string of the created node: a readable copy of the argument *)
  Lemma new_string_value ty h vb :
    let h1 := new_string h ty (str_at h vb ++ [0%Z]) in
    Readable h1 (Pos.succ (h_next h)) /\ str_at h1 (Pos.succ (h_next h)) = str_at h vb /\
    h_own h1 !! Pos.succ (h_next h) = Some Lib.
  Proof.
    cbn zeta. split; [|split].
    - split; [cbn; set_solver|]. eexists. cbn. rewrite lookup_insert. split; [done|].
      rewrite existsb_app. cbn. by rewrite orb_true_r.
    - unfold str_at at 1. cbn. rewrite lookup_insert. apply cstr_app_zero.
      unfold str_at. destruct (h_str h !! vb); [apply cstr_nonzero'|constructor].
    - cbn. by rewrite lookup_insert.
  Qed.

  (** * PART 1: the generic helper *)

  (** the result of   item <~ m ;; add_created_to_object (Some p) (Some sb) item   where [m] creates a
      node with data [d] in the heap [h1] *)
  Definition add_helper_post (m : M ptr) h F p (csp : list tree) sb d h1 : Prop :=
    (let r := h_next h in
     let nk := h_next h1 in
     let d' := rd_owned_key d nk in
     let F' := set_children p (csp ++ [T r d' []]) F in
     let h' := upd_maps (new_str h1 (str_at h sb ++ [0%Z])) (heap_lnk_of F') (heap_dat_of F') in
     (forall k, h_req h <= k < h_req h' -> oracle k = false) /\
     spec_add_to_object (spec_create F r d) (Some p) (Some sb) (Some r) false (Some nk) = (F', true) /\
     m h = Ret (Some r, h') /\
     WF h' F' /\ live_below h' /\ (NoLeak h F -> NoLeak h' F') /\
     Readable h' nk /\ str_at h' nk = str_at h sb /\ h_own h' !! nk = Some Lib /\ nk ∉ owned F /\
     (forall b, Readable h1 b -> Readable h' b /\ str_at h' b = str_at h1 b))
    \/ (exists h', m h = Ret (None, h') /\ clean_failure h h' /\ refused oracle h h').

  Lemma run_add_created_none object name h :
    add_created_to_object oracle object name None h = Ret (None, h).
  Proof.
    unfold add_created_to_object.
    rewrite (bindM_Ret _ _ _ _ _ (proj2 (add_item_to_object_refused oracle [] object name None false None h
                                            (or_intror (or_intror (or_introl eq_refl)))))).
    cbn iota. by rewrite (bindM_Ret _ _ _ _ _ (cJSON_Delete_null h)).
  Qed.

  (** deleting the created item again *)
  Lemma delete_created h F h1 d hx :
    WF h F -> live_below h -> created h F h1 d -> hx = h1 \/ hx = bump h1 ->
    exists h', cJSON_Delete (Some (h_next h)) hx = Ret (tt, h') /\ clean_failure h h' /\ h_req h' = h_req hx.
  Proof.
    intros W LB C Hx. destruct C as [W1 LB1 NL1 E1 Hl1 Hd1 Hk Hg].
    set (r := h_next h) in *. set (F1 := spec_create F r d) in *.
    assert (Hrroots : r ∉ roots F).
    { intros Hin. apply (WF_next_notin _ _ W). by apply ids_subseteq_owned, roots_subseteq_ids. }
    assert (Hroot : find_root r F1 = Some (T r d [])).
    { unfold F1, spec_create. rewrite find_root_app_r by done. unfold find_root. cbn. by rewrite bool_decide_eq_true_2. }
    assert (Wx : WF hx F1).
    { destruct Hx as [->| ->]; [done|]. apply (clean_failure_WF _ _ _ W1), clean_failure_bump. }
    destruct (cJSON_Delete_sim _ _ _ _ Wx Hroot) as (_ & Hdel & _ & _).
    rewrite free_order_root in Hdel. eexists. split; [exact Hdel|]. split; [|apply free_all_req].
    apply (undo_clean h F hx r (mk_dat d []) (r :: owned_strs d) (owned_strs d ++ [r]) W LB eq_refl).
    - destruct Hx as [->| ->]; [done|by apply Ext_bump].
    - by destruct Hx as [->| ->].
    - by destruct Hx as [->| ->].
    - by left.
    - intros b. rewrite elem_of_cons, elem_of_app, elem_of_list_singleton. tauto.
  Qed.

  Lemma add_created_sim (m : M ptr) h F d h1 p dp csp sb :
    WF h F -> live_below h ->
    find_tree p F = Some (T p dp csp) -> is_ref dp = false ->
    Readable h sb ->
    ctor_post m h F d h1 ->
    add_helper_post (item <~ m ;; add_created_to_object oracle (Some p) (Some sb) item) h F p csp sb d h1.
  Proof.
    intros W LB Hp Href HR [(Hrun & C)|(h' & Hrun & Hcf & Hrf)]; unfold add_helper_post.
    2:{ right. exists h'. rewrite (bindM_Ret _ _ _ _ _ Hrun). by rewrite run_add_created_none. }
    pose proof C as [W1 LB1 NL1 E1 Hl1 Hd1 Hk Hg].
    set (r := h_next h) in *. set (F1 := spec_create F r d) in *.
    rewrite (bindM_Ret _ _ _ _ _ Hrun). unfold add_created_to_object.
    assert (Hrnot : r ∉ ids F) by (intros Hin; pose proof (WF_ids_fresh _ _ _ W Hin); unfold r in *; lia).
    assert (Hrroots : r ∉ roots F) by (intros Hin; by apply Hrnot, roots_subseteq_ids).
    assert (Hpr : p <> r).
    { intros ->. apply Hrnot. apply find_tree_Some in Hp as [Hp _]. apply elem_of_list_fmap. by exists (T r dp csp). }
    assert (Hroot : find_root r F1 = Some (T r d [])).
    { unfold F1, spec_create. rewrite find_root_app_r by done. unfold find_root. cbn. by rewrite bool_decide_eq_true_2. }
    assert (Hrem : remove_root r F1 = F) by (apply (remove_root_snoc F (T r d [])); done).
    assert (Hp1 : find_tree p (remove_root r F1) = Some (T p dp csp)) by (by rewrite Hrem).
    destruct (Ext_Readable _ _ _ _ LB E1 HR) as [HR1 Hsa1].
    destruct HR1 as (Hlsb & s & Hs1 & Hz1).
    assert (HR1 : Readable h1 sb) by (split; [done|by exists s]).
    assert (Hsat : str_at h sb = cstr s) by (rewrite <- Hsa1; unfold str_at; by rewrite Hs1).
    assert (Hok : old_key d = []) by (by apply old_key_no_key).
    destruct (oracle (h_req h1)) eqn:Ho2.
    - (* the copy of the name is refused: the created item is deleted again *)
      right.
      destruct (add_item_to_object_sim_nomem oracle h1 F1 p r sb d [] W1 Hpr Hroot s HR1 Hs1 Ho2) as (_ & S2 & _).
      rewrite (bindM_Ret _ _ _ _ _ S2). cbn iota.
      destruct (delete_created h F h1 d (bump h1) W LB C (or_intror eq_refl)) as (h' & Hdel & Hcf & Hrq).
      fold r in Hdel. rewrite (bindM_Ret _ _ _ _ _ Hdel). exists h'. split; [reflexivity|]. split; [exact Hcf|].
      exists (h_req h1). rewrite Hrq. cbn. pose proof (ext_req _ _ _ E1). split; [lia|done].
    - left.
      destruct (add_item_to_object_sim_owned oracle h1 F1 p r sb d dp [] csp W1 Hpr Hroot Hp1 Href s HR1 Hs1 Ho2)
        as (S1 & S2 & S3).
      rewrite Hrem in S1, S2, S3. rewrite Hok in S2, S3. cbn [free_all fold_left] in S2, S3.
      rewrite alloc_str_new_str in S2, S3. rewrite <- Hsat in S2, S3.
      cbn zeta. set (nk := h_next h1) in *. set (d' := rd_owned_key d nk) in *.
      set (F' := set_children p (csp ++ [T r d' []]) F) in *.
      set (h2 := new_str h1 (str_at h sb ++ [0%Z])) in *.
      assert (LB2 : live_below h2) by (by apply live_below_new_str).
      assert (Hnkge : (h_next h <= nk)%positive) by apply (ext_next _ _ _ E1).
      split_and!.
      + intros k Hk'. cbn in Hk'. destruct (decide (k = h_req h1)) as [->|Hne]; [exact Ho2|]. apply Hg. lia.
      + exact S1.
      + by rewrite (bindM_Ret _ _ _ _ _ S2).
      + exact S3.
      + by apply live_below_upd_maps.
      + intros NL b Hb.
        assert (Hroot' : find_root r (F ++ [T r d' []]) = Some (T r d' [])) by (apply (find_root_snoc' F (T r d' [])); done).
        assert (Hrem' : remove_root r (F ++ [T r d' []]) = F) by (apply (remove_root_snoc F (T r d' [])); done).
        assert (ND' : NoDup (ids (F ++ [T r d' []]))).
        { rewrite ids_app. cbn. apply NoDup_app. split; [apply W|]. split; [|apply NoDup_singleton].
          intros z Hz Hz'. apply elem_of_list_singleton in Hz' as ->. done. }
        assert (Ho' : owned (set_children p (csp ++ [T r d' []]) (remove_root r (F ++ [T r d' []]))) ≡ₚ owned (F ++ [T r d' []])).
        { apply (owned_move_root' _ r (T r d' []) p dp csp _ ND' Hroot'); [by rewrite Hrem'|by rewrite <- Permutation_cons_append]. }
        rewrite Hrem' in Ho'. fold F' in Ho'. rewrite Ho', owned_snoc_root.
        unfold d'. rewrite (owned_strs_owned_key d nk Hk).
        unfold lib_live in Hb. apply elem_of_filter in Hb as [Hb1 Hb2]. cbn in Hb1, Hb2.
        destruct (decide (b = nk)) as [->|Hn1].
        { apply elem_of_app. left. apply elem_of_cons. right. apply elem_of_app. right. by left. }
        assert (Hb' : b ∈ owned F1).
        { apply (NL1 NL). apply elem_of_filter. fold nk in Hb1. rewrite lookup_insert_ne in Hb1 by done. split; [done|].
          fold nk in Hb2. set_solver. }
        unfold F1, spec_create in Hb'. rewrite owned_snoc_root in Hb'.
        apply elem_of_app in Hb' as [Hb'|Hb']; [|apply elem_of_app; by right].
        apply elem_of_app. left. apply elem_of_cons in Hb' as [->|Hb']; [by left|].
        apply elem_of_cons. right. apply elem_of_app. by left.
      + split; [cbn; set_solver|]. eexists. cbn. rewrite lookup_insert. split; [done|].
        rewrite existsb_app. cbn. by rewrite orb_true_r.
      + unfold str_at at 1. cbn. fold nk. rewrite lookup_insert. rewrite Hsat. apply cstr_app_zero, cstr_nonzero'.
      + cbn. fold nk. by rewrite lookup_insert.
      + intros Hin. pose proof (wf_fresh _ _ W _ Hin). lia.
      + intros b Hb. exact (new_str_Readable h1 _ b LB1 Hb).
  Qed.

  (** NULL object or NULL name: the item is created, not inserted, deleted again *)
  Lemma add_created_null (m : M ptr) h F d h1 object name :
    WF h F -> live_below h -> ctor_post m h F d h1 ->
    object = None \/ name = None ->
    exists h', (item <~ m ;; add_created_to_object oracle object name item) h = Ret (None, h') /\ clean_failure h h'.
  Proof.
    intros W LB [(Hrun & C)|(h' & Hrun & Hcf & Hrf)] Hnull.
    2:{ exists h'. rewrite (bindM_Ret _ _ _ _ _ Hrun). by rewrite run_add_created_none. }
    rewrite (bindM_Ret _ _ _ _ _ Hrun). unfold add_created_to_object.
    assert (Hnull' : object = None \/ name = None \/ Some (h_next h) = None \/ object = Some (h_next h)) by tauto.
    rewrite (bindM_Ret _ _ _ _ _ (proj2 (add_item_to_object_refused oracle [] object name _ false None h1 Hnull'))).
    cbn iota.
    destruct (delete_created h F h1 d h1 W LB C (or_introl eq_refl)) as (h' & Hdel & Hcf & _).
    rewrite (bindM_Ret _ _ _ _ _ Hdel). by exists h'.
  Qed.

  (** * PART 2: the nine helpers *)

  Lemma rd_of_type_key ty : rd_key (rd_of_type ty) = None.
  Proof. reflexivity. Qed.

  Section Nine.
    Context (h : heap) (F : forest).
    Hypothesis W : WF h F.
    Hypothesis LB : live_below h.

    Lemma with_type_ctor_post ty : ctor_post (create_with_type oracle ty) h F (rd_of_type ty) (new_node h (rd_of_type ty)).
    Proof. apply ctor1_ctor_post; [apply owned_strs_of_type|reflexivity|by apply create_with_type_sim]. Qed.
    Lemma number_ctor_post num : ctor_post (cJSON_CreateNumber oracle num) h F (rd_number num) (new_node h (rd_number num)).
    Proof. apply ctor1_ctor_post; [reflexivity|reflexivity|by apply cJSON_CreateNumber_sim]. Qed.

    Section Member.
      Context (p : positive) (dp : rdata) (csp : list tree) (sb : positive).
      Hypothesis Hp : find_tree p F = Some (T p dp csp).
      Hypothesis Href : is_ref dp = false.
      Hypothesis HR : Readable h sb.

      Lemma add_with_type_sim ty :
        add_helper_post (item <~ create_with_type oracle ty ;; add_created_to_object oracle (Some p) (Some sb) item)
                        h F p csp sb (rd_of_type ty) (new_node h (rd_of_type ty)).
      Proof. apply (add_created_sim _ h F _ _ p dp csp sb W LB Hp Href HR), with_type_ctor_post. Qed.

      Lemma cJSON_AddNullToObject_sim :
        add_helper_post (cJSON_AddNullToObject oracle (Some p) (Some sb)) h F p csp sb
                        (rd_of_type c_cJSON_NULL) (new_node h (rd_of_type c_cJSON_NULL)).
      Proof. apply add_with_type_sim. Qed.
      Lemma cJSON_AddTrueToObject_sim :
        add_helper_post (cJSON_AddTrueToObject oracle (Some p) (Some sb)) h F p csp sb
                        (rd_of_type c_cJSON_True) (new_node h (rd_of_type c_cJSON_True)).
      Proof. apply add_with_type_sim. Qed.
      Lemma cJSON_AddFalseToObject_sim :
        add_helper_post (cJSON_AddFalseToObject oracle (Some p) (Some sb)) h F p csp sb
                        (rd_of_type c_cJSON_False) (new_node h (rd_of_type c_cJSON_False)).
      Proof. apply add_with_type_sim. Qed.
      Lemma cJSON_AddBoolToObject_sim (boolean : bool) :
        add_helper_post (cJSON_AddBoolToObject oracle (Some p) (Some sb) boolean) h F p csp sb
                        (rd_of_type (if boolean then c_cJSON_True else c_cJSON_False))
                        (new_node h (rd_of_type (if boolean then c_cJSON_True else c_cJSON_False))).
      Proof. apply add_with_type_sim. Qed.
      Lemma cJSON_AddObjectToObject_sim :
        add_helper_post (cJSON_AddObjectToObject oracle (Some p) (Some sb)) h F p csp sb
                        (rd_of_type c_cJSON_Object) (new_node h (rd_of_type c_cJSON_Object)).
      Proof. apply add_with_type_sim. Qed.
      Lemma cJSON_AddArrayToObject_sim :
        add_helper_post (cJSON_AddArrayToObject oracle (Some p) (Some sb)) h F p csp sb
                        (rd_of_type c_cJSON_Array) (new_node h (rd_of_type c_cJSON_Array)).
      Proof. apply add_with_type_sim. Qed.
      Lemma cJSON_AddNumberToObject_sim (number : dbl) :
        add_helper_post (cJSON_AddNumberToObject oracle (Some p) (Some sb) number) h F p csp sb
                        (rd_number number) (new_node h (rd_number number)).
      Proof. apply (add_created_sim _ h F _ _ p dp csp sb W LB Hp Href HR), number_ctor_post. Qed.

      (** string and raw: the created node owns a fresh copy [Pos.succ (h_next h)] of the text *)
      Lemma add_string_like_sim ty vb :
        Readable h vb -> Z.land ty c_cJSON_IsReference = 0%Z -> Z.land ty c_cJSON_StringIsConst = 0%Z ->
        let h1 := new_string h ty (str_at h vb ++ [0%Z]) in
        add_helper_post (item <~ create_string_like oracle ty (Some vb) ;; add_created_to_object oracle (Some p) (Some sb) item)
                        h F p csp sb (rd_string ty (Pos.succ (h_next h))) h1 /\
        Readable h1 (Pos.succ (h_next h)) /\ str_at h1 (Pos.succ (h_next h)) = str_at h vb /\
        h_own h1 !! Pos.succ (h_next h) = Some Lib.
      Proof.
        intros HRv Hr Hc. cbn zeta. split; [|apply new_string_value].
        apply (add_created_sim _ h F _ _ p dp csp sb W LB Hp Href HR). by apply create_string_like_ctor_post.
      Qed.
      Lemma cJSON_AddStringToObject_sim vb :
        Readable h vb ->
        let h1 := new_string h c_cJSON_String (str_at h vb ++ [0%Z]) in
        add_helper_post (cJSON_AddStringToObject oracle (Some p) (Some sb) (Some vb))
                        h F p csp sb (rd_string c_cJSON_String (Pos.succ (h_next h))) h1 /\
        Readable h1 (Pos.succ (h_next h)) /\ str_at h1 (Pos.succ (h_next h)) = str_at h vb /\
        h_own h1 !! Pos.succ (h_next h) = Some Lib.
      Proof. intros HRv. by apply add_string_like_sim. Qed.
      Lemma cJSON_AddRawToObject_sim vb :
        Readable h vb ->
        let h1 := new_string h c_cJSON_Raw (str_at h vb ++ [0%Z]) in
        add_helper_post (cJSON_AddRawToObject oracle (Some p) (Some sb) (Some vb))
                        h F p csp sb (rd_string c_cJSON_Raw (Pos.succ (h_next h))) h1 /\
        Readable h1 (Pos.succ (h_next h)) /\ str_at h1 (Pos.succ (h_next h)) = str_at h vb /\
        h_own h1 !! Pos.succ (h_next h) = Some Lib.
      Proof. intros HRv. by apply add_string_like_sim. Qed.
    End Member.

    (** NULL object or NULL name: NULL, clean failure (the item was created and deleted again) *)
    Section Null.
      Context (object name : ptr).
      Hypothesis Hnull : object = None \/ name = None.

      Lemma add_with_type_null ty :
        exists h', (item <~ create_with_type oracle ty ;; add_created_to_object oracle object name item) h = Ret (None, h') /\
                   clean_failure h h'.
      Proof. apply (add_created_null _ h F _ _ object name W LB (with_type_ctor_post ty) Hnull). Qed.

      Lemma cJSON_AddNullToObject_null : exists h', cJSON_AddNullToObject oracle object name h = Ret (None, h') /\ clean_failure h h'.
      Proof. apply add_with_type_null. Qed.
      Lemma cJSON_AddTrueToObject_null : exists h', cJSON_AddTrueToObject oracle object name h = Ret (None, h') /\ clean_failure h h'.
      Proof. apply add_with_type_null. Qed.
      Lemma cJSON_AddFalseToObject_null : exists h', cJSON_AddFalseToObject oracle object name h = Ret (None, h') /\ clean_failure h h'.
      Proof. apply add_with_type_null. Qed.
      Lemma cJSON_AddBoolToObject_null (boolean : bool) :
        exists h', cJSON_AddBoolToObject oracle object name boolean h = Ret (None, h') /\ clean_failure h h'.
      Proof. apply add_with_type_null. Qed.
      Lemma cJSON_AddObjectToObject_null : exists h', cJSON_AddObjectToObject oracle object name h = Ret (None, h') /\ clean_failure h h'.
      Proof. apply add_with_type_null. Qed.
      Lemma cJSON_AddArrayToObject_null : exists h', cJSON_AddArrayToObject oracle object name h = Ret (None, h') /\ clean_failure h h'.
      Proof. apply add_with_type_null. Qed.
      Lemma cJSON_AddNumberToObject_null (number : dbl) :
        exists h', cJSON_AddNumberToObject oracle object name number h = Ret (None, h') /\ clean_failure h h'.
      Proof. apply (add_created_null _ h F _ _ object name W LB (number_ctor_post number) Hnull). Qed.
      Lemma cJSON_AddStringToObject_null vb : Readable h vb ->
        exists h', cJSON_AddStringToObject oracle object name (Some vb) h = Ret (None, h') /\ clean_failure h h'.
      Proof.
        intros HRv.
        apply (add_created_null _ h F _ _ object name W LB
                 (create_string_like_ctor_post c_cJSON_String h F vb W LB HRv eq_refl eq_refl) Hnull).
      Qed.
      Lemma cJSON_AddRawToObject_null vb : Readable h vb ->
        exists h', cJSON_AddRawToObject oracle object name (Some vb) h = Ret (None, h') /\ clean_failure h h'.
      Proof.
        intros HRv.
        apply (add_created_null _ h F _ _ object name W LB
                 (create_string_like_ctor_post c_cJSON_Raw h F vb W LB HRv eq_refl eq_refl) Hnull).
      Qed.
    End Null.

    (** NULL string / raw argument (any object, any name): the constructor returns NULL after releasing
        its node, nothing is inserted *)
    Lemma cJSON_AddStringToObject_null_string object name :
      exists h', cJSON_AddStringToObject oracle object name None h = Ret (None, h') /\ clean_failure h h'.
    Proof.
      destruct (cJSON_CreateString_null oracle h F W LB) as (h' & Hrun & Hcf). exists h'.
      unfold cJSON_AddStringToObject. rewrite (bindM_Ret _ _ _ _ _ Hrun). by rewrite run_add_created_none.
    Qed.
    Lemma cJSON_AddRawToObject_null_raw object name :
      exists h', cJSON_AddRawToObject oracle object name None h = Ret (None, h') /\ clean_failure h h'.
    Proof.
      destruct (cJSON_CreateRaw_null oracle h F W LB) as (h' & Hrun & Hcf). exists h'.
      unfold cJSON_AddRawToObject. rewrite (bindM_Ret _ _ _ _ _ Hrun). by rewrite run_add_created_none.
    Qed.
  End Nine.
End Helpers.

(** [add_helper_post] written out (for the property file) *)
Lemma add_helper_post_unfold (oracle : nat -> bool) (m : M ptr) h F p (csp : list tree) (sb : positive) d (h1 : heap) :
  add_helper_post oracle m h F p csp sb d h1 <->
  (let r := h_next h in
   let nk := h_next h1 in
   let d' := rd_owned_key d nk in
   let F' := set_children p (csp ++ [T r d' []]) F in
   let h' := upd_maps (new_str h1 (str_at h sb ++ [0%Z])) (heap_lnk_of F') (heap_dat_of F') in
   (forall k, h_req h <= k < h_req h' -> oracle k = false) /\
   spec_add_to_object (spec_create F r d) (Some p) (Some sb) (Some r) false (Some nk) = (F', true) /\
   m h = Ret (Some r, h') /\
   WF h' F' /\ live_below h' /\ (NoLeak h F -> NoLeak h' F') /\
   Readable h' nk /\ str_at h' nk = str_at h sb /\ h_own h' !! nk = Some Lib /\ nk ∉ owned F /\
   (forall b, Readable h1 b -> Readable h' b /\ str_at h' b = str_at h1 b))
  \/ (exists h', m h = Ret (None, h') /\ clean_failure h h' /\ refused oracle h h').
Proof. reflexivity. Qed.

(** with an allocator that never refuses, every helper succeeds *)
Lemma add_helper_post_total (m : M ptr) h F p (csp : list tree) (sb : positive) d (h1 : heap) :
  add_helper_post never m h F p csp sb d h1 ->
  let r := h_next h in
  let nk := h_next h1 in
  let F' := set_children p (csp ++ [T r (rd_owned_key d nk) []]) F in
  let h' := upd_maps (new_str h1 (str_at h sb ++ [0%Z])) (heap_lnk_of F') (heap_dat_of F') in
  spec_add_to_object (spec_create F r d) (Some p) (Some sb) (Some r) false (Some nk) = (F', true) /\
  m h = Ret (Some r, h') /\ WF h' F' /\ live_below h' /\ (NoLeak h F -> NoLeak h' F') /\
  Readable h' nk /\ str_at h' nk = str_at h sb.
Proof.
  intros [(_ & H1 & H2 & H3 & H4 & H5 & H6 & H7 & _)|(h' & _ & _ & H)]; [done|]. by apply refused_false in H.
Qed.

(** * PART 3: non-vacuity *)

(** [hobj]: the two caller strings of [CoreRefineCreateEx.h1] ("hi" = block 1, "hello" = block 2) and
    an empty object (node 3); one request has been made, so the requests of the next call are
    numbered 1, 2, 3 *)
Definition hobj : heap := heap_after (cJSON_CreateObject never) h1.
Definition Fobj : forest := [T 3 (rd_of_type c_cJSON_Object) []].
Definition refuse_nth (n : nat) : nat -> bool := fun k => Nat.eqb k n.

Lemma hobj_eq : hobj = new_node h1 (rd_of_type c_cJSON_Object).
Proof.
  destruct (create_with_type_total c_cJSON_Object h1 [] WF_h1 live_below_h1) as (H & _).
  unfold hobj, heap_after, cJSON_CreateObject. by rewrite H.
Qed.
Lemma WF_hobj : WF hobj Fobj.
Proof.
  rewrite hobj_eq. destruct (create_with_type_total c_cJSON_Object h1 [] WF_h1 live_below_h1) as (_ & H). exact H.
Qed.
Lemma live_below_hobj : live_below hobj.
Proof. rewrite hobj_eq. apply live_below_new_node, live_below_h1. Qed.
Lemma Readable_hobj_hi : Readable hobj 1.
Proof. rewrite hobj_eq. apply Readable_new_node, Readable_h1_hi. Qed.
Lemma Readable_hobj_hello : Readable hobj 2.
Proof. rewrite hobj_eq. apply Readable_new_node, Readable_h1_hello. Qed.
Lemma find_hobj : find_tree 3 Fobj = Some (T 3 (rd_of_type c_cJSON_Object) []).
Proof. reflexivity. Qed.

(** the helper theorem on this instance, for EVERY oracle: object 3, name "hi", string "hello" *)
Example ex_add_string_any_oracle (oracle : nat -> bool) :
  let h1' := new_string hobj c_cJSON_String (str_at hobj 2 ++ [0%Z]) in
  add_helper_post oracle (cJSON_AddStringToObject oracle (Some 3%positive) (Some 1%positive) (Some 2%positive))
                  hobj Fobj 3 [] 1 (rd_string c_cJSON_String (Pos.succ (h_next hobj))) h1' /\
  Readable h1' (Pos.succ (h_next hobj)) /\ str_at h1' (Pos.succ (h_next hobj)) = str_at hobj 2 /\
  h_own h1' !! Pos.succ (h_next hobj) = Some Lib.
Proof.
  apply (cJSON_AddStringToObject_sim oracle hobj Fobj WF_hobj live_below_hobj 3 (rd_of_type c_cJSON_Object) [] 1
           find_hobj eq_refl Readable_hobj_hi 2 Readable_hobj_hello).
Qed.

(** ... so with the k-th request of the call refused (k = 1: node, 2: copy of the text, 3: copy of the
    name) the result is NULL and the failure is clean *)
Example ex_add_string_refused_clean (n : nat) : 1 <= n <= 3 ->
  exists h', cJSON_AddStringToObject (refuse_nth n) (Some 3%positive) (Some 1%positive) (Some 2%positive) hobj = Ret (None, h') /\
             clean_failure hobj h' /\ WF h' Fobj /\ lib_live h' = lib_live hobj.
Proof.
  intros Hn. destruct (ex_add_string_any_oracle (refuse_nth n)) as [[(Hg & _)|(h' & H1 & H2 & _)] _].
  - exfalso. assert (Hr : h_req hobj = 1) by reflexivity.
    specialize (Hg n). cbn in Hg. rewrite Hr in Hg. specialize (Hg ltac:(lia)). unfold refuse_nth in Hg.
    by rewrite Nat.eqb_refl in Hg.
  - exists h'. split; [exact H1|]. split; [exact H2|]. split.
    + exact (clean_failure_WF _ _ _ WF_hobj H2).
    + exact (clean_failure_lib_live _ _ live_below_hobj H2).
Qed.

(** concrete runs.  Refused: NULL; live set, node maps and strings as before; the trace shows that
    what was allocated during the call was released again *)
Example ex_add_string_refused_1 :
  let m := cJSON_AddStringToObject (refuse_nth 1) (Some 3%positive) (Some 1%positive) (Some 2%positive) in
  let h' := heap_after m hobj in
  result_of m hobj = Some None /\
  elements (h_live h') = elements (h_live hobj) /\ map_to_list (h_lnk h') = map_to_list (h_lnk hobj) /\
  map_to_list (h_dat h') = map_to_list (h_dat hobj) /\ map_to_list (h_str h') = map_to_list (h_str hobj) /\
  h_req h' = 2 /\ h_trace h' = h_trace hobj.
Proof. vm_compute. repeat split. Qed.
Example ex_add_string_refused_2 :
  let m := cJSON_AddStringToObject (refuse_nth 2) (Some 3%positive) (Some 1%positive) (Some 2%positive) in
  let h' := heap_after m hobj in
  result_of m hobj = Some None /\
  elements (h_live h') = elements (h_live hobj) /\ map_to_list (h_lnk h') = map_to_list (h_lnk hobj) /\
  map_to_list (h_dat h') = map_to_list (h_dat hobj) /\ map_to_list (h_str h') = map_to_list (h_str hobj) /\
  h_req h' = 3 /\ h_trace h' = [EvFree 4 LibcFn; EvAlloc 4 LibcFn] ++ h_trace hobj.
Proof. vm_compute. repeat split. Qed.
Example ex_add_string_refused_3 :
  let m := cJSON_AddStringToObject (refuse_nth 3) (Some 3%positive) (Some 1%positive) (Some 2%positive) in
  let h' := heap_after m hobj in
  result_of m hobj = Some None /\
  elements (h_live h') = elements (h_live hobj) /\ map_to_list (h_lnk h') = map_to_list (h_lnk hobj) /\
  map_to_list (h_dat h') = map_to_list (h_dat hobj) /\ map_to_list (h_str h') = map_to_list (h_str hobj) /\
  h_req h' = 4 /\
  h_trace h' = [EvFree 4 LibcFn; EvFree 5 LibcFn; EvAlloc 5 LibcFn; EvAlloc 4 LibcFn] ++ h_trace hobj.
Proof. vm_compute. repeat split. Qed.

(** all granted: node 4 with the text "hello" in block 5 is the member "hi" (key block 6) of object 3 *)
Example ex_add_string_granted :
  let m := cJSON_AddStringToObject never (Some 3%positive) (Some 1%positive) (Some 2%positive) in
  let h' := heap_after m hobj in
  let F' := [T 3 (rd_of_type c_cJSON_Object) [T 4 (rd_owned_key (rd_string c_cJSON_String 5) 6) []]] in
  result_of m hobj = Some (Some 4%positive) /\
  map_to_list (h_lnk h') = map_to_list (heap_lnk_of F') /\ map_to_list (h_dat h') = map_to_list (heap_dat_of F') /\
  str_at h' 5 = [104; 101; 108; 108; 111]%Z /\ str_at h' 6 = [104; 105]%Z /\
  elements (h_live h') = [1; 2; 4; 6; 3; 5]%positive /\
  result_of (cJSON_GetObjectItemCaseSensitive (Some 3%positive) (Some 1%positive)) h' = Some (Some 4%positive) /\
  result_of (cJSON_GetArraySize (Some 3%positive)) h' = Some 1%Z.
Proof. vm_compute. repeat split. Qed.

(** NULL name: the node and the copy of the text are allocated and released again; no request refused *)
Example ex_add_string_null_name :
  let m := cJSON_AddStringToObject never (Some 3%positive) None (Some 2%positive) in
  let h' := heap_after m hobj in
  result_of m hobj = Some None /\
  elements (h_live h') = elements (h_live hobj) /\ map_to_list (h_lnk h') = map_to_list (h_lnk hobj) /\
  map_to_list (h_dat h') = map_to_list (h_dat hobj) /\ map_to_list (h_str h') = map_to_list (h_str hobj) /\
  h_req h' = 3.
Proof. vm_compute. repeat split. Qed.
