(** MergePerm.v — "the same document up to the order of object members at every level" ([dperm]), what it
    preserves, and the value-level compare_json: both operands come back as [dperm] images of themselves
    (any case mode, any trees), and a result [true] (case-sensitive, JSON documents) implies [doc_eq]. *)
From Coq Require Import Permutation Sorted.
From CJ Require Import Base Dbl Tree CompareDefs CompareProofs MergeDefs Rfc7396 MergeLemmas MergeSort.
Local Open Scope Z_scope.

(** every field equal; children related recursively, and reordered only below an object *)
Inductive dperm : node -> node -> Prop :=
| dperm_intro ty vs vi vd k ch mid ch' :
    Forall2 dperm ch mid -> Permutation mid ch' -> (tymask ty <> c_cJSON_Object -> mid = ch') ->
    dperm (Node ty vs vi vd k ch) (Node ty vs vi vd k ch').

Lemma Forall2_refl_in {A} (R : A -> A -> Prop) l : Forall (fun x => R x x) l -> Forall2 R l l.
Proof. induction 1; constructor; assumption. Qed.

Lemma dperm_refl : forall a, dperm a a.
Proof.
  induction a as [ty vs vi vd k ch IH] using node_ind'. apply dperm_intro with (mid := ch); [|reflexivity|reflexivity].
  apply Forall2_refl_in. exact IH.
Qed.

Lemma dperm_inv a b : dperm a b ->
  n_ty a = n_ty b /\ n_vstr a = n_vstr b /\ n_vint a = n_vint b /\ n_vdbl a = n_vdbl b /\ n_key a = n_key b /\
  exists mid, Forall2 dperm (n_children a) mid /\ Permutation mid (n_children b) /\
              (tymask (n_ty a) <> c_cJSON_Object -> mid = n_children b).
Proof. intro H. inversion H; subst. cbn. repeat split; try reflexivity. exists mid. auto. Qed.

Lemma dperm_key a b : dperm a b -> n_key a = n_key b.
Proof. intro H. apply dperm_inv in H. tauto. Qed.
Lemma dperm_ty a b : dperm a b -> n_ty a = n_ty b.
Proof. intro H. apply dperm_inv in H. tauto. Qed.
Lemma dperm_is_type k a b : dperm a b -> is_type k a = is_type k b.
Proof. intro H. unfold is_type. rewrite (dperm_ty _ _ H). reflexivity. Qed.

Lemma dperm_keys l l' : Forall2 dperm l l' -> map n_key l = map n_key l'.
Proof. induction 1 as [|x y l l' H _ IH]; cbn [map]; [reflexivity|]. rewrite (dperm_key _ _ H), IH. reflexivity. Qed.

Lemma dperm_children n mid l : Forall2 dperm (n_children n) mid -> Permutation mid l ->
  (tymask (n_ty n) <> c_cJSON_Object -> mid = l) -> dperm n (mp_set_children n l).
Proof. destruct n as [ty vs vi vd k ch]. cbn [n_children n_ty mp_set_children]. intros. eapply dperm_intro; eassumption. Qed.

Lemma Forall2_perm_swap {A B} (R : A -> B -> Prop) l1 l2 : Permutation l1 l2 -> forall m2, Forall2 R l2 m2 ->
  exists m1, Forall2 R l1 m1 /\ Permutation m1 m2.
Proof.
  induction 1 as [|x l1 l2 Hp IH|x y l|l1 l2 l3 Hp1 IH1 Hp2 IH2]; intros m2 H.
  - inversion H; subst. exists []. split; constructor.
  - inversion H as [|? b ? m2' Hxb Hrest]; subst. destruct (IH _ Hrest) as [m1 [H1 H2]].
    exists (b :: m1). split; constructor; assumption.
  - inversion H as [|? b ? m2' Hxb Hrest]; subst. inversion Hrest as [|? c ? m2'' Hyc Hrest']; subst.
    exists (c :: b :: m2''). split; [constructor; [assumption|constructor; assumption]|apply perm_swap].
  - destruct (IH2 _ H) as [m [H1 H2]]. destruct (IH1 _ H1) as [m' [H3 H4]]. exists m'. split; [assumption|].
    etransitivity; eassumption.
Qed.
Lemma Forall2_perm_swap_l {A B} (R : A -> B -> Prop) l1 l2 : Permutation l1 l2 -> forall m1, Forall2 R l1 m1 ->
  exists m2, Forall2 R l2 m2 /\ Permutation m1 m2.
Proof.
  intros Hp m1 H. destruct (Forall2_perm_swap R l2 l1 (Permutation_sym Hp) m1 H) as [m2 [H1 H2]].
  exists m2. split; [assumption|symmetry; assumption].
Qed.

Lemma Forall2_trans_in {A} (R : A -> A -> Prop) l : Forall (fun x => forall y z, R x y -> R y z -> R x z) l ->
  forall m n, Forall2 R l m -> Forall2 R m n -> Forall2 R l n.
Proof.
  induction 1 as [|x l Hx _ IH]; intros m n H1 H2.
  - inversion H1; subst. inversion H2; subst. constructor.
  - inversion H1; subst. inversion H2; subst. constructor; eauto.
Qed.

Lemma dperm_trans : forall a b c, dperm a b -> dperm b c -> dperm a c.
Proof.
  induction a as [ty vs vi vd k ch IH] using node_ind'. intros b c H1 H2.
  inversion H1 as [? ? ? ? ? ? mid1 chb F1 P1 N1]; subst. inversion H2 as [? ? ? ? ? ? mid2 chc F2 P2 N2]; subst.
  destruct (Z.eq_dec (tymask ty) c_cJSON_Object) as [Eo|Hn].
  - destruct (Forall2_perm_swap dperm mid1 chb P1 mid2 F2) as [m' [F3 P3]].
    apply dperm_intro with (mid := m').
    + apply (Forall2_trans_in dperm ch IH mid1 m'); assumption.
    + etransitivity; eassumption.
    + intro Hn. contradiction.
  - specialize (N1 Hn). specialize (N2 Hn). subst chb. subst chc.
    apply dperm_intro with (mid := mid2); [|reflexivity|reflexivity].
    apply (Forall2_trans_in dperm ch IH mid1 mid2); assumption.
Qed.

Lemma Forall2_dperm_refl l : Forall2 dperm l l.
Proof. apply Forall2_refl_in. apply Forall_forall. intros. apply dperm_refl. Qed.

(** * compare_json returns both operands as dperm images (any case mode, any trees) *)
Definition cmp_dperm (cmp : node -> node -> res (bool * node * node)) : Prop :=
  forall x y r x' y', cmp x y = Ok (r, x', y') -> dperm x x' /\ dperm y y'.

Lemma arr_walk_dperm cmp : cmp_dperm cmp -> forall la lb r la' lb',
  mp_arr_walk cmp la lb = Ok (r, la', lb') -> Forall2 dperm la la' /\ Forall2 dperm lb lb'.
Proof.
  intros Hc. induction la as [|x la IH]; intros [|y lb] r la' lb' H; cbn [mp_arr_walk] in H.
  - injection H as <- <- <-. split; constructor.
  - injection H as <- <- <-. split; apply Forall2_dperm_refl.
  - injection H as <- <- <-. split; apply Forall2_dperm_refl.
  - destruct (cmp x y) as [[[r0 x'] y']| |] eqn:E; cbn [bind] in H; try discriminate.
    destruct (Hc _ _ _ _ _ E) as [Dx Dy]. destruct r0.
    + destruct (mp_arr_walk cmp la lb) as [[[r2 la2] lb2]| |] eqn:E2; cbn [bind] in H; try discriminate.
      injection H as <- <- <-. destruct (IH _ _ _ _ E2) as [D1 D2]. split; constructor; assumption.
    + injection H as <- <- <-. split; constructor; try assumption; apply Forall2_dperm_refl.
Qed.

Lemma obj_walk_dperm cmp cs : cmp_dperm cmp -> forall la lb r la' lb',
  mp_obj_walk cmp cs la lb = Ok (r, la', lb') -> Forall2 dperm la la' /\ Forall2 dperm lb lb'.
Proof.
  intros Hc. induction la as [|x la IH]; intros [|y lb] r la' lb' H; cbn [mp_obj_walk] in H.
  - injection H as <- <- <-. split; constructor.
  - injection H as <- <- <-. split; apply Forall2_dperm_refl.
  - injection H as <- <- <-. split; apply Forall2_dperm_refl.
  - destruct (negb (mp_compare_strings (n_key x) (n_key y) cs =? 0)).
    { injection H as <- <- <-. split; apply Forall2_dperm_refl. }
    destruct (cmp x y) as [[[r0 x'] y']| |] eqn:E; cbn [bind] in H; try discriminate.
    destruct (Hc _ _ _ _ _ E) as [Dx Dy]. destruct r0.
    + destruct (mp_obj_walk cmp cs la lb) as [[[r2 la2] lb2]| |] eqn:E2; cbn [bind] in H; try discriminate.
      injection H as <- <- <-. destruct (IH _ _ _ _ E2) as [D1 D2]. split; constructor; assumption.
    + injection H as <- <- <-. split; constructor; try assumption; apply Forall2_dperm_refl.
Qed.

Lemma dperm_sorted_children n s l : Permutation (n_children n) s -> Forall2 dperm s l ->
  tymask (n_ty n) = c_cJSON_Object -> dperm n (mp_set_children n l).
Proof.
  intros Hp Hf Ho. destruct (Forall2_perm_swap dperm _ _ Hp _ Hf) as [mid [H1 H2]].
  apply (dperm_children n mid l H1 H2). intro Hn. contradiction.
Qed.

Lemma compare_json_dperm cs : forall fuel, cmp_dperm (mp_compare_json fuel cs).
Proof.
  induction fuel as [|f IH]; intros a b r a' b' H; [discriminate|].
  cbn [mp_compare_json] in H.
  destruct (negb (tymask (n_ty a) =? tymask (n_ty b))) eqn:Et; [injection H as <- <- <-; split; apply dperm_refl|].
  apply negb_false_iff in Et. apply Z.eqb_eq in Et.
  destruct (tymask (n_ty a) =? c_cJSON_Number); [injection H as <- <- <-; split; apply dperm_refl|].
  destruct (tymask (n_ty a) =? c_cJSON_String).
  { destruct (n_vstr a), (n_vstr b); try discriminate. injection H as <- <- <-. split; apply dperm_refl. }
  destruct (Z.eqb_spec (tymask (n_ty a)) c_cJSON_Array) as [Ea|_].
  { destruct (mp_arr_walk (mp_compare_json f cs) (n_children a) (n_children b)) as [[[r0 la] lb]| |] eqn:E; cbn [bind] in H; try discriminate.
    injection H as <- <- <-. destruct (arr_walk_dperm _ IH _ _ _ _ _ E) as [D1 D2]. split.
    - apply (dperm_children a la la D1); [reflexivity|reflexivity].
    - apply (dperm_children b lb lb D2); [reflexivity|reflexivity]. }
  destruct (Z.eqb_spec (tymask (n_ty a)) c_cJSON_Object) as [Eo|_]; [|injection H as <- <- <-; split; apply dperm_refl].
  destruct (mp_sort_members cs (n_children a)) as [sa| |] eqn:Esa; cbn [bind] in H; try discriminate.
  destruct (mp_sort_members cs (n_children b)) as [sb| |] eqn:Esb; cbn [bind] in H; try discriminate.
  destruct (mp_obj_walk (mp_compare_json f cs) cs sa sb) as [[[r0 la] lb]| |] eqn:E; cbn [bind] in H; try discriminate.
  injection H as <- <- <-. destruct (obj_walk_dperm _ cs IH _ _ _ _ _ E) as [D1 D2].
  apply sort_members_perm in Esa. apply sort_members_perm in Esb. split.
  - apply (dperm_sorted_children a sa la); assumption.
  - apply (dperm_sorted_children b sb lb); [assumption|assumption|]. rewrite <- Et. exact Eo.
Qed.

(** * generate_merge_patch returns both inputs as dperm images (any case mode, any trees) *)
Definition gen_dperm (gen : node -> node -> res (option node * node * node)) : Prop :=
  forall x y p x' y', gen x y = Ok (p, x', y') -> dperm x x' /\ dperm y y'.

Section WalkEq.
  Variable cmp : node -> node -> res (bool * node * node).
  Variable gen : node -> node -> res (option node * node * node).
  Lemma gen_walk_nil_nil : mp_gen_walk cmp gen [] [] = Ok ([], [], []).
  Proof. reflexivity. Qed.
  Lemma gen_walk_nil_cons tc tr : mp_gen_walk cmp gen [] (tc :: tr) =
    ('(p, fl2, tl2) <- mp_gen_walk cmp gen [] tr ;;
     Ok (mp_add_member [] (n_key tc) (mp_dup_rec 0 tc) ++ p, fl2, tc :: tl2)).
  Proof. reflexivity. Qed.
  Lemma gen_walk_cons_nil fc fr : mp_gen_walk cmp gen (fc :: fr) [] =
    ('(p, fl2, tl2) <- mp_gen_walk cmp gen fr [] ;;
     Ok (mp_add_member [] (n_key fc) (Some mp_CreateNull) ++ p, fc :: fl2, tl2)).
  Proof. reflexivity. Qed.
  Lemma gen_walk_cons_cons fc fr tc tr : mp_gen_walk cmp gen (fc :: fr) (tc :: tr) =
    match n_key fc, n_key tc with
    | Some kf, Some kt =>
        if strcmp kf kt <? 0 then
          '(p, fl2, tl2) <- mp_gen_walk cmp gen fr (tc :: tr) ;;
          Ok (mp_add_member [] (n_key fc) (Some mp_CreateNull) ++ p, fc :: fl2, tl2)
        else if 0 <? strcmp kf kt then
          '(p, fl2, tl2) <- mp_gen_walk cmp gen (fc :: fr) tr ;;
          Ok (mp_add_member [] (n_key tc) (mp_dup_rec 0 tc) ++ p, fl2, tc :: tl2)
        else
          '(same, fc1, tc1) <- cmp fc tc ;;
          if same then
            '(p, fl2, tl2) <- mp_gen_walk cmp gen fr tr ;; Ok (p, fc1 :: fl2, tc1 :: tl2)
          else
            '(sub, fc2, tc2) <- gen fc1 tc1 ;;
            '(p, fl2, tl2) <- mp_gen_walk cmp gen fr tr ;;
            Ok (mp_add_member [] (n_key tc2) sub ++ p, fc2 :: fl2, tc2 :: tl2)
    | _, _ => OOB
    end.
  Proof. reflexivity. Qed.

  Lemma gen_walk_dperm : cmp_dperm cmp -> gen_dperm gen -> forall fl tl p fl' tl',
    mp_gen_walk cmp gen fl tl = Ok (p, fl', tl') -> Forall2 dperm fl fl' /\ Forall2 dperm tl tl'.
  Proof.
    intros Hc Hg. induction fl as [|fc fr IHf].
    - induction tl as [|tc tr IHt]; intros p fl' tl' H.
      + rewrite gen_walk_nil_nil in H. injection H as <- <- <-. split; constructor.
      + rewrite gen_walk_nil_cons in H.
        destruct (mp_gen_walk cmp gen [] tr) as [[[p2 fl2] tl2]| |] eqn:E; cbn [bind] in H; try discriminate.
        injection H as <- <- <-. destruct (IHt _ _ _ eq_refl) as [D1 D2]. split; [exact D1|constructor; [apply dperm_refl|exact D2]].
    - induction tl as [|tc tr IHt]; intros p fl' tl' H.
      + rewrite gen_walk_cons_nil in H.
        destruct (mp_gen_walk cmp gen fr []) as [[[p2 fl2] tl2]| |] eqn:E; cbn [bind] in H; try discriminate.
        injection H as <- <- <-. destruct (IHf _ _ _ _ E) as [D1 D2]. split; [constructor; [apply dperm_refl|exact D1]|exact D2].
      + rewrite gen_walk_cons_cons in H. destruct (n_key fc) as [kf|]; [|discriminate]. destruct (n_key tc) as [kt|]; [|discriminate].
        destruct (strcmp kf kt <? 0).
        { destruct (mp_gen_walk cmp gen fr (tc :: tr)) as [[[p2 fl2] tl2]| |] eqn:E; cbn [bind] in H; try discriminate.
          injection H as <- <- <-. destruct (IHf _ _ _ _ E) as [D1 D2]. split; [constructor; [apply dperm_refl|exact D1]|exact D2]. }
        destruct (0 <? strcmp kf kt).
        { destruct (mp_gen_walk cmp gen (fc :: fr) tr) as [[[p2 fl2] tl2]| |] eqn:E; cbn [bind] in H; try discriminate.
          injection H as <- <- <-. destruct (IHt _ _ _ eq_refl) as [D1 D2]. split; [exact D1|constructor; [apply dperm_refl|exact D2]]. }
        destruct (cmp fc tc) as [[[same fc1] tc1]| |] eqn:Ec; cbn [bind] in H; try discriminate.
        destruct (Hc _ _ _ _ _ Ec) as [Df Dt]. destruct same.
        { destruct (mp_gen_walk cmp gen fr tr) as [[[p2 fl2] tl2]| |] eqn:E; cbn [bind] in H; try discriminate.
          injection H as <- <- <-. destruct (IHf _ _ _ _ E) as [D1 D2]. split; constructor; assumption. }
        destruct (gen fc1 tc1) as [[[sub fc2] tc2]| |] eqn:Eg; cbn [bind] in H; try discriminate.
        destruct (Hg _ _ _ _ _ Eg) as [Df2 Dt2].
        destruct (mp_gen_walk cmp gen fr tr) as [[[p2 fl2] tl2]| |] eqn:E; cbn [bind] in H; try discriminate.
        injection H as <- <- <-. destruct (IHf _ _ _ _ E) as [D1 D2].
        split; constructor; try assumption; eapply dperm_trans; eassumption.
  Qed.
End WalkEq.

Lemma generate_dperm cs : forall fuel, gen_dperm (mp_generate_merge_patch fuel cs).
Proof.
  induction fuel as [|f IH]; intros x y p x' y' H; [discriminate|].
  cbn [mp_generate_merge_patch] in H.
  destruct (negb (is_object y) || negb (is_object x)) eqn:Eo; [injection H as <- <- <-; split; apply dperm_refl|].
  apply orb_false_iff in Eo. destruct Eo as [Eoy Eox]. apply negb_false_iff in Eoy, Eox. apply Z.eqb_eq in Eoy, Eox.
  destruct (mp_sort_members cs (n_children x)) as [sf| |] eqn:Esf; cbn [bind] in H; try discriminate.
  destruct (mp_sort_members cs (n_children y)) as [st| |] eqn:Est; cbn [bind] in H; try discriminate.
  destruct (mp_gen_walk (mp_compare_json_top cs) (mp_generate_merge_patch f cs) sf st) as [[[pm fl] tl]| |] eqn:E; cbn [bind] in H; try discriminate.
  injection H as <- <- <-.
  assert (Hc : cmp_dperm (mp_compare_json_top cs)) by (intros a b r a' b' Hab; apply (compare_json_dperm cs _ _ _ _ _ _ Hab)).
  destruct (gen_walk_dperm _ _ Hc IH _ _ _ _ _ E) as [D1 D2].
  apply sort_members_perm in Esf. apply sort_members_perm in Est. split.
  - apply (dperm_sorted_children x sf fl); assumption.
  - apply (dperm_sorted_children y st tl); assumption.
Qed.

(* the public functions: both inputs are returned as dperm images of themselves *)
Definition odperm (a b : option node) : Prop :=
  match a, b with Some x, Some y => dperm x y | None, None => True | _, _ => False end.

Theorem generate_inputs_intact cs from to p from' to' :
  mp_GenerateMergePatch_gen cs from to = Ok (p, from', to') -> odperm from from' /\ odperm to to'.
Proof.
  unfold mp_GenerateMergePatch_gen. destruct to as [t|].
  - destruct from as [f|].
    + destruct (mp_generate_merge_patch (node_depth t) cs f t) as [[[p0 f'] t']| |] eqn:E; cbn [bind]; intro H; try discriminate.
      injection H as <- <- <-. apply (generate_dperm cs) in E. exact E.
    + intro H. injection H as <- <- <-. split; [exact I|apply dperm_refl].
  - intro H. injection H as <- <- <-. split; [|exact I]. destruct from; cbn [odperm]; [apply dperm_refl|exact I].
Qed.
