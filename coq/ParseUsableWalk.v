(** ParseUsableWalk.v — property C01, "usable result": the heap image of a parsed tree can be
    WALKED, and the walk reads back exactly the tree.

    [SortDefs.read_node] is a traversal written independently of this development (for the sort
    slice): from a node pointer it loads the data fields, reads the two strings as C strings
    ([ld_cstr]: runs to the terminator, error if there is none), follows [child] and then the
    [next] chain to NULL, recursively.  Every load checks liveness and block kind, so a dangling
    or mistyped pointer anywhere in the image would be an error outcome.

    [mat_read_back]: for a tree without flag bits whose strings are zero-free (every parsed tree,
    [ParseUsable.shape]), the walk of the image [mat t] built in any well-formed heap returns
    without error, leaves the heap unchanged, and yields [t] itself: the image represents the
    parser's value-level result, field by field, string by string, child by child in order. *)
From CJ Require Import Base Dbl Tree ParseDefs Heap Forest ForestLemmas CoreSpec CoreDefs CoreRefineBase
  CoreRefine CoreRefineObject SortDefs ParseUsableHeap.
From CJ.gen Require Import Constants.
From stdpp Require Import gmap.
Implicit Types (h : heap) (F G : forest) (p x y i b : positive) (d : rdata).

(** * the traversal, with its children loop named *)

Fixpoint read_children (rd : ptr -> M node) (k : nat) (c : ptr) : M (list node) :=
  match c with
  | None => ret []
  | Some _ =>
      match k with
      | O => fail NoFuel
      | S k' => x <~ rd c ;; n <~ get_next c ;; r <~ read_children rd k' n ;; ret (x :: r)
      end
  end.

Lemma bindM_ext_l {A B} (m m' : M A) (g : A -> M B) h : m h = m' h -> bindM m g h = bindM m' g h.
Proof. intros H. unfold bindM. by rewrite H. Qed.

Lemma read_node_unfold f (p : ptr) h :
  read_node (S f) p h =
    (d <~ ld_dat p ;;
     vs <~ opt_cstr (nd_vstr d) ;;
     key <~ opt_cstr (nd_key d) ;;
     ch <~ read_children (read_node f) (S f) (nd_child d) ;;
     ret (Node (nd_type d) vs (nd_vint d) (nd_vdbl d) key ch)) h.
Proof.
  change (read_node (S f) p) with
    (d <~ ld_dat p ;;
     vs <~ opt_cstr (nd_vstr d) ;;
     key <~ opt_cstr (nd_key d) ;;
     ch <~ (fix go (k : nat) (c : ptr) : M (list node) :=
               match c with
               | None => ret []
               | Some _ =>
                   match k with
                   | O => fail NoFuel
                   | S k' => x <~ read_node f c ;; n <~ get_next c ;; r <~ go k' n ;; ret (x :: r)
                   end
               end) (S f) (nd_child d) ;;
     ret (Node (nd_type d) vs (nd_vint d) (nd_vdbl d) key ch)).
  apply bindM_ext; intros d h1. apply bindM_ext; intros vs h2. apply bindM_ext; intros key h3.
  assert (H : forall k c h0, (fix go (k : nat) (c : ptr) : M (list node) :=
               match c with
               | None => ret []
               | Some _ =>
                   match k with
                   | O => fail NoFuel
                   | S k' => x <~ read_node f c ;; n <~ get_next c ;; r <~ go k' n ;; ret (x :: r)
                   end
               end) k c h0 = read_children (read_node f) k c h0).
  { induction k as [|k IH]; intros c h0; destruct c; try done. cbn [read_children].
    apply bindM_ext; intros x h1'. apply bindM_ext; intros n h2'. unfold bindM at 1 3. by rewrite IH. }
  apply bindM_ext_l. exact (H (S f) (nd_child d) h3).
Qed.

Lemma run_ld_dat_plain h i nd : i ∈ h_live h -> h_dat h !! i = Some nd -> ld_dat (Some i) h = Ret (nd, h).
Proof. intros H1 H2. pose proof (run_ld_dat h (h_lnk h) (h_dat h) i nd H1 H2) as H. by rewrite upd_maps_id in H. Qed.

(** * strings *)

Definition nz (s : bytes) : bool := forallb (fun c => negb (c =? 0)%Z) s.
Definition nz_opt (o : option bytes) : bool := match o with Some s => nz s | None => true end.
(** every valuestring and key of the tree is a C string (no zero byte inside) *)
Fixpoint cstrings (n : node) : bool :=
  match n with Node _ vs _ _ key ch => nz_opt vs && nz_opt key && forallb cstrings ch end.

Lemma cstr_app_zero_nz s : nz s = true -> cstr (s ++ [0%Z]) = s /\ existsb (Z.eqb 0) (s ++ [0%Z]) = true.
Proof.
  induction s as [|c s IH]; intros H; [done|]. cbn [nz forallb] in H. apply andb_true_iff in H as [Hc Hs].
  destruct (IH Hs) as [E1 E2]. cbn [app cstr existsb]. rewrite E1, E2.
  destruct (Z.eqb_spec c 0) as [->|Hne]; [done|]. split; [done|]. by rewrite orb_true_r.
Qed.

Lemma opt_cstr_run h (o : option bytes) n :
  nz_opt o = true ->
  (forall s, o = Some s -> n ∈ h_live h /\ h_str h !! n = Some (s ++ [0%Z])) ->
  opt_cstr (opt_id o n) h = Ret (o, h).
Proof.
  intros Hz H. destruct o as [s|]; cbn [opt_id opt_cstr]; [|done].
  destruct (H s eq_refl) as [Hl Hs]. destruct (cstr_app_zero_nz s Hz) as [E1 E2].
  rewrite (bindM_Ret _ _ _ _ _ (run_ld_cstr h n _ Hl Hs E2)). by rewrite E1.
Qed.

(** * the walk *)

Definition size_list (l : list node) : nat := fold_right (fun c a => (node_size c + a)%nat) O l.
Lemma node_size_unfold ty vs vi vd k ch : node_size (Node ty vs vi vd k ch) = S (size_list ch).
Proof. reflexivity. Qed.

Definition reads_back (t : node) : Prop :=
  forall G h m fuel, WF h G -> plain t = true -> cstrings t = true ->
    strs_in h (strs_of t m) -> (forall e : fnode, e ∈ flat_t (forest_of t m) -> e ∈ flat G) ->
    (node_size t <= fuel)%nat ->
    read_node fuel (Some m) h = Ret (t, h).

Lemma flat_id_live h G (e : fnode) : WF h G -> e ∈ flat G -> fn_id e ∈ h_live h.
Proof. intros W He. apply (WF_ids_live _ _ _ W). rewrite ids_flat. by apply elem_of_list_fmap_1. Qed.

Lemma read_children_sim G h f (p : positive) d :
  WF h G ->
  forall chs, Forall reads_back chs ->
  forall m0 (pre : list positive) k,
    let cts := map_acc forest_of chs m0 in
    (p, d, pre ++ (tid <$> cts)) ∈ flat G ->
    (forall e : fnode, e ∈ flat cts -> e ∈ flat G) ->
    strs_in h (strs_list strs_of chs m0) ->
    forallb plain chs = true -> forallb cstrings chs = true ->
    (size_list chs <= f)%nat -> (length chs <= k)%nat ->
    read_children (read_node f) k (head (tid <$> cts)) h = Ret (chs, h).
Proof.
  intros W chs HF. induction HF as [|c r Hc _ IH]; intros m0 pre k cts Hpar Hsub Hstr Hpl Hzf Hsz Hk.
  - unfold cts. cbn. by destruct k.
  - cbn [forallb] in Hpl, Hzf. apply andb_true_iff in Hpl as [Hp1 Hp2]. apply andb_true_iff in Hzf as [Hz1 Hz2].
    cbn [size_list fold_right] in Hsz. fold (size_list r) in Hsz. cbn [length] in Hk.
    destruct k as [|k]; [lia|].
    unfold cts in *. cbn [map_acc] in *. set (ct := forest_of c m0) in *.
    set (cts' := map_acc forest_of r (m0 + nblocks c)%positive) in *.
    assert (Htid : tid ct = m0) by apply tid_forest_of.
    rewrite fmap_cons, Htid in *. cbn [head read_children].
    assert (Hsubc : forall e : fnode, e ∈ flat_t ct -> e ∈ flat G).
    { intros e He. apply Hsub. rewrite flat_cons. apply elem_of_app. by left. }
    assert (Hsubr : forall e : fnode, e ∈ flat cts' -> e ∈ flat G).
    { intros e He. apply Hsub. rewrite flat_cons. apply elem_of_app. by right. }
    cbn [strs_list] in Hstr.
    assert (Hstrc : strs_in h (strs_of c m0)).
    { intros b s Hin. apply Hstr. apply elem_of_app. by left. }
    assert (Hstrr : strs_in h (strs_list strs_of r (m0 + nblocks c)%positive)).
    { intros b s Hin. apply Hstr. apply elem_of_app. by right. }
    rewrite (bindM_Ret _ _ _ _ _ (Hc G h m0 f W Hp1 Hz1 Hstrc Hsubc ltac:(lia))).
    (* the next pointer of this child *)
    assert (Hlive : m0 ∈ h_live h).
    { assert (He : flat_of ct ∈ flat G) by (apply Hsubc; destruct ct; rewrite flat_t_unfold; by left).
      pose proof (flat_id_live h G _ W He) as Hl. unfold flat_of, fn_id in Hl. cbn in Hl. by rewrite Htid in Hl. }
    assert (Hk0 : (pre ++ m0 :: (tid <$> cts')) !! length pre = Some m0).
    { rewrite lookup_app_r by lia. by rewrite Nat.sub_diag. }
    pose proof (WF_lookup_lnk_child h G p d _ _ _ W Hpar Hk0) as Hlnk.
    rewrite (bindM_Ret _ _ _ _ _ (run_get_next_plain h m0 _ Hlive Hlnk)).
    assert (Hnext : (link_at (pre ++ m0 :: (tid <$> cts')) (length pre)).1 = head (tid <$> cts')).
    { destruct (length pre) eqn:El.
      - rewrite link_at_0. cbn. destruct pre; [|done]. cbn. by destruct (tid <$> cts').
      - rewrite link_at_S. cbn. rewrite <- El. rewrite lookup_app_r by lia.
        replace (S (length pre) - length pre)%nat with 1%nat by lia. cbn. by destruct (tid <$> cts'). }
    rewrite Hnext.
    assert (Hpar' : (p, d, (pre ++ [m0]) ++ (tid <$> cts')) ∈ flat G) by (by rewrite <- app_assoc).
    rewrite (bindM_Ret _ _ _ _ _ (IH (m0 + nblocks c)%positive (pre ++ [m0]) k Hpar' Hsubr Hstrr Hp2 Hz2 ltac:(lia) ltac:(lia))).
    reflexivity.
Qed.

Lemma cstrings_unfold ty vs vi vd key ch :
  cstrings (Node ty vs vi vd key ch) = nz_opt vs && nz_opt key && forallb cstrings ch.
Proof. reflexivity. Qed.

Theorem read_back : forall t, reads_back t.
Proof.
  induction t as [ty vs vi vd key ch IH] using node_ind'. intros G h m fuel W Hpl Hzf Hstr Hsub Hsz.
  rewrite node_size_unfold in Hsz. destruct fuel as [|f]; [lia|].
  rewrite plain_unfold in Hpl. apply andb_true_iff in Hpl as [Hpl Hplc]. apply andb_true_iff in Hpl as [Hf1 Hf2].
  rewrite cstrings_unfold in Hzf. apply andb_true_iff in Hzf as [Hzf Hzc]. apply andb_true_iff in Hzf as [Hz1 Hz2].
  rewrite forest_of_unfold in Hsub. rewrite strs_of_unfold in Hstr. cbv zeta in Hsub, Hstr.
  set (n1 := Pos.succ m) in *. set (n2 := opt_cnt vs n1) in *. set (n3 := opt_cnt key n2) in *.
  set (d := mkRD ty (opt_id vs n1) vi vd (opt_id key n2) None) in *.
  set (cts := map_acc forest_of ch n3) in *.
  rewrite flat_t_unfold in Hsub.
  assert (He0 : (m, d, tid <$> cts) ∈ flat G) by (apply Hsub; by left).
  assert (Hsubc : forall e : fnode, e ∈ flat cts -> e ∈ flat G) by (intros e He; apply Hsub; by right).
  assert (Hlive : m ∈ h_live h) by exact (flat_id_live h G _ W He0).
  pose proof (WF_lookup_dat h G m d _ W He0) as Hdat.
  assert (Hown : forall b, b ∈ opt_list (opt_id vs n1) ++ opt_list (opt_id key n2) -> b ∈ h_live h).
  { intros b Hb. apply (wf_owned_live _ _ W). unfold owned. apply elem_of_owned_fl. exists (m, d, tid <$> cts).
    split; [done|]. unfold owned_fn. cbn [fn_id fn_data fst snd]. right.
    unfold d. by rewrite owned_strs_plain. }
  rewrite read_node_unfold.
  rewrite (bindM_Ret _ _ _ _ _ (run_ld_dat_plain h m _ Hlive Hdat)).
  cbn [mk_dat nd_vstr nd_key nd_type nd_vint nd_vdbl nd_child rd_type rd_vstr rd_vint rd_vdbl rd_key d].
  assert (Hvs : forall s, vs = Some s -> n1 ∈ h_live h /\ h_str h !! n1 = Some (s ++ [0%Z])).
  { intros s ->. split.
    - apply Hown. apply elem_of_app. left. cbn [opt_id opt_list]. by left.
    - apply (Hstr n1 (s ++ [0%Z])). apply elem_of_app. left. cbn [opt_entry]. by left. }
  assert (Hkey : forall s, key = Some s -> n2 ∈ h_live h /\ h_str h !! n2 = Some (s ++ [0%Z])).
  { intros s ->. split.
    - apply Hown. apply elem_of_app. right. cbn [opt_id opt_list]. by left.
    - apply (Hstr n2 (s ++ [0%Z])). apply elem_of_app. right. apply elem_of_app. left. cbn [opt_entry]. by left. }
  rewrite (bindM_Ret _ _ _ _ _ (opt_cstr_run h vs n1 Hz1 Hvs)).
  rewrite (bindM_Ret _ _ _ _ _ (opt_cstr_run h key n2 Hz2 Hkey)).
  assert (Hchild : child_of d (tid <$> cts) = head (tid <$> cts)).
  { unfold child_of. by destruct (tid <$> cts). }
  rewrite Hchild.
  assert (Hstrc : strs_in h (strs_list strs_of ch n3)).
  { intros b s Hin. apply Hstr. apply elem_of_app. right. apply elem_of_app. by right. }
  assert (Hlen : (length ch <= size_list ch)%nat).
  { clear. induction ch as [|c r IHr]; [done|]. cbn [length size_list fold_right]. fold (size_list r).
    destruct c. rewrite node_size_unfold. lia. }
  rewrite (bindM_Ret _ _ _ _ _ (read_children_sim G h f m d W ch IH n3 [] (S f) He0 Hsubc Hstrc Hplc Hzc ltac:(lia) ltac:(lia))).
  reflexivity.
Qed.

(** materialise, then walk: the walk returns the tree *)
Theorem mat_read_back t h F :
  plain t = true -> cstrings t = true -> WF h F ->
  exists h', mat t h = Ret (Some (h_next h), h') /\
    forall fuel, (node_size t <= fuel)%nat -> read_node fuel (Some (h_next h)) h' = Ret (t, h').
Proof.
  intros Hpl Hzf W. destruct (mat_sim t h F Hpl W) as (h' & Hrun & W' & _ & _ & _ & Hstr).
  exists h'. split; [done|]. intros fuel Hfuel.
  apply (read_back t (F ++ [forest_of t (h_next h)]) h' (h_next h) fuel W' Hpl Hzf Hstr); [|done].
  intros e He. rewrite flat_app, flat_singleton. apply elem_of_app. by right.
Qed.
