(** MinifyOld.v — the string loop of cJSON_Minify as the pinned tree had it (only the
    escape backslash-quote was recognised).  Kept to re-derive finding F7: the value
    theorem is false of that code. *)
From CJ Require Import Base MinifyDefs MinifyProofs MinifyValue.
Local Open Scope Z_scope.

Fixpoint mstr_old (l : bytes) : bytes * bytes :=
  match l with
  | [] => ([], [])
  | c :: r =>
      if c =? 34 then ([34], r)
      else
        match r with
        | d :: r' =>
            if (c =? 92) && (d =? 34) then let '(a, rest) := mstr_old r' in (92 :: 34 :: a, rest)
            else let '(a, rest) := mstr_old r in (c :: a, rest)
        | [] => ([c], [])
        end
  end.

Fixpoint minify_old (fuel : nat) (l : bytes) : bytes :=
  match fuel with
  | O => []
  | S f =>
      match l with
      | [] => []
      | c :: r =>
          if (c =? 32) || (c =? 9) || (c =? 13) || (c =? 10) then minify_old f r
          else if c =? 47 then
            if hd 0 r =? 47 then minify_old f (skip1_l (tl r))
            else if hd 0 r =? 42 then minify_old f (skipm_l (tl r))
            else minify_old f r
          else if c =? 34 then let '(a, rest) := mstr_old r in 34 :: a ++ minify_old f rest
          else c :: minify_old f r
      end
  end.

(* {"a\\" : "b c"}  — tokens { "a\\" : "b c" } *)
Definition f7_text : bytes := [123; 34; 97; 92; 92; 34; 32; 58; 32; 34; 98; 32; 99; 34; 125].
Definition f7_toks : list bytes := [[123]; [34; 97; 92; 92; 34]; [58]; [34; 98; 32; 99; 34]; [125]].

Lemma f7_is_text : text f7_text f7_toks.
Proof.
  unfold f7_text, f7_toks.
  apply (text_cons [] [123]); [constructor| apply tok_plain; [discriminate|reflexivity] |].
  apply (text_cons [] [34; 97; 92; 92; 34]);
    [constructor| apply tok_str; apply sb_chr; [discriminate|discriminate|]; apply sb_esc; apply sb_end |].
  apply (text_cons [32] [58]); [apply gap_ws; [reflexivity|constructor]| apply tok_plain; [discriminate|reflexivity] |].
  apply (text_cons [32] [34; 98; 32; 99; 34]).
  - apply gap_ws; [reflexivity|constructor].
  - apply tok_str. do 3 (apply sb_chr; [discriminate|discriminate|]). apply sb_end.
  - apply (text_cons [] [125]); [constructor| apply tok_plain; [discriminate|reflexivity] |].
    constructor. constructor.
Qed.

Theorem C13_value_refuted_for_pinned_code :
  exists s toks, text s toks /\ minify_old (length s + 1) s <> concat toks.
Proof. exists f7_text, f7_toks. split; [exact f7_is_text|]. vm_compute. discriminate. Qed.
