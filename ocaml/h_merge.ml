(* h_merge.ml — handlers of area `merge` (C18): the extracted merge-patch model and the RFC 7396 oracle *)
open Model
open Driver

let opt_dump = function None -> "NULL" | Some n -> dump_node n

(* mergepatch <cs> <target tree|NULL> <patch tree|NULL>  ->  <result tree|NULL> U
   (the implementation appends the allocator report after deleting the result and the patch)
   SPECDIFF: case-sensitive, both operands JSON documents with distinct member names, patch nesting below the
   duplication limit, and the model's result is not doc_eq to RFC 7396's MergePatch(target, patch) *)
let h_mergepatch (a : string array) : string =
  let cs = a.(1) = "1" in
  let pos = ref 2 in
  let target = parse_node_or_null a pos in
  let patch = parse_node_or_null a pos in
  let r = if cs then cJSONUtils_MergePatchCaseSensitive target patch else cJSONUtils_MergePatch target patch in
  let spec =
    (match patch with
     | Some p when cs && m7396_doc p && m7396_depth_ok p && (match target with None -> true | Some t -> m7396_doc t) ->
         (match r with
          | Some x -> if doc_eq x (merge target p) && doc_eq (merge target p) x then "" else " SPECDIFF"
          | None -> " SPECDIFF")
     | _ -> "") in
  opt_dump r ^ " U" ^ spec

(* genmerge <cs> <from tree|NULL> <to tree|NULL>
     ->  <patch|NULL> | <from after> | <to after> | apply=<0|1> <patch applied to a duplicate of from|NULL>
   SPECDIFF: case-sensitive, both inputs JSON documents with distinct names, no null member in `to`, and
   MergePatch(from, patch) (NULL patch = no change) is not doc_eq to `to` *)
let h_genmerge (a : string array) : string =
  let cs = a.(1) = "1" in
  let pos = ref 2 in
  let from = parse_node_or_null a pos in
  let to_ = parse_node_or_null a pos in
  match (if cs then cJSONUtils_GenerateMergePatchCaseSensitive from to_ else cJSONUtils_GenerateMergePatch from to_) with
  | OOB -> "MODEL_OOB" | OutOfFuel -> "MODEL_OUTOFFUEL"
  | Ok ((p, f'), t') ->
      let dupf = mp_Duplicate f' in
      let applied = (match p with
        | None -> dupf
        | Some pp -> if cs then cJSONUtils_MergePatchCaseSensitive dupf p else cJSONUtils_MergePatch dupf p) in
      let c = (match cJSON_Compare applied t' false cs with Some true -> "1" | Some false -> "0" | None -> "MODEL_OUTOFFUEL") in
      let spec =
        (match from, to_, f', t' with
         | Some f0, Some t0, Some f1, Some t1 when cs && m7396_doc f0 && m7396_doc t0 && no_null_member t0 && m7396_depth_ok t0 ->
             let ok1 = doc_eq (merge_opt f1 p) t1 in          (* on the inputs as they are after the call *)
             let ok0 = doc_eq (merge_opt f0 p) t0 in          (* and as they were before it *)
             if ok1 && ok0 && doc_eq f0 f1 && doc_eq t0 t1 then "" else " SPECDIFF"
         | _ -> "") in
      String.concat " " [opt_dump p; "|"; opt_dump f'; "|"; opt_dump t'; "|"; "apply=" ^ c; opt_dump applied] ^ spec

let handlers : (string * (string array -> string)) list = [
  ("mergepatch", h_mergepatch); ("genmerge", h_genmerge);
]
