(** Properties_C05_Ref.v — property C05 (with C08 / C09): the contracts on the C library's
    number conversions, until now hypotheses of the printer theorems that were PROVED only for "%d"
    and shown satisfiable for "%g" by run-time guarded instances, PROVED for the executable
    reference implementations [LibcPrint.fmt_d], [fmt_g15] (= [fmt_g 15]), [fmt_g17] (= [fmt_g 17])
    themselves: for every C int and EVERY finite well-formed double (normal or subnormal, either
    sign, zeros included) the text is an RFC 8259 number literal of at most 25 bytes, hence a C
    string that fits print_number's 26-byte scratch buffer.  Then the main theorems of C05 / C08 /
    C09 at the reference library, with no libc hypothesis.  Same format as Properties_C05.v.
    Proofs: LibcPrintRefText.v (every text [g_text P s D X'] of a P-digit D and |X'| < 1000 is an
    RFC number of at most 25 bytes: the three layouts of "%g"), LibcPrintRef.v (the digit count and
    exponent range of what [fmt_g] computes, from LibcG15Scale.v / LibcG15Stable.v; the records; the
    corollaries).  Integer arithmetic only: everything is closed under the global context. *)
From Coq Require Import ZArith List Floats.SpecFloat.
From CJ Require Import Base Dbl Tree Grammar LibcNum LibcPrint PrintDefs PrintLemmas PrintStrict PrintStrictWs
  PrintStrictRef LibcG15Scale LibcPrintRefText LibcPrintRef.
Import ListNotations.
Local Open Scope Z_scope.

(** ------------------------------------------------------------------ 1. the contracts, for the reference libc *)

(** the strict contract of C05: all 7 clauses, no guard *)
Theorem C05_ref_strict_spec : LibcStrictSpec fmt_d fmt_g15 fmt_g17.
Proof. exact ref_strict_spec. Qed.
Print Assumptions C05_ref_strict_spec.

(** the contract of the buffer-level printer proofs (C08, C09): zero-free, at most 25 bytes *)
Theorem C05_ref_print_spec : LibcPrintSpec fmt_d fmt_g15 fmt_g17.
Proof. exact ref_print_spec. Qed.
Print Assumptions C05_ref_print_spec.

(** the "%g" clauses for every precision from 1 to 17, for every finite IEEE binary64 value *)
Theorem C05_ref_fmt_g :
  forall P d, 1 <= P <= 17 -> is_finite d = true -> valid_dbl d = true ->
  rfc_number (fmt_g P d) = true /\ zlen (fmt_g P d) <= c_NUMBER_BUFFER_SIZE - 1.
Proof. exact fmt_g_ok. Qed.
Print Assumptions C05_ref_fmt_g.

(** the layout lemma behind it: sign, P-digit significand, 3-digit decimal exponent — in every
    one of the three layouts (%f style with X' >= 0, "0.000ddd" for -4 <= X' < 0, %e style) the
    text is an RFC number of at most 25 bytes *)
Theorem C05_ref_text :
  forall P s D X', 1 <= P <= 17 -> 10 ^ (P - 1) <= D < 10 ^ P -> -1000 < X' < 1000 ->
  rfc_number (g_text P s D X') = true /\ zlen (g_text P s D X') <= 25.
Proof. exact g_text_ok. Qed.
Print Assumptions C05_ref_text.

(** what [fmt_g P] computes for a well-formed finite non-zero double: exactly P digits and a decimal
    exponent between -324 and 309 *)
Theorem C05_ref_digits :
  forall P m e, 1 <= P -> SpecFloat.bounded Dbl.prec Dbl.emax m e = true ->
  exists D X', (forall s, fmt_g P (S754_finite s m e) = g_text P s D X') /\
               10 ^ (P - 1) <= D < 10 ^ P /\ -324 <= X' <= 309.
Proof. exact gP_shape. Qed.
Print Assumptions C05_ref_digits.

(** the run-time guard of the earlier satisfiability instance ([C05_contract_satisfiable]) never
    fires: on every finite well-formed double the guarded conversions ARE the reference ones *)
Theorem C05_ref_guard_never_fires :
  forall d, is_finite d = true -> valid_dbl d = true -> sg_fmt_g15 d = fmt_g15 d /\ sg_fmt_g17 d = fmt_g17 d.
Proof. exact sguard_never_fires. Qed.
Print Assumptions C05_ref_guard_never_fires.

(** ------------------------------------------------------------------ 2. C05 at the reference libc *)

Theorem C05_strict_value_ref :
  forall n, printable n = true -> forall fmt depth d, (cdepth n <= d)%nat ->
  exists txt, render fmt_d fmt_g15 fmt_g17 sscanf_lg fmt depth n = Some txt /\
              RFC_value d txt (val_of fmt_d fmt_g15 fmt_g17 sscanf_lg n).
Proof. exact ref_strict_value. Qed.
Print Assumptions C05_strict_value_ref.

Theorem C05_strict_ref :
  forall n fmt, printable n = true -> (cdepth n <= nesting_limit)%nat ->
  exists txt, render fmt_d fmt_g15 fmt_g17 sscanf_lg fmt 0 n = Some txt /\
              RFC_text txt (val_of fmt_d fmt_g15 fmt_g17 sscanf_lg n).
Proof. exact ref_strict. Qed.
Print Assumptions C05_strict_ref.

Theorem C05_value_ok_ref :
  forall n, printable n = true -> jv_ok (val_of fmt_d fmt_g15 fmt_g17 sscanf_lg n).
Proof. exact ref_value_ok. Qed.
Print Assumptions C05_value_ok_ref.

Theorem C05_strip_ref :
  forall n depth, printable n = true ->
  option_map strip_ws (render fmt_d fmt_g15 fmt_g17 sscanf_lg true depth n)
  = render fmt_d fmt_g15 fmt_g17 sscanf_lg false depth n.
Proof. exact ref_strip. Qed.
Print Assumptions C05_strip_ref.

Theorem C05_variants_ref :
  forall oracle junk (t : node) (fmt : bool),
  printable t = true -> fields_ok t = true -> (forall i, oracle i = false) ->
  exists txt,
    render fmt_d fmt_g15 fmt_g17 sscanf_lg fmt 0 t = Some txt /\ nz txt /\
    (zlen txt + 2 <= c_INT_MAX ->
       (forall hr, exists r, print fmt_d fmt_g15 fmt_g17 sscanf_lg oracle junk t fmt hr = Ok r /\
                             prr_block r = Some (txt ++ [0])) /\
       (forall hr prebuffer, 0 <= prebuffer ->
          exists r rest, cJSON_PrintBuffered fmt_d fmt_g15 fmt_g17 sscanf_lg oracle junk t prebuffer fmt hr = Ok r /\
                         prr_block r = Some (txt ++ 0 :: rest))) /\
    (forall hr buf, zlen txt + 2 <= zlen buf -> zlen buf <= c_INT_MAX ->
       exists r rest, cJSON_PrintPreallocated fmt_d fmt_g15 fmt_g17 sscanf_lg oracle junk t (Some buf) (zlen buf) fmt hr = Ok r /\
                      par_flag r = true /\ par_buffer r = Some (txt ++ 0 :: rest)).
Proof. exact ref_variants. Qed.
Print Assumptions C05_variants_ref.

(** ------------------------------------------------------------------ 3. C09 at the reference libc *)

Theorem C09_no_overflow_ref :
  forall oracle junk (t : node) (buf : bytes) (fmt hr : bool),
    fields_ok t = true ->
    exists r, cJSON_PrintPreallocated fmt_d fmt_g15 fmt_g17 sscanf_lg oracle junk t (Some buf) (zlen buf) fmt hr = Ok r.
Proof. exact ref_no_overflow. Qed.
Print Assumptions C09_no_overflow_ref.

Theorem C09_caller_block_ref :
  forall oracle junk (t : node) (buf : bytes) (fmt hr : bool) r,
    fields_ok t = true ->
    cJSON_PrintPreallocated fmt_d fmt_g15 fmt_g17 sscanf_lg oracle junk t (Some buf) (zlen buf) fmt hr = Ok r ->
    par_live r = 0 /\ par_requests r = 0%nat /\ exists b', par_buffer r = Some b' /\ zlen b' = zlen buf.
Proof. exact ref_caller_block. Qed.
Print Assumptions C09_caller_block_ref.

Theorem C09_content_ref :
  forall oracle junk (t : node) (buf : bytes) (fmt hr : bool) r,
    fields_ok t = true ->
    cJSON_PrintPreallocated fmt_d fmt_g15 fmt_g17 sscanf_lg oracle junk t (Some buf) (zlen buf) fmt hr = Ok r ->
    par_flag r = true ->
    exists txt rest, render fmt_d fmt_g15 fmt_g17 sscanf_lg fmt 0 t = Some txt /\
                     par_buffer r = Some (txt ++ 0 :: rest) /\ zlen (txt ++ 0 :: rest) = zlen buf.
Proof. exact ref_content. Qed.
Print Assumptions C09_content_ref.

Theorem C09_threshold_ref :
  forall oracle junk (t : node) (buf : bytes) (fmt hr : bool) r,
    fields_ok t = true -> zlen buf <= c_INT_MAX ->
    cJSON_PrintPreallocated fmt_d fmt_g15 fmt_g17 sscanf_lg oracle junk t (Some buf) (zlen buf) fmt hr = Ok r ->
    (par_flag r = true <->
     exists txt, render fmt_d fmt_g15 fmt_g17 sscanf_lg fmt 0 t = Some txt /\ zlen txt + 2 <= zlen buf).
Proof. exact ref_threshold. Qed.
Print Assumptions C09_threshold_ref.

Theorem C09_print_refines_render_ref :
  forall oracle junk (t : node) (fmt hr : bool),
    fields_ok t = true ->
    exists r, print fmt_d fmt_g15 fmt_g17 sscanf_lg oracle junk t fmt hr = Ok r /\
      (forall block, prr_block r = Some block ->
         exists txt, render fmt_d fmt_g15 fmt_g17 sscanf_lg fmt 0 t = Some txt /\ block = txt ++ [0]) /\
      ((forall i, oracle i = false) -> forall txt, render fmt_d fmt_g15 fmt_g17 sscanf_lg fmt 0 t = Some txt ->
         zlen txt + 2 <= c_INT_MAX -> prr_block r = Some (txt ++ [0])).
Proof. exact ref_print_refines_render. Qed.
Print Assumptions C09_print_refines_render_ref.

(** ------------------------------------------------------------------ 4. C08 at the reference libc *)

Theorem C08_print_clean_ref :
  forall oracle junk (t : node) (fmt hr : bool),
    fields_ok t = true ->
    exists r, print fmt_d fmt_g15 fmt_g17 sscanf_lg oracle junk t fmt hr = Ok r /\
      (prr_block r = None -> prr_live r = 0) /\
      (forall block, prr_block r = Some block ->
         prr_live r = 1 /\ exists txt, render fmt_d fmt_g15 fmt_g17 sscanf_lg fmt 0 t = Some txt /\ block = txt ++ [0]).
Proof. exact ref_print_clean. Qed.
Print Assumptions C08_print_clean_ref.

Theorem C08_print_buffered_clean_ref :
  forall oracle junk (t : node) (prebuffer : Z) (fmt hr : bool),
    fields_ok t = true -> 0 <= prebuffer ->
    exists r, cJSON_PrintBuffered fmt_d fmt_g15 fmt_g17 sscanf_lg oracle junk t prebuffer fmt hr = Ok r /\
      (prr_block r = None -> prr_live r = 0) /\
      (forall block, prr_block r = Some block ->
         prr_live r = 1 /\ exists txt rest, render fmt_d fmt_g15 fmt_g17 sscanf_lg fmt 0 t = Some txt /\ block = txt ++ 0 :: rest).
Proof. exact ref_print_buffered_clean. Qed.
Print Assumptions C08_print_buffered_clean_ref.

Theorem C08_print_failure_has_cause_ref :
  forall oracle junk (t : node) (fmt hr : bool) r txt,
    fields_ok t = true -> print fmt_d fmt_g15 fmt_g17 sscanf_lg oracle junk t fmt hr = Ok r ->
    render fmt_d fmt_g15 fmt_g17 sscanf_lg fmt 0 t = Some txt -> zlen txt + 2 <= c_INT_MAX ->
    prr_block r = None -> exists k, (k < prr_requests r)%nat /\ oracle k = true.
Proof. exact ref_print_failure_has_cause. Qed.
Print Assumptions C08_print_failure_has_cause_ref.

(** ------------------------------------------------------------------ 5. non-vacuity *)

(** well-formed finite doubles at the extremes: the smallest subnormal ("-4.9406564584124654e-324",
    24 bytes, the longest text there is), -DBL_MAX, -0.00075 (the longest %f-style text, 23 bytes at
    17 digits), 1e+20 (all trailing zeros and the point removed), and -0 *)
Theorem C05_ref_nonvacuous :
  (valid_dbl ref_ex_min = true /\ valid_dbl ref_ex_max = true /\ valid_dbl ref_ex_small = true /\
   valid_dbl ref_ex_1e20 = true) /\
  fmt_g17 ref_ex_min = [45; 52; 46; 57; 52; 48; 54; 53; 54; 52; 53; 56; 52; 49; 50; 52; 54; 53; 52; 101; 45; 51; 50; 52] /\
  fmt_g17 ref_ex_max = [45; 49; 46; 55; 57; 55; 54; 57; 51; 49; 51; 52; 56; 54; 50; 51; 49; 53; 55; 101; 43; 51; 48; 56] /\
  fmt_g15 ref_ex_small = [45; 48; 46; 48; 48; 48; 55; 53] /\
  fmt_g17 ref_ex_small = [45; 48; 46; 48; 48; 48; 55; 53; 48; 48; 48; 48; 48; 48; 48; 48; 48; 48; 48; 48; 48; 48; 50] /\
  fmt_g15 ref_ex_1e20 = [49; 101; 43; 50; 48] /\ fmt_g17 ref_ex_1e20 = [49; 101; 43; 50; 48] /\
  fmt_g17 (S754_zero true) = [45; 48].
Proof. exact ref_examples. Qed.
Print Assumptions C05_ref_nonvacuous.
