(** Extract_print.v — extraction of the executable printer model (area `print`) to OCaml.
    Only ExtrOcamlBasic is used; Z, positive, nat, spec_float and every model datatype stay
    extracted Coq datatypes. *)
Require Import ExtrOcamlBasic.
From CJ Require Import Base Dbl Tree LibcNum LibcPrint PrintDefs PrintEntry ParseDefs ParseEntry.
Extraction Language OCaml.
Extraction "model_print.ml"
  Base.cstr Dbl.sf_of_bits Dbl.bits_of_sf Dbl.sat_int Dbl.compare_double Tree.node_size
  LibcPrint.fmt_d LibcPrint.fmt_g15 LibcPrint.fmt_g17 LibcPrint.sscanf_lg LibcNum.strtod_ref
  PrintDefs.cstr_checked PrintDefs.fields_ok
  PrintEntry.run_render PrintEntry.run_print PrintEntry.run_print_buffered PrintEntry.run_print_preallocated
  ParseDefs.blocks ParseEntry.run_parse_with_length_opts.
