(** GenMergeHeapEx.v — non-vacuity of GenMergeHeapProofs / GenMergeHeapEntry / GenMergeHeapCompose on a concrete
    heap, by computation.

    [exg_heap] encodes the forest [exg_F] = [from; to]:
      from (root 1)  {"a":"b","c":{"d":1,"x":2}}     nodes 1-5, string blocks 101-105
      to   (root 10) {"c":{"d":2},"e":[1]}           nodes 10-14, string blocks 111-113
    allocator pointer 1000.  The heap-level [cJSONUtils_GenerateMergePatchCaseSensitive] is RUN on it
    ([vm_compute]); the result is read back from the result heap by the structural walk [CoreOps.dump_node]
    (which also checks the prev/next discipline) and compared with the value-level model (MergeDefs) and with
    the RFC 7396 evaluator; then the heap-level [cJSONUtils_MergePatchCaseSensitive] is run on [from] with the
    generated patch and the result compared with [to]. *)
From CJ Require Import Base Dbl Heap Forest ForestLemmas CoreDefs CoreRefineFrame CoreRefineDupValue CoreRefineDupForest
  CoreRefineCreate CoreLedgerGen.
From CJ Require Import TierBridgeDefs TierBridgeEndToEndStr MergeHeapDefs MergeHeapInv MergeHeapProofs MergeHeapConform MergeHeapEx.
From CJ Require Import GenMergeHeapDefs GenMergeHeapForest GenMergeHeapCompare GenMergeHeapProofs GenMergeHeapEntry GenMergeHeapCompose.
From CJ Require Tree CoreOps CompareDefs MergeDefs Rfc7396 MergeLemmas.
From CJ.gen Require Import Constants.
From stdpp Require Import gmap.
From Coq Require Import Lia.
Local Open Scope Z_scope.

(** from {"a":"b","c":{"d":1,"x":2}} *)
Definition exg_from : tree :=
  exh_mk 1 c_cJSON_Object None 0 None
    [exh_mk 2 c_cJSON_String (Some 102%positive) 0 (Some 101%positive) [];
     exh_mk 3 c_cJSON_Object None 0 (Some 103%positive)
        [exh_mk 4 c_cJSON_Number None 1 (Some 104%positive) [];
         exh_mk 5 c_cJSON_Number None 2 (Some 105%positive) []]].
(** to {"c":{"d":2},"e":[1]} *)
Definition exg_to : tree :=
  exh_mk 10 c_cJSON_Object None 0 None
    [exh_mk 11 c_cJSON_Object None 0 (Some 111%positive) [exh_mk 12 c_cJSON_Number None 2 (Some 112%positive) []];
     exh_mk 13 c_cJSON_Array None 0 (Some 113%positive) [exh_mk 14 c_cJSON_Number None 1 None []]].
Definition exg_F : forest := [exg_from; exg_to].
Definition exg_St : gmap positive bytes :=
  list_to_map [(101%positive, [97; 0]); (102%positive, [98; 0]); (103%positive, [99; 0]); (104%positive, [100; 0]);
               (105%positive, [120; 0]); (111%positive, [99; 0]); (112%positive, [100; 0]); (113%positive, [101; 0])].
Definition exg_heap : heap := heap_of_forest exg_F exg_St.

Definition exg_num (v : Z) (k : option bytes) : Tree.node := Tree.Node c_cJSON_Number None v (dbl_of_int v) k [].
Definition exg_null (k : option bytes) : Tree.node := Tree.Node c_cJSON_NULL None 0 dzero k [].
(** the expected patch {"a":null,"c":{"d":2,"x":null},"e":[1]} *)
Definition exg_patch : Tree.node :=
  Tree.Node c_cJSON_Object None 0 dzero None
    [exg_null (Some [97]);
     Tree.Node c_cJSON_Object None 0 dzero (Some [99]) [exg_num 2 (Some [100]); exg_null (Some [120])];
     Tree.Node c_cJSON_Array None 0 dzero (Some [101]) [exg_num 1 None]].

Definition exg_run : out (ptr * heap) :=
  GenMergeHeapDefs.cJSONUtils_GenerateMergePatchCaseSensitive nofail (Some 1%positive) (Some 10%positive) exg_heap.
Definition exg_after : heap := out_heap exg_run exg_heap.

(** ** the hypotheses of [generate_refines] / [generate_ledger] / [generate_then_merge] hold *)
Lemma exg_MInv : MInv exg_heap exg_F.
Proof. apply heap_of_forest_MInv; vm_compute; reflexivity. Qed.

Lemma tdisj_dec a b : forallb (fun x => bool_decide (x ∉ ids_t b)) (ids_t a) = true -> tdisj a b.
Proof.
  intros H x Hx. rewrite forallb_forall in H. specialize (H x ltac:(by apply elem_of_list_In)). by apply bool_decide_eq_true in H.
Qed.

Lemma exg_hypotheses :
  MInv exg_heap exg_F /\ NoLeak exg_heap exg_F /\
  find_root 1%positive exg_F = Some exg_from /\ find_tree 1%positive exg_F = Some exg_from /\
  find_tree 10%positive exg_F = Some exg_to /\
  tdisj exg_from exg_to /\ gdoc exg_from /\ gdoc exg_to /\ (height exg_to <= LIMIT)%nat /\
  Rfc7396.m7396_doc (reify (h_str exg_heap) exg_from) = true /\
  Rfc7396.m7396_doc (reify (h_str exg_heap) exg_to) = true /\
  Rfc7396.no_null_member (reify (h_str exg_heap) exg_to) = true /\
  Rfc7396.m7396_depth_ok (reify (h_str exg_heap) exg_from) = true /\
  Rfc7396.m7396_depth_ok (reify (h_str exg_heap) exg_to) = true.
Proof.
  assert (Df : Rfc7396.m7396_doc (reify (h_str exg_heap) exg_from) = true) by (vm_compute; reflexivity).
  assert (Dt : Rfc7396.m7396_doc (reify (h_str exg_heap) exg_to) = true) by (vm_compute; reflexivity).
  split_and!; try (vm_compute; reflexivity).
  - exact exg_MInv.
  - apply heap_of_forest_NoLeak.
  - apply tdisj_dec. vm_compute. reflexivity.
  - exact (gd_gdoc _ _ (MergeLemmas.m7396_doc_gd _ Df)).
  - exact (gd_gdoc _ _ (MergeLemmas.m7396_doc_gd _ Dt)).
  - vm_compute. lia.
Qed.

(** ** the run *)
Lemma exg_result :
  (* returns the new root 1000 = the object made by cJSON_CreateObject *)
  out_val exg_run = Some (Some 1000%positive) /\
  (* read back: the expected patch, every chain healthy *)
  out_val (CoreOps.dump_node 50 (Some 1000%positive) exg_after) = Some (Some (exg_patch, true)) /\
  (* = what the value-level model computes, both inputs coming back as they were (they are sorted already) *)
  MergeDefs.cJSONUtils_GenerateMergePatchCaseSensitive (Some (reify exg_St exg_from)) (Some (reify exg_St exg_to)) =
    Ok (Some exg_patch, Some (reify exg_St exg_from), Some (reify exg_St exg_to)) /\
  (* the RFC 7396 evaluator applied to [from] and the patch gives [to] *)
  Rfc7396.merge (Some (reify exg_St exg_from)) exg_patch = reify exg_St exg_to /\
  (* [from] and [to], read back from the result heap *)
  out_val (CoreOps.dump_node 50 (Some 1%positive) exg_after) = Some (Some (reify exg_St exg_from, true)) /\
  out_val (CoreOps.dump_node 50 (Some 10%positive) exg_after) = Some (Some (reify exg_St exg_to, true)) /\
  (* the ledger: the two inputs and the blocks of the patch (its nodes and the key copies made by
     cJSON_AddItemToObject) *)
  bool_decide (lib_live exg_after =
               list_to_set (owned exg_F ++ [1000; 1001; 1002; 1003; 1004; 1006; 1007; 1008; 1009; 1010; 1012; 1013]%positive)) = true /\
  (* released on the way: the key copies that the duplicates of "d":2 and "e":[1] brought along *)
  forallb (fun b => bool_decide (b ∉ h_live exg_after)) [1005; 1011]%positive = true.
Proof. split_and!; vm_compute; reflexivity. Qed.

Lemma exg_run_is :
  exg_run = GenMergeHeapDefs.cJSONUtils_GenerateMergePatchCaseSensitive nofail (Some 1%positive) (Some 10%positive) exg_heap /\
  exg_after = out_heap exg_run exg_heap.
Proof. unfold exg_after, exg_run. split; reflexivity. Qed.

(** ** [generate_refines] instantiated on that very run *)
Lemma exg_run_is2 : generate_merge_patch nofail (Some 1%positive) (Some 10%positive) true exg_heap = exg_run.
Proof. unfold exg_run, GenMergeHeapDefs.cJSONUtils_GenerateMergePatchCaseSensitive. reflexivity. Qed.

Lemma Ok_triple_inj {A B C} (a a' : A) (b b' : B) (c c' : C) :
  @Ok (A * B * C) (a, b, c) = Ok (a', b', c') -> a = a' /\ b = b' /\ c = c'.
Proof. intros H. by injection H. Qed.
Lemma Some_eq_inj {A} (a b : A) : Some a = Some b -> a = b.
Proof. by intros [= ->]. Qed.

Lemma exg_instance :
  exists F' s tf' tt',
    exg_run = Ret (Some (tid s), exg_after) /\ tid s = 1000%positive /\
    MInv exg_after (F' ++ [s]) /\ NoLeak exg_after (F' ++ [s]) /\
    find_tree 1%positive F' = Some tf' /\ find_tree 10%positive F' = Some tt' /\ treord exg_from tf' /\ treord exg_to tt' /\
    reify (h_str exg_after) s = exg_patch /\
    reify (h_str exg_after) tf' = reify exg_St exg_from /\ reify (h_str exg_after) tt' = reify exg_St exg_to /\
    Rfc7396.merge (Some (reify (h_str exg_after) tf')) (reify (h_str exg_after) s) = reify (h_str exg_after) tt'.
Proof.
  destruct exg_hypotheses as (I & NL & _ & Hf & Ht & Hdis & Gf & Gt & Hh & _).
  destruct (generate_refines true exg_heap exg_F 1%positive 10%positive exg_from exg_to I Hf Ht Hdis Gf Gt Hh)
    as (h' & F' & res & tf' & tt' & Hrun & I' & _ & Hf' & Ht' & Rf & Rt & V & NL' & _).
  rewrite exg_run_is2 in Hrun.
  destruct exg_result as (R1 & _ & R3 & R4 & _).
  assert (E2 : h_str exg_heap = exg_St) by reflexivity. rewrite E2 in V.
  unfold MergeDefs.cJSONUtils_GenerateMergePatchCaseSensitive in R3. rewrite R3 in V.
  rewrite Hrun in R1. cbn [out_val] in R1.
  destruct res as [s|]; [|discriminate R1]. cbn [fmap option_fmap option_map opt_list] in Hrun, I', NL', V, R1.
  apply Some_eq_inj, Some_eq_inj in R1. apply Ok_triple_inj in V as (V1 & V2 & V3).
  apply Some_eq_inj in V1, V2, V3.
  assert (Ea : exg_after = h') by (rewrite (proj2 exg_run_is), Hrun; reflexivity).
  rewrite Ea. exists F', s, tf', tt'. split; [exact Hrun|]. split; [exact R1|]. split; [exact I'|]. split; [exact (NL' NL)|].
  split; [exact Hf'|]. split; [exact Ht'|]. split; [exact Rf|]. split; [exact Rt|]. split; [exact (eq_sym V1)|].
  split; [exact (eq_sym V2)|]. split; [exact (eq_sym V3)|]. rewrite <- V1, <- V2, <- V3. exact R4.
Qed.

(** ** the round trip on the heap: cJSONUtils_MergePatchCaseSensitive(from, patch) after the generation *)
Definition exg_run2 : out (ptr * heap) :=
  MergeHeapDefs.cJSONUtils_MergePatchCaseSensitive nofail (Some 1%positive) (Some 1000%positive) exg_after.
Definition exg_after2 : heap := out_heap exg_run2 exg_after.

Lemma exg_roundtrip :
  (* the call returns [from]'s pointer, and [from] now reads back as [to] *)
  out_val exg_run2 = Some (Some 1%positive) /\
  out_val (CoreOps.dump_node 50 (Some 1%positive) exg_after2) = Some (Some (reify exg_St exg_to, true)) /\
  (* the patch and [to] are as they were *)
  out_val (CoreOps.dump_node 50 (Some 1000%positive) exg_after2) = Some (Some (exg_patch, true)) /\
  out_val (CoreOps.dump_node 50 (Some 10%positive) exg_after2) = Some (Some (reify exg_St exg_to, true)).
Proof. split_and!; vm_compute; reflexivity. Qed.

Lemma exg_run2_is :
  exg_run2 = MergeHeapDefs.cJSONUtils_MergePatchCaseSensitive nofail (Some 1%positive) (Some 1000%positive) exg_after /\
  exg_after2 = out_heap exg_run2 exg_after.
Proof. unfold exg_after2, exg_run2. split; reflexivity. Qed.

(** [generate_then_merge] instantiated on the two runs *)
Lemma exg_compose_instance :
  exists ty, exg_run2 = Ret (Some (tid ty), exg_after2) /\ tid ty = 1%positive /\
    Rfc7396.doc_eq (reify (h_str exg_after2) ty) (reify exg_St exg_to) = true.
Proof.
  destruct exg_hypotheses as (I & NL & Hfr & Hf & Ht & Hdis & Gf & Gt & Hh & Df & Dt & Hnn & Hdf & Hdt).
  destruct (generate_then_merge exg_heap exg_F 1%positive 10%positive exg_from exg_to I Hfr Ht Hdis Df Dt Hnn Hdf Hdt)
    as (h1 & F1 & res & tf' & tt' & Hrun1 & _ & _ & _ & _ & _ & _ & _ & Hres).
  rewrite <- (proj1 exg_run_is) in Hrun1.
  destruct exg_result as (R1 & _). rewrite Hrun1 in R1. cbn [out_val] in R1.
  destruct res as [s|]; [|discriminate R1]. cbn [fmap option_fmap option_map] in R1, Hrun1. apply Some_eq_inj, Some_eq_inj in R1.
  assert (Ea : exg_after = h1) by (rewrite (proj2 exg_run_is), Hrun1; reflexivity).
  destruct Hres as (h2 & ty & Hrun2 & _ & _ & _ & _ & _ & _ & Hd).
  rewrite R1, <- Ea in Hrun2. rewrite <- (proj1 exg_run2_is) in Hrun2.
  assert (Ea2 : exg_after2 = h2) by (rewrite (proj2 exg_run2_is), Hrun2; reflexivity).
  destruct exg_roundtrip as (Q1 & _). rewrite Hrun2 in Q1. cbn [out_val] in Q1. apply Some_eq_inj, Some_eq_inj in Q1.
  exists ty. rewrite Ea2. split; [exact Hrun2|]. split; [exact Q1|]. exact Hd.
Qed.

(** ** the hypothesis [gdoc] cannot be dropped (all three confirmed on /repo with a probe) *)
Definition out_err {A} (o : out (A * heap)) : option err := match o with Ret _ => None | Err e => Some e end.

(** (1) a member of [from] WITHOUT a name (what cJSON_AddItemToArray(object, item) builds), [to] = {}:
    cJSON_AddItemToObject(patch, NULL, cJSON_CreateNull()) refuses, generate_merge_patch ignores that; the call
    returns NULL ("no patch") and the null item (block 1001) stays allocated, unreachable: [NoLeak] fails.
    On /repo: returns NULL, one allocation outstanding after everything is deleted. *)
Definition exn_from1 : tree := exh_mk 1 c_cJSON_Object None 0 None [exh_mk 2 c_cJSON_Number None 5 None []].
Definition exn_to1 : tree := exh_mk 10 c_cJSON_Object None 0 None [].
Definition exn_F1 : forest := [exn_from1; exn_to1].
Definition exn_heap1 : heap := heap_of_forest exn_F1 ∅.
Definition exn_run1 : out (ptr * heap) :=
  GenMergeHeapDefs.cJSONUtils_GenerateMergePatchCaseSensitive nofail (Some 1%positive) (Some 10%positive) exn_heap1.
Definition exn_after1 : heap := out_heap exn_run1 exn_heap1.

Lemma exn_run1_is :
  exn_run1 = GenMergeHeapDefs.cJSONUtils_GenerateMergePatchCaseSensitive nofail (Some 1%positive) (Some 10%positive) exn_heap1 /\
  exn_after1 = out_heap exn_run1 exn_heap1.
Proof. unfold exn_after1, exn_run1. split; reflexivity. Qed.

Lemma keyless_from_member_leaks :
  MInv exn_heap1 exn_F1 /\ NoLeak exn_heap1 exn_F1 /\
  find_tree 1%positive exn_F1 = Some exn_from1 /\ find_tree 10%positive exn_F1 = Some exn_to1 /\
  tdisj exn_from1 exn_to1 /\ gdoc exn_to1 /\ (height exn_to1 <= LIMIT)%nat /\ ~ gdoc exn_from1 /\
  out_val exn_run1 = Some None /\
  bool_decide (lib_live exn_after1 = list_to_set [1; 2; 10; 1001]%positive) = true /\
  h_lnk exn_after1 !! 1001%positive = Some (None, None) /\
  ~ NoLeak exn_after1 exn_F1.
Proof.
  split_and!; try (vm_compute; reflexivity).
  - apply heap_of_forest_MInv; vm_compute; reflexivity.
  - apply heap_of_forest_NoLeak.
  - apply tdisj_dec. vm_compute. reflexivity.
  - intros n Hn. apply elem_of_list_singleton in Hn as ->. split; [intros _ c Hc; by apply elem_of_nil in Hc|]. intros E. vm_compute in E. discriminate E.
  - vm_compute. lia.
  - intros H. destruct (gdoc_self _ H) as [H1 _]. apply (H1 eq_refl (exh_mk 2 c_cJSON_Number None 5 None [])); [by left|reflexivity].
  - intros NL. assert (Hin : 1001%positive ∈ lib_live exn_after1) by (apply (bool_decide_unpack _); vm_compute; exact I).
    apply NL in Hin. revert Hin. apply (bool_decide_unpack _). vm_compute. exact I.
Qed.

(** (2) members without a name on BOTH sides: strcmp(from_child->string, to_child->string) reads through NULL.
    On /repo: SEGV in strcmp, called from generate_merge_patch. *)
Definition exn_to2 : tree := exh_mk 10 c_cJSON_Object None 0 None [exh_mk 11 c_cJSON_Number None 6 None []].
Definition exn_heap2 : heap := heap_of_forest [exn_from1; exn_to2] ∅.
Lemma keyless_members_null_deref :
  MInv exn_heap2 [exn_from1; exn_to2] /\
  out_err (GenMergeHeapDefs.cJSONUtils_GenerateMergePatchCaseSensitive nofail (Some 1%positive) (Some 10%positive) exn_heap2) = Some NullDeref.
Proof. split; [apply heap_of_forest_MInv; vm_compute; reflexivity|vm_compute; reflexivity]. Qed.

(** (3) two string nodes WITHOUT a valuestring under the same name: compare_json calls
    strcmp(a->valuestring, b->valuestring).  On /repo: SEGV in strcmp, called from compare_json. *)
Definition exn_from3 : tree := exh_mk 1 c_cJSON_Object None 0 None [exh_mk 2 c_cJSON_String None 0 (Some 101%positive) []].
Definition exn_to3 : tree := exh_mk 10 c_cJSON_Object None 0 None [exh_mk 11 c_cJSON_String None 0 (Some 111%positive) []].
Definition exn_St3 : gmap positive bytes := list_to_map [(101%positive, [107; 0]); (111%positive, [107; 0])].
Definition exn_heap3 : heap := heap_of_forest [exn_from3; exn_to3] exn_St3.
Lemma string_without_value_null_deref :
  MInv exn_heap3 [exn_from3; exn_to3] /\
  out_err (GenMergeHeapDefs.cJSONUtils_GenerateMergePatchCaseSensitive nofail (Some 1%positive) (Some 10%positive) exn_heap3) = Some NullDeref.
Proof. split; [apply heap_of_forest_MInv; vm_compute; reflexivity|vm_compute; reflexivity]. Qed.
