(** MergeComplete.v — the converse direction for objects: when [from] and [to] are equal documents
    ([doc_eq]), compare_json answers true and generate_merge_patch produces no patch (NULL).  Together with
    C18_generate: for two objects, "no patch generated" holds exactly when the documents are equal. *)
From Coq Require Import Permutation Sorted.
From CJ Require Import Base Dbl Tree CompareDefs CompareProofs MergeDefs Rfc7396 MergeLemmas MergeSort MergeApply MergePerm
  MergeGen MergeGenerate MergeTotal MergeTransfer.
Local Open Scope Z_scope.

(** * two strictly sorted member lists with the same names are aligned *)
Lemma key_lt_irrefl x : has_key x -> ~ key_lt x x.
Proof. intros [k [Hk _]] H. rewrite (key_lt_intro _ _ _ _ Hk Hk), strcmp_refl in H. lia. Qed.
Lemma key_lt_asym x y : has_key x -> has_key y -> key_lt x y -> key_lt y x -> False.
Proof.
  intros [kx [Hx Zx]] [ky [Hy Zy]] H1 H2. rewrite (key_lt_intro _ _ _ _ Hx Hy) in H1. rewrite (key_lt_intro _ _ _ _ Hy Hx) in H2.
  destruct (strcmp_antisym kx ky Zx Zy) as [A _]. lia.
Qed.
Lemma key_lt_key x y z : n_key y = n_key z -> key_lt x y -> key_lt x z.
Proof. unfold key_lt. intros ->. auto. Qed.
Lemma key_lt_key_l x y z : n_key x = n_key z -> key_lt x y -> key_lt z y.
Proof. unfold key_lt. intros ->. auto. Qed.

Lemma sorted_same_keys : forall l m, Forall has_key l -> Forall has_key m ->
  StronglySorted key_lt l -> StronglySorted key_lt m ->
  (forall k, In k (map n_key l) <-> In k (map n_key m)) -> map n_key l = map n_key m.
Proof.
  induction l as [|x l IH]; intros [|y m] Kl Km Sl Sm Hs.
  - reflexivity.
  - exfalso. apply (proj2 (Hs (n_key y))). left. reflexivity.
  - exfalso. apply (proj1 (Hs (n_key x))). left. reflexivity.
  - inversion Kl as [|? ? Kx Kl']; subst. inversion Km as [|? ? Ky Km']; subst.
    inversion Sl as [|? ? Sl' Lx]; subst. inversion Sm as [|? ? Sm' Ly]; subst.
    rewrite Forall_forall in Lx, Ly, Kl', Km'.
    assert (Exy : n_key x = n_key y).
    { destruct (proj1 (Hs (n_key x)) (or_introl eq_refl)) as [E|Hin]; [congruence|].
      destruct (proj2 (Hs (n_key y)) (or_introl eq_refl)) as [E|Hin2]; [exact E|].
      apply in_map_iff in Hin. destruct Hin as [c [Ec Hc]]. apply in_map_iff in Hin2. destruct Hin2 as [d [Ed Hd]].
      exfalso. apply (key_lt_asym x y Kx Ky).
      - apply (key_lt_key x d y Ed). apply Lx. exact Hd.
      - apply (key_lt_key y c x Ec). apply Ly. exact Hc. }
    cbn [map]. f_equal; [exact Exy|]. apply IH; try assumption; try (apply Forall_forall; assumption).
    intro k. split; intro Hin.
    + destruct (proj1 (Hs k) (or_intror Hin)) as [E|H]; [|exact H]. exfalso.
      apply in_map_iff in Hin. destruct Hin as [c [Ec Hc]]. apply (key_lt_irrefl c (Kl' c Hc)).
      apply (key_lt_key_l x c c); [congruence|]. apply Lx. exact Hc.
    + destruct (proj2 (Hs k) (or_intror Hin)) as [E|H]; [|exact H]. exfalso.
      apply in_map_iff in Hin. destruct Hin as [c [Ec Hc]]. apply (key_lt_irrefl c (Km' c Hc)).
      apply (key_lt_key_l y c c); [congruence|]. apply Ly. exact Hc.
Qed.

(** * from doc_eq of two objects to aligned pairs of their sorted members *)
Definition paired (x y : node) : Prop := n_key x = n_key y /\ doc_eq x y = true.

Lemma doc_eq_object_members a b : is_object a = true -> doc_eq a b = true ->
  is_object b = true /\
  (forall x, In x (n_children a) -> exists y, m7396_lookup (n_key x) (n_children b) = Some y /\ doc_eq x y = true) /\
  (forall y, In y (n_children b) -> exists x, m7396_lookup (n_key y) (n_children a) = Some x).
Proof.
  intros Oa H. rewrite doc_eq_unfold in H. apply Z.eqb_eq in Oa. rewrite Oa in H. apply andb_true_iff in H. destruct H as [Ht H].
  apply Z.eqb_eq in Ht. revert H. tyred. intro H. apply andb_true_iff in H. destruct H as [H1 H2].
  rewrite forallb_forall in H1, H2. split; [apply Z.eqb_eq; congruence|]. split.
  - intros x Hx. specialize (H1 x Hx). destruct (m7396_lookup (n_key x) (n_children b)) as [y|]; [|discriminate]. exists y. auto.
  - intros y Hy. specialize (H2 y Hy). destruct (m7396_lookup (n_key y) (n_children a)) as [x|]; [|discriminate]. exists x. auto.
Qed.

Lemma aligned_pairs : forall la lb, map n_key la = map n_key lb -> keys_ok la -> keys_ok lb ->
  (forall x, In x la -> exists y, m7396_lookup (n_key x) lb = Some y /\ doc_eq x y = true) -> Forall2 paired la lb.
Proof.
  induction la as [|x la IH]; intros [|y lb] E Ka Kb H; try discriminate; [constructor|].
  cbn [map] in E. injection E as Exy E. destruct Ka as [Ka Na]. destruct Kb as [Kb Nb].
  inversion Ka as [|? ? [kx [Hkx _]] Ka']; subst. inversion Kb as [|? ? Ky Kb']; subst.
  inversion Na as [|? ? Nx Na']; subst. inversion Nb as [|? ? Ny Nb']; subst.
  constructor.
  - split; [exact Exy|]. destruct (H x (or_introl eq_refl)) as [y' [Hl Hd]].
    rewrite Hkx in Hl. rewrite lookup_cons in Hl. assert (Hn : m7396_named (Some kx) y = true) by (apply named_true; congruence).
    rewrite Hn in Hl. injection Hl as <-. exact Hd.
  - apply IH; try assumption; try (split; assumption).
    intros c Hc. destruct (H c (or_intror Hc)) as [y' [Hl Hd]]. exists y'. split; [|exact Hd].
    rewrite Forall_forall in Ka'. destruct (Ka' c Hc) as [kc [Hkc _]]. rewrite Hkc in *. rewrite lookup_cons in Hl.
    assert (Hn : m7396_named (Some kc) y = false).
    { apply named_false. rewrite <- Exy, Hkx. intro E2. apply Nx. rewrite Hkx, E2, <- Hkc. apply in_map. exact Hc. }
    rewrite Hn in Hl. exact Hl.
Qed.

Lemma lookup_perm_opt ko l m : Permutation l m -> NoDup (map n_key l) -> m7396_lookup ko l = m7396_lookup ko m.
Proof. destruct ko as [k|]; [apply lookup_perm|intros; rewrite !lookup_nokey; reflexivity]. Qed.

Lemma sorted_members_paired a b sa sb : gd a -> gd b -> is_object a = true -> doc_eq a b = true ->
  mp_sort_members true (n_children a) = Ok sa -> mp_sort_members true (n_children b) = Ok sb ->
  Forall2 paired sa sb /\ Forall has_key sa /\ Forall has_key sb /\ Forall gd sa /\ Forall gd sb.
Proof.
  intros Ga Gb Oa Hd Esa Esb. destruct (doc_eq_object_members a b Oa Hd) as [Ob [H1 H2]].
  destruct (sort_members_strict _ _ (gd_keys _ Ga Oa) Esa) as [Ssa [Ksa Psa]].
  destruct (sort_members_strict _ _ (gd_keys _ Gb Ob) Esb) as [Ssb [Ksb Psb]].
  pose proof (gd_keys _ Ga Oa) as Ka. pose proof (gd_keys _ Gb Ob) as Kb.
  assert (Gsa : Forall gd sa) by (apply (Forall_perm _ _ _ Psa); apply gd_eq in Ga; tauto).
  assert (Gsb : Forall gd sb) by (apply (Forall_perm _ _ _ Psb); apply gd_eq in Gb; tauto).
  split; [|split; [apply Ksa|split; [apply Ksb|split; assumption]]].
  apply aligned_pairs; try assumption.
  - apply sorted_same_keys; try assumption; [apply Ksa|apply Ksb|].
    intro k. split; intro Hin.
    + apply (Permutation_in _ (Permutation_map n_key Psb)).
      apply (Permutation_in _ (Permutation_sym (Permutation_map n_key Psa))) in Hin.
      apply in_map_iff in Hin. destruct Hin as [x [Ex Hx]]. destruct (H1 x Hx) as [y [Hl _]].
      destruct (n_key x) as [kx|] eqn:Ekx; [|rewrite lookup_nokey in Hl; discriminate].
      apply lookup_some in Hl. destruct Hl as [Hy Hky]. rewrite <- Ex, <- Hky. apply in_map. exact Hy.
    + apply (Permutation_in _ (Permutation_map n_key Psa)).
      apply (Permutation_in _ (Permutation_sym (Permutation_map n_key Psb))) in Hin.
      apply in_map_iff in Hin. destruct Hin as [y [Ey Hy]]. destruct (H2 y Hy) as [x Hl].
      destruct (n_key y) as [ky|] eqn:Eky; [|rewrite lookup_nokey in Hl; discriminate].
      apply lookup_some in Hl. destruct Hl as [Hx Hkx]. rewrite <- Ey, <- Hkx. apply in_map. exact Hx.
  - intros x Hx. apply (Permutation_in _ (Permutation_sym Psa)) in Hx. destruct (H1 x Hx) as [y [Hl Hdxy]].
    exists y. split; [|exact Hdxy]. rewrite <- (lookup_perm_opt _ _ _ Psb (proj2 Kb)). exact Hl.
Qed.

(** * compare_json answers true on equal documents *)
Definition cmp_complete (cmp : node -> node -> res (bool * node * node)) : Prop :=
  forall x y r x' y', cmp x y = Ok (r, x', y') -> gd x -> gd y -> doc_eq x y = true -> r = true.

Lemma arr_walk_complete cmp : cmp_complete cmp -> forall la lb r la' lb',
  mp_arr_walk cmp la lb = Ok (r, la', lb') -> Forall gd la -> Forall gd lb -> arr_eq doc_eq la lb = true -> r = true.
Proof.
  intro Hc. induction la as [|x la IH]; intros [|y lb] r la' lb' H Ga Gb He; cbn [mp_arr_walk arr_eq] in *; try discriminate.
  - injection H as <- _ _. reflexivity.
  - apply andb_true_iff in He. destruct He as [He1 He2]. inversion Ga; subst. inversion Gb; subst.
    destruct (cmp x y) as [[[r0 x'] y']| |] eqn:E; cbn [bind] in H; try discriminate.
    rewrite (Hc _ _ _ _ _ E) in H by assumption.
    destruct (mp_arr_walk cmp la lb) as [[[r2 la2] lb2]| |] eqn:E2; cbn [bind] in H; try discriminate.
    injection H as <- _ _. eapply IH; eassumption.
Qed.

Lemma obj_walk_complete cmp : cmp_complete cmp -> forall la lb r la' lb',
  mp_obj_walk cmp true la lb = Ok (r, la', lb') -> Forall2 paired la lb -> Forall has_key la -> Forall gd la -> Forall gd lb -> r = true.
Proof.
  intros Hc la lb r la' lb' H F. revert r la' lb' H. induction F as [|x y la lb [Ek Hd] _ IH]; intros r la' lb' H Ka Ga Gb; cbn [mp_obj_walk] in H.
  - injection H as <- _ _. reflexivity.
  - inversion Ka as [|? ? [kx [Hkx _]] Ka']; subst. inversion Ga; subst. inversion Gb; subst.
    rewrite <- Ek, Hkx in H. unfold mp_compare_strings in H. rewrite strcmp_refl in H. cbn [Z.eqb negb] in H.
    destruct (cmp x y) as [[[r0 x'] y']| |] eqn:E; cbn [bind] in H; try discriminate.
    rewrite (Hc _ _ _ _ _ E) in H by assumption.
    destruct (mp_obj_walk cmp true la lb) as [[[r2 la2] lb2]| |] eqn:E2; cbn [bind] in H; try discriminate.
    injection H as <- _ _. eapply IH; eauto.
Qed.

Lemma compare_json_complete : forall fuel, cmp_complete (mp_compare_json fuel true).
Proof.
  induction fuel as [|f IH]; intros a b r a' b' H Ga Gb Hd; [discriminate|].
  cbn [mp_compare_json] in H. pose proof Hd as Hd0. rewrite doc_eq_unfold in Hd. apply andb_true_iff in Hd. destruct Hd as [Ht Hd].
  rewrite Ht in H. cbn [negb] in H. apply Z.eqb_eq in Ht.
  destruct (Z.eqb_spec (tymask (n_ty a)) c_cJSON_Number) as [En|Nn].
  { injection H as <- _ _. exact Hd. }
  destruct (Z.eqb_spec (tymask (n_ty a)) c_cJSON_String) as [Es|Ns].
  { cbn [orb] in Hd. destruct (n_vstr a) as [x|]; [|discriminate]. destruct (n_vstr b) as [y|]; [|discriminate].
    injection H as <- _ _. apply bytes_eqb_eq in Hd. subst y. rewrite strcmp_refl. reflexivity. }
  assert (Er : (tymask (n_ty a) =? c_cJSON_Raw) = false).
  { apply gd_eq in Ga. destruct Ga as [[Hk _] _]. destruct Hk as [E|[E|[E|[E|[E|[E|E]]]]]]; rewrite E; reflexivity. }
  rewrite Er in Hd. cbn [orb] in Hd.
  destruct (Z.eqb_spec (tymask (n_ty a)) c_cJSON_Array) as [Ea|Na].
  { destruct (mp_arr_walk (mp_compare_json f true) (n_children a) (n_children b)) as [[[r0 la] lb]| |] eqn:E; cbn [bind] in H; try discriminate.
    injection H as <- _ _. apply (arr_walk_complete _ IH _ _ _ _ _ E); [apply gd_eq in Ga; tauto|apply gd_eq in Gb; tauto|exact Hd]. }
  destruct (Z.eqb_spec (tymask (n_ty a)) c_cJSON_Object) as [Eo|No]; [|injection H as <- _ _; reflexivity].
  destruct (mp_sort_members true (n_children a)) as [sa| |] eqn:Esa; cbn [bind] in H; try discriminate.
  destruct (mp_sort_members true (n_children b)) as [sb| |] eqn:Esb; cbn [bind] in H; try discriminate.
  destruct (mp_obj_walk (mp_compare_json f true) true sa sb) as [[[r0 la] lb]| |] eqn:E; cbn [bind] in H; try discriminate.
  injection H as <- _ _.
  assert (Oa : is_object a = true) by (apply Z.eqb_eq; exact Eo).
  destruct (sorted_members_paired a b sa sb Ga Gb Oa Hd0 Esa Esb) as [F [Ksa [Ksb [Gsa Gsb]]]].
  apply (obj_walk_complete _ IH _ _ _ _ _ E F Ksa Gsa Gsb).
Qed.

(** * no patch for equal objects *)
Lemma gen_walk_complete cmp gen : cmp_complete cmp -> forall fl tl p fl' tl',
  mp_gen_walk cmp gen fl tl = Ok (p, fl', tl') -> Forall2 paired fl tl -> Forall has_key fl -> Forall gd fl -> Forall gd tl -> p = [].
Proof.
  intros Hc fl tl p fl' tl' H F. revert p fl' tl' H. induction F as [|x y fl tl [Ek Hd] _ IH]; intros p fl' tl' H Kf Gf Gt.
  - rewrite gen_walk_nil_nil in H. injection H as <- _ _. reflexivity.
  - inversion Kf as [|? ? [kx [Hkx _]] Kf']; subst. inversion Gf; subst. inversion Gt; subst.
    rewrite gen_walk_cons_cons, <- Ek, Hkx, strcmp_refl in H. cbn [Z.ltb Z.compare] in H.
    destruct (cmp x y) as [[[same x'] y']| |] eqn:E; cbn [bind] in H; try discriminate.
    rewrite (Hc _ _ _ _ _ E) in H by assumption.
    destruct (mp_gen_walk cmp gen fl tl) as [[[p2 fl2] tl2]| |] eqn:E2; cbn [bind] in H; try discriminate.
    injection H as <- _ _. eapply IH; eauto.
Qed.

Theorem generate_none_of_equal fuel from to p from' to' :
  gd from -> gd to -> is_object from = true -> doc_eq from to = true ->
  mp_generate_merge_patch fuel true from to = Ok (p, from', to') -> p = None.
Proof.
  intros Gf Gt Of Hd H. destruct fuel as [|f]; [discriminate|]. cbn [mp_generate_merge_patch] in H.
  destruct (doc_eq_object_members from to Of Hd) as [Ot _]. rewrite Of, Ot in H. cbn [negb orb] in H.
  destruct (mp_sort_members true (n_children from)) as [sf| |] eqn:Esf; cbn [bind] in H; try discriminate.
  destruct (mp_sort_members true (n_children to)) as [st| |] eqn:Est; cbn [bind] in H; try discriminate.
  destruct (mp_gen_walk (mp_compare_json_top true) (mp_generate_merge_patch f true) sf st) as [[[pm fl] tl]| |] eqn:E; cbn [bind] in H; try discriminate.
  destruct (sorted_members_paired from to sf st Gf Gt Of Hd Esf Est) as [F [Ksf [_ [Gsf Gst]]]].
  assert (Hc : cmp_complete (mp_compare_json_top true)) by (intros x y r x' y' Hxy; apply (compare_json_complete _ _ _ _ _ _ Hxy)).
  rewrite (gen_walk_complete _ _ Hc _ _ _ _ _ E F Ksf Gsf Gst) in H. injection H as <- _ _. reflexivity.
Qed.
