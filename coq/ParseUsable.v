(** ParseUsable.v — property C01, the "usable result" clause, part 1 and 2: SHAPE of every tree
    the parser returns, and the printer on it.

    * [shape B D keyed d n]: n is a well-formed JSON tree as the parser builds them — the type is
      exactly one of NULL/False/True/Number/String/Array/Object (no flag bit, nothing else), the
      scalar fields are what parse_value stores (numbers: valueint = [sat_int valuedouble], no
      valuestring; strings: a zero-free valuestring; everything else 0 / 0.0 / NULL), the children
      of an object carry a zero-free key, the children of an array and the root carry none,
      containers nest at most [d] deep.  [B] is a predicate on the bytes of strings and keys, [D] a
      predicate on the doubles of numbers (instantiated by "is a byte" / "is an IEEE binary64 value"
      when the printer is concerned, by [True] otherwise).
    * [value_l_shape], [parsed_tree_shape]: every tree accepted by the list-level specification
      [ParseSpec.text_l] (= every tree the buffer-level entry points return, ParseRefine.v) has
      that shape at depth CJSON_NESTING_LIMIT — by induction on the fuel of [value_l].
    * [shape_printable], [shape_fields_ok], [shape_cdepth]: a tree of that shape whose string bytes
      are bytes and whose doubles are binary64 values satisfies the hypotheses of the printer
      theorems (PrintStrict.printable, PrintDefs.fields_ok, depth <= limit);
    * [parsed_tree_prints]: hence [render] succeeds on it in both formats, the text is an RFC 8259
      text, and cJSON_Print / cJSON_PrintUnformatted / cJSON_PrintBuffered return exactly that text
      when no allocation fails (C09 refinement re-exported).
    * strtod contract clause used: [strtod_valid] (the returned double is a binary64 value),
      proved for the reference strtod in RoundTripRefValid.v. *)
From CJ Require Import Base Dbl Tree ParseDefs ParseSpec Grammar ParseRefine ParseSoundUtf8
  PrintDefs PrintProofs PrintStrict PrintStrictWs RoundTripNum.
Local Open Scope Z_scope.

(** * the shape of a parsed tree *)

Definition zero_free (s : bytes) : Prop := Forall (fun c => c <> 0) s.

Section Shape.
  Variable B : Z -> Prop.        (* what is known about the bytes of strings and keys *)
  Variable D : dbl -> Prop.      (* what is known about the doubles of number nodes *)

  Definition str_ok (s : bytes) : Prop := zero_free s /\ Forall B s.
  (** the [string] field: the members of an object have a name, nothing else has *)
  Definition key_ok (keyed : bool) (k : option bytes) : Prop :=
    match k with Some s => keyed = true /\ str_ok s | None => keyed = false end.

  Inductive shape : bool -> nat -> node -> Prop :=
  | sh_null k d key : key_ok k key -> shape k d (Node c_cJSON_NULL None 0 dzero key [])
  | sh_false k d key : key_ok k key -> shape k d (Node c_cJSON_False None 0 dzero key [])
  | sh_true k d key : key_ok k key -> shape k d (Node c_cJSON_True None 1 dzero key [])
  | sh_number k d key x : key_ok k key -> D x -> shape k d (Node c_cJSON_Number None (sat_int x) x key [])
  | sh_string k d key s : key_ok k key -> str_ok s -> shape k d (Node c_cJSON_String (Some s) 0 dzero key [])
  | sh_array k d key ch : key_ok k key -> Forall (shape false d) ch ->
      shape k (S d) (Node c_cJSON_Array None 0 dzero key ch)
  | sh_object k d key ch : key_ok k key -> Forall (shape true d) ch ->
      shape k (S d) (Node c_cJSON_Object None 0 dzero key ch).

  Lemma shape_with_key d key v : str_ok key -> shape false d v -> shape true d (with_key key v).
  Proof.
    intros Hk H. assert (K : key_ok true (Some key)) by (split; [reflexivity|exact Hk]).
    inversion H; subst; cbn [with_key]; constructor; assumption.
  Qed.

  Lemma shape_key keyed d n : shape keyed d n -> key_ok keyed (n_key n).
  Proof. intro H. inversion H; subst; assumption. Qed.
End Shape.

(** what the constructors say, field by field (for the reader; not used below) *)
Lemma shape_fields B D keyed d n : shape B D keyed d n ->
  let ty := n_ty n in
  (ty = c_cJSON_NULL \/ ty = c_cJSON_False \/ ty = c_cJSON_True \/ ty = c_cJSON_Number \/
   ty = c_cJSON_String \/ ty = c_cJSON_Array \/ ty = c_cJSON_Object) /\
  tymask ty = ty /\ Z.land ty c_cJSON_IsReference = 0 /\ Z.land ty c_cJSON_StringIsConst = 0 /\
  (ty = c_cJSON_Number -> n_vint n = sat_int (n_vdbl n) /\ n_vstr n = None) /\
  (ty = c_cJSON_String -> exists s, n_vstr n = Some s /\ zero_free s) /\
  (ty <> c_cJSON_String -> n_vstr n = None) /\
  (ty <> c_cJSON_Array -> ty <> c_cJSON_Object -> n_children n = []) /\
  (ty = c_cJSON_Object -> Forall (fun c => exists k, n_key c = Some k /\ zero_free k) (n_children n)) /\
  (ty = c_cJSON_Array -> Forall (fun c => n_key c = None) (n_children n)) /\
  (keyed = false -> n_key n = None).
Proof.
  intro H. cbv zeta.
  assert (Hkey : keyed = false -> n_key n = None).
  { intro E. apply shape_key in H. destruct (n_key n) as [s|]; [|reflexivity]. destruct H as [H _]. congruence. }
  inversion H as [k d0 key Hk|k d0 key Hk|k d0 key Hk|k d0 key x Hk Hx|k d0 key s Hk Hs|k d0 key ch Hk Hch|k d0 key ch Hk Hch];
    subst; cbn [n_ty n_vint n_vdbl n_vstr n_children n_key] in *;
    (split; [tauto|]); (split; [reflexivity|]); (split; [reflexivity|]); (split; [reflexivity|]);
    (split; [first [discriminate | intros _; split; reflexivity]|]);
    (split; [first [discriminate | intros _; exists s; split; [reflexivity|apply Hs]]|]);
    (split; [first [congruence | reflexivity]|]);
    (split; [first [congruence | reflexivity]|]);
    (split; [|split; [|exact Hkey]]); try discriminate.
  - intros _. eapply Forall_impl; [|exact Hch]. intros c Hc. apply shape_key in Hc.
    destruct (n_key c) as [k'|]; [|reflexivity]. destruct Hc as [Hc _]. discriminate Hc.
  - intros _. eapply Forall_impl; [|exact Hch]. intros c Hc. apply shape_key in Hc.
    destruct (n_key c) as [k'|]; [|discriminate Hc]. destruct Hc as [_ [Hz _]]. exists k'. split; [reflexivity|exact Hz].
Qed.

(** * every accepted text yields a tree of that shape *)
Require Import ZifyBool.
From CJ Require Import ParseSound.

Lemma utf8_of_codepoint_bytes cp : 0 <= cp <= 1114111 -> Forall (fun c => is_byte c = true) (utf8_of_codepoint cp).
Proof.
  intro H. unfold utf8_of_codepoint, is_byte.
  destruct (Z.ltb_spec cp 128); [|destruct (Z.ltb_spec cp 2048); [|destruct (Z.ltb_spec cp 65536)]];
    repeat constructor;
    match goal with |- (0 <=? ?x) && (?x <? 256) = true =>
      assert (0 <= x < 256) by (Z.div_mod_to_equations; lia); lia end.
Qed.

Lemma simple_escape_byte e v : simple_escape e = Some v -> is_byte v = true.
Proof.
  unfold simple_escape. intro H.
  repeat match type of H with (if ?c then _ else _) = _ => destruct c end;
    try discriminate; inversion H; subst; reflexivity.
Qed.

Lemma cstr_Forall (P : Z -> Prop) b : Forall P b -> Forall P (cstr b).
Proof.
  induction 1 as [|c b Hc _ IH]; cbn [cstr]; [constructor|].
  destruct (c =? 0); [constructor|constructor; assumption].
Qed.

Section Parsed.
  Variable strtod : bytes -> option (dbl * nat).
  Variable B : Z -> Prop.
  Variable D : dbl -> Prop.
  Hypothesis HB : forall c, is_byte c = true -> B c.
  Hypothesis HD : forall s d k, strtod s = Some (d, k) -> D d.

  Notation shape := (shape B D).
  Notation str_ok := (str_ok B).

  Lemma bytes_B b : Forall (fun c => is_byte c = true) b -> Forall B b.
  Proof. intro H. eapply Forall_impl; [|exact H]. exact HB. Qed.

  Lemma chars_B body o : chars len_raw body o -> Forall B body -> Forall B o.
  Proof.
    induction 1 as [|c b s N1 N2 _ _ IH|e v b s He _ IH|h1 h2 h3 h4 u b s Hu Hh Hl _ IH
                    |h1 h2 h3 h4 l1 l2 l3 l4 hi lo b s Hhi Hh Hlo Hl _ IH]; intro HF.
    - constructor.
    - inversion HF; subst. constructor; auto.
    - inversion HF as [|? ? _ HF1]; subst. inversion HF1; subst.
      constructor; [apply HB, (simple_escape_byte _ _ He)|auto].
    - apply Forall_app. split.
      + apply bytes_B, utf8_of_codepoint_bytes. pose proof (hex4v_range _ _ _ _ _ Hu). lia.
      + apply IH. do 6 (inversion HF as [|? ? _ HF']; subst; clear HF; rename HF' into HF). exact HF.
    - apply Forall_app. split.
      + apply bytes_B, utf8_of_codepoint_bytes. pose proof (pair_codepoint_range hi lo Hh Hl). lia.
      + apply IH. do 12 (inversion HF as [|? ? _ HF']; subst; clear HF; rename HF' into HF). exact HF.
  Qed.

  Lemma drop_ws_B l : Forall B l -> Forall B (drop_ws l).
  Proof.
    induction 1 as [|c l Hc Hl IH]; cbn [drop_ws]; [constructor|].
    destruct (c <=? 32); [exact IH|constructor; assumption].
  Qed.

  Lemma starts_B lit : forall l r, starts lit l = Some r -> Forall B l -> Forall B r.
  Proof.
    induction lit as [|x lit IH]; intros l r H HF; cbn [starts] in H.
    - inversion H; subst. exact HF.
    - destruct l as [|c l]; [discriminate|]. destruct (c =? x); [|discriminate].
      inversion HF; subst. eapply IH; eassumption.
  Qed.

  Lemma string_l_B l s rest : string_l l = Some (s, rest) -> Forall B l -> str_ok s /\ Forall B rest.
  Proof.
    intros H HF. apply string_l_sound in H as (body & o & -> & Hc & ->).
    apply Forall_app in HF as [HF1 HF2]. inversion HF2; subst.
    split; [|assumption]. split; [apply cstr_zero_free|]. apply cstr_Forall. eapply chars_B; eassumption.
  Qed.

  Lemma skipn_B k : forall l, Forall B l -> Forall B (skipn k l).
  Proof.
    induction k as [|k IH]; intros l HF; [exact HF|]. destruct l as [|c l]; [constructor|].
    inversion HF; subst. cbn [skipn]. apply IH. assumption.
  Qed.

  Lemma number_l_B l t rest d : number_l strtod l = Some (t, rest) -> Forall B l ->
    shape false d t /\ Forall B rest.
  Proof.
    unfold number_l. intros H HF.
    destruct (strtod _) as [[x k]|] eqn:E; [|discriminate]. inversion H; subst.
    split; [|apply skipn_B; exact HF]. constructor; [reflexivity|]. eapply HD. exact E.
  Qed.

  (** [vl] yields trees of the shape, nested at most [d] deep, and leaves bytes *)
  Definition good_at (vl : bytes -> option (node * bytes)) (d : nat) : Prop :=
    forall l t rest, vl l = Some (t, rest) -> Forall B l -> shape false d t /\ Forall B rest.

  Lemma elems_l_B vl d : good_at vl d ->
    forall k l0 acc items rest, elems_l vl k l0 acc = Some (items, rest) -> Forall B l0 ->
      Forall (shape false d) acc -> Forall (shape false d) items /\ Forall B rest.
  Proof.
    intros Hvl. induction k as [|k IH]; intros l0 acc items rest H HF Hacc; [discriminate|].
    cbn [elems_l] in H.
    destruct (vl (drop_ws l0)) as [[v r2]|] eqn:Ev; [|discriminate].
    destruct (Hvl _ _ _ Ev (drop_ws_B _ HF)) as [Hv Hr2].
    pose proof (drop_ws_B _ Hr2) as Hd.
    destruct (drop_ws r2) as [|c2 r3]; [discriminate|]. inversion Hd; subst.
    destruct (c2 =? 44).
    - eapply IH; [exact H|assumption|]. constructor; assumption.
    - destruct (c2 =? 93); [|discriminate]. inversion H; subst. split; [|assumption].
      cbn [rev]. apply Forall_app. split; [apply Forall_rev; exact Hacc|]. constructor; [exact Hv|constructor].
  Qed.

  Lemma array_l_B vl d : good_at vl d ->
    forall r t rest, array_l vl r = Some (t, rest) -> Forall B r -> shape false (S d) t /\ Forall B rest.
  Proof.
    intros Hvl r t rest H HF. unfold array_l in H.
    pose proof (drop_ws_B _ HF) as Hd.
    destruct (drop_ws r) as [|c1 r1]; [discriminate|].
    destruct (c1 =? 93).
    - inversion H; subst. inversion Hd; subst. split; [|assumption]. constructor; [reflexivity|constructor].
    - destruct (elems_l vl (S (length r)) (c1 :: r1) []) as [[items rest']|] eqn:Ee; [|discriminate].
      inversion H; subst.
      destruct (elems_l_B vl d Hvl _ _ _ _ _ Ee Hd (Forall_nil _)) as [Hi Hr].
      split; [|exact Hr]. constructor; [reflexivity|exact Hi].
  Qed.

  Lemma members_l_B vl d : good_at vl d ->
    forall k l0 acc items rest, members_l vl k l0 acc = Some (items, rest) -> Forall B l0 ->
      Forall (shape true d) acc -> Forall (shape true d) items /\ Forall B rest.
  Proof.
    intros Hvl. induction k as [|k IH]; intros l0 acc items rest H HF Hacc; [discriminate|].
    cbn [members_l] in H.
    pose proof (drop_ws_B _ HF) as Hd0.
    destruct (drop_ws l0) as [|q rq]; [discriminate|]. inversion Hd0 as [|? ? Hq Hrq]; subst.
    destruct (negb (q =? 34)); [discriminate|].
    destruct (string_l rq) as [[key r2]|] eqn:Es; [|discriminate].
    destruct (string_l_B _ _ _ Es Hrq) as [Hkey Hr2].
    pose proof (drop_ws_B _ Hr2) as Hd2.
    destruct (drop_ws r2) as [|col r3]; [discriminate|]. inversion Hd2 as [|? ? Hcol Hr3]; subst.
    destruct (negb (col =? 58)); [discriminate|].
    destruct (vl (drop_ws r3)) as [[v0 r4]|] eqn:Ev; [|discriminate].
    destruct (Hvl _ _ _ Ev (drop_ws_B _ Hr3)) as [Hv Hr4].
    pose proof (drop_ws_B _ Hr4) as Hd4.
    destruct (drop_ws r4) as [|c2 r5]; [discriminate|]. inversion Hd4; subst.
    pose proof (shape_with_key B D d key v0 Hkey Hv) as Hwk.
    destruct (c2 =? 44).
    - eapply IH; [exact H|assumption|]. constructor; assumption.
    - destruct (c2 =? 125); [|discriminate]. inversion H; subst. split; [|assumption].
      cbn [rev]. apply Forall_app. split; [apply Forall_rev; exact Hacc|]. constructor; [exact Hwk|constructor].
  Qed.

  Lemma object_l_B vl d : good_at vl d ->
    forall r t rest, object_l vl r = Some (t, rest) -> Forall B r -> shape false (S d) t /\ Forall B rest.
  Proof.
    intros Hvl r t rest H HF. unfold object_l in H.
    pose proof (drop_ws_B _ HF) as Hd.
    destruct (drop_ws r) as [|c1 r1]; [discriminate|].
    destruct (c1 =? 125).
    - inversion H; subst. inversion Hd; subst. split; [|assumption]. constructor; [reflexivity|constructor].
    - destruct (members_l vl (S (length r)) (c1 :: r1) []) as [[items rest']|] eqn:Ee; [|discriminate].
      inversion H; subst.
      destruct (members_l_B vl d Hvl _ _ _ _ _ Ee Hd (Forall_nil _)) as [Hi Hr].
      split; [|exact Hr]. constructor; [reflexivity|exact Hi].
  Qed.

  (** the nesting budget left below depth [depth] *)
  Definition budget (depth : Z) : nat := Z.to_nat (c_CJSON_NESTING_LIMIT - depth).

  Lemma value_l_shape : forall fuel depth, 0 <= depth -> good_at (value_l strtod fuel depth) (budget depth).
  Proof.
    induction fuel as [|f IH]; intros depth Hdep l t rest H HF; [discriminate|].
    cbn [value_l] in H.
    destruct (starts [110; 117; 108; 108] l) as [r|] eqn:E1.
    { inversion H; subst. split; [constructor; reflexivity|eapply starts_B; eassumption]. }
    destruct (starts [102; 97; 108; 115; 101] l) as [r|] eqn:E2.
    { inversion H; subst. split; [constructor; reflexivity|eapply starts_B; eassumption]. }
    destruct (starts [116; 114; 117; 101] l) as [r|] eqn:E3.
    { inversion H; subst. split; [constructor; reflexivity|eapply starts_B; eassumption]. }
    destruct l as [|c r]; [discriminate|]. pose proof HF as HF0. inversion HF as [|? ? Hc Hr]; subst.
    destruct (c =? 34).
    { destruct (string_l r) as [[s rest']|] eqn:Es; [|discriminate]. inversion H; subst.
      destruct (string_l_B _ _ _ Es Hr) as [Hs Hr']. split; [|exact Hr']. constructor; [reflexivity|exact Hs]. }
    destruct ((c =? 45) || ((48 <=? c) && (c <=? 57))).
    { eapply number_l_B; eassumption. }
    assert (Hb : c_CJSON_NESTING_LIMIT <=? depth = false -> budget depth = S (budget (depth + 1))).
    { intro E. apply Z.leb_gt in E. unfold budget. rewrite <- Z2Nat.inj_succ by lia. f_equal. lia. }
    destruct (c =? 91).
    { destruct (c_CJSON_NESTING_LIMIT <=? depth) eqn:El; [discriminate|]. rewrite (Hb eq_refl).
      eapply array_l_B; [|exact H|assumption]. apply IH. lia. }
    destruct (c =? 123); [|discriminate].
    destruct (c_CJSON_NESTING_LIMIT <=? depth) eqn:El; [discriminate|]. rewrite (Hb eq_refl).
    eapply object_l_B; [|exact H|assumption]. apply IH. lia.
  Qed.

  (** PART 1.  Every tree of an accepted text is a well-formed JSON tree: root without key, at most
      CJSON_NESTING_LIMIT containers deep. *)
  Theorem text_l_shape l rnt t rest : Forall B l -> text_l strtod l rnt = Some (t, rest) ->
    shape false nesting_limit t.
  Proof.
    intros HF H. unfold text_l in H.
    set (l1 := match starts [239; 187; 191] l with Some r => r | None => l end) in *.
    assert (HF1 : Forall B l1).
    { unfold l1. destruct (starts [239; 187; 191] l) as [r|] eqn:E; [eapply starts_B; eassumption|exact HF]. }
    destruct (value_l strtod (S (length l)) 0 (drop_ws l1)) as [[t0 rest0]|] eqn:Ev; [|discriminate].
    destruct (value_l_shape _ 0 ltac:(lia) _ _ _ Ev (drop_ws_B _ HF1)) as [Hs _].
    assert (t0 = t) as <-.
    { destruct rnt; [|congruence]. destruct (drop_ws_nz rest0) as [|c r]; [discriminate|].
      destruct (c =? 0); [congruence|discriminate]. }
    exact Hs.
  Qed.
End Parsed.

(** PART 1, entry points: every tree returned by cJSON_ParseWithLengthOpts without allocation
    failure has the shape (a failure schedule only ever turns the tree into NULL: see
    [parsed_tree_shape_any_oracle] in ParseUsableAll.v for every schedule and every entry point). *)
Theorem parsed_tree_shape strtod (B : Z -> Prop) (D : dbl -> Prop) :
  (forall c, is_byte c = true -> B c) -> (forall s d k, strtod s = Some (d, k) -> D d) ->
  strtod_ok strtod ->
  forall content len rnt r t, (len <= length content)%nat -> Forall B (firstn len content) ->
    cJSON_ParseWithLengthOpts strtod never_fails content len rnt = Ok r -> pr_tree r = Some t ->
    shape B D false nesting_limit t.
Proof.
  intros HB HD Hok content len rnt r t Hlen HF Hr Ht.
  destruct (parse_refines_spec strtod content len rnt Hok Hlen) as (r0 & Hr0 & Hspec).
  rewrite Hr in Hr0. inversion Hr0; subst r0.
  destruct (text_l strtod (firstn len content) rnt) as [[t0 rest]|] eqn:E.
  - destruct Hspec as [Ht0 _]. rewrite Ht in Ht0. inversion Ht0; subst t0.
    eapply text_l_shape; eassumption.
  - rewrite Ht in Hspec. discriminate.
Qed.

(** * PART 2: the printer on a parsed tree *)

(** the strtod contract clause: a converted value is an IEEE binary64 value *)
Definition strtod_valid (strtod : bytes -> option (dbl * nat)) : Prop :=
  forall s d k, strtod s = Some (d, k) -> valid_dbl d = true.

Definition Bbyte (c : Z) : Prop := is_byte c = true.
Definition Dvalid (d : dbl) : Prop := valid_dbl d = true.

(** saturation: valueint of a parsed number is a C int *)
Lemma sat_int_in_range d : valid_dbl d = true -> c_INT_MIN <= sat_int d <= c_INT_MAX.
Proof.
  intro H. pose proof (sat_int_range d H) as R. unfold int_range in R.
  apply andb_true_iff in R as [R1 R2]. apply Z.leb_le in R1. apply Z.leb_le in R2. lia.
Qed.

Lemma Forall_forallb {A} (p : A -> bool) l : Forall (fun x => p x = true) l -> forallb p l = true.
Proof. induction 1 as [|x l Hx _ IH]; [reflexivity|]. cbn [forallb]. rewrite Hx, IH. reflexivity. Qed.

Lemma str_ok_bytes s : str_ok Bbyte s -> forallb is_byte (cstr s) = true.
Proof. intros [_ H]. apply Forall_forallb. apply cstr_Forall. exact H. Qed.

Lemma shape_usable : forall n keyed d, shape Bbyte Dvalid keyed d n ->
  printable n = true /\ fields_ok n = true /\ (cdepth n <= d)%nat.
Proof.
  induction n as [ty vs vi vd key ch IH] using node_ind'. intros keyed d H.
  assert (Hch : forall k d', Forall (shape Bbyte Dvalid k d') ch ->
            forallb printable ch = true /\ forallb fields_ok ch = true /\ (list_max (map cdepth ch) <= d')%nat).
  { intros k d' HF. rewrite Forall_forall in IH, HF.
    split; [|split].
    - apply Forall_forallb. apply Forall_forall. intros c Hc. apply (IH c Hc k d' (HF c Hc)).
    - apply Forall_forallb. apply Forall_forall. intros c Hc. apply (IH c Hc k d' (HF c Hc)).
    - apply list_max_le. apply Forall_forall. intros x Hx. apply in_map_iff in Hx as (c & <- & Hc).
      apply (IH c Hc k d' (HF c Hc)). }
  inversion H as [k d0 key0 Hk|k d0 key0 Hk|k d0 key0 Hk|k d0 key0 x Hk Hx|k d0 key0 s Hk Hs
                  |k d0 key0 ch0 Hk HF|k d0 key0 ch0 Hk HF]; subst.
  - split; [reflexivity|split; [reflexivity|cbn; lia]].
  - split; [reflexivity|split; [reflexivity|cbn; lia]].
  - split; [reflexivity|split; [reflexivity|cbn; lia]].
  - pose proof (sat_int_range vd Hx) as Hi. unfold Dvalid in Hx. split; [|split].
    + rewrite printable_eq. cbv zeta. rewrite Hi, Hx. reflexivity.
    + cbn [fields_ok]. rewrite Hi, Hx. reflexivity.
    + cbn. lia.
  - split; [|split].
    + rewrite printable_eq. cbv zeta. cbn [str_bytes]. rewrite (str_ok_bytes _ Hs). reflexivity.
    + reflexivity.
    + cbn. lia.
  - destruct (Hch _ _ HF) as (P1 & P2 & P3). split; [|split].
    + rewrite printable_eq. cbv zeta. rewrite P1. reflexivity.
    + cbn [fields_ok]. rewrite P2. reflexivity.
    + rewrite cdepth_eq. change (is_container (tymask c_cJSON_Array)) with true. cbv iota. lia.
  - destruct (Hch _ _ HF) as (P1 & P2 & P3). split; [|split].
    + assert (PK : forallb (fun c => forallb is_byte (str_bytes (n_key c))) ch = true).
      { apply Forall_forallb. eapply Forall_impl; [|exact HF]. intros c Hc. apply shape_key in Hc.
        destruct (n_key c) as [kc|]; [|reflexivity]. cbn [str_bytes]. apply str_ok_bytes, Hc. }
      rewrite printable_eq. cbv zeta. rewrite P1, PK. reflexivity.
    + cbn [fields_ok]. rewrite P2. reflexivity.
    + rewrite cdepth_eq. change (is_container (tymask c_cJSON_Object)) with true. cbv iota. lia.
Qed.

(** PART 2.  Under the printer's libc contract and [strtod_valid], every tree of an accepted text
    (input bytes are bytes) satisfies the hypotheses of the printer theorems; [render] produces a
    text in both formats, that text is an RFC 8259 text, and the allocating entry points
    (cJSON_Print = [print … true], cJSON_PrintUnformatted = [print … false], cJSON_PrintBuffered)
    never overrun (outcome [Ok]), return nothing but that text, and return it whenever no
    allocation fails (texts up to INT_MAX - 2 bytes). *)
Section Prints.
  Variable strtod : bytes -> option (dbl * nat).
  Variable fmt_d : Z -> bytes.
  Variable fmt_g15 fmt_g17 : dbl -> bytes.
  Variable sscanf_lg : bytes -> option dbl.
  Hypothesis L : LibcStrictSpec fmt_d fmt_g15 fmt_g17.
  Hypothesis Hok : strtod_ok strtod.
  Hypothesis Hvalid : strtod_valid strtod.

  Notation render := (render fmt_d fmt_g15 fmt_g17 sscanf_lg).
  Notation print := (print fmt_d fmt_g15 fmt_g17 sscanf_lg).
  Notation cJSON_PrintBuffered := (cJSON_PrintBuffered fmt_d fmt_g15 fmt_g17 sscanf_lg).

  Definition prints_ok (t : node) : Prop :=
    printable t = true /\ fields_ok t = true /\ (cdepth t <= nesting_limit)%nat /\
    forall fmt, exists txt,
      render fmt 0 t = Some txt /\ RFC_text txt (val_of fmt_d fmt_g15 fmt_g17 sscanf_lg t) /\
      (forall oracle junk hr, exists r, print oracle junk t fmt hr = Ok r /\
         (forall block, prr_block r = Some block -> block = txt ++ [0]) /\
         ((forall i, oracle i = false) -> zlen txt + 2 <= c_INT_MAX -> prr_block r = Some (txt ++ [0]))) /\
      (forall oracle junk prebuffer hr, 0 <= prebuffer ->
         exists r, cJSON_PrintBuffered oracle junk t prebuffer fmt hr = Ok r /\
         (forall block, prr_block r = Some block -> exists rest, block = txt ++ 0 :: rest) /\
         ((forall i, oracle i = false) -> zlen txt + 2 <= c_INT_MAX -> exists rest, prr_block r = Some (txt ++ 0 :: rest))).

  Lemma shape_prints t keyed : shape Bbyte Dvalid keyed nesting_limit t -> prints_ok t.
  Proof.
    intro Hs. destruct (shape_usable t keyed _ Hs) as (P & Fo & Dp).
    pose proof (strict_spec_print_spec _ _ _ L) as LP.
    split; [exact P|]. split; [exact Fo|]. split; [exact Dp|].
    intro fmt. destruct (render_rfc_text fmt_d fmt_g15 fmt_g17 sscanf_lg L t fmt P Dp) as (txt & Hr & Hrfc).
    exists txt. split; [exact Hr|]. split; [exact Hrfc|]. split.
    - intros oracle junk hr.
      destruct (print_spec fmt_d fmt_g15 fmt_g17 sscanf_lg LP oracle junk t fmt hr Fo) as (r & Er & H1 & H2).
      exists r. split; [exact Er|]. split.
      + intros block Hb. destruct (H1 block Hb) as (txt' & Hr' & ->). rewrite Hr in Hr'. inversion Hr'. reflexivity.
      + intros Hno Hlen. apply (H2 Hno txt Hr Hlen).
    - intros oracle junk prebuffer hr Hpre.
      destruct (print_buffered_spec fmt_d fmt_g15 fmt_g17 sscanf_lg LP oracle junk t prebuffer fmt hr Fo Hpre)
        as (r & Er & H1 & H2).
      exists r. split; [exact Er|]. split.
      + intros block Hb. destruct (H1 block Hb) as (txt' & rest & Hr' & ->). rewrite Hr in Hr'. inversion Hr'.
        exists rest. reflexivity.
      + intros Hno Hlen. apply (H2 Hno txt Hr Hlen).
  Qed.

  Theorem parsed_tree_prints l rnt t rest :
    Forall Bbyte l -> text_l strtod l rnt = Some (t, rest) -> prints_ok t.
  Proof.
    intros HF H. apply (shape_prints t false).
    apply (text_l_shape strtod Bbyte Dvalid (fun c Hc => Hc) Hvalid l rnt t rest HF H).
  Qed.

  (** the same for what the buffer-level entry point returns *)
  Theorem parsed_result_prints content len rnt r t :
    (len <= length content)%nat -> Forall Bbyte (firstn len content) ->
    cJSON_ParseWithLengthOpts strtod never_fails content len rnt = Ok r -> pr_tree r = Some t ->
    prints_ok t.
  Proof.
    intros Hlen HF Hr Ht. apply (shape_prints t false).
    apply (parsed_tree_shape strtod Bbyte Dvalid (fun c Hc => Hc) Hvalid Hok content len rnt r t Hlen HF Hr Ht).
  Qed.
End Prints.
