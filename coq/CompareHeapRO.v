(** CompareHeapRO.v — the heap-level [cJSON_Compare] (CompareHeapDefs.v) NEVER MODIFIES ITS ARGUMENTS, in the
    strongest form the memory model can express: for EVERY heap (well-formed or not), every pair of
    pointers (NULL, dangling, aliased, nested — anything) and every outcome that is a return, the heap
    afterwards IS the heap before — no field written, nothing allocated or released, no allocator counter
    moved, no event traced ([compare_read_only]).  The error outcomes of [M] carry no heap at all.

    The proof is the closure of [ReadOnly] under [bindM]: every primitive the function uses is a checked
    load.  No hypothesis of any kind. *)
From CJ Require Import Base Dbl Heap CoreDefs CoreRefineBase GenMergeHeapDefs CompareHeapDefs.
From CJ.gen Require Import Constants.
From stdpp Require Import gmap.
Local Open Scope Z_scope.

(** * the function is built from the two loop functions *)
Lemma cJSON_Compare_fuel_S df lf a b cs :
  cJSON_Compare_fuel (S df) lf a b cs =
  (if is_null a || is_null b then ret false else
   ta <~ get_type a ;;
   tb <~ get_type b ;;
   if negb (Z.land ta 255 =? Z.land tb 255) then ret false else
   sw1 <~ get_type a ;;
   if negb (type_case_valid (Z.land sw1 255)) then ret false else
   if ptr_eqb a b then ret true else
   sw2 <~ get_type a ;;
   let k := Z.land sw2 255 in
   if (k =? c_cJSON_False) || (k =? c_cJSON_True) || (k =? c_cJSON_NULL) then ret true
   else if k =? c_cJSON_Number then
     da <~ get_vdbl a ;; db <~ get_vdbl b ;;
     if compare_double da db then ret true else ret false
   else if (k =? c_cJSON_String) || (k =? c_cJSON_Raw) then
     va <~ get_vstr a ;;
     if is_null va then ret false else
     vb <~ get_vstr b ;;
     if is_null vb then ret false else
     sa <~ get_vstr a ;; sb <~ get_vstr b ;; c <~ c_strcmp sa sb ;;
     if c =? 0 then ret true else ret false
   else if k =? c_cJSON_Array then
     a_element <~ get_child a ;; b_element <~ get_child b ;;
     cmp_arr_loop (fun x y => cJSON_Compare_fuel df lf x y cs) lf a_element b_element
   else if k =? c_cJSON_Object then
     a_element <~ get_child a ;;
     ok <~ cmp_obj_loop (fun x y => cJSON_Compare_fuel df lf x y cs) b cs lf a_element ;;
     if negb ok then ret false else
     b_element <~ get_child b ;;
     cmp_obj_loop (fun x y => cJSON_Compare_fuel df lf x y cs) a cs lf b_element
   else ret false).
Proof. reflexivity. Qed.

(** * closure properties of [ReadOnly] *)
Lemma RO_ret {A} (a : A) : ReadOnly (ret a).
Proof. intros h a' h' [= _ <-]. done. Qed.
Lemma RO_fail {A} e : ReadOnly (@fail A e).
Proof. intros h a h' H. discriminate H. Qed.
Lemma RO_bind {A B} (m : M A) (f : A -> M B) : ReadOnly m -> (forall a, ReadOnly (f a)) -> ReadOnly (bindM m f).
Proof.
  intros Hm Hf h b h' H. unfold bindM in H. destruct (m h) as [[a h1]|e] eqn:E; [|discriminate H].
  rewrite (Hf a _ _ _ H). exact (Hm _ _ _ E).
Qed.
Lemma RO_if {A} (c : bool) (m1 m2 : M A) : ReadOnly m1 -> ReadOnly m2 -> ReadOnly (if c then m1 else m2).
Proof. by destruct c. Qed.

Lemma RO_chk p : ReadOnly (chk p).
Proof. intros h a h' H. unfold chk in H. destruct p as [i|]; [|discriminate H]. destruct (decide (i ∈ h_live h)); [|discriminate H]. by injection H as _ <-. Qed.
Lemma RO_ld_lnk p : ReadOnly (ld_lnk p).
Proof.
  apply RO_bind; [apply RO_chk|]. intros i h a h' H. destruct (h_lnk h !! i); [|discriminate H]. by injection H as _ <-.
Qed.
Lemma RO_ld_dat p : ReadOnly (ld_dat p).
Proof.
  apply RO_bind; [apply RO_chk|]. intros i h a h' H. destruct (h_dat h !! i); [|discriminate H]. by injection H as _ <-.
Qed.
Lemma RO_ld_str p : ReadOnly (ld_str p).
Proof.
  apply RO_bind; [apply RO_chk|]. intros i h a h' H. destruct (h_str h !! i); [|discriminate H]. by injection H as _ <-.
Qed.
Lemma RO_ld_cstr p : ReadOnly (ld_cstr p).
Proof. apply RO_bind; [apply RO_ld_str|]. intros s. apply RO_if; [apply RO_ret|apply RO_fail]. Qed.

Lemma RO_get_next p : ReadOnly (get_next p).
Proof. apply RO_bind; [apply RO_ld_lnk|intros; apply RO_ret]. Qed.
Lemma RO_get_child p : ReadOnly (get_child p).
Proof. apply RO_bind; [apply RO_ld_dat|intros; apply RO_ret]. Qed.
Lemma RO_get_type p : ReadOnly (get_type p).
Proof. apply RO_bind; [apply RO_ld_dat|intros; apply RO_ret]. Qed.
Lemma RO_get_vstr p : ReadOnly (get_vstr p).
Proof. apply RO_bind; [apply RO_ld_dat|intros; apply RO_ret]. Qed.
Lemma RO_get_key p : ReadOnly (get_key p).
Proof. apply RO_bind; [apply RO_ld_dat|intros; apply RO_ret]. Qed.
Lemma RO_get_vdbl p : ReadOnly (get_vdbl p).
Proof. apply RO_bind; [apply RO_ld_dat|intros; apply RO_ret]. Qed.
Lemma RO_heap_fuel : ReadOnly heap_fuel.
Proof. intros h a h' [= _ <-]. done. Qed.
Lemma RO_c_strcmp s1 s2 : ReadOnly (c_strcmp s1 s2).
Proof. apply RO_bind; [apply RO_ld_cstr|]. intros x. apply RO_bind; [apply RO_ld_cstr|intros; apply RO_ret]. Qed.

(** [get_object_item] of cJSON.c *)
Lemma RO_case_insensitive_strcmp s1 s2 : ReadOnly (case_insensitive_strcmp s1 s2).
Proof.
  unfold case_insensitive_strcmp. apply RO_if; [apply RO_ret|]. apply RO_if; [apply RO_ret|].
  apply RO_bind; [apply RO_ld_cstr|]. intros x. apply RO_bind; [apply RO_ld_cstr|intros; apply RO_ret].
Qed.
Lemma RO_get_object_item_loop_cs name : forall fuel cur, ReadOnly (get_object_item_loop_cs fuel cur name).
Proof.
  induction fuel as [|f IH]; intros cur; cbn [get_object_item_loop_cs]; [apply RO_fail|].
  apply RO_if; [apply RO_ret|]. apply RO_bind; [apply RO_get_key|]. intros k.
  apply RO_if; [apply RO_ret|]. apply RO_bind; [apply RO_ld_cstr|]. intros n.
  apply RO_bind; [apply RO_ld_cstr|]. intros ks. apply RO_if; [|apply RO_ret].
  apply RO_bind; [apply RO_get_next|]. intros nx. apply IH.
Qed.
Lemma RO_get_object_item_loop_ci name : forall fuel cur, ReadOnly (get_object_item_loop_ci fuel cur name).
Proof.
  induction fuel as [|f IH]; intros cur; cbn [get_object_item_loop_ci]; [apply RO_fail|].
  apply RO_if; [apply RO_ret|]. apply RO_bind; [apply RO_get_key|]. intros k.
  apply RO_bind; [apply RO_case_insensitive_strcmp|]. intros c. apply RO_if; [|apply RO_ret].
  apply RO_bind; [apply RO_get_next|]. intros nx. apply IH.
Qed.
Lemma RO_get_object_item object name cs : ReadOnly (get_object_item object name cs).
Proof.
  unfold get_object_item. apply RO_if; [apply RO_ret|]. apply RO_bind; [apply RO_get_child|]. intros child.
  apply RO_bind; [apply RO_heap_fuel|]. intros fuel.
  apply RO_bind; [destruct cs; [apply RO_get_object_item_loop_cs|apply RO_get_object_item_loop_ci]|]. intros cur.
  apply RO_if; [apply RO_ret|]. apply RO_bind; [apply RO_get_key|]. intros k. apply RO_if; apply RO_ret.
Qed.

(** * the loops and the recursion *)
Lemma RO_cmp_arr_loop rec : (forall x y, ReadOnly (rec x y)) -> forall lf a b, ReadOnly (cmp_arr_loop rec lf a b).
Proof.
  intros Hrec. induction lf as [|lf IH]; intros a b; cbn [cmp_arr_loop]; [apply RO_fail|].
  apply RO_if; [|apply RO_if; apply RO_ret].
  apply RO_bind; [apply Hrec|]. intros r. apply RO_if; [apply RO_ret|].
  apply RO_bind; [apply RO_get_next|]. intros a'. apply RO_bind; [apply RO_get_next|]. intros b'. apply IH.
Qed.
Lemma RO_cmp_obj_loop rec other cs : (forall x y, ReadOnly (rec x y)) -> forall lf e, ReadOnly (cmp_obj_loop rec other cs lf e).
Proof.
  intros Hrec. induction lf as [|lf IH]; intros e; cbn [cmp_obj_loop]; [apply RO_fail|].
  apply RO_if; [apply RO_ret|]. apply RO_bind; [apply RO_get_key|]. intros nm.
  apply RO_bind; [apply RO_get_object_item|]. intros found. apply RO_if; [apply RO_ret|].
  apply RO_bind; [apply Hrec|]. intros r. apply RO_if; [apply RO_ret|].
  apply RO_bind; [apply RO_get_next|]. intros nx. apply IH.
Qed.

Lemma RO_cJSON_Compare_fuel lf cs : forall df a b, ReadOnly (cJSON_Compare_fuel df lf a b cs).
Proof.
  induction df as [|df IH]; intros a b; [apply RO_fail|]. rewrite cJSON_Compare_fuel_S.
  apply RO_if; [apply RO_ret|]. apply RO_bind; [apply RO_get_type|]. intros ta.
  apply RO_bind; [apply RO_get_type|]. intros tb. apply RO_if; [apply RO_ret|].
  apply RO_bind; [apply RO_get_type|]. intros sw1. apply RO_if; [apply RO_ret|]. apply RO_if; [apply RO_ret|].
  apply RO_bind; [apply RO_get_type|]. intros sw2. cbv zeta.
  apply RO_if; [apply RO_ret|]. apply RO_if.
  { apply RO_bind; [apply RO_get_vdbl|]. intros da. apply RO_bind; [apply RO_get_vdbl|]. intros db. apply RO_if; apply RO_ret. }
  apply RO_if.
  { apply RO_bind; [apply RO_get_vstr|]. intros va. apply RO_if; [apply RO_ret|].
    apply RO_bind; [apply RO_get_vstr|]. intros vb. apply RO_if; [apply RO_ret|].
    apply RO_bind; [apply RO_get_vstr|]. intros sa. apply RO_bind; [apply RO_get_vstr|]. intros sb.
    apply RO_bind; [apply RO_c_strcmp|]. intros c. apply RO_if; apply RO_ret. }
  apply RO_if.
  { apply RO_bind; [apply RO_get_child|]. intros ae. apply RO_bind; [apply RO_get_child|]. intros be.
    apply RO_cmp_arr_loop. intros x y. apply IH. }
  apply RO_if; [|apply RO_ret].
  apply RO_bind; [apply RO_get_child|]. intros ae.
  apply RO_bind; [apply RO_cmp_obj_loop; intros x y; apply IH|]. intros ok. apply RO_if; [apply RO_ret|].
  apply RO_bind; [apply RO_get_child|]. intros be. apply RO_cmp_obj_loop. intros x y. apply IH.
Qed.

(** THE READ-ONLY THEOREM: every heap, every arguments, every returning outcome *)
Theorem compare_read_only a b cs : ReadOnly (cJSON_Compare a b cs).
Proof. apply RO_bind; [apply RO_heap_fuel|]. intros fuel. apply RO_cJSON_Compare_fuel. Qed.

(** spelled out *)
Corollary compare_never_modifies a b cs h (r : bool) h' : cJSON_Compare a b cs h = Ret (r, h') -> h' = h.
Proof. apply compare_read_only. Qed.

(** every outcome is a return without change, or an error (which carries no heap) *)
Corollary compare_outcomes a b cs h :
  (exists r : bool, cJSON_Compare a b cs h = Ret (r, h)) \/ (exists e, cJSON_Compare a b cs h = Err e).
Proof.
  destruct (cJSON_Compare a b cs h) as [[r h']|e] eqn:E; [left|right; by exists e].
  exists r. by rewrite (compare_read_only _ _ _ _ _ _ E).
Qed.
