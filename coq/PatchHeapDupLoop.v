(** PatchHeapDupLoop.v — the entry points [cJSONUtils_ApplyPatches] / [cJSONUtils_ApplyPatchesCaseSensitive] refine
    [PatchDefs.apply_patches] for EVERY status of the value-level run, the statuses 6 and 8 of a duplicate refused
    at the nesting limit included (PatchHeapDup.v).

    [run_keyed]: [PatchHeapLoop.run_ok] without the clause "no status is 6 or 8", and with the condition on the
    operation objects weakened to the "value" member of the [test] operations ([value_keyed]: the only part of an
    operation object that is sorted): along the value-level run every document met is keyed, the "value" member of every
    operation met is keyed, and the model returns [Ok]. *)
From CJ Require Import Base Dbl Heap Forest ForestLemmas CoreSpec CoreDefs CoreRefineBase CoreRefine CoreRefineMore
  CoreRefineDelete CoreRefineReplace CoreRefineObject CoreRefineByKey CoreRefineFrame CoreRefineHistory CoreRefineAddObject
  CoreRefineHistoryObj CoreRefineCreate CoreRefineDupValue CoreRefineDupForest CoreLedgerGen CoreLedgerDup.
From CJ Require Import TierBridgeDefs TierBridgeForest TierBridgeLemmas TierBridgeSort TierBridgeSortHeap TierBridgeUtilsDefs TierBridgeUtils
  TierBridgeE2E2 TierBridgeEndToEndStr TierBridgeOverwriteDefs TierBridgeOverwrite
  MergeHeapDefs MergeHeapInv MergeHeapProofs PatchHeapDefs PatchHeapPath PatchHeapPointer PatchHeapStr PatchHeapSteps
  PatchHeapDetach PatchHeapApplyDefs PatchHeapOps PatchHeapFinish PatchHeapApply PatchHeapTest PatchHeapLoop PatchHeapDup PatchHeapDupTest.
From CJ Require Tree PointerDefs PatchDefs CompareDefs CompareProofs MergeDefs SortDefs SortSpec PatchProofs.
From CJ Require Rfc6902 PatchConform PatchExact PatchSeq2Op PatchSeq2Rfc PatchSeqAll.
From CJ.gen Require Import Constants.
From stdpp Require Import gmap.
From Coq Require Import Lia.
Local Open Scope Z_scope.

Definition value_keyed (p : Tree.node) (cs : bool) : Prop :=
  PatchDefs.decode_patch_operation p cs = Ok PatchDefs.TEST ->
  match CompareDefs.get_object_item p (Some PatchDefs.s_value) cs with
  | Some (_, v) => vkeyed v
  | None => True
  end.

Lemma vkeyed_value_keyed p cs : vkeyed p -> value_keyed p cs.
Proof.
  intros H _. destruct (CompareDefs.get_object_item p (Some PatchDefs.s_value) cs) as [[j v]|] eqn:E; [|done].
  apply CompareProofs.get_object_item_in in E. destruct p as [ty vs vi vd k l]. apply vkeyed_unfold in H as [_ H].
  rewrite Forall_forall in H. apply H. by apply elem_of_list_In.
Qed.

Fixpoint run_keyed (object : Tree.node) (ps : list Tree.node) (cs : bool) : Prop :=
  match ps with
  | [] => True
  | p :: r =>
      vkeyed object /\ value_keyed p cs /\
      match PatchDefs.apply_patch object p cs with
      | Ok (st, o, _) => st = 0 -> run_keyed o r cs
      | _ => False
      end
  end.

Lemma run_keyed_of_run_ok object ps cs : run_ok object ps cs -> run_keyed object ps cs.
Proof.
  revert object. induction ps as [|p r IH]; intros object; cbn [run_ok run_keyed]; [done|].
  intros (H1 & H2 & H3). split; [done|]. split; [by apply vkeyed_value_keyed|].
  destruct (PatchDefs.apply_patch object p cs) as [[[st o] pv]| |]; [|done|done].
  destruct H3 as (_ & _ & H3). intros E. by apply IH, H3.
Qed.

(** * one operation, whatever its opcode, whatever its status *)
Section OneOpAll.
  Context (h : heap) (A B : forest) (doc rb : tree) (ppt : Tree.path) (pid : positive) (dpt : rdata) (cpt : list tree) (flag : bool).
  Notation F := (F2 A B [] doc rb).
  Notation St := (h_str h).
  Notation pt := (T pid dpt cpt).
  Hypothesis I : MInv h F.
  Hypothesis Hpt : subtree_t rb ppt = Some pt.

  Theorem apply_patch_any_all :
    vkeyed (reify St doc) -> value_keyed (reify St pt) flag ->
    op_post h A B doc rb ppt pid dpt cpt (apply_patch nofail (Some (tid doc)) (Some pid) flag h)
      (PatchDefs.apply_patch (reify St doc) (reify St pt) flag).
  Proof.
    intros Hkd Hkp.
    destruct (decide (PatchDefs.decode_patch_operation (reify St pt) flag = Ok PatchDefs.TEST)) as [Et|Hnt].
    - assert (Hkv : forall vi m, found_member St flag PatchDefs.s_value cpt = Some (vi, m) -> all_keyed St m).
      { intros vi m Efm. apply all_keyed_of_vkeyed. specialize (Hkp Et).
        rewrite (get_object_item_found St pid dpt cpt PatchDefs.s_value flag zf_value), Efm in Hkp. exact Hkp. }
      pose proof (apply_patch_test_refines_w h A B doc rb ppt pid dpt cpt flag I Hpt (all_keyed_of_vkeyed _ _ Hkd) Hkv Et) as H.
      unfold test_post in H. unfold op_post.
      destruct (PatchDefs.apply_patch (reify St doc) (reify St pt) flag) as [[[st doc'] pt']| |]; [|done|done].
      destruct H as (h' & docT & ptT & E & I' & Ht & Hp & Hd & Hc & Hre & Hrp & Es & En & NL & _).
      exists h', docT, ptT. rewrite Es. split_and!; try done; [intros b Hb; by rewrite Es|lia].
    - assert (HptG : pt ∈ nodes (A ++ rb :: B)).
      { rewrite nodes_app, nodes_cons. apply elem_of_app. right. apply elem_of_app. left. by eapply subtree_t_nodes. }
      pose proof I as I0. rewrite F2_last in I0.
      pose proof (apply_patch_refines_all h (A ++ rb :: B) doc pid dpt cpt flag I0 HptG Hnt) as H. unfold apply_post_all in H.
      unfold op_post.
      destruct (PatchDefs.apply_patch (reify St doc) (reify St pt) flag) as [[[st doc'] pt']| |]; [|done|done].
      destruct H as (h' & docT & E & I' & Ht & Hre & Hp & K & NL & Hn).
      assert (Hkeep : forall t, t ∈ nodes (A ++ rb :: B) -> reify (h_str h') t = reify St t).
      { intros t Ht'. apply (reify_keep h h' (A ++ rb :: B) t); [|done|done]. intros e He. apply (mi_own _ _ I0). apply datas_elem_app. by left. }
      exists h', docT, pt. rewrite (put_t_id rb ppt _ Hpt). rewrite !F2_last.
      split; [done|]. split; [done|]. split; [done|]. split; [done|]. split; [done|]. split; [done|]. split; [done|].
      split; [rewrite Hp; by apply Hkeep|]. split; [done|]. split; [done|]. split; [done|done].
  Qed.
End OneOpAll.

(** * the loop over the patch array *)
Section LoopAll.
  Context (A B : forest) (rb : tree) (ppa : Tree.path) (aid : positive) (da : rdata) (elems0 : list tree) (flag : bool).
  Hypothesis Harr : subtree_t rb ppa = Some (T aid da elems0).
  Notation rbk := (rbk rb ppa aid da).
  Notation arr_strs := (arr_strs da).

  Lemma loop_sim_all : forall rest pre h doc fuel,
    MInv h (F2 A B [] doc (rbk (pre ++ rest))) -> (length rest < fuel)%nat ->
    run_keyed (reify (h_str h) doc) (map (reify (h_str h)) rest) flag ->
    match PatchDefs.apply_loop (reify (h_str h) doc) (map (reify (h_str h)) rest) flag with
    | Ok (st, doc', ps') =>
        exists h' docT rest',
          apply_patches_loop nofail fuel (Some (tid doc)) (tid <$> head rest) flag h = Ret (st, h') /\
          MInv h' (F2 A B [] docT (rbk (pre ++ rest'))) /\ tid docT = tid doc /\
          reify (h_str h') docT = doc' /\ map (reify (h_str h')) rest' = ps' /\
          (forall t, t ∈ pre -> reify (h_str h') t = reify (h_str h) t) /\
          (forall b, b ∈ arr_strs -> h_str h' !! b = h_str h !! b) /\
          (NoLeak h (F2 A B [] doc (rbk (pre ++ rest))) -> NoLeak h' (F2 A B [] docT (rbk (pre ++ rest')))) /\
          (h_next h <= h_next h')%positive
    | _ => False
    end.
  Proof.
    induction rest as [|p rest IH]; intros pre h doc fuel I Hf Hok; (destruct fuel as [|fuel]; [cbn in Hf; lia|]);
      cbn [map PatchDefs.apply_loop apply_patches_loop head fmap option_fmap option_map is_null].
    { exists h, doc, []. split_and!; done. }
    destruct p as [pid dpt cpt]. cbn [run_keyed map] in Hok. destruct Hok as (Hkd & Hkp & Hm).
    set (k := length pre).
    assert (Hpk : (pre ++ T pid dpt cpt :: rest) !! k = Some (T pid dpt cpt)) by (by apply list_lookup_middle).
    assert (Hpt : subtree_t (rbk (pre ++ T pid dpt cpt :: rest)) (ppa ++ [k]) = Some (T pid dpt cpt)).
    { by rewrite (subtree_t_snoc _ _ _ _ _ k (rbk_sub rb ppa aid da elems0 Harr _)). }
    pose proof (apply_patch_any_all h A B doc (rbk (pre ++ T pid dpt cpt :: rest)) (ppa ++ [k]) pid dpt cpt flag I Hpt Hkd Hkp) as Hop.
    unfold op_post in Hop.
    destruct (PatchDefs.apply_patch (reify (h_str h) doc) (reify (h_str h) (T pid dpt cpt)) flag) as [[[st o] pv]| |] eqn:Eap; [|done|done].
    rename Hm into Hnext. cbn [bind].
    destruct Hop as (h1 & docT & ptT & E & I1 & Ht & Hp & Hc & Hd & Hre & Hrp & Hkeep & K1 & NL1 & En1).
    rewrite (rbk_put rb ppa aid da elems0 Harr _ k _ ptT Hpk) in I1, NL1. unfold k in I1, NL1. rewrite insert_middle in I1, NL1.
    rewrite (bindM_Ret _ _ _ _ _ E).
    assert (Hrest1 : map (reify (h_str h1)) rest = map (reify (h_str h)) rest).
    { apply map_ext_in. intros t Ht'. apply elem_of_list_In in Ht'. apply Hkeep. apply (rbk_elem_node A B rb ppa aid da elems0 Harr _ doc). apply elem_of_app. right. by right. }
    assert (Hpre1 : forall t, t ∈ pre -> reify (h_str h1) t = reify (h_str h) t).
    { intros t Ht'. apply Hkeep. apply (rbk_elem_node A B rb ppa aid da elems0 Harr _ doc). apply elem_of_app. by left. }
    assert (Harr1 : forall b, b ∈ arr_strs -> h_str h1 !! b = h_str h !! b).
    { intros b Hb. apply K1. destruct (rbk_node A B rb ppa aid da elems0 Harr (pre ++ T pid dpt cpt :: rest) doc) as [Hn1 Hn2].
      assert (Hown : forall e, e ∈ datas (A ++ rbk (pre ++ T pid dpt cpt :: rest) :: B) -> node_owns e.2).
      { intros e He. apply (mi_own _ _ I). rewrite F2_last. apply datas_elem_app. by left. }
      apply (str_blocks_in_owned _ (T aid da (pre ++ T pid dpt cpt :: rest)) b Hown Hn1). cbn [str_blocks].
      unfold PatchHeapLoop.arr_strs in Hb. apply elem_of_app in Hb as [Hb|Hb]; apply elem_of_app; [by left|right]. apply elem_of_app. by left. }
    destruct (Z.eqb_spec st 0) as [->|Hst]; cbn [negb].
    - (* go on *)
      assert (Hn1 : T aid da (pre ++ ptT :: rest) ∈ nodes (F2 A B [] docT (rbk (pre ++ ptT :: rest))))
        by (exact (proj2 (rbk_node A B rb ppa aid da elems0 Harr _ docT))).
      pose proof (run_get_next_child h1 _ I1 aid da _ (length pre) ptT Hn1 ltac:(by apply list_lookup_middle)) as Hnx.
      rewrite Hp in Hnx. rewrite lookup_middle_S in Hnx. rewrite (bindM_Ret _ _ _ _ _ Hnx).
      specialize (IH (pre ++ [ptT]) h1 docT fuel). rewrite <- app_assoc in IH. cbn [app] in IH.
      rewrite Hre, Hrest1 in IH. specialize (IH I1 ltac:(cbn in Hf; lia) (Hnext eq_refl)).
      destruct (PatchDefs.apply_loop o (map (reify (h_str h)) rest) flag) as [[[st2 o2] r2]| |]; [|done|done]. cbn [bind].
      destruct IH as (h2 & docT2 & rest2 & E2 & I2 & Ht2 & Hre2 & Hr2 & Hpre2 & Harr2 & NL2 & En2).
      rewrite <- app_assoc in I2, NL2. cbn [app] in I2, NL2.
      exists h2, docT2, (ptT :: rest2). rewrite Ht in E2. split; [exact E2|]. split; [exact I2|]. split; [congruence|]. split; [done|].
      split; [|split; [|split; [|split; [auto|lia]]]].
      + cbn [map]. rewrite Hr2. f_equal. rewrite (Hpre2 ptT ltac:(apply elem_of_app; right; by left)). exact Hrp.
      + intros t Ht'. rewrite (Hpre2 t ltac:(apply elem_of_app; by left)). by apply Hpre1.
      + intros b Hb. rewrite (Harr2 b Hb). by apply Harr1.
    - (* stop *)
      exists h1, docT, (ptT :: rest). split; [done|]. split; [exact I1|]. split; [done|]. split; [done|].
      split; [cbn [map]; by rewrite Hrp, Hrest1|]. split; [done|]. split; [done|]. split; [done|lia].
  Qed.
End LoopAll.

(** * the entry points *)
Section EntryAll.
  Context (h : heap) (A B : forest) (doc rb : tree) (ppa : Tree.path) (aid : positive) (da : rdata) (elems : list tree) (flag : bool).
  Notation F := (F2 A B [] doc rb).
  Notation St := (h_str h).
  Notation arr := (T aid da elems).
  Hypothesis I : MInv h F.
  Hypothesis Harr : subtree_t rb ppa = Some arr.

  Theorem apply_patches_refines_all :
    (Tree.is_array (reify St arr) = true -> run_keyed (reify St doc) (map (reify St) elems) flag) ->
    match PatchDefs.apply_patches (reify St doc) (reify St arr) flag with
    | Ok (st, doc', patches') =>
        exists h' docT arrT,
          apply_patches nofail (Some (tid doc)) (Some aid) flag h = Ret (st, h') /\
          MInv h' (F2 A B [] docT (put_t rb ppa arrT)) /\ tid docT = tid doc /\ tid arrT = aid /\
          reify (h_str h') docT = doc' /\ reify (h_str h') arrT = patches' /\
          (NoLeak h F -> NoLeak h' (F2 A B [] docT (put_t rb ppa arrT))) /\ (h_next h <= h_next h')%positive
    | _ => False
    end.
  Proof.
    intros Hok. pose proof (F2_node_b A B [] doc rb ppa _ Harr) as HarrF.
    unfold PatchDefs.apply_patches, apply_patches, cJSON_IsArray. cbn [is_null].
    rewrite (bindM_Ret _ _ _ _ _ (run_is_type h F I aid da elems c_cJSON_Array HarrF)).
    unfold Tree.is_array, Tree.is_type, Tree.tymask in *. change (Tree.n_ty (reify St arr)) with (rd_type da) in *.
    destruct (Z.land (rd_type da) 255 =? c_cJSON_Array) eqn:Ea; cbn [negb].
    2:{ exists h, doc, arr. rewrite (put_t_id rb ppa _ Harr). split_and!; done. }
    cbn [is_null negb]. rewrite (bindM_Ret _ _ _ _ _ (run_get_child h F I aid da elems HarrF)).
    unfold heap_fuel. unfold bindM at 1.
    pose proof (loop_sim_all A B rb ppa aid da elems flag Harr elems [] h doc (Pos.to_nat (h_next h))) as HL.
    cbn [app] in HL. unfold PatchHeapLoop.rbk in HL. rewrite (put_t_id rb ppa _ Harr) in HL.
    specialize (HL I ltac:(exact (children_fuel h F I aid da elems HarrF)) (Hok eq_refl)).
    rewrite reify_children. cbn [tchildren].
    destruct (PatchDefs.apply_loop (reify St doc) (map (reify St) elems) flag) as [[[st o] ps]| |]; [|done|done]. cbn [bind].
    destruct HL as (h' & docT & rest' & E & I' & Ht & Hre & Hr & _ & Hstr & NL & En).
    exists h', docT, (T aid da rest'). split; [exact E|]. split; [exact I'|]. split; [done|]. split; [done|]. split; [done|].
    split; [|split; [exact NL|exact En]].
    rewrite !reify_unfold. cbn [PatchDefs.set_children]. rewrite Hr. f_equal.
    - destruct (rd_vstr da) as [b|] eqn:Eb; [|done]. cbn. rewrite Hstr; [done|]. unfold PatchHeapLoop.arr_strs. rewrite Eb. apply elem_of_app. left. cbn. by left.
    - destruct (rd_key da) as [b|] eqn:Eb; [|done]. cbn. rewrite Hstr; [done|]. unfold PatchHeapLoop.arr_strs. rewrite Eb. apply elem_of_app. right. cbn. by left.
  Qed.
End EntryAll.

(** * C16 conformance for the heap-level code, every status *)
Theorem c16_heap_conform_all h A B doc rb ppa aid da elems ops :
  MInv h (F2 A B [] doc rb) -> subtree_t rb ppa = Some (T aid da elems) ->
  let vdoc := reify (h_str h) doc in
  let vpatches := reify (h_str h) (T aid da elems) in
  PatchConform.dwf vdoc -> Rfc6902.ops_of vpatches = Some ops -> Forall PatchSeq2Op.op_wf2 (Tree.n_children vpatches) ->
  Forall PatchSeqAll.op_good ops -> PatchSeqAll.fits vdoc ops ->
  run_keyed vdoc (Tree.n_children vpatches) true ->
  exists st h' docT arrT,
    cJSONUtils_ApplyPatchesCaseSensitive nofail (Some (tid doc)) (Some aid) h = Ret (st, h') /\
    MInv h' (F2 A B [] docT (put_t rb ppa arrT)) /\ tid docT = tid doc /\ tid arrT = aid /\
    (NoLeak h (F2 A B [] doc rb) -> NoLeak h' (F2 A B [] docT (put_t rb ppa arrT))) /\
    match Rfc6902.eval vdoc ops with
    | Some d' => st = 0 /\ PatchExact.doc_same (reify (h_str h') docT) d' /\ Rfc6902.doc_eq (reify (h_str h') docT) d' /\
                 PatchConform.dwf (reify (h_str h') docT)
    | None => st <> 0
    end.
Proof.
  intros I Harr vdoc vpatches Hd Ho Hw Hg Hf Hrun.
  destruct (PatchSeqAll.apply_patches_conform vdoc vpatches ops Hd Ho Hw Hg Hf) as (st & d & p' & E & R).
  pose proof (apply_patches_refines_all h A B doc rb ppa aid da elems true I Harr) as H.
  unfold PatchDefs.cJSONUtils_ApplyPatchesCaseSensitive in E. fold vdoc vpatches in H. rewrite E in H.
  destruct H as (h' & docT & arrT & Hr & I' & Ht & Ha & Hre & _ & NL & _).
  { intros _. unfold vpatches in Hrun. rewrite reify_children in Hrun. exact Hrun. }
  exists st, h', docT, arrT. split; [exact Hr|]. split; [exact I'|]. split; [done|]. split; [done|]. split; [exact NL|].
  rewrite Hre. exact R.
Qed.
