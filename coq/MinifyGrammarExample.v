(** MinifyGrammarExample.v — non-vacuity of the last clause of C13: a concrete JSON text with
    both comment kinds (a block comment containing a quote, one containing // and a star, a
    line comment glued to a number, a line comment containing slash-star, a line comment ended
    by the end of the text), a key containing //, a string containing slash-star, star-slash,
    an escaped quote and an escaped backslash directly before the closing quote, a key ending
    in an escaped backslash; its derivation in the comment grammar paired with its erasure;
    [minify_spec] and both parses evaluated by [vm_compute] with the reference strtod.

    The text, with Q standing for the double quote and B for the backslash:

      /*c1 Q*/ {Qa//bQ:[1,-2.5e3//x<LF> ,Qp/*q*/BQrBBQ] /* k* // */,<LF><TAB>QkBBQ :// /* <LF>true }<CR><LF> //end
*)
From CJ Require Import Base Dbl Tree LibcNum MinifyDefs MinifyProofs MinifyValue ParseDefs ParseSpec
  Grammar ParseComplete MinifyGrammarDefs MinifyGrammar.
Local Open Scope Z_scope.

Definition cx_kb1 : bytes := [97; 47; 47; 98].                       (* a//b *)
Definition cx_num2 : bytes := [45; 50; 46; 53; 101; 51].             (* -2.5e3 *)
Definition cx_sbody : bytes := [112; 47; 42; 113; 42; 47; 92; 34; 114; 92; 92].   (* p/*q*/BQrBB *)
Definition cx_sval : bytes := [112; 47; 42; 113; 42; 47; 34; 114; 92].            (* p/*q*/QrB *)
Definition cx_kb2 : bytes := [107; 92; 92].                          (* kBB *)
Definition cx_k2 : bytes := [107; 92].                               (* kB *)

(** the text as a function of its gaps: [gn] after the second number, [g4] after the array,
    [g3] after the colon of the second member *)
Definition cx_arr (gn : bytes) : bytes :=
  91 :: ([] ++ [49] ++ [] ++ 44 :: ([] ++ cx_num2 ++ gn ++ 44 :: ([] ++ (34 :: cx_sbody ++ [34]) ++ []))) ++ [93].
Definition cx_obj (gn g4 g3 : bytes) : bytes :=
  123 :: ([] ++ 34 :: cx_kb1 ++ 34 :: [] ++ 58 :: [] ++ cx_arr gn ++ g4 ++ 44 ::
          ([10; 9] ++ 34 :: cx_kb2 ++ 34 :: [32] ++ 58 :: g3 ++ [116; 114; 117; 101] ++ [32])) ++ [125].

Definition cx_min_arr : bytes := 91 :: ([49] ++ 44 :: (cx_num2 ++ 44 :: (34 :: cx_sbody ++ [34]))) ++ [93].
Definition cx_min : bytes :=
  123 :: (34 :: cx_kb1 ++ 34 :: 58 :: cx_min_arr ++ 44 :: (34 :: cx_kb2 ++ 34 :: 58 :: [116; 114; 117; 101])) ++ [125].

Definition cx_v : jv :=
  JObj [(cx_kb1, JArr [JNum [49]; JNum cx_num2; JStr cx_sval]); (cx_k2, JBool true)].

(** the gaps of the commented text *)
Definition cx_head : bytes := [47; 42; 99; 49; 32; 34; 42; 47; 32].                       (* /*c1 Q*/ SP *)
Definition cx_gn : bytes := [47; 47; 120; 10; 32].                                          (* //x LF SP *)
Definition cx_g4 : bytes := [32; 47; 42; 32; 107; 42; 32; 47; 47; 32; 42; 47].              (* SP /* k* // */ *)
Definition cx_g3 : bytes := [47; 47; 32; 47; 42; 32; 10].                                   (* // /* SP LF *)
Definition cx_tail : bytes := [13; 10; 32] ++ 47 :: 47 :: [101; 110; 100].                  (* CR LF SP //end *)

Definition cx_txt : bytes := [] ++ cx_head ++ cx_obj cx_gn cx_g4 cx_g3 ++ cx_tail.
(** the same derivation with whitespace-only gaps: what the parser accepts *)
Definition cx_plain : bytes := [] ++ [32] ++ cx_obj [10; 32] [32] [10] ++ [13; 10; 32].

Lemma cx_txt_bytes : cx_txt =
  [47; 42; 99; 49; 32; 34; 42; 47; 32; 123; 34; 97; 47; 47; 98; 34; 58; 91; 49; 44; 45; 50; 46; 53; 101; 51;
   47; 47; 120; 10; 32; 44; 34; 112; 47; 42; 113; 42; 47; 92; 34; 114; 92; 92; 34; 93;
   32; 47; 42; 32; 107; 42; 32; 47; 47; 32; 42; 47; 44; 10; 9; 34; 107; 92; 92; 34; 32; 58;
   47; 47; 32; 47; 42; 32; 10; 116; 114; 117; 101; 32; 125; 13; 10; 32; 47; 47; 101; 110; 100].
Proof. reflexivity. Qed.

Lemma cx_plain_bytes : cx_plain =
  [32; 123; 34; 97; 47; 47; 98; 34; 58; 91; 49; 44; 45; 50; 46; 53; 101; 51; 10; 32; 44;
   34; 112; 47; 42; 113; 42; 47; 92; 34; 114; 92; 92; 34; 93; 32; 44; 10; 9; 34; 107; 92; 92; 34; 32; 58;
   10; 116; 114; 117; 101; 32; 125; 13; 10; 32].
Proof. reflexivity. Qed.

Lemma cx_min_bytes : cx_min =
  [123; 34; 97; 47; 47; 98; 34; 58; 91; 49; 44; 45; 50; 46; 53; 101; 51; 44;
   34; 112; 47; 42; 113; 42; 47; 92; 34; 114; 92; 92; 34; 93; 44; 34; 107; 92; 92; 34; 58; 116; 114; 117; 101; 125].
Proof. reflexivity. Qed.

Ltac raw := apply ch_raw; [discriminate|discriminate|reflexivity|].

Lemma cx_sbody_chars : chars rfc_raw cx_sbody cx_sval.
Proof.
  unfold cx_sbody, cx_sval. do 6 raw.
  apply (ch_esc rfc_raw 34 34); [reflexivity|]. raw.
  apply (ch_esc rfc_raw 92 92); [reflexivity|]. apply ch_nil.
Qed.

Lemma cx_kb1_chars : chars rfc_raw cx_kb1 cx_kb1.
Proof. unfold cx_kb1. do 4 raw. apply ch_nil. Qed.

Lemma cx_kb2_chars : chars rfc_raw cx_kb2 cx_k2.
Proof. unfold cx_kb2, cx_k2. raw. apply (ch_esc rfc_raw 92 92); [reflexivity|]. apply ch_nil. Qed.

(** the derivation, for any gap predicate that accepts the gaps used *)
Lemma cx_evalue (G : bytes -> Prop) gn g4 g3 d :
  G [] -> G gn -> G g4 -> G g3 -> G [10; 9] -> G [32] ->
  evalue G (S (S d)) (cx_obj gn g4 g3) cx_min cx_v.
Proof.
  intros G0 Gn G4 G3 Glt Gsp. unfold cx_obj, cx_min, cx_v.
  apply ev_obj.
  apply em_cons; [exact G0|exact cx_kb1_chars|exact G0|exact G0| |exact G4|].
  - unfold cx_arr, cx_min_arr. apply ev_arr.
    apply ee_cons; [exact G0|apply ev_num; reflexivity|exact G0|].
    apply ee_cons; [exact G0|apply ev_num; reflexivity|exact Gn|].
    apply ee_one; [exact G0|apply ev_str; exact cx_sbody_chars|exact G0].
  - apply em_one; [exact Glt|exact cx_kb2_chars|exact Gsp|exact G3|apply ev_true|exact Gsp].
Qed.

Lemma nesting_limit_SS : nesting_limit = S (S (Nat.pred (Nat.pred nesting_limit))).
Proof. vm_compute. reflexivity. Qed.

Ltac ws1 := apply gap_ws; [reflexivity|].

(** the commented text, paired with its erasure *)
Lemma cx_erase : CJ_erase cx_txt cx_min cx_v.
Proof.
  exists [], cx_head, (cx_obj cx_gn cx_g4 cx_g3), cx_min, cx_tail.
  split; [reflexivity|]. split; [reflexivity|]. split; [left; reflexivity|].
  split; [|split].
  - apply (gap_block [99; 49; 32; 34] [32]); [reflexivity|]. ws1. constructor.
  - unfold cx_tail. apply ge_line.
    + ws1. ws1. ws1. constructor.
    + cbn [In]. intuition discriminate.
  - rewrite nesting_limit_SS. apply cx_evalue.
    + constructor.
    + apply (gap_line [120] [32]); [cbn [In]; intuition discriminate|]. ws1. constructor.
    + ws1. apply (gap_block [32; 107; 42; 32; 47; 47; 32] []); [reflexivity|constructor].
    + apply (gap_line [32; 47; 42; 32] []); [cbn [In]; intuition discriminate|constructor].
    + ws1. ws1. constructor.
    + ws1. constructor.
Qed.

(** the comment-free spelling: an RFC 8259 text with the same erasure *)
Lemma cx_plain_erase_ws : evalue (ws rfc_ws) nesting_limit (cx_obj [10; 32] [32] [10]) cx_min cx_v.
Proof. rewrite nesting_limit_SS. apply cx_evalue; reflexivity. Qed.

Lemma cx_plain_erase : CJ_erase cx_plain cx_min cx_v.
Proof.
  exists [], [32], (cx_obj [10; 32] [32] [10]), cx_min, [13; 10; 32].
  split; [reflexivity|]. split; [reflexivity|]. split; [left; reflexivity|].
  split; [|split].
  - apply ws_gap. reflexivity.
  - apply ge_gap. apply ws_gap. reflexivity.
  - exact (proj1 (egrammar_mono (ws rfc_ws) gap ws_gap) _ _ _ _ cx_plain_erase_ws).
Qed.

Lemma cx_plain_rfc : RFC_text cx_plain cx_v.
Proof.
  exists [], [32], (cx_obj [10; 32] [32] [10]), [13; 10; 32].
  split; [reflexivity|]. split; [left; reflexivity|]. split; [reflexivity|]. split; [reflexivity|].
  apply cvalue_ws_iff. exact (proj1 (egrammar_fst (ws rfc_ws)) _ _ _ _ cx_plain_erase_ws).
Qed.

Lemma cx_ok : jv_ok cx_v.
Proof.
  unfold cx_v, cx_kb1, cx_k2, cx_sval, cx_num2. cbn [jv_ok length].
  repeat split; try lia; repeat constructor; discriminate.
Qed.

Lemma cx_nz : nz cx_txt.
Proof. rewrite cx_txt_bytes. unfold nz. repeat constructor; discriminate. Qed.

(** evaluation, independent of the theorems: Minify's list-level function, the buffer-level
    code, and the parser specification on the result and on the comment-free original *)
Lemma cx_minify_eval : minify_spec cx_txt = cx_min /\ minify_spec cx_plain = cx_min /\ minify_spec cx_min = cx_min.
Proof. repeat split; vm_compute; reflexivity. Qed.

Lemma cx_buffer_eval : option_map cstr (match cJSON_Minify (cx_txt ++ [0]) with Ok b => Some b | _ => None end) = Some cx_min.
Proof. vm_compute. reflexivity. Qed.

Lemma cx_parse_eval :
  text_l strtod_ref cx_min false = Some (tree_of strtod_ref cx_v, []) /\
  text_l strtod_ref cx_plain false = Some (tree_of strtod_ref cx_v, [13; 10; 32]) /\
  text_l strtod_ref cx_txt false = None.     (* the parser itself knows no comments *)
Proof. repeat split; vm_compute; reflexivity. Qed.

Lemma cx_tree : tree_of strtod_ref cx_v =
  Node c_cJSON_Object None 0 dzero None
    [Node c_cJSON_Array None 0 dzero (Some [97; 47; 47; 98])
       [Node c_cJSON_Number None 1 (S754_finite false 4503599627370496 (-52)) None [];
        Node c_cJSON_Number None (-2500) (S754_finite true 5497558138880000 (-41)) None [];
        Node c_cJSON_String (Some [112; 47; 42; 113; 42; 47; 34; 114; 92]) 0 dzero None []];
     Node c_cJSON_True None 1 dzero (Some [107; 92]) []].
Proof. vm_compute. reflexivity. Qed.

Theorem minify_grammar_nonvacuous :
  strtod_rfc strtod_ref /\ CJ_erase cx_txt cx_min cx_v /\ CJ_erase cx_plain cx_min cx_v /\
  RFC_text cx_plain cx_v /\ jv_ok cx_v /\ nz cx_txt /\
  minify_spec cx_txt = cx_min /\
  text_l strtod_ref cx_min false = Some (tree_of strtod_ref cx_v, []) /\
  text_l strtod_ref cx_plain false = Some (tree_of strtod_ref cx_v, [13; 10; 32]).
Proof.
  split; [exact strtod_ref_rfc|]. split; [exact cx_erase|]. split; [exact cx_plain_erase|].
  split; [exact cx_plain_rfc|]. split; [exact cx_ok|]. split; [exact cx_nz|].
  split; [exact (proj1 cx_minify_eval)|]. split; [exact (proj1 cx_parse_eval)|exact (proj1 (proj2 cx_parse_eval))].
Qed.

(** outside the language (see the header of MinifyGrammarDefs.v): a lone slash is dropped, and
    an unterminated line comment that is not at the end of the text swallows what follows *)
Remark lone_slash_dropped : minify_spec [91; 49; 47; 50; 93] = [91; 49; 50; 93].
Proof. vm_compute. reflexivity. Qed.
Remark inner_unterminated_comment_swallows : minify_spec [91; 49; 32; 47; 47; 120; 93] = [91; 49].
Proof. vm_compute. reflexivity. Qed.
