(** Rfc6902.v — JSON Patch written from RFC 6902 (and RFC 6901 for the pointers), as a
    declarative evaluator over the same documents ([Tree.node], children in order).  It does not
    mention the C code or its model.  No proofs here.

    Pointers are token lists (already unescaped, [PointerDefs.rfc_parse_pointer]); [] is the whole
    document. *)
From CJ Require Import Base Dbl Tree PointerDefs.
Local Open Scope Z_scope.

Inductive op : Type :=
| Add (p : list bytes) (v : node)
| Remove (p : list bytes)
| Replace (p : list bytes) (v : node)
| Move (from p : list bytes)
| Copy (from p : list bytes)
| Test (p : list bytes) (v : node).

Definition with_children (n : node) (cs : list node) : node :=
  let 'Node t s i d k _ := n in Node t s i d k cs.
Definition with_key (n : node) (k : bytes) : node :=
  let 'Node t s i d _ cs := n in Node t s i d (Some k) cs.

Definition upd_nth {A} (i : nat) (x : A) (l : list A) : list A := firstn i l ++ x :: skipn (S i) l.
Definition ins_nth {A} (i : nat) (x : A) (l : list A) : list A := firstn i l ++ x :: skipn i l.
Definition del_nth {A} (i : nat) (l : list A) : list A := firstn i l ++ skipn (S i) l.

(** ---- equality of documents (RFC 6902 section 4.6 with the library's number equality) ----
    same JSON type; numbers: equal integer view and [compare_double] doubles; strings byte-equal;
    arrays pointwise in order; objects: same number of members and every member of the first has
    an equal member of the same name in the second (key -> value sets when names are distinct). *)
Definition json_type (t : Z) : bool :=
  (t =? c_cJSON_False) || (t =? c_cJSON_True) || (t =? c_cJSON_NULL) || (t =? c_cJSON_Number) ||
  (t =? c_cJSON_String) || (t =? c_cJSON_Array) || (t =? c_cJSON_Object).

Fixpoint doc_eqb (a b : node) {struct a} : bool :=
  match a with
  | Node ta sa ia da _ ca =>
      let t := tymask ta in
      json_type t && (t =? tymask (n_ty b)) &&
      (if t =? c_cJSON_Number then (ia =? n_vint b) && compare_double da (n_vdbl b)
       else if t =? c_cJSON_String then
         match sa, n_vstr b with Some x, Some y => bytes_eqb x y | _, _ => false end
       else if t =? c_cJSON_Array then
         (fix arr (la lb : list node) : bool :=
            match la, lb with
            | [], [] => true
            | x :: la', y :: lb' => doc_eqb x y && arr la' lb'
            | _, _ => false
            end) ca (n_children b)
       else if t =? c_cJSON_Object then
         (length ca =? length (n_children b))%nat &&
         (fix obj (la : list node) : bool :=
            match la with
            | [] => true
            | x :: la' =>
                match n_key x with
                | Some k => match find_key (n_children b) k 0%nat with
                            | Some (_, y) => doc_eqb x y && obj la'
                            | None => false
                            end
                | None => false
                end
            end) ca
       else true)
  end.

(* the declarative reading *)
Inductive doc_eq : node -> node -> Prop :=
| de_lit a b : tymask (n_ty a) = tymask (n_ty b) ->
    (tymask (n_ty a) = c_cJSON_False \/ tymask (n_ty a) = c_cJSON_True \/ tymask (n_ty a) = c_cJSON_NULL) ->
    doc_eq a b
| de_num a b : tymask (n_ty a) = c_cJSON_Number -> tymask (n_ty b) = c_cJSON_Number ->
    n_vint a = n_vint b -> compare_double (n_vdbl a) (n_vdbl b) = true -> doc_eq a b
| de_str a b s : tymask (n_ty a) = c_cJSON_String -> tymask (n_ty b) = c_cJSON_String ->
    n_vstr a = Some s -> n_vstr b = Some s -> doc_eq a b
| de_arr a b : tymask (n_ty a) = c_cJSON_Array -> tymask (n_ty b) = c_cJSON_Array ->
    Forall2 doc_eq (n_children a) (n_children b) -> doc_eq a b
| de_obj a b : tymask (n_ty a) = c_cJSON_Object -> tymask (n_ty b) = c_cJSON_Object ->
    Forall (fun x => Exists (fun y => n_key x <> None /\ n_key x = n_key y /\ doc_eq x y) (n_children b)) (n_children a) ->
    Forall (fun y => Exists (fun x => n_key x <> None /\ n_key x = n_key y /\ doc_eq x y) (n_children a)) (n_children b) ->
    doc_eq a b.

(** ---- RFC 6901 evaluation on tokens ---- *)
Fixpoint get (d : node) (toks : list bytes) : option node :=
  match toks with
  | [] => Some d
  | t :: ts =>
      if is_array d then
        match rfc_array_index t with
        | Some i => match nth_z (n_children d) i with Some c => get c ts | None => None end
        | None => None
        end
      else if is_object d then
        match find_key (n_children d) t 0%nat with Some (_, c) => get c ts | None => None end
      else None
  end.

(* apply [f] to the value designated by [toks]; every token on the way must designate an
   existing value *)
Fixpoint at_location (d : node) (toks : list bytes) (f : node -> option node) : option node :=
  match toks with
  | [] => f d
  | t :: ts =>
      if is_array d then
        match rfc_array_index t with
        | Some i =>
            match nth_z (n_children d) i with
            | Some c => match at_location c ts f with
                        | Some c' => Some (with_children d (upd_nth (Z.to_nat i) c' (n_children d)))
                        | None => None
                        end
            | None => None
            end
        | None => None
        end
      else if is_object d then
        match find_key (n_children d) t 0%nat with
        | Some (j, c) => match at_location c ts f with
                         | Some c' => Some (with_children d (upd_nth j c' (n_children d)))
                         | None => None
                         end
        | None => None
        end
      else None
  end.

Definition split_last (p : list bytes) : option (list bytes * bytes) :=
  match rev p with [] => None | t :: r => Some (rev r, t) end.

(* 4.1 add: into an array at an index <= size or at "-"; into an object as a new member or in
   place of the existing member of that name *)
Definition add_member (t : bytes) (v : node) (c : node) : option node :=
  if is_array c then
    if bytes_eqb t [45] then Some (with_children c (n_children c ++ [v]))
    else match rfc_array_index t with
         | Some i => if i <=? Z.of_nat (length (n_children c))
                     then Some (with_children c (ins_nth (Z.to_nat i) v (n_children c))) else None
         | None => None
         end
  else if is_object c then
    match find_key (n_children c) t 0%nat with
    | Some (j, _) => Some (with_children c (upd_nth j (with_key v t) (n_children c)))
    | None => Some (with_children c (n_children c ++ [with_key v t]))
    end
  else None.

(* 4.2 remove: the target location must exist *)
Definition remove_member (t : bytes) (c : node) : option node :=
  if is_array c then
    match rfc_array_index t with
    | Some i => if i <? Z.of_nat (length (n_children c))
                then Some (with_children c (del_nth (Z.to_nat i) (n_children c))) else None
    | None => None
    end
  else if is_object c then
    match find_key (n_children c) t 0%nat with
    | Some (j, _) => Some (with_children c (del_nth j (n_children c)))
    | None => None
    end
  else None.

Definition add (d : node) (p : list bytes) (v : node) : option node :=
  match split_last p with
  | None => Some v                                     (* the whole document is replaced *)
  | Some (pp, t) => at_location d pp (add_member t v)
  end.

(* removal of the whole document is not defined by the RFC: no result *)
Definition remove (d : node) (p : list bytes) : option node :=
  match split_last p with
  | None => None
  | Some (pp, t) => at_location d pp (remove_member t)
  end.

(* 4.3 replace = remove, then add at the same location; the root always exists *)
Definition replace (d : node) (p : list bytes) (v : node) : option node :=
  match p with
  | [] => Some v
  | _ => match remove d p with Some d' => add d' p v | None => None end
  end.

Fixpoint proper_prefix (a b : list bytes) : bool :=
  match a, b with
  | [], _ :: _ => true
  | x :: a', y :: b' => bytes_eqb x y && proper_prefix a' b'
  | _, _ => false
  end.

Definition eval1 (d : node) (o : op) : option node :=
  match o with
  | Add p v => add d p v
  | Remove p => remove d p
  | Replace p v => replace d p v
  | Move from p =>
      (* 4.4: "from" MUST NOT be a proper prefix of "path"; = remove at from, add at path *)
      if proper_prefix from p then None
      else match get d from with
           | None => None
           | Some v => match remove d from with Some d' => add d' p v | None => None end
           end
  | Copy from p => match get d from with Some v => add d p v | None => None end
  | Test p v => match get d p with Some x => if doc_eqb x v then Some d else None | None => None end
  end.

Fixpoint eval (d : node) (ops : list op) : option node :=
  match ops with
  | [] => Some d
  | o :: r => match eval1 d o with Some d' => eval d' r | None => None end
  end.

(** ---- decoding a patch document (section 3, 4): an array of objects with "op", "path" and
    "value" / "from" as the operation requires ---- *)
Definition k_op : bytes := [111; 112].
Definition k_path : bytes := [112; 97; 116; 104].
Definition k_value : bytes := [118; 97; 108; 117; 101].
Definition k_from : bytes := [102; 114; 111; 109].
Definition v_add : bytes := [97; 100; 100].
Definition v_remove : bytes := [114; 101; 109; 111; 118; 101].
Definition v_replace : bytes := [114; 101; 112; 108; 97; 99; 101].
Definition v_move : bytes := [109; 111; 118; 101].
Definition v_copy : bytes := [99; 111; 112; 121].
Definition v_test : bytes := [116; 101; 115; 116].

Definition member (n : node) (k : bytes) : option node :=
  match find_key (n_children n) k 0%nat with Some (_, m) => Some m | None => None end.
Definition str_member (n : node) (k : bytes) : option bytes :=
  match member n k with Some m => if is_string m then n_vstr m else None | None => None end.
Definition ptr_member (n : node) (k : bytes) : option (list bytes) :=
  match str_member n k with Some s => rfc_parse_pointer s | None => None end.

Definition op_of (n : node) : option op :=
  if negb (is_object n) then None
  else match str_member n k_op, ptr_member n k_path with
       | Some o, Some p =>
           if bytes_eqb o v_add then option_map (Add p) (member n k_value)
           else if bytes_eqb o v_remove then Some (Remove p)
           else if bytes_eqb o v_replace then option_map (Replace p) (member n k_value)
           else if bytes_eqb o v_move then option_map (fun f => Move f p) (ptr_member n k_from)
           else if bytes_eqb o v_copy then option_map (fun f => Copy f p) (ptr_member n k_from)
           else if bytes_eqb o v_test then option_map (Test p) (member n k_value)
           else None
       | _, _ => None
       end.

Definition ops_of (patch : node) : option (list op) :=
  if is_array patch then all_some (map op_of (n_children patch)) else None.

(** ---- executable well-formedness checks used by the correspondence driver ---- *)
Definition okey_eqb (a b : option bytes) : bool :=
  match a, b with Some x, Some y => bytes_eqb x y | None, None => true | _, _ => false end.
Fixpoint nodupb (l : list (option bytes)) : bool :=
  match l with [] => true | x :: r => negb (existsb (okey_eqb x) r) && nodupb r end.
Definition str_okb (s : bytes) : bool := forallb (fun c => (0 <? c) && (c <? 256)) s.

(* a JSON document as a parser builds it: JSON types without flags, strings present exactly
   where the type says, keys on exactly the members of objects and pairwise distinct, children
   only under arrays and objects, no NaN *)
Fixpoint json_docb (in_object : bool) (n : node) : bool :=
  match n with
  | Node ty vs vi vd k cs =>
      json_type ty &&
      (if ty =? c_cJSON_String then match vs with Some s => str_okb s | None => false end
       else match vs with None => true | Some _ => false end) &&
      (if ty =? c_cJSON_Number then negb (is_nan vd) else true) &&
      (if in_object then match k with Some s => str_okb s | None => false end else true) &&
      (if ty =? c_cJSON_Object then nodupb (map n_key cs)
       else if ty =? c_cJSON_Array then true
       else match cs with [] => true | _ => false end) &&
      (fix go (l : list node) : bool :=
         match l with [] => true | c :: r => json_docb (ty =? c_cJSON_Object) c && go r end) cs
  end.
