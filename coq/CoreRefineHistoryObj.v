(** CoreRefineHistoryObj.v — the history theorem with OBJECTS: keys (owned copies and constant
    caller strings), by-key queries and edits, caller-provided strings.

    The abstract state [astate2] adds to [CoreRefineHistory.astate] the string heap [a_str] and
    the set of caller-owned blocks [a_foreign]; the representation invariant [Abs2] adds to
    [Abs]: the heap's string map IS [a_str]; every abstract string is a live block below
    [h_next]; foreign blocks are tagged [Foreign]; [KeysOK]: every key of every node is a
    terminated string, and constant keys are caller memory.  A call with a [Frame]
    ([CoreRefineFrame]) keeps [Abs2] for the string heap [strs_gc F F' a_str] (the strings of
    released blocks disappear) — [Abs2_frame]; [add_item_to_object] changes data and allocates,
    so it has its own step lemmas ([addobj_post], [step_addobj_owned/_nomem/_const]).

    [step_sim2], [history_sim2], [history2_from_empty]: as in CoreRefineHistory, over the
    alphabet [op2] = the 11 array calls + caller string + cJSON_AddItemToObject[CS] +
    cJSON_GetObjectItem[CaseSensitive] + cJSON_DetachItemFromObject[CaseSensitive] +
    cJSON_DeleteItemFromObject[CaseSensitive]. *)
From CJ Require Import Base Dbl Heap Forest ForestLemmas CoreSpec CoreDefs CoreRefineBase CoreRefine
  CoreRefineDelete CoreRefineReplace CoreRefineMore CoreRefineFrame CoreRefineHistory CoreRefineObject
  CoreRefineByKey CoreRefineAddObject.
From CJ.gen Require Import Constants.
From stdpp Require Import gmap.
Implicit Types (h : heap) (F : forest) (p x y r : positive) (d : rdata).
Local Open Scope Z_scope.

(** * abstract state with strings *)
Definition has0 (s : bytes) : bool := existsb (Z.eqb 0) s.

Record astate2 : Type := mkAS2 {
  a_st : astate;                       (* forest and allocator counters *)
  a_str : gmap positive bytes;         (* the string heap *)
  a_foreign : gset positive            (* caller-owned string blocks *)
}.
Definition a_forest (S : astate2) : forest := as_forest (a_st S).

(** strings of released blocks disappear *)
Definition strs_gc (F F' : forest) (m : gmap positive bytes) : gmap positive bytes :=
  filter (fun kv => ~ released F F' kv.1) m.

Lemma strs_gc_lookup F F' m b :
  strs_gc F F' m !! b = if decide (released F F' b) then None else m !! b.
Proof.
  unfold strs_gc. destruct (decide (released F F' b)) as [Hr|Hr].
  - apply map_filter_lookup_None. right. intros s _. cbn. tauto.
  - destruct (m !! b) as [s|] eqn:E.
    + by apply map_filter_lookup_Some.
    + apply map_filter_lookup_None. by left.
Qed.

(** every key is a readable string; constant keys are caller memory *)
Definition KeysOK (S : astate2) : Prop :=
  forall e b, e ∈ datas (a_forest S) -> rd_key e.2 = Some b ->
    (exists s : bytes, a_str S !! b = Some s /\ has0 s = true) /\ (is_const e.2 = true -> b ∈ a_foreign S).

Definition StrInv h (S : astate2) : Prop :=
  (forall b (s : bytes), a_str S !! b = Some s -> b ∈ h_live h /\ (b < h_next h)%positive) /\
  (forall b, b ∈ a_foreign S -> h_own h !! b = Some Foreign /\ is_Some (a_str S !! b)).

Definition Abs2 h (S : astate2) : Prop :=
  Abs h (a_st S) /\ h_str h = a_str S /\ StrInv h S /\ KeysOK S.

Lemma Abs2_KeysReadable h S : Abs2 h S -> KeysReadable h (a_forest S).
Proof.
  intros (HA & Hstr & [SI1 SI2] & KO) e b He Hb.
  destruct (KO (fdata e) b) as [(s & Hs & Hz) _]; [by apply elem_of_list_fmap_1|done|].
  split; [by apply (SI1 _ _ Hs)|]. exists s. by rewrite Hstr.
Qed.

(** a key of a node of the forest is not released while the node stays *)
Lemma key_not_released h S F' e b :
  Abs2 h S -> e ∈ datas (a_forest S) -> e ∈ datas F' -> rd_key e.2 = Some b ->
  ~ released (a_forest S) F' b.
Proof.
  intros ((W & _) & _ & [_ SI2] & KO) He He' Hb [Hr1 Hr2].
  destruct (KO e b He Hb) as [_ Hc]. destruct (is_const e.2) eqn:Hconst.
  - destruct (SI2 b (Hc eq_refl)) as [Hf _]. rewrite (wf_owned_lib _ _ W _ Hr1) in Hf. done.
  - apply Hr2. rewrite owned_datas. apply elem_of_list_bind. exists e. split; [|done].
    right. unfold owned_strs. rewrite Hconst, Hb. apply elem_of_app. right. by left.
Qed.

(** the generic step: a call with a [Frame] keeps the extended representation *)
Lemma Abs2_frame h h' S S1 :
  Abs2 h S -> Abs h' S1 -> Frame h h' (a_forest S) (as_forest S1) ->
  Abs2 h' (mkAS2 S1 (strs_gc (a_forest S) (as_forest S1) (a_str S)) (a_foreign S)).
Proof.
  intros HA2 HA1 Fr. pose proof HA2 as ((W & _) & Hstr & [SI1 SI2] & KO).
  split; [exact HA1|]. unfold StrInv, KeysOK, a_forest. cbn [a_st a_str a_foreign]. split_and!.
  - apply map_eq. intros b0. rewrite (fr_str _ _ _ _ Fr), strs_gc_lookup, Hstr. done.
  - intros b s Hb. rewrite strs_gc_lookup in Hb. destruct (decide _) as [|Hnr]; [done|].
    destruct (SI1 _ _ Hb) as [Hl Hn]. split; [by apply (fr_live _ _ _ _ Fr)|].
    pose proof (fr_next _ _ _ _ Fr). lia.
  - intros b Hb. destruct (SI2 _ Hb) as [Ho [s Hs]]. destruct (SI1 _ _ Hs) as [_ Hn].
    split; [rewrite (fr_own _ _ _ _ Fr); [done|lia]|].
    rewrite strs_gc_lookup. destruct (decide _) as [[Hr _]|]; [|by eexists].
    rewrite (wf_owned_lib _ _ W _ Hr) in Ho. done.
  - intros e b He Hb.
    destruct (fr_data _ _ _ _ Fr e He) as [He0|[_ Hk]]; [|congruence].
    destruct (KO e b He0 Hb) as [(s & Hs & Hz) Hc]. split; [|exact Hc].
    exists s. split; [|done]. rewrite strs_gc_lookup. rewrite decide_False; [done|].
    by eapply key_not_released.
Qed.

(** * caller memory *)
Definition foreign_heap (h : heap) (c : bytes) : heap :=
  let id := h_next h in
  mkHeap (h_lnk h) (h_dat h) (<[id := c]> (h_str h)) (<[id := Foreign]> (h_own h)) ({[id]} ∪ h_live h)
         (Pos.succ id) (h_req h) (h_hooks h) (h_trace h).
Lemma run_foreign_bytes h c : foreign_bytes c h = Ret (Some (h_next h), foreign_heap h c).
Proof. reflexivity. Qed.
Lemma WF_foreign_heap h F c : WF h F -> WF (foreign_heap h c) F.
Proof.
  intros [H1 H2 H3 H4 H5 H6 H7 H8]. constructor; cbn; try done.
  - intros b Hb. apply elem_of_union. right. by apply H5.
  - intros b Hb. rewrite lookup_insert_ne; [by apply H6|]. intros <-. exact (Pos.lt_irrefl _ (H7 _ Hb)).
  - intros b Hb. apply Pos.lt_lt_succ. by apply H7.
Qed.

(** * the alphabet with objects *)
Inductive op2 : Type :=
| OArr (o : op)                                                       (* the calls of CoreRefineHistory *)
| OForeign (contents : bytes)                                         (* the caller provides a string *)
| OAddObj (object name item : ptr) (constant_key : bool)              (* cJSON_AddItemToObject / ...CS *)
| OGetKey (object name : ptr) (case_sensitive : bool)                 (* cJSON_GetObjectItem[CaseSensitive] *)
| ODetachKey (object name : ptr) (case_sensitive : bool)              (* cJSON_DetachItemFromObject[CaseSensitive] *)
| ODeleteKey (object name : ptr) (case_sensitive : bool).             (* cJSON_DeleteItemFromObject[CaseSensitive] *)

Section HistoryObj.
  Variable oracle : nat -> bool.

  Definition run_op2 (o : op2) : M res :=
    match o with
    | OArr o => run_op oracle o
    | OForeign c => p <~ foreign_bytes c ;; ret (RPtr p)
    | OAddObj ob n i ck => b <~ add_item_to_object oracle ob n i ck ;; ret (RBool b)
    | OGetKey ob n cs => p <~ get_object_item ob n cs ;; ret (RPtr p)
    | ODetachKey ob n cs =>
        p <~ (to_detach <~ get_object_item ob n cs ;; cJSON_DetachItemViaPointer ob to_detach) ;; ret (RPtr p)
    | ODeleteKey ob n cs =>
        (it <~ (to_detach <~ get_object_item ob n cs ;; cJSON_DetachItemViaPointer ob to_detach) ;;
         cJSON_Delete it) ;;; ret RUnit
    end.

  Definition with_forest (S : astate2) (F' : forest) : astate2 :=
    mkAS2 (mkAS F' (as_next (a_st S)) (as_req (a_st S))) (strs_gc (a_forest S) F' (a_str S)) (a_foreign S).

  Definition spec_step2 (S : astate2) (o : op2) : astate2 * res :=
    let F := a_forest S in
    match o with
    | OArr o =>
        let '(S1, r) := spec_step oracle (a_st S) o in
        (mkAS2 S1 (strs_gc F (as_forest S1) (a_str S)) (a_foreign S), r)
    | OForeign c =>
        let id := as_next (a_st S) in
        (mkAS2 (mkAS F (Pos.succ id) (as_req (a_st S))) (<[id := c]> (a_str S)) ({[id]} ∪ a_foreign S),
         RPtr (Some id))
    | OAddObj ob n i ck =>
        match ob, n, i with
        | Some p, Some sb, Some x =>
            if decide (p = x) then (S, RBool false) else
            if ck then
              let '(F', b) := spec_add_to_object F ob n i true None in (with_forest S F', RBool b)
            else if oracle (as_req (a_st S)) then
              (mkAS2 (mkAS F (as_next (a_st S)) (Datatypes.S (as_req (a_st S)))) (a_str S) (a_foreign S), RBool false)
            else
              let nk := as_next (a_st S) in
              let '(F', b) := spec_add_to_object F ob n i false (Some nk) in
              let c := match a_str S !! sb with Some s => cstr s ++ [0] | None => [] end in
              (mkAS2 (mkAS F' (Pos.succ nk) (Datatypes.S (as_req (a_st S))))
                     (<[nk := c]> (strs_gc F F' (a_str S))) (a_foreign S), RBool b)
        | _, _, _ => (S, RBool false)
        end
    | OGetKey ob n cs => (S, RPtr (spec_get_key (a_str S) F ob n cs))
    | ODetachKey ob n cs =>
        let '(F', r) := spec_detach_key (a_str S) F ob n cs in (with_forest S F', RPtr r)
    | ODeleteKey ob n cs => (with_forest S (spec_delete_key (a_str S) F ob n cs), RUnit)
    end.

  (** a readable name in the abstract string heap *)
  Definition name_ok (S : astate2) (n : ptr) : Prop :=
    exists nb (s : bytes), n = Some nb /\ a_str S !! nb = Some s /\ has0 s = true.

  Definition pre_ok2 (S : astate2) (o : op2) : Prop :=
    let F := a_forest S in
    match o with
    | OArr o => pre_ok (a_st S) o
    | OForeign _ => True
    | OAddObj ob n i ck =>
        (ob = None \/ n = None \/ i = None \/ ob = i) \/
        (exists p x, ob = Some p /\ i = Some x /\ movable_into F p x /\ name_ok S n /\
           (ck = true -> exists nb, n = Some nb /\ nb ∈ a_foreign S))
    | OGetKey ob n cs | ODetachKey ob n cs | ODeleteKey ob n cs =>
        exists p d cs', ob = Some p /\ find_tree p F = Some (T p d cs') /\ is_ref d = false /\ name_ok S n
    end.
End HistoryObj.

Section HistoryObjProofs.
  Variable oracle : nat -> bool.

  Lemma with_forest_Abs2 h h' S F' :
    Abs2 h S -> WF h' F' -> NoLeak h' F' -> Frame h h' (a_forest S) F' ->
    h_next h' = h_next h -> h_req h' = h_req h -> Abs2 h' (with_forest S F').
  Proof.
    intros HA2 W' NL' Fr Hn Hq. destruct HA2 as ((W & NL & Hnext & Hreq) & Hrest).
    apply (Abs2_frame h h' S (mkAS F' (as_next (a_st S)) (as_req (a_st S)))); [by split| |done].
    split_and!; [done|done|cbn; congruence|cbn; congruence].
  Qed.

  Lemma step_sim2_arr h S o :
    Abs2 h S -> pre_ok (a_st S) o ->
    exists h', run_op2 oracle (OArr o) h = Ret ((spec_step2 oracle S (OArr o)).2, h') /\
               Abs2 h' (spec_step2 oracle S (OArr o)).1.
  Proof.
    intros HA2 Hpre. destruct (step_sim oracle h (a_st S) o (proj1 HA2) Hpre) as (h' & Hrun & HA1 & Fr).
    exists h'. cbn [run_op2 spec_step2]. destruct (spec_step oracle (a_st S) o) as [S1 r] eqn:E. cbn [fst snd] in *.
    split; [exact Hrun|]. by apply (Abs2_frame h).
  Qed.

  Lemma step_sim2_foreign h S c :
    Abs2 h S ->
    exists h', run_op2 oracle (OForeign c) h = Ret ((spec_step2 oracle S (OForeign c)).2, h') /\
               Abs2 h' (spec_step2 oracle S (OForeign c)).1.
  Proof.
    intros ((W & NL & Hnext & Hreq) & Hstr & [SI1 SI2] & KO).
    exists (foreign_heap h c). cbn [run_op2 spec_step2 fst snd]. rewrite <- Hnext.
    split; [reflexivity|]. split_and!.
    - split_and!; [by apply WF_foreign_heap| |cbn; congruence|done].
      intros b Hb. apply NL. unfold lib_live in *. apply elem_of_filter in Hb as [Hb1 Hb2]. cbn in Hb1, Hb2.
      destruct (decide (b = h_next h)) as [->|Hne]; [by rewrite lookup_insert in Hb1|].
      rewrite lookup_insert_ne in Hb1 by done. apply elem_of_filter. split; [done|set_solver].
    - cbn. by rewrite Hstr.
    - split; cbn [a_str a_foreign].
      + intros b s Hb. cbn. destruct (decide (b = h_next h)) as [->|Hne].
        * split; [set_solver|lia].
        * rewrite lookup_insert_ne in Hb by done. destruct (SI1 _ _ Hb). split; [set_solver|lia].
      + intros b Hb. cbn. apply elem_of_union in Hb as [->%elem_of_singleton|Hb].
        * by rewrite !lookup_insert.
        * destruct (SI2 _ Hb) as [Ho [s Hs]]. destruct (SI1 _ _ Hs) as [_ Hlt].
          rewrite !lookup_insert_ne by lia. eauto.
    - intros e b He Hb. destruct (KO e b He Hb) as [(s & Hs & Hz) Hc]. cbn [a_str a_foreign]. split.
      + exists s. split; [|done]. destruct (SI1 _ _ Hs) as [_ Hlt]. rewrite lookup_insert_ne by lia. done.
      + intros Hcc. apply elem_of_union. right. by apply Hc.
  Qed.

  Lemma name_ok_readable h S n :
    Abs2 h S -> name_ok S n -> exists nb (s : bytes), n = Some nb /\ nb ∈ h_live h /\ h_str h !! nb = Some s /\
      existsb (Z.eqb 0) s = true /\ a_str S !! nb = Some s.
  Proof.
    intros (_ & Hstr & [SI1 _] & _) (nb & s & -> & Hs & Hz). exists nb, s.
    split_and!; [done|by apply (SI1 _ _ Hs)|by rewrite Hstr|done|done].
  Qed.

  Lemma step_sim2_getkey h S ob n cs :
    Abs2 h S -> pre_ok2 S (OGetKey ob n cs) ->
    exists h', run_op2 oracle (OGetKey ob n cs) h = Ret ((spec_step2 oracle S (OGetKey ob n cs)).2, h') /\
               Abs2 h' (spec_step2 oracle S (OGetKey ob n cs)).1.
  Proof.
    intros HA2 (p & d & cs' & -> & Hp & Hr & Hn).
    destruct (name_ok_readable h S n HA2 Hn) as (nb & s & -> & Hl & Hs & Hz & Hs').
    pose proof HA2 as ((W & _) & Hstr & _).
    exists h. cbn [run_op2 spec_step2 fst snd]. split; [|done].
    rewrite (bindM_Ret _ _ _ _ _ (get_object_item_sim h _ p d cs' nb s W (Abs2_KeysReadable _ _ HA2) Hp Hl Hs Hz cs Hr)).
    by rewrite Hstr.
  Qed.

  Lemma step_sim2_detachkey h S ob n cs :
    Abs2 h S -> pre_ok2 S (ODetachKey ob n cs) ->
    exists h', run_op2 oracle (ODetachKey ob n cs) h = Ret ((spec_step2 oracle S (ODetachKey ob n cs)).2, h') /\
               Abs2 h' (spec_step2 oracle S (ODetachKey ob n cs)).1.
  Proof.
    intros HA2 (p & d & cs' & -> & Hp & Hr & Hn).
    destruct (name_ok_readable h S n HA2 Hn) as (nb & s & -> & Hl & Hs & Hz & Hs').
    pose proof HA2 as ((W & NL & _) & Hstr & _).
    pose proof (detach_by_key_sim h _ p d cs' nb s W (Abs2_KeysReadable _ _ HA2) Hp Hr Hl Hs Hz cs) as HD.
    cbn [run_op2 spec_step2]. rewrite Hstr in HD.
    unfold a_forest in *. revert HD. destruct (spec_detach_key (a_str S) (as_forest (a_st S)) (Some p) (Some nb) cs) as [F' r].
    intros (h' & Hrun & W' & NL' & Fr & Hnx & Hrq). exists h'. cbn [fst snd].
    rewrite (bindM_Ret _ _ _ _ _ Hrun). split; [done|]. by apply (with_forest_Abs2 h); auto.
  Qed.

  Lemma step_sim2_deletekey h S ob n cs :
    Abs2 h S -> pre_ok2 S (ODeleteKey ob n cs) ->
    exists h', run_op2 oracle (ODeleteKey ob n cs) h = Ret ((spec_step2 oracle S (ODeleteKey ob n cs)).2, h') /\
               Abs2 h' (spec_step2 oracle S (ODeleteKey ob n cs)).1.
  Proof.
    intros HA2 (p & d & cs' & -> & Hp & Hr & Hn).
    destruct (name_ok_readable h S n HA2 Hn) as (nb & s & -> & Hl & Hs & Hz & Hs').
    pose proof HA2 as ((W & NL & _) & Hstr & _).
    destruct (delete_by_key_sim h _ p d cs' nb s W (Abs2_KeysReadable _ _ HA2) Hp Hr Hl Hs Hz cs)
      as (h' & Hrun & W' & NL' & Fr & Hnx & Hrq).
    rewrite Hstr in W', NL', Fr. exists h'. cbn [run_op2 spec_step2 fst snd].
    rewrite (bindM_Ret _ _ _ _ _ Hrun). split; [done|]. by apply (with_forest_Abs2 h); auto.
  Qed.
End HistoryObjProofs.

(** * add_item_to_object in the extended representation *)
Lemma datas_add_to_object F x d cs p dp csp :
  NoDup (ids F) -> find_root x F = Some (T x d cs) -> find_tree p (remove_root x F) = Some (T p dp csp) ->
  exists DR, datas F ≡ₚ (x, d) :: DR /\
    forall d', datas (set_children p (csp ++ [T x d' cs]) (remove_root x F)) ≡ₚ (x, d') :: DR.
Proof.
  intros ND Hx Hp. destruct (set_data_root F x d cs d ND Hx) as (Hin & _ & _).
  destruct (flat_set_data F x d cs ND Hin) as (FL & E1 & E2).
  exists (fdata <$> FL). split; [unfold datas; by rewrite E1|].
  intros d'. destruct (set_data_root F x d cs d' ND Hx) as (_ & Hx1 & Hrr).
  assert (ND1 : NoDup (ids (set_data x d' F))).
  { rewrite ids_flat, E2. rewrite ids_flat, E1 in ND. exact ND. }
  rewrite <- Hrr.
  rewrite (datas_move_root (set_data x d' F) x (T x d' cs) p dp csp (csp ++ [T x d' cs]) ND1 Hx1).
  - unfold datas. by rewrite E2.
  - by rewrite Hrr.
  - by rewrite <- Permutation_cons_append.
Qed.

Lemma owned_of_cons e ds : owned_of (e :: ds) = (e.1 :: owned_strs e.2) ++ owned_of ds.
Proof. reflexivity. Qed.

(** which blocks a re-keying releases *)
Lemma released_rekey F F' x d d' DR b :
  NoDup (owned F) -> datas F ≡ₚ (x, d) :: DR -> datas F' ≡ₚ (x, d') :: DR ->
  rd_vstr d' = rd_vstr d -> is_ref d' = is_ref d ->
  (forall k, k ∈ old_key d' -> k ∉ owned F) ->
  released F F' b <-> b ∈ old_key d.
Proof.
  intros NDo HD HD' Hv Hir Hnew. unfold released. rewrite !owned_datas, HD, HD', !owned_of_cons in *.
  cbn [fst snd] in *. rewrite !owned_strs_split, Hv, Hir in *.
  set (vp := if is_ref d then [] else opt_list (rd_vstr d)) in *.
  apply NoDup_app in NDo as (N1 & N12 & N2). apply NoDup_cons in N1 as [Hx N1]. apply NoDup_app in N1 as (Nv & Nvk & Nk).
  split.
  - intros [Hin Hnin]. set_solver.
  - intros Hb. split; [set_solver|]. intros Hin.
    apply elem_of_app in Hin as [Hin|Hin]; [|apply (N12 b); set_solver].
    apply elem_of_cons in Hin as [->|Hin]; [set_solver|].
    apply elem_of_app in Hin as [Hin|Hin]; [by apply (Nvk b)|].
    apply (Hnew _ Hin). rewrite HD, owned_of_cons. cbn [fst snd]. rewrite owned_strs_split. fold vp. set_solver.
Qed.

Section AddObjStep.
  Variable oracle : nat -> bool.
  Context (h : heap) (S : astate2) (p x nb : positive) (s : bytes) (d dp : rdata) (cs csp : list tree).
  Hypothesis HA2 : Abs2 h S.
  Hypothesis Hpx : p <> x.
  Hypothesis Hx : find_root x (a_forest S) = Some (T x d cs).
  Hypothesis Hp : find_tree p (remove_root x (a_forest S)) = Some (T p dp csp).
  Hypothesis Href : is_ref dp = false.
  Hypothesis Hs : a_str S !! nb = Some s.
  Hypothesis Hz : has0 s = true.

  Let F := a_forest S.
  Let W : WF h F := proj1 (proj1 HA2).
  Let NL : NoLeak h F := proj1 (proj2 (proj1 HA2)).
  Let Hnext : h_next h = as_next (a_st S) := proj1 (proj2 (proj2 (proj1 HA2))).
  Let Hreq : h_req h = as_req (a_st S) := proj2 (proj2 (proj2 (proj1 HA2))).
  Let Hstr : h_str h = a_str S := proj1 (proj2 HA2).
  Let SI1 := proj1 (proj1 (proj2 (proj2 HA2))).
  Let SI2 := proj2 (proj1 (proj2 (proj2 HA2))).
  Let KO : KeysOK S := proj2 (proj2 (proj2 HA2)).

  Lemma addobj_readable : Readable h nb /\ h_str h !! nb = Some s.
  Proof.
    destruct (SI1 _ _ Hs) as [Hl _]. rewrite Hstr. split; [|done]. split; [done|]. exists s. by rewrite Hstr.
  Qed.

  (** the part common to both key kinds, for the result heap [upd_maps (free_all (old_key d) ha) L D] *)
  Lemma addobj_post ha d' F' L D (news : gmap positive bytes) :
    (exists DR, datas F ≡ₚ (x, d) :: DR /\ datas F' ≡ₚ (x, d') :: DR) ->
    rd_vstr d' = rd_vstr d -> is_ref d' = is_ref d ->
    (forall k, k ∈ old_key d' -> k = h_next h /\ is_Some (news !! k)) ->
    (forall b, is_Some (news !! b) -> b ∈ old_key d') ->
    (forall b, rd_key d' = Some b ->
       (exists s' : bytes, (news ∪ a_str S) !! b = Some s' /\ has0 s' = true) /\ (b ∈ old_key d -> b ∈ old_key d') /\
       (is_const d' = true -> b ∈ a_foreign S)) ->
    h_str ha = news ∪ h_str h -> (forall b (s' : bytes), news !! b = Some s' -> b = h_next h) ->
    (forall b, b ∈ h_live ha <-> b ∈ h_live h \/ is_Some (news !! b)) ->
    (forall b, ~ is_Some (news !! b) -> h_own ha !! b = h_own h !! b) ->
    (forall b, is_Some (news !! b) -> h_own ha !! b = Some Lib) ->
    (h_next h <= h_next ha)%positive -> (forall b, is_Some (news !! b) -> (b < h_next ha)%positive) ->
    WF (upd_maps (free_all (old_key d) ha) L D) F' ->
    Abs2 (upd_maps (free_all (old_key d) ha) L D)
         (mkAS2 (mkAS F' (h_next ha) (h_req ha)) (news ∪ strs_gc F F' (a_str S)) (a_foreign S)).
  Proof.
    intros (DR & HD & HD') Hv Hir Hnewk Hnews_key Hkey Hsa Hnews Hla Hoa Hon Hnx Hnn W'.
    pose proof (wf_owned_nodup _ _ W) as NDo. pose proof NDo as NDo'. rewrite owned_datas, HD, owned_of_cons in NDo'. cbn [fst snd] in NDo'. rewrite owned_strs_split in NDo'.
    assert (Hfreshk : forall k, k ∈ old_key d' -> k ∉ owned F).
    { intros k Hk Hin. destruct (Hnewk _ Hk) as [-> _]. exact (Pos.lt_irrefl _ (wf_fresh _ _ W _ Hin)). }
    assert (Hrel : forall b, released F F' b <-> b ∈ old_key d).
    { intros b. by eapply released_rekey. }
    assert (HoF : owned F ≡ₚ (x :: (if is_ref d then [] else opt_list (rd_vstr d)) ++ old_key d) ++ owned_of DR).
    { rewrite owned_datas, HD, owned_of_cons. cbn [fst snd]. by rewrite owned_strs_split. }
    assert (HoF' : owned F' ≡ₚ (x :: (if is_ref d then [] else opt_list (rd_vstr d)) ++ old_key d') ++ owned_of DR).
    { rewrite owned_datas, HD', owned_of_cons. cbn [fst snd]. by rewrite owned_strs_split, Hv, Hir. }
    assert (Hko_owned : forall b, b ∈ old_key d -> b ∈ owned F) by (intros b Hb; rewrite HoF; set_solver).
    assert (Hnews_fresh : forall b, is_Some (news !! b) -> b ∉ owned F /\ a_str S !! b = None).
    { intros b [s' Hb]. rewrite (Hnews _ _ Hb). split.
      - intros Hin. exact (Pos.lt_irrefl _ (wf_fresh _ _ W _ Hin)).
      - destruct (a_str S !! h_next h) as [s''|] eqn:E; [|done]. destruct (SI1 _ _ E) as [_ Hlt]. lia. }
    split_and!.
    - (* Abs *)
      split_and!; [exact W'| |cbn; by rewrite free_all_next|cbn; by rewrite free_all_req].
      intros b Hb. unfold lib_live in Hb. apply elem_of_filter in Hb as [Hb1 Hb2]. cbn in Hb1, Hb2.
      rewrite free_all_own in Hb1. apply free_all_live in Hb2 as [Hb2 Hb3].
      destruct (decide (is_Some (news !! b))) as [Hn|Hn].
      + rewrite HoF'. pose proof (Hnews_key _ Hn). set_solver.
      + apply Hla in Hb2 as [Hb2|Hb2]; [|done]. rewrite (Hoa _ Hn) in Hb1.
        assert (Hbo : b ∈ owned F) by (apply NL; apply elem_of_filter; done).
        rewrite HoF in Hbo. rewrite HoF'. set_solver.
    - (* strings *)
      cbn [a_str h_str upd_maps]. apply map_eq. intros b.
      rewrite lookup_union, strs_gc_lookup.
      destruct (decide (b ∈ old_key d)) as [Hko|Hko].
      + rewrite free_all_str_lookup_in by done. rewrite decide_True by (by apply Hrel).
        destruct (news !! b) as [s'|] eqn:E; [|done]. exfalso.
        destruct (Hnews_fresh b ltac:(eauto)) as [Hno _]. by apply Hno, Hko_owned.
      + rewrite free_all_str_lookup by done. rewrite decide_False by (by rewrite Hrel).
        by rewrite Hsa, lookup_union, Hstr.
    - (* StrInv *)
      split; cbn [a_str a_foreign].
      + intros b s' Hb. cbn. rewrite free_all_next. rewrite lookup_union_Some_raw in Hb. destruct Hb as [Hb|[Hb1 Hb2]].
        * split; [|apply Hnn; eauto]. apply free_all_live. split; [apply Hla; eauto|].
          intros Hko. destruct (Hnews_fresh b ltac:(eauto)) as [Hno _]. by apply Hno, Hko_owned.
        * rewrite strs_gc_lookup in Hb2. destruct (decide _) as [|Hnr]; [done|]. destruct (SI1 _ _ Hb2) as [Hl Hlt].
          split; [|lia]. apply free_all_live. split; [apply Hla; by left|]. by rewrite <- Hrel.
      + intros b Hb. cbn. rewrite free_all_own. destruct (SI2 _ Hb) as [Ho [s' Hs']]. destruct (SI1 _ _ Hs') as [_ Hlt].
        assert (Hnn' : ~ is_Some (news !! b)).
        { intros [s'' Hn]. rewrite (Hnews _ _ Hn) in Hlt. lia. }
        split; [by rewrite (Hoa _ Hnn')|].
        rewrite lookup_union_is_Some. right. rewrite strs_gc_lookup. rewrite decide_False; [by eexists|].
        intros [Hr _]. rewrite (wf_owned_lib _ _ W _ Hr) in Ho. done.
    - (* KeysOK *)
      intros e b He Hb. unfold a_forest in He. cbn [a_st as_forest a_str a_foreign] in *.
      rewrite HD' in He. apply elem_of_cons in He as [->|He].
      + cbn [snd] in *. destruct (Hkey b Hb) as ((s' & Hs' & Hz') & Hkk & Hc). split; [|exact Hc].
        exists s'. split; [|done]. rewrite lookup_union_Some_raw in Hs'. rewrite lookup_union_Some_raw.
        destruct Hs' as [Hs'|[Hs1 Hs2]]; [by left|right]. split; [done|]. rewrite strs_gc_lookup.
        rewrite decide_False; [done|]. rewrite Hrel. intros Hko. pose proof (Hkk Hko) as Hk'.
        destruct (Hnewk _ Hk') as [_ [s'' Hn]]. congruence.
      + assert (He0 : e ∈ datas F) by (rewrite HD; by right).
        destruct (KO e b He0 Hb) as [(s' & Hs' & Hz') Hc]. split; [|exact Hc]. exists s'. split; [|done].
        rewrite lookup_union_Some_raw. right. split.
        * destruct (news !! b) as [s''|] eqn:E; [|done]. destruct (Hnews_fresh b ltac:(eauto)) as [_ Hnone]. congruence.
        * rewrite strs_gc_lookup. rewrite decide_False; [done|]. rewrite Hrel. intros Hko.
          (* a key of another node is not the old key of x *)
          destruct (is_const e.2) eqn:Hce.
          -- destruct (SI2 b (Hc eq_refl)) as [Hf _]. rewrite (wf_owned_lib _ _ W _ (Hko_owned _ Hko)) in Hf. done.
          -- apply NoDup_app in NDo' as (N1 & N12 & N2). apply (N12 b); [set_solver|].
             apply elem_of_list_bind. exists e. split; [|done]. right. unfold owned_strs. rewrite Hce, Hb.
             apply elem_of_app. right. by left.
  Qed.

  Lemma has0_snoc (t : bytes) : has0 (t ++ [0]) = true.
  Proof. unfold has0. rewrite existsb_app. cbn. by rewrite orb_true_r. Qed.

  Lemma step_addobj_owned :
    oracle (as_req (a_st S)) = false ->
    exists h', run_op2 oracle (OAddObj (Some p) (Some nb) (Some x) false) h =
                 Ret ((spec_step2 oracle S (OAddObj (Some p) (Some nb) (Some x) false)).2, h') /\
               Abs2 h' (spec_step2 oracle S (OAddObj (Some p) (Some nb) (Some x) false)).1.
  Proof.
    intros Ho. destruct addobj_readable as [Hrd Hsh]. rewrite <- Hreq in Ho.
    destruct (add_item_to_object_sim_owned oracle h F p x nb d dp cs csp W Hpx Hx Hp Href s Hrd Hsh Ho) as (S1 & S2 & S3).
    cbn [run_op2 spec_step2]. rewrite decide_False by done. rewrite <- Hreq, Ho, <- Hnext.
    fold F. rewrite S1, Hs. cbn [fst snd].
    eexists. rewrite (bindM_Ret _ _ _ _ _ S2). split; [done|].
    set (nk := h_next h) in *. set (c := cstr s ++ [0]) in *.
    rewrite insert_union_singleton_l.
    apply (addobj_post (alloc_str h c) (rd_owned_key d nk)); try done.
    - destruct (datas_add_to_object F x d cs p dp csp (wf_nodup _ _ W) Hx Hp) as (DR & E1 & E2). eauto.
    - apply is_ref_set_key_clear.
    - intros k Hk. unfold old_key in Hk. rewrite is_const_set_key_clear in Hk. cbn in Hk.
      apply elem_of_list_singleton in Hk as ->. split; [done|]. by rewrite lookup_singleton.
    - intros b [s' Hb]. apply lookup_singleton_Some in Hb as [<- _]. unfold old_key. rewrite is_const_set_key_clear. cbn. by left.
    - intros b Hb. cbn in Hb. injection Hb as <-. split_and!.
      + exists c. split; [|apply has0_snoc]. apply lookup_union_Some_l. by rewrite lookup_singleton.
      + intros _. unfold old_key. rewrite is_const_set_key_clear. cbn. by left.
      + by rewrite is_const_set_key_clear.
    - cbn. by rewrite insert_union_singleton_l.
    - intros b s' Hb. by apply lookup_singleton_Some in Hb as [<- _].
    - intros b. cbn. rewrite elem_of_union, elem_of_singleton. split.
      + intros [->|Hb]; [right; by rewrite lookup_singleton|by left].
      + intros [Hb|[s' Hb]]; [by right|]. apply lookup_singleton_Some in Hb as [<- _]. by left.
    - intros b Hb. cbn. rewrite lookup_insert_ne; [done|]. intros <-. apply Hb. by rewrite lookup_singleton.
    - intros b [s' Hb]. apply lookup_singleton_Some in Hb as [<- _]. cbn. by rewrite lookup_insert.
    - cbn. lia.
    - intros b [s' Hb]. apply lookup_singleton_Some in Hb as [<- _]. cbn. lia.
  Qed.

  Lemma step_addobj_nomem :
    oracle (as_req (a_st S)) = true ->
    exists h', run_op2 oracle (OAddObj (Some p) (Some nb) (Some x) false) h =
                 Ret ((spec_step2 oracle S (OAddObj (Some p) (Some nb) (Some x) false)).2, h') /\
               Abs2 h' (spec_step2 oracle S (OAddObj (Some p) (Some nb) (Some x) false)).1.
  Proof.
    intros Ho. destruct addobj_readable as [Hrd Hsh]. pose proof Ho as Ho'. rewrite <- Hreq in Ho.
    destruct (add_item_to_object_sim_nomem oracle h F p x nb d cs W Hpx Hx s Hrd Hsh Ho) as (S1 & S2 & S3).
    cbn [run_op2 spec_step2]. rewrite decide_False by done. rewrite Ho'. cbn [fst snd].
    exists (bump h). rewrite (bindM_Ret _ _ _ _ _ S2). split; [done|].
    split_and!; [split_and!; [done|by apply NoLeak_bump|done|cbn; by rewrite Hreq]|done|done|done].
  Qed.

  Lemma step_addobj_const :
    nb ∈ a_foreign S ->
    exists h', run_op2 oracle (OAddObj (Some p) (Some nb) (Some x) true) h =
                 Ret ((spec_step2 oracle S (OAddObj (Some p) (Some nb) (Some x) true)).2, h') /\
               Abs2 h' (spec_step2 oracle S (OAddObj (Some p) (Some nb) (Some x) true)).1.
  Proof.
    intros Hfor.
    destruct (add_item_to_object_sim_const oracle h F p x nb d dp cs csp W Hpx Hx Hp Href) as (S1 & S2 & S3).
    cbn [run_op2 spec_step2]. rewrite decide_False by done. fold F. rewrite S1. cbn [fst snd].
    eexists. rewrite (bindM_Ret _ _ _ _ _ S2). split; [done|].
    unfold with_forest. rewrite <- Hnext, <- Hreq. fold F.
    rewrite <- (left_id_L ∅ (∪) (strs_gc _ _ _)).
    apply (addobj_post h (rd_const_key d nb)); try done.
    - destruct (datas_add_to_object F x d cs p dp csp (wf_nodup _ _ W) Hx Hp) as (DR & E1 & E2). eauto.
    - apply is_ref_set_key_const.
    - intros k Hk. unfold old_key in Hk. rewrite is_const_set_key_const in Hk. by apply elem_of_nil in Hk.
    - intros b [s' Hb]. by rewrite lookup_empty in Hb.
    - intros b Hb. cbn in Hb. injection Hb as <-. split_and!.
      + exists s. split; [|done]. by rewrite (left_id_L ∅ (∪)).
      + intros Hko. exfalso. destruct (SI2 _ Hfor) as [Hf _].
        assert (Hown : nb ∈ owned F).
        { apply elem_of_owned_fl. exists (x, d, tid <$> cs). split.
          - destruct (set_data_root F x d cs d (wf_nodup _ _ W) Hx) as (Hin & _ & _). by apply (elem_of_flat _ _ Hin).
          - right. rewrite owned_strs_split. apply elem_of_app. by right. }
        rewrite (wf_owned_lib _ _ W _ Hown) in Hf. done.
      + done.
    - by rewrite (left_id_L ∅ (∪)).
    - intros b. split; [by left|]. intros [Hb|[s' Hb]]; [done|by rewrite lookup_empty in Hb].
    - intros b [s' Hb]. by rewrite lookup_empty in Hb.
    - intros b [s' Hb]. by rewrite lookup_empty in Hb.
  Qed.
End AddObjStep.

Section HistoryObjMain.
  Variable oracle : nat -> bool.

  Theorem step_sim2 h S o :
    Abs2 h S -> pre_ok2 S o ->
    exists h', run_op2 oracle o h = Ret ((spec_step2 oracle S o).2, h') /\ Abs2 h' (spec_step2 oracle S o).1.
  Proof.
    intros HA2 Hpre. destruct o as [o|c|ob n i ck|ob n cs|ob n cs|ob n cs].
    - by apply step_sim2_arr.
    - by apply step_sim2_foreign.
    - cbn [pre_ok2] in Hpre.
      destruct Hpre as [Href|(p & x & -> & -> & (Hpx & tx & dp & csp & Hx & Hp & Hr) & (nb & s & -> & Hs & Hz) & Hck)].
      + exists h. split; [|].
        * cbn [run_op2 spec_step2].
          destruct (add_item_to_object_refused oracle (a_forest S) ob n i ck None h Href) as [_ Hrun].
          rewrite (bindM_Ret _ _ _ _ _ Hrun).
          destruct ob as [p|], n as [nb|], i as [x|]; try done.
          destruct Href as [?|[?|[?|Heq]]]; try done. injection Heq as ->. by rewrite decide_True.
        * cbn [spec_step2]. destruct ob as [p|], n as [nb|], i as [x|]; try done.
          destruct Href as [?|[?|[?|Heq]]]; try done. injection Heq as ->. by rewrite decide_True.
      + destruct tx as [x' d cs]. pose proof (find_root_Some _ _ _ Hx) as [_ Hid]. cbn in Hid. subst x'.
        destruct ck.
        * destruct (Hck eq_refl) as (nb' & [= <-] & Hfor).
          by apply (step_addobj_const oracle h S p x nb s d dp cs csp).
        * destruct (oracle (as_req (a_st S))) eqn:Ho.
          -- by eapply (step_addobj_nomem oracle h S p x nb s d cs).
          -- by apply (step_addobj_owned oracle h S p x nb s d dp cs csp).
    - by apply step_sim2_getkey.
    - by apply step_sim2_detachkey.
    - by apply step_sim2_deletekey.
  Qed.

  Fixpoint run_ops2 (ops : list op2) : M (list res) :=
    match ops with
    | [] => ret []
    | o :: r => x <~ run_op2 oracle o ;; xs <~ run_ops2 r ;; ret (x :: xs)
    end.
  Definition spec_run2 (S : astate2) (ops : list op2) : astate2 :=
    fold_left (fun S o => (spec_step2 oracle S o).1) ops S.
  Fixpoint spec_results2 (S : astate2) (ops : list op2) : list res :=
    match ops with [] => [] | o :: r => (spec_step2 oracle S o).2 :: spec_results2 (spec_step2 oracle S o).1 r end.
  Fixpoint pre_ok_all2 (S : astate2) (ops : list op2) : Prop :=
    match ops with [] => True | o :: r => pre_ok2 S o /\ pre_ok_all2 (spec_step2 oracle S o).1 r end.

  (** THE HISTORY THEOREM with objects, keys (owned and constant) and caller strings *)
  Theorem history_sim2 ops : forall h S,
    Abs2 h S -> pre_ok_all2 S ops ->
    exists h', run_ops2 ops h = Ret (spec_results2 S ops, h') /\ Abs2 h' (spec_run2 S ops).
  Proof.
    induction ops as [|o r IH]; intros h S HA Hpre.
    - exists h. by split.
    - destruct Hpre as [Hp Hr]. destruct (step_sim2 h S o HA Hp) as (h1 & Hrun & HA1).
      destruct (IH h1 _ HA1 Hr) as (h2 & Hrun2 & HA2). exists h2. split; [|exact HA2].
      cbn [run_ops2 spec_results2]. rewrite (bindM_Ret _ _ _ _ _ Hrun). by rewrite (bindM_Ret _ _ _ _ _ Hrun2).
  Qed.

  Definition S0 : astate2 := mkAS2 (mkAS [] 1%positive 0%nat) ∅ ∅.
  Lemma Abs2_empty : Abs2 empty_heap S0.
  Proof.
    split; [apply Abs_empty|]. split; [done|]. split; [split|].
    - intros b s Hb. cbn in Hb. by rewrite lookup_empty in Hb.
    - intros b Hb. cbn in Hb. by apply elem_of_empty in Hb.
    - intros e b He. cbn in He. by apply elem_of_nil in He.
  Qed.
  Corollary history2_from_empty ops :
    pre_ok_all2 S0 ops ->
    exists h', run_ops2 ops empty_heap = Ret (spec_results2 S0 ops, h') /\ Abs2 h' (spec_run2 S0 ops).
  Proof. apply history_sim2, Abs2_empty. Qed.
End HistoryObjMain.
