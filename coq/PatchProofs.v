(** PatchProofs.v — proofs about the JSON Patch model (PatchDefs.v), part 1:
    decode_pointer_inplace (memory safety on its buffer; equals RFC 6901 unescaping),
    sort_list (total, a permutation), totality of compare_json, apply_patch, apply_patches,
    create_patches with the fuel the entry points supply. *)
From Coq Require Import Lia ZArith List Bool Permutation.
From CJ Require Import Base Dbl Tree PointerDefs CompareDefs PatchDefs.
Import ListNotations.
Local Open Scope Z_scope.

Ltac zeq a b := destruct (Z.eqb_spec a b).

(** ---------- checked accesses ---------- *)
Lemma rd_ok b i c : nth_error b i = Some c -> rd b i = Ok c.
Proof. intro H. unfold rd. rewrite H. reflexivity. Qed.

Lemma wr_ok b i v : (i < length b)%nat -> wr b i v = Ok (upd b i v).
Proof. intro H. unfold wr. destruct (Nat.ltb_spec i (length b)); [reflexivity | lia]. Qed.

Lemma upd_length b i v : (i < length b)%nat -> length (upd b i v) = length b.
Proof.
  intro H. unfold upd. rewrite app_length, firstn_length. cbn [length]. rewrite skipn_length. lia.
Qed.

Lemma skipn_skipn' {A} (x y : nat) (l : list A) : skipn x (skipn y l) = skipn (x + y) l.
Proof.
  revert l; induction y as [|y IH]; intro l.
  - rewrite Nat.add_0_r. reflexivity.
  - destruct l as [|a l]; [rewrite !skipn_nil; reflexivity|].
    rewrite Nat.add_succ_r. cbn [skipn]. apply IH.
Qed.

Lemma skipn_upd b i v s : (i < length b)%nat -> (i < s)%nat -> skipn s (upd b i v) = skipn s b.
Proof.
  intros Hi Hs. unfold upd. rewrite skipn_app. rewrite firstn_length.
  replace (Nat.min i (length b)) with i by lia.
  rewrite (skipn_all2 (firstn i b)) by (rewrite firstn_length; lia).
  cbn [app]. destruct (s - i)%nat as [|k] eqn:E; [lia|].
  rewrite skipn_cons. rewrite skipn_skipn'. f_equal. lia.
Qed.

Lemma skipn_cons_inv {A} (l : list A) : forall s c rest,
  skipn s l = c :: rest -> nth_error l s = Some c /\ skipn (S s) l = rest /\ (s < length l)%nat.
Proof.
  induction l as [|x l IH]; intros s c rest H.
  - destruct s; discriminate.
  - destruct s as [|s].
    + cbn in H. inversion H; subst. cbn. repeat split. lia.
    + cbn [skipn] in H. destruct (IH _ _ _ H) as (H1 & H2 & H3). cbn [nth_error length]. repeat split; [assumption | assumption | lia].
Qed.

Lemma upd_at_app (w : bytes) x r v : upd (w ++ x :: r) (length w) v = w ++ v :: r.
Proof.
  unfold upd. rewrite firstn_app, firstn_all, Nat.sub_diag. cbn [firstn]. rewrite app_nil_r.
  f_equal. f_equal.
  replace (S (length w)) with (length (w ++ [x])) by (rewrite app_length; cbn; lia).
  replace (w ++ x :: r) with ((w ++ [x]) ++ r) by (rewrite <- app_assoc; reflexivity).
  rewrite skipn_app, skipn_all, Nat.sub_diag. reflexivity.
Qed.

Lemma nth_error_mid (w g : bytes) c rest : nth_error (w ++ g ++ c :: rest) (length w + length g) = Some c.
Proof.
  rewrite nth_error_app2 by lia. replace (length w + length g - length w)%nat with (length g) by lia.
  rewrite nth_error_app2 by lia. rewrite Nat.sub_diag. reflexivity.
Qed.
Lemma nth_error_mid1 (w g : bytes) c d rest : nth_error (w ++ g ++ c :: d :: rest) (S (length w + length g)) = Some d.
Proof.
  rewrite nth_error_app2 by lia. replace (S (length w + length g) - length w)%nat with (S (length g)) by lia.
  rewrite nth_error_app2 by lia. replace (S (length g) - length g)%nat with 1%nat by lia. reflexivity.
Qed.

(** ---------- decode_pointer_inplace: no access outside the buffer, terminates ---------- *)
Lemma dpi_safe : forall fuel buf s d,
  (d <= s)%nat -> In 0 (skipn s buf) -> (length buf - s < fuel)%nat ->
  exists b', dpi_loop fuel buf s d = Ok b' /\ length b' = length buf.
Proof.
  induction fuel as [|f IH]; intros buf s d Hds Hin Hf; [lia|].
  destruct (skipn s buf) as [|c rest] eqn:E; [contradiction|].
  destruct (skipn_cons_inv _ _ _ _ E) as (Hn & Hr & Hlt).
  cbn [dpi_loop]. rewrite (rd_ok _ _ _ Hn). cbn [bind].
  zeq c 0.
  - rewrite wr_ok by lia. eexists; split; [reflexivity|]. apply upd_length; lia.
  - destruct Hin as [Hc|Hin]; [congruence|].
    zeq c 126.
    + destruct rest as [|c1 rest1]; [contradiction|].
      destruct (skipn_cons_inv _ _ _ _ Hr) as (Hn1 & Hr1 & Hlt1).
      rewrite (rd_ok _ _ _ Hn1). cbn [bind].
      zeq c1 48.
      * rewrite wr_ok by lia. cbn [bind].
        destruct Hin as [Hc|Hin]; [subst; discriminate|].
        destruct (IH (upd buf d 126) (S (S s)) (S d)) as (b' & Hb & Hl).
        { lia. } { rewrite skipn_upd by lia. rewrite Hr1. exact Hin. }
        { rewrite upd_length by lia. lia. }
        exists b'. split; [exact Hb|]. rewrite Hl. apply upd_length; lia.
      * zeq c1 49.
        -- rewrite wr_ok by lia. cbn [bind].
           destruct Hin as [Hc|Hin]; [subst; discriminate|].
           destruct (IH (upd buf d 47) (S (S s)) (S d)) as (b' & Hb & Hl).
           { lia. } { rewrite skipn_upd by lia. rewrite Hr1. exact Hin. }
           { rewrite upd_length by lia. lia. }
           exists b'. split; [exact Hb|]. rewrite Hl. apply upd_length; lia.
        -- eexists; split; reflexivity.
    + rewrite wr_ok by lia. cbn [bind].
      destruct (IH (upd buf d c) (S s) (S d)) as (b' & Hb & Hl).
      { lia. } { rewrite skipn_upd by lia. rewrite Hr. exact Hin. }
      { rewrite upd_length by lia. lia. }
      exists b'. split; [exact Hb|]. rewrite Hl. apply upd_length; lia.
Qed.

(* every C string: the bytes of the token followed by its terminator *)
Lemma decode_pointer_inplace_safe (t : bytes) :
  exists b, decode_pointer_inplace (t ++ [0]) = Ok b /\ length b = length (t ++ [0]).
Proof.
  unfold decode_pointer_inplace. apply dpi_safe; [lia | | lia].
  cbn [skipn]. apply in_or_app. right. left. reflexivity.
Qed.

(** ---------- decode_pointer_inplace = RFC 6901 unescaping ---------- *)
Lemma dpi_correct : forall fuel (w g t u : bytes),
  unescape t = Some u -> Forall (fun c => c <> 0) t -> (length t < fuel)%nat ->
  exists tail, dpi_loop fuel (w ++ g ++ t ++ [0]) (length w + length g) (length w) = Ok (w ++ u ++ 0 :: tail).
Proof.
  induction fuel as [|f IH]; intros w g t u Hu Hnz Hf; [lia|].
  destruct t as [|c t'].
  - cbn [unescape] in Hu. inversion Hu; subst u. cbn [app].
    cbn [dpi_loop]. rewrite (rd_ok _ _ 0) by apply nth_error_mid. cbn [bind]. rewrite Z.eqb_refl.
    rewrite wr_ok by (rewrite !app_length; cbn [length]; lia).
    destruct g as [|x g'].
    + cbn [app]. rewrite upd_at_app. exists []. reflexivity.
    + cbn [app]. rewrite upd_at_app. exists (g' ++ [0]). reflexivity.
  - inversion Hnz as [|? ? Hc Hnz']; subst.
    cbn [dpi_loop]. cbn [app]. rewrite (rd_ok _ _ c) by apply nth_error_mid. cbn [bind].
    zeq c 0; [contradiction|].
    cbn [unescape] in Hu. zeq c 126.
    + subst c. destruct t' as [|d t'']; [discriminate|].
      inversion Hnz' as [|? ? Hd Hnz'']; subst.
      cbn [app]. rewrite (rd_ok _ _ d) by apply nth_error_mid1. cbn [bind].
      assert (Hlen : (length w < length (w ++ g ++ 126%Z :: d :: t'' ++ [0%Z]))%nat)
        by (rewrite !app_length; cbn [length]; lia).
      destruct (g ++ [126; d]) as [|x g2] eqn:EG; [destruct g; discriminate|].
      assert (Hg2 : length g2 = S (length g)).
      { apply (f_equal (@length Z)) in EG. rewrite app_length in EG. cbn [length] in EG. lia. }
      assert (Hbuf : w ++ g ++ 126 :: d :: t'' ++ [0] = w ++ x :: g2 ++ t'' ++ [0]).
      { change (126 :: d :: t'' ++ [0]) with ([126; d] ++ t'' ++ [0]). rewrite (app_assoc g). rewrite EG. reflexivity. }
      zeq d 48.
      * destruct (unescape t'') as [u'|] eqn:U; [|discriminate]. cbn [option_map] in Hu. inversion Hu; subst u.
        rewrite wr_ok by exact Hlen. cbn [bind]. rewrite Hbuf, upd_at_app.
        destruct (IH (w ++ [126]) g2 t'' u' U Hnz'') as (tail & Ht). { cbn [length] in Hf. lia. }
        rewrite app_length in Ht. cbn [length] in Ht.
        replace (S (S (length w + length g))) with (length w + 1 + length g2)%nat by lia.
        replace (S (length w)) with (length w + 1)%nat by lia.
        replace (w ++ 126 :: g2 ++ t'' ++ [0]) with ((w ++ [126]) ++ g2 ++ t'' ++ [0]) by (rewrite <- app_assoc; reflexivity).
        rewrite Ht. exists tail. rewrite <- app_assoc. reflexivity.
      * zeq d 49; [|discriminate].
        destruct (unescape t'') as [u'|] eqn:U; [|discriminate]. cbn [option_map] in Hu. inversion Hu; subst u.
        rewrite wr_ok by exact Hlen. cbn [bind]. rewrite Hbuf, upd_at_app.
        destruct (IH (w ++ [47]) g2 t'' u' U Hnz'') as (tail & Ht). { cbn [length] in Hf. lia. }
        rewrite app_length in Ht. cbn [length] in Ht.
        replace (S (S (length w + length g))) with (length w + 1 + length g2)%nat by lia.
        replace (S (length w)) with (length w + 1)%nat by lia.
        replace (w ++ 47 :: g2 ++ t'' ++ [0]) with ((w ++ [47]) ++ g2 ++ t'' ++ [0]) by (rewrite <- app_assoc; reflexivity).
        rewrite Ht. exists tail. rewrite <- app_assoc. reflexivity.
    + destruct (unescape t') as [u'|] eqn:U; [|discriminate]. cbn [option_map] in Hu. inversion Hu; subst u.
      assert (Hlen : (length w < length (w ++ g ++ c :: t' ++ [0%Z]))%nat)
        by (rewrite !app_length; cbn [length]; lia).
      rewrite wr_ok by exact Hlen. cbn [bind].
      destruct (g ++ [c]) as [|x g2] eqn:EG; [destruct g; discriminate|].
      assert (Hg2 : length g2 = length g).
      { apply (f_equal (@length Z)) in EG. rewrite app_length in EG. cbn [length] in EG. lia. }
      assert (Hbuf : w ++ g ++ c :: t' ++ [0] = w ++ x :: g2 ++ t' ++ [0]).
      { change (c :: t' ++ [0]) with ([c] ++ t' ++ [0]). rewrite (app_assoc g). rewrite EG. reflexivity. }
      rewrite Hbuf, upd_at_app.
      destruct (IH (w ++ [c]) g2 t' u' U Hnz') as (tail & Ht). { cbn [length] in Hf. lia. }
      rewrite app_length in Ht. cbn [length] in Ht.
      replace (S (length w + length g)) with (length w + 1 + length g2)%nat by lia.
      replace (S (length w)) with (length w + 1)%nat by lia.
      replace (w ++ c :: g2 ++ t' ++ [0]) with ((w ++ [c]) ++ g2 ++ t' ++ [0]) by (rewrite <- app_assoc; reflexivity).
      rewrite Ht. exists tail. rewrite <- app_assoc. reflexivity.
Qed.

Lemma unescape_nz t : forall u, unescape t = Some u -> Forall (fun c => c <> 0) t -> Forall (fun c => c <> 0) u.
Proof.
  induction t as [t IH] using (well_founded_induction (Wf_nat.well_founded_ltof _ (@length Z))).
  intros u Hu Hnz. destruct t as [|c t']; cbn [unescape] in Hu.
  - inversion Hu. constructor.
  - inversion Hnz as [|? ? Hc Hnz']; subst. zeq c 126.
    + destruct t' as [|d t'']; [discriminate|]. inversion Hnz' as [|? ? Hd Hnz'']; subst.
      zeq d 48.
      * destruct (unescape t'') as [u'|] eqn:U; [|discriminate]. inversion Hu; subst.
        constructor; [discriminate|]. apply (IH t''); [unfold ltof; cbn; lia | exact U | assumption].
      * zeq d 49; [|discriminate].
        destruct (unescape t'') as [u'|] eqn:U; [|discriminate]. inversion Hu; subst.
        constructor; [discriminate|]. apply (IH t''); [unfold ltof; cbn; lia | exact U | assumption].
    + destruct (unescape t') as [u'|] eqn:U; [|discriminate]. inversion Hu; subst.
      constructor; [assumption|]. apply (IH t'); [unfold ltof; cbn; lia | exact U | assumption].
Qed.

Lemma cstr_app_zero (u : bytes) tail : Forall (fun c => c <> 0) u -> cstr (u ++ 0 :: tail) = u.
Proof.
  induction u as [|c u IH]; intro H; cbn [app cstr].
  - reflexivity.
  - inversion H; subst. zeq c 0; [contradiction|]. f_equal. apply IH. assumption.
Qed.

(* the statement of C16 (b): on the buffer holding a token that is valid RFC 6901 text, the C string left
   in the buffer is the unescaped token; the buffer keeps its size *)
Lemma decode_pointer_inplace_unescape (t u : bytes) :
  Forall (fun c => c <> 0) t -> unescape t = Some u ->
  exists b, decode_pointer_inplace (t ++ [0]) = Ok b /\ cstr b = u /\ length b = length (t ++ [0]).
Proof.
  intros Hnz Hu.
  destruct (decode_pointer_inplace_safe t) as (b & Hb & Hl).
  exists b. split; [exact Hb|]. split; [|exact Hl].
  unfold decode_pointer_inplace in Hb.
  destruct (dpi_correct (S (length (t ++ [0]))) [] [] t u Hu Hnz) as (tail & Ht).
  { rewrite app_length. cbn. lia. }
  cbn [app length Nat.add] in Ht. rewrite Ht in Hb. inversion Hb; subst b.
  apply cstr_app_zero. eapply unescape_nz; eassumption.
Qed.

(** ---------- termination bookkeeping ---------- *)
Definition terminates {A} (r : res A) : Prop := r <> OutOfFuel.
Lemma term_ok {A} (a : A) : terminates (Ok a).
Proof. discriminate. Qed.
Lemma term_oob {A} : terminates (@OOB A).
Proof. discriminate. Qed.
Lemma bind_term {A B} (m : res A) (f : A -> res B) :
  terminates m -> (forall a, m = Ok a -> terminates (f a)) -> terminates (bind m f).
Proof.
  intros Hm Hf. destruct m as [a| |]; cbn [bind].
  - apply Hf. reflexivity.
  - discriminate.
  - exfalso. apply Hm. reflexivity.
Qed.

(** ---------- sort_list: total with the fuel sort_object supplies; a permutation ---------- *)
Lemma merge_nil_l cs b : merge cs [] b = b.
Proof. destruct b; reflexivity. Qed.
Lemma merge_nil_r cs a : merge cs a [] = a.
Proof. destruct a; reflexivity. Qed.
Lemma merge_cons cs x a y b :
  merge cs (x :: a) (y :: b) =
  if compare_strings (n_key x) (n_key y) cs <=? 0 then x :: merge cs a (y :: b) else y :: merge cs (x :: a) b.
Proof. reflexivity. Qed.

Lemma merge_perm cs : forall a b, Permutation (a ++ b) (merge cs a b).
Proof.
  induction a as [|x a IHa]; intro b.
  - rewrite merge_nil_l. apply Permutation_refl.
  - induction b as [|y b IHb].
    + rewrite merge_nil_r, app_nil_r. apply Permutation_refl.
    + rewrite merge_cons. destruct (compare_strings (n_key x) (n_key y) cs <=? 0).
      * cbn [app]. apply perm_skip. apply IHa.
      * eapply Permutation_trans; [apply Permutation_sym, Permutation_middle|].
        apply perm_skip. apply IHb.
Qed.

Lemma sort_list_ok : forall fuel l cs, (length l < fuel)%nat ->
  exists r, sort_list fuel l cs = Ok r /\ Permutation l r.
Proof.
  induction fuel as [|f IH]; intros l cs Hf; [lia|].
  destruct l as [|x [|y l']].
  - exists []. split; [reflexivity | apply Permutation_refl].
  - exists [x]. split; [reflexivity | apply Permutation_refl].
  - remember (x :: y :: l') as l eqn:El.
    assert (Hs : sort_list (S f) l cs =
                 if strictly_sorted l cs then Ok l
                 else a <- sort_list f (firstn (Nat.div2 (S (length l))) l) cs ;;
                      b <- sort_list f (skipn (Nat.div2 (S (length l))) l) cs ;; Ok (merge cs a b)).
    { subst l. reflexivity. }
    rewrite Hs. destruct (strictly_sorted l cs).
    + exists l. split; [reflexivity | apply Permutation_refl].
    + set (k := Nat.div2 (S (length l))).
      assert (Hk : (1 <= k < length l)%nat).
      { unfold k. subst l. cbn [length].
        change (Nat.div2 (S (S (S (length l'))))) with (S (Nat.div2 (S (length l')))).
        pose proof (Nat.lt_div2 (S (length l'))) as H. lia. }
      destruct (IH (firstn k l) cs) as (a & Ha & Pa). { rewrite firstn_length. lia. }
      destruct (IH (skipn k l) cs) as (b & Hb & Pb). { rewrite skipn_length. lia. }
      rewrite Ha. cbn [bind]. rewrite Hb. cbn [bind].
      exists (merge cs a b). split; [reflexivity|].
      eapply Permutation_trans; [|apply merge_perm].
      rewrite <- (firstn_skipn k l) at 1. apply Permutation_app; assumption.
Qed.

Lemma sort_object_ok n cs :
  exists r, sort_object n cs = Ok (set_children n r) /\ Permutation (n_children n) r.
Proof.
  unfold sort_object. destruct (sort_list_ok (S (length (n_children n))) (n_children n) cs) as (r & Hr & P); [lia|].
  rewrite Hr. exists r. split; [reflexivity | exact P].
Qed.

(** ---------- depth of children ---------- *)
Fixpoint depth_list (l : list node) : nat :=
  match l with [] => O | c :: r => Nat.max (node_depth c) (depth_list r) end.
Lemma node_depth_eq t s i d k cs : node_depth (Node t s i d k cs) = S (depth_list cs).
Proof.
  reflexivity.
Qed.
Lemma depth_list_in x cs : In x cs -> (node_depth x <= depth_list cs)%nat.
Proof.
  induction cs as [|c r IH]; intro H; [contradiction|]. cbn [depth_list].
  destruct H as [->|H]; [lia|]. specialize (IH H). lia.
Qed.
Lemma depth_child n x : In x (n_children n) -> (node_depth x < node_depth n)%nat.
Proof.
  destruct n as [t s i d k cs]. cbn [n_children]. intro H. rewrite node_depth_eq.
  pose proof (depth_list_in _ _ H). lia.
Qed.
Lemma n_children_set n cs : n_children (set_children n cs) = cs.
Proof. destruct n; reflexivity. Qed.

(** ---------- compare_json terminates with fuel = depth of its first operand ---------- *)
Lemma cmp_arr_term rec : forall la lb,
  (forall x y, In x la -> terminates (rec x y)) -> terminates (cmp_arr rec la lb).
Proof.
  induction la as [|x la IH]; intros lb H; destruct lb as [|y lb]; cbn [cmp_arr]; try apply term_ok.
  apply bind_term; [apply H; left; reflexivity|].
  intros [[r x'] y'] _. destruct r; [|apply term_ok].
  apply bind_term; [apply IH; intros; apply H; right; assumption|].
  intros [[r2 la2] lb2] _. apply term_ok.
Qed.

Lemma cmp_obj_term rec cs : forall la lb,
  (forall x y, In x la -> terminates (rec x y)) -> terminates (cmp_obj rec cs la lb).
Proof.
  induction la as [|x la IH]; intros lb H; destruct lb as [|y lb]; cbn [cmp_obj]; try apply term_ok.
  destruct (negb (compare_strings (n_key x) (n_key y) cs =? 0)); [apply term_ok|].
  apply bind_term; [apply H; left; reflexivity|].
  intros [[r x'] y'] _. destruct r; [|apply term_ok].
  apply bind_term; [apply IH; intros; apply H; right; assumption|].
  intros [[r2 la2] lb2] _. apply term_ok.
Qed.

Lemma compare_json_total : forall fuel a b cs, (node_depth a <= fuel)%nat -> terminates (compare_json fuel a b cs).
Proof.
  induction fuel as [|f IH]; intros a b cs Hd.
  - destruct a. rewrite node_depth_eq in Hd. lia.
  - cbn [compare_json].
    destruct (negb (tymask (n_ty a) =? tymask (n_ty b))); [apply term_ok|].
    destruct (tymask (n_ty a) =? c_cJSON_Number); [apply term_ok|].
    destruct (tymask (n_ty a) =? c_cJSON_String).
    { destruct (n_vstr a); [destruct (n_vstr b)|]; first [apply term_ok | apply term_oob]. }
    destruct (tymask (n_ty a) =? c_cJSON_Array).
    { apply bind_term.
      - apply cmp_arr_term. intros x y Hx. apply IH. pose proof (depth_child a x Hx). lia.
      - intros [[r ca] cb] _. apply term_ok. }
    destruct (tymask (n_ty a) =? c_cJSON_Object); [|apply term_ok].
    destruct (sort_object_ok a cs) as (ra & Ha & Pa). destruct (sort_object_ok b cs) as (rb & Hb & Pb).
    rewrite Ha. cbn [bind]. rewrite Hb. cbn [bind]. rewrite !n_children_set.
    apply bind_term.
    + apply cmp_obj_term. intros x y Hx. apply IH.
      assert (In x (n_children a)) by (eapply Permutation_in; [apply Permutation_sym; exact Pa | exact Hx]).
      pose proof (depth_child a x H). lia.
    + intros [[r ca] cb] _. apply term_ok.
Qed.

(** ---------- apply_patch, apply_patches terminate: for EVERY document and EVERY patch value ---------- *)
Lemma decode_term (t : bytes) (B : Type) (f : bytes -> res B) :
  (forall b, terminates (f b)) -> terminates (bind (decode_pointer_inplace (t ++ [0])) f).
Proof.
  intro H. destruct (decode_pointer_inplace_safe t) as (b & Hb & _). rewrite Hb. cbn [bind]. apply H.
Qed.

Ltac term_leaf := first [apply term_ok | apply term_oob].

Lemma detach_path_term object path cs : terminates (detach_path object path cs).
Proof.
  unfold detach_path.
  destruct (last_slash path 0 None) as [i|]; [|term_leaf].
  destruct (get_item_from_pointer object (firstn i path) cs) as [pp|]; [|term_leaf].
  destruct (subtree object pp) as [par|]; [|term_leaf].
  destruct (is_array par).
  { destruct (decode_array_index_from_pointer (skipn (S i) path)) as [idx|]; [|term_leaf].
    destruct (nth_z (n_children par) idx); term_leaf. }
  destruct (is_object par); [|term_leaf].
  apply decode_term. intro b.
  destruct (get_object_item par (Some (cstr b)) cs) as [[j it]|]; term_leaf.
Qed.

Lemma finish_add_term object value pstr cs : terminates (finish_add object value pstr cs).
Proof.
  unfold finish_add. destruct pstr as [|c0 p0]; [term_leaf|].
  destruct (last_slash (c0 :: p0) 0 None) as [i|]; [|term_leaf].
  destruct (get_item_from_pointer object (firstn i (c0 :: p0)) cs) as [pp|]; [|term_leaf].
  destruct (subtree object pp) as [par|]; [|term_leaf].
  destruct (is_array par).
  { destruct (strcmp (skipn (S i) (c0 :: p0)) s_dash =? 0); [term_leaf|].
    destruct (decode_array_index_from_pointer (skipn (S i) (c0 :: p0))) as [idx|]; [|term_leaf].
    destruct (idx >? Z.of_nat (length (n_children par))); term_leaf. }
  destruct (is_object par); [|term_leaf].
  apply decode_term. intro b. term_leaf.
Qed.

Lemma decode_patch_operation_term patch cs : terminates (decode_patch_operation patch cs).
Proof.
  unfold decode_patch_operation.
  destruct (get_object_item patch (Some s_op) cs) as [[j operation]|]; [|term_leaf].
  destruct (negb (is_string operation)); [term_leaf|].
  destruct (n_vstr operation) as [s|]; [|term_leaf].
  repeat match goal with |- terminates (if ?c then _ else _) => destruct c; [term_leaf|] end. term_leaf.
Qed.

Ltac term_step :=
  match goal with
  | |- terminates (Ok _) => apply term_ok
  | |- terminates OOB => apply term_oob
  | |- terminates (bind (detach_path _ _ _) _) => apply bind_term; [apply detach_path_term | intros ? _]
  | |- terminates (bind (finish_add _ _ _ _) _) => apply bind_term; [apply finish_add_term | intros ? _]
  | |- terminates (bind (compare_json (node_depth ?a) ?a _ _) _) => apply bind_term; [apply compare_json_total; lia | intros ? _]
  | |- terminates (bind (bind _ _) _) => apply bind_term; [ | intros ? _]
  | |- terminates (let (_, _) := ?x in _) => destruct x
  | |- terminates (bind (Ok _) _) => cbn [bind]
  | |- terminates (bind (if ?c then _ else _) _) => destruct c
  | |- terminates (match ?x with _ => _ end) => destruct x
  | |- terminates (if ?c then _ else _) => destruct c
  end.

Lemma apply_patch_term object patch cs : terminates (apply_patch object patch cs).
Proof.
  unfold apply_patch.
  destruct (get_object_item patch (Some s_path) cs) as [[j pathn]|]; [|term_leaf].
  destruct (negb (is_string pathn)); [term_leaf|].
  apply bind_term; [apply decode_patch_operation_term|]. intros opc _.
  destruct opc; try term_leaf.
  all: cbn [andb orb]; repeat term_step.
Qed.

Lemma apply_loop_term : forall ps object cs, terminates (apply_loop object ps cs).
Proof.
  induction ps as [|p r IH]; intros object cs; cbn [apply_loop]; [term_leaf|].
  apply bind_term; [apply apply_patch_term|]. intros [[st o] p'] _.
  destruct (negb (st =? 0)); [term_leaf|].
  apply bind_term; [apply IH|]. intros [[st2 o2] r'] _. term_leaf.
Qed.

Theorem apply_patches_total object patches cs : apply_patches object patches cs <> OutOfFuel.
Proof.
  unfold apply_patches. destruct (negb (is_array patches)); [discriminate|].
  apply (bind_term (apply_loop object (n_children patches) cs)); [apply apply_loop_term|].
  intros [[st o] ps] _. term_leaf.
Qed.
