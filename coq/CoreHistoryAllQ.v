(** CoreHistoryAllQ.v — what the by-key lookups of the list model ([CoreSpec.find_key_cs],
    [CoreSpec.find_key_ci]) ARE, in words of the children list (C06_queries): the case-sensitive
    lookup returns the FIRST child whose key is exactly the name, provided every earlier child
    has a key (the C loop stops at a child without key); the case-insensitive lookup returns the
    FIRST child whose key equals the name after ASCII case folding (children without key are
    skipped). *)
From CJ Require Import Base Dbl Heap Forest CoreSpec.
From stdpp Require Import gmap.

Lemma find_key_cs_first strs name cs x :
  find_key_cs strs name cs = Some x <->
  exists (k : nat) c, cs !! k = Some c /\ tid c = x /\ key_string strs c = Some name /\
    forall (j : nat) c', j < k -> cs !! j = Some c' -> exists kj, key_string strs c' = Some kj /\ kj <> name.
Proof.
  revert x. induction cs as [|c r IH]; intros x; cbn [find_key_cs].
  { split; [done|]. by intros (k & c & H & _). }
  destruct (key_string strs c) as [kc|] eqn:Ek.
  - destruct (bool_decide_reflect (name = kc)) as [->|Hne].
    + split.
      * intros [= <-]. exists 0, c. split_and!; try done. intros j c' Hj. lia.
      * intros (k & c0 & Hk & Hx & Hkey & Hbefore). destruct k as [|k]; [cbn in Hk; by injection Hk as ->; subst|].
        destruct (Hbefore 0 c ltac:(lia) eq_refl) as (kj & Hkj & Hne). congruence.
    + rewrite IH. split.
      * intros (k & c0 & Hk & Hx & Hkey & Hbefore). exists (S k), c0. split_and!; try done.
        intros [|j] c' Hj Hc'; cbn in Hc'; [injection Hc' as <-; exists kc; split; [done|congruence]|].
        apply (Hbefore j c'); [lia|done].
      * intros (k & c0 & Hk & Hx & Hkey & Hbefore). destruct k as [|k]; [cbn in Hk; injection Hk as ->; congruence|].
        exists k, c0. split_and!; try done. intros j c' Hj Hc'. apply (Hbefore (S j) c'); [lia|done].
  - split; [done|]. intros (k & c0 & Hk & Hx & Hkey & Hbefore). destruct k as [|k]; [cbn in Hk; injection Hk as ->; congruence|].
    destruct (Hbefore 0 c ltac:(lia) eq_refl) as (kj & Hkj & _). congruence.
Qed.

Definition folded_match strs (name : bytes) (c : tree) : Prop :=
  exists kc, key_string strs c = Some kc /\ tolower <$> name = tolower <$> kc.

Lemma find_key_ci_first strs name cs x :
  find_key_ci strs name cs = Some x <->
  exists (k : nat) c, cs !! k = Some c /\ tid c = x /\ folded_match strs name c /\
    forall (j : nat) c', j < k -> cs !! j = Some c' -> ~ folded_match strs name c'.
Proof.
  revert x. induction cs as [|c r IH]; intros x; cbn [find_key_ci].
  { split; [done|]. by intros (k & c & H & _). }
  assert (Hstep : ~ folded_match strs name c ->
    (find_key_ci strs name r = Some x <->
     exists (k : nat) c0, (c :: r) !! k = Some c0 /\ tid c0 = x /\ folded_match strs name c0 /\
       forall (j : nat) c', j < k -> (c :: r) !! j = Some c' -> ~ folded_match strs name c')).
  { intros Hno. rewrite IH. split.
    - intros (k & c0 & Hk & Hx & Hm & Hbefore). exists (S k), c0. split_and!; try done.
      intros [|j] c' Hj Hc'; cbn in Hc'; [by injection Hc' as <-|]. apply (Hbefore j c'); [lia|done].
    - intros (k & c0 & Hk & Hx & Hm & Hbefore). destruct k as [|k]; [cbn in Hk; by injection Hk as ->|].
      exists k, c0. split_and!; try done. intros j c' Hj Hc'. apply (Hbefore (S j) c'); [lia|done]. }
  destruct (key_string strs c) as [kc|] eqn:Ek.
  - destruct (bool_decide_reflect (tolower <$> name = tolower <$> kc)) as [Heq|Hne].
    + split.
      * intros [= <-]. exists 0, c. split_and!; try done; [by exists kc|]. intros j c' Hj. lia.
      * intros (k & c0 & Hk & Hx & Hm & Hbefore). destruct k as [|k]; [cbn in Hk; by injection Hk as ->; subst|].
        exfalso. apply (Hbefore 0 c ltac:(lia) eq_refl). by exists kc.
    + apply Hstep. intros (kc' & Hk' & Hm). congruence.
  - apply Hstep. intros (kc' & Hk' & Hm). congruence.
Qed.
