#!/bin/sh
# try_harmless.sh <patch.diff> [property-id ...] — FALSE-ALARM trial: applies a behaviour-preserving change to a scratch copy of
# /repo's sources and runs the FULL quick checks of the given (default: all) properties against it, with scratch copies of the
# Coq development and drivers.  Prints every VIOLATION line (there should be none) and the exit status of every check.
patch=$1; shift
pids=${*:-C01 C02 C03 C04 C05 C06 C07 C08 C09 C10 C11 C12 C13 C14 C15 C16 C17 C18 C19 C20}
s=$(mktemp -d /tmp/cjharmless_XXXXXX)
mkdir $s/src && cp /repo/cJSON.c /repo/cJSON.h /repo/cJSON_Utils.c /repo/cJSON_Utils.h $s/src/
(cd $s/src && git apply --include='cJSON*' $patch 2>/dev/null) || {
  # written against an older revision of /repo (before a later fix: commit): try that revision
  base=${HARMLESS_BASE:-13459ab}; echo "patch does not apply to HEAD, using base $base"
  for f in cJSON.c cJSON.h cJSON_Utils.c cJSON_Utils.h; do git -C /repo show $base:$f > $s/src/$f; done
  (cd $s/src && git apply --include='cJSON*' $patch) || { echo "patch does not apply"; rm -rf $s; exit 2; } }
cp -a /verif/coq $s/coq; cp -a /verif/ocaml $s/ocaml; mkdir -p $s/replays
run() { cd /verif && VERIF_REPO=$s/src VERIF_COQ_DIR=$s/coq VERIF_OCAML_DIR=$s/ocaml VERIF_EVIDENCE_DIR=$s/evidence VERIF_REPLAY_DIR=$s/replays python3 tools/check.py $1 --tier quick > $s/$1.log 2>&1; echo "$1 exit=$?" >> $s/$1.log; }
first=$(echo $pids | cut -d' ' -f1); run $first      # builds the scratch development once
for p in $pids; do [ $p = $first ] || { run $p & }; n=$(jobs -p | wc -l); [ $n -ge 5 ] && wait; done; wait
for p in $pids; do grep -h "VIOLATION\|exit=" $s/$p.log | sed "s#^#$p: #"; done
mkdir -p /tmp/harmless_logs/$(basename $(dirname $patch)); cp $s/*.log /tmp/harmless_logs/$(basename $(dirname $patch))/ 2>/dev/null
cp -r $s/replays /tmp/harmless_logs/$(basename $(dirname $patch))/ 2>/dev/null
rm -rf $s
