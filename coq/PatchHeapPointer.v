(** PatchHeapPointer.v — stage 1: the heap-level [get_item_from_pointer] (PatchHeapDefs.v) refines the
    value-level [PointerDefs.get_item_from_pointer] on the reified tree.

    [CsReads h c nm]: the string argument [c] designates, in heap [h], the readable C string [nm]
    (a live block with a terminator at or behind the offset, or a literal).  Under the invariant [MInv h F]
    (MergeHeapInv.v), for a node [t] of the forest and a pointer text [nm]:

        get_item_from_pointer (Some (tid t)) c flag h
          = Ret (tid <$> (PointerDefs.get_item_from_pointer (reify (h_str h) t) nm flag ≫= subtree_t t), h)

    — no error outcome, the heap is untouched, and the node returned is the one the value-level path leads to
    (NULL exactly when the value-level function returns None). *)
From CJ Require Import Base Dbl Heap Forest ForestLemmas CoreSpec CoreDefs CoreRefineBase CoreRefine CoreRefineMore
  CoreRefineObject CoreRefineDupValue CoreLedgerGen.
From CJ Require Import TierBridgeDefs TierBridgeForest TierBridgeLemmas TierBridgeUtilsDefs MergeHeapDefs MergeHeapInv
  PatchHeapDefs PatchHeapPath.
From CJ Require Tree PointerDefs PatchDefs SortSpec.
From CJ.gen Require Import Constants.
From stdpp Require Import gmap.
From Coq Require Import Lia.
Local Open Scope Z_scope.

Ltac stp H := rewrite ?bindM_assoc; rewrite (bindM_Ret _ _ _ _ _ H).

(** * reading string arguments *)
Definition CsReads (h : heap) (c : cstring) (nm : bytes) : Prop :=
  match c with
  | CNull => False
  | CAt b off => b ∈ h_live h /\ exists s : bytes, h_str h !! b = Some s /\ existsb (Z.eqb 0) (drop off s) = true /\ nm = cstr (drop off s)
  | CLit l => nm = l /\ SortSpec.zfree l
  end.

Lemma run_ld_str h (b : positive) (s : bytes) : b ∈ h_live h -> h_str h !! b = Some s -> ld_str (Some b) h = Ret (s, h).
Proof. intros H1 H2. unfold ld_str, chk, bindM. rewrite decide_True by done. unfold bytes in *. by rewrite H2. Qed.

Lemma CsReads_zfree h c nm : CsReads h c nm -> SortSpec.zfree nm.
Proof.
  destruct c as [|b off|l]; cbn; [done| |].
  - intros (_ & s & _ & _ & ->). apply SortSpec.cstr_zfree.
  - by intros [-> H].
Qed.
Lemma CsReads_not_null h c nm : CsReads h c nm -> cs_is_null c = false.
Proof. by destruct c. Qed.

Lemma run_ld_cs h c nm : CsReads h c nm -> ld_cs c h = Ret (nm, h).
Proof.
  destruct c as [|b off|l]; cbn [CsReads]; [done| |].
  - intros (Hl & s & Hs & Hz & ->). unfold ld_cs. stp (run_ld_str h b s Hl Hs). by rewrite Hz.
  - by intros [-> _].
Qed.

Lemma existsb_zero_cons (l : bytes) : existsb (Z.eqb 0) l = true -> exists x r, l = x :: r.
Proof. destruct l as [|x r]; [done|]. by exists x, r. Qed.

Lemma drop_lookup_head {A} (l : list A) (k : nat) x r : drop k l = x :: r -> l !! k = Some x /\ drop (k + 1) l = r.
Proof.
  intros E. split.
  - pose proof (lookup_drop l k 0) as H. rewrite E, Nat.add_0_r in H. by rewrite <- H.
  - rewrite <- drop_drop, E. done.
Qed.

Lemma run_ld_byte0 h c nm : CsReads h c nm -> ld_byte c 0 h = Ret (hd 0 nm, h).
Proof.
  destruct c as [|b off|l]; cbn [CsReads]; [done| |].
  - intros (Hl & s & Hs & Hz & ->). unfold ld_byte. stp (run_ld_str h b s Hl Hs).
    destruct (existsb_zero_cons _ Hz) as (x & r & E). destruct (drop_lookup_head _ _ _ _ E) as [Hx _].
    unfold bytes in *. rewrite Nat.add_0_r, Hx, E. cbn [cstr]. destruct (Z.eqb_spec x 0) as [->|]; done.
  - intros [-> _]. unfold ld_byte. by destruct l.
Qed.

Lemma CsReads_tail h c x nm : CsReads h c (x :: nm) -> CsReads h (cs_plus c 1) nm.
Proof.
  destruct c as [|b off|l]; cbn [CsReads cs_plus]; [done| |].
  - intros (Hl & s & Hs & Hz & E). split; [done|]. exists s. split; [done|].
    destruct (existsb_zero_cons _ Hz) as (y & r & Ed). destruct (drop_lookup_head _ _ _ _ Ed) as [_ Hd].
    rewrite Hd. rewrite Ed in E, Hz. cbn [cstr existsb] in E, Hz.
    destruct (Z.eqb_spec y 0) as [->|Hy]; [done|]. injection E as _ ->.
    split; [|done]. destruct (Z.eqb_spec 0 y) as [<-|]; [done|]. exact Hz.
  - intros [<- Hz]. cbn. split; [done|]. by apply Forall_inv_tail in Hz.
Qed.

Lemma cstr_length_le (b : bytes) : (length (cstr b) <= length b)%nat.
Proof. induction b as [|c r IH]; [done|]. cbn. destruct (c =? 0); cbn; lia. Qed.

Lemma run_cs_fuel h c nm : CsReads h c nm -> exists n, cs_fuel c h = Ret (n, h) /\ (length nm < n)%nat.
Proof.
  destruct c as [|b off|l]; cbn [CsReads]; [done| |].
  - intros (Hl & s & Hs & Hz & ->). exists (S (length s)). unfold cs_fuel. stp (run_ld_str h b s Hl Hs). split; [done|].
    pose proof (cstr_length_le (drop off s)). rewrite drop_length in H. lia.
  - intros [-> _]. exists (S (S (length l))). split; [done|lia].
Qed.

(** the pointer block of a string node: [valuestring] read as a pointer at offset 0 *)
Lemma CsReads_block h (b : positive) (s : bytes) :
  b ∈ h_live h -> h_str h !! b = Some s -> existsb (Z.eqb 0) s = true -> CsReads h (CAt b 0) (cstr s).
Proof. intros H1 H2 H3. split; [done|]. exists s. by rewrite drop_0. Qed.

(** * the skip loop *)
Lemma skip_token_loop_sim h : forall fuel c nm, CsReads h c nm -> (length nm < fuel)%nat ->
  exists c', skip_token_loop fuel c h = Ret (c', h) /\ CsReads h c' (PointerDefs.skip_token nm).
Proof.
  induction fuel as [|fuel IH]; intros c nm Hc Hf; [lia|]. cbn [skip_token_loop].
  stp (run_ld_byte0 h c nm Hc). destruct nm as [|x r]; cbn [hd PointerDefs.skip_token].
  - exists c. done.
  - pose proof (CsReads_zfree _ _ _ Hc) as Hz. apply Forall_inv in Hz.
    destruct (Z.eqb_spec x 0) as [|_]; [done|]. cbn [negb andb].
    destruct (Z.eqb_spec x 47) as [->|Hne]; cbn [negb].
    + exists c. done.
    + apply IH; [by eapply CsReads_tail|cbn in Hf; lia].
Qed.

Lemma skip_token_length nm : (length (PointerDefs.skip_token nm) <= length nm)%nat.
Proof. induction nm as [|x r IH]; [done|]. cbn. destruct (x =? 47); cbn; lia. Qed.

(** * array index *)
Lemma index_loop_nonneg p : forall acc pos v pos' rest,
  PointerDefs.index_loop p acc pos = Some (v, pos', rest) -> 0 <= acc -> 0 <= v.
Proof.
  induction p as [|c r IH]; intros acc pos v pos' rest; cbn [PointerDefs.index_loop].
  - intros [= <- _ _]. done.
  - destruct ((48 <=? c) && (c <=? 57)) eqn:E.
    + destruct (acc >? (PointerDefs.SIZE_MAX - (c - 48)) / 10); [done|]. intros H Ha. eapply IH; [exact H|].
      apply andb_true_iff in E as [E1 _]. apply Z.leb_le in E1. lia.
    + intros [= <- _ _]. done.
Qed.
Lemma decode_index_nonneg p idx : PointerDefs.decode_array_index_from_pointer p = Some idx -> 0 <= idx.
Proof.
  unfold PointerDefs.decode_array_index_from_pointer. destruct (_ && _ && _); [done|].
  destruct (PointerDefs.index_loop p 0 0) as [[[v pos] rest]|] eqn:E; [|done].
  destruct (_ || _); [done|]. intros [= <-]. by eapply index_loop_nonneg.
Qed.

(** * member lookup by pointer token *)
Fixpoint fc_pos (St : gmap positive bytes) (cs : list tree) (nm : bytes) (flag : bool) : option nat :=
  match cs with
  | [] => None
  | c :: r =>
      if (match key_string St c with Some k => PointerDefs.compare_pointers k nm flag | None => false end)
      then Some O else S <$> fc_pos St r nm flag
  end.

Lemma fc_pos_find_child St cs nm flag : forall i : nat,
  PointerDefs.find_child (map (reify St) cs) nm flag i =
  fc_pos St cs nm flag ≫= fun j => (fun c => ((i + j)%nat, reify St c)) <$> cs !! j.
Proof.
  induction cs as [|c r IH]; intros i; [done|]. cbn [map PointerDefs.find_child fc_pos]. rewrite reify_key.
  destruct (match key_string St c with Some k => PointerDefs.compare_pointers k nm flag | None => false end).
  - cbn. by rewrite Nat.add_0_r.
  - rewrite IH. destruct (fc_pos St r nm flag) as [j|]; [|done]. cbn. destruct (r !! j); [|done]. cbn. do 2 f_equal. lia.
Qed.

Lemma fc_pos_lookup St cs nm flag j : fc_pos St cs nm flag = Some j -> is_Some (cs !! j).
Proof.
  revert j. induction cs as [|c r IH]; intros j; [done|]. cbn [fc_pos].
  destruct (match key_string St c with Some k => PointerDefs.compare_pointers k nm flag | None => false end).
  - intros [= <-]. by eexists.
  - destruct (fc_pos St r nm flag) as [j'|]; [|done]. intros [= <-]. by apply IH.
Qed.

Section Walk.
  Context (h : heap) (F : forest).
  Hypothesis I : MInv h F.
  Let W : WF h F := mi_wf _ _ I.
  Let KR : KeysReadable h F := MInv_KeysReadable _ _ I.
  Notation St := (h_str h).

  Lemma node_find t : t ∈ nodes F -> find_tree (tid t) F = Some t.
  Proof. intros Ht. by apply find_tree_unique; [apply W|..]. Qed.

  Lemma node_not_ref p d cs : T p d cs ∈ nodes F -> is_ref d = false.
  Proof. intros Ht. exact (proj1 (proj1 (MInv_node_data _ _ I _ Ht))). Qed.

  Lemma run_is_type p d cs (k : Z) : T p d cs ∈ nodes F ->
    type_is (Some p) k h = Ret (Z.land (rd_type d) 255 =? k, h).
  Proof.
    intros Ht. destruct (WF_live_dat _ _ _ _ _ W (node_find _ Ht)) as [Hl Hd].
    unfold type_is. stp (run_get_type_plain _ _ _ Hl Hd). done.
  Qed.

  Lemma run_compare_pointers c (k : nat) p d cs ch nm flag :
    T p d cs ∈ nodes F -> cs !! k = Some ch -> CsReads h c nm ->
    compare_pointers (rd_key (tdata ch)) c flag h =
    Ret (match key_string St ch with Some ks => PointerDefs.compare_pointers ks nm flag | None => false end, h).
  Proof.
    intros Ht Hk Hc. destruct (goi_child h F p d cs W KR (node_find _ Ht) k ch Hk) as (_ & _ & _ & Hkr).
    unfold compare_pointers, key_string. destruct (rd_key (tdata ch)) as [b|] eqn:E; cbn [is_null orb mbind option_bind]; [|done].
    rewrite (CsReads_not_null _ _ _ Hc). destruct (Hkr b eq_refl) as (Hbl & sb & Hbs & Hbz).
    stp (run_ld_cstr _ _ _ Hbl Hbs Hbz). stp (run_ld_cs _ _ _ Hc). unfold bytes in *. rewrite Hbs. done.
  Qed.

  Lemma gip_member_loop_sim c nm flag p d cs : T p d cs ∈ nodes F -> CsReads h c nm ->
    forall fuel (k : nat), (length cs - k < fuel)%nat ->
    gip_member_loop fuel (tid <$> cs !! k) c flag h =
    Ret (fc_pos St (drop k cs) nm flag ≫= (fun j => tid <$> cs !! (k + j)%nat), h).
  Proof.
    intros Ht Hc. induction fuel as [|fuel IH]; intros k Hf; [lia|]. cbn [gip_member_loop].
    destruct (cs !! k) as [ch|] eqn:Hk; cbn [fmap option_fmap option_map is_null].
    2:{ apply lookup_ge_None in Hk. by rewrite drop_ge by lia. }
    destruct (goi_child h F p d cs W KR (node_find _ Ht) k ch Hk) as (Hlc & Hdc & Hnext & _).
    rewrite (drop_lookup_cons _ _ _ Hk). cbn [fc_pos].
    stp (run_get_key_plain _ _ _ Hlc Hdc). change (nd_key (mk_dat (tdata ch) (cids ch))) with (rd_key (tdata ch)).
    stp (run_compare_pointers c k p d cs ch nm flag Ht Hk Hc).
    destruct (match key_string St ch with Some ks => PointerDefs.compare_pointers ks nm flag | None => false end); cbn [negb].
    - cbn. by rewrite Nat.add_0_r, Hk.
    - stp Hnext. apply lookup_lt_Some in Hk. rewrite IH by lia.
      destruct (fc_pos St (drop (S k) cs) nm flag) as [j|]; [|done]. cbn.
      replace (k + S j)%nat with (S (k + j))%nat by lia. done.
  Qed.

  (** a NULL current element falls out of the walk *)
  Lemma gip_loop_null c nm flag tfuel sfuel lfuel : CsReads h c nm -> (0 < tfuel)%nat ->
    get_item_from_pointer_loop tfuel sfuel lfuel None c flag h = Ret (None, h).
  Proof.
    intros Hc Hf. destruct tfuel as [|tf]; [lia|]. cbn [get_item_from_pointer_loop].
    stp (run_ld_byte0 _ _ _ Hc). cbn [is_null negb]. by rewrite andb_false_r.
  Qed.

  Lemma child_node p d cs (k : nat) ch : T p d cs ∈ nodes F -> cs !! k = Some ch -> ch ∈ nodes F.
  Proof. intros Ht Hk. eapply TierBridgeForest.child_in_nodes; [exact Ht|by eapply elem_of_list_lookup_2]. Qed.

  Lemma run_u_get_array_item p d cs idx : T p d cs ∈ nodes F -> 0 <= idx ->
    u_get_array_item (Some p) idx h = Ret (tid <$> cs !! Z.to_nat idx, h).
  Proof.
    intros Ht Hi. pose proof (get_array_item_sim h F p d cs idx W (node_find _ Ht) (node_not_ref _ _ _ Ht) Hi) as G.
    unfold spec_get_index in G. pose proof (children_of_find _ _ _ _ (node_find _ Ht)) as Hc. cbn [tid] in Hc.
    rewrite Hc, list_lookup_fmap in G.
    exact G.
  Qed.

  Theorem gip_loop_sim flag sfuel lfuel : (Pos.to_nat (h_next h) <= lfuel)%nat ->
    forall (n : nat) t c nm tfuel vfuel, (length nm <= n)%nat ->
    t ∈ nodes F -> CsReads h c nm -> (length nm < tfuel)%nat -> (length nm < vfuel)%nat -> (length nm < sfuel)%nat ->
    get_item_from_pointer_loop tfuel sfuel lfuel (Some (tid t)) c flag h =
    Ret (tid <$> (PointerDefs.get_item_loop vfuel (reify St t) nm flag ≫= subtree_t t), h).
  Proof.
    intros Hlf. induction n as [|n IH]; intros t c nm tfuel vfuel Hn Ht Hc Htf Hvf Hsf.
    - destruct nm as [|? ?]; [|cbn in Hn; lia]. destruct tfuel as [|tf]; [lia|]. destruct vfuel as [|vf]; [lia|].
      cbn [get_item_from_pointer_loop PointerDefs.get_item_loop]. stp (run_ld_byte0 _ _ _ Hc). cbn [hd Z.eqb andb is_null negb].
      stp (run_ld_byte0 _ _ _ Hc). done.
    - destruct tfuel as [|tf]; [lia|]. destruct vfuel as [|vf]; [lia|].
      cbn [get_item_from_pointer_loop PointerDefs.get_item_loop]. stp (run_ld_byte0 _ _ _ Hc).
      destruct nm as [|x r]; cbn [hd is_null negb].
      { cbn [Z.eqb andb]. stp (run_ld_byte0 _ _ _ Hc). done. }
      pose proof (CsReads_zfree _ _ _ Hc) as Hz. apply Forall_inv in Hz.
      destruct (Z.eqb_spec x 47) as [->|Hne]; cbn [andb].
      2:{ stp (run_ld_byte0 _ _ _ Hc). cbn [hd]. destruct (Z.eqb_spec x 0) as [|_]; [done|]. done. }
      pose proof (CsReads_tail _ _ _ _ Hc) as Hc1. cbn [length] in Hn, Htf, Hvf, Hsf.
      destruct t as [p d cs]. cbn [tid].
      unfold cJSON_IsArray, cJSON_IsObject. cbn [is_null].
      stp (run_is_type p d cs c_cJSON_Array Ht).
      unfold Tree.is_array, Tree.is_object, Tree.is_type, Tree.tymask. rewrite reify_unfold. cbn [Tree.n_ty Tree.n_children].
      destruct (Z.land (rd_type d) 255 =? c_cJSON_Array) eqn:Earr.
      + (* array *)
        unfold decode_array_index_from_pointer. stp (run_ld_cs _ _ _ Hc1). rewrite bindM_ret.
        destruct (PointerDefs.decode_array_index_from_pointer r) as [idx|] eqn:Eidx; [|done].
        pose proof (decode_index_nonneg _ _ Eidx) as Hi.
        stp (run_u_get_array_item p d cs idx Ht Hi).
        destruct (skip_token_loop_sim h sfuel _ _ Hc1 ltac:(lia)) as (c' & Hskip & Hc').
        stp Hskip. pose proof (skip_token_length r) as Hsl.
        rewrite nth_z_lookup. destruct (Z.ltb_spec idx 0) as [|_]; [lia|].
        rewrite map_fmap, list_lookup_fmap.
        destruct (cs !! Z.to_nat idx) as [ch|] eqn:Ech; cbn [fmap option_fmap option_map].
        * rewrite (IH ch c' (PointerDefs.skip_token r) tf vf); [|lia|by eapply child_node|done|lia|lia|lia].
          do 2 f_equal. destruct (PointerDefs.get_item_loop vf (reify St ch) (PointerDefs.skip_token r) flag) as [pp|]; [|done].
          cbn. by rewrite Ech.
        * by apply (gip_loop_null c' _ flag tf sfuel lfuel Hc'); lia.
      + stp (run_is_type p d cs c_cJSON_Object Ht).
        destruct (Z.land (rd_type d) 255 =? c_cJSON_Object) eqn:Eobj; [|done].
        destruct (WF_live_dat _ _ _ _ _ W (node_find _ Ht)) as [Hl Hd].
        stp (run_get_child_plain _ _ _ Hl Hd). change (nd_child (mk_dat d (tid <$> cs))) with (child_of d (tid <$> cs)).
        pose proof (find_tree_flat _ _ _ _ (node_find _ Ht)) as Hfl.
        rewrite (ref_ok_child_of _ _ _ _ (wf_ref _ _ W) Hfl (node_not_ref _ _ _ Ht)). rewrite list_lookup_fmap.
        pose proof (chain_fuel _ _ _ _ _ W Hfl) as Hcf. rewrite fmap_length in Hcf.
        stp (gip_member_loop_sim (cs_plus c 1) r flag p d cs Ht Hc1 lfuel 0%nat ltac:(lia)). rewrite drop_0.
        destruct (skip_token_loop_sim h sfuel _ _ Hc1 ltac:(lia)) as (c' & Hskip & Hc').
        stp Hskip. pose proof (skip_token_length r) as Hsl.
        rewrite (fc_pos_find_child St cs r flag 0).
        destruct (fc_pos St cs r flag) as [j|] eqn:Ej; cbn [mbind option_bind].
        * destruct (fc_pos_lookup _ _ _ _ _ Ej) as [ch Ech]. cbn [Nat.add]. rewrite !Ech. cbn [fmap option_fmap option_map].
          rewrite (IH ch c' (PointerDefs.skip_token r) tf vf); [|lia|by eapply child_node|done|lia|lia|lia].
          do 2 f_equal. destruct (PointerDefs.get_item_loop vf (reify St ch) (PointerDefs.skip_token r) flag) as [pp|]; [|done].
          cbn. by rewrite Ech.
        * by apply (gip_loop_null c' _ flag tf sfuel lfuel Hc'); lia.
  Qed.

  (** STAGE 1: the entry point *)
  Theorem get_item_from_pointer_refines t c nm flag :
    t ∈ nodes F -> CsReads h c nm ->
    get_item_from_pointer (Some (tid t)) c flag h =
    Ret (tid <$> (PointerDefs.get_item_from_pointer (reify St t) nm flag ≫= subtree_t t), h).
  Proof.
    intros Ht Hc. unfold get_item_from_pointer. rewrite (CsReads_not_null _ _ _ Hc).
    destruct (run_cs_fuel _ _ _ Hc) as (sf & Hsf & Hlt). stp Hsf. unfold heap_fuel. unfold bindM at 1.
    apply (gip_loop_sim flag sf (Pos.to_nat (h_next h)) ltac:(lia) (length nm)); try done; try lia.
  Qed.

  (** the value-level path, when there is one, leads to a node of the tree *)
  Lemma get_item_loop_subtree flag : forall vfuel t nm pp,
    PointerDefs.get_item_loop vfuel (reify St t) nm flag = Some pp -> is_Some (subtree_t t pp).
  Proof.
    induction vfuel as [|vf IH]; intros t nm pp; [done|]. cbn [PointerDefs.get_item_loop].
    destruct nm as [|x r]; [intros [= <-]; by eexists|].
    destruct (x =? 47); [|done]. destruct t as [p d cs]. rewrite reify_unfold.
    unfold Tree.is_array, Tree.is_object, Tree.is_type. cbn [Tree.n_ty Tree.n_children].
    destruct (Tree.tymask (rd_type d) =? c_cJSON_Array).
    - destruct (PointerDefs.decode_array_index_from_pointer r) as [idx|] eqn:Eidx; [|done].
      pose proof (decode_index_nonneg _ _ Eidx) as Hi. rewrite nth_z_lookup. destruct (Z.ltb_spec idx 0) as [|_]; [lia|].
      rewrite map_fmap, list_lookup_fmap. destruct (cs !! Z.to_nat idx) as [ch|] eqn:Ech; cbn [fmap option_fmap option_map]; [|done].
      destruct (PointerDefs.get_item_loop vf (reify St ch) (PointerDefs.skip_token r) flag) as [pp'|] eqn:E; [|done].
      intros [= <-]. cbn [subtree_t tchildren]. rewrite Ech. by eapply IH.
    - destruct (Tree.tymask (rd_type d) =? c_cJSON_Object); [|done].
      rewrite (fc_pos_find_child St cs r flag 0).
      destruct (fc_pos St cs r flag) as [j|] eqn:Ej; cbn [mbind option_bind]; [|done].
      destruct (fc_pos_lookup _ _ _ _ _ Ej) as [ch Ech]. rewrite Ech. cbn [fmap option_fmap option_map Nat.add].
      destruct (PointerDefs.get_item_loop vf (reify St ch) (PointerDefs.skip_token r) flag) as [pp'|] eqn:E; [|done].
      intros [= <-]. cbn [subtree_t tchildren]. rewrite Ech. by eapply IH.
  Qed.
End Walk.

(** * [Cons]: the walk is a read *)
Lemma get_item_from_pointer_found h F t c nm flag pp :
  MInv h F -> t ∈ nodes F -> CsReads h c nm ->
  PointerDefs.get_item_from_pointer (reify (h_str h) t) nm flag = Some pp ->
  exists n, subtree_t t pp = Some n /\ get_item_from_pointer (Some (tid t)) c flag h = Ret (Some (tid n), h).
Proof.
  intros I Ht Hc E. destruct (get_item_loop_subtree h flag _ _ _ _ E) as [n Hn]. exists n. split; [done|].
  rewrite (get_item_from_pointer_refines h F I t c nm flag Ht Hc), E. cbn. by rewrite Hn.
Qed.
Lemma get_item_from_pointer_none h F t c nm flag :
  MInv h F -> t ∈ nodes F -> CsReads h c nm ->
  PointerDefs.get_item_from_pointer (reify (h_str h) t) nm flag = None ->
  get_item_from_pointer (Some (tid t)) c flag h = Ret (None, h).
Proof. intros I Ht Hc E. by rewrite (get_item_from_pointer_refines h F I t c nm flag Ht Hc), E. Qed.
