(** Properties_C04_G15.v — property C04: the three "%1.15g" clauses of the C library contract
    [RoundTripNum.LibcRoundTripSpec] — N4, N5a, N5b, until now hypotheses validated by execution
    only — PROVED for the executable reference implementations [LibcNum.strtod_ref],
    [LibcPrint.fmt_d], [LibcPrint.fmt_g15] (= [fmt_g 15]).  Same format as Properties_C04.v.
    Proofs: LibcG15Scale.v (integer arithmetic of fmt_g), LibcG15Int.v (N5a, N5b),
    LibcG15Text.v (the text fmt_g15 writes is the decimal strtod_ref reads), LibcG15Real.v
    (bridge to Flocq: the reference decimal -> binary conversion is correctly rounded),
    LibcG15Stable.v (N4), LibcG15Contract.v (the whole contract, with LibcG17Contract.v).
    N5a and N5b are closed under the global context; N4 and the contract use Flocq and list the
    standard axioms of Coq's Reals library (DESIGN.md section 8). *)
From Coq Require Import ZArith List.
From CJ Require Import Base Dbl Tree LibcNum LibcPrint PrintDefs RoundTripNum
  LibcG15Scale LibcG15Int LibcG15Stable LibcG15Contract.
Import ListNotations.
Local Open Scope Z_scope.

(** N5a: "%1.15g" of (double) of a C int is what "%d" prints for that int *)
Theorem C04_ref_g15_int : forall z, int_range z = true -> fmt_g15 (dbl_of_int z) = fmt_d z.
Proof. exact ref_g15_int. Qed.
Print Assumptions C04_ref_g15_int.

(** the same for every integer of magnitude below 10^15 (15 digits: still exact, still %f style) *)
Theorem C04_ref_g15_of_int15 : forall z, Z.abs z < 10 ^ 15 -> fmt_g15 (dbl_of_int z) = fmt_d z.
Proof. exact g15_of_int. Qed.
Print Assumptions C04_ref_g15_of_int15.

(** N5b: "%1.15g" of an integer below 10^15 reads back exactly *)
Theorem C04_ref_g15_exact : forall z, Z.abs z < 10 ^ 15 ->
  exists k, strtod_ref (fmt_g15 (dbl_of_int z)) = Some (dbl_of_int z, k).
Proof. exact ref_g15_exact. Qed.
Print Assumptions C04_ref_g15_exact.

(** N2 extended to 15 digits, with the consumed length: strtod reads the "%d" text completely *)
Theorem C04_ref_d15 : forall z, Z.abs z < 10 ^ 15 ->
  strtod_ref (fmt_d z) = Some (dbl_of_int z, length (fmt_d z)).
Proof. exact ref_d15. Qed.
Print Assumptions C04_ref_d15.

(** N4 (DBL_DIG = 15): 15 significant digits survive decimal -> double -> decimal, for EVERY
    finite well-formed double d — normal or subnormal, of either sign, zeros included *)
Theorem C04_ref_g15_stable : forall d t k, is_finite d = true -> dbl_ok d ->
  strtod_ref (fmt_g15 d) = Some (t, k) -> is_finite t = true -> fmt_g15 t = fmt_g15 d.
Proof. exact ref_g15_stable. Qed.
Print Assumptions C04_ref_g15_stable.

(** the whole contract for the reference C library, no clause left as a hypothesis *)
Theorem C04_ref_roundtrip_spec : LibcRoundTripSpec strtod_ref fmt_d fmt_g15 fmt_g17 sscanf_lg.
Proof. exact ref_roundtrip_spec. Qed.
Print Assumptions C04_ref_roundtrip_spec.

(** non-vacuity of N5a / N5b: INT_MIN, and the largest integer below 10^15 *)
Theorem C04_ref_g15_int_nonvacuous :
  (int_range (-2147483648) = true /\
   fmt_g15 (dbl_of_int (-2147483648)) = [45; 50; 49; 52; 55; 52; 56; 51; 54; 52; 56] /\
   fmt_d (-2147483648) = [45; 50; 49; 52; 55; 52; 56; 51; 54; 52; 56]) /\
  (Z.abs 999999999999999 < 10 ^ 15 /\
   strtod_ref (fmt_g15 (dbl_of_int 999999999999999)) = Some (dbl_of_int 999999999999999, 15%nat)).
Proof. exact g15_int_examples. Qed.
Print Assumptions C04_ref_g15_int_nonvacuous.

(** non-vacuity of N4: the double after 0.1 prints as "0.1", which reads back as a DIFFERENT
    double (0.1) that prints as "0.1" again; the negative smallest subnormal prints with 15
    digits and reads back as itself *)
Theorem C04_ref_g15_stable_nonvacuous :
  (is_finite ex_tenth_up = true /\ dbl_ok ex_tenth_up /\
   fmt_g15 ex_tenth_up = [48; 46; 49] /\
   strtod_ref (fmt_g15 ex_tenth_up) = Some (ex_tenth, 3%nat) /\ ex_tenth <> ex_tenth_up /\
   is_finite ex_tenth = true /\ fmt_g15 ex_tenth = fmt_g15 ex_tenth_up) /\
  (is_finite ex_min_sub = true /\ dbl_ok ex_min_sub /\
   fmt_g15 ex_min_sub = [45; 52; 46; 57; 52; 48; 54; 53; 54; 52; 53; 56; 52; 49; 50; 52; 55; 101; 45; 51; 50; 52] /\
   strtod_ref (fmt_g15 ex_min_sub) = Some (ex_min_sub, 22%nat)).
Proof. exact g15_stable_examples. Qed.
Print Assumptions C04_ref_g15_stable_nonvacuous.

(** N4 speaks about texts that fmt_g15 PRODUCES: the text "1e-323" (same shape, but printed for no
    double) reads as 2 * 2^-1074, which prints as "9.88131291682493e-324" *)
Theorem C04_ref_g15_unprinted_text_unstable :
  exists t k, strtod_ref (g_text 15 false (10 ^ 14) (-323)) = Some (t, k) /\ is_finite t = true /\
              fmt_g15 t <> g_text 15 false (10 ^ 14) (-323).
Proof. exact g15_unprinted_text_unstable. Qed.
Print Assumptions C04_ref_g15_unprinted_text_unstable.
