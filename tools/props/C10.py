"""C10 — Parse end, error position and termination checking are reliable."""
from .common import *
from . import parsegen as G

MODEL_FILES = 'ParseDefs.v (cJSON_ParseWithLengthOpts: rnt block, return_parse_end, failure block), LibcNum.v'
RULE = ('all parser input streams of C01 with and without a return_parse_end argument, both rnt values, plus buffers whose declared length extends beyond the '
        'first zero byte; every byte 0x01..0xFF (alone, doubled, after a blank) as the trailer of complete values before the terminator; a few texts with the k-th allocation request refused through all entry points (position constraints only); verdict: end within [0,n], prefix re-parse equal, rnt success iff value + whitespace + zero byte inside the buffer (independent python '
        'recogniser), failure => end == error position < max(n,1), success => error pointer NULL; non-trivial = distinct input of at least 2 bytes')
ASSUMPTIONS = ['C locale', 'hand-written transliteration validated by this differential run']

def corpus(ctx): return G.parse_corpus(ctx, 'C10', None)
def generate(ctx):
    import random
    cases = G.all_streams(ctx, 10)
    rng = random.Random(ctx['seed'] * 131071 + 10)
    tails = [b'\0', b' \0', b'\0 ', b' \0 ', b'\0x', b' \t\n\0junk', b'\0\0', b' ', b'x', b'\x01\0', b' x\0', b'\0' * 3, b'']
    for _ in range(60 if ctx['tier'] == 'quick' else 1500):
        v = G.rand_rfc_value(rng, rng.choice([0, 1, 2]))
        text = G.weave_rfc(G.rfc_tokens(v, rng), rng).rstrip(b' \t\r\n')
        for t in tails:
            b = text + t
            for rnt in (0, 1):
                cases.append(G.pcase('L', rnt, len(b), b, {'tags': ['rnt-tail']}))
    # every single byte as the trailer of a complete value, followed by a zero byte: with termination required only whitespace may
    # precede the terminator (bytes >= 0x80 are not whitespace, whatever the signedness of char)
    bases = [b'{"a":[1,2]}', b'[]', b'"s"', b'12', b'null'] + [G.weave_rfc(G.rfc_tokens(G.rand_rfc_value(rng, 1), rng), rng).rstrip(b' \t\r\n') for _ in range(2)]
    if ctx.get('seed_index', 0) == 0:
        for base in bases:
            for x in range(1, 256):
                for t in (bytes([x]) + b'\0', b' ' + bytes([x]) + b'\0', bytes([x, x]) + b'\0'):
                    b = base + t
                    cases.append(G.pcase('L', 1, len(b), b, {'tags': ['rnt-tail', 'tail-byte']}))
                    if t[0] == x and len(t) == 2:
                        cases.append(G.pcase('O', 1, 0, b, {'tags': ['rnt-tail', 'tail-byte']})); cases.append(G.pcase('L', 0, len(b), b, {'tags': ['rnt-tail', 'tail-byte']}))
    # a refused allocation request is a failure like any other: NULL, and the error position is reported (equal through both channels, inside the buffer)
    for base in bases[:5] + [b'{"k":"v","l":[true,{"m":null}]}  ']:
        for k in range(1, 9):
            for e, rnt in (('L', 0), ('L', 1), ('O', 1), ('o', 0), ('P', 0)):
                b = base + b'\0'
                c = G.pcase(e, rnt, len(b) if e in 'Ll' else 0, b, {'tags': ['alloc-failure', 'k=%d' % k], 'failk': k}, failk=k)
                cases.append(c)
    return cases
def project(c, out):
    tree, kv = G.fields(out)
    if tree == 'NULL': return 'NULL'      # which in-buffer offset a failure reports is not fixed by the property (the verdict checks its constraints)
    return G.project_fields(out, ['end', 'err', 'reparse'])

def verdict(c, out, ctx):
    if is_crash(out): return 'crash: ' + out
    tree, kv = G.fields(out)
    if 'content' not in c.info: return None
    e = c.info['entry']
    n = c.info['n'] if e in 'LlW' else len(c.info['content'])
    rnt = c.info['rnt'] if e in 'LlOo' else 0
    end, err = kv.get('end'), kv.get('err')
    if tree != 'NULL':
        if err != 'NULL': return 'global error pointer not NULL after a success'
        if end not in (None, '-'):
            if not (0 <= int(end) <= n): return 'parse end %s outside [0,%d]' % (end, n)
            if kv.get('reparse') != 'same': return 'the bytes before the parse end do not parse to an equal tree (%s)' % kv.get('reparse')
    else:
        if err == 'NULL': return 'failure without error position'
        if not (0 <= int(err) < max(n, 1)): return 'error position %s outside the buffer of %d byte(s)' % (err, n)
        if end not in (None, '-') and end != err: return 'reported parse end %s differs from the global error position %s' % (end, err)
    if c.info.get('failk'): return None       # whether the k-th request exists decides acceptance; the position constraints above are what C10 fixes
    if rnt:
        exp = G.lenient_accepts(c.info['content'], n, 1)
        if exp and tree == 'NULL': return 'termination required: value followed by whitespace and a zero byte inside the buffer was rejected'
        if not exp and tree != 'NULL': return 'termination required: accepted although the value is not followed by whitespace and a zero byte'
    else:
        ve = G.lenient_end(c.info['content'], n)
        if ve is not None and tree == 'NULL': return 'trailing bytes after a complete value caused a rejection although termination is not required'
    return None

def nontrivial(c, out): return len(c.info.get('content', b'')) >= 2 and not is_crash(out)
