(** CoreOpsBridgeRefHist.v — histories of the EXTRACTED interpreter WITH READ-ONLY QUERIES THROUGH
    REFERENCE NODES (definitions: CoreOpsBridgeRefDefs.v; heap level: CoreOpsBridgeRefSim.v).

    * [ref_chain_spec], [ref_chain_container], [ref_chain_released]: what [ref_chain] is — defined
      exactly when the node the borrowed pointer designates is still a node of the model's forest;
      then it is that node and its following siblings; for the first child of a container: the
      container's current children list;
    * [ref_answer_sim]: THE STEP of the list model — from every heap that represents [S], the query
      returns the model's answer and the heap is unchanged;
    * [stepQ_sim] / [stepRR_sim]: one step of the extracted interpreter;
    * [runRR_sim], [history_extractedR], [ledger_extractedR]: every accepted history, the ledger;
    * [runRD_runRR], [accepted_rules_D_R]: the extension is conservative;
    * [runRR_app]: acceptance is prefix-closed; [stepRR_spec], [stepQ_spec]: acceptance spelled out. *)
From CJ Require Import Base Dbl Heap Forest ForestLemmas CoreSpec CoreDefs CoreRefineBase CoreRefine CoreRefineObject
  CoreRefineHistory CoreRefineHistoryObj CoreRefineHistoryObjEx CoreRefineCreate CoreRefineDupUnroll CoreLedgerGen
  CoreHistoryAllSteps CoreHistoryAll CoreLedgerAll CoreLedgerDup CoreOpsBridge CoreOpsBridgeHist CoreOpsBridgeOwned
  CoreOpsBridgeDupDefs CoreOpsBridgeDupStep CoreOpsBridgeDupHist CoreOpsBridgeRefDefs CoreOpsBridgeRefSim.
From CJ Require CoreOps.
From CJ.gen Require Import Constants.
From stdpp Require Import gmap.
From Coq Require Import Lia.
Local Open Scope Z_scope.

(** * what a reference node denotes *)
Lemma ref_chain_spec F a us :
  ref_chain F a = Some us <->
  exists p d, a = Some p /\ find_tree p F = Some (T p d []) /\ is_ref d = true /\
    ((rd_ref d = None /\ us = []) \/ (exists c, rd_ref d = Some c /\ c ∈ ids F /\ us = chain_from F c)).
Proof.
  unfold ref_chain. split.
  - destruct a as [p|]; [|done]. destruct (find_tree p F) as [[p' d cs]|] eqn:Hp; [|done].
    pose proof (find_tree_Some _ _ _ Hp) as [_ Hpp]. cbn in Hpp. subst p'.
    destruct cs; [|done]. destruct (is_ref d) eqn:Hr; [|done]. destruct (rd_ref d) as [c|] eqn:Er.
    + destruct (bool_decide (c ∈ ids F)) eqn:Eb; [|done]. apply bool_decide_eq_true in Eb. intros [= <-].
      exists p, d. split_and!; try done. right. by exists c.
    + intros [= <-]. exists p, d. split_and!; try done. by left.
  - intros (p & d & -> & -> & -> & [[-> ->]|(c & -> & Hc & ->)]); [done|]. by rewrite bool_decide_eq_true_2.
Qed.

(** the borrowed pointer designates the FIRST child of a container of the forest: the reference
    denotes the container's CURRENT children *)
Lemma ref_chain_container F p d c q dq csq :
  NoDup (ids F) -> find_tree p F = Some (T p d []) -> is_ref d = true -> rd_ref d = Some c ->
  find_tree q F = Some (T q dq csq) -> head (tid <$> csq) = Some c ->
  ref_chain F (Some p) = Some csq.
Proof.
  intros ND Hp Hr Er Hq Hh. apply find_tree_Some in Hq as [Hq _].
  apply ref_chain_spec. exists p, d. split_and!; try done. right. exists c. split_and!; try done.
  - eapply cids_in_ids; [apply (elem_of_flat F (T q dq csq) Hq)|]. cbn. rewrite head_lookup in Hh.
    by eapply elem_of_list_lookup_2.
  - symmetry. by eapply chain_from_head.
Qed.

(** the node it designates is no longer a node of the forest (released): the pointer dangles *)
Lemma ref_chain_released F p d c :
  find_tree p F = Some (T p d []) -> rd_ref d = Some c -> c ∉ ids F -> ref_chain F (Some p) = None.
Proof.
  intros Hp Er Hc. unfold ref_chain. rewrite Hp, Er. destruct (is_ref d); [|done]. by rewrite bool_decide_eq_false_2.
Qed.

(** * the step of the list model *)
Lemma name_str_readable h S n name :
  Abs3 h S -> name_str S n = Some name ->
  exists nb (s : bytes), n = Some nb /\ nb ∈ h_live h /\ h_str h !! nb = Some s /\ existsb (Z.eqb 0) s = true /\
    name = cstr s.
Proof.
  intros [(_ & Hstr & [SI1 _] & _) _] H. unfold name_str in H. destruct n as [nb|]; [|done].
  destruct (a_str S !! nb) as [s|] eqn:Es; [|done]. destruct (has0 s) eqn:Ez; [|done]. injection H as <-.
  exists nb, s. split_and!; [done|by apply (SI1 _ _ Es)|by rewrite Hstr|done|done].
Qed.

Theorem ref_answer_sim h S m r :
  Abs3 h S -> ref_answer S m = Some r -> run_op3 m h = Ret (r, h).
Proof.
  intros HA H. pose proof (Abs3_WF' _ _ HA) as W.
  pose proof (Abs2_KeysReadable _ _ (proj1 HA)) as KR.
  assert (Hstr : h_str h = a_str S) by (destruct HA as [(_ & Hs & _) _]; exact Hs).
  destruct m as [o|n|s|s|s|c|c|a i|ob n i|ob n r0 cs|x n|x z|x b|x v|k ob n|ob n|x|x|l c|l c|l c|l c]; try discriminate H.
  - destruct o as [o|c|ob n i ck|ob n cs|ob n cs|ob n cs]; try discriminate H.
    + destruct o as [ty|a i|pa it|a w|a w n|pa it rp|a w n|it|a w|a|a i]; try discriminate H; cbn [ref_answer] in H.
      * destruct (ref_chain (a_forest S) a) as [us|] eqn:Ec; [|done]. injection H as <-.
        cbn [run_op3 run_op2 run_op]. rewrite !bindM_assoc.
        by rewrite (bindM_Ret _ _ _ _ _ (ref_size_sim h _ W a us Ec)).
      * destruct (ref_chain (a_forest S) a) as [us|] eqn:Ec; [|done]. injection H as <-.
        cbn [run_op3 run_op2 run_op]. rewrite !bindM_assoc.
        by rewrite (bindM_Ret _ _ _ _ _ (ref_item_sim h _ W a us i Ec)).
    + cbn [ref_answer] in H. destruct (ref_chain (a_forest S) ob) as [us|] eqn:Ec; [|done].
      destruct (name_str S n) as [name|] eqn:En; [|done]. injection H as <-.
      destruct (name_str_readable _ _ _ _ HA En) as (nb & sn & -> & Hl & Hs & Hz & ->).
      cbn [run_op3 run_op2]. rewrite !bindM_assoc.
      rewrite (bindM_Ret _ _ _ _ _ (ref_key_sim h _ W ob us nb sn cs KR Ec Hl Hs Hz)). by rewrite Hstr.
  - cbn [ref_answer] in H. destruct (ref_chain (a_forest S) ob) as [us|] eqn:Ec; [|done].
    destruct (name_str S n) as [name|] eqn:En; [|done]. injection H as <-.
    destruct (name_str_readable _ _ _ _ HA En) as (nb & sn & -> & Hl & Hs & Hz & ->).
    cbn [run_op3].
    rewrite (bindM_Ret _ _ _ _ _ (ref_has_sim h _ W ob us nb sn KR Ec Hl Hs Hz)). by rewrite Hstr.
Qed.

Theorem ref_each_abs h S a us :
  Abs3 h S -> ref_chain (a_forest S) a = Some us -> CoreOps.array_for_each a h = Ret (chain_types us, h).
Proof. intros HA. apply ref_each_sim. by apply Abs3_WF'. Qed.

(** the item a query through a reference returns is a node of the model's forest *)
Lemma ref_answer_ids S m r x :
  NoDup (ids (a_forest S)) -> ref_answer S m = Some r -> res_ptr3 r = Some x -> x ∈ ids (a_forest S).
Proof.
  intros ND H Hx.
  assert (Hin : forall a us, ref_chain (a_forest S) a = Some us -> x ∈ tid <$> us -> x ∈ ids (a_forest S)).
  { intros a us Hc Hxu. apply elem_of_list_fmap in Hxu as (c & -> & Hcu). apply elem_of_list_fmap. exists c. split; [done|].
    by eapply ref_chain_nodes. }
  destruct m as [o|n|s|s|s|c|c|a i|ob n i|ob n r0 cs|y n|y z|y b|y v|k ob n|ob n|y|y|l c|l c|l c|l c]; try discriminate H.
  - destruct o as [o|c|ob n i ck|ob n cs|ob n cs|ob n cs]; try discriminate H.
    + destruct o as [ty|a i|pa it|a w|a w n|pa it rp|a w n|it|a w|a|a i]; try discriminate H; cbn [ref_answer] in H.
      * destruct (ref_chain (a_forest S) a) as [us|]; [|done]. injection H as <-. done.
      * destruct (ref_chain (a_forest S) a) as [us|] eqn:Ec; [|done]. injection H as <-. cbn in Hx.
        destruct (i <? 0); [done|]. apply (Hin _ us Ec). by eapply elem_of_list_lookup_2.
    + cbn [ref_answer] in H. destruct (ref_chain (a_forest S) ob) as [us|] eqn:Ec; [|done].
      destruct (name_str S n) as [name|]; [|done]. injection H as <-. cbn in Hx. apply (Hin _ us Ec).
      unfold find_key in Hx. destruct cs; [by eapply find_key_cs_in|by eapply find_key_ci_in].
  - cbn [ref_answer] in H. destruct (ref_chain (a_forest S) ob) as [us|]; [|done].
    destruct (name_str S n) as [name|]; [|done]. injection H as <-. done.
Qed.

(** * one step of the extracted interpreter *)

(** the caller's string declarations *)
Lemma run_pre_abs pre : forall h S,
  Abs3 h S ->
  exists h1, run_pre pre h = Ret (tt, h1) /\ Abs3 h1 (spec_run3 S ((fun c => O2 (OForeign c)) <$> pre)).
Proof.
  induction pre as [|c pre IH]; intros h S HA; [by exists h|].
  destruct (step_sim3 h S (O2 (OForeign c)) HA (or_introl I)) as (h' & E & HA').
  assert (E' : run_op3 (O2 (OForeign c)) h = Ret (R (RPtr (Some (h_next h))), foreign_heap h c)) by reflexivity.
  rewrite E' in E. injection E as _ <-.
  destruct (IH _ _ HA') as (h1 & E1 & HA1). exists h1. split; [by rewrite run_pre_cons|]. exact HA1.
Qed.

(** a translated call whose main part leaves the heap unchanged *)
Lemma run_op_via_tr V st o t h h1 r x pools :
  view_ok V h -> tr V st o = Some t -> run_pre (t_pre t) h = Ret (tt, h1) ->
  run_main (t_main t) h1 = Ret (r, h1) -> finish (t_kind t) (t_st t) r h1 = Ret ((x, pools), h1) ->
  CoreOps.run_op nv st o h = Ret ((x, sweep_st h1 pools), h1).
Proof.
  intros HV Et Hp Hm Hf. unfold CoreOps.run_op.
  rewrite (bindM_ext_l _ (run_tr t)) by (by apply (run_op_raw_commutes V)).
  unfold run_tr. rewrite !bindM_assoc. rewrite (bindM_Ret _ _ _ _ _ Hp). rewrite !bindM_assoc.
  rewrite (bindM_Ret _ _ _ _ _ Hm). rewrite (bindM_Ret _ _ _ _ _ Hf). cbn [fst snd].
  by rewrite (bindM_Ret _ _ _ _ _ (run_sweep _ _)).
Qed.

Theorem stepQ_sim h st S o x st1 S1 :
  Abs3 h S -> PoolsOK h st S -> stepQ st S o = Some (x, st1, S1) ->
  exists h', CoreOps.run_op nv st o h = Ret ((x, st1), h') /\ Abs3 h' S1 /\ PoolsOK h' st1 S1.
Proof.
  intros HA [PI PS] E. unfold stepQ in E. destruct (tr (sview S) st o) as [t|] eqn:Et; [|done]. cbn zeta in E.
  pose proof (view_ok_sview _ _ HA) as HV. pose proof (proj2 HA) as K.
  destruct (run_pre_abs (t_pre t) h S HA) as (h1 & Hp1 & HA1).
  set (Sa := spec_run3 S ((fun c => O2 (OForeign c)) <$> t_pre t)) in *.
  destruct (tr_pools _ _ _ _ _ HV K Et) as (Hitems & h1' & Hp1' & CP1 & Hstrs).
  rewrite Hp1 in Hp1'. injection Hp1' as <-.
  pose proof (Abs3_WF' _ _ HA) as W. pose proof (Abs3_WF' _ _ HA1) as W1.
  assert (HS' : forall y, Some y ∈ CoreOps.st_strs (t_st t) -> FL h1 y).
  { intros y Hy. destruct (Hstrs y Hy) as [Hy0|Hy1]; [|done]. eapply FL_mono; [exact K|exact CP1|by apply PS]. }
  assert (HI' : forall y, Some y ∈ CoreOps.st_items (t_st t) -> h_own h1 !! y = Some Lib).
  { intros y Hy. rewrite Hitems in Hy. pose proof (PI y Hy) as Ho.
    rewrite (cp_own _ _ CP1); [by apply (wf_owned_lib _ _ W)|by apply (wf_fresh _ _ W)]. }
  exists h1. destruct (t_main t) as [m|] eqn:Em.
  - (* a query call *)
    assert (Hk : t_kind t = KPush \/ t_kind t = KFlag \/ t_kind t = KInt).
    { destruct (t_kind t); try done; auto. }
    assert (E2 : match ref_answer Sa m with
                 | Some r => Some (enc (t_kind t) r, sweepS Sa (new_pools (t_kind t) (t_st t) r), Sa)
                 | None => None end = Some (x, st1, S1)).
    { destruct Hk as [Hk|[Hk|Hk]]; rewrite Hk in E |- *; exact E. }
    clear E. destruct (ref_answer Sa m) as [r|] eqn:Er; [|done]. injection E2 as <- <- <-.
    assert (Hpk : pure_kind (t_kind t)) by (destruct Hk as [Hk|[Hk|Hk]]; by rewrite Hk).
    assert (Hmain : run_main (t_main t) h1 = Ret (r, h1)) by (rewrite Em; exact (ref_answer_sim h1 Sa m r HA1 Er)).
    assert (HIn : forall y, Some y ∈ CoreOps.st_items (new_pools (t_kind t) (t_st t) r) -> h_own h1 !! y = Some Lib).
    { intros y Hy. destruct (t_kind t) eqn:Ek; cbn [new_pools] in Hy; try (by apply HI').
      cbn in Hy. apply elem_of_app in Hy as [Hy|Hy]; [by apply HI'|].
      apply elem_of_list_singleton in Hy. apply (WF_ids_lib _ _ _ W1).
      eapply ref_answer_ids; [apply (wf_nodup _ _ W1)|exact Er|by rewrite <- Hy]. }
    assert (HSn : forall y, Some y ∈ CoreOps.st_strs (new_pools (t_kind t) (t_st t) r) -> FL h1 y).
    { intros y Hy. apply HS'. by destruct (t_kind t). }
    split; [|split; [exact HA1|]].
    + rewrite (run_op_via_tr _ _ _ _ _ _ _ _ _ HV Et Hp1 Hmain (finish_pure _ _ _ _ Hpk)).
      by rewrite (sweep_agree _ _ _ HA1 HIn HSn).
    + split; [apply sweepS_items|]. intros y Hy. apply HSn. exact Hy.
  - (* the caller's loop *)
    destruct (t_kind t) as [| | | | | |a] eqn:Ek; try done.
    destruct (ref_chain (a_forest Sa) a) as [us|] eqn:Ec; [|done]. injection E as <- <- <-.
    assert (Hmain : run_main (t_main t) h1 = Ret (R RUnit, h1)) by (by rewrite Em).
    assert (Hfin : finish (t_kind t) (t_st t) (R RUnit) h1 = Ret ((CoreOps.RInts (chain_types us), t_st t), h1)).
    { rewrite Ek. cbn [finish]. by rewrite (bindM_Ret _ _ _ _ _ (ref_each_abs _ _ _ _ HA1 Ec)). }
    split; [|split; [exact HA1|]].
    + rewrite (run_op_via_tr _ _ _ _ _ _ _ _ _ HV Et Hp1 Hmain Hfin).
      by rewrite (sweep_agree _ _ _ HA1 HI' HS').
    + split; [apply sweepS_items|]. intros y Hy. apply HS'. exact Hy.
Qed.

Theorem stepRR_sim h st S o x st1 S1 :
  Abs3 h S -> PoolsOK h st S -> stepRR st S o = Some (x, st1, S1) ->
  exists h', CoreOps.run_op nv st o h = Ret ((x, st1), h') /\ Abs3 h' S1 /\ PoolsOK h' st1 S1.
Proof.
  intros HA HP E. unfold stepRR in E. destruct (stepRD st S o) as [y|] eqn:Ed.
  - injection E as ->. by eapply stepRD_sim.
  - by eapply stepQ_sim.
Qed.

(** * histories *)
Theorem runRR_sim ops : forall h st S xs st2 S2,
  Abs3 h S -> PoolsOK h st S -> runRR st S ops = Some (xs, st2, S2) ->
  exists h', CoreOps.run_ops nv st ops h = Ret ((xs, st2), h') /\ Abs3 h' S2 /\ PoolsOK h' st2 S2.
Proof.
  induction ops as [|o r IH]; intros h st S xs st2 S2 HA HP E; cbn [runRR] in *.
  - injection E as <- <- <-. exists h. by split_and!.
  - destruct (stepRR st S o) as [[[x st1] S1]|] eqn:Es; [|done].
    destruct (runRR st1 S1 r) as [[[xr st3] S3]|] eqn:Er; [|done]. injection E as <- <- <-.
    destruct (stepRR_sim _ _ _ _ _ _ _ HA HP Es) as (h1 & E1 & HA1 & HP1).
    destruct (IH _ _ _ _ _ _ HA1 HP1 Er) as (h2 & E2 & HA2 & HP2).
    exists h2. split_and!; [|done|done].
    cbn [CoreOps.run_ops]. rewrite (bindM_Ret _ _ _ _ _ E1). cbn [fst snd]. by rewrite (bindM_Ret _ _ _ _ _ E2).
Qed.

(** THE HISTORY THEOREM FOR THE EXTRACTED INTERPRETER, duplicate calls and queries through reference nodes
    included *)
Theorem history_extractedR ops xs st' S' :
  runRR CoreOps.empty_state S0 ops = Some (xs, st', S') ->
  exists h', CoreOps.run_ops nv CoreOps.empty_state ops empty_heap = Ret ((xs, st'), h') /\ Abs3 h' S'.
Proof.
  intros E. destruct (runRR_sim ops _ _ _ _ _ _ Abs3_empty PoolsOK_empty E) as (h' & H1 & H2 & _). by exists h'.
Qed.

Corollary history_extractedR_accepted ops :
  accepted_rulesR ops = true ->
  exists xs st' S' h', runRR CoreOps.empty_state S0 ops = Some (xs, st', S') /\
    CoreOps.run_ops nv CoreOps.empty_state ops empty_heap = Ret ((xs, st'), h') /\ Abs3 h' S'.
Proof.
  unfold accepted_rulesR. destruct (runRR CoreOps.empty_state S0 ops) as [[[xs st'] S']|] eqn:E; [|done]. intros _.
  destruct (history_extractedR _ _ _ _ E) as (h' & H1 & H2). by exists xs, st', S', h'.
Qed.

(** * the ledger (C07) *)
Theorem ledger_extractedR ops xs st' S' :
  runRR CoreOps.empty_state S0 ops = Some (xs, st', S') ->
  exists h1 h2,
    CoreOps.run_ops nv CoreOps.empty_state ops empty_heap = Ret ((xs, st'), h1) /\ Abs3 h1 S' /\
    (forall b, b ∈ lib_live h1 <-> b ∈ owned (a_forest S')) /\
    CoreOps.live_count h1 = length (owned (a_forest S')) /\
    delete_roots (roots (a_forest S')) h1 = Ret (tt, h2) /\ lib_live h2 = ∅ /\ CoreOps.live_count h2 = 0%nat /\
    (forall b, h_own h1 !! b = Some Foreign -> b ∈ h_live h1 -> b ∈ h_live h2 /\ h_str h2 !! b = h_str h1 !! b).
Proof.
  intros E. destruct (history_extractedR _ _ _ _ E) as (h1 & H1 & HA).
  destruct (delete_roots_sim (a_forest S') S' h1 eq_refl HA) as (h2 & S2 & E2 & HA2 & _ & HL2).
  exists h1, h2. split_and!; try done.
  - by apply Abs3_ledger.
  - unfold CoreOps.live_count. pose proof (wf_owned_nodup _ _ (Abs3_WF' _ _ HA)) as ND.
    rewrite <- (size_list_to_set (C := gset positive) _ ND). f_equal. apply set_eq. intros b.
    rewrite elem_of_list_to_set. by apply Abs3_ledger.
  - unfold CoreOps.live_count. rewrite HL2. apply size_empty.
  - intros b Ho Hl. apply (cp_foreign _ _ (Cons_delete_roots _ _ _ _ E2 (proj2 HA)) b Ho Hl).
Qed.

(** * the extension is conservative *)
Lemma stepRD_stepRR st S o y : stepRD st S o = Some y -> stepRR st S o = Some y.
Proof. unfold stepRR. by intros ->. Qed.
Lemma runRD_runRR ops : forall st S y, runRD st S ops = Some y -> runRR st S ops = Some y.
Proof.
  induction ops as [|o r IH]; intros st S y E; cbn [runRD runRR] in *; [done|].
  destruct (stepRD st S o) as [[[x st1] S1]|] eqn:Es; [|done]. rewrite (stepRD_stepRR _ _ _ _ Es).
  destruct (runRD st1 S1 r) as [[[xs st2] S2]|] eqn:Er; [|done]. by rewrite (IH _ _ _ Er).
Qed.
Theorem accepted_rules_D_R ops : accepted_rulesD ops = true -> accepted_rulesR ops = true.
Proof.
  unfold accepted_rulesD, accepted_rulesR. destruct (runRD CoreOps.empty_state S0 ops) as [y|] eqn:E; [|done].
  by rewrite (runRD_runRR _ _ _ _ E).
Qed.

(** every moment: acceptance is prefix-closed *)
Lemma runRR_app ops1 : forall st S ops2 xs st2 S2,
  runRR st S (ops1 ++ ops2) = Some (xs, st2, S2) ->
  exists xs1 st1 S1 xs2, runRR st S ops1 = Some (xs1, st1, S1) /\ runRR st1 S1 ops2 = Some (xs2, st2, S2) /\ xs = xs1 ++ xs2.
Proof.
  induction ops1 as [|o r IH]; intros st S ops2 xs st2 S2 E; cbn [app runRR] in *.
  - by exists [], st, S, xs.
  - destruct (stepRR st S o) as [[[x sta] Sa]|]; [|done].
    destruct (runRR sta Sa (r ++ ops2)) as [[[xr st3] S3]|] eqn:Er; [|done]. injection E as <- <- <-.
    destruct (IH _ _ _ _ _ _ Er) as (xs1 & st1 & S1 & xs2 & -> & E2 & ->). by exists (x :: xs1), st1, S1, xs2.
Qed.

(** * what acceptance means, spelled out *)
Lemma stepRR_spec st S o y :
  stepRR st S o = Some y <-> stepRD st S o = Some y \/ (stepRD st S o = None /\ stepQ st S o = Some y).
Proof.
  unfold stepRR. destruct (stepRD st S o) as [z|]; split.
  - intros [= ->]. by left.
  - intros [[= ->]|[? _]]; done.
  - intros H. by right.
  - intros [?|[_ H]]; done.
Qed.

(** the six queries, on a reference node: accepted exactly when the chain is defined (and, by key,
    the name is a readable string); the result is the list model's answer on the chain; the model
    state changes only by the caller strings the call declares *)
Definition declared (S : astate2) (t : trans) : astate2 := spec_run3 S ((fun c => O2 (OForeign c)) <$> t_pre t).

Lemma stepQ_spec st S o x st1 S1 :
  stepQ st S o = Some (x, st1, S1) <->
  exists t, tr (sview S) st o = Some t /\ S1 = declared S t /\
    ((exists m r, t_main t = Some m /\ (t_kind t = KPush \/ t_kind t = KFlag \/ t_kind t = KInt) /\
        ref_answer S1 m = Some r /\ x = enc (t_kind t) r /\ st1 = sweepS S1 (new_pools (t_kind t) (t_st t) r)) \/
     (exists a us, t_main t = None /\ t_kind t = KEach a /\ ref_chain (a_forest S1) a = Some us /\
        x = CoreOps.RInts (chain_types us) /\ st1 = sweepS S1 (t_st t))).
Proof.
  unfold stepQ, declared. split.
  - destruct (tr (sview S) st o) as [t|]; [|done]. cbn zeta. intros E. exists t. split; [done|].
    destruct (t_main t) as [m|].
    + destruct (t_kind t) eqn:Ek; try done;
        (destruct (ref_answer _ m) as [r|] eqn:Er; [|done]); injection E as <- <- <-;
        (split; [done|]); left; exists m, r; split_and!; auto.
    + destruct (t_kind t) as [| | | | | |a] eqn:Ek; try done.
      destruct (ref_chain _ a) as [us|] eqn:Ec; [|done]. injection E as <- <- <-. split; [done|].
      right. exists a, us. by split_and!.
  - intros (t & -> & -> & [(m & r & -> & Hk & Hr & -> & ->)|(a & us & -> & -> & Hc & -> & ->)]); cbn zeta.
    + rewrite Hr. by destruct Hk as [->|[->| ->]].
    + by rewrite Hc.
Qed.
