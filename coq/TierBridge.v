(** TierBridge.v — the Tier-B presupposition (DESIGN 5.6) as ONE theorem, and its non-vacuity.

    DESIGN 5.6: the JSON Patch / Merge Patch utilities are modelled at VALUE level (PatchDefs.v, MergeDefs.v:
    [Tree.node] with ordered member lists — "Tier B") and PRESUPPOSE that the primitives they call, which in
    C operate on the pointer-linked heap, behave like list functions.  The heap-level theorems ("Tier A":
    C06 = Properties_C06.v for the core API, C19 = Properties_C19.v for sort_object, C11 for
    cJSON_Duplicate) prove that the C primitives refine the forest-level list model [CoreSpec.spec_*] /
    [SortDefs.sort_spec] / [copy_of].  [tier_b_presupposition] below is the remaining side of the triangle:
    for every primitive call that the value-level [apply_patch] / [merge_patch] / [create_patches] /
    [generate_merge_patch] models make ([detach_path_uses], [finish_add_uses], [compose_patch_uses] of
    TierBridgeLemmas.v show which ones those are; MergeDefs.v names them), the value-level function applied
    to the reified container equals the reification of what the forest-level model — hence, by C06 / C19 /
    C11, the C code on a well-formed heap — produces.

    CONSEQUENCE.  The Tier-B theorems (C16: apply_patch conforms to RFC 6902; C17: generate/apply round
    trip; C18: merge patch conforms to RFC 7396) are statements about the heap-level code on well-formed
    documents, MODULO the control flow of the utilities themselves (which primitive is called with which
    argument, in which order): that control flow is transliterated, not verified against the heap, and stays
    tied to the C code by the differential run of tools/props/C16..C18.py.

    Utils' OWN pointer surgery.  JSON Patch detaches / inserts array elements with [detach_item_from_array] /
    [insert_item_in_array] of cJSON_Utils.c, which C06 does not speak about.  TierBridgeUtilsDefs.v
    transliterates them on the heap; TierBridgeUtils.v proves that on a well-formed heap they compute what
    cJSON_DetachItemFromArray / cJSON_InsertItemInArray compute (the latter for an index within
    0..length; past the end the Utils function refuses and touches nothing); clauses 15-17 below are their
    refinement of the forest model, clauses 8-9 the agreement of the list functions.  What remains
    presupposed: [overwrite_item] (replacement of the document root in place: frees the root's strings and
    children, then memcpy) — no forest-level model of it exists.

    END TO END.  TierBridgeEndToEnd.v / TierBridgeEndToEndStr.v compose each clause with its C06 / C19 / Utils
    simulation lemma: heap-level code on [WF h F] ↦ value-level primitive on the reified container, with no
    [spec_*] left in the statement (clause 13 below is already of that form). *)
From CJ Require Import Base Dbl Heap Forest ForestLemmas CoreSpec CoreRefineDupBase CoreRefineDupTree CoreRefineDupValue.
From CJ Require Import TierBridgeDefs TierBridgeSort TierBridgeForest TierBridgeLemmas TierBridgeSortHeap.
From CJ Require Import CoreDefs CoreRefineBase TierBridgeUtilsDefs TierBridgeUtils.
From CJ Require Tree CompareDefs PointerDefs PatchDefs MergeDefs SortDefs SortSpec CoreRefineDupForest.
From CJ.gen Require Import Constants.
From stdpp Require Import gmap.
Local Open Scope Z_scope.

(** [F] forest with distinct identities ([wf_nodup] of [WF h F]); [St] string heap; [p] container node with
    data [d], children [cs]; [nb] the caller's block holding the name [s]; [x] a detached root (the item);
    [nk] the block of the owned fresh copy of the name.  Result pointers are dereferenced by
    [find_tree] / [find_root] in the forest after the call. *)
Theorem tier_b_presupposition :
  (* 1. get_object_item, both case modes (first exact / first folded match) *)
  (forall St F p d cs nb (s : bytes) (flag : bool),
     NoDup (ids F) -> find_tree p F = Some (T p d cs) -> St !! nb = Some s ->
     snd <$> CompareDefs.get_object_item (reify St (T p d cs)) (Some (cstr s)) flag =
     reify St <$> (spec_get_key St F (Some p) (Some nb) flag ≫= fun x => find_tree x F)) /\
  (* 2. get_array_item / cJSON_GetArrayItem *)
  (forall St F p d cs idx,
     NoDup (ids F) -> find_tree p F = Some (T p d cs) ->
     PointerDefs.nth_z (Tree.n_children (reify St (T p d cs))) idx =
     reify St <$> (spec_get_array_item F (Some p) idx ≫= fun x => find_tree x F)) /\
  (* 3. cJSON_GetArraySize *)
  (forall St F p d cs,
     find_tree p F = Some (T p d cs) -> spec_get_size F (Some p) = v_array_size (reify St (T p d cs))) /\
  (* 4. cJSON_DetachItemFromObject[CaseSensitive]: as MergeDefs.v and as PatchDefs.detach_path call it *)
  (forall St F p d cs nb (s : bytes) (flag : bool),
     NoDup (ids F) -> find_tree p F = Some (T p d cs) -> St !! nb = Some s ->
     let '(F', r) := spec_detach_key St F (Some p) (Some nb) flag in
     let '(item, obj') := MergeDefs.mp_DetachItemFromObject (reify St (T p d cs)) (Some (cstr s)) flag in
     reify St <$> find_tree p F' = Some obj' /\
     reify St <$> (r ≫= fun x => find_root x F') = item /\
     (r = None -> F' = F)) /\
  (forall St F p d cs nb (s : bytes) (flag : bool),
     NoDup (ids F) -> find_tree p F = Some (T p d cs) -> St !! nb = Some s ->
     let '(F', r) := spec_detach_key St F (Some p) (Some nb) flag in
     match v_detach_from_object (reify St (T p d cs)) (cstr s) flag with
     | Some (item, obj') =>
         reify St <$> find_tree p F' = Some obj' /\ reify St <$> (r ≫= fun x => find_root x F') = Some item
     | None => F' = F /\ r = None
     end) /\
  (* 5. cJSON_DeleteItemFromObject[CaseSensitive]: MergeDefs.v; PatchDefs.finish_add *)
  (forall St F p d cs nb (s : bytes) (flag : bool),
     NoDup (ids F) -> find_tree p F = Some (T p d cs) -> St !! nb = Some s ->
     reify St <$> find_tree p (spec_delete_key St F (Some p) (Some nb) flag) =
       Some (MergeDefs.mp_DeleteItemFromObject (reify St (T p d cs)) (Some (cstr s)) flag) /\
     MergeDefs.mp_DeleteItemFromObject (reify St (T p d cs)) (Some (cstr s)) flag =
       v_delete_from_object (reify St (T p d cs)) (cstr s) flag) /\
  (* 6. cJSON_AddItemToObject: owned fresh copy [nk] of the name, appended at the END, StringIsConst cleared *)
  (forall St F p x d dx cs csx sb nk (s' : bytes),
     NoDup (ids F) -> p <> x -> find_root x F = Some (T x dx csx) ->
     find_tree p (remove_root x F) = Some (T p d cs) -> St !! nk = Some s' ->
     spec_add_to_object F (Some p) (Some sb) (Some x) false (Some nk) =
       (set_children p (cs ++ [T x (rd_owned_key dx nk) csx]) (remove_root x F), true) /\
     reify St <$> find_tree p (spec_add_to_object F (Some p) (Some sb) (Some x) false (Some nk)).1 =
       Some (v_add_to_object (reify St (T p d cs)) (cstr s') (reify St (T x dx csx))) /\
     v_add_to_object (reify St (T p d cs)) (cstr s') (reify St (T x dx csx)) =
       MergeDefs.mp_AddItemToObject (reify St (T p d cs)) (Some (cstr s')) (Some (reify St (T x dx csx)))) /\
  (* 7. cJSON_AddItemToArray *)
  (forall St F p x d dx cs csx,
     p <> x -> find_root x F = Some (T x dx csx) -> find_tree p (remove_root x F) = Some (T p d cs) ->
     spec_add_to_array F (Some p) (Some x) = (set_children p (cs ++ [T x dx csx]) (remove_root x F), true) /\
     reify St <$> find_tree p (spec_add_to_array F (Some p) (Some x)).1 =
       Some (v_add_to_array (reify St (T p d cs)) (reify St (T x dx csx)))) /\
  (* 8. detach array element by index: core cJSON_DetachItemFromArray on the forest, Utils' own
        detach_item_from_array at value level (D1: the same list function) *)
  (forall St F p d cs idx,
     NoDup (ids F) -> find_tree p F = Some (T p d cs) ->
     let '(F', r) := spec_detach_index F (Some p) idx in
     match v_detach_from_array (reify St (T p d cs)) idx with
     | Some (item, obj') =>
         reify St <$> find_tree p F' = Some obj' /\ reify St <$> (r ≫= fun x => find_root x F') = Some item
     | None => F' = F /\ r = None
     end) /\
  (* 9. insert into array: core cJSON_InsertItemInArray (appends past the end) vs Utils' own
        insert_item_in_array (refuses past the end); equal for 0 <= which <= length (D1) *)
  (forall St F p x d dx cs csx which,
     NoDup (ids F) -> p <> x -> find_root x F = Some (T x dx csx) ->
     find_tree p (remove_root x F) = Some (T p d cs) ->
     (0 <= which ->
        reify St <$> find_tree p (spec_insert F (Some p) which (Some x)).1 =
          Some (v_core_insert_in_array (reify St (T p d cs)) which (reify St (T x dx csx)))) /\
     (0 <= which <= Z.of_nat (length cs) ->
        reify St <$> find_tree p (spec_insert F (Some p) which (Some x)).1 =
          v_insert_in_array (reify St (T p d cs)) which (reify St (T x dx csx))) /\
     (Z.of_nat (length cs) < which ->
        v_insert_in_array (reify St (T p d cs)) which (reify St (T x dx csx)) = None /\
        reify St <$> find_tree p (spec_insert F (Some p) which (Some x)).1 =
          Some (v_add_to_array (reify St (T p d cs)) (reify St (T x dx csx))))) /\
  (* 10. cJSON_ReplaceItemInObject[CaseSensitive] (no Tier-B model calls it) *)
  (forall St F p x d dx cs csx sb nk (s' : bytes) (flag : bool),
     NoDup (ids F) -> p <> x -> find_root x F = Some (T x dx csx) ->
     find_tree p (remove_root x F) = Some (T p d cs) -> St !! nk = Some s' ->
     match v_replace_in_object (reify St (T p d cs)) (cstr s') (reify St (T x dx csx)) flag with
     | Some obj' =>
         reify St <$> find_tree p (spec_replace_key St F (Some p) (Some sb) (Some x) flag (Some nk)).1 = Some obj'
     | None => (spec_replace_key St F (Some p) (Some sb) (Some x) flag (Some nk)).2 = false
     end) /\
  (* 11. cJSON_Duplicate(item, 1): [copy_of h t tc] is what C11 proves about the heap-level copy *)
  (forall h t tc,
     copy_of h t tc ->
     (forall v, PatchDefs.cJSON_Duplicate (reify (h_str h) t) = Some v -> v = reify (h_str h) tc) /\
     (forall v, MergeDefs.mp_Duplicate (Some (reify (h_str h) t)) = Some v -> v = reify (h_str h) tc) /\
     ((CoreRefineDupForest.height t <= Z.to_nat c_CJSON_CIRCULAR_LIMIT)%nat ->
        PatchDefs.cJSON_Duplicate (reify (h_str h) t) = Some (reify (h_str h) tc) /\
        MergeDefs.mp_Duplicate (Some (reify (h_str h) t)) = Some (reify (h_str h) tc))) /\
  (* 12. sort_object: C19 gives the children identities [map fst (sort_spec …)] after the heap-level
         call; the same member subtrees in that order reify to what BOTH value-level sorts return *)
  (forall St F p d cs (flag : bool) cs',
     NoDup (ids F) -> find_tree p F = Some (T p d cs) -> Forall (has_key St) cs ->
     cs' ≡ₚ cs -> tid <$> cs' = map fst (SortDefs.sort_spec flag (member_pairs St cs)) ->
     cs' = sort_children St flag cs /\
     PatchDefs.sort_object (reify St (T p d cs)) flag = Ok (reify St (T p d cs')) /\
     MergeDefs.mp_sort_object (reify St (T p d cs)) flag = Ok (reify St (T p d cs')) /\
     MergeDefs.mp_sort_members flag (Tree.n_children (reify St (T p d cs))) = Ok (map (reify St) cs') /\
     PatchDefs.sort_list (S (length (Tree.n_children (reify St (T p d cs))))) (Tree.n_children (reify St (T p d cs))) flag =
       Ok (map (reify St) cs') /\
     reify St <$> find_tree p (set_children p cs' F) = Some (reify St (T p d cs'))) /\
  (* 13. … and the heap-level call itself, from the C06 invariant: runs, re-establishes [WF] for the
         forest with the sorted members, whose reification is the value-level result *)
  (forall h F o d cs (flag : bool) (fuel : nat),
     WF h F -> KeysReadable h F -> find_tree o F = Some (T o d cs) -> is_ref d = false ->
     Forall (has_key (h_str h)) cs -> (SortDefs.sort_fuel (length cs) <= fuel)%nat ->
     let cs' := sort_children (h_str h) flag cs in
     exists h',
       SortDefs.sort_object fuel (Some o) flag h = Ret (tt, h') /\
       WF h' (set_children o cs' F) /\
       h_str h' = h_str h /\ h_live h' = h_live h /\ h_own h' = h_own h /\ h_next h' = h_next h /\
       h_trace h' = h_trace h /\
       PatchDefs.sort_object (reify (h_str h) (T o d cs)) flag = Ok (reify (h_str h') (T o d cs')) /\
       MergeDefs.mp_sort_object (reify (h_str h) (T o d cs)) flag = Ok (reify (h_str h') (T o d cs')) /\
       reify (h_str h') <$> find_tree o (set_children o cs' F) = Some (reify (h_str h') (T o d cs'))) /\
  (* 14. constructors *)
  (forall St id ty, reify St (T id (mkRD ty None 0 dzero None None) []) = MergeDefs.mp_new_item ty) /\
  (forall St id b (s : bytes), St !! b = Some (s ++ [0]) -> SortSpec.zfree s ->
     reify St (T id (mkRD c_cJSON_String (Some b) 0 dzero None None) []) = PatchDefs.create_string s) /\
  (* 15. Utils' own detach_item_from_array on the heap: refines the forest model of the core function
         (clause 8 then gives the value-level reading) *)
  (forall h F p d cs which,
     WF h F -> find_tree p F = Some (T p d cs) -> is_ref d = false -> 0 <= which ->
     detach_item_from_array (Some p) which h = cJSON_DetachItemFromArray (Some p) which h /\
     match cs !! Z.to_nat which with
     | Some tx =>
         let F' := set_children p (delete (Z.to_nat which) cs) F ++ [tx] in
         spec_detach_index F (Some p) which = (F', Some (tid tx)) /\
         detach_item_from_array (Some p) which h = Ret (Some (tid tx), upd_maps h (heap_lnk_of F') (heap_dat_of F')) /\
         WF (upd_maps h (heap_lnk_of F') (heap_dat_of F')) F'
     | None =>
         spec_detach_index F (Some p) which = (F, None) /\ detach_item_from_array (Some p) which h = Ret (None, h)
     end) /\
  (* 16. Utils' own insert_item_in_array on the heap, index within 0..length: as the core function *)
  (forall h F p x tx d cs which,
     WF h F -> p <> x -> find_root x F = Some tx -> find_tree p (remove_root x F) = Some (T p d cs) ->
     is_ref d = false -> 0 <= which <= Z.of_nat (length cs) ->
     let F' := set_children p (if (Z.to_nat which <? length cs)%nat then insert_at (Z.to_nat which) tx cs else cs ++ [tx])
                 (remove_root x F) in
     insert_item_in_array (Some p) which (Some x) h = cJSON_InsertItemInArray (Some p) which (Some x) h /\
     spec_insert F (Some p) which (Some x) = (F', true) /\
     insert_item_in_array (Some p) which (Some x) h = Ret (true, upd_maps h (heap_lnk_of F') (heap_dat_of F')) /\
     WF (upd_maps h (heap_lnk_of F') (heap_dat_of F')) F') /\
  (* 17. … and past the end it refuses and touches nothing (the core function appends) *)
  (forall h F p x tx d cs which,
     WF h F -> p <> x -> find_root x F = Some tx -> find_tree p (remove_root x F) = Some (T p d cs) ->
     is_ref d = false -> Z.of_nat (length cs) < which ->
     insert_item_in_array (Some p) which (Some x) h = Ret (false, h) /\
     (spec_insert F (Some p) which (Some x)).2 = true).
Proof.
  split_and!.
  - intros. by eapply bridge_get_key_commutes.
  - intros. by eapply bridge_get_index_commutes.
  - intros. by eapply bridge_get_size.
  - intros. by eapply bridge_detach_key.
  - intros. by eapply bridge_detach_key_patch.
  - intros. by eapply bridge_delete_key.
  - intros. by eapply bridge_add_to_object.
  - intros. by eapply bridge_add_to_array.
  - intros. by eapply bridge_detach_index.
  - intros St F p x d dx cs csx which ND Hne Hx Hp. split_and!.
    + intros Hw. by eapply bridge_core_insert.
    + intros Hw. by eapply bridge_insert_in_range.
    + intros Hw. destruct (insert_past_end_differs St F p x d dx cs csx ND Hne Hx Hp which Hw) as (H1 & _ & H3). done.
  - intros St F p x d dx cs csx sb nk s' flag ND Hne Hx Hp Hs.
    exact (proj2 (bridge_replace_key St F p x d dx cs csx ND Hne Hx Hp sb nk s' flag Hs)).
  - intros. by apply bridge_duplicate.
  - intros. by eapply bridge_sort.
  - intros. by eapply sort_object_forest.
  - intros. apply bridge_create_typed.
  - intros. by apply bridge_create_string.
  - intros h F p d cs which W Hp Href Hw. split; [by eapply u_detach_eq_core|].
    destruct (cs !! Z.to_nat which) as [tx|] eqn:E.
    + by apply (u_detach_sim h F p d cs which tx).
    + by apply (u_detach_refused h F p d cs which).
  - intros h F p x tx d cs which W Hpx Hx Hp Href Hw. cbv zeta.
    split; [by eapply u_insert_eq_core|].
    destruct (Nat.ltb_spec (Z.to_nat which) (length cs)) as [Hl|Hl].
    + apply (u_insert_sim_before h F p x tx d cs W Hpx Hx Hp Href which); [lia|done].
    + apply (u_insert_sim_append h F p x tx d cs W Hpx Hx Hp Href which). lia.
  - intros h F p x tx d cs which W Hpx Hx Hp Href Hw. by apply (u_insert_refused h F p x tx d cs).
Qed.

(** * Non-vacuity: the forest [ex_F] of TierBridgeDefs.v
        root 1 = {"a":1, "A":2, "b":[10,20]}  (members 2 3 4, array elements 5 6),  root 7 = detached number 3
    satisfies the hypotheses, and every primitive evaluates on both sides (by [vm_compute]) to the
    values stated — in particular the case-colliding pair "a" / "A" separates the two lookup modes. *)
Definition m2 : tree := ex_num 2 1 (Some 101%positive).
Definition m3 : tree := ex_num 3 2 (Some 102%positive).
Definition ex_o : Tree.node := reify ex_St ex_obj.
Definition ex_i : Tree.node := reify ex_St ex_item.
Definition ex_a : Tree.node := reify ex_St ex_arr.
(** the item after add_item_to_object / replace_item_in_object gave it the owned key block 120 ("A") *)
Definition ex_item_keyed : tree := T 7 (rd_owned_key (tdata ex_item) 120) [].

Lemma ex_hypotheses :
  NoDup (ids ex_F) /\ find_tree 1%positive ex_F = Some ex_obj /\ find_root 7%positive ex_F = Some ex_item /\
  find_tree 1%positive (remove_root 7%positive ex_F) = Some ex_obj /\
  find_tree 4%positive (remove_root 7%positive ex_F) = Some ex_arr /\ find_tree 4%positive ex_F = Some ex_arr /\
  Forall (has_key ex_St) ex_members /\
  ex_St !! 110%positive = Some [97; 0] /\ ex_St !! 111%positive = Some [65; 0] /\ ex_St !! 112%positive = Some [122; 122; 0] /\
  ex_St !! 120%positive = Some [65; 0].
Proof.
  split_and!; try (vm_compute; reflexivity).
  - apply (bool_decide_unpack _). vm_compute. exact I.
  - repeat constructor; eexists; vm_compute; reflexivity.
Qed.

(** lookups: "A" case-sensitively is member 3 at index 1; case-insensitively it is member 2 ("a", the FIRST
    folded match) at index 0; "zz" is not found *)
Lemma ex_lookup :
  spec_get_key ex_St ex_F (Some 1%positive) (Some 111%positive) true = Some 3%positive /\
  CompareDefs.get_object_item ex_o (Some [65]) true = Some (1%nat, reify ex_St m3) /\
  spec_get_key ex_St ex_F (Some 1%positive) (Some 111%positive) false = Some 2%positive /\
  CompareDefs.get_object_item ex_o (Some [65]) false = Some (0%nat, reify ex_St m2) /\
  spec_get_key ex_St ex_F (Some 1%positive) (Some 112%positive) false = None /\
  CompareDefs.get_object_item ex_o (Some [122; 122]) false = None /\
  spec_get_array_item ex_F (Some 1%positive) 2 = Some 4%positive /\
  PointerDefs.nth_z (Tree.n_children ex_o) 2 = Some ex_a /\
  spec_get_array_item ex_F (Some 1%positive) 3 = None /\ PointerDefs.nth_z (Tree.n_children ex_o) 3 = None /\
  spec_get_size ex_F (Some 1%positive) = 3 /\ v_array_size ex_o = 3.
Proof. split_and!; vm_compute; reflexivity. Qed.

(** detach "A" case-insensitively takes "a" (member 2) out; delete "A" case-sensitively removes member 3 *)
Lemma ex_detach_delete :
  spec_detach_key ex_St ex_F (Some 1%positive) (Some 111%positive) false =
    ([T 1 ex_objd [m3; ex_arr]; ex_item; m2], Some 2%positive) /\
  MergeDefs.mp_DetachItemFromObject ex_o (Some [65]) false =
    (Some (reify ex_St m2), reify ex_St (T 1 ex_objd [m3; ex_arr])) /\
  v_detach_from_object ex_o [65] false = Some (reify ex_St m2, reify ex_St (T 1 ex_objd [m3; ex_arr])) /\
  spec_delete_key ex_St ex_F (Some 1%positive) (Some 111%positive) true = [T 1 ex_objd [m2; ex_arr]; ex_item] /\
  MergeDefs.mp_DeleteItemFromObject ex_o (Some [65]) true = reify ex_St (T 1 ex_objd [m2; ex_arr]) /\
  v_delete_from_object ex_o [65] true = reify ex_St (T 1 ex_objd [m2; ex_arr]) /\
  spec_detach_index ex_F (Some 4%positive) 0 =
    ([T 1 ex_objd [m2; m3; T 4 (tdata ex_arr) [ex_num 6 20 None]]; ex_item; ex_num 5 10 None], Some 5%positive) /\
  v_detach_from_array ex_a 0 =
    Some (reify ex_St (ex_num 5 10 None), reify ex_St (T 4 (tdata ex_arr) [ex_num 6 20 None])).
Proof. split_and!; vm_compute; reflexivity. Qed.

(** add the detached item under the key "A" (owned copy in block 120): appended at the end; add / insert it
    into the array; insertion past the end: the core function appends, the Utils function refuses *)
Lemma ex_add_insert :
  spec_add_to_object ex_F (Some 1%positive) (Some 111%positive) (Some 7%positive) false (Some 120%positive) =
    ([T 1 ex_objd [m2; m3; ex_arr; ex_item_keyed]], true) /\
  v_add_to_object ex_o [65] ex_i = reify ex_St (T 1 ex_objd [m2; m3; ex_arr; ex_item_keyed]) /\
  MergeDefs.mp_AddItemToObject ex_o (Some [65]) (Some ex_i) = reify ex_St (T 1 ex_objd [m2; m3; ex_arr; ex_item_keyed]) /\
  spec_add_to_array ex_F (Some 4%positive) (Some 7%positive) =
    ([T 1 ex_objd [m2; m3; T 4 (tdata ex_arr) [ex_num 5 10 None; ex_num 6 20 None; ex_item]]], true) /\
  v_add_to_array ex_a ex_i = reify ex_St (T 4 (tdata ex_arr) [ex_num 5 10 None; ex_num 6 20 None; ex_item]) /\
  spec_insert ex_F (Some 4%positive) 1 (Some 7%positive) =
    ([T 1 ex_objd [m2; m3; T 4 (tdata ex_arr) [ex_num 5 10 None; ex_item; ex_num 6 20 None]]], true) /\
  v_insert_in_array ex_a 1 ex_i = Some (reify ex_St (T 4 (tdata ex_arr) [ex_num 5 10 None; ex_item; ex_num 6 20 None])) /\
  spec_insert ex_F (Some 4%positive) 5 (Some 7%positive) =
    ([T 1 ex_objd [m2; m3; T 4 (tdata ex_arr) [ex_num 5 10 None; ex_num 6 20 None; ex_item]]], true) /\
  v_insert_in_array ex_a 5 ex_i = None.
Proof. split_and!; vm_compute; reflexivity. Qed.

(** replace "A" case-insensitively: the member found BY THE COPY is "a" (member 2); the replacement carries
    the key "A" *)
Lemma ex_replace :
  spec_replace_key ex_St ex_F (Some 1%positive) (Some 111%positive) (Some 7%positive) false (Some 120%positive) =
    ([T 1 ex_objd [ex_item_keyed; m3; ex_arr]], true) /\
  v_replace_in_object ex_o [65] ex_i false = Some (reify ex_St (T 1 ex_objd [ex_item_keyed; m3; ex_arr])).
Proof. split_and!; vm_compute; reflexivity. Qed.

(** sort: case-sensitively "A" < "a" < "b" (members 3 2 4); case-insensitively "a" and "A" tie and keep
    their order (2 3 4); the three sorts agree *)
Lemma ex_sort :
  map fst (SortDefs.sort_spec true (member_pairs ex_St ex_members)) = [3; 2; 4]%positive /\
  tid <$> sort_children ex_St true ex_members = [3; 2; 4]%positive /\
  PatchDefs.sort_object ex_o true = Ok (reify ex_St (T 1 ex_objd [m3; m2; ex_arr])) /\
  MergeDefs.mp_sort_object ex_o true = Ok (reify ex_St (T 1 ex_objd [m3; m2; ex_arr])) /\
  map fst (SortDefs.sort_spec false (member_pairs ex_St ex_members)) = [2; 3; 4]%positive /\
  PatchDefs.sort_object ex_o false = Ok ex_o /\ MergeDefs.mp_sort_object ex_o false = Ok ex_o.
Proof. split_and!; vm_compute; reflexivity. Qed.

(** duplicate: a heap in which member 2 (key block 101 "a") has the copy 200 with the fresh key block 201 *)
Definition ex_h : heap :=
  mkHeap ∅ ∅ (<[201%positive := [97; 0]]> ex_St) ∅ {[101%positive; 201%positive]} 1%positive 0 default_hooks [].
Definition ex_copy : tree := T 200 (mkRD c_cJSON_Number None 1 (dbl_of_int 1) (Some 201%positive) None) [].
Lemma ex_duplicate :
  copy_of ex_h m2 ex_copy /\
  PatchDefs.cJSON_Duplicate (reify (h_str ex_h) m2) = Some (reify (h_str ex_h) ex_copy) /\
  MergeDefs.mp_Duplicate (Some (reify (h_str ex_h) m2)) = Some (reify (h_str ex_h) ex_copy).
Proof.
  split_and!; [|vm_compute; reflexivity..].
  unfold m2, ex_copy, ex_num. rewrite copy_of_unfold. split; [|done].
  split_and!; try (vm_compute; reflexivity).
  cbn [rd_key]. replace (is_const _) with false by (vm_compute; reflexivity).
  exists 201%positive. split; [reflexivity|]. exists [97; 0]. split; (split; [set_solver|vm_compute; reflexivity]).
Qed.

(** * Non-vacuity at heap level: a heap that encodes [ex_F] (the canonical link and data maps of the forest,
      the string heap [ex_St], every node and key block live and owned by the library, the three name
      blocks live), so that the hypotheses [WF], [KeysReadable] of clauses 13, 15-17 and of the end-to-end
      theorems (TierBridgeEndToEnd.v, TierBridgeEndToEndStr.v) hold; the Utils functions run on it *)
Local Instance tb_ptr_eq_dec : EqDecision ptr.
Proof. unfold ptr. apply _. Defined.
Local Instance tb_spec_float_eq_dec : EqDecision SpecFloat.spec_float.
Proof. solve_decision. Defined.
Local Instance tb_ndata_eq_dec : EqDecision ndata.
Proof. solve_decision. Defined.
Local Instance tb_rdata_eq_dec : EqDecision rdata.
Proof. solve_decision. Defined.
Ltac tb_dec := apply (bool_decide_unpack _); vm_compute; exact I.

Definition ex_heap : heap :=
  mkHeap (heap_lnk_of ex_F) (heap_dat_of ex_F) ex_St
         (list_to_map ((fun b => (b, Lib)) <$> owned ex_F))
         (list_to_set (owned ex_F ++ [110; 111; 112]%positive))
         1000%positive 0 default_hooks [].

Lemma ex_heap_WF : WF ex_heap ex_F.
Proof.
  constructor.
  - tb_dec.
  - reflexivity.
  - reflexivity.
  - tb_dec.
  - apply Forall_forall. tb_dec.
  - apply Forall_forall. tb_dec.
  - apply Forall_forall. tb_dec.
  - unfold ref_ok. tb_dec.
Qed.

Lemma ex_heap_KeysReadable : KeysReadable ex_heap ex_F.
Proof.
  intros n b Hn. revert b. revert n Hn.
  apply (proj1 (Forall_forall (fun n : fnode => forall b, rd_key (fn_data n) = Some b ->
           b ∈ h_live ex_heap /\ exists s : bytes, h_str ex_heap !! b = Some s /\ existsb (Z.eqb 0) s = true) (flat ex_F))).
  let l := eval vm_compute in (flat ex_F) in change (flat ex_F) with l.
  repeat apply List.Forall_cons; try apply List.Forall_nil;
    intros b Hb; vm_compute in Hb; try discriminate; injection Hb as <-;
    (split; [tb_dec|eexists; split; [vm_compute; reflexivity|reflexivity]]).
Qed.

Lemma ex_heap_runs :
  Forall (has_key (h_str ex_heap)) ex_members /\ is_ref ex_objd = false /\ is_ref (tdata ex_arr) = false /\
  (exists h', detach_item_from_array (Some 4%positive) 0 ex_heap = Ret (Some 5%positive, h')) /\
  detach_item_from_array (Some 4%positive) 2 ex_heap = Ret (None, ex_heap) /\
  (exists h', insert_item_in_array (Some 4%positive) 1 (Some 7%positive) ex_heap = Ret (true, h')) /\
  insert_item_in_array (Some 4%positive) 5 (Some 7%positive) ex_heap = Ret (false, ex_heap) /\
  (exists h', cJSON_InsertItemInArray (Some 4%positive) 5 (Some 7%positive) ex_heap = Ret (true, h')) /\
  (exists h', SortDefs.sort_object (SortDefs.sort_fuel 3) (Some 1%positive) true ex_heap = Ret (tt, h')).
Proof.
  split_and!; try (vm_compute; reflexivity); try (eexists; vm_compute; reflexivity).
  apply (proj1 (proj2 (proj2 (proj2 (proj2 (proj2 (proj2 ex_hypotheses))))))).
Qed.
