(** GenMergeHeapCompose.v — the C18 round trip AT HEAP LEVEL: the heap-level [cJSONUtils_GenerateMergePatchCaseSensitive]
    (GenMergeHeapDefs.v) followed by the heap-level [cJSONUtils_MergePatchCaseSensitive] (MergeHeapDefs.v) applied
    to [from] — as generation leaves it: the same nodes, members sorted — with the generated patch yields a
    document equal ([doc_eq]) to [to].  The two refinement theorems ([generate_refines],
    [MergeHeapProofs.merge_patch_refines] = C18_heap_refines) transport the value-level round trip
    ([MergeGenerate.generate_roundtrip_post], [MergeApply.apply_sim]) to the two runs. *)
From CJ Require Import Base Dbl Heap Forest ForestLemmas CoreSpec CoreDefs CoreRefineBase CoreRefine CoreRefineMore
  CoreRefineReplace CoreRefineFrame CoreRefineHistory CoreRefineDupBase CoreRefineDupValue CoreRefineDupForest CoreLedgerGen.
From CJ Require Import TierBridgeDefs TierBridgeForest TierBridgeLemmas TierBridgeEndToEndStr.
From CJ Require Import MergeHeapDefs MergeHeapInv MergeHeapProofs MergeHeapConform
  GenMergeHeapDefs GenMergeHeapForest GenMergeHeapCompare GenMergeHeapProofs GenMergeHeapEntry.
From CJ Require Tree CompareDefs CompareProofs MergeDefs Rfc7396 MergeLemmas MergeApply MergePerm MergeGen MergeGenerate MergeTransfer MergeLibrary CoreRefineDupIndep.
From CJ.gen Require Import Constants.
From stdpp Require Import gmap.
From Coq Require Import Lia.
Local Open Scope Z_scope.

(** * the value-level document predicate gives [gdoc] *)
Lemma gd_gdoc St : forall t, MergeLemmas.gd (reify St t) -> gdoc t.
Proof.
  induction t as [i d cs IH] using tree_ind'. intros Hg.
  apply MergeLemmas.gd_eq in Hg as [Hl Hc]. rewrite reify_children in Hc. cbn [tchildren] in Hc.
  destruct Hl as (_ & _ & Hs & Ho). rewrite reify_unfold in Hs, Ho. cbn [Tree.n_ty Tree.n_vstr Tree.n_children] in Hs, Ho.
  apply gdoc_intro.
  - split; cbn [tdata tchildren].
    + intros Eo c Hc'. destruct (Ho Eo) as [Hk _]. rewrite List.Forall_forall in Hk.
      destruct (Hk (reify St c)) as (k & Ek & _); [apply in_map; by apply elem_of_list_In|].
      rewrite reify_key in Ek. unfold key_string in Ek. intros E. by rewrite E in Ek.
    + intros Es. destruct (Hs Es) as (s & E & _). intros E'. by rewrite E' in E.
  - intros c Hc'. rewrite Forall_forall in IH. apply (IH c Hc'). rewrite List.Forall_forall in Hc.
    apply Hc. apply in_map. by apply elem_of_list_In.
Qed.

Lemma depth_ok_height' St t : MergeApply.depth_ok (reify St t) -> (height t <= LIMIT)%nat.
Proof. unfold MergeApply.depth_ok. rewrite height_node_depth. pose proof CoreRefineDup.limit_nonneg. lia. Qed.

(** a root that is found as a node is found as a root *)
Lemma find_root_of_tree F x tx : NoDup (ids F) -> x ∈ roots F -> find_tree x F = Some tx -> find_root x F = Some tx.
Proof.
  intros ND Hr Hx. apply elem_of_list_fmap in Hr as (r & -> & Hr).
  assert (E : tx = r).
  { apply find_tree_Some in Hx as [Hn Ht]. apply (nodes_unique F tx r ND Hn (roots_in_nodes _ _ Hr) Ht). }
  subst tx. clear Hx. induction F as [|a F IH]; [by apply elem_of_nil in Hr|].
  unfold find_root. cbn [List.find]. destruct (bool_decide (tid a = tid r)) eqn:E.
  - apply bool_decide_eq_true in E. f_equal. apply (nodes_unique (a :: F) a r ND); [apply roots_in_nodes; by left|by apply roots_in_nodes|done].
  - apply elem_of_cons in Hr as [->|Hr]; [by rewrite bool_decide_eq_true_2 in E|].
    apply IH; [|done]. rewrite ids_cons in ND. by apply NoDup_app in ND as (_ & _ & ?).
Qed.

(** * generate, then apply *)
Theorem generate_then_merge h F f t tf tt :
  MInv h F -> find_root f F = Some tf -> find_tree t F = Some tt -> tdisj tf tt ->
  Rfc7396.m7396_doc (reify (h_str h) tf) = true -> Rfc7396.m7396_doc (reify (h_str h) tt) = true ->
  Rfc7396.no_null_member (reify (h_str h) tt) = true ->
  Rfc7396.m7396_depth_ok (reify (h_str h) tf) = true -> Rfc7396.m7396_depth_ok (reify (h_str h) tt) = true ->
  exists h1 F1 (res : option tree) tf' tt',
    GenMergeHeapDefs.cJSONUtils_GenerateMergePatchCaseSensitive nofail (Some f) (Some t) h = Ret (tid <$> res, h1) /\
    MInv h1 (F1 ++ opt_list res) /\ (NoLeak h F -> NoLeak h1 (F1 ++ opt_list res)) /\
    find_root f F1 = Some tf' /\ find_tree t F1 = Some tt' /\ treord tf tf' /\ treord tt tt' /\
    MergePerm.dperm (reify (h_str h) tt) (reify (h_str h1) tt') /\
    match res with
    | None => Rfc7396.doc_eq (reify (h_str h1) tf') (reify (h_str h1) tt') = true /\
              Rfc7396.doc_eq (reify (h_str h1) tf') (reify (h_str h) tt) = true
    | Some s =>
        let G := remove_root f F1 ++ [s] in
        exists h2 ty,
          MergeHeapDefs.cJSONUtils_MergePatchCaseSensitive nofail (Some f) (Some (tid s)) h1 = Ret (Some (tid ty), h2) /\
          MInv h2 (G ++ [ty]) /\ (NoLeak h F -> NoLeak h2 (G ++ [ty])) /\
          find_root (tid ty) (G ++ [ty]) = Some ty /\
          find_tree t (G ++ [ty]) = Some tt' /\ reify (h_str h2) tt' = reify (h_str h1) tt' /\
          Rfc7396.doc_eq (reify (h_str h2) ty) (reify (h_str h1) tt') = true /\
          Rfc7396.doc_eq (reify (h_str h2) ty) (reify (h_str h) tt) = true
    end.
Proof.
  intros I Hfr Ht Hdis Df Dt Hnn Hdf Hdt. pose proof (mi_wf _ _ I) as W. pose proof (wf_nodup _ _ W) as ND.
  pose proof Hfr as Hfr0. apply find_root_Some in Hfr0 as [HfF Etf].
  assert (Hf : find_tree f F = Some tf) by (apply find_tree_unique; [done|by apply roots_in_nodes|done]).
  pose proof (MergeLemmas.m7396_doc_gd _ Df) as Gdf. pose proof (MergeLemmas.m7396_doc_gd _ Dt) as Gdt.
  destruct (generate_refines true h F f t tf tt I Hf Ht Hdis (gd_gdoc _ _ Gdf) (gd_gdoc _ _ Gdt) (depth_ok_height _ _ Hdt))
    as (h1 & F1 & res & tf' & tt' & Hrun1 & I1 & Fr & Hf1 & Ht1 & Rf & Rt & V1 & NL1 & K1).
  destruct (MergeGenerate.generate_roundtrip_post _ _ _ _ _ Df Dt Hnn Hdt V1) as (fv' & tv' & Ef' & Et' & Dpf & Dpt & Hrt).
  injection Ef' as <-. injection Et' as <-.
  pose proof (mi_wf _ _ I1) as W1. pose proof (nodup_ids_l _ _ _ W1) as ND1.
  assert (Hfr1 : find_root f F1 = Some tf').
  { apply find_root_of_tree; [done| |done]. rewrite (fr_roots _ _ _ Fr). rewrite <- Etf. apply elem_of_list_fmap. by exists tf. }
  exists h1, F1, res, tf', tt'. split; [exact Hrun1|]. split; [exact I1|]. split; [exact NL1|]. split; [exact Hfr1|]. split; [exact Ht1|].
  split; [exact Rf|]. split; [exact Rt|]. split; [exact Dpt|].
  assert (Hconv : forall a, Rfc7396.doc_eq a (reify (h_str h1) tt') = Rfc7396.doc_eq a (reify (h_str h) tt)).
  { intros a. symmetry. by apply MergeTransfer.doc_eq_dperm_r. }
  destruct res as [s|]; cbn [fmap option_fmap option_map Rfc7396.merge_opt opt_list] in *.
  2:{ split; [exact Hrt|]. by rewrite <- Hconv. }
  (* the patch as a value *)
  unfold MergeDefs.mp_GenerateMergePatch_gen in V1.
  destruct (MergeDefs.mp_generate_merge_patch (Tree.node_depth (reify (h_str h) tt)) true (reify (h_str h) tf) (reify (h_str h) tt))
    as [[[p0 f0] t0]| |] eqn:Eg; cbn [bind] in V1; try discriminate.
  injection V1 as -> -> ->.
  apply Z.leb_le in Hdf, Hdt.
  pose proof (MergeTransfer.generate_gd _ _ _ _ _ _ Eg Gdf Gdt Hnn Hdt) as Gs.
  pose proof (MergeLibrary.generate_depth true _ _ _ _ _ _ Eg Hdt) as Ls.
  assert (Ds : MergeApply.depth_ok (reify (h_str h1) s)) by (unfold MergeApply.depth_ok in *; lia).
  pose proof (MergeGen.gd_dperm _ _ Dpf Gdf) as Gdf'.
  destruct (MergeApply.apply_sim _ Gs Ds (Some (reify (h_str h1) tf')) (Some (reify (h_str h1) tf')) (MergeLemmas.sfeq_refl _) Gdf')
    as (r & Er & Sr & _).
  (* the heap-level merge_patch on [from] *)
  assert (Hsf : tid s <> f).
  { intros E. destruct (last_root_fresh _ _ _ W1) as [Hn _]. apply Hn. rewrite E, (fr_roots _ _ _ Fr), <- Etf.
    apply elem_of_list_fmap. by exists tf. }
  assert (Erest : rest_of (F1 ++ [s]) (Some tf') = remove_root f F1 ++ [s]).
  { unfold rest_of. apply find_root_Some in Hfr1 as [_ ->]. by apply CoreRefineDupIndep.remove_root_app_ne. }
  assert (Htgt : forall tx, Some tf' = Some tx -> find_root (tid tx) (F1 ++ [s]) = Some tx).
  { intros tx [= <-]. pose proof Hfr1 as H0. apply find_root_Some in H0 as [_ ->]. by apply CoreRefineDupIndep.find_root_app_l. }
  assert (NDG : NoDup (ids (remove_root f F1 ++ [s]))).
  { pose proof (root_last_perm (F1 ++ [s]) f tf' (wf_nodup _ _ W1) ltac:(by apply CoreRefineDupIndep.find_root_app_l)) as HP.
    rewrite (CoreRefineDupIndep.remove_root_app_ne F1 s f Hsf) in HP.
    pose proof (wf_nodup _ _ W1) as NDw. rewrite HP in NDw.
    rewrite ids_app in NDw. by apply NoDup_app in NDw as (? & _ & _). }
  assert (HsG : find_tree (tid s) (rest_of (F1 ++ [s]) (Some tf')) = Some s).
  { rewrite Erest. by apply find_tree_last_nd. }
  destruct (merge_patch_refines true h1 (F1 ++ [s]) (Some tf') (tid s) s I1 Htgt HsG (depth_ok_height' _ _ Ds)
              (gdoc_members_keyed _ (gd_gdoc _ _ Gs)))
    as (h2 & ty & Hrun2 & I2 & _ & _ & Hry & V2 & NL2 & K2).
  rewrite Erest in I2, Hry, NL2, K2. cbn [fmap option_fmap option_map] in Hrun2, V2.
  apply find_root_Some in Hfr1 as Hfr1'. destruct Hfr1' as [_ Etf']. rewrite Etf' in Hrun2.
  unfold MergeDefs.mp_MergePatch_gen in V2. rewrite Er in V2. injection V2 as ->.
  exists h2, ty. split; [exact Hrun2|]. split; [exact I2|]. split; [intros NL; by apply NL2, NL1|]. split; [exact Hry|].
  (* [to] is untouched by the application *)
  assert (HtG : find_tree t (remove_root f F1 ++ [s]) = Some tt').
  { apply find_tree_unique; [exact NDG| |by apply find_tree_Some in Ht1 as [_ ?]].
    apply find_tree_Some in Ht1 as [Htn Ett]. apply node_in_app_l.
    apply elem_of_nodes in Htn as (rt & Hrt' & Htn). apply elem_of_nodes. exists rt. split; [|done].
    unfold remove_root. apply elem_of_list_In, filter_In. split; [by apply elem_of_list_In|]. apply negb_true_iff, bool_decide_eq_false. intros E.
    (* the root of [to] would be [from]: then [to] is inside [from] *)
    assert (rt = tf').
    { apply find_root_Some in Hfr1 as [Hin _]. apply (nodes_unique F1 rt tf' ND1 (roots_in_nodes _ _ Hrt') (roots_in_nodes _ _ Hin)). by rewrite E, Etf'. }
    subst rt. apply (tdisj_treord _ _ _ _ Hdis Rf Rt (tid tt')); [|apply elem_of_ids_t_self].
    apply elem_of_list_fmap. by exists tt'. }
  split; [by apply find_tree_app_l|].
  assert (Ett : reify (h_str h2) tt' = reify (h_str h1) tt').
  { apply (reify_keep h1 h2 (remove_root f F1 ++ [s]) tt'); [|by apply find_tree_Some in HtG as [? _]|exact K2].
    intros e He. apply (mi_own _ _ I2). apply datas_elem_app. by left. }
  split; [exact Ett|].
  assert (Hd : Rfc7396.doc_eq (reify (h_str h2) ty) (reify (h_str h1) tt') = true).
  { rewrite (MergeLibrary.doc_eq_sfeq_l _ _ _ Sr). exact Hrt. }
  split; [exact Hd|]. by rewrite <- Hconv.
Qed.
