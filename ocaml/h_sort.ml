(* h_sort.ml — area `sort` (property C19); same protocol as harness/h_sort.inc *)
open Model
open Driver

let err_str = function
  | UAF -> "MODEL_UAF" | DoubleFree -> "MODEL_DOUBLEFREE" | ForeignFree -> "MODEL_FOREIGNFREE"
  | ForeignWrite -> "MODEL_FOREIGNWRITE" | NullDeref -> "MODEL_NULLDEREF" | BadBlock -> "MODEL_BADBLOCK"
  | OutOfBounds -> "MODEL_OOB" | NoFuel -> "MODEL_OUTOFFUEL"

let rec index_of x l i = match l with [] -> -1 | y :: r -> if x = y then i else index_of x r (i + 1)

(* list model of the follow-up edits: members are (index, key) *)
let split_colon (s : string) : string list = String.split_on_char ':' s
let rec take k l = if k <= 0 then [] else match l with [] -> [] | x :: r -> x :: take (k - 1) r
let rec drop k l = if k <= 0 then l else match l with [] -> [] | _ :: r -> drop (k - 1) r
let key_is (k : z list) (m : int * z list option) = match snd m with Some k' -> k' = k | None -> false
let rec find_first p l i = match l with [] -> None | x :: r -> if p x then Some (i, x) else find_first p r (i + 1)

(* sortobj <cs> <tree> <ops...> *)
let h_sortobj (a : string array) : string =
  let cs = a.(1) = "1" || a.(1) = "3" in   (* 2 / 3: same call with a starved allocator on the implementation side; the model sorts without memory *)
  let pos = ref 2 in
  let root = parse_node a pos in
  match run_sort_case cs root with
  | Err e -> err_str e
  | Ret r ->
      let Node (_, _, _, _, _, ch) = root in
      let keys = Array.of_list (List.map (fun (Node (_, _, _, _, k, _)) -> k) ch) in
      let idx id = index_of id r.sr_before 0 in
      let seqk l = String.concat "," (List.map (fun id -> let i = idx id in
                     string_of_int i ^ ":" ^ (if i >= 0 && i < Array.length keys then hex_of_opt keys.(i) else "?")) l) in
      let b = Buffer.create 256 in
      Buffer.add_string b ("ord=" ^ seqk r.sr_after ^ " H=" ^ (if r.sr_healthy then "1" else "0"));
      Buffer.add_string b (" T " ^ dump_node r.sr_tree ^ " ET");
      Buffer.add_string b (" ord2=" ^ seqk r.sr_after2 ^ " H2=" ^ (if r.sr_healthy2 then "1" else "0"));
      (* follow-ups on the list model *)
      let cur = ref (List.map (fun id -> let i = idx id in (i, (if i >= 0 && i < Array.length keys then keys.(i) else None))) r.sr_after2) in
      let nids = ref (Array.length keys) in
      let fresh () = let i = !nids in incr nids; i in
      for i = !pos to Array.length a - 1 do
        let op = a.(i) in
        let parts = split_colon op in
        let name = List.hd parts in
        let arg k = List.nth parts k in
        let res =
          (match name with
           | "app" -> let it = fresh () in cur := !cur @ [(it, Some (bytes_of_hex (arg 1)))]; "1"
           | "ins" ->
               let it = fresh () in let w = int_of_string (arg 1) in let k = Some (bytes_of_hex (arg 2)) in
               if w < 0 then "0"
               else if w >= List.length !cur then (cur := !cur @ [(it, k)]; "1")
               else (cur := take w !cur @ [(it, k)] @ drop w !cur; "1")
           | "det" | "detl" ->
               let w = if name = "detl" then List.length !cur - 1 else int_of_string (arg 1) in
               if w < 0 || w >= List.length !cur then "-"
               else (let (d, _) = List.nth !cur w in cur := take w !cur @ drop (w + 1) !cur; string_of_int d)
           | "detk" ->
               (match find_first (key_is (bytes_of_hex (arg 1))) !cur 0 with
                | None -> "-"
                | Some (w, (d, _)) -> cur := take w !cur @ drop (w + 1) !cur; string_of_int d)
           | "rep" ->
               let it = fresh () in let w = int_of_string (arg 1) in let k = Some (bytes_of_hex (arg 2)) in
               if w < 0 || w >= List.length !cur then "0"
               else (cur := take w !cur @ [(it, k)] @ drop (w + 1) !cur; "1")
           | "repk" ->
               let it = fresh () in let k = bytes_of_hex (arg 1) in
               (match find_first (key_is k) !cur 0 with
                | None -> "0"
                | Some (w, _) -> cur := take w !cur @ [(it, Some k)] @ drop (w + 1) !cur; "1")
           | "get" ->
               (match find_first (key_is (bytes_of_hex (arg 1))) !cur 0 with
                | None -> "-" | Some (_, (d, _)) -> string_of_int d)
           | "size" -> string_of_int (List.length !cur)
           | "sort" ->
               let l = List.map (fun (i, k) -> (pos_of_int (i + 1), (match k with Some s -> s | None -> []))) !cur in
               let s = sort_spec cs l in
               cur := List.map (fun (p, _) -> let i = int_of_pos p - 1 in List.find (fun (j, _) -> j = i) !cur) s; "0"
           | "print" -> "0"
           | _ -> "BADOP") in
        Buffer.add_string b (" " ^ op ^ ">" ^ res ^ ";" ^ String.concat "," (List.map (fun (i, _) -> string_of_int i) !cur) ^ ";1")
      done;
      Buffer.contents b ^ (if Array.exists (fun k -> k = None) keys || (r.sr_spec = r.sr_after && r.sr_after2 = r.sr_after) then "" else " SPECDIFF")

(* the utilities that sort internally are value-level models of other areas; here only the implementation is judged *)
let h_sortutil (_ : string array) : string = "NOMODEL"

let handlers : (string * (string array -> string)) list = [
  ("sortobj", h_sortobj); ("sortutil", h_sortutil);
]
