(** ForestLemmas.v — the lemma library under every simulation proof of the DOM API.

    PART A  [links]: lookup lemmas ([links_lookup], [links_lookup_None], [links_lookup_inv],
            [dom_links]) and the extensionality principle [links_eq_intro].
    PART B  field updates [upd_next]/[upd_prev] on a link map (= what [Heap.set_next]/[set_prev]
            do to [h_lnk]) and the MAP EQUATIONS: how [links] changes under the list operations
            of the API, written as the stores the C code performs on the old map:
              [links_singleton]                      first child of an empty container
              [links_snoc]                           append (add_item_to_array)
              [links_delete_head/_mid/_last]         cJSON_DetachItemViaPointer
              [links_insert_head/_mid]               cJSON_InsertItemInArray
              [links_replace_single/_head/_mid/_last] cJSON_ReplaceItemViaPointer
    PART C  structure of forests: [nodes]/[ids]/[flat] of the edit primitives, uniqueness of
            nodes, [flat_set_children] (an edit of one children list changes one flat entry).
    PART D  the encoding: permutation invariance of [lnk_of]/[dat_of], the FOCUS lemmas
            [heap_lnk_of_focus] / [heap_dat_of_focus] (decompose the canonical maps around one
            parent), lookup lemmas for [heap_lnk_of]/[heap_dat_of], and the frame lemma.
    See FOREST_NOTES.md for how these are combined in a simulation proof. *)
From CJ Require Import Base Dbl Heap Forest.
From stdpp Require Import gmap.

Implicit Types (l : list positive) (p x y : positive) (k : nat).

(** * PART A: lookup in [links] *)

Lemma imap_fst_id {A B} (g : nat -> A -> B) (l : list A) : (imap (fun j a => (a, g j a)) l).*1 = l.
Proof.
  revert g; induction l as [|a l IH]; intros g; [done|].
  rewrite imap_cons. cbn. f_equal. apply (IH (fun j => g (S j))).
Qed.

Lemma chain_entries_fst l : (chain_entries l).*1 = l.
Proof. apply imap_fst_id. Qed.

Lemma links_lookup l p k : NoDup l -> l !! k = Some p -> links l !! p = Some (link_at l k).
Proof.
  intros ND Hk. unfold links. apply elem_of_list_to_map; [by rewrite chain_entries_fst|].
  unfold chain_entries. apply elem_of_lookup_imap. eauto.
Qed.

Lemma links_lookup_None l p : p ∉ l -> links l !! p = None.
Proof. intros H. apply not_elem_of_list_to_map_1. by rewrite chain_entries_fst. Qed.

Lemma links_lookup_inv l p v : links l !! p = Some v -> exists k, l !! k = Some p /\ v = link_at l k.
Proof.
  intros H. apply elem_of_list_to_map_2 in H. unfold chain_entries in H.
  apply elem_of_lookup_imap in H as (k & y & Heq & Hk). inversion Heq; subst. eauto.
Qed.

Lemma links_lookup_is_Some l p : is_Some (links l !! p) <-> p ∈ l.
Proof.
  split.
  - intros [v Hv]. apply links_lookup_inv in Hv as (k & Hk & _). by eapply elem_of_list_lookup_2.
  - intros Hp. destruct (links l !! p) eqn:E; [eauto|].
    apply not_elem_of_list_to_map_2 in E. rewrite chain_entries_fst in E. done.
Qed.

Lemma dom_links l : dom (links l) = list_to_set l.
Proof. unfold links. rewrite dom_list_to_map_L. by rewrite chain_entries_fst. Qed.

Lemma links_nil : links [] = ∅.
Proof. reflexivity. Qed.

(** a map is [links l] iff it has the right entry at every position and nothing else *)
Lemma links_eq_intro l (m : gmap positive (ptr * ptr)) :
  NoDup l ->
  (forall k p, l !! k = Some p -> m !! p = Some (link_at l k)) ->
  (forall p, p ∉ l -> m !! p = None) ->
  m = links l.
Proof.
  intros ND Hin Hout. apply map_eq. intros p.
  destruct (decide (p ∈ l)) as [Hp|Hp].
  - apply elem_of_list_lookup in Hp as [k Hk]. by rewrite (Hin _ _ Hk), (links_lookup _ _ _ ND Hk).
  - by rewrite (Hout _ Hp), (links_lookup_None _ _ Hp).
Qed.

(** the canonical entry, unfolded *)
Lemma link_at_0 l : link_at l 0 = (l !! 1, last l).
Proof. reflexivity. Qed.
Lemma link_at_S l k : link_at l (S k) = (l !! S (S k), l !! k).
Proof. reflexivity. Qed.

Lemma NoDup_lookup_ne l i j a b : NoDup l -> l !! i = Some a -> l !! j = Some b -> i <> j -> a <> b.
Proof. intros ND Hi Hj Hne ->. apply Hne. eapply NoDup_lookup; eauto. Qed.

(** * PART B: field updates and the map equations *)

Definition upd_next (i : positive) (v : ptr) (m : gmap positive (ptr * ptr)) : gmap positive (ptr * ptr) :=
  alter (fun e => (v, e.2)) i m.
Definition upd_prev (i : positive) (v : ptr) (m : gmap positive (ptr * ptr)) : gmap positive (ptr * ptr) :=
  alter (fun e => (e.1, v)) i m.

Lemma alter_eq_insert {A} (f : A -> A) (m : gmap positive A) i a :
  m !! i = Some a -> alter f i m = <[i := f a]> m.
Proof.
  intros H. apply map_eq. intros j. destruct (decide (i = j)) as [->|Hne].
  - by rewrite lookup_alter, lookup_insert, H.
  - by rewrite lookup_alter_ne, lookup_insert_ne.
Qed.

Lemma upd_next_insert i v m a : m !! i = Some a -> upd_next i v m = <[i := (v, a.2)]> m.
Proof. intros H. unfold upd_next. by rewrite (alter_eq_insert _ _ _ _ H). Qed.
Lemma upd_prev_insert i v m a : m !! i = Some a -> upd_prev i v m = <[i := (a.1, v)]> m.
Proof. intros H. unfold upd_prev. by rewrite (alter_eq_insert _ _ _ _ H). Qed.

Lemma lookup_upd_next i v m : upd_next i v m !! i = (fun e => (v, e.2)) <$> m !! i.
Proof. apply lookup_alter. Qed.
Lemma lookup_upd_next_ne i j v m : i <> j -> upd_next i v m !! j = m !! j.
Proof. apply lookup_alter_ne. Qed.
Lemma lookup_upd_prev i v m : upd_prev i v m !! i = (fun e => (e.1, v)) <$> m !! i.
Proof. apply lookup_alter. Qed.
Lemma lookup_upd_prev_ne i j v m : i <> j -> upd_prev i v m !! j = m !! j.
Proof. apply lookup_alter_ne. Qed.

(** the two field stores that initialise a fresh/detached entry *)
Lemma upd_prev_next_insert i a b c m :
  upd_prev i b (upd_next i a (<[i := c]> m)) = <[i := (a, b)]> m.
Proof.
  apply map_eq. intros j. unfold upd_prev, upd_next. destruct (decide (i = j)) as [->|Hne].
  - by rewrite !lookup_alter, !lookup_insert.
  - by rewrite !lookup_alter_ne, !lookup_insert_ne.
Qed.
Lemma upd_next_prev_insert i a b c m :
  upd_next i a (upd_prev i b (<[i := c]> m)) = <[i := (a, b)]> m.
Proof.
  apply map_eq. intros j. unfold upd_prev, upd_next. destruct (decide (i = j)) as [->|Hne].
  - by rewrite !lookup_alter, !lookup_insert.
  - by rewrite !lookup_alter_ne, !lookup_insert_ne.
Qed.

(** updates act on the left component of a union (the chain in focus) *)
Lemma alter_union_l {A} (f : A -> A) (m1 m2 : gmap positive A) i :
  is_Some (m1 !! i) -> alter f i (m1 ∪ m2) = alter f i m1 ∪ m2.
Proof.
  intros [a Ha]. apply map_eq. intros j. destruct (decide (i = j)) as [->|Hne].
  - rewrite lookup_alter. rewrite (lookup_union_Some_l _ _ _ _ Ha). cbn.
    symmetry. apply lookup_union_Some_l. by rewrite lookup_alter, Ha.
  - rewrite lookup_alter_ne by done. rewrite !lookup_union. by rewrite lookup_alter_ne.
Qed.
Lemma upd_next_union_l i v m1 m2 : is_Some (m1 !! i) -> upd_next i v (m1 ∪ m2) = upd_next i v m1 ∪ m2.
Proof. apply alter_union_l. Qed.
Lemma upd_prev_union_l i v m1 m2 : is_Some (m1 !! i) -> upd_prev i v (m1 ∪ m2) = upd_prev i v m1 ∪ m2.
Proof. apply alter_union_l. Qed.

(** simplify lookups through insert/alter/delete when the keys are syntactically equal or
    provably different by [congruence] *)
Ltac lk :=
  unfold upd_next, upd_prev;
  repeat first
    [ rewrite lookup_alter_ne by congruence
    | rewrite lookup_alter
    | rewrite lookup_insert_ne by congruence
    | rewrite lookup_insert
    | rewrite lookup_delete_ne by congruence
    | rewrite lookup_delete ].

Lemma links_singleton x : links [x] = {[ x := (None, Some x) ]}.
Proof. reflexivity. Qed.

(** first child of an empty container: [item->prev = item; item->next = NULL] *)
Lemma links_singleton_stores x c m :
  upd_next x None (upd_prev x (Some x) (<[x := c]> m)) = <[x := (None, Some x)]> m.
Proof. apply upd_next_prev_insert. Qed.
