(** PatchDefs.v — value-level ("Tier B", DESIGN 5.6) transliteration of the JSON Patch part of
    cJSON_Utils.c: compare_strings, decode_pointer_inplace, detach_item_from_array, detach_path,
    sort_list / sort_object, compare_json, insert_item_in_array, decode_patch_operation,
    overwrite_item, apply_patch, cJSONUtils_ApplyPatches[CaseSensitive], compose_patch,
    create_patches, cJSONUtils_GeneratePatches[CaseSensitive] — and of the functions of cJSON.c
    they call (cJSON_Duplicate, add_item_to_object, detach/delete item from object).

    Trees are [Tree.node] with ORDERED member lists: "delete then append at the end" and "sorted
    in place" are visible.  Control flow and status codes are those of the C code.  C strings
    are byte lists without terminator; [decode_pointer_inplace] works on an explicit buffer
    (with its terminator) through checked reads and writes.  A dereference of a NULL
    [valuestring] (a String-typed node without string, which no parser produces) is [OOB].
    Allocation failures are not modelled at this tier; the CJSON_CIRCULAR_LIMIT failure of
    cJSON_Duplicate is.  No proofs here. *)
From CJ Require Import Base Dbl Tree PointerDefs CompareDefs.
Local Open Scope Z_scope.

(** ---- small list / tree helpers (value-level reading of the chain surgery) ---- *)
Definition set_children (n : node) (cs : list node) : node :=
  let 'Node t s i d k _ := n in Node t s i d k cs.
Definition set_key (n : node) (k : option bytes) : node :=
  let 'Node t s i d _ cs := n in Node t s i d k cs.
Definition set_ty (n : node) (t : Z) : node :=
  let 'Node _ s i d k cs := n in Node t s i d k cs.

Fixpoint remove_nth {A} (i : nat) (l : list A) {struct l} : list A :=
  match l with
  | [] => []
  | x :: r => match i with O => r | S j => x :: remove_nth j r end
  end.
Fixpoint insert_nth {A} (i : nat) (x : A) (l : list A) : list A :=
  match i with
  | O => x :: l
  | S j => match l with [] => [x] | y :: r => y :: insert_nth j x r end
  end.
Fixpoint replace_nth {A} (i : nat) (x : A) (l : list A) {struct l} : list A :=
  match l with
  | [] => []
  | y :: r => match i with O => x :: r | S j => y :: replace_nth j x r end
  end.

(* the tree with the node at [p] replaced by [new] *)
Fixpoint put_subtree (n : node) (p : path) (new : node) : node :=
  match p with
  | [] => new
  | i :: p' =>
      match nth_error (n_children n) i with
      | Some c => set_children n (replace_nth i (put_subtree c p' new) (n_children n))
      | None => n
      end
  end.

(** ---- string constants ---- *)
Definition s_op : bytes := [111; 112].
Definition s_path : bytes := [112; 97; 116; 104].
Definition s_value : bytes := [118; 97; 108; 117; 101].
Definition s_from : bytes := [102; 114; 111; 109].
Definition s_add : bytes := [97; 100; 100].
Definition s_remove : bytes := [114; 101; 109; 111; 118; 101].
Definition s_replace : bytes := [114; 101; 112; 108; 97; 99; 101].
Definition s_move : bytes := [109; 111; 118; 101].
Definition s_copy : bytes := [99; 111; 112; 121].
Definition s_test : bytes := [116; 101; 115; 116].
Definition s_dash : bytes := [45].

(** ---- compare_strings(string1, string2, case_sensitive): NULL is unequal to everything ---- *)
Definition compare_strings (s1 s2 : option bytes) (cs : bool) : Z :=
  match s1, s2 with
  | Some a, Some b => if cs then strcmp a b else strcasecmp_c a b
  | _, _ => 1
  end.

(** ---- cJSON_Duplicate(item, 1) ---- *)
Fixpoint dup_rec (item : node) (depth : Z) : option node :=
  match item with
  | Node ty vs vi vd k cs =>
      match (fix go (l : list node) : option (list node) :=
               match l with
               | [] => Some []
               | c :: r =>
                   if depth >=? c_CJSON_CIRCULAR_LIMIT then None
                   else match dup_rec c (depth + 1) with
                        | None => None
                        | Some c' => match go r with None => None | Some r' => Some (c' :: r') end
                        end
               end) cs with
      | None => None
      | Some cs' => Some (Node (Z.ldiff ty c_cJSON_IsReference) vs vi vd k cs')
      end
  end.
Definition cJSON_Duplicate (item : node) : option node := dup_rec item 0.

(** ---- decode_pointer_inplace(string) on the buffer [buf]; [s] read index, [d] write index ---- *)
Fixpoint dpi_loop (fuel : nat) (buf : bytes) (s d : nat) : res bytes :=
  match fuel with
  | O => OutOfFuel
  | S f =>
      c <- rd buf s ;;
      if c =? 0 then wr buf d 0
      else if c =? 126 then
        c1 <- rd buf (S s) ;;
        if c1 =? 48 then b' <- wr buf d 126 ;; dpi_loop f b' (S (S s)) (S d)
        else if c1 =? 49 then b' <- wr buf d 47 ;; dpi_loop f b' (S (S s)) (S d)
        else Ok buf                                    (* invalid escape sequence: return *)
      else b' <- wr buf d c ;; dpi_loop f b' (S s) (S d)
  end.
Definition decode_pointer_inplace (buf : bytes) : res bytes := dpi_loop (S (length buf)) buf 0 0.

(* strrchr(p, '/') : index of the last '/' *)
Fixpoint last_slash (p : bytes) (i : nat) (acc : option nat) : option nat :=
  match p with
  | [] => acc
  | c :: r => last_slash r (S i) (if c =? 47 then Some i else acc)
  end.

(** ---- detach_path(object, path, case_sensitive): (detached item, object afterwards) ---- *)
Definition detach_path (object : node) (path : bytes) (cs : bool) : res (option (node * node)) :=
  match last_slash path 0 None with
  | None => Ok None
  | Some i =>
      let child_raw := skipn (S i) path in              (* the last token as written *)
      match get_item_from_pointer object (firstn i path) cs with
      | None => Ok None
      | Some pp =>
          match subtree object pp with
          | None => Ok None
          | Some par =>
              if is_array par then
                (* an array index is read from the token as written *)
                match decode_array_index_from_pointer child_raw with
                | None => Ok None
                | Some idx =>
                    (* detach_item_from_array(parent, index) *)
                    match nth_z (n_children par) idx with
                    | None => Ok None
                    | Some it => Ok (Some (it, put_subtree object pp
                                                 (set_children par (remove_nth (Z.to_nat idx) (n_children par)))))
                    end
                end
              else if is_object par then
                buf <- decode_pointer_inplace (child_raw ++ [0]) ;;
                let child := cstr buf in
                (* cJSON_DetachItemFromObject[CaseSensitive](parent, child_pointer) *)
                match get_object_item par (Some child) cs with
                | None => Ok None
                | Some (j, it) => Ok (Some (it, put_subtree object pp
                                              (set_children par (remove_nth j (n_children par)))))
                end
              else Ok None
          end
      end
  end.

(** ---- sort_list / sort_object : merge sort of the member chain ---- *)
Fixpoint strictly_sorted (l : list node) (cs : bool) : bool :=
  match l with
  | x :: r => match r with
              | y :: _ => (compare_strings (n_key x) (n_key y) cs <? 0) && strictly_sorted r cs
              | [] => true
              end
  | [] => true
  end.

Fixpoint merge (cs : bool) (a : list node) : list node -> list node :=
  fix inner (b : list node) : list node :=
    match a, b with
    | [], _ => b
    | _, [] => a
    | x :: a', y :: b' =>
        if compare_strings (n_key x) (n_key y) cs <=? 0 then x :: merge cs a' b   (* equal keys: first list *)
        else y :: inner b'
    end.

Fixpoint sort_list (fuel : nat) (l : list node) (cs : bool) : res (list node) :=
  match fuel with
  | O => OutOfFuel
  | S f =>
      match l with
      | [] => Ok l
      | [_] => Ok l
      | _ =>
          if strictly_sorted l cs then Ok l                (* leave sorted lists unmodified *)
          else
            let k := Nat.div2 (S (length l)) in            (* [second] advances once per two items *)
            a <- sort_list f (firstn k l) cs ;;
            b <- sort_list f (skipn k l) cs ;;
            Ok (merge cs a b)
      end
  end.

Definition sort_object (n : node) (cs : bool) : res node :=
  l <- sort_list (S (length (n_children n))) (n_children n) cs ;; Ok (set_children n l).

(** ---- compare_json(a, b, case_sensitive) for two non-NULL nodes: result and both operands
        afterwards (objects met on the way have been sorted in place) ---- *)
Section CompareLoops.
  (* the recursive call of compare_json on a pair of children *)
  Variable rec : node -> node -> res (bool * node * node).
  Variable cs : bool.

  (* case cJSON_Array: the for loop over both chains *)
  Fixpoint cmp_arr (la lb : list node) : res (bool * list node * list node) :=
    match la, lb with
    | x :: la', y :: lb' =>
        ' (r, x', y') <- rec x y ;;
        if r then ' (r2, la2, lb2) <- cmp_arr la' lb' ;; Ok (r2, x' :: la2, y' :: lb2)
        else Ok (false, x' :: la', y' :: lb')
    | [], [] => Ok (true, la, lb)
    | _, _ => Ok (false, la, lb)                     (* array size mismatch *)
    end.

  (* case cJSON_Object: the for loop over both sorted chains *)
  Fixpoint cmp_obj (la lb : list node) : res (bool * list node * list node) :=
    match la, lb with
    | x :: la', y :: lb' =>
        if negb (compare_strings (n_key x) (n_key y) cs =? 0) then Ok (false, la, lb)   (* missing member *)
        else
          ' (r, x', y') <- rec x y ;;
          if r then ' (r2, la2, lb2) <- cmp_obj la' lb' ;; Ok (r2, x' :: la2, y' :: lb2)
          else Ok (false, x' :: la', y' :: lb')
    | [], [] => Ok (true, la, lb)
    | _, _ => Ok (false, la, lb)                     (* object length mismatch *)
    end.
End CompareLoops.

Fixpoint compare_json (fuel : nat) (a b : node) (cs : bool) : res (bool * node * node) :=
  match fuel with
  | O => OutOfFuel
  | S f =>
      let t := tymask (n_ty a) in
      if negb (t =? tymask (n_ty b)) then Ok (false, a, b)
      else if t =? c_cJSON_Number then
        Ok (negb (negb (n_vint a =? n_vint b) || negb (compare_double (n_vdbl a) (n_vdbl b))), a, b)
      else if t =? c_cJSON_String then
        match n_vstr a, n_vstr b with
        | Some x, Some y => Ok (strcmp x y =? 0, a, b)
        | _, _ => OOB
        end
      else if t =? c_cJSON_Array then
        ' (r, ca, cb) <- cmp_arr (fun x y => compare_json f x y cs) (n_children a) (n_children b) ;;
        Ok (r, set_children a ca, set_children b cb)
      else if t =? c_cJSON_Object then
        sa <- sort_object a cs ;;
        sb <- sort_object b cs ;;
        ' (r, ca, cb) <- cmp_obj (fun x y => compare_json f x y cs) cs (n_children sa) (n_children sb) ;;
        Ok (r, set_children sa ca, set_children sb cb)
      else Ok (true, a, b)                              (* null, true or false (and anything else) *)
  end.

(** ---- decode_patch_operation ---- *)
Inductive opcode := INVALID | ADD | REMOVE | REPLACE | MOVE | COPY | TEST.

Definition decode_patch_operation (patch : node) (cs : bool) : res opcode :=
  match get_object_item patch (Some s_op) cs with
  | None => Ok INVALID
  | Some (_, operation) =>
      if negb (is_string operation) then Ok INVALID
      else match n_vstr operation with
           | None => OOB
           | Some s =>
               if strcmp s s_add =? 0 then Ok ADD
               else if strcmp s s_remove =? 0 then Ok REMOVE
               else if strcmp s s_replace =? 0 then Ok REPLACE
               else if strcmp s s_move =? 0 then Ok MOVE
               else if strcmp s s_copy =? 0 then Ok COPY
               else if strcmp s s_test =? 0 then Ok TEST
               else Ok INVALID
           end
  end.

(* static const cJSON invalid = { NULL, NULL, NULL, cJSON_Invalid, NULL, 0, 0, NULL } *)
Definition invalid_node : node := Node c_cJSON_Invalid None 0 dzero None [].

(* add_item_to_object(object, string, item, hooks, false): the item as it hangs in the object *)
Definition keyed (item : node) (k : bytes) : node :=
  set_key (set_ty item (Z.ldiff (n_ty item) c_cJSON_StringIsConst)) (Some k).

(* the new root after overwrite_item(object, *value): the name is dropped (released only when owned) and
   cJSON_StringIsConst is cleared:  object->string = NULL; object->type &= ~cJSON_StringIsConst *)
Definition unnamed (v : node) : node :=
  set_key (set_ty v (Z.ldiff (n_ty v) c_cJSON_StringIsConst)) None.

(** the part of apply_patch after "Now, just add value to path": (status, object afterwards) *)
Definition finish_add (object value : node) (pstr : bytes) (cs : bool) : res (Z * node) :=
  match pstr with
  | [] => Ok (0, unnamed value)              (* overwrite_item(object, *value); object->string = NULL; flag cleared *)
  | _ =>
      match last_slash pstr 0 None with
      | None => Ok (9, object)                (* child_pointer == NULL *)
      | Some i =>
          let child_raw := skipn (S i) pstr in
          match get_item_from_pointer object (firstn i pstr) cs with
          | None => Ok (9, object)
          | Some pp =>
              match subtree object pp with
              | None => Ok (9, object)
              | Some par =>
                  if is_array par then
                    if strcmp child_raw s_dash =? 0 then
                      Ok (0, put_subtree object pp (set_children par (n_children par ++ [value])))
                    else
                      match decode_array_index_from_pointer child_raw with
                      | None => Ok (11, object)
                      | Some idx =>
                          (* insert_item_in_array(parent, index, value) *)
                          if idx >? Z.of_nat (length (n_children par)) then Ok (10, object)
                          else Ok (0, put_subtree object pp
                                        (set_children par (insert_nth (Z.to_nat idx) value (n_children par))))
                      end
                  else if is_object par then
                    buf <- decode_pointer_inplace (child_raw ++ [0]) ;;
                    let child := cstr buf in
                    (* cJSON_DeleteItemFromObject[CaseSensitive]; cJSON_AddItemToObject *)
                    let rest := match get_object_item par (Some child) cs with
                                | Some (j, _) => remove_nth j (n_children par)
                                | None => n_children par
                                end in
                    Ok (0, put_subtree object pp (set_children par (rest ++ [keyed value child])))
                  else Ok (9, object)
              end
          end
      end
  end.

Definition is_nil (s : bytes) : bool := match s with [] => true | _ => false end.

(** ---- apply_patch(object, patch, case_sensitive): (status, object afterwards, patch afterwards)
        — the patch changes too: [test] sorts its "value" member in place ---- *)
Definition apply_patch (object patch : node) (cs : bool) : res (Z * node * node) :=
  match get_object_item patch (Some s_path) cs with
  | None => Ok (2, object, patch)
  | Some (_, pathn) =>
      if negb (is_string pathn) then Ok (2, object, patch)
      else
        opc <- decode_patch_operation patch cs ;;
        match opc with
        | INVALID => Ok (3, object, patch)
        | TEST =>
            let target := match n_vstr pathn with Some p => get_item_from_pointer object p cs | None => None end in
            match target, get_object_item patch (Some s_value) cs with
            | Some tp, Some (vi, v) =>
                match subtree object tp with
                | None => Ok (1, object, patch)
                | Some a =>
                    ' (r, a', v') <- compare_json (node_depth a) a v cs ;;
                    Ok ((if r then 0 else 1), put_subtree object tp a',
                        set_children patch (replace_nth vi v' (n_children patch)))
                end
            | _, _ => Ok (1, object, patch)
            end
        | _ =>
            match n_vstr pathn with
            | None => OOB
            | Some pstr =>
                let value_member := get_object_item patch (Some s_value) cs in
                let is_remove := match opc with REMOVE => true | _ => false end in
                let is_replace := match opc with REPLACE => true | _ => false end in
                let is_add := match opc with ADD => true | _ => false end in
                let is_move := match opc with MOVE => true | _ => false end in
                let is_copy := match opc with COPY => true | _ => false end in
                if is_nil pstr && is_remove then Ok (0, invalid_node, patch)
                else if is_nil pstr && (is_replace || is_add) then
                  match value_member with
                  | None => Ok (7, object, patch)
                  | Some (_, v) =>
                      match cJSON_Duplicate v with
                      | None => Ok (8, object, patch)
                      | Some d => Ok (0, unnamed d, patch)
                      end
                  end
                else
                  (* Get rid of old. *)
                  r1 <- (if is_remove || is_replace then
                           dp <- detach_path object pstr cs ;;
                           Ok (match dp with None => None | Some (_, o') => Some o' end)
                         else Ok (Some object)) ;;
                  match r1 with
                  | None => Ok (13, object, patch)
                  | Some obj1 =>
                      if is_remove then Ok (0, obj1, patch)
                      else if is_move || is_copy then
                        match get_object_item patch (Some s_from) cs with
                        | None => Ok (4, obj1, patch)
                        | Some (_, fromn) =>
                            if negb (is_string fromn) then Ok (4, obj1, patch)
                            else if is_move then
                              match n_vstr fromn with
                              | None => OOB
                              | Some fstr =>
                                  (* a value cannot be moved into one of its own children:
                                     strncmp(from, path, strlen(from)) == 0 && path[strlen(from)] == '/' *)
                                  if bytes_eqb (firstn (length fstr) pstr) fstr && (hd 0 (skipn (length fstr) pstr) =? 47)
                                  then Ok (9, obj1, patch) else
                                  dp <- detach_path obj1 fstr cs ;;
                                  match dp with
                                  | None => Ok (5, obj1, patch)
                                  | Some (v, obj2) => ' (st, o) <- finish_add obj2 v pstr cs ;; Ok (st, o, patch)
                                  end
                              end
                            else
                              match (match n_vstr fromn with
                                     | Some fstr => match get_item_from_pointer obj1 fstr cs with
                                                    | Some fp => subtree obj1 fp
                                                    | None => None
                                                    end
                                     | None => None
                                     end) with
                              | None => Ok (5, obj1, patch)
                              | Some v0 =>
                                  match cJSON_Duplicate v0 with
                                  | None => Ok (6, obj1, patch)
                                  | Some v => ' (st, o) <- finish_add obj1 v pstr cs ;; Ok (st, o, patch)
                                  end
                              end
                        end
                      else
                        match value_member with
                        | None => Ok (7, obj1, patch)
                        | Some (_, v0) =>
                            match cJSON_Duplicate v0 with
                            | None => Ok (8, obj1, patch)
                            | Some v => ' (st, o) <- finish_add obj1 v pstr cs ;; Ok (st, o, patch)
                            end
                        end
                  end
            end
        end
  end.

(** ---- cJSONUtils_ApplyPatches[CaseSensitive](object, patches) ---- *)
Fixpoint apply_loop (object : node) (ps : list node) (cs : bool) : res (Z * node * list node) :=
  match ps with
  | [] => Ok (0, object, [])
  | p :: r =>
      ' (st, o, p') <- apply_patch object p cs ;;
      if negb (st =? 0) then Ok (st, o, p' :: r)
      else ' (st2, o2, r') <- apply_loop o r cs ;; Ok (st2, o2, p' :: r')
  end.

Definition apply_patches (object patches : node) (cs : bool) : res (Z * node * node) :=
  if negb (is_array patches) then Ok (1, object, patches)
  else ' (st, o, ps) <- apply_loop object (n_children patches) cs ;; Ok (st, o, set_children patches ps).

Definition cJSONUtils_ApplyPatches (object patches : node) := apply_patches object patches false.
Definition cJSONUtils_ApplyPatchesCaseSensitive (object patches : node) := apply_patches object patches true.

(** ---- compose_patch(patches, operation, path, suffix, value): the patch list afterwards ---- *)
Definition create_string (s : bytes) : node := Node c_cJSON_String (Some s) 0 dzero None [].
Definition create_object : node := Node c_cJSON_Object None 0 dzero None [].
Definition create_array : node := Node c_cJSON_Array None 0 dzero None [].

Definition compose_patch (patches : list node) (operation path : bytes) (suffix : option bytes) (value : option node) : list node :=
  let full_path := match suffix with
                   | None => path
                   | Some sfx => path ++ [47] ++ encode_string_as_pointer sfx
                   end in
  let members := [keyed (create_string operation) s_op; keyed (create_string full_path) s_path] ++
                 match value with
                 | None => []
                 | Some v => match cJSON_Duplicate v with
                             | Some d => [keyed d s_value]
                             | None => []             (* cJSON_AddItemToObject(patch, "value", NULL) adds nothing *)
                             end
                 end in
  patches ++ [set_children create_object members].

(** ---- create_patches(patches, path, from, to, case_sensitive):
        (patch list afterwards, from afterwards, to afterwards) ---- *)
Section CreateLoops.
  (* the recursive call of create_patches: patches, path of the child, from child, to child *)
  Variable rec : list node -> bytes -> node -> node -> res (list node * node * node).
  Variable path : bytes.
  Variable cs : bool.

  (* case cJSON_Array *)
  Fixpoint cp_arr (ps : list node) (index : Z) (lf lt : list node) : res (list node * list node * list node) :=
    match lf, lt with
    | x :: lf', y :: lt' =>
        ' (ps1, x', y') <- rec ps (path ++ [47] ++ print_lu index) x y ;;
        ' (ps2, lf2, lt2) <- cp_arr ps1 (index + 1) lf' lt' ;;
        Ok (ps2, x' :: lf2, y' :: lt2)
    | _, _ =>
        (* remove leftover elements of 'from' (always at the same index), then append those of 'to' *)
        let ps1 := fold_left (fun acc _ => compose_patch acc s_remove path (Some (print_lu index)) None) lf ps in
        let ps2 := fold_left (fun acc y => compose_patch acc s_add path (Some s_dash) (Some y)) lt ps1 in
        Ok (ps2, lf, lt)
    end.

  (* case cJSON_Object: the while loop over both sorted chains; [g] bounds its iterations *)
  Fixpoint cp_walk (g : nat) (ps : list node) (lf lt : list node) : res (list node * list node * list node) :=
    match g with
    | O => OutOfFuel
    | S g' =>
        match lf, lt with
        | [], [] => Ok (ps, lf, lt)
        | _, _ =>
            let diff := match lf, lt with
                        | [], _ => 1
                        | _, [] => -1
                        | x :: _, y :: _ => compare_strings (n_key x) (n_key y) cs
                        end in
            if diff =? 0 then
              match lf, lt with
              | x :: lf', y :: lt' =>
                  match n_key x with
                  | None => OOB
                  | Some kx =>
                      ' (ps1, x', y') <- rec ps (path ++ [47] ++ encode_string_as_pointer kx) x y ;;
                      ' (ps2, lf2, lt2) <- cp_walk g' ps1 lf' lt' ;;
                      Ok (ps2, x' :: lf2, y' :: lt2)
                  end
              | _, _ => OOB
              end
            else if diff <? 0 then
              match lf with
              | x :: lf' =>
                  ' (ps2, lf2, lt2) <- cp_walk g' (compose_patch ps s_remove path (n_key x) None) lf' lt ;;
                  Ok (ps2, x :: lf2, lt2)
              | [] => OOB
              end
            else
              match lt with
              | y :: lt' =>
                  ' (ps2, lf2, lt2) <- cp_walk g' (compose_patch ps s_add path (n_key y) (Some y)) lf lt' ;;
                  Ok (ps2, lf2, y :: lt2)
              | [] => OOB
              end
        end
    end.
End CreateLoops.

Fixpoint create_patches (fuel : nat) (patches : list node) (path : bytes) (from to : node) (cs : bool)
  : res (list node * node * node) :=
  match fuel with
  | O => OutOfFuel
  | S f =>
      let t := tymask (n_ty from) in
      if negb (t =? tymask (n_ty to)) then Ok (compose_patch patches s_replace path None (Some to), from, to)
      else if t =? c_cJSON_Number then
        if negb (n_vint from =? n_vint to) || negb (compare_double (n_vdbl from) (n_vdbl to))
        then Ok (compose_patch patches s_replace path None (Some to), from, to)
        else Ok (patches, from, to)
      else if t =? c_cJSON_String then
        match n_vstr from, n_vstr to with
        | Some x, Some y =>
            if negb (strcmp x y =? 0) then Ok (compose_patch patches s_replace path None (Some to), from, to)
            else Ok (patches, from, to)
        | _, _ => OOB
        end
      else if t =? c_cJSON_Array then
        ' (ps, fc, tc) <- cp_arr (fun ps p x y => create_patches f ps p x y cs) path patches 0 (n_children from) (n_children to) ;;
        Ok (ps, set_children from fc, set_children to tc)
      else if t =? c_cJSON_Object then
        sf <- sort_object from cs ;;
        st <- sort_object to cs ;;
        ' (ps, fc, tc) <- cp_walk (fun ps p x y => create_patches f ps p x y cs) path cs
                            (S (length (n_children sf) + length (n_children st))) patches (n_children sf) (n_children st) ;;
        Ok (ps, set_children sf fc, set_children st tc)
      else Ok (patches, from, to)
  end.

(** ---- cJSONUtils_GeneratePatches[CaseSensitive](from, to): (patch array, from, to afterwards) ---- *)
Definition generate_patches (from to : node) (cs : bool) : res (node * node * node) :=
  ' (ps, f', t') <- create_patches (node_depth from) [] [] from to cs ;;
  Ok (set_children create_array ps, f', t').
Definition cJSONUtils_GeneratePatches (from to : node) := generate_patches from to false.
Definition cJSONUtils_GeneratePatchesCaseSensitive (from to : node) := generate_patches from to true.
