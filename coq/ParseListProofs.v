(** ParseListProofs.v — the list-level parser specification [text_l] (ParseSpec.v) reads only
    the bytes before its parse end: these bytes re-parse, by themselves, to the same tree
    ([text_l_prefix]).  All lemmas have the "replace the tail" form: if a run on [l] stops with
    [rest] left over, then [l = pre ++ rest] and the run on [pre ++ x] stops with [x] left over,
    for every [x] (for numbers and values: every [x] that does not start with a number byte,
    because strtod looks at the whole run of number bytes). *)
From CJ Require Import Base Dbl Tree LibcNum ParseDefs ParseSpec.
From CJ Require Export ParseListStrtod.
Local Open Scope Z_scope.

(** * starts *)

Lemma starts_app : forall lit l r, starts lit l = Some r -> l = lit ++ r.
Proof.
  induction lit as [|a lit IH]; intros l r H.
  - cbn [starts] in H. inversion H. reflexivity.
  - cbn [starts] in H. destruct l as [|c l']; [discriminate H|].
    destruct (Z.eqb_spec c a) as [Hca|Hca]; [|discriminate H].
    subst c. apply IH in H. subst l'. reflexivity.
Qed.

Lemma starts_lit_app : forall lit x, starts lit (lit ++ x) = Some x.
Proof.
  induction lit as [|a lit IH]; intros x.
  - reflexivity.
  - cbn [app starts]. rewrite Z.eqb_refl. apply IH.
Qed.

Lemma starts_mono : forall lit p q r, starts lit p = Some q -> starts lit (p ++ r) = Some (q ++ r).
Proof.
  induction lit as [|a lit IH]; intros p q r H.
  - cbn [starts] in H. inversion H. reflexivity.
  - cbn [starts] in H. destruct p as [|c p']; [discriminate H|].
    cbn [app starts]. destruct (c =? a); [|discriminate H]. apply IH. exact H.
Qed.

Lemma starts_hd_ne : forall a lit c r, c <> a -> starts (a :: lit) (c :: r) = None.
Proof.
  intros a lit c r Hne. cbn [starts]. destruct (Z.eqb_spec c a) as [E|E]; [contradiction|reflexivity].
Qed.

(** * whitespace *)

Definition ws_bytes (ws : bytes) : Prop := Forall (fun b => b <= 32) ws.

Lemma drop_ws_spec : forall l c r, drop_ws l = c :: r ->
  exists ws, l = ws ++ c :: r /\ ws_bytes ws /\ 32 < c.
Proof.
  induction l as [|b l IH]; intros c r H.
  - discriminate H.
  - cbn [drop_ws] in H. destruct (Z.leb_spec b 32) as [Hb|Hb].
    + destruct (IH c r H) as [ws [Hl [Hws Hc]]]. exists (b :: ws). split.
      * cbn [app]. rewrite <- Hl. reflexivity.
      * split; [constructor; assumption|exact Hc].
    + inversion H; subst. exists []. split; [reflexivity|]. split; [constructor|exact Hb].
Qed.

Lemma drop_ws_app : forall ws y, ws_bytes ws -> drop_ws (ws ++ y) = drop_ws y.
Proof.
  induction ws as [|b ws IH]; intros y H.
  - reflexivity.
  - inversion H as [|b' ws' Hb Hws]; subst. cbn [app drop_ws].
    destruct (Z.leb_spec b 32) as [Hb'|Hb']; [|lia]. apply IH. exact Hws.
Qed.

Lemma drop_ws_gt : forall c r, 32 < c -> drop_ws (c :: r) = c :: r.
Proof.
  intros c r H. cbn [drop_ws]. destruct (Z.leb_spec c 32) as [Hb|Hb]; [lia|reflexivity].
Qed.

Lemma drop_ws_ws : forall ws c r, ws_bytes ws -> 32 < c -> drop_ws (ws ++ c :: r) = c :: r.
Proof. intros ws c r Hws Hc. rewrite drop_ws_app by exact Hws. apply drop_ws_gt. exact Hc. Qed.

(** * what may follow a number *)

Definition follow_ok (x : bytes) : Prop :=
  match x with [] => True | c :: _ => number_byte c = false end.

Lemma number_byte_small : forall c, c <= 32 -> number_byte c = false.
Proof.
  intros c H. unfold number_byte.
  destruct (Z.leb_spec 48 c) as [H1|H1]; [lia|].
  destruct (Z.eqb_spec c 43) as [H2|H2]; [lia|].
  destruct (Z.eqb_spec c 45) as [H3|H3]; [lia|].
  destruct (Z.eqb_spec c 101) as [H4|H4]; [lia|].
  destruct (Z.eqb_spec c 69) as [H5|H5]; [lia|].
  destruct (Z.eqb_spec c 46) as [H6|H6]; [lia|].
  reflexivity.
Qed.

Lemma follow_ok_ws : forall ws c y, ws_bytes ws -> number_byte c = false -> follow_ok (ws ++ c :: y).
Proof.
  intros ws c y Hws Hc. destruct ws as [|b ws].
  - exact Hc.
  - inversion Hws as [|b' ws' Hb Hws']; subst. cbn [app follow_ok]. apply number_byte_small. exact Hb.
Qed.

(** * strings *)

Lemma hex4_l_pre : forall l v r, hex4_l l = Some (v, r) ->
  exists p, l = p ++ r /\ length p = 4%nat /\ forall x, hex4_l (p ++ x) = Some (v, x).
Proof.
  intros l v r H. unfold hex4_l in H.
  destruct l as [|a l]; [discriminate H|]. destruct l as [|b l]; [discriminate H|].
  destruct l as [|c l]; [discriminate H|]. destruct l as [|d l]; [discriminate H|].
  destruct (hex_val a) as [ha|] eqn:Ea; [|discriminate H].
  destruct (hex_val b) as [hb|] eqn:Eb; [|discriminate H].
  destruct (hex_val c) as [hc|] eqn:Ec; [|discriminate H].
  destruct (hex_val d) as [hd|] eqn:Ed; [|discriminate H].
  inversion H; subst. exists [a; b; c; d]. split; [reflexivity|]. split; [reflexivity|].
  intros x. unfold hex4_l. cbn [app]. rewrite Ea, Eb, Ec, Ed. reflexivity.
Qed.

Definition str_pre_ok (l o rest : bytes) : Prop :=
  exists pre, l = pre ++ rest /\ (1 <= length pre)%nat /\
    forall x f', (length pre <= f')%nat -> str_l f' (pre ++ x) = Some (o, x).

Lemma str_pre_ext : forall hd b l2 o2 rest,
  str_pre_ok l2 o2 rest -> (1 <= length hd)%nat ->
  (forall f' y, str_l (S f') (hd ++ y) =
                match str_l f' y with Some (o, r) => Some (b ++ o, r) | None => None end) ->
  str_pre_ok (hd ++ l2) (b ++ o2) rest.
Proof.
  intros hd b l2 o2 rest [pre [Hl [Hlen Hre]]] Hhd Hstep.
  exists (hd ++ pre). split; [rewrite Hl, app_assoc; reflexivity|].
  split; [rewrite app_length; lia|].
  intros x f' Hf. rewrite app_length in Hf.
  destruct f' as [|f']; [lia|].
  rewrite <- app_assoc. rewrite Hstep. rewrite Hre by lia. reflexivity.
Qed.

Lemma str_l_pre : forall f l o rest, str_l f l = Some (o, rest) -> str_pre_ok l o rest.
Proof.
  induction f as [|f IH]; intros l o rest H; [discriminate H|].
  destruct l as [|c r]; [discriminate H|].
  cbn [str_l] in H.
  destruct (c =? 34) eqn:E34.
  { inversion H; subst. exists [c]. split; [reflexivity|]. split; [simpl; lia|].
    intros x f' Hf. destruct f' as [|f']; [simpl in Hf; lia|]. cbn [app str_l]. rewrite E34. reflexivity. }
  destruct (c =? 92) eqn:E92.
  2:{ destruct (str_l f r) as [[o2 rest2]|] eqn:Hr; [|discriminate H]. inversion H; subst.
      apply IH in Hr. apply (str_pre_ext [c] [c]); [exact Hr|simpl; lia|].
      intros f' y. cbn [app str_l]. rewrite E34, E92. reflexivity. }
  destruct r as [|e r']; [discriminate H|].
  destruct (e =? 98) eqn:E98.
  { destruct (str_l f r') as [[o2 rest2]|] eqn:Hr; [|discriminate H]. inversion H; subst.
    apply IH in Hr. apply (str_pre_ext [c; e] [8]); [exact Hr|simpl; lia|].
    intros f' y. cbn [app str_l]. rewrite E34, E92, E98. reflexivity. }
  destruct (e =? 102) eqn:E102.
  { destruct (str_l f r') as [[o2 rest2]|] eqn:Hr; [|discriminate H]. inversion H; subst.
    apply IH in Hr. apply (str_pre_ext [c; e] [12]); [exact Hr|simpl; lia|].
    intros f' y. cbn [app str_l]. rewrite E34, E92, E98, E102. reflexivity. }
  destruct (e =? 110) eqn:E110.
  { destruct (str_l f r') as [[o2 rest2]|] eqn:Hr; [|discriminate H]. inversion H; subst.
    apply IH in Hr. apply (str_pre_ext [c; e] [10]); [exact Hr|simpl; lia|].
    intros f' y. cbn [app str_l]. rewrite E34, E92, E98, E102, E110. reflexivity. }
  destruct (e =? 114) eqn:E114.
  { destruct (str_l f r') as [[o2 rest2]|] eqn:Hr; [|discriminate H]. inversion H; subst.
    apply IH in Hr. apply (str_pre_ext [c; e] [13]); [exact Hr|simpl; lia|].
    intros f' y. cbn [app str_l]. rewrite E34, E92, E98, E102, E110, E114. reflexivity. }
  destruct (e =? 116) eqn:E116.
  { destruct (str_l f r') as [[o2 rest2]|] eqn:Hr; [|discriminate H]. inversion H; subst.
    apply IH in Hr. apply (str_pre_ext [c; e] [9]); [exact Hr|simpl; lia|].
    intros f' y. cbn [app str_l]. rewrite E34, E92, E98, E102, E110, E114, E116. reflexivity. }
  destruct ((e =? 34) || (e =? 92) || (e =? 47)) eqn:Eq.
  { destruct (str_l f r') as [[o2 rest2]|] eqn:Hr; [|discriminate H]. inversion H; subst.
    apply IH in Hr. apply (str_pre_ext [c; e] [e]); [exact Hr|simpl; lia|].
    intros f' y. cbn [app str_l]. rewrite E34, E92, E98, E102, E110, E114, E116, Eq. reflexivity. }
  destruct (e =? 117) eqn:E117; [|discriminate H].
  destruct (hex4_l r') as [[fc r2]|] eqn:Hh1; [|discriminate H].
  destruct (hex4_l_pre _ _ _ Hh1) as [p1 [Hr' [Hp1len Hp1]]].
  destruct ((56320 <=? fc) && (fc <=? 57343)) eqn:Elow; [discriminate H|].
  destruct ((55296 <=? fc) && (fc <=? 56319)) eqn:Ehigh.
  - destruct r2 as [|c0 r2]; [discriminate H|]. destruct r2 as [|c1 r3]; [discriminate H|].
    destruct ((c0 =? 92) && (c1 =? 117)) eqn:Ebu; cbn [negb] in H; [|discriminate H].
    apply andb_true_iff in Ebu as [Ec0 Ec1]. apply Z.eqb_eq in Ec0. apply Z.eqb_eq in Ec1. subst c0 c1.
    destruct (hex4_l r3) as [[sc r4]|] eqn:Hh2; [|discriminate H].
    destruct (hex4_l_pre _ _ _ Hh2) as [p2 [Hr3 [Hp2len Hp2]]].
    destruct ((sc <? 56320) || (sc >? 57343)) eqn:Esc; [discriminate H|].
    cbv zeta in H.
    destruct (utf8_encode_c (65536 + Z.lor (Z.shiftl (Z.land fc 1023) 10) (Z.land sc 1023))) as [b|] eqn:Hutf;
      [|discriminate H].
    destruct (str_l f r4) as [[o2 rest2]|] eqn:Hr; [|discriminate H]. inversion H; subst.
    apply IH in Hr.
    replace (c :: e :: p1 ++ 92 :: 117 :: p2 ++ r4) with ((c :: e :: p1 ++ 92 :: 117 :: p2) ++ r4)
      by (cbn [app]; rewrite <- app_assoc; reflexivity).
    apply str_pre_ext; [exact Hr|simpl; lia|].
    intros f' y. cbn [app]. rewrite <- app_assoc. cbn [app str_l].
    rewrite E34, E92, E98, E102, E110, E114, E116, Eq, E117, Hp1, Elow, Ehigh.
    rewrite !Z.eqb_refl. cbn [andb negb]. rewrite Hp2, Esc. cbv zeta. rewrite Hutf. reflexivity.
  - destruct (utf8_encode_c fc) as [b|] eqn:Hutf; [|discriminate H].
    destruct (str_l f r2) as [[o2 rest2]|] eqn:Hr; [|discriminate H]. inversion H; subst.
    apply IH in Hr.
    replace (c :: e :: p1 ++ r2) with ((c :: e :: p1) ++ r2) by reflexivity.
    apply str_pre_ext; [exact Hr|simpl; lia|].
    intros f' y. cbn [app str_l].
    rewrite E34, E92, E98, E102, E110, E114, E116, Eq, E117, Hp1, Elow, Ehigh, Hutf. reflexivity.
Qed.

Lemma string_l_pre : forall l s rest, string_l l = Some (s, rest) ->
  exists pre, l = pre ++ rest /\ (1 <= length pre)%nat /\ forall x, string_l (pre ++ x) = Some (s, x).
Proof.
  intros l s rest H. unfold string_l in H.
  destruct (str_l (S (length l)) l) as [[o rest2]|] eqn:Hs; [|discriminate H]. inversion H; subst.
  destruct (str_l_pre _ _ _ _ Hs) as [pre [Hl [Hlen Hre]]].
  exists pre. split; [exact Hl|]. split; [exact Hlen|].
  intros x. unfold string_l. rewrite Hre; [reflexivity|]. rewrite app_length. lia.
Qed.

(** * numbers *)

Lemma number_run_len_le : forall n l, (length (number_run n l) <= length l)%nat.
Proof.
  induction n as [|n IH]; intros l; [simpl; lia|].
  destruct l as [|c r]; [simpl; lia|]. cbn [number_run].
  destruct (number_byte c); [|simpl; lia]. cbn [length]. specialize (IH r). lia.
Qed.

Lemma number_run_firstn : forall n l k, (k <= length (number_run n l))%nat ->
  firstn k (number_run n l) = firstn k l.
Proof.
  induction n as [|n IH]; intros l k Hk.
  - cbn [number_run length] in *. assert (k = 0%nat) by lia. subst k. reflexivity.
  - destruct l as [|c r].
    + cbn [number_run length] in *. assert (k = 0%nat) by lia. subst k. reflexivity.
    + cbn [number_run] in *. destruct (number_byte c).
      * destruct k as [|k]; [reflexivity|]. cbn [length] in Hk. cbn [firstn]. f_equal. apply IH. lia.
      * cbn [length] in Hk. assert (k = 0%nat) by lia. subst k. reflexivity.
Qed.

(* the run of the cut text is exactly the cut run: it stops at [x], or at the cap *)
Lemma number_run_cut : forall n l k x, (k <= length (number_run n l))%nat -> follow_ok x ->
  number_run n (firstn k l ++ x) = firstn k l.
Proof.
  induction n as [|n IH]; intros l k x Hk Hx.
  - cbn [number_run length] in *. assert (k = 0%nat) by lia. subst k. reflexivity.
  - destruct k as [|k].
    + cbn [firstn app]. destruct x as [|c x]; [reflexivity|]. cbn [follow_ok] in Hx.
      cbn [number_run]. rewrite Hx. reflexivity.
    + destruct l as [|c r]; [cbn [number_run length] in Hk; lia|].
      cbn [number_run] in Hk. destruct (number_byte c) eqn:Ec; [|cbn [length] in Hk; lia].
      cbn [length] in Hk. cbn [firstn app number_run]. rewrite Ec. f_equal. apply IH; [lia|exact Hx].
Qed.

Lemma skipn_app_len : forall (p x : bytes), skipn (length p) (p ++ x) = x.
Proof. induction p as [|a p IH]; intros x; [reflexivity|]. cbn [length app skipn]. apply IH. Qed.

Section WithStrtod.
  Variable strtod : bytes -> option (dbl * nat).
  Hypothesis Hok : strtod_ok strtod.
  Hypothesis Hstable : strtod_stable strtod.

  Lemma number_l_pre : forall l t rest, number_l strtod l = Some (t, rest) ->
    exists pre, l = pre ++ rest /\ (1 <= length pre)%nat /\
      forall x, follow_ok x -> number_l strtod (pre ++ x) = Some (t, x).
  Proof.
    intros l t rest H. unfold number_l in H.
    set (n := Z.to_nat (c_NUMBER_C_STRING_SIZE - 1)) in *.
    destruct (strtod (number_run n l)) as [[d k]|] eqn:Hs; [|discriminate H].
    inversion H; subst t rest. clear H.
    pose proof (Hok _ _ _ Hs) as [Hk0 Hk].
    pose proof (number_run_len_le n l) as Hle.
    exists (firstn k l). split; [symmetry; apply firstn_skipn|].
    assert (Hlen : length (firstn k l) = k) by (apply firstn_length_le; lia).
    split; [lia|].
    intros x Hx. unfold number_l. fold n.
    rewrite (number_run_cut n l k x Hk Hx).
    rewrite <- (number_run_firstn n l k Hk).
    rewrite (Hstable _ _ _ Hs).
    rewrite (number_run_firstn n l k Hk).
    rewrite <- Hlen at 1. rewrite skipn_app_len. reflexivity.
  Qed.

  (** * containers, given the tail-replacement property of the value parser one level down.
        [vl' B] is the re-parsing value function run with fuel [B]. *)
  Section Containers.
    Variable vl : bytes -> option (node * bytes).
    Variable vl' : nat -> bytes -> option (node * bytes).
    Hypothesis Hvl : forall l v r, vl l = Some (v, r) ->
      exists pre, l = pre ++ r /\ (1 <= length pre)%nat /\
        forall x B, follow_ok x -> (length pre <= B)%nat -> vl' B (pre ++ x) = Some (v, x).

    (* a value between optional whitespace, followed by a separator or closing byte *)
    Lemma vl_ctx : forall l0 v r2 c2 r3,
      vl (drop_ws l0) = Some (v, r2) -> drop_ws r2 = c2 :: r3 -> number_byte c2 = false ->
      exists pre, l0 = pre ++ c2 :: r3 /\ (1 <= length pre)%nat /\
        forall y B, (length pre <= B)%nat ->
          exists r2', vl' B (drop_ws (pre ++ c2 :: y)) = Some (v, r2') /\ drop_ws r2' = c2 :: y.
    Proof.
      intros l0 v r2 c2 r3 Hv Hd Hc2.
      destruct (Hvl _ _ _ Hv) as [pre1 [Hl [Hlen Hre]]].
      destruct (drop_ws_spec _ _ _ Hd) as [ws2 [Hr2 [Hws2 Hc2']]].
      destruct pre1 as [|c0 p1]; [simpl in Hlen; lia|].
      cbn [app] in Hl.
      destruct (drop_ws_spec _ _ _ Hl) as [ws0 [Hl0 [Hws0 Hc0]]].
      exists (ws0 ++ (c0 :: p1) ++ ws2). split.
      { rewrite Hl0, Hr2. rewrite <- !app_assoc. reflexivity. }
      split; [rewrite !app_length; simpl; lia|].
      intros y B HB. rewrite !app_length in HB.
      exists (ws2 ++ c2 :: y). split.
      - rewrite <- !app_assoc. cbn [app]. rewrite drop_ws_ws by assumption.
        apply (Hre (ws2 ++ c2 :: y) B); [apply follow_ok_ws; assumption|lia].
      - apply drop_ws_ws; assumption.
    Qed.

    Lemma elems_l_pre : forall k l0 acc items rest, elems_l vl k l0 acc = Some (items, rest) ->
      exists pre, l0 = pre ++ rest /\ (1 <= length pre)%nat /\
        forall x k' B, (length pre <= k')%nat -> (length pre <= B)%nat ->
          elems_l (vl' B) k' (pre ++ x) acc = Some (items, x).
    Proof.
      induction k as [|k IH]; intros l0 acc items rest H; [discriminate H|].
      cbn [elems_l] in H.
      destruct (vl (drop_ws l0)) as [[v r2]|] eqn:Hv; [|discriminate H].
      destruct (drop_ws r2) as [|c2 r3] eqn:Hd; [discriminate H|].
      destruct (Z.eqb_spec c2 44) as [E44|E44].
      - subst c2. destruct (vl_ctx _ _ _ _ _ Hv Hd eq_refl) as [pa [Hl0 [Hlen Hre]]].
        destruct (IH _ _ _ _ H) as [p3 [Hr3 [Hlen3 Hre3]]].
        exists (pa ++ 44 :: p3). split; [rewrite Hl0, Hr3, <- app_assoc; reflexivity|].
        split; [rewrite app_length; simpl; lia|].
        intros x k' B Hk' HB. rewrite app_length in Hk', HB. cbn [length] in Hk', HB.
        destruct k' as [|k']; [lia|].
        rewrite <- app_assoc. cbn [app elems_l].
        destruct (Hre (p3 ++ x) B) as [r2' [H1 H2]]; [lia|].
        rewrite H1, H2. cbn [Z.eqb Pos.eqb]. apply Hre3; lia.
      - destruct (Z.eqb_spec c2 93) as [E93|E93]; [|discriminate H].
        subst c2. inversion H; subst items rest. clear H.
        destruct (vl_ctx _ _ _ _ _ Hv Hd eq_refl) as [pa [Hl0 [Hlen Hre]]].
        exists (pa ++ [93]). split; [rewrite Hl0, <- app_assoc; reflexivity|].
        split; [rewrite app_length; simpl; lia|].
        intros x k' B Hk' HB. rewrite app_length in Hk', HB. cbn [length] in Hk', HB.
        destruct k' as [|k']; [lia|].
        rewrite <- app_assoc. cbn [app elems_l].
        destruct (Hre x B) as [r2' [H1 H2]]; [lia|].
        rewrite H1, H2. reflexivity.
    Qed.

    Lemma array_l_pre : forall r t rest, array_l vl r = Some (t, rest) ->
      exists pre, r = pre ++ rest /\ (1 <= length pre)%nat /\
        forall x B, (length pre <= B)%nat -> array_l (vl' B) (pre ++ x) = Some (t, x).
    Proof.
      intros r t rest H. unfold array_l in H.
      destruct (drop_ws r) as [|c1 r1] eqn:Hd; [discriminate H|].
      destruct (drop_ws_spec _ _ _ Hd) as [ws [Hr [Hws Hc1]]].
      destruct (c1 =? 93) eqn:E93.
      - inversion H; subst t rest. clear H.
        exists (ws ++ [c1]). split; [rewrite Hr, <- app_assoc; reflexivity|].
        split; [rewrite app_length; simpl; lia|].
        intros x B HB. unfold array_l. rewrite <- app_assoc. cbn [app].
        rewrite drop_ws_ws by assumption. rewrite E93. reflexivity.
      - destruct (elems_l vl (S (length r)) (c1 :: r1) []) as [[items rest2]|] eqn:He; [|discriminate H].
        inversion H; subst t rest2. clear H.
        destruct (elems_l_pre _ _ _ _ _ He) as [pe [Hl [Hlen Hre]]].
        destruct pe as [|c1' pe]; [simpl in Hlen; lia|].
        cbn [app] in Hl. injection Hl as Hc Hr1. subst c1'.
        exists (ws ++ c1 :: pe). split; [rewrite Hr, Hr1, <- app_assoc; reflexivity|].
        split; [rewrite app_length; simpl; lia|].
        intros x B HB. rewrite app_length in HB. cbn [length] in HB.
        unfold array_l. rewrite <- app_assoc. cbn [app].
        rewrite drop_ws_ws by assumption. rewrite E93.
        change (c1 :: pe ++ x) with ((c1 :: pe) ++ x).
        rewrite Hre; [reflexivity| |].
        + rewrite !app_length. cbn [length]. lia.
        + cbn [length]. lia.
    Qed.

    (* key and colon *)
    Lemma key_ctx : forall l0 q rq key r2 col r3,
      drop_ws l0 = q :: rq -> string_l rq = Some (key, r2) -> drop_ws r2 = col :: r3 ->
      exists pk, l0 = pk ++ r3 /\ (1 <= length pk)%nat /\
        forall y, exists rq' r2', drop_ws (pk ++ y) = q :: rq' /\ string_l rq' = Some (key, r2') /\
                                  drop_ws r2' = col :: y.
    Proof.
      intros l0 q rq key r2 col r3 Hd Hs Hd2.
      destruct (drop_ws_spec _ _ _ Hd) as [ws0 [Hl0 [Hws0 Hq]]].
      destruct (string_l_pre _ _ _ Hs) as [ps [Hrq [Hpslen Hps]]].
      destruct (drop_ws_spec _ _ _ Hd2) as [ws2 [Hr2 [Hws2 Hcol]]].
      exists (ws0 ++ q :: ps ++ ws2 ++ [col]). split.
      { rewrite Hl0, Hrq, Hr2. rewrite <- !app_assoc. cbn [app]. rewrite <- !app_assoc. reflexivity. }
      split; [rewrite !app_length; simpl; lia|].
      intros y. exists (ps ++ ws2 ++ col :: y), (ws2 ++ col :: y).
      split; [|split].
      - rewrite <- !app_assoc. cbn [app]. rewrite <- !app_assoc. cbn [app].
        apply drop_ws_ws; assumption.
      - apply Hps.
      - apply drop_ws_ws; assumption.
    Qed.

    Lemma members_l_pre : forall k l0 acc items rest, members_l vl k l0 acc = Some (items, rest) ->
      exists pre, l0 = pre ++ rest /\ (1 <= length pre)%nat /\
        forall x k' B, (length pre <= k')%nat -> (length pre <= B)%nat ->
          members_l (vl' B) k' (pre ++ x) acc = Some (items, x).
    Proof.
      induction k as [|k IH]; intros l0 acc items rest H; [discriminate H|].
      cbn [members_l] in H.
      destruct (drop_ws l0) as [|q rq] eqn:Hd0; [discriminate H|].
      destruct (q =? 34) eqn:Eq; cbn [negb] in H; [|discriminate H].
      destruct (string_l rq) as [[key r2]|] eqn:Hs; [|discriminate H].
      destruct (drop_ws r2) as [|col r3] eqn:Hd2; [discriminate H|].
      destruct (col =? 58) eqn:Ecol; cbn [negb] in H; [|discriminate H].
      destruct (vl (drop_ws r3)) as [[v0 r4]|] eqn:Hv; [|discriminate H].
      cbv zeta in H.
      destruct (drop_ws r4) as [|c2 r5] eqn:Hd4; [discriminate H|].
      destruct (key_ctx _ _ _ _ _ _ _ Hd0 Hs Hd2) as [pk [Hl0 [Hpklen Hpk]]].
      destruct (Z.eqb_spec c2 44) as [E44|E44].
      - subst c2. destruct (vl_ctx _ _ _ _ _ Hv Hd4 eq_refl) as [pa [Hr3 [Hlen Hre]]].
        destruct (IH _ _ _ _ H) as [p5 [Hr5 [Hlen5 Hre5]]].
        exists (pk ++ pa ++ 44 :: p5). split; [rewrite Hl0, Hr3, Hr5, <- !app_assoc; reflexivity|].
        split; [rewrite !app_length; simpl; lia|].
        intros x k' B Hk' HB. rewrite !app_length in Hk', HB. cbn [length] in Hk', HB.
        destruct k' as [|k']; [lia|].
        rewrite <- !app_assoc. cbn [app members_l].
        destruct (Hpk (pa ++ 44 :: p5 ++ x)) as [rq' [r2' [K1 [K2 K3]]]].
        rewrite K1, Eq. cbn [negb]. rewrite K2, K3, Ecol. cbn [negb].
        destruct (Hre (p5 ++ x) B) as [r4' [H1 H2]]; [lia|].
        rewrite H1. cbv zeta. rewrite H2. cbn [Z.eqb Pos.eqb]. apply Hre5; lia.
      - destruct (Z.eqb_spec c2 125) as [E125|E125]; [|discriminate H].
        subst c2. inversion H; subst items rest. clear H.
        destruct (vl_ctx _ _ _ _ _ Hv Hd4 eq_refl) as [pa [Hr3 [Hlen Hre]]].
        exists (pk ++ pa ++ [125]). split; [rewrite Hl0, Hr3, <- !app_assoc; reflexivity|].
        split; [rewrite !app_length; simpl; lia|].
        intros x k' B Hk' HB. rewrite !app_length in Hk', HB. cbn [length] in Hk', HB.
        destruct k' as [|k']; [lia|].
        rewrite <- !app_assoc. cbn [app members_l].
        destruct (Hpk (pa ++ 125 :: x)) as [rq' [r2' [K1 [K2 K3]]]].
        rewrite K1, Eq. cbn [negb]. rewrite K2, K3, Ecol. cbn [negb].
        destruct (Hre x B) as [r4' [H1 H2]]; [lia|].
        rewrite H1. cbv zeta. rewrite H2. reflexivity.
    Qed.

    Lemma object_l_pre : forall r t rest, object_l vl r = Some (t, rest) ->
      exists pre, r = pre ++ rest /\ (1 <= length pre)%nat /\
        forall x B, (length pre <= B)%nat -> object_l (vl' B) (pre ++ x) = Some (t, x).
    Proof.
      intros r t rest H. unfold object_l in H.
      destruct (drop_ws r) as [|c1 r1] eqn:Hd; [discriminate H|].
      destruct (drop_ws_spec _ _ _ Hd) as [ws [Hr [Hws Hc1]]].
      destruct (c1 =? 125) eqn:E125.
      - inversion H; subst t rest. clear H.
        exists (ws ++ [c1]). split; [rewrite Hr, <- app_assoc; reflexivity|].
        split; [rewrite app_length; simpl; lia|].
        intros x B HB. unfold object_l. rewrite <- app_assoc. cbn [app].
        rewrite drop_ws_ws by assumption. rewrite E125. reflexivity.
      - destruct (members_l vl (S (length r)) (c1 :: r1) []) as [[items rest2]|] eqn:He; [|discriminate H].
        inversion H; subst t rest2. clear H.
        destruct (members_l_pre _ _ _ _ _ He) as [pe [Hl [Hlen Hre]]].
        destruct pe as [|c1' pe]; [simpl in Hlen; lia|].
        cbn [app] in Hl. injection Hl as Hc Hr1. subst c1'.
        exists (ws ++ c1 :: pe). split; [rewrite Hr, Hr1, <- app_assoc; reflexivity|].
        split; [rewrite app_length; simpl; lia|].
        intros x B HB. rewrite app_length in HB. cbn [length] in HB.
        unfold object_l. rewrite <- app_assoc. cbn [app].
        rewrite drop_ws_ws by assumption. rewrite E125.
        change (c1 :: pe ++ x) with ((c1 :: pe) ++ x).
        rewrite Hre; [reflexivity| |].
        + rewrite !app_length. cbn [length]. lia.
        + cbn [length]. lia.
    Qed.
  End Containers.

  (** * values *)

  Lemma value_l_S_nonlit : forall f d c r, c <> 110 -> c <> 102 -> c <> 116 ->
    value_l strtod (S f) d (c :: r) =
      if c =? 34 then
        match string_l r with
        | Some (s, rest) => Some (Node c_cJSON_String (Some s) 0 dzero None [], rest)
        | None => None
        end
      else if (c =? 45) || ((48 <=? c) && (c <=? 57)) then number_l strtod (c :: r)
      else if c =? 91 then
        if c_CJSON_NESTING_LIMIT <=? d then None else array_l (value_l strtod f (d + 1)) r
      else if c =? 123 then
        if c_CJSON_NESTING_LIMIT <=? d then None else object_l (value_l strtod f (d + 1)) r
      else None.
  Proof.
    intros f d c r H1 H2 H3. cbn [value_l]. rewrite !starts_hd_ne by assumption. reflexivity.
  Qed.

  Lemma value_l_pre : forall f d l t rest, value_l strtod f d l = Some (t, rest) ->
    exists pre, l = pre ++ rest /\ (1 <= length pre)%nat /\
      forall x f', follow_ok x -> (length pre <= f')%nat ->
        value_l strtod f' d (pre ++ x) = Some (t, x).
  Proof.
    induction f as [|f IH]; intros d l t rest H; [discriminate H|].
    cbn [value_l] in H.
    destruct (starts [110; 117; 108; 108] l) as [r|] eqn:Enull.
    { inversion H; subst t r. clear H. apply starts_app in Enull.
      exists [110; 117; 108; 108]. split; [exact Enull|]. split; [simpl; lia|].
      intros x f' Hx Hf. destruct f' as [|f']; [simpl in Hf; lia|].
      cbn [value_l]. rewrite starts_lit_app. reflexivity. }
    destruct (starts [102; 97; 108; 115; 101] l) as [r|] eqn:Efalse.
    { inversion H; subst t r. clear H. apply starts_app in Efalse.
      exists [102; 97; 108; 115; 101]. split; [exact Efalse|]. split; [simpl; lia|].
      intros x f' Hx Hf. destruct f' as [|f']; [simpl in Hf; lia|].
      cbn [value_l]. rewrite starts_lit_app. cbn [app]. rewrite starts_hd_ne by lia. reflexivity. }
    destruct (starts [116; 114; 117; 101] l) as [r|] eqn:Etrue.
    { inversion H; subst t r. clear H. apply starts_app in Etrue.
      exists [116; 114; 117; 101]. split; [exact Etrue|]. split; [simpl; lia|].
      intros x f' Hx Hf. destruct f' as [|f']; [simpl in Hf; lia|].
      cbn [value_l]. rewrite starts_lit_app. cbn [app]. rewrite !starts_hd_ne by lia. reflexivity. }
    destruct l as [|c r]; [discriminate H|].
    destruct (Z.eqb_spec c 34) as [E34|E34].
    { (* string *)
      destruct (string_l r) as [[s rest2]|] eqn:Hs; [|discriminate H].
      inversion H; subst t rest2. clear H.
      destruct (string_l_pre _ _ _ Hs) as [ps [Hr [Hlen Hre]]].
      exists (c :: ps). split; [rewrite Hr; reflexivity|]. split; [simpl; lia|].
      intros x f' Hx Hf. destruct f' as [|f']; [simpl in Hf; lia|].
      cbn [app]. rewrite value_l_S_nonlit by lia.
      destruct (Z.eqb_spec c 34) as [_|Hne]; [|contradiction]. rewrite Hre. reflexivity. }
    destruct ((c =? 45) || ((48 <=? c) && (c <=? 57))) eqn:Enum.
    { (* number *)
      destruct (number_l_pre _ _ _ H) as [pn [Hl [Hlen Hre]]].
      destruct pn as [|c' pn]; [simpl in Hlen; lia|].
      cbn [app] in Hl. injection Hl as Hc Hr. subst c'.
      exists (c :: pn). split; [rewrite Hr; reflexivity|]. split; [simpl; lia|].
      intros x f' Hx Hf. destruct f' as [|f']; [simpl in Hf; lia|].
      assert (Hrange : c = 45 \/ 48 <= c <= 57).
      { apply orb_true_iff in Enum as [E|E]; [left; apply Z.eqb_eq; exact E|right].
        apply andb_true_iff in E as [E1 E2]. apply Z.leb_le in E1. apply Z.leb_le in E2. lia. }
      cbn [app]. rewrite value_l_S_nonlit by lia.
      destruct (Z.eqb_spec c 34) as [Heq|_]; [contradiction|]. rewrite Enum.
      apply (Hre x Hx). }
    destruct (Z.eqb_spec c 91) as [E91|E91].
    { (* array *)
      destruct (c_CJSON_NESTING_LIMIT <=? d) eqn:Edepth; [discriminate H|].
      destruct (array_l_pre (value_l strtod f (d + 1)) (fun B => value_l strtod B (d + 1))
                  (IH (d + 1)) _ _ _ H) as [pa [Hr [Hlen Hre]]].
      exists (c :: pa). split; [rewrite Hr; reflexivity|]. split; [simpl; lia|].
      intros x f' Hx Hf. destruct f' as [|f']; [simpl in Hf; lia|]. cbn [length] in Hf.
      cbn [app]. rewrite value_l_S_nonlit by lia.
      destruct (Z.eqb_spec c 34) as [Heq|_]; [contradiction|]. rewrite Enum.
      destruct (Z.eqb_spec c 91) as [_|Hne]; [|contradiction]. rewrite Edepth.
      apply (Hre x f'). lia. }
    destruct (Z.eqb_spec c 123) as [E123|E123]; [|discriminate H].
    { (* object *)
      destruct (c_CJSON_NESTING_LIMIT <=? d) eqn:Edepth; [discriminate H|].
      destruct (object_l_pre (value_l strtod f (d + 1)) (fun B => value_l strtod B (d + 1))
                  (IH (d + 1)) _ _ _ H) as [pa [Hr [Hlen Hre]]].
      exists (c :: pa). split; [rewrite Hr; reflexivity|]. split; [simpl; lia|].
      intros x f' Hx Hf. destruct f' as [|f']; [simpl in Hf; lia|]. cbn [length] in Hf.
      cbn [app]. rewrite value_l_S_nonlit by lia.
      destruct (Z.eqb_spec c 34) as [Heq|_]; [contradiction|]. rewrite Enum.
      destruct (Z.eqb_spec c 91) as [Heq|_]; [contradiction|].
      destruct (Z.eqb_spec c 123) as [_|Hne]; [|contradiction]. rewrite Edepth.
      apply (Hre x f'). lia. }
  Qed.

  (** * whole texts *)

  Theorem text_l_prefix_sec : forall l t rest,
    text_l strtod l false = Some (t, rest) ->
    exists pre, l = pre ++ rest /\ text_l strtod pre false = Some (t, []).
  Proof.
    intros l t rest H. unfold text_l in H.
    set (l1 := match starts [239; 187; 191] l with Some r => r | None => l end) in *.
    destruct (value_l strtod (S (length l)) 0 (drop_ws l1)) as [[t' rest']|] eqn:Hv; [|discriminate H].
    inversion H; subst t' rest'. clear H.
    destruct (value_l_pre _ _ _ _ _ Hv) as [pv [Hd [Hlen Hre]]].
    destruct pv as [|c pv]; [simpl in Hlen; lia|].
    cbn [app] in Hd.
    destruct (drop_ws_spec _ _ _ Hd) as [ws [Hl1 [Hws Hc]]].
    assert (Hval : forall n, (length (c :: pv) <= n)%nat ->
                     value_l strtod n 0 (drop_ws (ws ++ c :: pv)) = Some (t, [])).
    { intros n Hn. rewrite drop_ws_ws by assumption.
      rewrite <- (app_nil_r (c :: pv)). apply Hre; [exact I|exact Hn]. }
    destruct (starts [239; 187; 191] l) as [r|] eqn:Ebom; subst l1.
    - apply starts_app in Ebom.
      exists ([239; 187; 191] ++ ws ++ c :: pv). split.
      { rewrite Ebom, Hl1. rewrite <- !app_assoc. reflexivity. }
      unfold text_l. rewrite starts_lit_app. rewrite Hval; [reflexivity|].
      rewrite !app_length. cbn [length]. lia.
    - exists (ws ++ c :: pv). split.
      { rewrite Hl1. rewrite <- !app_assoc. reflexivity. }
      unfold text_l.
      destruct (starts [239; 187; 191] (ws ++ c :: pv)) as [q|] eqn:Ebom2.
      { apply (starts_mono _ _ _ rest) in Ebom2.
        rewrite <- app_assoc in Ebom2. cbn [app] in Ebom2. rewrite <- Hl1 in Ebom2. congruence. }
      rewrite Hval; [reflexivity|]. rewrite !app_length. cbn [length]. lia.
  Qed.
End WithStrtod.

Theorem text_l_prefix : forall strtod l t rest,
  strtod_ok strtod -> strtod_stable strtod ->
  text_l strtod l false = Some (t, rest) ->
  exists pre, l = pre ++ rest /\ text_l strtod pre false = Some (t, []).
Proof.
  intros strtod l t rest Hok Hstable H. exact (text_l_prefix_sec strtod Hok Hstable l t rest H).
Qed.

(* the hypotheses are satisfiable: the executable reference strtod meets both *)
Corollary text_l_prefix_ref : forall l t rest,
  text_l strtod_ref l false = Some (t, rest) ->
  exists pre, l = pre ++ rest /\ text_l strtod_ref pre false = Some (t, []).
Proof.
  intros l t rest H.
  exact (text_l_prefix strtod_ref l t rest (proj1 strtod_ref_contract) (proj2 strtod_ref_contract) H).
Qed.

Print Assumptions text_l_prefix_ref.
Print Assumptions text_l_prefix.
