"""printgen.py — shared pieces of the printer properties C04 / C05 / C09 (area `print`):
explicit trees (every field of the C struct), an INDEPENDENT python renderer of what the print
functions must produce, a strict RFC 8259 reader (python's json with the lenient extensions
switched off), a string-aware whitespace stripper, generators aimed at the case splits of
cJSON.c's printer and of coq/PrintProofs.v."""
import json, math, random, struct, sys
sys.setrecursionlimit(20000)
from .common import *

AREA = 'print'
IMPL_FLAGS = '-Wl,--wrap=malloc,--wrap=realloc,--wrap=free'
MODEL_FILES = ('PrintDefs.v (render; printbuffer, ensure, update_offset, print_number, print_string_ptr, print_value, print_array, '
               'print_object, print, cJSON_PrintBuffered, cJSON_PrintPreallocated), LibcPrint.v (reference %d / %1.15g / %1.17g / sscanf %lg), '
               'Dbl.v (compare_double)')
EPS = 2.220446049250313e-16


class PN:
    """one cJSON node: type (with flag bits), valuestring, valueint, valuedouble, string (key), children"""
    __slots__ = ('ty', 'vs', 'vi', 'vd', 'key', 'ch')
    def __init__(self, ty, vs=None, vi=0, vd=0.0, key=None, ch=None):
        self.ty = ty; self.vs = vs; self.vi = vi; self.vd = vd; self.key = key; self.ch = ch if ch is not None else []
    def copy(self):
        return PN(self.ty, self.vs, self.vi, self.vd, self.key, [c.copy() for c in self.ch])


def ptokens(n):
    t = ['N', str(n.ty), htok(n.vs), str(n.vi), dtok(n.vd), htok(n.key), str(len(n.ch))]
    for c in n.ch: t += ptokens(c)
    return t

def pline(n): return ' '.join(ptokens(n))

def parse_dump(toks, pos=0):
    """tokens 'N ty vs vi vd key k child...' -> (PN, next position)"""
    if toks[pos] != 'N': raise ValueError('bad dump')
    ty = int(toks[pos + 1]); vs = None if toks[pos + 2] == '-' else unhx(toks[pos + 2]); vi = int(toks[pos + 3])
    vd = float('nan') if toks[pos + 4] == 'nan' else bits_dbl(int(toks[pos + 4], 16))
    key = None if toks[pos + 5] == '-' else unhx(toks[pos + 5]); k = int(toks[pos + 6]); pos += 7
    ch = []
    for _ in range(k):
        c, pos = parse_dump(toks, pos); ch.append(c)
    return PN(ty, vs, vi, vd, key, ch), pos


# ------------------------------------------------------------------ independent renderer
def compare_double(a, b):
    m = max(abs(a), abs(b))
    if m > 1.7976931348623157e308: return a == b
    return abs(a - b) <= m * EPS

def num_text(vi, vd):
    """what print_number must produce: python's % formatting is correctly rounded like glibc's printf"""
    if vd != vd or vd in (float('inf'), float('-inf')): return b'null'
    if vd == float(vi): return b'%d' % vi
    s = '%.15g' % vd
    if compare_double(float(s), vd): return s.encode()
    return ('%.17g' % vd).encode()

_ESC = {0x22: b'\\"', 0x5c: b'\\\\', 8: b'\\b', 12: b'\\f', 10: b'\\n', 13: b'\\r', 9: b'\\t'}
def str_text_bytes(s):
    if s is None: return b'""'
    out = bytearray(b'"')
    for c in s:
        if c == 0: break
        if c in _ESC: out += _ESC[c]
        elif c < 32: out += b'\\u%04x' % c
        else: out.append(c)
    out += b'"'
    return bytes(out)

def cstr_of(s):
    i = s.find(b'\x00')
    return s if i < 0 else s[:i]

def py_render(n, fmt, depth=0):
    """the text the print functions must return (bytes), or None when printing must fail"""
    t = n.ty & 0xFF
    if t == T_NULL: return b'null'
    if t == T_FALSE: return b'false'
    if t == T_TRUE: return b'true'
    if t == T_NUMBER: return num_text(n.vi, n.vd)
    if t == T_RAW: return None if n.vs is None else cstr_of(n.vs)
    if t == T_STRING: return str_text_bytes(n.vs)
    if t == T_ARRAY:
        parts = [py_render(c, fmt, depth + 1) for c in n.ch]
        if any(p is None for p in parts): return None
        return b'[' + (b', ' if fmt else b',').join(parts) + b']'
    if t == T_OBJECT:
        out = bytearray(b'{\n' if fmt else b'{')
        for i, c in enumerate(n.ch):
            v = py_render(c, fmt, depth + 1)
            if v is None: return None
            if fmt: out += b'\t' * (depth + 1)
            out += str_text_bytes(c.key) + (b':\t' if fmt else b':') + v
            if i + 1 < len(n.ch): out += b','
            if fmt: out += b'\n'
        if fmt: out += b'\t' * depth
        out += b'}'
        return bytes(out)
    return None


# ------------------------------------------------------------------ strict JSON
def strip_ws(text):
    """removes space / tab / newline / CR outside string literals"""
    out = bytearray(); i = 0; instr = False
    while i < len(text):
        c = text[i]
        if instr:
            out.append(c)
            if c == 0x5c and i + 1 < len(text): out.append(text[i + 1]); i += 1
            elif c == 0x22: instr = False
        else:
            if c == 0x22: instr = True; out.append(c)
            elif c not in (0x20, 0x09, 0x0a, 0x0d): out.append(c)
        i += 1
    return bytes(out)

class NotStrict(Exception): pass

def _bad_const(name): raise NotStrict('non-finite literal ' + name)

def strict_loads(text):
    """RFC 8259 reader: python's json with NaN/Infinity rejected, control characters in strings rejected
    (strict=True), UTF-8 required; objects come back as lists of pairs (order and duplicates kept)"""
    try: s = text.decode('utf-8')
    except UnicodeDecodeError as e: raise NotStrict('not UTF-8: %s' % e)
    if s[:1] == '﻿': raise NotStrict('BOM')
    try:
        return json.loads(s, parse_constant=_bad_const, object_pairs_hook=lambda p: ('OBJ', p), strict=True)
    except NotStrict: raise
    except Exception as e: raise NotStrict(str(e))

def is_utf8(b):
    try: b.decode('utf-8'); return True
    except UnicodeDecodeError: return False

def printable(n, depth=0):
    """the precondition of C04 / C05: null, booleans, numbers, strings, arrays, objects; members have keys; no NULL strings"""
    t = n.ty & 0xFF
    if t in (T_NULL, T_FALSE, T_TRUE, T_NUMBER): return True
    if t == T_STRING: return n.vs is not None and b'\x00' not in n.vs
    if t == T_ARRAY: return all(printable(c, depth + 1) for c in n.ch)
    if t == T_OBJECT: return all(c.key is not None and b'\x00' not in c.key and printable(c, depth + 1) for c in n.ch)
    return False

def all_nodes(n):
    yield n
    for c in n.ch: yield from all_nodes(c)

def utf8_tree(n):
    return all((x.vs is None or is_utf8(x.vs)) and (x.key is None or is_utf8(x.key)) for x in all_nodes(n))

def finite_tree(n):
    return all((x.ty & 0xFF) != T_NUMBER or (x.vd == x.vd and abs(x.vd) != float('inf')) for x in all_nodes(n))

def num_close(x, d):
    """x: decoded python number (int or float), d: the node's double"""
    try: fx = float(x)
    except OverflowError: return False
    if d == 0: return fx == 0
    if d == math.floor(d) and abs(d) < 1e15: return fx == d
    return abs(fx - d) <= max(abs(fx), abs(d)) * EPS      # one part in 2^52, as compare_double measures it

def value_matches(v, n):
    """does the strictly decoded value v equal the tree n (non-finite numbers as null)?  returns None or a reason"""
    t = n.ty & 0xFF
    if t == T_NULL: return None if v is None else 'null expected'
    if t == T_FALSE: return None if v is False else 'false expected'
    if t == T_TRUE: return None if v is True else 'true expected'
    if t == T_NUMBER:
        if n.vd != n.vd or abs(n.vd) == float('inf'): return None if v is None else 'non-finite number must print as null'
        if isinstance(v, bool) or not isinstance(v, (int, float)): return 'number expected, got %r' % (v,)
        return None if num_close(v, n.vd) else 'number %r decoded as %r' % (n.vd, v)
    if t == T_STRING:
        if not isinstance(v, str): return 'string expected'
        return None if v.encode('utf-8', 'surrogatepass') == (n.vs or b'') else 'string bytes differ: %r vs %r' % (v, n.vs)
    if t == T_ARRAY:
        if not isinstance(v, list): return 'array expected'
        if len(v) != len(n.ch): return 'array length %d, expected %d' % (len(v), len(n.ch))
        for x, c in zip(v, n.ch):
            r = value_matches(x, c)
            if r: return r
        return None
    if t == T_OBJECT:
        if not (isinstance(v, tuple) and v[0] == 'OBJ'): return 'object expected'
        p = v[1]
        if len(p) != len(n.ch): return 'object size %d, expected %d' % (len(p), len(n.ch))
        for (k, x), c in zip(p, n.ch):
            if k.encode('utf-8', 'surrogatepass') != (c.key or b''): return 'key %r, expected %r' % (k, c.key)
            r = value_matches(x, c)
            if r: return r
        return None
    return 'unprintable node'


# ------------------------------------------------------------------ generators
def dbits(x): return struct.unpack('<Q', struct.pack('<d', float(x)))[0]

BOUNDARY_NUMS = NUMS + [
    1e15, 1e15 - 1, 1e15 + 2, 999999999999999.9, 1e16, 9999999999999998.0, 1e17, 1.2345678901234567e17, 1e-5, 1e-4, 9.999999999999999e-5, 0.0001, 0.00012345,
    0.00001, 1.5e-5, 123456789012345678, 0.1, 1 / 3, 2 / 3, 1.7976931348623157e308, -1.7976931348623157e308, 5e-324, -5e-324, -0.0, 0.0,
    2147483647.0, 2147483648.0, 2147483646.5, 2147483647.5, -2147483648.0, -2147483649.0, -2147483648.5, -2147483647.5, 4294967295.0, 1e9, 1e10, 123456.789,
    1.0e21, 1.0e-300, 4.9406564584124654e-324, 2.2250738585072009e-308, 0.1 + 0.2, 100.0, 1e2, 1e5, 12345678.9, 0.5, 0.25, 1.0000000000000002,
    0.9999999999999999, 9007199254740993.0, 9007199254740992.0, 72057594037927936.0, 1.0e100, 1.23e-5, 123.456, 5e-5, 99999.99999999999,
    3.0000000000000004, 1e23, 8.5e-5, 6.02214076e23, 1.602176634e-19, float('inf'), float('-inf'), float('nan')]

STR_BYTES = [b'', b'x', b'hello world', b'a\\', b'a\\\\', b'\\"', b'q"uo"te', b'\n\t\r\b\x0c', b'\x01\x1f', 'é€\U0001F600'.encode(), b'/', b'a/b',
             b'\x7f', b'tab\there', b'back\\slash', b'\\\\"', b'end\\', b'\x80\xff\xfe', b'\xc3', b'\xed\xa0\x80', bytes(range(1, 32)), bytes(range(0x7f, 0x100)),
             b'\x1f', b'\x20', b'\x10', b'\x0b', b'\x0e\x0f', b'"', b'\\', b'abc' * 9, b'\x01' * 7, b'k' * 40, b'</script>', b'\xe2\x82\xac', b'\xf0\x9f\x98\x80']
KEY_BYTES = [b'a', b'b', b'A', b'key', b'', b'a/b', b'~0', b' ', 'é'.encode(), b'k\\', b'q"', b'x y', b'\n', b'\x01', b'\xff', b'tab\t', b'0', b'long key ' * 3]

def rand_bytes(rng, maxlen=12, classes=None):
    pools = [list(range(0x20, 0x7f)), [0x22, 0x5c, 8, 12, 10, 13, 9], list(range(1, 0x20)), [0x7f], list(range(0x80, 0x100))]
    n = rng.randrange(0, maxlen + 1)
    out = bytearray()
    for _ in range(n):
        pool = rng.choice(pools if classes is None else [pools[i] for i in classes])
        out.append(rng.choice(pool))
    return bytes(out)

def rand_utf8(rng, maxlen=8):
    cps = [rng.choice([rng.randrange(1, 0x80), rng.randrange(0x80, 0x800), rng.randrange(0x800, 0xd800), rng.randrange(0xe000, 0x10000), rng.randrange(0x10000, 0x110000),
                       rng.choice([0x22, 0x5c, 8, 9, 10, 12, 13, 0x1f, 0x7f])]) for _ in range(rng.randrange(0, maxlen + 1))]
    return ''.join(chr(c) for c in cps).encode('utf-8')

def rand_double(rng):
    k = rng.randrange(12)
    if k == 0: return rng.choice(BOUNDARY_NUMS)
    if k == 1: return float(rng.randrange(-2**31 - 3, 2**31 + 3))
    if k == 2: return float(rng.randrange(-1000, 1000))
    if k == 3: return rng.randrange(-10**6, 10**6) / rng.choice([2, 4, 8, 10, 100, 1000, 3, 7])
    if k == 4:
        b = rng.getrandbits(64)
        if (b >> 52) & 0x7ff == 0x7ff: b ^= 1 << 62
        return bits_dbl(b)
    if k == 5: return rng.randrange(10**14, 10**18) / 10.0 ** rng.randrange(0, 25)
    if k == 6: return float('%de%d' % (rng.randrange(1, 10**rng.randrange(1, 18)), rng.randrange(-30, 30)))
    if k == 7: return rng.random()
    if k == 8: return float(rng.randrange(-2**53, 2**53))
    if k == 9: return bits_dbl(dbits(rng.choice([1e15, 1e16, 1e-5, 1e-4, 1e17, 0.001, 2147483647.0, 1.0])) + rng.randrange(-3, 4))
    if k == 10: return 10.0 ** rng.randrange(-20, 25) * rng.choice([1, 1, 9.999999999999999, 0.9999999999999999, -1])
    return rng.choice([0.0, -0.0, 1.0, -1.0])

def num_node(rng, d=None, key=None, consistent=None):
    if d is None: d = rand_double(rng)
    d = float(d)
    vi = sat_int(d)
    if consistent is None: consistent = rng.random() < 0.85
    if not consistent:
        vi = rng.choice([0, 1, -1, vi + 1, vi - 1, INT_MAX, INT_MIN, int(round(d)) if d == d and abs(d) < 2**31 else 7, rng.randrange(-100, 100)])
        vi = max(INT_MIN, min(INT_MAX, vi))
    return PN(T_NUMBER | rng.choice([0, 0, 0, F_REF, F_CONST]), None, vi, d, key)

def leaf(rng, key=None, wf=True):
    k = rng.randrange(10 if wf else 14)
    fl = rng.choice([0, 0, 0, F_CONST]) if key is not None else 0
    if k == 0: return PN(T_NULL | fl, key=key)
    if k == 1: return PN(T_TRUE | fl, vi=rng.choice([0, 1]), key=key)
    if k == 2: return PN(T_FALSE | fl, key=key)
    if k in (3, 4, 5):
        n = num_node(rng, key=key); n.ty |= fl
        if wf and (n.vd != n.vd or abs(n.vd) == float('inf')): n.vd = 1.5; n.vi = 1
        return n
    if k in (6, 7, 8):
        s = rng.choice(STR_BYTES) if rng.random() < 0.5 else (rand_utf8(rng) if wf and rng.random() < 0.7 else rand_bytes(rng))
        return PN(T_STRING | fl | rng.choice([0, 0, F_REF]), vs=s, key=key)
    if k == 9: return PN(rng.choice([T_ARRAY, T_OBJECT]) | fl, key=key)
    if k == 10: return PN(T_RAW | fl, vs=rng.choice([b'raw', b'', b'{"x":1}', b' \t', b'123', b'nul', rand_bytes(rng, 6)]), key=key)
    if k == 11: return PN(T_RAW | fl, vs=None, key=key)
    if k == 12: return PN(rng.choice([0, 3, 5, 24, 96, 255, 7, 48]) | fl, vs=rng.choice([None, b'x']), key=key)
    return PN(T_STRING | fl, vs=None, key=key)

def rand_tree(rng, depth=3, key=None, wf=True, width=4):
    if depth <= 0 or rng.random() < 0.4: return leaf(rng, key, wf)
    n = rng.choice([0, 1, 1, 2, 2, 3, width])
    if rng.random() < 0.5:
        return PN(T_ARRAY, key=key, ch=[rand_tree(rng, depth - 1, (None if rng.random() < 0.9 else b'ignored'), wf, width) for _ in range(n)])
    ch = []
    for _ in range(n):
        k = rng.choice(KEY_BYTES) if rng.random() < 0.7 else (rand_utf8(rng, 5) if wf else rand_bytes(rng, 5))
        if not wf and rng.random() < 0.1: k = None
        ch.append(rand_tree(rng, depth - 1, k, wf, width))
    return PN(T_OBJECT, key=key, ch=ch)

def last_token_trees():
    """every token kind as the LAST token written (the slack of each ensure call), at top level and just before each kind of closer"""
    leaves = [PN(T_NULL), PN(T_TRUE, vi=1), PN(T_FALSE), PN(T_NUMBER, vi=0, vd=0.0), PN(T_NUMBER, vi=-7, vd=-7.0), PN(T_NUMBER, vi=0, vd=0.5),
              PN(T_NUMBER, vi=INT_MIN, vd=-1.7976931348623157e308), PN(T_NUMBER, vi=0, vd=float('nan')), PN(T_NUMBER, vi=0, vd=1 / 3),
              PN(T_STRING, vs=b''), PN(T_STRING, vs=b'abc'), PN(T_STRING, vs=b'a"b'), PN(T_STRING, vs=b'\x01'), PN(T_STRING, vs=b'\n\x1f\\'), PN(T_STRING, vs=None),
              PN(T_RAW, vs=b'raw'), PN(T_RAW, vs=b''), PN(T_RAW, vs=None), PN(T_ARRAY), PN(T_OBJECT), PN(0), PN(T_STRING | T_NUMBER)]
    out = []
    for l in leaves:
        out.append(l.copy())
        out.append(PN(T_ARRAY, ch=[l.copy()]))
        out.append(PN(T_ARRAY, ch=[PN(T_NULL), l.copy()]))
        out.append(PN(T_ARRAY, ch=[l.copy(), PN(T_TRUE, vi=1)]))
        c = l.copy(); c.key = b'k'
        out.append(PN(T_OBJECT, ch=[c]))
        c2 = l.copy(); c2.key = b'a\tb'
        out.append(PN(T_OBJECT, ch=[PN(T_NUMBER, vi=1, vd=1.0, key=b''), c2]))
        c3 = l.copy(); c3.key = None
        out.append(PN(T_OBJECT, ch=[c3, PN(T_NULL, key=b'z')]))
        out.append(PN(T_ARRAY, ch=[PN(T_OBJECT, ch=[PN(T_ARRAY, ch=[l.copy()], key=b'in')])]))
    return out

def nested(depth, kind, inner=None, fmtkeys=True):
    n = inner if inner is not None else PN(T_NUMBER, vi=1, vd=1.0)
    for i in range(depth):
        k = kind if kind in (T_ARRAY, T_OBJECT) else (T_ARRAY if i % 2 else T_OBJECT)
        if k == T_OBJECT: n.key = b'k'; n = PN(T_OBJECT, ch=[n])
        else: n = PN(T_ARRAY, ch=[n])
    return n

def number_stream(rng, count):
    """doubles aimed at the %g style switches, the %d / %1.15g / %1.17g decision and the reference libc"""
    out = [d for d in BOUNDARY_NUMS]
    for e in range(-8, 24): out += [10.0 ** e, -(10.0 ** e), bits_dbl(dbits(10.0 ** e) - 1), bits_dbl(dbits(10.0 ** e) + 1), 5 * 10.0 ** e, 9.5 * 10.0 ** e]
    for e in (-1074, -1073, -1023, -1022, -1021, -52, -1, 0, 1, 31, 32, 52, 53, 54, 63, 64, 1023): out += [2.0 ** e, bits_dbl(dbits(2.0 ** e) + 1)]
    while len(out) < count: out.append(rand_double(rng))
    return out


def tree_of_line(line, first):
    """the tree given by the tokens of a case line from position `first` on"""
    t, _ = parse_dump(line.split(' '), first)
    return t
