(** CoreRefineDupExample.v — non-vacuity for property C11: concrete heaps built by RUNNING the
    constructors of CoreDefs.v, on which the hypotheses of the duplication theorems hold.

    * [ex_h]: an object with an owned key + owned string, a constant key, a string reference
      and an array reference (whose [child] points into another array); [ex_WF], [ex_NoLeak],
      [ex_closed], [ex_src] are the hypotheses of [dup_copy_src]; [ex_success]: the copy is made
      (no refused request); [ex_failure]: the third request of the call is refused, NULL is
      returned and the heap is as before;
    * [loop_h], [cyc2_h]: a node that is its own child, a 2-cycle: [dup_limit] applies, the
      result is NULL for every oracle, the heap is as before. *)
From CJ Require Import Base Dbl Heap Forest ForestLemmas CoreSpec CoreDefs CoreRefineBase CoreRefine CoreRefineDelete
  CoreRefineDupBase CoreRefineDupTree CoreRefineDupNode CoreRefineDupLoop CoreRefineDup CoreRefineDupForest
  CoreRefineDupLimit CoreRefineDupUnroll.
From CJ.gen Require Import Constants.
From stdpp Require Import gmap.
From Coq Require Import Lia Floats.SpecFloat.

(** * deciding the hypotheses on concrete heaps *)
Global Instance ptr_eq_dec : EqDecision ptr.
Proof. unfold ptr. apply _. Defined.
Global Instance spec_float_eq_dec : EqDecision spec_float.
Proof. solve_decision. Defined.
Global Instance ndata_eq_dec : EqDecision ndata.
Proof. solve_decision. Defined.
Global Instance rdata_eq_dec : EqDecision rdata.
Proof. solve_decision. Defined.

Ltac dec_vm := apply (bool_decide_unpack _); vm_compute; exact I.

Definition closedb (h : heap) : bool :=
  bool_decide (set_Forall (fun k => (k < h_next h)%positive)
                 (h_live h ∪ dom (h_lnk h) ∪ dom (h_dat h) ∪ dom (h_str h))).
Lemma closedb_sound h : closedb h = true -> Closed h.
Proof.
  intros H. apply bool_decide_eq_true in H. intros k Hk.
  assert (Hn : k ∉ h_live h ∪ dom (h_lnk h) ∪ dom (h_dat h) ∪ dom (h_str h)).
  { intros Hin. specialize (H k Hin). cbn in H. lia. }
  rewrite !not_elem_of_union in Hn. destruct Hn as [[[H1 H2] H3] H4].
  split_and!; [done|by apply not_elem_of_dom..].
Qed.

(** a source that is complete on level [k] is a source on every deeper level *)
Lemma src_t_deeper h lf k : forall t, complete t -> src_t h lf k t -> src_t h lf (S k) t.
Proof.
  induction k as [|k IH]; intros [i d cs] Hc.
  - rewrite src_t_O, src_t_S. intros [Hn ->]. split; [done|]. split; [|done]. intros _. by apply complete_root in Hc.
  - rewrite (src_t_S h lf k), (src_t_S h lf (S k)). intros (Hn & Hr & Hl). split; [done|]. split; [done|].
    apply complete_children in Hc. clear Hn Hr. induction cs as [|c r IHr]; [done|].
    rewrite src_list_cons in *. apply Forall_cons in Hc as [Hc1 Hc2]. destruct Hl as (H1 & H2 & H3).
    split; [done|]. split; [by apply IH|by apply IHr].
Qed.
Lemma src_t_le h lf k k' t : k <= k' -> complete t -> src_t h lf k t -> src_t h lf k' t.
Proof. induction 1 as [|k' Hle IH]; intros Hc Hs; [done|]. apply src_t_deeper; [done|by apply IH]. Qed.

(** * the example with ownership features *)
Definition d_one : dbl := S754_finite false 4503599627370496 (-52).
Definition orc0 : nat -> bool := fun _ => false.

Definition ex_build : M (ptr * ptr * ptr) :=
  kx <~ foreign_bytes [120;0]%Z ;;                    (* "x" *)
  kc <~ foreign_bytes [99;0]%Z ;;                     (* "c": used as a constant key *)
  sv <~ foreign_bytes [104;105;0]%Z ;;                (* "hi" *)
  kr <~ foreign_bytes [114;0]%Z ;;                    (* "r" *)
  ka <~ foreign_bytes [97;0]%Z ;;                     (* "a" *)
  obj <~ cJSON_CreateObject orc0 ;;
  s <~ cJSON_CreateString orc0 sv ;;
  cJSON_AddItemToObject orc0 obj kx s ;;;             (* owned key, owned string *)
  n <~ cJSON_CreateNumber orc0 d_one ;;
  cJSON_AddItemToObjectCS orc0 obj kc n ;;;           (* constant key *)
  sr <~ cJSON_CreateStringReference orc0 sv ;;
  cJSON_AddItemToObject orc0 obj kr sr ;;;            (* string reference *)
  arr <~ cJSON_CreateArray orc0 ;;
  e <~ cJSON_CreateTrue orc0 ;;
  cJSON_AddItemToArray arr e ;;;
  ar <~ cJSON_CreateArrayReference orc0 e ;;
  cJSON_AddItemToObject orc0 obj ka ar ;;;            (* array reference: child points into [arr] *)
  ret (obj, arr, e).

Definition ex_run := Eval vm_compute in ex_build empty_heap.
Definition ex_h : heap := match ex_run with Ret (_, h) => h | Err _ => empty_heap end.

Definition d6 := mkRD 64 None 0 dzero None None.
Definition d7 := mkRD 16 (Some 8%positive) 0 dzero (Some 9%positive) None.
Definition d10 := mkRD 520 None 1 d_one (Some 2%positive) None.
Definition d11 := mkRD 272 (Some 3%positive) 0 dzero (Some 12%positive) None.
Definition d15 := mkRD 288 None 0 dzero (Some 16%positive) (Some 14%positive).
Definition d13 := mkRD 32 None 0 dzero None None.
Definition d14 := mkRD 2 None 0 dzero None None.
(** the forest: the object (the reference node 15 has no children of its own) and the array *)
Definition ex_F : forest :=
  [T 6 d6 [T 7 d7 []; T 10 d10 []; T 11 d11 []; T 15 d15 []]; T 13 d13 [T 14 d14 []]]%positive.
(** what the duplication reads from the object: below the reference node, the array's chain *)
Definition ex_t : tree :=
  (T 6 d6 [T 7 d7 []; T 10 d10 []; T 11 d11 []; T 15 d15 [T 14 d14 []]])%positive.

Lemma ex_run_ok : ex_build empty_heap = Ret (Some 6%positive, Some 13%positive, Some 14%positive, ex_h).
Proof. vm_compute. reflexivity. Qed.

Lemma ex_WF : WF ex_h ex_F.
Proof.
  constructor.
  - dec_vm.
  - dec_vm.
  - dec_vm.
  - dec_vm.
  - apply Forall_forall. dec_vm.
  - apply Forall_forall. dec_vm.
  - apply Forall_forall. dec_vm.
  - unfold ref_ok. dec_vm.
Qed.
Lemma ex_NoLeak : NoLeak ex_h ex_F.
Proof. unfold NoLeak. change (set_Forall (fun b => b ∈ owned ex_F) (lib_live ex_h)). dec_vm. Qed.
Lemma ex_closed : Closed ex_h.
Proof. apply closedb_sound. vm_compute. reflexivity. Qed.

Ltac ex_readable :=
  eexists; split; [split; vm_compute; reflexivity|vm_compute; reflexivity].
Ltac ex_node :=
  split_and!;
  [ split; vm_compute; reflexivity
  | apply Nat.ltb_lt; vm_compute; reflexivity
  | let b := fresh "b" in let Hb := fresh "Hb" in
    intros b Hb; vm_compute in Hb; first [discriminate Hb | injection Hb as <-; ex_readable]
  | let b := fresh "b" in let Hb := fresh "Hb" in let Hc := fresh "Hc" in
    intros b Hb Hc; vm_compute in Hb, Hc; first [discriminate Hb | discriminate Hc | injection Hb as <-; ex_readable] ].
Ltac ex_link := eexists; split; vm_compute; reflexivity.

Lemma ex_src2 : src_t ex_h (Pos.to_nat (h_next ex_h)) 2 ex_t.
Proof.
  unfold ex_t. rewrite src_t_S. split; [ex_node|]. split; [intros H; discriminate H|].
  rewrite !src_list_cons. split_and!; try ex_link; try exact I.
  - rewrite src_t_S. split; [ex_node|]. split; [reflexivity|exact I].
  - rewrite src_t_S. split; [ex_node|]. split; [reflexivity|exact I].
  - rewrite src_t_S. split; [ex_node|]. split; [reflexivity|exact I].
  - rewrite src_t_S. split; [ex_node|]. split; [intros H; discriminate H|].
    rewrite !src_list_cons. split_and!; try ex_link; try exact I.
    rewrite src_t_O. split; [ex_node|reflexivity].
Qed.
Lemma ex_complete : complete ex_t.
Proof.
  intros i d He. unfold ex_t in He. rewrite !flat_t_unfold in He. cbn in He.
  repeat (apply elem_of_cons in He as [He|He]; [first [discriminate He|by injection He as -> ->]|]).
  by apply elem_of_nil in He.
Qed.
Lemma ex_src : src_t ex_h (Pos.to_nat (h_next ex_h)) (Z.to_nat c_CJSON_CIRCULAR_LIMIT) ex_t.
Proof.
  apply (src_t_le _ _ 2); [|apply ex_complete|apply ex_src2].
  change 2 with (Z.to_nat 2). apply Z2Nat.inj_le; unfold c_CJSON_CIRCULAR_LIMIT; lia.
Qed.

(** the call succeeds when no request is refused: [WF] of the extended forest, the copy relation *)
Theorem ex_success :
  exists tc h',
    cJSON_Duplicate orc0 (Some 6%positive) true ex_h = Ret (Some (tid tc), h') /\
    WF h' (ex_F ++ [tc]) /\ NoLeak h' (ex_F ++ [tc]) /\ copy_of h' ex_t tc /\
    (forall b, b ∈ owned ex_F -> b ∉ owned [tc]).
Proof.
  destruct (dup_copy_src orc0 ex_h ex_F ex_t ex_WF ex_closed ex_src) as (r & h' & Hrun & [H|H]).
  - destruct H as (_ & _ & _ & _ & _ & _ & _ & _ & _ & _ & Hof). destruct (Hof ex_complete) as (j & _ & Hj).
    discriminate.
  - destruct H as (tc & -> & W' & NL & Hcp & _ & _ & _ & Hdis & _). exists tc, h'.
    split; [exact Hrun|]. split; [done|]. split; [by apply NL, ex_NoLeak|]. split; done.
Qed.

(** the third request of the call is refused (requests are counted over the whole history:
    [h_req ex_h = 11]): NULL, and the heap is as before *)
Definition orc3 : nat -> bool := fun k => Nat.eqb k 13.

Theorem ex_failure :
  exists h',
    cJSON_Duplicate orc3 (Some 6%positive) true ex_h = Ret (None, h') /\
    WF h' ex_F /\ NoLeak h' ex_F /\
    h_lnk h' = h_lnk ex_h /\ h_dat h' = h_dat ex_h /\ h_str h' = h_str ex_h /\ h_live h' = h_live ex_h /\
    lib_live h' = lib_live ex_h.
Proof.
  destruct (dup_copy_src orc3 ex_h ex_F ex_t ex_WF ex_closed ex_src) as (r & h' & Hrun & H).
  assert (Hnone : exists h2, cJSON_Duplicate orc3 (Some 6%positive) true ex_h = Ret (None, h2)).
  { vm_compute. eexists. reflexivity. }
  destruct Hnone as [h2 E]. change (tid ex_t) with 6%positive in Hrun. rewrite E in Hrun. injection Hrun as <- <-.
  destruct H as [H|(tc & Hc & _)]; [|discriminate Hc].
  destruct H as (_ & W' & NL & E1 & E2 & E3 & E4 & _ & E6 & _).
  exists h2. split; [exact E|]. split; [done|]. split; [by apply NL, ex_NoLeak|]. by split_and!.
Qed.

(** the same through the forest-level statement for reference nodes ([dup_copy_ref]) *)
Definition readableb (h : heap) (b : positive) : bool :=
  bool_decide (b ∈ h_live h) && match h_str h !! b with Some s => existsb (Z.eqb 0) s | None => false end.
Lemma readableb_sound h b : readableb h b = true -> readable h b.
Proof.
  unfold readableb. intros H. apply andb_true_iff in H as [H1 H2]. apply bool_decide_eq_true in H1.
  destruct (h_str h !! b) as [s|] eqn:E; [|done]. exists s. by split.
Qed.
Definition node_readableb (h : heap) (e : fnode) : bool :=
  match rd_vstr (fn_data e) with Some b => readableb h b | None => true end &&
  match rd_key (fn_data e) with Some b => is_const (fn_data e) || readableb h b | None => true end.
Lemma all_readable_check h F : forallb (node_readableb h) (flat F) = true -> all_readable h F.
Proof.
  intros H i d ks He. rewrite forallb_forall in H. specialize (H (i, d, ks) ltac:(by apply elem_of_list_In)).
  unfold node_readableb in H. cbn in H. apply andb_true_iff in H as [H1 H2]. split.
  - intros b Hb. rewrite Hb in H1. by apply readableb_sound.
  - intros b Hb Hc. rewrite Hb, Hc in H2. by apply readableb_sound.
Qed.
Lemma refs_in_check F :
  forallb (fun e : fnode => match rd_ref (fn_data e) with Some c => bool_decide (c ∈ ids F) | None => true end) (flat F) = true ->
  refs_in F.
Proof.
  intros H i d ks c He Hc. rewrite forallb_forall in H. specialize (H (i, d, ks) ltac:(by apply elem_of_list_In)).
  cbn in H. rewrite Hc in H. by apply bool_decide_eq_true in H.
Qed.

Lemma ex_refs_in : refs_in ex_F.
Proof. apply refs_in_check. vm_compute. reflexivity. Qed.
Lemma ex_all_readable : all_readable ex_h ex_F.
Proof. apply all_readable_check. vm_compute. reflexivity. Qed.
Definition ex_t0 : tree := (T 6 d6 [T 7 d7 []; T 10 d10 []; T 11 d11 []; T 15 d15 []])%positive.
Lemma ex_find : find_tree 6%positive ex_F = Some ex_t0.
Proof. vm_compute. reflexivity. Qed.
Lemma ex_unroll : unroll ex_F (Z.to_nat c_CJSON_CIRCULAR_LIMIT) ex_t0 = ex_t.
Proof. vm_compute. reflexivity. Qed.
Lemma ex_unroll_complete : complete (unroll ex_F (Z.to_nat c_CJSON_CIRCULAR_LIMIT) ex_t0).
Proof. rewrite ex_unroll. apply ex_complete. Qed.

Theorem ex_success_ref :
  exists tc h',
    cJSON_Duplicate orc0 (Some 6%positive) true ex_h = Ret (Some (tid tc), h') /\
    WF h' (ex_F ++ [tc]) /\ copy_of h' ex_t tc.
Proof.
  destruct (dup_copy_ref orc0 ex_h ex_F 6%positive ex_t0 ex_WF ex_closed ex_refs_in ex_all_readable ex_find)
    as (r & h' & Hrun & H).
  destruct H as [H|H].
  - destruct H as (_ & _ & _ & _ & _ & _ & _ & _ & _ & _ & Hof).
    destruct (Hof ex_unroll_complete) as (j & _ & Hj). discriminate Hj.
  - destruct H as (tc & -> & W' & _ & Hcp & _). rewrite ex_unroll in Hcp.
    exists tc, h'. split; [exact Hrun|]. split; [exact W'|exact Hcp].
Qed.

(** * cyclic structures *)
Definition loop_build : M ptr :=
  a <~ cJSON_CreateArray orc0 ;;
  set_child a a ;;;
  ret a.
Definition loop_run := Eval vm_compute in loop_build empty_heap.
Definition loop_h : heap := match loop_run with Ret (_, h) => h | Err _ => empty_heap end.

Lemma loop_walkable : Walkable loop_h (fun i => i = 1%positive).
Proof.
  intros i ->. eexists _, [1%positive]. split_and!.
  - split; vm_compute; reflexivity.
  - split; intros b Hb; vm_compute in Hb; discriminate Hb.
  - cbn. apply (chain_cons _ 1%positive None None); [split; vm_compute; reflexivity|constructor].
  - by constructor.
Qed.
Lemma loop_deep k : deep loop_h k 1%positive.
Proof.
  induction k as [|k IH]; cbn [deep]; eexists; (split; [split; vm_compute; reflexivity|]).
  - cbn. discriminate.
  - exists [1%positive], 1%positive. split; [|split; [by left|done]].
    cbn. apply (chain_cons _ 1%positive None None); [split; vm_compute; reflexivity|constructor].
Qed.
Lemma loop_closed : Closed loop_h.
Proof. apply closedb_sound. vm_compute. reflexivity. Qed.

Theorem loop_refused oracle :
  exists h', cJSON_Duplicate oracle (Some 1%positive) true loop_h = Ret (None, h') /\ Ext [] [] loop_h h'.
Proof.
  destruct (dup_limit oracle loop_h _ 1%positive loop_closed loop_walkable eq_refl) as (r & h' & Hrun & H1 & H2 & _).
  rewrite (H1 (loop_deep _)) in *. exists h'. split; [done|]. by apply H2.
Qed.

(** a 2-cycle: [1.child = 2], [2.child = 1] *)
Definition cyc2_build : M ptr :=
  a <~ cJSON_CreateArray orc0 ;;
  b <~ cJSON_CreateArray orc0 ;;
  set_child a b ;;;
  set_child b a ;;;
  ret a.
Definition cyc2_run := Eval vm_compute in cyc2_build empty_heap.
Definition cyc2_h : heap := match cyc2_run with Ret (_, h) => h | Err _ => empty_heap end.

Lemma cyc2_walkable : Walkable cyc2_h (fun i => i = 1%positive \/ i = 2%positive).
Proof.
  intros i [->| ->].
  - eexists _, [2%positive]. split_and!.
    + split; vm_compute; reflexivity.
    + split; intros b Hb; vm_compute in Hb; discriminate Hb.
    + cbn. apply (chain_cons _ 2%positive None None); [split; vm_compute; reflexivity|constructor].
    + constructor; [by right|constructor].
  - eexists _, [1%positive]. split_and!.
    + split; vm_compute; reflexivity.
    + split; intros b Hb; vm_compute in Hb; discriminate Hb.
    + cbn. apply (chain_cons _ 1%positive None None); [split; vm_compute; reflexivity|constructor].
    + constructor; [by left|constructor].
Qed.
Lemma cyc2_deep k : deep cyc2_h k 1%positive /\ deep cyc2_h k 2%positive.
Proof.
  induction k as [|k [IH1 IH2]]; cbn [deep].
  - split; eexists; (split; [split; vm_compute; reflexivity|cbn; discriminate]).
  - split; eexists; (split; [split; vm_compute; reflexivity|]).
    + exists [2%positive], 2%positive. split; [|split; [by left|done]].
      cbn. apply (chain_cons _ 2%positive None None); [split; vm_compute; reflexivity|constructor].
    + exists [1%positive], 1%positive. split; [|split; [by left|done]].
      cbn. apply (chain_cons _ 1%positive None None); [split; vm_compute; reflexivity|constructor].
Qed.
Lemma cyc2_closed : Closed cyc2_h.
Proof. apply closedb_sound. vm_compute. reflexivity. Qed.

Theorem cyc2_refused oracle :
  exists h', cJSON_Duplicate oracle (Some 1%positive) true cyc2_h = Ret (None, h') /\ Ext [] [] cyc2_h h'.
Proof.
  destruct (dup_limit oracle cyc2_h _ 1%positive cyc2_closed cyc2_walkable (or_introl eq_refl))
    as (r & h' & Hrun & H1 & H2 & _).
  rewrite (H1 (proj1 (cyc2_deep _))) in *. exists h'. split; [done|]. by apply H2.
Qed.
