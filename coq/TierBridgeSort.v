(** TierBridgeSort.v — the three sorts are ONE list function.

    * [SortDefs.sort_spec] (the specification that C19 proves the heap-level [sort_object] meets) is the
      stable insertion sort [isort] of (identity, key) pairs by [key_le cs] on the keys;
    * [PatchDefs.sort_list] / [PatchDefs.sort_object] (value-level transliteration used by
      [compare_json] / [create_patches] of the JSON Patch model) and
    * [MergeDefs.mp_sort_list] / [mp_sort_members] / [mp_sort_object] (the same for JSON Merge Patch)
      are fuelled merge sorts with the sortedness pre-check, the split after ceil(n/2) and the merge that
      prefers the first run on ties.

    On member lists in which every member has a key that is a C string (no zero byte — every key read
    from a string block is one), both value-level sorts return [Ok (isort (vle cs) l)] where
    [vle cs x y := key_le cs (vkey x) (vkey y)] is the SAME order [key_le] that [sort_spec] uses, read on
    the key of the value-level node.  No forest, no heap here (see TierBridgeLemmas.v for the connection). *)
From CJ Require Import Base Dbl Tree CompareDefs SortDefs SortSpec.
From CJ Require PatchDefs MergeDefs.
From stdpp Require Import list sorting.
From Coq Require Import Lia ZArith.
Local Open Scope Z_scope.

(** * the order on value-level members *)

(** the key of a member as a C string ([cstr] of a C string is itself; [cstr] makes the order total and
    transitive on ALL nodes, which [SortSpec.merge_isort] wants) *)
Definition vkey (x : node) : bytes := cstr (match n_key x with Some k => k | None => [] end).
Definition vle (cs : bool) (x y : node) : bool := key_le cs (vkey x) (vkey y).
(** a member with a key that is a C string *)
Definition keyed (x : node) : Prop := exists k, n_key x = Some k /\ zfree k.

Lemma cstr_zfree_id k : zfree k -> cstr k = k.
Proof.
  induction 1 as [|c r Hc Hr IH]; cbn [cstr]; [reflexivity|].
  destruct (Z.eqb_spec c 0) as [E|E]; [contradiction|]. by rewrite IH.
Qed.

Lemma vkey_keyed x k : n_key x = Some k -> zfree k -> vkey x = k.
Proof. intros H Hz. unfold vkey. rewrite H. by apply cstr_zfree_id. Qed.

Lemma vle_total cs a b : vle cs a b = true \/ vle cs b a = true.
Proof. apply key_le_total. Qed.
Lemma vle_trans cs a b c : vle cs a b = true -> vle cs b c = true -> vle cs a c = true.
Proof. apply key_le_trans; apply cstr_zfree. Qed.

(** on keyed members, Utils' [compare_strings] IS [key_cmp] of the keys *)
Lemma compare_strings_key_cmp cs x y : keyed x -> keyed y ->
  PatchDefs.compare_strings (n_key x) (n_key y) cs = key_cmp cs (vkey x) (vkey y).
Proof.
  intros (kx & Hx & Zx) (ky & Hy & Zy). rewrite (vkey_keyed x kx Hx Zx), (vkey_keyed y ky Hy Zy), Hx, Hy.
  reflexivity.
Qed.
(** the two transliterations of [compare_strings] are the same function *)
Lemma mp_compare_strings_eq : MergeDefs.mp_compare_strings = PatchDefs.compare_strings.
Proof. reflexivity. Qed.

Lemma Forall_keyed_perm l l' : l ≡ₚ l' -> Forall keyed l -> Forall keyed l'.
Proof. intros H. by rewrite H. Qed.

Lemma div2_S_lt n : (2 <= n)%nat -> (Nat.div2 (S n) < n)%nat.
Proof.
  intros H. destruct n as [|m]; [lia|]. cbn [Nat.div2].
  assert (Nat.div2 m < m)%nat by (apply Nat.lt_div2; lia). lia.
Qed.
Lemma div2_S_pos n : (1 <= n)%nat -> (1 <= Nat.div2 (S n))%nat.
Proof. intros H. destruct n as [|m]; [lia|]. cbn [Nat.div2]. lia. Qed.

(** * PatchDefs.sort_list *)
Section PatchSort.
  Variable cs : bool.
  Notation le := (vle cs).

  Lemma patch_merge_cons x a y b :
    PatchDefs.merge cs (x :: a) (y :: b) =
    if PatchDefs.compare_strings (n_key x) (n_key y) cs <=? 0 then x :: PatchDefs.merge cs a (y :: b)
    else y :: PatchDefs.merge cs (x :: a) b.
  Proof. reflexivity. Qed.
  Lemma patch_merge_nil_l b : PatchDefs.merge cs [] b = b.
  Proof. by destruct b. Qed.
  Lemma patch_merge_nil_r a : PatchDefs.merge cs a [] = a.
  Proof. by destruct a. Qed.

  Lemma patch_merge_runs : forall a b, Forall keyed a -> Forall keyed b ->
    PatchDefs.merge cs a b = merge_runs le a b.
  Proof.
    induction a as [|x a IHa]; intros b Ha Hb.
    - by rewrite patch_merge_nil_l, merge_runs_nil_l.
    - apply Forall_cons in Ha as [Hx Ha].
      induction b as [|y b IHb].
      + by rewrite patch_merge_nil_r, merge_runs_nil_r.
      + apply Forall_cons in Hb as [Hy Hb'].
        rewrite patch_merge_cons, merge_runs_cons. rewrite (compare_strings_key_cmp cs x y Hx Hy).
        change (key_cmp cs (vkey x) (vkey y) <=? 0) with (le x y).
        destruct (le x y).
        * f_equal. apply IHa; [done|by constructor].
        * f_equal. by apply IHb.
  Qed.

  Lemma patch_strictly_sorted_Sorted : forall l, Forall keyed l ->
    PatchDefs.strictly_sorted l cs = true -> Sorted (fun a b => le a b = true) l.
  Proof.
    induction l as [|x r IH]; intros Hk Hs; [constructor|].
    apply Forall_cons in Hk as [Hx Hr].
    destruct r as [|y r']; [repeat constructor|].
    cbn [PatchDefs.strictly_sorted] in Hs. apply andb_true_iff in Hs as [H1 H2].
    assert (Hy : keyed y) by (by apply Forall_cons in Hr as [? _]).
    constructor; [by apply IH|]. constructor.
    rewrite (compare_strings_key_cmp cs x y Hx Hy) in H1. by apply key_lt_le.
  Qed.

  Lemma patch_sort_list_cons2 f x y r :
    PatchDefs.sort_list (S f) (x :: y :: r) cs =
    let l := x :: y :: r in
    if PatchDefs.strictly_sorted l cs then Ok l
    else a <- PatchDefs.sort_list f (firstn (Nat.div2 (S (length l))) l) cs ;;
         b <- PatchDefs.sort_list f (skipn (Nat.div2 (S (length l))) l) cs ;;
         Ok (PatchDefs.merge cs a b).
  Proof. reflexivity. Qed.

  (** the value-level merge sort of the JSON Patch model is the stable insertion sort *)
  Theorem patch_sort_list_isort : forall fuel l, (length l < fuel)%nat -> Forall keyed l ->
    PatchDefs.sort_list fuel l cs = Ok (isort le l).
  Proof.
    induction fuel as [|f IH]; intros l Hl Hk; [lia|].
    destruct l as [|x [|y r]]; [reflexivity|reflexivity|].
    rewrite patch_sort_list_cons2. cbv zeta. set (l := x :: y :: r) in *.
    destruct (PatchDefs.strictly_sorted l cs) eqn:Es.
    - f_equal. symmetry. apply isort_id. by apply patch_strictly_sorted_Sorted.
    - set (k := Nat.div2 (S (length l))).
      assert (Hk1 : (1 <= k < length l)%nat).
      { unfold k. split; [apply div2_S_pos|apply div2_S_lt]; cbn [length l]; lia. }
      rewrite (IH (firstn k l)); [|rewrite firstn_length; lia|by apply Forall_take].
      rewrite (IH (skipn k l)); [|rewrite skipn_length; lia|by apply Forall_drop].
      cbn [bind]. f_equal.
      rewrite patch_merge_runs.
      + rewrite (merge_isort le (vle_total cs) (vle_trans cs)). by rewrite firstn_skipn.
      + eapply Forall_keyed_perm; [symmetry; apply isort_perm|by apply Forall_take].
      + eapply Forall_keyed_perm; [symmetry; apply isort_perm|by apply Forall_drop].
  Qed.

  Theorem patch_sort_object_isort n : Forall keyed (n_children n) ->
    PatchDefs.sort_object n cs = Ok (PatchDefs.set_children n (isort le (n_children n))).
  Proof. intros Hk. unfold PatchDefs.sort_object. rewrite patch_sort_list_isort; [reflexivity|lia|done]. Qed.
End PatchSort.

(** * MergeDefs.mp_sort_list *)
Section MergeSort.
  Variable cs : bool.
  Notation le := (vle cs).

  Lemma mp_merge_cons x a y b :
    MergeDefs.mp_merge_runs cs (x :: a) (y :: b) =
    if MergeDefs.mp_compare_strings (n_key x) (n_key y) cs <=? 0 then x :: MergeDefs.mp_merge_runs cs a (y :: b)
    else y :: MergeDefs.mp_merge_runs cs (x :: a) b.
  Proof. reflexivity. Qed.
  Lemma mp_merge_nil_l b : MergeDefs.mp_merge_runs cs [] b = b.
  Proof. reflexivity. Qed.
  Lemma mp_merge_nil_r a : MergeDefs.mp_merge_runs cs a [] = a.
  Proof. by destruct a. Qed.

  Lemma mp_merge_runs_eq : forall a b, Forall keyed a -> Forall keyed b ->
    MergeDefs.mp_merge_runs cs a b = merge_runs le a b.
  Proof.
    induction a as [|x a IHa]; intros b Ha Hb.
    - by rewrite mp_merge_nil_l, merge_runs_nil_l.
    - apply Forall_cons in Ha as [Hx Ha].
      induction b as [|y b IHb].
      + by rewrite mp_merge_nil_r, merge_runs_nil_r.
      + apply Forall_cons in Hb as [Hy Hb'].
        rewrite mp_merge_cons, merge_runs_cons. rewrite mp_compare_strings_eq, (compare_strings_key_cmp cs x y Hx Hy).
        change (key_cmp cs (vkey x) (vkey y) <=? 0) with (le x y).
        destruct (le x y).
        * f_equal. apply IHa; [done|by constructor].
        * f_equal. by apply IHb.
  Qed.

  Lemma mp_strictly_sorted_Sorted : forall l, Forall keyed l ->
    MergeDefs.mp_strictly_sorted cs l = true -> Sorted (fun a b => le a b = true) l.
  Proof.
    induction l as [|x r IH]; intros Hk Hs; [constructor|].
    apply Forall_cons in Hk as [Hx Hr].
    destruct r as [|y r']; [repeat constructor|].
    cbn [MergeDefs.mp_strictly_sorted] in Hs.
    assert (Hy : keyed y) by (by apply Forall_cons in Hr as [? _]).
    rewrite mp_compare_strings_eq, (compare_strings_key_cmp cs x y Hx Hy) in Hs.
    destruct (key_cmp cs (vkey x) (vkey y) <? 0) eqn:E; [|discriminate].
    constructor; [by apply IH|]. constructor. by apply key_lt_le.
  Qed.

  Lemma mp_sort_list_cons2 f x y r :
    MergeDefs.mp_sort_list (S f) cs (x :: y :: r) =
    let l := x :: y :: r in
    if MergeDefs.mp_strictly_sorted cs l then Ok l
    else a <- MergeDefs.mp_sort_list f cs (firstn (Nat.div2 (S (length l))) l) ;;
         b <- MergeDefs.mp_sort_list f cs (skipn (Nat.div2 (S (length l))) l) ;;
         Ok (MergeDefs.mp_merge_runs cs a b).
  Proof. reflexivity. Qed.

  (** the value-level merge sort of the JSON Merge Patch model is the stable insertion sort *)
  Theorem mp_sort_list_isort : forall fuel l, (length l < fuel)%nat -> Forall keyed l ->
    MergeDefs.mp_sort_list fuel cs l = Ok (isort le l).
  Proof.
    induction fuel as [|f IH]; intros l Hl Hk; [lia|].
    destruct l as [|x [|y r]]; [reflexivity|reflexivity|].
    rewrite mp_sort_list_cons2. cbv zeta. set (l := x :: y :: r) in *.
    destruct (MergeDefs.mp_strictly_sorted cs l) eqn:Es.
    - f_equal. symmetry. apply isort_id. by apply mp_strictly_sorted_Sorted.
    - set (k := Nat.div2 (S (length l))).
      assert (Hk1 : (1 <= k < length l)%nat).
      { unfold k. split; [apply div2_S_pos|apply div2_S_lt]; cbn [length l]; lia. }
      rewrite (IH (firstn k l)); [|rewrite firstn_length; lia|by apply Forall_take].
      rewrite (IH (skipn k l)); [|rewrite skipn_length; lia|by apply Forall_drop].
      cbn [bind]. f_equal.
      rewrite mp_merge_runs_eq.
      + rewrite (merge_isort le (vle_total cs) (vle_trans cs)). by rewrite firstn_skipn.
      + eapply Forall_keyed_perm; [symmetry; apply isort_perm|by apply Forall_take].
      + eapply Forall_keyed_perm; [symmetry; apply isort_perm|by apply Forall_drop].
  Qed.

  Theorem mp_sort_members_isort l : Forall keyed l -> MergeDefs.mp_sort_members cs l = Ok (isort le l).
  Proof. intros Hk. unfold MergeDefs.mp_sort_members. apply mp_sort_list_isort; [lia|done]. Qed.

  Theorem mp_sort_object_isort n : Forall keyed (n_children n) ->
    MergeDefs.mp_sort_object n cs = Ok (MergeDefs.mp_set_children n (isort le (n_children n))).
  Proof. intros Hk. unfold MergeDefs.mp_sort_object. by rewrite mp_sort_members_isort. Qed.
End MergeSort.

(** the two value-level sorts agree with each other *)
Theorem value_sorts_agree cs l : Forall keyed l ->
  PatchDefs.sort_list (S (length l)) l cs = MergeDefs.mp_sort_members cs l.
Proof. intros Hk. rewrite mp_sort_members_isort by done. apply patch_sort_list_isort; [lia|done]. Qed.
