(** TierBridgeOverwriteDefs.v — transliteration, on the heap of Heap.v and in the style of CoreDefs.v /
    TierBridgeUtilsDefs.v, of [overwrite_item] of cJSON_Utils.c (deviation D2 of TierBridgeLemmas.v: the
    replacement of the document root IN PLACE, used by [apply_patch] when the path is "") and of the three
    statement sequences of [apply_patch] that call it.  Statement by statement, same guards, same loads,
    stores and releases.  No proofs here.

        static void overwrite_item(cJSON * const root, const cJSON replacement)
        {
            if (root == NULL) return;
            if (root->string != NULL)      cJSON_free(root->string);
            if (root->valuestring != NULL) cJSON_free(root->valuestring);
            if (root->child != NULL)       cJSON_Delete(root->child);
            memcpy(root, &replacement, sizeof(cJSON));
        }

    The replacement is passed BY VALUE: the model passes the two parts of the struct (the sibling links
    [h_lnk] and the other fields [h_dat], see Heap.v); the [memcpy] stores both — INCLUDING next/prev.
    The two releases do not look at cJSON_StringIsConst / cJSON_IsReference, the deletion of the children
    does not look at cJSON_IsReference. *)
From stdpp Require Import gmap.
From CJ Require Import Base Dbl Heap Forest CoreDefs.
From CJ.gen Require Import Constants.
Local Open Scope Z_scope.

(** a [cJSON] by value *)
Definition cjson_struct : Type := (ptr * ptr) * ndata.

Definition overwrite_item (root : ptr) (replacement : cjson_struct) : M unit :=
  if is_null root then ret tt else
  k <~ get_key root ;;
  when (negb (is_null k)) (k2 <~ get_key root ;; cJSON_free k2) ;;;        (* cJSON_free(root->string) *)
  vs <~ get_vstr root ;;
  when (negb (is_null vs)) (vs2 <~ get_vstr root ;; cJSON_free vs2) ;;;    (* cJSON_free(root->valuestring) *)
  c <~ get_child root ;;
  when (negb (is_null c)) (c2 <~ get_child root ;; cJSON_Delete c2) ;;;    (* cJSON_Delete(root->child) *)
  st_lnk root (fst replacement) ;;;                                        (* memcpy(root, &replacement, sizeof(cJSON)) *)
  st_dat root (snd replacement).

(** [static const cJSON invalid = { NULL, NULL, NULL, cJSON_Invalid, NULL, 0, 0, NULL };] *)
Definition invalid_struct : cjson_struct := ((None, None), mkND c_cJSON_Invalid None 0 dzero None None).

(** apply_patch, path "", opcode REMOVE:   [overwrite_item(object, invalid);] *)
Definition patch_root_remove (object : ptr) : M unit := overwrite_item object invalid_struct.

(** apply_patch, path "", after [value] has been obtained (ADD / REPLACE: [value = cJSON_Duplicate(value, 1)];
    COPY: a duplicate; MOVE: the detached item) — the code of /repo AFTER the repair f953f57 (both sites alike):

        overwrite_item(object, *value);
        cJSON_free(value);                       // the shell of the duplicated / moved value
        value = NULL;
        if (object->string != NULL)
        {
            if (!(object->type & cJSON_StringIsConst)) { cJSON_free(object->string); }
            object->string = NULL;
        }
        object->type &= ~cJSON_StringIsConst;

    ([*value] reads the whole struct of the replacement: both parts) *)
Definition patch_root_overwrite (object value : ptr) : M unit :=
  l <~ ld_lnk value ;;
  d <~ ld_dat value ;;
  overwrite_item object (l, d) ;;;
  cJSON_free value ;;;
  k <~ get_key object ;;
  when (negb (is_null k))
       (t <~ get_type object ;;
        when (negb (has_flag t c_cJSON_StringIsConst)) (k2 <~ get_key object ;; cJSON_free k2) ;;;
        set_key object None) ;;;
  t2 <~ get_type object ;;
  set_type object (clear_flag t2 c_cJSON_StringIsConst).

(** the same sequence as it was BEFORE the repair (the pinned code): the key of the new root is released without
    looking at cJSON_StringIsConst, the flag stays

        if (object->string != NULL) { cJSON_free(object->string); object->string = NULL; }  *)
Definition patch_root_overwrite_pinned (object value : ptr) : M unit :=
  l <~ ld_lnk value ;;
  d <~ ld_dat value ;;
  overwrite_item object (l, d) ;;;
  cJSON_free value ;;;
  k <~ get_key object ;;
  when (negb (is_null k)) (k2 <~ get_key object ;; cJSON_free k2 ;;; set_key object None).

(** the value part of an outcome (heaps contain finite maps, which [vm_compute] cannot compare) *)
Definition out_val {A} (o : out (A * heap)) : option A + err :=
  match o with Ret (a, _) => inl (Some a) | Err e => inr e end.
Definition out_heap {A} (o : out (A * heap)) : option heap :=
  match o with Ret (_, h) => Some h | Err _ => None end.

(** * the forest side *)

(** the data of the replacement as it sits in the root afterwards:
    [object->string = NULL; object->type &= ~cJSON_StringIsConst] *)
Definition rd_unnamed (d : rdata) : rdata :=
  mkRD (Z.land (rd_type d) (Z.lnot c_cJSON_StringIsConst)) (rd_vstr d) (rd_vint d) (rd_vdbl d) None (rd_ref d).
(** the data of [invalid] *)
Definition rd_invalid : rdata := mkRD c_cJSON_Invalid None 0 dzero None None.

(** the key of the node, if any, is an owned string (what [overwrite_item] takes for granted of the ROOT) *)
Definition key_owned (d : rdata) : Prop := is_const d = true -> rd_key d = None.

(** the forest after [patch_root_overwrite r x]: the root [r] carries the replacement's data (without key)
    and the replacement's children; the tree of [r] and the shell [x] are gone *)
Definition overwrite_root (r x : positive) (dx : rdata) (csx : list tree) (F : forest) : forest :=
  T r (rd_unnamed dx) csx :: remove_root x (remove_root r F).
(** the forest after [patch_root_remove r] *)
Definition invalidate_root (r : positive) (F : forest) : forest := T r rd_invalid [] :: remove_root r F.

(** store both parts of a struct at [r] *)
Definition put_struct (r : positive) (l : ptr * ptr) (nd : ndata) (h : heap) : heap :=
  mkHeap (<[r := l]> (h_lnk h)) (<[r := nd]> (h_dat h)) (h_str h) (h_own h) (h_live h) (h_next h) (h_req h)
         (h_hooks h) (h_trace h).

(** * examples *)

(** the canonical heap of a forest: every owned block a live library block, the caller's blocks [foreign]
    live and borrowed *)
Definition heap_of (F : forest) (St : gmap positive bytes) (foreign : list positive) (next : positive) : heap :=
  mkHeap (heap_lnk_of F) (heap_dat_of F) St
         (list_to_map (((fun b => (b, Lib)) <$> owned F) ++ ((fun b => (b, Foreign)) <$> foreign)))
         (list_to_set (owned F ++ foreign)) next 0 default_hooks [].

(** document root 1 = object (with an OWNED key 102 "doc" and, unusually, an owned valuestring 101 "old")
      {"a": 1 (node 2, key 103), "b": "s" (node 3, key 105, valuestring 104)};
    replacement root 10 = array [5 (node 11), "x" (node 12, valuestring 111)] with the owned key 110 "value"
      — as cJSON_Duplicate of the patch's "value" member returns it;
    an unrelated root 20 = number 7 *)
Definition ow_num (i : positive) (v : Z) (key : ptr) : tree :=
  T i (mkRD c_cJSON_Number None v (dbl_of_int v) key None) [].
Definition ow_str (i : positive) (vs : positive) (key : ptr) : tree :=
  T i (mkRD c_cJSON_String (Some vs) 0 dzero key None) [].
Definition ow_dr : rdata := mkRD c_cJSON_Object (Some 101%positive) 0 dzero (Some 102%positive) None.
Definition ow_csr : list tree := [ow_num 2 1 (Some 103%positive); ow_str 3 104 (Some 105%positive)].
Definition ow_dx : rdata := mkRD c_cJSON_Array None 0 dzero (Some 110%positive) None.
Definition ow_csx : list tree := [ow_num 11 5 None; ow_str 12 111 None].
Definition ow_F : forest := [T 1 ow_dr ow_csr; T 10 ow_dx ow_csx; ow_num 20 7 None].
Definition ow_St : gmap positive bytes :=
  list_to_map [(101%positive, [111; 108; 100; 0]); (102%positive, [100; 111; 99; 0]); (103%positive, [97; 0]);
               (104%positive, [115; 0]); (105%positive, [98; 0]); (110%positive, [118; 97; 108; 117; 101; 0]);
               (111%positive, [120; 0])].
Definition ow_heap : heap := heap_of ow_F ow_St [] 1000.

(** a root whose key is a CONSTANT (cJSON_AddItemToObjectCS: the caller's block 102, flag
    cJSON_StringIsConst) — e.g. a member detached from an object built with the CS functions and then used
    as a document *)
Definition owc_dr : rdata := mkRD (Z.lor c_cJSON_Number c_cJSON_StringIsConst) None 1 (dbl_of_int 1) (Some 102%positive) None.
Definition owc_F : forest := [T 1 owc_dr []; ow_num 10 5 None].
Definition owc_heap : heap := heap_of owc_F ow_St [102%positive] 1000.

(** a REPLACEMENT whose key is a constant (fine with the repaired code, fatal with the pinned one): what cJSON_Duplicate returns for a patch member added with
    cJSON_AddItemToObjectCS(patch, "value", ...) — it keeps the caller's block 110 and the flag
    cJSON_StringIsConst (cJSON_Duplicate copies the key only when the flag is clear) *)
Definition owk_dx : rdata := mkRD (Z.lor c_cJSON_Number c_cJSON_StringIsConst) None 5 (dbl_of_int 5) (Some 110%positive) None.
Definition owk_F : forest := [ow_num 1 1 None; T 10 owk_dx []].
Definition owk_heap : heap := heap_of owk_F ow_St [110%positive] 1000.
