(** Properties_C01.v — property C01: parsing arbitrary bytes is memory-safe, bounded and
    terminates.  Only statements closed by [exact]. *)
From CJ Require Import Base Dbl Tree ParseDefs LibcNum ParseSafe.
Local Open Scope Z_scope.

(** For every memory content, every declared length inside it, both termination modes and
    every allocation-failure schedule: the parser reads only indices < len (a read at an index
    >= len would be the outcome OOB), never writes beyond the block it allocates for a string
    (also OOB), and terminates (OutOfFuel) — the result is [Ok].  It returns NULL with nothing
    left allocated, or a tree whose blocks are exactly what remains allocated. *)
Theorem C01_length_variants_safe : forall strtod oracle content len rnt,
  strtod_ok strtod -> (len <= length content)%nat ->
  exists r, cJSON_ParseWithLengthOpts strtod oracle content len rnt = Ok r
         /\ (pr_tree r = None -> pr_live r = 0)
         /\ (forall t, pr_tree r = Some t -> pr_live r = blocks t).
Proof. exact parse_length_safe. Qed.
Print Assumptions C01_length_variants_safe.

(** The string variants read up to and including the terminating zero and nothing beyond:
    whatever follows the first zero byte is never read (it lies at indices >= len). *)
Theorem C01_string_variants_safe : forall strtod oracle s rest rnt,
  strtod_ok strtod -> Forall (fun c => c <> 0) s ->
  exists r, cJSON_ParseWithOpts strtod oracle (s ++ 0 :: rest) rnt = Ok r
         /\ cJSON_ParseWithOpts strtod oracle (s ++ 0 :: rest) rnt
            = cJSON_ParseWithLengthOpts strtod oracle (s ++ 0 :: rest) (length s + 1) rnt
         /\ (pr_tree r = None -> pr_live r = 0)
         /\ (forall t, pr_tree r = Some t -> pr_live r = blocks t).
Proof. exact parse_string_safe. Qed.
Print Assumptions C01_string_variants_safe.

(** nesting: the depth counter never exceeds CJSON_NESTING_LIMIT, so the recursion of the C
    code (one parse_value frame per level) is bounded by the limit whatever the input *)
Theorem C01_depth_bounded : forall strtod oracle content len fuel s r s',
  strtod_ok strtod -> (len <= length content)%nat -> 0 <= dep s <= c_CJSON_NESTING_LIMIT ->
  parse_value strtod oracle content len fuel s = Ok (r, s') -> 0 <= dep s' <= c_CJSON_NESTING_LIMIT + 1.
Proof. exact parse_depth_bounded. Qed.
Print Assumptions C01_depth_bounded.

(** the reference strtod used by the executable model satisfies the contract *)
Theorem C01_strtod_ref_ok : strtod_ok strtod_ref.
Proof. exact strtod_ref_ok. Qed.
Print Assumptions C01_strtod_ref_ok.

(** non-vacuity: the hypotheses are satisfiable and the success branch is reached — "[1]" followed
    by a byte outside the declared length parses to a two-block tree, both blocks live, end = 3 *)
Theorem C01_nonvacuous :
  strtod_ok strtod_ref /\ (3 <= length [91; 49; 93; 255])%nat /\
  exists r t, cJSON_ParseWithLengthOpts strtod_ref never_fails [91; 49; 93; 255] 3 false = Ok r
           /\ pr_tree r = Some t /\ pr_live r = 2 /\ blocks t = 2 /\ pr_end r = Some 3%nat.
Proof. exact parse_safe_example. Qed.
Print Assumptions C01_nonvacuous.

(** ------------------------------------------------------------------------------------------
    The "usable result" clause: "returns either NULL or a tree that can be walked, printed and
    deleted without error".  Three models are joined (ParseUsable*.v): the parser returns a
    value-level tree; the printer works on value-level trees; the tree API works on the heap of
    Heap.v.  The bridge to the heap is OUR construction [ParseUsableHeap.mat] (the parser model
    counts blocks, it does not build heap nodes): one node block per node, one string block per
    valuestring / key holding the zero-terminated bytes, children appended with the library's own
    add_item_to_array.  The statement is: the tree the parser returns, seen as a heap structure, is
    a well-formed root that the tree API can walk and delete.
    All theorems hold for EVERY allocation schedule of the parse: a returned tree means that every
    request of the call was granted ([C01_tree_means_all_granted]).
    Contract clauses: [strtod_ok]; for printing also [strtod_valid] (converted doubles are IEEE
    binary64 values; proved for the reference strtod below), [LibcStrictSpec] (the printer's libc
    contract) and "the input bytes are bytes". *)
From CJ Require Import ParseSpec Grammar PrintDefs PrintStrict ParseUsable ParseUsableOracle.
From CJ Require Import Heap Forest CoreDefs SortDefs ParseUsableHeap ParseUsableWalk ParseUsableAll.

(** a call that returns a tree was granted every allocation request it made; its result is the
    failure-free run's *)
Theorem C01_tree_means_all_granted : forall strtod oracle content len rnt r t,
  cJSON_ParseWithLengthOpts strtod oracle content len rnt = Ok r -> pr_tree r = Some t ->
  (forall k, (k < pr_requests r)%nat -> oracle k = false) /\
  cJSON_ParseWithLengthOpts strtod never_fails content len rnt = Ok r.
Proof. exact tree_means_all_granted. Qed.
Print Assumptions C01_tree_means_all_granted.

(** SHAPE.  Every tree the entry point returns is a well-formed JSON tree ([ParseUsable.shape],
    an inductive definition with one constructor per JSON kind): type word exactly one of
    NULL/False/True/Number/String/Array/Object (no flag bit); Number: valueint = sat_int valuedouble,
    no valuestring; String: a zero-free valuestring; every child of an Object has a zero-free key,
    every child of an Array and the root have none; scalars have no children; containers nest at
    most CJSON_NESTING_LIMIT deep.  [B] / [D] is whatever is known of the input bytes / of strtod's
    results (they are inherited by the string bytes / number values of the tree). *)
Theorem C01_result_usable_shape : forall strtod (B : Z -> Prop) (D : dbl -> Prop),
  (forall c, is_byte c = true -> B c) -> (forall s d k, strtod s = Some (d, k) -> D d) ->
  strtod_ok strtod ->
  forall oracle content len rnt r t, (len <= length content)%nat -> Forall B (firstn len content) ->
    cJSON_ParseWithLengthOpts strtod oracle content len rnt = Ok r -> pr_tree r = Some t ->
    shape B D false nesting_limit t.
Proof. exact parsed_tree_shape_any_oracle. Qed.
Print Assumptions C01_result_usable_shape.

(** the same for every tree the list-level specification accepts (ParseRefine: the entry points
    compute exactly [text_l] on the declared bytes) *)
Theorem C01_result_usable_shape_spec : forall strtod (B : Z -> Prop) (D : dbl -> Prop),
  (forall c, is_byte c = true -> B c) -> (forall s d k, strtod s = Some (d, k) -> D d) ->
  forall l rnt t rest, Forall B l -> text_l strtod l rnt = Some (t, rest) -> shape B D false nesting_limit t.
Proof. exact text_l_shape. Qed.
Print Assumptions C01_result_usable_shape_spec.

(** what the shape says field by field *)
Theorem C01_result_usable_shape_fields : forall B D keyed d n, shape B D keyed d n ->
  let ty := n_ty n in
  (ty = c_cJSON_NULL \/ ty = c_cJSON_False \/ ty = c_cJSON_True \/ ty = c_cJSON_Number \/
   ty = c_cJSON_String \/ ty = c_cJSON_Array \/ ty = c_cJSON_Object) /\
  tymask ty = ty /\ Z.land ty c_cJSON_IsReference = 0 /\ Z.land ty c_cJSON_StringIsConst = 0 /\
  (ty = c_cJSON_Number -> n_vint n = sat_int (n_vdbl n) /\ n_vstr n = None) /\
  (ty = c_cJSON_String -> exists s, n_vstr n = Some s /\ zero_free s) /\
  (ty <> c_cJSON_String -> n_vstr n = None) /\
  (ty <> c_cJSON_Array -> ty <> c_cJSON_Object -> n_children n = []) /\
  (ty = c_cJSON_Object -> Forall (fun c => exists k, n_key c = Some k /\ zero_free k) (n_children n)) /\
  (ty = c_cJSON_Array -> Forall (fun c => n_key c = None) (n_children n)) /\
  (keyed = false -> n_key n = None).
Proof. exact shape_fields. Qed.
Print Assumptions C01_result_usable_shape_fields.

(** valueint is a C int: the conversion saturates *)
Theorem C01_sat_int_in_range : forall d, valid_dbl d = true -> c_INT_MIN <= sat_int d <= c_INT_MAX.
Proof. exact sat_int_in_range. Qed.
Print Assumptions C01_sat_int_in_range.

(** PRINTS.  Under the printer's libc contract and [strtod_valid], every returned tree satisfies
    the hypotheses of the printer theorems (C05 [printable], C09 [fields_ok], depth <= limit);
    [render] produces a text in both formats, it is an RFC 8259 text, and cJSON_Print
    ([print … true]) / cJSON_PrintUnformatted ([print … false]) / cJSON_PrintBuffered end with
    outcome [Ok] under every allocation schedule, return nothing but that text, and return it when
    no allocation fails. *)
Theorem C01_result_usable_prints :
  forall strtod fmt_d fmt_g15 fmt_g17 sscanf_lg,
  LibcStrictSpec fmt_d fmt_g15 fmt_g17 -> strtod_ok strtod -> strtod_valid strtod ->
  forall parse_oracle content len rnt r t,
    (len <= length content)%nat -> Forall (fun c => is_byte c = true) (firstn len content) ->
    cJSON_ParseWithLengthOpts strtod parse_oracle content len rnt = Ok r -> pr_tree r = Some t ->
    printable t = true /\ fields_ok t = true /\ (cdepth t <= nesting_limit)%nat /\
    forall fmt, exists txt,
      render fmt_d fmt_g15 fmt_g17 sscanf_lg fmt 0 t = Some txt /\
      RFC_text txt (val_of fmt_d fmt_g15 fmt_g17 sscanf_lg t) /\
      (forall oracle junk hr, exists pr, print fmt_d fmt_g15 fmt_g17 sscanf_lg oracle junk t fmt hr = Ok pr /\
         (forall block, prr_block pr = Some block -> block = txt ++ [0]) /\
         ((forall i, oracle i = false) -> zlen txt + 2 <= c_INT_MAX -> prr_block pr = Some (txt ++ [0]))) /\
      (forall oracle junk prebuffer hr, 0 <= prebuffer ->
         exists pr, cJSON_PrintBuffered fmt_d fmt_g15 fmt_g17 sscanf_lg oracle junk t prebuffer fmt hr = Ok pr /\
         (forall block, prr_block pr = Some block -> exists rest, block = txt ++ 0 :: rest) /\
         ((forall i, oracle i = false) -> zlen txt + 2 <= c_INT_MAX ->
            exists rest, prr_block pr = Some (txt ++ 0 :: rest))).
Proof. exact parsed_any_oracle_prints. Qed.
Print Assumptions C01_result_usable_prints.

(** the validity clause of the strtod contract holds for the reference strtod (RoundTripRefValid.v,
    through Flocq: this one theorem depends on the standard axioms of Coq's Reals library) *)
Theorem C01_strtod_ref_valid : strtod_valid strtod_ref.
Proof. exact strtod_ref_valid. Qed.
Print Assumptions C01_strtod_ref_valid.

From stdpp Require Import gmap.
Local Open Scope Z_scope.

(** DELETES.  The returned tree [t], materialised ([mat]) in ANY heap [h] that encodes a forest [F]
    without leak ([WF] + [NoLeak], the invariant of every API history, C06/C07): the run has no
    error outcome and returns the fresh identity [h_next h]; the heap [h'] it leaves IS the
    canonical encoding of [F] plus the tree labelled with consecutive identities ([Forest.WF]:
    link map = [heap_lnk_of], data map = [heap_dat_of] — so every C06 statement applies to it) and
    nothing else is live library memory; the image owns [blocks t] pairwise distinct library blocks,
    which is the parser's own ledger [pr_live]; cJSON_Delete of the root returns without error and
    leaves a heap [h''] that encodes [F] again with the set of live library blocks back at its
    value before. *)
Theorem C01_result_usable_deletes : forall strtod oracle content len rnt r t,
  strtod_ok strtod -> (len <= length content)%nat ->
  cJSON_ParseWithLengthOpts strtod oracle content len rnt = Ok r -> pr_tree r = Some t ->
  (forall h F, WF h F -> NoLeak h F ->
   exists h' h'',
     mat t h = Ret (Some (h_next h), h') /\
     WF h' (F ++ [forest_of t (h_next h)]) /\ NoLeak h' (F ++ [forest_of t (h_next h)]) /\
     lib_live h' = lib_live h ∪ list_to_set (owned [forest_of t (h_next h)]) /\
     NoDup (owned [forest_of t (h_next h)]) /\
     Z.of_nat (length (owned [forest_of t (h_next h)])) = blocks t /\
     cJSON_Delete (Some (h_next h)) h' = Ret (tt, h'') /\
     WF h'' F /\ NoLeak h'' F /\ lib_live h'' = lib_live h)
  /\ pr_live r = blocks t.
Proof. exact parsed_any_oracle_deletes. Qed.
Print Assumptions C01_result_usable_deletes.

(** WALKS.  An independently written traversal of the heap ([SortDefs.read_node]: loads the fields,
    reads both strings as C strings up to their terminator, follows child and then the next chain
    to NULL, recursively; every load checks liveness and block kind) run on the image of the
    returned tree, built in any well-formed heap, returns without error, leaves the heap unchanged
    and reads back exactly [t]: the image represents the parser's result field by field, string by
    string, child by child in order. *)
Theorem C01_result_usable_walks : forall strtod oracle content len rnt r t,
  strtod_ok strtod -> (len <= length content)%nat ->
  cJSON_ParseWithLengthOpts strtod oracle content len rnt = Ok r -> pr_tree r = Some t ->
  forall h F, WF h F ->
    exists h', mat t h = Ret (Some (h_next h), h') /\
      forall fuel, (node_size t <= fuel)%nat -> read_node fuel (Some (h_next h)) h' = Ret (t, h').
Proof. exact parsed_any_oracle_walks. Qed.
Print Assumptions C01_result_usable_walks.

(** what the canonical encoding says about the links of the image — the root has no sibling links;
    the k-th child of a node with children list [ks] has next = the (k+1)-th (NULL at the end),
    prev = the (k-1)-th, the head's prev being the last ([Forest.link_at]); [child] is the head of
    the children list, NULL for a leaf ([Forest.mk_dat]) *)
Theorem C01_result_usable_links : forall t h F h',
  plain t = true -> WF h F -> mat t h = Ret (Some (h_next h), h') ->
  let tr := forest_of t (h_next h) in
  h_lnk h' !! h_next h = Some (None, None) /\
  (forall i d (ks : list positive), (i, d, ks) ∈ flat [tr] ->
     h_dat h' !! i = Some (mk_dat d ks) /\
     forall k c, ks !! k = Some c -> h_lnk h' !! c = Some (link_at ks k)).
Proof. exact mat_links. Qed.
Print Assumptions C01_result_usable_links.

(** ALL ENTRY POINTS.  [usable t] = shape + prints + walks + deletes as above.  The zero-terminated
    variants are the length-based one on strlen + 1 declared bytes; cJSON_Parse and
    cJSON_ParseWithLength are the rnt = false instances. *)
Theorem C01_result_usable_length_variants :
  forall strtod fmt_d fmt_g15 fmt_g17 sscanf_lg,
  LibcStrictSpec fmt_d fmt_g15 fmt_g17 -> strtod_ok strtod -> strtod_valid strtod ->
  forall oracle content len rnt r t,
    (len <= length content)%nat -> Forall Bbyte (firstn len content) ->
    cJSON_ParseWithLengthOpts strtod oracle content len rnt = Ok r -> pr_tree r = Some t ->
    usable fmt_d fmt_g15 fmt_g17 sscanf_lg t /\ pr_live r = blocks t.
Proof. exact parse_length_result_usable. Qed.
Print Assumptions C01_result_usable_length_variants.

Theorem C01_result_usable_string_variants :
  forall strtod fmt_d fmt_g15 fmt_g17 sscanf_lg,
  LibcStrictSpec fmt_d fmt_g15 fmt_g17 -> strtod_ok strtod -> strtod_valid strtod ->
  forall oracle content rnt r t,
    Forall Bbyte content ->
    cJSON_ParseWithOpts strtod oracle content rnt = Ok r -> pr_tree r = Some t ->
    usable fmt_d fmt_g15 fmt_g17 sscanf_lg t /\ pr_live r = blocks t.
Proof. exact parse_string_result_usable. Qed.
Print Assumptions C01_result_usable_string_variants.

(** non-vacuity: {"a":[1,2.5,"x\né",{"k":null,"e":[]}],"b":true, "c":-3e2} with the reference
    libc — accepted, 16 blocks; rendered in both formats; materialised from the empty heap as root 1
    with the 16 live blocks 1..16; after cJSON_Delete no live library block, no node, no string;
    the walk of the image reads back the tree *)
Theorem C01_result_usable_nonvacuous :
  Forall Bbyte ex_text /\
  text_l strtod_ref ex_text false = Some (ex_tree, []) /\
  (exists r, cJSON_ParseWithLengthOpts strtod_ref never_fails ex_text (length ex_text) false = Ok r /\
             pr_tree r = Some ex_tree /\ pr_live r = 16) /\
  blocks ex_tree = 16 /\
  render LibcPrint.fmt_d PrintStrictRef.sg_fmt_g15 PrintStrictRef.sg_fmt_g17 LibcPrint.sscanf_lg false 0 ex_tree
    = Some ex_unformatted /\
  (exists txt, render LibcPrint.fmt_d PrintStrictRef.sg_fmt_g15 PrintStrictRef.sg_fmt_g17 LibcPrint.sscanf_lg true 0 ex_tree
               = Some txt /\ length txt = 83%nat) /\
  (exists live, ex_run = Some (Some 1%positive, live, 17%positive, [], [], []) /\ length live = 16%nat) /\
  (exists h', mat ex_tree empty_heap = Ret (Some 1%positive, h') /\
              exists h'', read_node 20 (Some 1%positive) h' = Ret (ex_tree, h'')).
Proof. exact usable_example. Qed.
Print Assumptions C01_result_usable_nonvacuous.

(** … and the hypotheses of the general theorems hold for it *)
Theorem C01_result_usable_nonvacuous_general :
  shape Bbyte Dvalid false nesting_limit ex_tree /\
  prints_ok LibcPrint.fmt_d PrintStrictRef.sg_fmt_g15 PrintStrictRef.sg_fmt_g17 LibcPrint.sscanf_lg ex_tree /\
  heap_usable ex_tree /\ walkable ex_tree.
Proof. exact usable_example_general. Qed.
Print Assumptions C01_result_usable_nonvacuous_general.
