(* h_core.ml — handlers of area "core": histories of tree-API calls on the heap model (CoreDefs.v / CoreOps.v).

   case:   hist <cfg> <fail> <op>;<op>;...
     cfg   letters: E = print the allocator events at the end (and as the result of every hooks call);
           D = after every call print the dumps of the roots that changed; X = at the end delete every
           live root and print the ledger again; T = (implementation only) run on a thread with a small stack;
           - = none
           S = the model driver answers MODEL-SKIPPED (cases that are too expensive for the extracted model)
     fail  0 = no allocation failure, k = the k-th request (1-based) fails, m<hex> = requests whose bit is set fail,
           @<j>.<k> = the k-th request counted from the start of call number j (0-based) fails, L<k> = same for the last call
     op    name:arg:arg...   (see parse_op)
   result: one segment per call, separated by " ; ":   <result> [<handle>:<dump> ...] L<live blocks>
           then " ; END live=<n> reqs=<n>" and, with X, " X live=<n>".
   arguments   item: - | <handle>      string: - | s<k> | x<hex> | k<handle> | v<handle>
               double: <hex bits> | nan      lists: - (NULL) | = (empty) | a,b,c
   results     . (void)  0/1 (flag)  - / h<k> (pointer: first handle holding it)  <int>  <hex bits>|nan  <hex>|=|- (string)
   dump        {type,valuestring,valueint,valuedouble bits,key child child ...}  followed by ! when the structural walk
               finds a broken sibling chain; CYCLE when the structure is too deep / a chain does not end *)
open Model
open Driver

let split_on c s = String.split_on_char c s
let iarg s = if s = "-" then INull else IH (nat_of_int (int_of_string s))
let hexb s = if s = "" then [] else bytes_of_hex s
let sarg s =
  if s = "-" then SNull else
  let r = String.sub s 1 (String.length s - 1) in
  match s.[0] with
  | 's' -> SPool (nat_of_int (int_of_string r))
  | 'x' -> SLit (hexb r)
  | 'k' -> SKeyOf (nat_of_int (int_of_string r))
  | 'v' -> SValOf (nat_of_int (int_of_string r))
  | _ -> failwith ("bad string argument " ^ s)
let dbl s = dbl_of_tok s
let zint s = z_of_int (int_of_string s)
let boolarg s = s <> "0"
let listarg (f : string -> 'a) (s : string) : 'a list option =
  if s = "-" then None else if s = "=" then Some [] else Some (List.map f (split_on ',' s))

let parse_op (s : string) : op =
  let a = Array.of_list (split_on ':' s) in
  let g i = if i < Array.length a then a.(i) else failwith ("missing argument in " ^ s) in
  match a.(0) with
  | "null" -> OCreateNull | "true" -> OCreateTrue | "false" -> OCreateFalse
  | "bool" -> OCreateBool (boolarg (g 1)) | "num" -> OCreateNumber (dbl (g 1))
  | "str" -> OCreateString (sarg (g 1)) | "raw" -> OCreateRaw (sarg (g 1))
  | "arr" -> OCreateArray | "obj" -> OCreateObject
  | "sref" -> OCreateStringReference (sarg (g 1))
  | "oref" -> OCreateObjectReference (iarg (g 1)) | "aref" -> OCreateArrayReference (iarg (g 1))
  | "ints" -> OCreateIntArray (listarg zint (g 2), zint (g 1))
  | "floats" -> OCreateFloatArray (listarg dbl (g 2), zint (g 1))
  | "doubles" -> OCreateDoubleArray (listarg dbl (g 2), zint (g 1))
  | "strs" -> OCreateStringArray (listarg sarg (g 2), zint (g 1))
  | "dup" -> ODuplicate (iarg (g 1), boolarg (g 2))
  | "add" -> OAddItemToArray (iarg (g 1), iarg (g 2))
  | "addo" -> OAddItemToObject (iarg (g 1), sarg (g 2), iarg (g 3))
  | "addcs" -> OAddItemToObjectCS (iarg (g 1), sarg (g 2), iarg (g 3))
  | "addref" -> OAddItemReferenceToArray (iarg (g 1), iarg (g 2))
  | "addrefo" -> OAddItemReferenceToObject (iarg (g 1), sarg (g 2), iarg (g 3))
  | "anull" -> OAddNullToObject (iarg (g 1), sarg (g 2))
  | "atrue" -> OAddTrueToObject (iarg (g 1), sarg (g 2))
  | "afalse" -> OAddFalseToObject (iarg (g 1), sarg (g 2))
  | "abool" -> OAddBoolToObject (iarg (g 1), sarg (g 2), boolarg (g 3))
  | "anum" -> OAddNumberToObject (iarg (g 1), sarg (g 2), dbl (g 3))
  | "astr" -> OAddStringToObject (iarg (g 1), sarg (g 2), sarg (g 3))
  | "araw" -> OAddRawToObject (iarg (g 1), sarg (g 2), sarg (g 3))
  | "aobj" -> OAddObjectToObject (iarg (g 1), sarg (g 2))
  | "aarr" -> OAddArrayToObject (iarg (g 1), sarg (g 2))
  | "detp" -> ODetachItemViaPointer (iarg (g 1), iarg (g 2))
  | "deta" -> ODetachItemFromArray (iarg (g 1), zint (g 2))
  | "deto" -> ODetachItemFromObject (iarg (g 1), sarg (g 2))
  | "detocs" -> ODetachItemFromObjectCaseSensitive (iarg (g 1), sarg (g 2))
  | "del" -> ODelete (iarg (g 1))
  | "dela" -> ODeleteItemFromArray (iarg (g 1), zint (g 2))
  | "delo" -> ODeleteItemFromObject (iarg (g 1), sarg (g 2))
  | "delocs" -> ODeleteItemFromObjectCaseSensitive (iarg (g 1), sarg (g 2))
  | "ins" -> OInsertItemInArray (iarg (g 1), zint (g 2), iarg (g 3))
  | "repp" -> OReplaceItemViaPointer (iarg (g 1), iarg (g 2), iarg (g 3))
  | "repa" -> OReplaceItemInArray (iarg (g 1), zint (g 2), iarg (g 3))
  | "repo" -> OReplaceItemInObject (iarg (g 1), sarg (g 2), iarg (g 3))
  | "repocs" -> OReplaceItemInObjectCaseSensitive (iarg (g 1), sarg (g 2), iarg (g 3))
  | "size" -> OGetArraySize (iarg (g 1))
  | "get" -> OGetArrayItem (iarg (g 1), zint (g 2))
  | "geto" -> OGetObjectItem (iarg (g 1), sarg (g 2))
  | "getocs" -> OGetObjectItemCaseSensitive (iarg (g 1), sarg (g 2))
  | "has" -> OHasObjectItem (iarg (g 1), sarg (g 2))
  | "gets" -> OGetStringValue (iarg (g 1)) | "getn" -> OGetNumberValue (iarg (g 1)) | "each" -> OArrayForEach (iarg (g 1))
  | "setn" -> OSetNumberValue (iarg (g 1), dbl (g 2))
  | "seti" -> OSetIntValue (iarg (g 1), zint (g 2))
  | "sets" -> OSetValuestring (iarg (g 1), sarg (g 2))
  | "setb" -> OSetBoolValue (iarg (g 1), boolarg (g 2))
  | "hooks" -> OInitHooks (if g 1 = "N" then None else Some ((g 1).[0] = '1', (g 1).[1] = '1'))
  | "mal" -> OMalloc (hexb (if g 1 = "=" then "" else g 1))
  | "free" -> OFree (sarg (g 1))
  | "string" -> OString (hexb (if g 1 = "=" then "" else g 1))
  | "setchild" -> OSetChildRaw (iarg (g 1), iarg (g 2))
  | "setlinks" -> OSetLinksRaw (iarg (g 1), iarg (g 2), iarg (g 3))
  | "chain" -> OChain (zint (g 1))
  | "depth" -> OChildDepth (iarg (g 1))
  | _ -> failwith ("unknown op " ^ s)

(* calls the heap model does not cover (printer, parser, utilities): the implementation driver runs them, the model
   treats them as calls that leave the heap alone; those that return an item push a NULL handle.  Their results
   print as ? and are not comparable (the properties' projections leave them out). *)
let external_op (s : string) : bool option =
  match List.hd (split_on ':' s) with
  | "print" | "printbuf" | "printpre" | "minify" | "sortobj" | "sortobjcs" | "findptr" | "applypatch" | "applypatchcs" | "seal" | "unseal" -> Some false
  | "parse" | "parseo" | "parsel" | "genpatch" | "genpatchcs" | "genmerge" | "genmergecs" | "mergepatch" | "mergepatchcs" | "getptr" | "getptrcs" -> Some true
  | _ -> None

(* ---- canonical output ---- *)
let dbl_short (d : spec_float) : string =
  match d with
  | S754_nan -> "nan"
  | _ -> let h = hex_of_z_width 16 (bits_of_sf d) in
         let n = String.length h in
         let i = ref 0 in
         while !i < n - 1 && h.[!i] = '0' do incr i done;
         String.sub h !i (n - !i)

let rec dump_str (b : Buffer.t) (n : node) : unit =
  let Node (ty, vs, vi, vd, key, ch) = n in
  Buffer.add_string b (Printf.sprintf "{%d,%s,%d,%s,%s" (int_of_z ty) (hex_of_opt vs) (int_of_z vi) (dbl_short vd) (hex_of_opt key));
  List.iter (fun c -> dump_str b c) ch;
  Buffer.add_char b '}'

let dump_tok (d : (node * bool) option) : string =
  match d with
  | None -> "CYCLE"
  | Some (n, ok) -> let b = Buffer.create 256 in dump_str b n; if not ok then Buffer.add_char b '!'; Buffer.contents b

let ptr_eq (a : ptr) (b : ptr) = (a = b)
let canon (items : ptr list) (p : ptr) : string =
  match p with
  | None -> "-"
  | Some _ -> let rec go i = function [] -> "h?" | q :: r -> if ptr_eq q p then "h" ^ string_of_int i else go (i + 1) r in go 0 items

let err_str (e : err) : string =
  match e with UAF -> "UAF" | DoubleFree -> "DoubleFree" | ForeignFree -> "ForeignFree" | ForeignWrite -> "ForeignWrite"
             | NullDeref -> "NullDeref" | BadBlock -> "BadBlock" | OutOfBounds -> "OutOfBounds" | NoFuel -> "NoFuel"

let result_str (st : state) (r : result) : string =
  match r with
  | RUnit -> "."
  | RFlag b -> if b then "1" else "0"
  | RPtr p -> canon st.st_items p
  | RInt z -> string_of_int (int_of_z z)
  | RDbl d -> dbl_short d
  | RStr s -> hex_of_opt s
  | RInts l -> if l = [] then "=" else String.concat "," (List.map (fun z -> string_of_int (int_of_z z)) l)

(* the failure schedule: a function of the call number and of the requests made before that call *)
let oracle_of (s : string) (nops : int) : int -> int -> (nat -> bool) =
  let rest = String.sub s 1 (String.length s - 1) in
  let never = fail_kth O in
  let at j0 k = fun j before -> if j = j0 then (fun i -> int_of_nat i = before + k - 1) else never in
  if s.[0] = 'm' then (let o = fail_mask (z_of_hex rest) in fun _ _ -> o)
  else if s.[0] = 'L' then at (nops - 1) (int_of_string rest)
  else if s.[0] = '@' then (match String.split_on_char '.' rest with [j; k] -> at (int_of_string j) (int_of_string k) | _ -> failwith "bad fail spec")
  else (let o = fail_kth (nat_of_int (int_of_string s)) in fun _ _ -> o)

exception Model_err of string

(* the trace of Heap.v summarised like the implementation driver's counters:
   user allocs . user frees . user free(NULL) . libc allocs . libc frees . libc free(NULL) . realloc/calloc (never in this model) *)
let events_str (h : heap) : string =
  let ua = ref 0 and uf = ref 0 and un = ref 0 and la = ref 0 and lf = ref 0 and ln = ref 0 in
  List.iter (fun e -> match e with
    | EvAlloc (_, UserHook) -> incr ua | EvAlloc (_, LibcFn) -> incr la
    | EvFree (_, UserHook) -> incr uf | EvFree (_, LibcFn) -> incr lf
    | EvFreeNull UserHook -> incr un | EvFreeNull LibcFn -> incr ln) h.h_trace;
  Printf.sprintf "%d.%d.%d.%d.%d.%d.0" !ua !uf !un !la !lf !ln

(* the acceptance function re-runs the list model on the whole history: its cost grows faster than linearly with the length (and with
   the sizes duplicates reach), so it is evaluated on histories of at most this many calls; longer ones carry no tag (counted as
   "not evaluated" by their absence) *)
let accept_max_ops = match Sys.getenv_opt "CJ_ACCEPT_MAX_OPS" with Some v -> int_of_string v | None -> 90

let h_hist (a : string array) : string =
  let cfg = a.(1) in
  if String.contains cfg 'S' then "MODEL-SKIPPED" else
  let ops = if Array.length a > 3 then List.filter (fun s -> s <> "") (split_on ';' a.(3)) else [] in
  let oracle_at = oracle_of a.(2) (List.length ops) in
  let opno = ref 0 in
  let with_dumps = String.contains cfg 'D' in
  let out = Buffer.create 4096 in
  let heap = ref empty_heap in
  let st = ref empty_state in
  let last : (int, string) Hashtbl.t = Hashtbl.create 16 in
  let run : 'b. 'b m -> 'b = fun m ->
    match m !heap with
    | Ret (x, h') -> heap := h'; x
    | Err e -> raise (Model_err (err_str e)) in
  (try
    List.iter (fun s ->
      match external_op s with
      | Some pushes ->
          incr opno;
          if pushes then st := { st_items = (!st).st_items @ [None]; st_strs = (!st).st_strs };
          Buffer.add_string out (Printf.sprintf "? L%d ; " (int_of_nat (live_count !heap)))
      | None ->
      let o = parse_op s in
      let oracle = oracle_at !opno (int_of_nat (!heap).h_req) in
      incr opno;
      let (r, st') = run (run_op oracle !st o) in
      st := st';
      Buffer.add_string out (match o with OInitHooks _ -> events_str !heap | _ -> result_str !st r);
      (match o, r with
       | ODuplicate (i, _), RPtr (Some c) ->
           (* C11: source and copy share no owned block *)
           let src = item_of !st i in
           (match run (owned_blocks dump_depth src), run (owned_blocks dump_depth (Some c)) with
            | Some x, Some y -> if share_blocks x y then Buffer.add_string out ",SHARED"
            | _, _ -> ())
       | _, _ -> ());
      if with_dumps then begin
        let ds = run (dump_state !st) in
        let now = List.map (fun (i, d) -> (int_of_nat i, dump_tok d)) ds in
        (* roots that disappeared *)
        let gone = Hashtbl.fold (fun i _ acc -> if List.mem_assoc i now then acc else i :: acc) last [] in
        List.iter (fun i -> Hashtbl.remove last i) gone;
        let changes = List.filter (fun (i, d) -> match Hashtbl.find_opt last i with Some d0 -> d0 <> d | None -> true) now in
        List.iter (fun (i, d) -> Hashtbl.replace last i d) changes;
        let all = List.sort compare (List.map (fun i -> (i, "~")) gone @ changes) in
        List.iter (fun (i, d) -> Buffer.add_string out (Printf.sprintf " %d:%s" i d)) all
      end;
      Buffer.add_string out (Printf.sprintf " L%d ; " (int_of_nat (live_count !heap)))) ops;
    Buffer.add_string out (Printf.sprintf "END live=%d reqs=%d" (int_of_nat (live_count !heap)) (int_of_nat (!heap).h_req));
    if String.contains cfg 'E' then Buffer.add_string out (" ev=" ^ events_str !heap);
    if String.contains cfg 'X' then begin
      (* delete every live root, in handle order *)
      let n = List.length (!st).st_items in
      for i = 0 to n - 1 do
        (* is handle i still a live root? *)
        if List.exists (fun j -> int_of_nat j = i) (run (live_roots !st)) then begin
          let (_, st') = run (run_op (fail_kth O) !st (ODelete (IH (nat_of_int i)))) in st := st'
        end
      done;
      Buffer.add_string out (Printf.sprintf " X live=%d" (int_of_nat (live_count !heap)))
    end
  with Model_err e -> Buffer.add_string out ("MODELERR=" ^ e));
  (* theorem coverage (a trailing @tag is stripped and counted by tools/check.py, never compared): does this history satisfy the
     boolean hypothesis accepted_rulesR of C06_history_extractedR / C07_balanced_extractedR (histories with cJSON_Duplicate and with queries through reference nodes included), i.e. is its whole run — results, heap,
     ledger — a consequence of the theorem?  Only failure-free histories of modelled calls can. *)
  (if a.(2) = "0" && ops <> [] && List.length ops <= accept_max_ops && List.for_all (fun s -> external_op s = None) ops then
     match (try Some (List.map parse_op ops) with _ -> None) with
     | Some os -> Buffer.add_string out (if accepted_rulesR os then " @under-theorem:C06_history_extractedR" else " @outside-theorem:C06_history_extractedR")
     | None -> ());
  Buffer.contents out

let handlers : (string * (string array -> string)) list = [
  ("hist", h_hist);
]
