#!/bin/sh
# builds ocaml/driver from coq/model.ml(i) + the hand-written driver sources
set -e
cd "$(dirname "$0")"
mkdir -p _build
cp ../coq/model.ml ../coq/model.mli driver.ml handlers.ml main.ml _build/
cd _build
ocamlfind ocamlopt -O3 -w -a model.mli model.ml driver.ml handlers.ml main.ml -o ../driver 2>/dev/null || \
ocamlfind ocamlopt -w -a model.mli model.ml driver.ml handlers.ml main.ml -o ../driver
