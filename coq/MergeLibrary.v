(** MergeLibrary.v — the round trip inside the library: the model's own merge_patch applied to a duplicate of
    [from] with the patch generate_merge_patch produced gives [to] (NULL patch: nothing is applied).  Needs: the
    generated patch nests no deeper than [to]; [doc_eq] does not see ownership flags. *)
From Coq Require Import Permutation Sorted.
From CJ Require Import Base Dbl Tree CompareDefs CompareProofs MergeDefs Rfc7396 MergeLemmas MergeSort MergeApply MergePerm
  MergeGen MergeGenerate MergeTotal MergeTransfer.
Local Open Scope Z_scope.

(** * doc_eq does not see flags (left operand) *)
Lemma lookup_Forall2_sfeq_r ko l m : Forall2 sfeq l m ->
  match m7396_lookup ko l, m7396_lookup ko m with Some x, Some y => sfeq x y | None, None => True | _, _ => False end.
Proof.
  unfold m7396_lookup. induction 1 as [|x y l m H _ IH]; cbn [find]; [exact I|].
  unfold m7396_named. rewrite (sfeq_key _ _ H). destruct (m7396_key_eqb (n_key y) ko); [exact H|exact IH].
Qed.

Lemma doc_eq_sfeq_l : forall a a' z, sfeq a a' -> doc_eq a z = doc_eq a' z.
Proof.
  induction a as [ty vs vi vd k ch IH] using node_ind'. intros a' z S.
  pose proof (sfeq_ty _ _ S) as Et. pose proof (sfeq_vstr _ _ S) as Evs. pose proof (sfeq_vint _ _ S) as Evi.
  pose proof (sfeq_vdbl _ _ S) as Evd. pose proof (sfeq_children _ _ S) as F. cbn [n_ty n_vstr n_vint n_vdbl n_children] in *.
  rewrite !doc_eq_unfold. cbn [n_ty n_vint n_vdbl n_vstr n_children]. rewrite <- Et, <- Evs, <- Evi, <- Evd.
  destruct (tymask ty =? tymask (n_ty z)); [cbn [andb]|reflexivity].
  destruct (tymask ty =? c_cJSON_Number); [reflexivity|].
  destruct ((tymask ty =? c_cJSON_String) || (tymask ty =? c_cJSON_Raw)); [reflexivity|].
  destruct (tymask ty =? c_cJSON_Array).
  { clear - IH F. revert IH. generalize (n_children z). induction F as [|x x' l l' H _ IHl]; intros lz IH; [reflexivity|].
    destruct lz as [|y lz]; cbn [arr_eq]; [reflexivity|]. inversion IH as [|? ? IH1 IH']; subst.
    rewrite (IH1 x' y H). f_equal. apply IHl. exact IH'. }
  destruct (tymask ty =? c_cJSON_Object); [|reflexivity].
  f_equal.
  - apply forallb_Forall2. clear - IH F. revert IH. induction F as [|x x' l l' H _ IHl]; intros IH; constructor.
    + inversion IH as [|? ? IH1 IH']; subst. rewrite (sfeq_key _ _ H).
      destruct (m7396_lookup (n_key x') (n_children z)); [|reflexivity]. apply IH1. exact H.
    + inversion IH; subst. apply IHl; assumption.
  - apply forallb_ext_in. intros y _. pose proof (lookup_Forall2_sfeq_r (n_key y) _ _ F) as R.
    destruct (m7396_lookup (n_key y) ch); destruct (m7396_lookup (n_key y) (n_children a')); try contradiction; reflexivity.
Qed.

(** * the generated patch nests no deeper than [to] *)
Lemma depth_keyed k s : node_depth (mp_keyed k s) = node_depth s.
Proof. destruct s; reflexivity. Qed.
Lemma depth_clear_refs : forall n, node_depth (clear_refs n) = node_depth n.
Proof.
  induction n as [ty vs vi vd k ch IH] using node_ind'. rewrite !node_depth_eq. cbn [clear_refs n_children]. f_equal.
  induction IH as [|c r Hc _ IHr]; cbn [map max_depth]; [reflexivity|]. rewrite Hc, IHr. reflexivity.
Qed.

Definition gen_depth (gen : node -> node -> res (option node * node * node)) : Prop :=
  forall x y s x' y', gen x y = Ok (Some s, x', y') -> depth_ok y ->
    (node_depth s <= Nat.max (node_depth x) (node_depth y))%nat.

Lemma max_depth_app l m : max_depth (l ++ m) = Nat.max (max_depth l) (max_depth m).
Proof. induction l as [|x l IH]; cbn [app max_depth]; [reflexivity|]. rewrite IH. lia. Qed.

Lemma add_member_depth k o n : (forall s, o = Some s -> (node_depth s <= n)%nat) -> (max_depth (mp_add_member [] k o) <= n)%nat.
Proof.
  intro H. unfold mp_add_member. destruct k as [kk|]; [|cbn; lia]. destruct o as [s|]; [|cbn; lia].
  cbn [app max_depth]. rewrite depth_keyed. specialize (H s eq_refl). lia.
Qed.

Lemma gen_walk_depth cmp gen : cmp_dperm cmp -> gen_depth gen -> forall fl tl p fl' tl' n,
  mp_gen_walk cmp gen fl tl = Ok (p, fl', tl') -> Forall depth_ok tl ->
  (max_depth fl <= n)%nat -> (max_depth tl <= n)%nat -> (max_depth p <= n)%nat.
Proof.
  intros Hc Hg. induction fl as [|fc fr IHf].
  - induction tl as [|tc tr IHt]; intros p fl' tl' n H Dt Mf Mn.
    + rewrite gen_walk_nil_nil in H. injection H as <- <- <-. cbn. lia.
    + rewrite gen_walk_nil_cons in H.
      destruct (mp_gen_walk cmp gen [] tr) as [[[p2 fl2] tl2]| |] eqn:E; cbn [bind] in H; try discriminate.
      injection H as <- <- <-. inversion Dt as [|? ? Hd Dt']; subst. cbn [max_depth] in Mn.
      rewrite max_depth_app. assert (L2 : (max_depth p2 <= n)%nat) by (apply (IHt _ _ _ n eq_refl Dt'); lia).
      assert ((max_depth (mp_add_member [] (n_key tc) (mp_dup_rec 0 tc)) <= n)%nat).
      { apply add_member_depth. intros s Hs. rewrite dup_rec_ok in Hs by (unfold depth_ok in Hd; lia). injection Hs as <-.
        rewrite depth_clear_refs. lia. }
      lia.
  - induction tl as [|tc tr IHt]; intros p fl' tl' n H Dt Mf Mn.
    + rewrite gen_walk_cons_nil in H.
      destruct (mp_gen_walk cmp gen fr []) as [[[p2 fl2] tl2]| |] eqn:E; cbn [bind] in H; try discriminate.
      injection H as <- <- <-. rewrite max_depth_app. cbn [max_depth] in Mf. pose proof (depth_pos fc).
      assert (L2 : (max_depth p2 <= n)%nat) by (apply (IHf _ _ _ _ n E Dt); lia).
      assert ((max_depth (mp_add_member [] (n_key fc) (Some mp_CreateNull)) <= n)%nat).
      { apply add_member_depth. intros s Hs. injection Hs as <-. cbn. lia. }
      lia.
    + rewrite gen_walk_cons_cons in H. destruct (n_key fc) as [kf|] eqn:Hkf; [|discriminate]. destruct (n_key tc) as [kt|] eqn:Hkt; [|discriminate].
      inversion Dt as [|? ? Hd Dt']; subst. pose proof Mn as Mn'. cbn [max_depth] in Mn'. pose proof Mf as Mf'. cbn [max_depth] in Mf'.
      pose proof (depth_pos fc).
      destruct (strcmp kf kt <? 0).
      { destruct (mp_gen_walk cmp gen fr (tc :: tr)) as [[[p2 fl2] tl2]| |] eqn:E; cbn [bind] in H; try discriminate.
        injection H as <- <- <-.
        change (max_depth (mp_add_member [] (Some kf) (Some mp_CreateNull) ++ p2) <= n)%nat.
        rewrite max_depth_app. assert (L2 : (max_depth p2 <= n)%nat) by (apply (IHf _ _ _ _ n E Dt); lia).
        assert ((max_depth (mp_add_member [] (Some kf) (Some mp_CreateNull)) <= n)%nat).
        { apply add_member_depth. intros s Hs. injection Hs as <-. cbn. lia. }
        lia. }
      destruct (0 <? strcmp kf kt).
      { destruct (mp_gen_walk cmp gen (fc :: fr) tr) as [[[p2 fl2] tl2]| |] eqn:E; cbn [bind] in H; try discriminate.
        injection H as <- <- <-. rewrite max_depth_app.
        assert (L2 : (max_depth p2 <= n)%nat) by (apply (IHt _ _ _ n eq_refl Dt'); lia).
        assert ((max_depth (mp_add_member [] (Some kt) (mp_dup_rec 0 tc)) <= n)%nat).
        { apply add_member_depth. intros s Hs. rewrite dup_rec_ok in Hs by (unfold depth_ok in Hd; lia). injection Hs as <-.
          rewrite depth_clear_refs. lia. }
        change (Nat.max (max_depth (mp_add_member [] (Some kt) (mp_dup_rec 0 tc))) (max_depth p2) <= n)%nat. lia. }
      destruct (cmp fc tc) as [[[same fc1] tc1]| |] eqn:Ec; cbn [bind] in H; try discriminate.
      destruct (Hc _ _ _ _ _ Ec) as [Df Dtc]. destruct same.
      { destruct (mp_gen_walk cmp gen fr tr) as [[[p2 fl2] tl2]| |] eqn:E; cbn [bind] in H; try discriminate.
        injection H as <- <- <-. apply (IHf _ _ _ _ n E Dt'); lia. }
      destruct (gen fc1 tc1) as [[[sub fc2] tc2]| |] eqn:Eg; cbn [bind] in H; try discriminate.
      destruct (mp_gen_walk cmp gen fr tr) as [[[p2 fl2] tl2]| |] eqn:E; cbn [bind] in H; try discriminate.
      injection H as <- <- <-. rewrite max_depth_app.
      assert ((max_depth p2 <= n)%nat) by (apply (IHf _ _ _ _ n E Dt'); lia).
      assert ((max_depth (mp_add_member [] (n_key tc2) sub) <= n)%nat).
      { apply add_member_depth. intros s Hs. subst sub.
        assert (Hd1 : depth_ok tc1) by (unfold depth_ok; rewrite <- (depth_dperm _ _ Dtc); exact Hd).
        pose proof (Hg _ _ _ _ _ Eg Hd1) as L. rewrite <- (depth_dperm _ _ Dtc), <- (depth_dperm _ _ Df) in L. lia. }
      lia.
Qed.

Theorem generate_depth cs : forall fuel, gen_depth (mp_generate_merge_patch fuel cs).
Proof.
  induction fuel as [|f IH]; intros x y s x' y' H Hd; [discriminate|].
  cbn [mp_generate_merge_patch] in H.
  destruct (negb (is_object y) || negb (is_object x)) eqn:Eo.
  - rewrite dup_rec_ok in H by (unfold depth_ok in Hd; lia). injection H as <- <- <-. rewrite depth_clear_refs. lia.
  - destruct (mp_sort_members cs (n_children x)) as [sf| |] eqn:Esf; cbn [bind] in H; try discriminate.
    destruct (mp_sort_members cs (n_children y)) as [st| |] eqn:Est; cbn [bind] in H; try discriminate.
    destruct (mp_gen_walk (mp_compare_json_top cs) (mp_generate_merge_patch f cs) sf st) as [[[pm fl] tl]| |] eqn:E; cbn [bind] in H; try discriminate.
    destruct pm as [|e pm']; [discriminate|]. injection H as <- <- <-.
    apply sort_members_perm in Est. apply sort_members_perm in Esf.
    assert (Dst : Forall depth_ok st).
    { apply (Forall_perm _ _ _ Est). apply Forall_forall. intros c Hc. apply (depth_ok_child _ _ Hd Hc). }
    rewrite (node_depth_eq y), (node_depth_eq x), (max_depth_perm _ _ Est), (max_depth_perm _ _ Esf).
    pose proof (gen_walk_depth _ _ (compare_json_top_dperm cs) IH _ _ _ _ _ (Nat.max (max_depth sf) (max_depth st)) E Dst) as L.
    rewrite node_depth_eq. cbn [mp_set_children mp_CreateObject mp_new_item n_children]. lia.
Qed.

(** * the round trip through the model's own merge_patch *)
Theorem library_roundtrip from to p from' to' :
  m7396_doc from = true -> m7396_doc to = true -> no_null_member to = true ->
  m7396_depth_ok from = true -> m7396_depth_ok to = true ->
  cJSONUtils_GenerateMergePatchCaseSensitive (Some from) (Some to) = Ok (p, from', to') ->
  exists d, mp_Duplicate (Some from) = Some d /\
    match p with
    | None => doc_eq d to = true
    | Some s => exists r, cJSONUtils_MergePatchCaseSensitive (Some d) (Some s) = Some r /\ doc_eq r to = true
    end.
Proof.
  intros Df Dt Hn Hdf Hdt H. pose proof (generate_roundtrip from to p from' to' Df Dt Hn Hdt H) as R.
  apply m7396_doc_gd in Df. apply m7396_doc_gd in Dt. apply Z.leb_le in Hdf. apply Z.leb_le in Hdt.
  exists (clear_refs from). split; [apply dup_rec_ok; [lia|unfold depth_ok in *; lia]|].
  unfold cJSONUtils_GenerateMergePatchCaseSensitive, mp_GenerateMergePatch_gen in H.
  destruct (mp_generate_merge_patch (node_depth to) true from to) as [[[p0 f'] t']| |] eqn:E; cbn [bind] in H; try discriminate.
  injection H as <- <- <-. destruct p0 as [s|]; cbn [merge_opt] in R.
  - pose proof (generate_gd _ _ _ _ _ _ E Df Dt Hn Hdt) as Gs.
    pose proof (generate_depth true _ _ _ _ _ _ E Hdt) as Ls.
    assert (Ds : depth_ok s) by (unfold depth_ok in *; lia).
    destruct (apply_sim s Gs Ds (Some (clear_refs from)) (Some from) (sfeq_clear_refs from) Df) as [r [H1 [H2 _]]].
    exists r. split; [exact H1|]. rewrite (doc_eq_sfeq_l _ _ to H2). exact R.
  - rewrite (doc_eq_sfeq_l _ _ to (sfeq_clear_refs from)). exact R.
Qed.
