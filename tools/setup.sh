#!/bin/sh
# setup.sh — builds the whole framework from files on disk only (offline):
# source facts from /repo, the full Coq development (.vo, no -vos), extraction, OCaml driver.
set -e
cd "$(dirname "$0")/.."
python3 tools/gen_facts.py /repo coq/gen
cd coq
coq_makefile -f _CoqProject -o Makefile >/dev/null
timeout 7200 make -j16 2>&1 | grep -v "^COQC\|^COQDEP\|conda\|pyenv\|shims" | tail -20
cd ..
sh ocaml/build.sh
echo "setup done"
