(** PatchMove.v — the [move] operation: apply_patch's byte-level test "from is a prefix of path
    followed by '/'" is RFC 6902's "from is a proper prefix of path" on reference tokens (for
    syntactically valid pointers), and move = remove at from, add at path. *)
From Coq Require Import Lia ZArith List Bool Permutation.
From CJ Require Import Base Dbl Tree PointerDefs PointerProofs CompareDefs PatchDefs PatchProofs PatchRobust Rfc6902
  PatchConform PatchOps PatchApply PatchTest.
Import ListNotations.
Local Open Scope Z_scope.

Definition noslash (r : bytes) : Prop := Forall (fun c => c <> 47) r.
Definition join (raws : list bytes) : bytes := concat (map (cons 47) raws).

(** ---------- a pointer is the concatenation of its raw tokens ---------- *)
Lemma join_split : forall r cur, join (split_slash r cur) = 47 :: rev cur ++ r.
Proof.
  unfold join. induction r as [|c r IH]; intro cur; cbn [split_slash].
  - cbn. rewrite app_nil_r. reflexivity.
  - zeq c 47.
    + subst c. cbn [map concat]. rewrite IH. cbn [rev app]. reflexivity.
    + rewrite IH. cbn [rev]. rewrite <- app_assoc. reflexivity.
Qed.

Lemma split_slash_app : forall a b cur, split_slash (a ++ 47 :: b) cur = split_slash a cur ++ split_slash b [].
Proof.
  induction a as [|c a IH]; intros b cur; cbn [app split_slash].
  - rewrite Z.eqb_refl. reflexivity.
  - zeq c 47; [cbn [app]; f_equal; apply IH | apply IH].
Qed.

Lemma split_slash_noslash : forall r cur, noslash cur -> Forall noslash (split_slash r cur).
Proof.
  induction r as [|c r IH]; intros cur Hc; cbn [split_slash].
  - constructor; [|constructor]. unfold noslash in *. rewrite Forall_forall in *. intros x Hx. apply Hc. apply in_rev. exact Hx.
  - zeq c 47.
    + constructor; [|apply IH; constructor]. unfold noslash in *. rewrite Forall_forall in *. intros x Hx. apply Hc. apply in_rev. exact Hx.
    + apply IH. constructor; assumption.
Qed.

(* the raw tokens of a pointer text *)
Definition raws_of (p : bytes) : list bytes := match p with [] => [] | _ :: r => split_slash r [] end.

Lemma parse_raws p toks : rfc_parse_pointer p = Some toks ->
  p = join (raws_of p) /\ Forall noslash (raws_of p) /\ all_some (map unescape (raws_of p)) = Some toks.
Proof.
  destruct p as [|c r]; cbn [rfc_parse_pointer raws_of].
  - intro H. inversion H. repeat split; constructor.
  - zeq c 47; [subst c|discriminate]. intro H. split; [|split].
    + rewrite join_split. reflexivity.
    + apply split_slash_noslash. constructor.
    + exact H.
Qed.

(** ---------- unescaping is injective on tokens ---------- *)
Lemma unescape_inj : forall a b u, noslash a -> noslash b -> unescape a = Some u -> unescape b = Some u -> a = b.
Proof.
  induction a as [a IH] using (well_founded_induction (Wf_nat.well_founded_ltof _ (@length Z))).
  intros b u Ha Hb Ua Ub. destruct a as [|c a'].
  - cbn in Ua. inversion Ua; subst u. symmetry. apply unescape_nil. exact Ub.
  - inversion Ha as [|? ? Hc Ha']; subst. cbn [unescape] in Ua.
    destruct b as [|e b']; [cbn in Ub; inversion Ub; subst u; exfalso|].
    { zeq c 126.
      - destruct a' as [|d a'']; [discriminate|]. zeq d 48; [destruct (unescape a''); discriminate|]. zeq d 49; [destruct (unescape a''); discriminate | discriminate].
      - destruct (unescape a'); discriminate. }
    inversion Hb as [|? ? He Hb']; subst. cbn [unescape] in Ub.
    zeq c 126.
    + subst c. destruct a' as [|d a'']; [discriminate|]. inversion Ha' as [|? ? Hd Ha'']; subst.
      zeq e 126.
      * subst e. destruct b' as [|d2 b'']; [discriminate|]. inversion Hb' as [|? ? Hd2 Hb'']; subst.
        zeq d 48.
        -- subst d. destruct (unescape a'') as [ua|] eqn:Ea; [|discriminate]. cbn in Ua. inversion Ua; subst u.
           zeq d2 48.
           ++ subst d2. destruct (unescape b'') as [ub|] eqn:Eb; [|discriminate]. cbn in Ub. inversion Ub; subst ub.
              f_equal. f_equal. apply (IH a'') with (u := ua); try assumption. unfold ltof. cbn. lia.
           ++ zeq d2 49; [|discriminate]. destruct (unescape b''); [|discriminate]. cbn in Ub. inversion Ub.
        -- zeq d 49; [|discriminate]. subst d. destruct (unescape a'') as [ua|] eqn:Ea; [|discriminate]. cbn in Ua. inversion Ua; subst u.
           zeq d2 48.
           ++ destruct (unescape b''); [|discriminate]. cbn in Ub. inversion Ub.
           ++ zeq d2 49; [|discriminate]. subst d2. destruct (unescape b'') as [ub|] eqn:Eb; [|discriminate]. cbn in Ub. inversion Ub; subst ub.
              f_equal. f_equal. apply (IH a'') with (u := ua); try assumption. unfold ltof. cbn. lia.
      * destruct (unescape b') as [ub|]; [|discriminate]. cbn in Ub. inversion Ub; subst u.
        zeq d 48.
        -- destruct (unescape a''); [|discriminate]. cbn in Ua. inversion Ua. congruence.
        -- zeq d 49; [|discriminate]. destruct (unescape a''); [|discriminate]. cbn in Ua. inversion Ua. congruence.
    + destruct (unescape a') as [ua|] eqn:Ea; [|discriminate]. cbn in Ua. inversion Ua; subst u.
      zeq e 126.
      * subst e. destruct b' as [|d2 b'']; [discriminate|].
        zeq d2 48.
        -- destruct (unescape b''); [|discriminate]. cbn in Ub. inversion Ub. congruence.
        -- zeq d2 49; [|discriminate]. destruct (unescape b''); [|discriminate]. cbn in Ub. inversion Ub. congruence.
      * destruct (unescape b') as [ub|] eqn:Eb; [|discriminate]. cbn in Ub. inversion Ub; subst.
        f_equal. apply (IH a') with (u := ua); try assumption. unfold ltof. cbn. lia.
Qed.

Lemma unescape_list_inj : forall A B us, Forall noslash A -> Forall noslash B ->
  all_some (map unescape A) = Some us -> all_some (map unescape B) = Some us -> A = B.
Proof.
  induction A as [|a A IH]; intros B us HA HB UA UB.
  - cbn in UA. inversion UA; subst us. destruct B as [|b B]; [reflexivity|].
    cbn in UB. destruct (unescape b); [|discriminate]. destruct (all_some (map unescape B)); discriminate.
  - cbn [map all_some] in UA. destruct (unescape a) as [ua|] eqn:Ea; [|discriminate].
    destruct (all_some (map unescape A)) as [uA|] eqn:EA; [|discriminate]. cbn in UA. inversion UA; subst us.
    destruct B as [|b B]; [discriminate|]. cbn [map all_some] in UB.
    destruct (unescape b) as [ub|] eqn:Eb; [|discriminate].
    destruct (all_some (map unescape B)) as [uB|] eqn:EB; [|discriminate]. cbn in UB. inversion UB; subst.
    inversion HA as [|? ? Ha HA']; subst. inversion HB as [|? ? Hb HB']; subst. f_equal.
    + eapply unescape_inj; eassumption.
    + exact (IH B uA HA' HB' eq_refl EB).
Qed.

Lemma all_some_length {A} (l : list (option A)) : forall r, all_some l = Some r -> length r = length l.
Proof.
  induction l as [|x l IH]; intros r H; cbn in H; [inversion H; reflexivity|].
  destruct x; [|discriminate]. destruct (all_some l) as [r'|]; [|discriminate]. cbn in H. inversion H; subst. cbn. f_equal. apply IH. reflexivity.
Qed.

(** ---------- proper prefixes ---------- *)
Lemma proper_prefix_iff : forall a b, proper_prefix a b = true <-> exists h, h <> [] /\ b = a ++ h.
Proof.
  induction a as [|x a IH]; intros [|y b]; cbn [proper_prefix].
  - split; [discriminate|]. intros (h & Hh & E). destruct h; [contradiction | discriminate].
  - split; [|reflexivity]. intros _. exists (y :: b). split; [discriminate | reflexivity].
  - split; [discriminate|]. intros (h & _ & E). discriminate.
  - rewrite andb_true_iff, bytes_eqb_eq, IH. split.
    + intros [-> (h & Hh & ->)]. exists h. split; [exact Hh | reflexivity].
    + intros (h & Hh & E). cbn in E. inversion E; subst. split; [reflexivity|]. exists h. split; [exact Hh | reflexivity].
Qed.

Lemma firstn_app_exact {A} (l1 l2 : list A) : firstn (length l1) (l1 ++ l2) = l1.
Proof. rewrite firstn_app, Nat.sub_diag, firstn_all. cbn. apply app_nil_r. Qed.
Lemma skipn_app_exact {A} (l1 l2 : list A) : skipn (length l1) (l1 ++ l2) = l2.
Proof. rewrite skipn_app, Nat.sub_diag, skipn_all. reflexivity. Qed.

Lemma app_inv_len {A} : forall (a a' b b' : list A), a ++ b = a' ++ b' -> length a = length a' -> a = a' /\ b = b'.
Proof.
  induction a as [|x a IH]; intros [|y a'] b b' E L; cbn in *; try lia.
  - split; [reflexivity | exact E].
  - inversion E; subst. destruct (IH a' b b' H1 ltac:(lia)) as [-> ->]. split; reflexivity.
Qed.

(* the test of apply_patch (strncmp + next byte) on two valid pointers *)
Lemma own_child_check fstr pstr ftoks toks :
  rfc_parse_pointer fstr = Some ftoks -> rfc_parse_pointer pstr = Some toks ->
  (bytes_eqb (firstn (length fstr) pstr) fstr && (hd 0 (skipn (length fstr) pstr) =? 47)) = proper_prefix ftoks toks.
Proof.
  intros Pf Pp.
  destruct (parse_raws _ _ Pf) as (Jf & Nf & Uf). destruct (parse_raws _ _ Pp) as (Jp & Np & Up).
  apply eq_true_iff_eq. rewrite andb_true_iff, bytes_eqb_eq, Z.eqb_eq, proper_prefix_iff. split.
  - (* bytes -> tokens *)
    intros [E1 E2].
    assert (Hp : exists rest, pstr = fstr ++ 47 :: rest).
    { rewrite <- (firstn_skipn (length fstr) pstr). rewrite E1.
      destruct (skipn (length fstr) pstr) as [|c rest]; [cbn in E2; discriminate|]. cbn in E2. subst c. exists rest. reflexivity. }
    destruct Hp as (rest & Hp).
    assert (HR : exists G, G <> [] /\ raws_of pstr = raws_of fstr ++ G).
    { destruct fstr as [|c f'].
      - cbn [raws_of app] in *. exists (raws_of pstr). split; [|reflexivity].
        subst pstr. cbn [raws_of]. apply split_slash_nonempty.
      - cbn [rfc_parse_pointer] in Pf. zeq c 47; [subst c|discriminate].
        subst pstr. cbn [raws_of app]. rewrite split_slash_app. exists (split_slash rest []). split; [apply split_slash_nonempty | reflexivity]. }
    destruct HR as (G & HG & HR). rewrite HR in Up. rewrite map_app in Up. apply all_some_app in Up.
    destruct Up as (r1 & r2 & U1 & U2 & Et). rewrite Uf in U1. inversion U1; subst r1.
    exists r2. split; [|exact Et]. intro E. subst r2. apply all_some_length in U2. rewrite map_length in U2. destruct G; [contradiction | discriminate].
  - (* tokens -> bytes *)
    intros (h & Hh & Et). subst toks.
    set (F := raws_of fstr) in *. set (P := raws_of pstr) in *.
    assert (LP : length P = length (ftoks ++ h)) by (apply all_some_length in Up; rewrite map_length in Up; lia).
    assert (LF : length F = length ftoks) by (apply all_some_length in Uf; rewrite map_length in Uf; lia).
    rewrite <- (firstn_skipn (length F) P) in Up. rewrite map_app in Up. apply all_some_app in Up.
    destruct Up as (r1 & r2 & U1 & U2 & Et).
    assert (L1 : length r1 = length ftoks).
    { apply all_some_length in U1. rewrite map_length, firstn_length in U1. rewrite app_length in LP. lia. }
    assert (r1 = ftoks /\ r2 = h) as [-> ->].
    { symmetry in Et. apply app_inv_len in Et; [tauto | exact L1]. }
    assert (EF : firstn (length F) P = F).
    { apply (unescape_list_inj _ _ ftoks); try assumption.
      rewrite Forall_forall in *. intros x Hx. apply Np. eapply In_firstn; exact Hx. }
    assert (HG : skipn (length F) P <> []).
    { intro E. rewrite E in U2. cbn in U2. inversion U2. subst h. contradiction. }
    assert (EP : pstr = fstr ++ join (skipn (length F) P)).
    { transitivity (join P); [exact Jp|].
      rewrite <- (firstn_skipn (length F) P) at 1. rewrite EF. unfold join. rewrite map_app, concat_app.
      f_equal. symmetry. exact Jf. }
    rewrite EP. rewrite firstn_app_exact, skipn_app_exact. split; [reflexivity|].
    destruct (skipn (length F) P) as [|g G]; [contradiction|]. reflexivity.
Qed.

(** ---------- move ---------- *)
Theorem apply_patch_move doc p ftoks toks : dwf doc -> op_wf p -> op_of p = Some (Move ftoks toks) ->
  conforms doc (Move ftoks toks) (apply_patch doc p true) p.
Proof.
  intros Hd Hw Ho. destruct (op_of_inv _ _ Ho) as (opname & toks' & Eop & Ept & (Eo & Et & Ef)). subst toks'.
  destruct (path_lookup _ _ Hw Ept) as (j & pathn & pstr & Gp & Sp & Vp & Np & Pp).
  destruct (from_lookup _ _ Hw Ef) as (jf & fromn & fstr & Gf & Sf & Vf & Nf & Pf).
  unfold conforms, apply_patch. rewrite Gp, Sp. cbn [negb]. rewrite (decode_op _ _ Hw Eop), Eo. cbn [bind]. rewrite Vp.
  rewrite !andb_false_r. cbn [orb bind]. rewrite Gf, Sf. cbn [negb]. rewrite Vf.
  rewrite (own_child_check fstr pstr ftoks toks Pf Pp). cbn [eval1].
  destruct (proper_prefix ftoks toks); [do 2 eexists; split; [reflexivity | discriminate]|].
  pose proof (detach_conform doc fstr ftoks Hd Nf Pf) as D.
  destruct (Rfc6902.remove doc ftoks) as [d1|] eqn:R.
  2:{ rewrite D. cbn [bind]. do 2 eexists. split; [reflexivity|]. destruct (get doc ftoks); discriminate. }
  destruct D as (it & Ed & Eg). rewrite Ed, Eg. cbn [bind].
  destruct (get_dwf_depth _ _ _ Hd Eg) as [Hit _].
  pose proof (remove_dwf _ _ _ Hd R) as Hd1.
  destruct pstr as [|c0 p0].
  - assert (toks = []) by (apply (parse_nil_iff [] toks Pp); reflexivity). subst toks.
    cbn [finish_add bind]. do 2 eexists. split; [reflexivity|]. cbn. split; [reflexivity|].
    apply doc_eq_unnamed. apply doc_eq_refl. exact Hit.
  - destruct (finish_add_conform d1 it it (c0 :: p0) toks Hd1 Np ltac:(discriminate) Pp (doc_eq_refl _ Hit)) as (st & doc' & Efa & Hr).
    rewrite Efa. cbn [bind]. exists st, doc'. split; [reflexivity|].
    destruct (Rfc6902.add d1 toks it); [exact Hr | apply Hr].
Qed.

(** ---------- all six operations ---------- *)
Definition op_values_ok (o : op) : Prop :=
  match o with
  | Add _ v | Replace _ v => dwf v /\ shallow v
  | Test _ v => dwf v
  | _ => True
  end.

Theorem apply_patch_conform doc p o : dwf doc -> shallow doc -> op_wf p -> op_of p = Some o -> op_values_ok o -> o <> Remove [] ->
  exists st doc' p', apply_patch doc p true = Ok (st, doc', p') /\
    match eval1 doc o with
    | Some d' => st = 0 /\ doc_eq doc' d'
    | None => st <> 0
    end.
Proof.
  intros Hd Hs Hw Ho Hv Hne.
  assert (G : forall r, conforms doc o r p -> exists st doc' p', r = Ok (st, doc', p') /\
            match eval1 doc o with Some d' => st = 0 /\ doc_eq doc' d' | None => st <> 0 end).
  { intros r (st & doc' & E & H). exists st, doc', p. split; assumption. }
  destruct o as [q v|q|q v|f q|f q|q v]; cbn [op_values_ok] in Hv.
  - apply G. apply apply_patch_add; tauto.
  - apply G. apply apply_patch_remove; try assumption. intro E. apply Hne. subst. reflexivity.
  - apply G. apply apply_patch_replace; tauto.
  - apply G. apply apply_patch_move; assumption.
  - apply G. apply apply_patch_copy; assumption.
  - destruct (PatchTest.apply_patch_test doc p q v Hd Hw Ho Hv) as (st & doc' & p' & E & H).
    exists st, doc', p'. split; [exact E|]. destruct (eval1 doc (Test q v)); [exact H | apply H].
Qed.
