(** LibcG17Text.v — the reference strtod ([LibcNum.strtod_ref]) reads the text layout of
    sprintf "%1.17g" ([LibcG17Defs.g_text] preceded by [g_sign]) completely, and hands
    [dec_to_dbl_exact] the sign, the 17-digit decimal significand [D] with its trailing zeros
    removed, and the matching decimal exponent.  Pure Z / list reasoning. *)
From CJ Require Import Base Dbl Tree LibcNum LibcPrint Grammar ParseDefs ParseComplete PrintDefs
  PrintStrict PrintStrictRef RoundTripNum RoundTripInt RoundTripRef LibcG17Defs.
Local Open Scope Z_scope.

(** * lists *)
Lemma firstn_app_len {A} (l1 l2 : list A) : forall n, length l1 = n -> firstn n (l1 ++ l2) = l1.
Proof.
  induction l1 as [|x l1 IH]; intros n Hn.
  - cbn [length] in Hn. subst n. reflexivity.
  - cbn [length] in Hn. subst n. cbn [app firstn]. f_equal. apply IH. reflexivity.
Qed.

Lemma skipn_app_len {A} (l1 l2 : list A) : forall n, length l1 = n -> skipn n (l1 ++ l2) = l2.
Proof.
  induction l1 as [|x l1 IH]; intros n Hn.
  - cbn [length] in Hn. subst n. reflexivity.
  - cbn [length] in Hn. subst n. cbn [app skipn]. apply IH. reflexivity.
Qed.

(** * [dec_fixed]: splitting, low digits only, zero padding *)
Lemma dec_fixed_snoc k z : dec_fixed (S k) z = dec_fixed k (z / 10) ++ [48 + z mod 10].
Proof. reflexivity. Qed.

Lemma pow10_pos (k : nat) : 0 < 10 ^ Z.of_nat k.
Proof. apply Z.pow_pos_nonneg; lia. Qed.

Lemma dec_fixed_split a : forall b z,
  dec_fixed (a + b) z = dec_fixed a (z / 10 ^ Z.of_nat b) ++ dec_fixed b z.
Proof.
  induction b as [|b IH]; intro z.
  - rewrite Nat.add_0_r. change (10 ^ Z.of_nat 0) with 1. rewrite Z.div_1_r.
    cbn [dec_fixed]. rewrite app_nil_r. reflexivity.
  - replace (a + S b)%nat with (S (a + b)) by lia. rewrite !dec_fixed_snoc. rewrite IH.
    pose proof (pow10_pos b) as Hp.
    rewrite Nat2Z.inj_succ, Z.pow_succ_r by lia. rewrite Z.div_div by lia.
    rewrite app_assoc. reflexivity.
Qed.

Lemma firstn_dec_fixed a b z : firstn a (dec_fixed (a + b) z) = dec_fixed a (z / 10 ^ Z.of_nat b).
Proof. rewrite dec_fixed_split. apply firstn_app_len. apply dec_fixed_length. Qed.

Lemma skipn_dec_fixed a b z : skipn a (dec_fixed (a + b) z) = dec_fixed b z.
Proof. rewrite dec_fixed_split. apply skipn_app_len. apply dec_fixed_length. Qed.

Lemma dec_fixed_mod k : forall z, dec_fixed k (z mod 10 ^ Z.of_nat k) = dec_fixed k z.
Proof.
  induction k as [|k IH]; intro z; [reflexivity|].
  rewrite !dec_fixed_snoc.
  pose proof (pow10_pos k) as Hp.
  rewrite Nat2Z.inj_succ, Z.pow_succ_r by lia.
  rewrite (Z.rem_mul_r z 10 (10 ^ Z.of_nat k)) by lia.
  pose proof (Z.mod_pos_bound z 10 ltac:(lia)) as Hr.
  set (r := z mod 10) in *. set (q := (z / 10) mod 10 ^ Z.of_nat k).
  assert (E1 : (r + 10 * q) / 10 = q).
  { rewrite Z.add_comm, (Z.mul_comm 10 q), Z.div_add_l by lia. rewrite Z.div_small by lia. lia. }
  assert (E2 : (r + 10 * q) mod 10 = r).
  { rewrite (Z.mul_comm 10 q), Z.mod_add by lia. apply Z.mod_small. lia. }
  rewrite E1, E2. subst q. rewrite IH. reflexivity.
Qed.

Lemma dec_fixed_zero n : dec_fixed n 0 = repeat 48 n.
Proof.
  induction n as [|n IH]; [reflexivity|].
  rewrite dec_fixed_head by lia. cbn [repeat]. rewrite IH.
  rewrite Z.div_0_l by (pose proof (pow10_pos n); lia). reflexivity.
Qed.

Lemma dec_fixed_pad n k z : 0 <= z < 10 ^ Z.of_nat k ->
  dec_fixed (n + k) z = repeat 48 n ++ dec_fixed k z.
Proof.
  intro Hz. rewrite dec_fixed_split. rewrite Z.div_small by lia. rewrite dec_fixed_zero. reflexivity.
Qed.

Lemma dec_fixed_first a z : (1 <= a)%nat -> 0 <= z ->
  exists c r, dec_fixed a z = c :: r /\ 48 <= c <= 57.
Proof.
  intros Ha Hz. destruct a as [|a]; [lia|]. rewrite dec_fixed_head by exact Hz.
  eexists. eexists. split; [reflexivity|].
  pose proof (Z.mod_pos_bound (z / 10 ^ Z.of_nat a) 10 ltac:(lia)). lia.
Qed.

(** * [strip0] *)
Lemma strip0_snoc_0 l : strip0 (l ++ [48]) = strip0 l.
Proof.
  induction l as [|x l IH]; [reflexivity|]. cbn [app strip0]. rewrite IH. reflexivity.
Qed.

Lemma strip0_snoc_nz l c : c <> 48 -> strip0 (l ++ [c]) = l ++ [c].
Proof.
  intro Hc. induction l as [|x l IH].
  - cbn [app strip0]. destruct (Z.eqb_spec c 48); [contradiction|reflexivity].
  - cbn [app strip0]. rewrite IH. destruct (l ++ [c]) eqn:E; [|reflexivity].
    destruct l; discriminate.
Qed.

(** stripping the trailing zeros of [k] digits of [z]: [t] digits go, [z] is divisible by 10^t *)
Lemma strip0_dec_fixed k : forall z, exists t : nat, (t <= k)%nat /\
  strip0 (dec_fixed k z) = dec_fixed (k - t) (z / 10 ^ Z.of_nat t) /\
  z = z / 10 ^ Z.of_nat t * 10 ^ Z.of_nat t.
Proof.
  induction k as [|k IH]; intro z.
  - exists 0%nat. split; [lia|]. split; [reflexivity|].
    change (10 ^ Z.of_nat 0) with 1. rewrite Z.div_1_r. lia.
  - rewrite dec_fixed_snoc.
    pose proof (Z.mod_pos_bound z 10 ltac:(lia)) as Hr.
    pose proof (Z.div_mod z 10 ltac:(lia)) as Hdm.
    destruct (Z.eq_dec (z mod 10) 0) as [E0|Hnz].
    + rewrite E0. change (48 + 0) with 48. rewrite strip0_snoc_0.
      destruct (IH (z / 10)) as [t [Ht [Es Hz]]].
      exists (S t). split; [lia|].
      pose proof (pow10_pos t) as Hp.
      rewrite Nat2Z.inj_succ, Z.pow_succ_r by lia.
      rewrite <- Z.div_div by lia.
      split.
      * replace (S k - S t)%nat with (k - t)%nat by lia. exact Es.
      * set (q := z / 10 / 10 ^ Z.of_nat t) in *. lia.
    + exists 0%nat. split; [lia|].
      change (10 ^ Z.of_nat 0) with 1. rewrite Z.div_1_r.
      split; [|lia].
      rewrite strip0_snoc_nz by lia. rewrite Nat.sub_0_r. rewrite dec_fixed_snoc. reflexivity.
Qed.

(** * reading the mantissa text *)
Definition exp_ok (E : bytes) : Prop := E = [] \/ exists r, E = 101 :: r.

Lemma exp_ok_nondigit E : exp_ok E -> nondigit_start E.
Proof. intros [-> | [r ->]]; [exact I|reflexivity]. Qed.

Lemma frac_part_exp_ok ip nint E : exp_ok E -> frac_part ip nint E = (ip, 0%nat, E, 0%nat).
Proof. intros [-> | [r ->]]; reflexivity. Qed.

(** what follows the integer digits: nothing but [E], or the point, the fraction digits and [E] *)
Definition mtail (fp E : bytes) : bytes := match fp with [] => E | _ => 46 :: fp ++ E end.

Definition ndot_of (b : nat) : nat := match b with O => 0%nat | S _ => 1%nat end.

Lemma with_point_app ip fp E : with_point ip fp ++ E = ip ++ mtail fp E.
Proof.
  destruct fp as [|c r]; cbn [with_point mtail]; [reflexivity|].
  rewrite <- app_assoc. reflexivity.
Qed.

Lemma frac_part_mtail I a b M E :
  (1 <= a)%nat -> 0 <= M < 10 ^ Z.of_nat b -> exp_ok E ->
  frac_part I a (mtail (dec_fixed b M) E) = (I * 10 ^ Z.of_nat b + M, b, E, ndot_of b) /\
  length (mtail (dec_fixed b M) E) = (ndot_of b + b + length E)%nat /\
  nondigit_start (mtail (dec_fixed b M) E).
Proof.
  intros Ha HM HE. destruct b as [|b].
  - cbn [dec_fixed mtail ndot_of]. rewrite frac_part_exp_ok by exact HE.
    change (10 ^ Z.of_nat 0) with 1 in *.
    replace (I * 1 + M) with I by lia.
    split; [reflexivity|]. split; [reflexivity|]. apply exp_ok_nondigit. exact HE.
  - destruct (dec_fixed (S b) M) as [|c r] eqn:Efp.
    { apply (f_equal (@length Z)) in Efp. rewrite dec_fixed_length in Efp. discriminate. }
    cbn [mtail ndot_of]. rewrite <- Efp.
    split; [|split; [|reflexivity]].
    + unfold frac_part.
      rewrite (take_digits_dec_fixed_app (S b) E (exp_ok_nondigit E HE) M I 0%nat (proj1 HM)).
      rewrite Z.mod_small by exact HM.
      destruct a as [|a]; [lia|]. reflexivity.
    + cbn [length]. rewrite app_length, dec_fixed_length. lia.
Qed.

(** the generic statement: sign, [a] integer digits, [b] fraction digits (no point when b = 0),
    then [E] (nothing, or an exponent part that [ParseComplete.exp_part] reads as [e]) *)
Lemma strtod_mant s a I b M E e :
  (1 <= a)%nat -> 0 <= I < 10 ^ Z.of_nat a -> 0 <= M < 10 ^ Z.of_nat b -> exp_ok E ->
  ParseComplete.exp_part E = (e, length E) ->
  strtod_ref (g_sign s ++ with_point (dec_fixed a I) (dec_fixed b M) ++ E) =
  Some (dec_to_dbl_exact s (I * 10 ^ Z.of_nat b + M) (e - Z.of_nat b),
        length (g_sign s ++ with_point (dec_fixed a I) (dec_fixed b M) ++ E)).
Proof.
  intros Ha HI HM HE He.
  rewrite with_point_app.
  destruct (frac_part_mtail I a b M E Ha HM HE) as [Hf [Hl Hnd]].
  set (mt := mtail (dec_fixed b M) E) in *.
  assert (Htd : take_digits (dec_fixed a I ++ mt) 0 0 = (I, a, mt)).
  { rewrite (take_digits_dec_fixed_app a mt Hnd I 0 0%nat (proj1 HI)).
    rewrite Z.mod_small by exact HI. reflexivity. }
  assert (Hs : sign_split (g_sign s ++ dec_fixed a I ++ mt) =
               (s, dec_fixed a I ++ mt, length (g_sign s))).
  { destruct s; cbn [g_sign app length]; [reflexivity|].
    destruct (dec_fixed_first a I Ha (proj1 HI)) as [c [r [Ec Hc]]].
    rewrite Ec. cbn [app]. apply sign_split_other; lia. }
  rewrite strtod_ref_eq. rewrite Hs. cbv beta iota. rewrite Htd. cbv beta iota.
  rewrite Hf. cbv beta iota. rewrite He. cbv beta iota.
  destruct a as [|a']; [lia|]. cbn [Nat.add Nat.eqb].
  f_equal. f_equal.
  rewrite !app_length, dec_fixed_length, Hl. lia.
Qed.

(** the same with the trailing zeros of the fraction removed *)
Lemma strtod_mant_strip s a I b F E e :
  (1 <= a)%nat -> 0 <= I < 10 ^ Z.of_nat a -> 0 <= F < 10 ^ Z.of_nat b -> exp_ok E ->
  ParseComplete.exp_part E = (e, length E) ->
  exists t : nat, (t <= b)%nat /\
    (I * 10 ^ Z.of_nat (b - t) + F / 10 ^ Z.of_nat t) * 10 ^ Z.of_nat t = I * 10 ^ Z.of_nat b + F /\
    strtod_ref (g_sign s ++ with_point (dec_fixed a I) (strip0 (dec_fixed b F)) ++ E) =
    Some (dec_to_dbl_exact s (I * 10 ^ Z.of_nat (b - t) + F / 10 ^ Z.of_nat t) (e - Z.of_nat (b - t)),
          length (g_sign s ++ with_point (dec_fixed a I) (strip0 (dec_fixed b F)) ++ E)).
Proof.
  intros Ha HI HF HE He.
  destruct (strip0_dec_fixed b F) as [t [Ht [Es Hz]]]. exists t. split; [exact Ht|].
  pose proof (pow10_pos t) as Hpt. pose proof (pow10_pos (b - t)) as Hpbt.
  assert (Hpow : 10 ^ Z.of_nat (b - t) * 10 ^ Z.of_nat t = 10 ^ Z.of_nat b).
  { rewrite <- Z.pow_add_r by lia. f_equal. lia. }
  split.
  { rewrite Z.mul_add_distr_r, <- Z.mul_assoc, Hpow. f_equal. symmetry. exact Hz. }
  rewrite Es. apply strtod_mant; try assumption.
  split; [apply Z.div_pos; lia|].
  apply Z.div_lt_upper_bound; [lia|]. rewrite Z.mul_comm, Hpow. lia.
Qed.

(** * the exponent part written by the printer, read by the parser *)
Lemma take_digits_dec_nat_n z n : 0 <= z < 10 ^ 10 ->
  take_digits (dec_nat z) 0 n = (z, (n + length (dec_nat z))%nat, []).
Proof.
  intros [Hz Hlt]. unfold dec_nat. rewrite dec_fixed_length.
  rewrite take_digits_dec_fixed by exact Hz.
  set (k := ndigits 2000 z).
  assert (Hsm : z mod 10 ^ Z.of_nat (Z.to_nat k) = z).
  { destruct (Z.eq_dec z 0) as [->|Hnz].
    - apply Z.mod_0_l. pose proof (pow10_pos (Z.to_nat k)). lia.
    - assert (Hf : z < 10 ^ Z.of_nat 2000).
      { eapply Z.lt_le_trans; [exact Hlt|]. apply Z.leb_le. vm_compute. reflexivity. }
      destruct (ndigits_spec 2000 z ltac:(lia) Hf) as [Hk [Hlo Hhi]]. fold k in Hk, Hlo, Hhi.
      rewrite Z2Nat.id by lia. apply Z.mod_small. lia. }
  rewrite Hsm. rewrite Z.mul_0_l, Z.add_0_l. reflexivity.
Qed.

Lemma exp_part_exp_part x : -400 <= x <= 400 ->
  ParseComplete.exp_part (LibcPrint.exp_part x) = (x, length (LibcPrint.exp_part x)).
Proof.
  intro Hx. unfold LibcPrint.exp_part.
  set (a := Z.abs x).
  assert (Ha : 0 <= a < 10 ^ 10) by (change (10 ^ 10) with 10000000000; lia).
  set (digs := if a <? 10 then 48 :: dec_nat a else dec_nat a).
  assert (Hd : take_digits digs 0 0 = (a, length digs, [])).
  { subst digs. destruct (a <? 10).
    - cbn [take_digits]. change (is_digit 48) with true. cbv iota.
      change (10 * 0 + (48 - 48)) with 0.
      rewrite take_digits_dec_nat_n by exact Ha. reflexivity.
    - rewrite take_digits_dec_nat_n by exact Ha. reflexivity. }
  assert (Hlen : (1 <= length digs)%nat).
  { subst digs. destruct (a <? 10); [cbn [length]; lia|].
    destruct (dec_nat_head a (proj1 Ha) (proj2 Ha)) as [d [ds [E _]]]. rewrite E. cbn [length]. lia. }
  assert (Hmin : Z.min a 100000 = a) by lia.
  unfold ParseComplete.exp_part. change ((101 =? 101) || (101 =? 69)) with true. cbv iota.
  destruct (Z.ltb_spec x 0) as [Hneg|Hpos].
  - cbn [sign_split]. rewrite Hd. cbv beta iota.
    destruct (length digs) as [|k] eqn:Ek; [lia|]. cbn [Nat.eqb].
    rewrite Hmin. cbn [length]. rewrite Ek. f_equal. lia.
  - cbn [sign_split]. rewrite Hd. cbv beta iota.
    destruct (length digs) as [|k] eqn:Ek; [lia|]. cbn [Nat.eqb].
    rewrite Hmin. cbn [length]. rewrite Ek. f_equal. lia.
Qed.

Lemma exp_part_ok x : exp_ok (LibcPrint.exp_part x).
Proof. right. unfold LibcPrint.exp_part. eexists. reflexivity. Qed.

Lemma exp_part_nil : ParseComplete.exp_part [] = (0, length (@nil Z)).
Proof. reflexivity. Qed.

(** * the three layouts of [g_text 17] as mantissa texts *)
Lemma g_text_f_pos D X' : 0 <= D -> 0 <= X' <= 16 ->
  g_text 17 D X' =
  with_point (dec_fixed (Z.to_nat (X' + 1)) (D / 10 ^ Z.of_nat (Z.to_nat (16 - X'))))
             (strip0 (dec_fixed (Z.to_nat (16 - X')) (D mod 10 ^ Z.of_nat (Z.to_nat (16 - X'))))).
Proof.
  intros HD HX. unfold g_text. cbv zeta. change (Z.to_nat 17) with 17%nat.
  destruct (Z.leb_spec (-4) X') as [_|]; [|lia].
  destruct (Z.ltb_spec X' 17) as [_|]; [|lia].
  destruct (Z.leb_spec 0 X') as [_|]; [|lia].
  cbn [andb].
  set (a := Z.to_nat (X' + 1)). set (b := Z.to_nat (16 - X')).
  replace 17%nat with (a + b)%nat by lia.
  rewrite firstn_dec_fixed, skipn_dec_fixed, dec_fixed_mod. reflexivity.
Qed.

Lemma g_text_f_neg D X' : 0 <= D < 10 ^ 17 -> -4 <= X' < 0 ->
  g_text 17 D X' =
  with_point (dec_fixed 1 0) (strip0 (dec_fixed (Z.to_nat (- X' - 1) + 17) D)).
Proof.
  intros HD HX. unfold g_text. cbv zeta. change (Z.to_nat 17) with 17%nat.
  destruct (Z.leb_spec (-4) X') as [_|]; [|lia].
  destruct (Z.ltb_spec X' 17) as [_|]; [|lia].
  destruct (Z.leb_spec 0 X') as [|_]; [lia|].
  cbn [andb].
  rewrite dec_fixed_pad by exact HD. reflexivity.
Qed.

Lemma g_text_e D X' : 0 <= D -> X' < -4 \/ 17 <= X' ->
  g_text 17 D X' =
  with_point (dec_fixed 1 (D / 10 ^ Z.of_nat 16)) (strip0 (dec_fixed 16 (D mod 10 ^ Z.of_nat 16)))
    ++ LibcPrint.exp_part X'.
Proof.
  intros HD HX. unfold g_text. cbv zeta. change (Z.to_nat 17) with 17%nat.
  assert (E : (-4 <=? X') && (X' <? 17) = false).
  { destruct (Z.leb_spec (-4) X'); destruct (Z.ltb_spec X' 17); try reflexivity; lia. }
  rewrite E.
  change 17%nat with (1 + 16)%nat.
  rewrite firstn_dec_fixed, skipn_dec_fixed, dec_fixed_mod. reflexivity.
Qed.

Lemma div_mod_recompose D p : 0 < p -> D / p * p + D mod p = D.
Proof. intro Hp. pose proof (Z.div_mod D p ltac:(lia)). lia. Qed.

(** a 17-digit number has at most 16 trailing zeros *)
Lemma strip_le_16 D M (t : nat) : 10 ^ 16 <= D < 10 ^ 17 -> M * 10 ^ Z.of_nat t = D -> (t <= 16)%nat.
Proof.
  intros HD HM.
  destruct (le_lt_dec t 16) as [|Hgt]; [assumption|exfalso].
  assert (E : 10 ^ Z.of_nat t = 10 ^ Z.of_nat (t - 17) * 10 ^ 17).
  { rewrite <- Z.pow_add_r by lia. f_equal. lia. }
  pose proof (pow10_pos (t - 17)) as Hp.
  rewrite E in HM. rewrite Z.mul_assoc in HM.
  set (K := M * 10 ^ Z.of_nat (t - 17)) in *.
  change (10 ^ 16) with 10000000000000000 in HD.
  change (10 ^ 17) with 100000000000000000 in HD, HM. lia.
Qed.

(** * the theorem *)
Theorem g17_text_strtod s D X' :
  10 ^ 16 <= D < 10 ^ 17 -> -400 <= X' <= 400 ->
  exists M j, 0 <= j <= 16 /\ M * 10 ^ j = D /\
    strtod_ref (g_sign s ++ g_text 17 D X') =
      Some (dec_to_dbl_exact s M (X' - 16 + j), length (g_sign s ++ g_text 17 D X')).
Proof.
  intros HD HX.
  assert (H16 : 10 ^ 16 = 10000000000000000) by reflexivity.
  assert (H17 : 10 ^ 17 = 100000000000000000) by reflexivity.
  assert (HD0 : 0 <= D) by lia.
  destruct (Z_lt_le_dec X' (-4)) as [Hlo|Hlo]; [|destruct (Z_lt_le_dec X' 0) as [Hneg|Hpos];
    [|destruct (Z_le_gt_dec X' 16) as [Hhi|Hhi]]].
  - (* %e, negative exponent *)
    rewrite (g_text_e D X' HD0 (or_introl Hlo)).
    assert (HI : 0 <= D / 10 ^ Z.of_nat 16 < 10 ^ Z.of_nat 1).
    { change (10 ^ Z.of_nat 16) with 10000000000000000. change (10 ^ Z.of_nat 1) with 10.
      split; [apply Z.div_pos; lia|apply Z.div_lt_upper_bound; lia]. }
    assert (HF : 0 <= D mod 10 ^ Z.of_nat 16 < 10 ^ Z.of_nat 16) by (apply Z.mod_pos_bound, pow10_pos).
    destruct (strtod_mant_strip s 1 _ 16 _ _ X' (le_n 1) HI HF (exp_part_ok X') (exp_part_exp_part X' HX))
      as [t [Ht [HM Hs]]].
    rewrite div_mod_recompose in HM by apply pow10_pos.
    eexists. exists (Z.of_nat t). split; [lia|]. split; [exact HM|].
    rewrite Hs. f_equal. f_equal. f_equal. lia.
  - (* %f, negative exponent *)
    rewrite (g_text_f_neg D X' ltac:(lia) ltac:(lia)).
    set (n := Z.to_nat (- X' - 1)).
    assert (HI : 0 <= 0 < 10 ^ Z.of_nat 1) by (change (10 ^ Z.of_nat 1) with 10; lia).
    assert (HF : 0 <= D < 10 ^ Z.of_nat (n + 17)).
    { split; [exact HD0|]. eapply Z.lt_le_trans; [exact (proj2 HD)|].
      apply Z.pow_le_mono_r; lia. }
    destruct (strtod_mant_strip s 1 0 (n + 17) D [] 0 (le_n 1) HI HF (or_introl eq_refl) exp_part_nil)
      as [t [Ht [HM Hs]]].
    rewrite app_nil_r in Hs.
    rewrite Z.mul_0_l, Z.add_0_l in HM.
    pose proof (strip_le_16 D _ t HD HM) as Ht16.
    eexists. exists (Z.of_nat t). split; [lia|]. split; [exact HM|].
    rewrite Hs. f_equal. f_equal. f_equal. lia.
  - (* %f, non-negative exponent *)
    rewrite (g_text_f_pos D X' HD0 ltac:(lia)).
    set (a := Z.to_nat (X' + 1)). set (b := Z.to_nat (16 - X')).
    pose proof (pow10_pos b) as Hpb.
    assert (HI : 0 <= D / 10 ^ Z.of_nat b < 10 ^ Z.of_nat a).
    { split; [apply Z.div_pos; lia|]. apply Z.div_lt_upper_bound; [lia|].
      rewrite <- Z.pow_add_r by lia. replace (Z.of_nat b + Z.of_nat a) with 17 by lia. lia. }
    assert (HF : 0 <= D mod 10 ^ Z.of_nat b < 10 ^ Z.of_nat b) by (apply Z.mod_pos_bound; exact Hpb).
    destruct (strtod_mant_strip s a _ b _ [] 0 ltac:(lia) HI HF (or_introl eq_refl) exp_part_nil)
      as [t [Ht [HM Hs]]].
    rewrite app_nil_r in Hs.
    rewrite div_mod_recompose in HM by exact Hpb.
    eexists. exists (Z.of_nat t). split; [lia|]. split; [exact HM|].
    rewrite Hs. f_equal. f_equal. f_equal. lia.
  - (* %e, large exponent *)
    rewrite (g_text_e D X' HD0 ltac:(lia)).
    assert (HI : 0 <= D / 10 ^ Z.of_nat 16 < 10 ^ Z.of_nat 1).
    { change (10 ^ Z.of_nat 16) with 10000000000000000. change (10 ^ Z.of_nat 1) with 10.
      split; [apply Z.div_pos; lia|apply Z.div_lt_upper_bound; lia]. }
    assert (HF : 0 <= D mod 10 ^ Z.of_nat 16 < 10 ^ Z.of_nat 16) by (apply Z.mod_pos_bound, pow10_pos).
    destruct (strtod_mant_strip s 1 _ 16 _ _ X' (le_n 1) HI HF (exp_part_ok X') (exp_part_exp_part X' HX))
      as [t [Ht [HM Hs]]].
    rewrite div_mod_recompose in HM by apply pow10_pos.
    eexists. exists (Z.of_nat t). split; [lia|]. split; [exact HM|].
    rewrite Hs. f_equal. f_equal. f_equal. lia.
Qed.

Print Assumptions g17_text_strtod.
