(** Properties_C08.v — C08: any single allocation failure makes the call fail cleanly.

    Every statement quantifies over an ARBITRARY failure schedule [oracle : nat -> bool] (request k
    fails iff [oracle k = true]) — strictly more than "exactly one request, the k-th, is refused" —
    and, for the printers, over both allocator configurations ([hr]: hooks.reallocate available or
    not), both formats, every tree whose scalar fields are C values ([fields_ok]), every contents of
    fresh memory ([junk]) and every C library meeting [LibcPrintSpec] (a hypothesis, not an axiom).

    What the statements say, in the property's words:
      * "the call either completes normally or reports failure by its NULL result; it never crashes or
        dereferences the failed allocation": the outcome of the transliterated call is [Ok r] — never
        [OOB] (every buffer access of the model is bounds-checked and a write through a NULL buffer is
        [OOB]), never [OutOfFuel];
      * "nothing allocated during the call remains allocated": [prr_block r = None -> prr_live r = 0],
        [pr_tree r = None -> pr_live r = 0] ([*_live] counts the blocks allocated by the call and not
        released when it returns);
      * on success the ledger holds exactly what the caller receives: the returned text (one block) /
        the blocks of the returned tree.
      * "no pre-existing tree is modified or freed; the library remains usable": for the parser and the
        printers this is STRUCTURAL in the model, as it is in the C code: cJSON_Parse* read only the
        caller's text, the printers only read the tree (a [const cJSON *]); the model functions take
        the text / the tree as an immutable value and do not take the heap of pre-existing trees as
        an argument, so there is nothing they could modify; the only state shared with later calls is
        the allocator, whose ledger is the subject of the statements above.  (global_error is the
        parser's only other global; its value after the call is characterised in C10.)
    The tree-API scenarios (create, add helpers, references, duplicate, replace by key, set
    valuestring, bulk constructors) are at the end of the file. *)
From CJ Require Import Base Dbl Tree LibcNum LibcPrint ParseDefs ParseSafe ParseEntry PrintDefs PrintProofs
  PrintFail PrintFailExt PrintFailParse PrintFailParseExt.
Local Open Scope Z_scope.

(** ------------------------------------------------------------------ printers *)

(* cJSON_Print / cJSON_PrintUnformatted: NULL => nothing left allocated (every failure exit of ensure, of
   print_value and of the final shrink-to-fit releases the print buffer); a block => it is the only block
   left, and it holds exactly the rendered text and its terminator.  Seeded change C08_A (buffer pointer
   cleared before the result of the final realloc is checked) is a counterexample to this statement. *)
Theorem C08_print_clean :
  forall fmt_d fmt_g15 fmt_g17 sscanf_lg, LibcPrintSpec fmt_d fmt_g15 fmt_g17 ->
  forall oracle junk (t : node) (fmt hr : bool),
    fields_ok t = true ->
    exists r, print fmt_d fmt_g15 fmt_g17 sscanf_lg oracle junk t fmt hr = Ok r /\
      (prr_block r = None -> prr_live r = 0) /\
      (forall block, prr_block r = Some block ->
         prr_live r = 1 /\ exists txt, render fmt_d fmt_g15 fmt_g17 sscanf_lg fmt 0 t = Some txt /\ block = txt ++ [0]).
Proof. exact print_ledger. Qed.
Print Assumptions C08_print_clean.

(* the ledger clause alone, for any libc at all and without [fields_ok]: whenever the call returns *)
Theorem C08_print_ledger :
  forall oracle junk fmt_d fmt_g15 fmt_g17 sscanf_lg (t : node) (fmt hr : bool) r,
    print fmt_d fmt_g15 fmt_g17 sscanf_lg oracle junk t fmt hr = Ok r ->
    (prr_block r = None -> prr_live r = 0) /\ (forall b, prr_block r = Some b -> prr_live r = 1).
Proof. exact print_ledger_inv. Qed.
Print Assumptions C08_print_ledger.

(* "completes normally": a call that meets no refused request returns the text *)
Theorem C08_print_completes :
  forall fmt_d fmt_g15 fmt_g17 sscanf_lg, LibcPrintSpec fmt_d fmt_g15 fmt_g17 ->
  forall oracle junk (t : node) (fmt hr : bool) txt,
    fields_ok t = true -> (forall i, oracle i = false) ->
    render fmt_d fmt_g15 fmt_g17 sscanf_lg fmt 0 t = Some txt -> zlen txt + 2 <= c_INT_MAX ->
    exists r, print fmt_d fmt_g15 fmt_g17 sscanf_lg oracle junk t fmt hr = Ok r /\
              prr_block r = Some (txt ++ [0]) /\ prr_live r = 1.
Proof. exact print_completes. Qed.
Print Assumptions C08_print_completes.

(* cJSON_PrintBuffered, every prebuffer >= 0 (a refused first request returns NULL with nothing allocated;
   growth failures inside ensure release the buffer; a failed print_value releases it) *)
Theorem C08_print_buffered_clean :
  forall fmt_d fmt_g15 fmt_g17 sscanf_lg, LibcPrintSpec fmt_d fmt_g15 fmt_g17 ->
  forall oracle junk (t : node) (prebuffer : Z) (fmt hr : bool),
    fields_ok t = true -> 0 <= prebuffer ->
    exists r, cJSON_PrintBuffered fmt_d fmt_g15 fmt_g17 sscanf_lg oracle junk t prebuffer fmt hr = Ok r /\
      (prr_block r = None -> prr_live r = 0) /\
      (forall block, prr_block r = Some block ->
         prr_live r = 1 /\ exists txt rest, render fmt_d fmt_g15 fmt_g17 sscanf_lg fmt 0 t = Some txt /\ block = txt ++ 0 :: rest).
Proof. exact print_buffered_ledger. Qed.
Print Assumptions C08_print_buffered_clean.

Theorem C08_print_buffered_ledger :
  forall oracle junk fmt_d fmt_g15 fmt_g17 sscanf_lg (t : node) (prebuffer : Z) (fmt hr : bool) r,
    cJSON_PrintBuffered fmt_d fmt_g15 fmt_g17 sscanf_lg oracle junk t prebuffer fmt hr = Ok r ->
    (prr_block r = None -> prr_live r = 0) /\ (forall b, prr_block r = Some b -> prr_live r = 1).
Proof. exact print_buffered_ledger_inv. Qed.
Print Assumptions C08_print_buffered_ledger.

Theorem C08_print_buffered_completes :
  forall fmt_d fmt_g15 fmt_g17 sscanf_lg, LibcPrintSpec fmt_d fmt_g15 fmt_g17 ->
  forall oracle junk (t : node) (prebuffer : Z) (fmt hr : bool) txt,
    fields_ok t = true -> 0 <= prebuffer -> (forall i, oracle i = false) ->
    render fmt_d fmt_g15 fmt_g17 sscanf_lg fmt 0 t = Some txt -> zlen txt + 2 <= c_INT_MAX ->
    exists r rest, cJSON_PrintBuffered fmt_d fmt_g15 fmt_g17 sscanf_lg oracle junk t prebuffer fmt hr = Ok r /\
                   prr_block r = Some (txt ++ 0 :: rest) /\ prr_live r = 1.
Proof. exact print_buffered_completes. Qed.
Print Assumptions C08_print_buffered_completes.

(* a negative prebuffer is refused before any request is made *)
Theorem C08_print_buffered_negative :
  forall fmt_d fmt_g15 fmt_g17 sscanf_lg oracle junk (t : node) (prebuffer : Z) (fmt hr : bool),
    prebuffer < 0 ->
    cJSON_PrintBuffered fmt_d fmt_g15 fmt_g17 sscanf_lg oracle junk t prebuffer fmt hr = Ok (mkprr None 0 0).
Proof. exact print_buffered_negative. Qed.
Print Assumptions C08_print_buffered_negative.

(* the schedule is consulted only at the requests the call makes: a schedule that agrees with [o1] below the
   number of requests made under [o1] gives the same result — so "the k-th request fails" with k beyond the
   requests of the failure-free run is the failure-free run *)
Theorem C08_print_schedule_prefix :
  forall o1 o2 junk fmt_d fmt_g15 fmt_g17 sscanf_lg (t : node) (fmt hr : bool) r,
    print fmt_d fmt_g15 fmt_g17 sscanf_lg o1 junk t fmt hr = Ok r ->
    forall N, (forall k, (k < N)%nat -> o2 k = o1 k) -> (prr_requests r <= N)%nat ->
    print fmt_d fmt_g15 fmt_g17 sscanf_lg o2 junk t fmt hr = Ok r.
Proof. exact print_ext. Qed.
Print Assumptions C08_print_schedule_prefix.

Theorem C08_print_buffered_schedule_prefix :
  forall o1 o2 junk fmt_d fmt_g15 fmt_g17 sscanf_lg (t : node) (prebuffer : Z) (fmt hr : bool) r,
    cJSON_PrintBuffered fmt_d fmt_g15 fmt_g17 sscanf_lg o1 junk t prebuffer fmt hr = Ok r ->
    forall N, (forall k, (k < N)%nat -> o2 k = o1 k) -> (prr_requests r <= N)%nat ->
    cJSON_PrintBuffered fmt_d fmt_g15 fmt_g17 sscanf_lg o2 junk t prebuffer fmt hr = Ok r.
Proof. exact print_buffered_ext. Qed.
Print Assumptions C08_print_buffered_schedule_prefix.

(* "either completes normally or reports failure", exactly: when none of the requests the call made was refused
   it returns the text ... *)
Theorem C08_print_unrefused_completes :
  forall fmt_d fmt_g15 fmt_g17 sscanf_lg, LibcPrintSpec fmt_d fmt_g15 fmt_g17 ->
  forall oracle junk (t : node) (fmt hr : bool) r txt,
    fields_ok t = true -> print fmt_d fmt_g15 fmt_g17 sscanf_lg oracle junk t fmt hr = Ok r ->
    (forall k, (k < prr_requests r)%nat -> oracle k = false) ->
    render fmt_d fmt_g15 fmt_g17 sscanf_lg fmt 0 t = Some txt -> zlen txt + 2 <= c_INT_MAX ->
    prr_block r = Some (txt ++ [0]) /\ prr_live r = 1.
Proof. exact print_unrefused_completes. Qed.
Print Assumptions C08_print_unrefused_completes.

(* ... and NULL on a printable tree means one of the requests the call made was refused *)
Theorem C08_print_failure_has_cause :
  forall fmt_d fmt_g15 fmt_g17 sscanf_lg, LibcPrintSpec fmt_d fmt_g15 fmt_g17 ->
  forall oracle junk (t : node) (fmt hr : bool) r txt,
    fields_ok t = true -> print fmt_d fmt_g15 fmt_g17 sscanf_lg oracle junk t fmt hr = Ok r ->
    render fmt_d fmt_g15 fmt_g17 sscanf_lg fmt 0 t = Some txt -> zlen txt + 2 <= c_INT_MAX ->
    prr_block r = None -> exists k, (k < prr_requests r)%nat /\ oracle k = true.
Proof. exact print_failure_has_cause. Qed.
Print Assumptions C08_print_failure_has_cause.

Theorem C08_print_buffered_unrefused_completes :
  forall fmt_d fmt_g15 fmt_g17 sscanf_lg, LibcPrintSpec fmt_d fmt_g15 fmt_g17 ->
  forall oracle junk (t : node) (prebuffer : Z) (fmt hr : bool) r txt,
    fields_ok t = true -> 0 <= prebuffer ->
    cJSON_PrintBuffered fmt_d fmt_g15 fmt_g17 sscanf_lg oracle junk t prebuffer fmt hr = Ok r ->
    (forall k, (k < prr_requests r)%nat -> oracle k = false) ->
    render fmt_d fmt_g15 fmt_g17 sscanf_lg fmt 0 t = Some txt -> zlen txt + 2 <= c_INT_MAX ->
    (exists rest, prr_block r = Some (txt ++ 0 :: rest)) /\ prr_live r = 1.
Proof. exact print_buffered_unrefused_completes. Qed.
Print Assumptions C08_print_buffered_unrefused_completes.

Theorem C08_print_buffered_failure_has_cause :
  forall fmt_d fmt_g15 fmt_g17 sscanf_lg, LibcPrintSpec fmt_d fmt_g15 fmt_g17 ->
  forall oracle junk (t : node) (prebuffer : Z) (fmt hr : bool) r txt,
    fields_ok t = true -> 0 <= prebuffer ->
    cJSON_PrintBuffered fmt_d fmt_g15 fmt_g17 sscanf_lg oracle junk t prebuffer fmt hr = Ok r ->
    render fmt_d fmt_g15 fmt_g17 sscanf_lg fmt 0 t = Some txt -> zlen txt + 2 <= c_INT_MAX ->
    prr_block r = None -> exists k, (k < prr_requests r)%nat /\ oracle k = true.
Proof. exact print_buffered_failure_has_cause. Qed.
Print Assumptions C08_print_buffered_failure_has_cause.

(* cJSON_PrintPreallocated never calls the allocator, so no request of it can be refused (= C09_caller_block) *)
Theorem C08_print_preallocated_no_request :
  forall fmt_d fmt_g15 fmt_g17 sscanf_lg, LibcPrintSpec fmt_d fmt_g15 fmt_g17 ->
  forall oracle junk (t : node) (buf : bytes) (fmt hr : bool) r,
    fields_ok t = true ->
    cJSON_PrintPreallocated fmt_d fmt_g15 fmt_g17 sscanf_lg oracle junk t (Some buf) (zlen buf) fmt hr = Ok r ->
    par_live r = 0 /\ par_requests r = 0%nat /\ exists b', par_buffer r = Some b' /\ zlen b' = zlen buf.
Proof. exact C09_caller_block_proof. Qed.
Print Assumptions C08_print_preallocated_no_request.

(* the invariant behind the printer statements, for every tree and every step outcome: the print buffer is
   the only block the call owns (live = 1 with a buffer, 0 once a failed growth has released it) *)
Theorem C08_print_value_owns :
  forall oracle junk fmt_d fmt_g15 fmt_g17 sscanf_lg (n : node) p ok p',
    print_value fmt_d fmt_g15 fmt_g17 sscanf_lg oracle junk n p = Ok (ok, p') ->
    pb_live p = (match pb_buf p with Some _ => 1 | None => 0 end) ->
    pb_live p' = (match pb_buf p' with Some _ => 1 | None => 0 end).
Proof. exact print_value_owns. Qed.
Print Assumptions C08_print_value_owns.

(** ------------------------------------------------------------------ parser *)

(* cJSON_ParseWithLength / cJSON_ParseWithLengthOpts on any bytes, any length within the buffer *)
Theorem C08_parse_length_safe :
  forall strtod oracle content len rnt,
    strtod_ok strtod -> (len <= length content)%nat ->
    exists r, cJSON_ParseWithLengthOpts strtod oracle content len rnt = Ok r
           /\ (pr_tree r = None -> pr_live r = 0)
           /\ (forall t, pr_tree r = Some t -> pr_live r = blocks t).
Proof. exact parse_length_safe. Qed.
Print Assumptions C08_parse_length_safe.

(* cJSON_Parse / cJSON_ParseWithOpts on any terminated C string *)
Theorem C08_parse_string_safe :
  forall strtod oracle s rest rnt,
    strtod_ok strtod -> Forall (fun c => c <> 0) s ->
    exists r, cJSON_ParseWithOpts strtod oracle (s ++ 0 :: rest) rnt = Ok r
           /\ cJSON_ParseWithOpts strtod oracle (s ++ 0 :: rest) rnt
              = cJSON_ParseWithLengthOpts strtod oracle (s ++ 0 :: rest) (length s + 1) rnt
           /\ (pr_tree r = None -> pr_live r = 0)
           /\ (forall t, pr_tree r = Some t -> pr_live r = blocks t).
Proof. exact parse_string_safe. Qed.
Print Assumptions C08_parse_string_safe.

(* in the property's own words: NULL => nothing allocated during the call remains allocated *)
Theorem C08_parse_length_clean :
  forall strtod oracle content len rnt,
    strtod_ok strtod -> (len <= length content)%nat ->
    exists r, cJSON_ParseWithLengthOpts strtod oracle content len rnt = Ok r /\
              (pr_tree r = None -> pr_live r = 0).
Proof. exact parse_length_clean. Qed.
Print Assumptions C08_parse_length_clean.

Theorem C08_parse_string_clean :
  forall strtod oracle s rest rnt,
    strtod_ok strtod -> Forall (fun c => c <> 0) s ->
    exists r, cJSON_ParseWithOpts strtod oracle (s ++ 0 :: rest) rnt = Ok r /\
              (pr_tree r = None -> pr_live r = 0).
Proof. exact parse_string_clean. Qed.
Print Assumptions C08_parse_string_clean.

(* the schedule is consulted only at the requests the call makes (cf. C08_print_schedule_prefix) *)
Theorem C08_parse_length_schedule_prefix :
  forall strtod o1 o2 content len rnt r,
    cJSON_ParseWithLengthOpts strtod o1 content len rnt = Ok r ->
    forall N, (forall k, (k < N)%nat -> o2 k = o1 k) -> (pr_requests r <= N)%nat ->
    cJSON_ParseWithLengthOpts strtod o2 content len rnt = Ok r.
Proof. exact parse_length_ext. Qed.
Print Assumptions C08_parse_length_schedule_prefix.

Theorem C08_parse_string_schedule_prefix :
  forall strtod o1 o2 content rnt r,
    cJSON_ParseWithOpts strtod o1 content rnt = Ok r ->
    forall N, (forall k, (k < N)%nat -> o2 k = o1 k) -> (pr_requests r <= N)%nat ->
    cJSON_ParseWithOpts strtod o2 content rnt = Ok r.
Proof. exact parse_string_ext_entry. Qed.
Print Assumptions C08_parse_string_schedule_prefix.

(* "completes normally": when none of the requests the call made was refused, the whole result (tree, end
   position, error position, ledger, requests) is that of the failure-free run, which C02/C03/C10 characterise *)
Theorem C08_parse_length_unrefused :
  forall strtod oracle content len rnt r,
    cJSON_ParseWithLengthOpts strtod oracle content len rnt = Ok r ->
    (forall k, (k < pr_requests r)%nat -> oracle k = false) ->
    cJSON_ParseWithLengthOpts strtod never_fails content len rnt = Ok r.
Proof. exact parse_length_unrefused. Qed.
Print Assumptions C08_parse_length_unrefused.

Theorem C08_parse_string_unrefused :
  forall strtod oracle content rnt r,
    cJSON_ParseWithOpts strtod oracle content rnt = Ok r ->
    (forall k, (k < pr_requests r)%nat -> oracle k = false) ->
    cJSON_ParseWithOpts strtod never_fails content rnt = Ok r.
Proof. exact parse_string_unrefused. Qed.
Print Assumptions C08_parse_string_unrefused.

(* a result that differs from the failure-free run's (e.g. NULL on an acceptable text) has a refused request *)
Theorem C08_parse_length_failure_has_cause :
  forall strtod oracle content len rnt r r0,
    cJSON_ParseWithLengthOpts strtod oracle content len rnt = Ok r ->
    cJSON_ParseWithLengthOpts strtod never_fails content len rnt = Ok r0 ->
    r <> r0 -> exists k, (k < pr_requests r)%nat /\ oracle k = true.
Proof. exact parse_length_failure_has_cause. Qed.
Print Assumptions C08_parse_length_failure_has_cause.

Theorem C08_parse_string_failure_has_cause :
  forall strtod oracle content rnt r r0,
    cJSON_ParseWithOpts strtod oracle content rnt = Ok r ->
    cJSON_ParseWithOpts strtod never_fails content rnt = Ok r0 ->
    r <> r0 -> exists k, (k < pr_requests r)%nat /\ oracle k = true.
Proof. exact parse_string_failure_has_cause. Qed.
Print Assumptions C08_parse_string_failure_has_cause.

(** ------------------------------------------------------------------ non-vacuity *)

(* the libc hypothesis is satisfiable: the guarded reference conversions *)
Theorem C08_libc_satisfiable : LibcPrintSpec guarded_fmt_d guarded_fmt_g15 guarded_fmt_g17.
Proof. exact guarded_libc_spec. Qed.
Print Assumptions C08_libc_satisfiable.

(* ["aaa…a" (300 bytes), 1.5, -7] printed unformatted: 312 bytes of text, so the 256-byte default buffer
   must grow while the string is being printed.  Request 1 = initial buffer, 2 = growth, 3 = final shrink;
   refusing any one of them gives NULL with an empty ledger, in both allocator configurations *)
Theorem C08_print_nonvacuous :
  fields_ok nvf_tree = true /\
  render guarded_fmt_d guarded_fmt_g15 guarded_fmt_g17 sscanf_lg false 0 nvf_tree = Some nvf_text /\
  (forall hr, nvf_print hr 0 = Ok (mkprr (Some (nvf_text ++ [0])) 1 3)) /\
  (forall hr, nvf_print hr 1 = Ok (mkprr None 0 1)) /\
  (forall hr, nvf_print hr 2 = Ok (mkprr None 0 2)) /\
  (forall hr, nvf_print hr 3 = Ok (mkprr None 0 3)) /\
  (forall hr, nvf_print hr 4 = Ok (mkprr (Some (nvf_text ++ [0])) 1 3)).
Proof. exact C08_print_nonvacuous_proof. Qed.
Print Assumptions C08_print_nonvacuous.

(* the same tree through cJSON_PrintBuffered with prebuffer 16 and prebuffer 0 *)
Theorem C08_print_buffered_nonvacuous :
  (forall hr, exists rest, nvf_print_buffered 16 hr 0 = Ok (mkprr (Some (nvf_text ++ 0 :: rest)) 1 2)) /\
  (forall hr, nvf_print_buffered 16 hr 1 = Ok (mkprr None 0 1)) /\
  (forall hr, nvf_print_buffered 16 hr 2 = Ok (mkprr None 0 2)) /\
  (forall hr, nvf_print_buffered 0 hr 2 = Ok (mkprr None 0 2)).
Proof. exact C08_print_buffered_nonvacuous_proof. Qed.
Print Assumptions C08_print_buffered_nonvacuous.

(* [1,"a"] makes four requests; refusing any one yields NULL with an empty ledger; none refused: the tree *)
Theorem C08_parse_nonvacuous :
  strtod_ok strtod_ref /\ Forall (fun c => c <> 0) nvf_json /\
  (forall k, (1 <= k <= 4)%nat -> exists r, nvf_parse k = Ok r /\ pr_tree r = None /\ pr_live r = 0 /\ pr_requests r = k) /\
  (exists r t, nvf_parse 5 = Ok r /\ pr_tree r = Some t /\ pr_live r = 4 /\ blocks t = 4 /\ pr_requests r = 4%nat).
Proof. exact C08_parse_nonvacuous_proof. Qed.
Print Assumptions C08_parse_nonvacuous.

(* sensitivity: [print] with the final shrink as seeded change C08_A writes it (buffer pointer cleared before the
   result of the realloc is checked) returns NULL with the print buffer still allocated when that request is
   refused — C08_print_ledger is false of that code *)
Theorem C08_A_violates_ledger :
  print_C08_A guarded_fmt_d guarded_fmt_g15 guarded_fmt_g17 sscanf_lg (fail_kth 3) (fun _ => 165) nvf_tree false
  = Ok (mkprr None 1 3).
Proof. exact C08_A_violates_ledger_proof. Qed.
Print Assumptions C08_A_violates_ledger.
