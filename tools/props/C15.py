"""C15 — JSON Pointer resolution follows RFC 6901 and inverts pointer construction."""
import random, itertools, sys
sys.setrecursionlimit(20000)
from .common import *

MODEL_FILES = 'PointerDefs.v (compare_pointers, decode_array_index_from_pointer, get_item_from_pointer, encode_string_as_pointer, cJSONUtils_FindPointerFromObjectTo)'
RULE = ('documents over keys {"", "/", "~", "~0", "~1", "a/b", "m~n", "0", "01", "1", "a", "A", "-"} (distinct per object) and nested arrays; '
        'pointer strings: pointers to every node, single-edit corruptions of them, every string up to a length bound over {/ ~ 0 1 2 9 A a -}, '
        'indices around 2^64 and 2^32, 20-25 digit indices; all (root,node) pairs for construction; the verdict is a python RFC 6901 evaluator; '
        'non-trivial = distinct (doc,pointer) with a non-empty pointer')
ASSUMPTIONS = ['C locale', 'hand-written transliteration validated by this differential run', 'documents have distinct keys per object (as the property says)']
PKEYS = ['', '/', '~', '~0', '~1', 'a/b', 'm~n', '0', '01', '1', 'a', 'A', '-', '10', 'a~', '~~', '//', 'a/a', 'a/0', '0/1', '/a', 'a/', 'a/a/0', '~/', '1/0']

def esc(k): return k.replace('~', '~0').replace('/', '~1')

def rfc_resolve(doc, ptr):
    """independent RFC 6901 evaluator on the python value; returns path tuple or None"""
    if ptr == b'': return ()
    if not ptr.startswith(b'/'): return None
    toks = ptr[1:].split(b'/')
    cur = doc; path = ()
    for t in toks:
        # unescape
        out = b''; i = 0
        while i < len(t):
            if t[i:i+1] == b'~':
                if t[i+1:i+2] == b'0': out += b'~'
                elif t[i+1:i+2] == b'1': out += b'/'
                else: return None
                i += 2
            else: out += t[i:i+1]; i += 1
        if isinstance(cur, Obj):
            for j, (k, e) in enumerate(cur):
                if k.encode('utf-8') == out: path += (j,); cur = e; break
            else: return None
        elif isinstance(cur, list):
            if not t or not t.isdigit() or (len(t) > 1 and t[0:1] == b'0') or not all(48 <= c <= 57 for c in t): return None
            idx = int(t)
            if idx >= len(cur): return None
            path += (idx,); cur = cur[idx]
        else: return None
    return path

def construct(doc, path):
    p = ''; cur = doc
    for i in path:
        if isinstance(cur, Obj): p += '/' + esc(cur[i][0]); cur = cur[i][1]
        else: p += '/' + str(i); cur = cur[i]
    return p.encode('utf-8')

def raw_pointer(doc, path):
    """the WRONG pointer a naive user would write: keys concatenated without escaping (aims at token-boundary handling)"""
    p = ''; cur = doc
    for i in path:
        if isinstance(cur, Obj): p += '/' + cur[i][0]; cur = cur[i][1]
        else: p += '/' + str(i); cur = cur[i]
    return p.encode('utf-8')

def flagged_tokens(v, rng, key=None):
    """like value_tokens, with ownership flags at random: constant keys on any node, reference bit on leaves"""
    fl = rng.choice([0, 0, 0, F_CONST]) if key is not None else 0
    if isinstance(v, Obj): return node_tokens(T_OBJECT | fl, key=key, children=[flagged_tokens(e, rng, key=k) for k, e in v])
    if isinstance(v, list): return node_tokens(T_ARRAY | fl, key=key, children=[flagged_tokens(e, rng) for e in v])
    if isinstance(v, str): return node_tokens(T_STRING | fl | rng.choice([0, 0, F_REF]), vs=v, key=key)
    if v is None: return node_tokens(T_NULL | fl, key=key)
    if v is True: return node_tokens(T_TRUE | fl, key=key)
    if v is False: return node_tokens(T_FALSE | fl, key=key)
    return node_tokens(T_NUMBER | fl, vi=sat_int(v), vd=float(v), key=key)

def corpus(ctx): return load_corpus(ctx['verif'], 'C15')

def rand_doc(rng, depth):
    r = rng.random()
    if depth <= 0 or r < 0.3: return rng.choice([None, True, 1, 'x', 2.5])
    if r < 0.6:
        return [rand_doc(rng, depth - 1) for _ in range(rng.choice([0, 1, 2, 3, 5, 12, 30]))]
    ks = rng.sample(PKEYS, rng.choice([0, 1, 2, 3, 4, 6]))
    return Obj([(k, rand_doc(rng, depth - 1)) for k in ks])

def generate(ctx):
    rng = random.Random(ctx['seed'] * 104729 + 15)
    quick = ctx['tier'] == 'quick'
    cases = []
    ndocs = 60 if quick else 800
    docs = [rand_doc(rng, rng.choice([1, 2, 3, 4])) for _ in range(ndocs)]
    # fixed documents aimed at the case splits of the proofs
    docs += [Obj([('', Obj([('x', 1), ('', [1, 2])])), ('a', 1)]), list(range(30)), Obj([(k, i) for i, k in enumerate(PKEYS)]),
             [[[[1]]]], Obj([('a', Obj([('A', 1), ('a', 2)])), ('A', 3)]), Obj(), [], 7]
    alph = [b'/', b'~', b'0', b'1', b'2', b'9', b'A', b'a', b'-']
    special = [b'/18446744073709551616', b'/18446744073709551615', b'/18446744073709551617', b'/18446744073709551619', b'/4294967296', b'/4294967297',
               b'/00', b'/01', b'/1A', b'/1 ', b'/ 1', b'/+1', b'/-', b'/-1', b'/', b'//', b'abc', b'a', b'/1/', b'/99999999999999999999', b'/1844674407370955161',
               b'/184467440737095516150', b'/1844674407370955162', b'/0/0', b'/000000000000000000001', b'/27', b'/1e0', b'/0x1', b'/~', b'/~2', b'/a~', b'/~01', b'/~10']
    # keys that contain '/' with containers beneath whose members are named like the part after the slash
    docs += [Obj([('a/a', Obj([('a', 1), ('0', 2)])), ('a', Obj([('a', 3), ('a/a', 4)]))]), Obj([('a/0', [5, 6]), ('a', [7, 8])]),
             Obj([('0/1', [1, [2, 3]]), ('0', [4, [5, 6]])]), [Obj([('a/a', [1])]), Obj([('a', Obj([('a', [2])]))])],
             Obj([('/', Obj([('', 1)])), ('', Obj([('', 2), ('/', 3)]))]), Obj([('~/', [1]), ('~', Obj([('', [2])]))])]
    for d in docs:
        tt = ' '.join(flagged_tokens(d, rng) if rng.random() < 0.5 else value_tokens(d))
        ptrs = set()
        paths = list(all_paths(d))
        for p in (paths if quick and len(paths) <= 25 else rng.sample(paths, min(len(paths), 25 if quick else 60))):
            good = construct(d, p); ptrs.add(good); ptrs.add(raw_pointer(d, p))
            cases.append(Case('findptr %s %s' % (pstr(p), tt), {'tags': ['construct'], 'doc': d, 'path': p}))
            for _ in range(3):   # single-edit corruptions
                b = bytearray(good)
                k = rng.randrange(3)
                if b and k == 0: del b[rng.randrange(len(b))]
                elif k == 1: b.insert(rng.randrange(len(b) + 1), rng.choice(b'/~01A-'))
                elif b: b[rng.randrange(len(b))] = rng.choice(b'/~019Aa-')
                ptrs.add(bytes(b))
        for s in (special if rng.random() < 0.5 or not quick else rng.sample(special, 8)): ptrs.add(s)
        for _ in range(10 if quick else 40):
            ptrs.add(b''.join(rng.choice(alph) for _ in range(rng.randrange(0, 7))))
        for p in sorted(ptrs):
            if b'\x00' in p: continue
            for cs in ((1,) if rng.random() < 0.8 else (1, 0)):
                cases.append(Case('getptr %d %s %s' % (cs, hx(p), tt), {'tags': ['resolve', 'cs' if cs else 'ci'], 'doc': d, 'ptr': p, 'cs': cs}))
    if ctx.get('seed_index', 0) == 0:
        NL = nesting_limit(ctx['repo'])
        for depth in (NL - 2, NL - 1, NL, NL + 1, NL + 2, NL + 500):
            for kind in ('arr', 'obj'):
                d = 7
                for _ in range(depth): d = [d] if kind == 'arr' else Obj([('a', d)])
                p = tuple([0] * depth)
                tt = ' '.join(value_tokens(d))
                cases.append(Case('findptr %s %s' % (pstr(p), tt), {'tags': ['construct', 'deep'], 'doc': d, 'path': p}))
                cases.append(Case('findptr %s %s' % (pstr(p[:-1]), tt), {'tags': ['construct', 'deep'], 'doc': d, 'path': p[:-1]}))
    # exhaustive pointer strings up to a bound on two fixed documents
    L = 4 if quick else 6
    fixed = [Obj([('', [10, 11, Obj([('~', 1), ('/', 2), ('0', 3)])]), ('0', 0), ('a', [0, 1, 2, 3, 4, 5, 6, 7, 8, 9, 10, 11, 12]), ('A', 1), ('-', 2), ('1', Obj([('1', 1)]))]),
             [0, [1, [2, 3]], Obj([('a', 1)]), 3, 4, 5, 6, 7, 8, 9, 10, 11, 12, 13, 14, 15, 16, 17, 18, 19, 20, 21, 22, 23, 24, 25, 26, 27, 28, 29]]
    for d in (fixed if ctx.get('seed_index', 0) == 0 else []):
        tt = ' '.join(value_tokens(d))
        for n in range(0, L + 1):
            for t in itertools.product(alph, repeat=n):
                p = b''.join(t)
                cases.append(Case('getptr 1 %s %s' % (hx(p), tt), {'tags': ['exhaustive<=%d' % L], 'doc': d, 'ptr': p, 'cs': 1}))
    return cases

def project(c, out): return strip_suffix(out)

def verdict(c, out, ctx):
    if is_crash(out): return 'crash / memory error: ' + out
    ap = alloc_problem(out)
    if ap: return ap
    o = strip_suffix(out).split()
    kind = c.line.split(' ', 1)[0]
    if kind == 'getptr' and 'doc' in c.info and c.info.get('cs') == 1:
        exp = pstr(rfc_resolve(c.info['doc'], c.info['ptr']))
        if o[0] != exp: return 'case-sensitive lookup returned %s, RFC 6901 designates %s' % (o[0], exp)
    if kind == 'findptr' and 'doc' in c.info:
        if o[0] == 'NULL': return 'no pointer constructed for a node inside the tree'
        ptr = unhx(o[0])
        if rfc_resolve(c.info['doc'], ptr) != tuple(c.info['path']): return 'constructed pointer %r does not designate the node (RFC 6901 evaluation)' % ptr
        if len(o) < 2 or o[1] != pstr(c.info['path']): return 'constructed pointer does not resolve back to the same node'
    return None

def nontrivial(c, out):
    return len(c.line) > 40 and not is_crash(out) and (c.info.get('ptr', b'x') != b'')


# ---------------------------------------------------------------------------------------------------------------------------------
# The HEAP-LEVEL transliterations the companion file Properties_C15_Heap.v is about are executed against the library too
# (area uheap, tools/props/uheap.py): same operand trees, results, operand trees afterwards and allocator ledger compared.
from . import uheap as _UH
AREAS = ['base', 'uheap']
MODEL_FILES = MODEL_FILES + '; heap-level: ' + _UH.MODEL_FILES
RULE = RULE + ' || area uheap (heap-level transliterations, kinds %s): ' % '/'.join(_UH.KINDS_OF['C15']) + _UH.RULE
_generate0, _project0, _verdict0, _nontrivial0 = generate, project, verdict, nontrivial
def generate(ctx): return _generate0(ctx) + _UH.generate(ctx, kinds=_UH.KINDS_OF['C15'])
def project(c, out): return _UH.project(c, out) if c.info.get('area') == 'uheap' else _project0(c, out)
def verdict(c, out, ctx): return _UH.verdict(c, out, ctx) if c.info.get('area') == 'uheap' else _verdict0(c, out, ctx)
def nontrivial(c, out): return _UH.nontrivial(c, out) if c.info.get('area') == 'uheap' else _nontrivial0(c, out)
