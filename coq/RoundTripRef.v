(** RoundTripRef.v — property C04: clauses of [LibcRoundTripSpec] PROVED for the executable
    reference implementations (LibcNum.strtod_ref, LibcPrint.fmt_d): clause N2 — the text of
    sprintf "%d" of a C int is converted by strtod, completely, to exactly (double) of that int.
    (Clause S is [RoundTripEvidence.ref_scan], clause V [RoundTripRefValid.ref_valid].  The "%g"
    clauses N3, N4, N5a, N5b are proved for the reference in LibcG17*.v / LibcG15*.v (round 3),
    N4z for every library in RoundTripZero.v; the table of RoundTripEvidence.v evaluates them too.)  Also: reading back the digits [dec_fixed] wrote, used by the
    artificial library of RoundTripModel.v. *)
From CJ Require Import Base Dbl Tree LibcNum LibcPrint Grammar ParseDefs ParseComplete PrintDefs
  PrintStrict PrintStrictRef RoundTripNum RoundTripInt.
Local Open Scope Z_scope.

(** reading the digits [dec_fixed] wrote, up to the first byte that is not a digit *)
Lemma take_digits_dec_fixed_app k rest : nondigit_start rest -> forall z acc n, 0 <= z ->
  take_digits (dec_fixed k z ++ rest) acc n =
  (acc * 10 ^ Z.of_nat k + z mod 10 ^ Z.of_nat k, (n + k)%nat, rest).
Proof.
  intro Hrest. induction k as [|k IH]; intros z acc n Hz.
  - cbn [dec_fixed app]. change (10 ^ Z.of_nat 0) with 1. rewrite Z.mod_1_r.
    rewrite Z.mul_1_r, Z.add_0_r, Nat.add_0_r.
    destruct rest as [|c r]; [reflexivity|]. cbn [take_digits].
    cbn [nondigit_start] in Hrest. change (is_digit c) with (digit c). rewrite Hrest. reflexivity.
  - rewrite dec_fixed_head by exact Hz. cbn [app take_digits].
    set (h := (z / 10 ^ Z.of_nat k) mod 10).
    assert (Hh : 0 <= h < 10) by (apply Z.mod_pos_bound; lia).
    assert (Hdig : is_digit (48 + h) = true).
    { unfold is_digit. destruct (Z.leb_spec 48 (48 + h)); [|lia]. destruct (Z.leb_spec (48 + h) 57); [reflexivity|lia]. }
    rewrite Hdig. rewrite (IH z _ _ Hz).
    assert (Hp : 0 < 10 ^ Z.of_nat k) by (apply Z.pow_pos_nonneg; lia).
    rewrite Nat2Z.inj_succ, Z.pow_succ_r by lia.
    rewrite (Z.mul_comm 10 (10 ^ Z.of_nat k)).
    rewrite (Z.rem_mul_r z (10 ^ Z.of_nat k) 10) by lia. fold h.
    replace (S n + k)%nat with (n + S k)%nat by lia.
    replace ((10 * acc + (48 + h - 48)) * 10 ^ Z.of_nat k + z mod 10 ^ Z.of_nat k)
      with (acc * (10 ^ Z.of_nat k * 10) + (z mod 10 ^ Z.of_nat k + 10 ^ Z.of_nat k * h)) by ring.
    reflexivity.
Qed.

Lemma take_digits_dec_fixed k : forall z acc n, 0 <= z ->
  take_digits (dec_fixed k z) acc n = (acc * 10 ^ Z.of_nat k + z mod 10 ^ Z.of_nat k, (n + k)%nat, []).
Proof.
  intros z acc n Hz. pose proof (take_digits_dec_fixed_app k [] I z acc n Hz) as H.
  rewrite app_nil_r in H. exact H.
Qed.

Lemma take_digits_dec_nat z : 0 <= z -> z < 10 ^ 10 ->
  take_digits (dec_nat z) 0 0 = (z, length (dec_nat z), []) /\ (1 <= length (dec_nat z) <= 10)%nat /\
  ndigits 2000 z <= 10.
Proof.
  intros Hz Hlt. unfold dec_nat. rewrite dec_fixed_length.
  destruct (Z.eq_dec z 0) as [->|Hnz]; [vm_compute; repeat split; try lia; discriminate|].
  assert (Hf : z < 10 ^ Z.of_nat 2000).
  { eapply Z.lt_le_trans; [exact Hlt|]. apply Z.leb_le. vm_compute. reflexivity. }
  destruct (ndigits_spec 2000 z ltac:(lia) Hf) as [Hk [Hlo Hhi]].
  set (k := ndigits 2000 z) in *.
  assert (Hk10 : k <= 10).
  { destruct (Z.le_gt_cases k 10) as [|Hgt]; [assumption|].
    assert (10 ^ 10 <= 10 ^ (k - 1)) by (apply Z.pow_le_mono_r; lia). lia. }
  rewrite take_digits_dec_fixed by exact Hz.
  rewrite Z2Nat.id by lia. rewrite Z.mod_small by lia.
  split; [f_equal; f_equal; lia|]. split; [lia|exact Hk10].
Qed.

Lemma dec_nat_head z : 0 <= z -> z < 10 ^ 10 ->
  exists d ds, dec_nat z = d :: ds /\ 48 <= d <= 57.
Proof.
  intros Hz Hlt. destruct (Z.eq_dec z 0) as [->|Hnz].
  - exists 48, []. split; [reflexivity|lia].
  - destruct (dec_nat_pos z ltac:(lia) Hlt) as [d [ds [E [Hd _]]]]. exists d, ds. split; [exact E|lia].
Qed.

Lemma norm_pos_opp p : SFopp (norm_pos false p) = norm_pos true p.
Proof. unfold norm_pos. destruct (Zpos (digits2_pos p) - 53); reflexivity. Qed.

(** clause N2 for the reference implementations, with the consumed length *)
Theorem ref_d z : int_range z = true ->
  strtod_ref (fmt_d z) = Some (dbl_of_int z, length (fmt_d z)).
Proof.
  intro Hr. unfold int_range in Hr. apply andb_true_iff in Hr as [Hlo Hhi].
  apply Z.leb_le in Hlo, Hhi. unfold c_INT_MIN in Hlo. unfold c_INT_MAX in Hhi.
  assert (H10 : 10 ^ 10 = 10000000000) by reflexivity.
  unfold fmt_d. destruct (Z.ltb_spec z 0) as [Hneg|Hpos].
  - (* negative *)
    destruct (take_digits_dec_nat (- z) ltac:(lia) ltac:(lia)) as [Et [Hlen Hnd]].
    rewrite strtod_ref_eq. cbn [sign_split]. rewrite Et. cbn [frac_part].
    destruct (length (dec_nat (- z))) as [|k] eqn:Ek; [lia|]. cbn [Nat.add Nat.eqb exp_part].
    f_equal. f_equal; [|cbn [length]; lia].
    unfold dec_to_dbl_exact. destruct (Z.eqb_spec (- z) 0); [lia|].
    change (0 - Z.of_nat 0) with 0. rewrite Z.add_0_r.
    pose proof (ndigits_nonneg 2000 (- z)) as Hnn.
    destruct (Z.ltb_spec 400 (ndigits 2000 (- z))); [lia|].
    destruct (Z.ltb_spec (ndigits 2000 (- z)) (-400)); [lia|].
    change (0 <=? 0) with true. cbv iota. change (10 ^ 0) with 1. rewrite Z.mul_1_r.
    destruct z as [|p|p]; try lia. cbn [Z.opp].
    assert (Hd : Zpos (digits2_pos p) <= 53) by (apply digits_le_of_lt; [lia|change (2 ^ 53) with 9007199254740992; lia]).
    change (binary_normalize prec emax (Z.pos p) 0 false) with (dbl_of_int (Zpos p)).
    rewrite (dbl_of_int_pos p Hd), (dbl_of_int_neg p Hd). apply norm_pos_opp.
  - (* non-negative *)
    destruct (take_digits_dec_nat z Hpos ltac:(lia)) as [Et [Hlen Hnd]].
    destruct (dec_nat_head z Hpos ltac:(lia)) as [d [ds [Ed Hd]]].
    rewrite strtod_ref_eq. rewrite Ed. rewrite sign_split_other by lia. rewrite <- Ed.
    rewrite Et. cbn [frac_part].
    destruct (length (dec_nat z)) as [|k] eqn:Ek; [lia|]. cbn [Nat.add Nat.eqb exp_part].
    f_equal. f_equal; [|lia].
    unfold dec_to_dbl_exact. destruct (Z.eqb_spec z 0) as [->|Hnz]; [reflexivity|].
    change (0 - Z.of_nat 0) with 0. rewrite Z.add_0_r.
    pose proof (ndigits_nonneg 2000 z) as Hnn.
    destruct (Z.ltb_spec 400 (ndigits 2000 z)); [lia|].
    destruct (Z.ltb_spec (ndigits 2000 z) (-400)); [lia|].
    change (0 <=? 0) with true. cbv iota. change (10 ^ 0) with 1. rewrite Z.mul_1_r. reflexivity.
Qed.

Corollary ref_lr_d z : int_range z = true -> exists k, strtod_ref (fmt_d z) = Some (dbl_of_int z, k).
Proof. intro H. eexists. exact (ref_d z H). Qed.
