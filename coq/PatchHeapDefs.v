(** PatchHeapDefs.v — HEAP-LEVEL transliteration of the JSON Pointer walk and of [detach_path] of
    cJSON_Utils.c on the memory model of Heap.v (stages 1 and 2 of "JSON Patch at heap level"; the
    value-level models of the same C functions are PointerDefs.v / PatchDefs.v, and PatchHeapPointer.v /
    PatchHeapDetach.v prove that the functions below refine them).  No proofs here.

    C STRINGS AS ARGUMENTS.  CoreDefs.v passes a [const char *] as the identity of a byte block.  The
    functions below also need (1) pointers INTO a block — [pointer++] in [get_item_from_pointer], and
    [child_pointer], which points behind the last '/' of the strdup'ed copy of the path and is handed to
    cJSON_DetachItemFromObject / cJSON_DeleteItemFromObject / cJSON_AddItemToObject — and (2) string
    literals ("op", "path", "value", "from", handed to get_object_item).  [cstring] is: NULL, a block with
    an offset, or a literal (static storage: readable, never written, never released).

    The functions of cJSON.c that receive such an argument are therefore transliterated once more with a
    [cstring] in place of the block pointer ([get_object_item_s], [cJSON_DetachItemFromObject_s], …,
    [add_item_to_object_s]): the text is that of CoreDefs.v, the only change is how the name is read
    ([ld_cs] instead of [ld_cstr]) and compared by address ([cs_ptr_eqb]).  PatchHeapStr.v proves that on a
    block pointer ([CAt b 0]) they ARE the functions of CoreDefs.v.

    Granularity of string reads, as in CoreDefs.v: a libc-style read of a whole C string ([strlen],
    [strcmp], [strrchr], and here also the two leaf functions [compare_pointers] and
    [decode_array_index_from_pointer], which only read forward up to the terminator) is ONE checked load of
    the C string ([ld_cs]: the terminator must exist inside the block, else [OutOfBounds]) followed by the
    pure function on byte lists — for the two leaf functions the transliterations of PointerDefs.v (C15).
    The loops of [get_item_from_pointer] itself ([pointer[0]], [pointer++]) are byte reads ([ld_byte]);
    [decode_pointer_inplace] rewrites the tail of the block through the checked reads and writes of
    PatchDefs.dpi_loop (an [OOB] there is [OutOfBounds] here). *)
From stdpp Require Import gmap.
From CJ Require Import Base Dbl Heap CoreDefs Forest TierBridgeUtilsDefs MergeHeapDefs.
From CJ Require Tree PointerDefs PatchDefs.
From CJ.gen Require Import Constants.
Local Open Scope Z_scope.

(** * C strings as arguments *)
Inductive cstring : Type :=
| CNull
| CAt (b : positive) (off : nat)       (* [block + off] *)
| CLit (s : bytes).                    (* a string literal, given without its terminator *)

Definition cs_is_null (s : cstring) : bool := match s with CNull => true | _ => false end.
(** [s == k] for a block pointer [k] (a literal lives in static storage: equal to no heap pointer) *)
Definition cs_ptr_eqb (s : cstring) (k : ptr) : bool :=
  match s, k with
  | CNull, None => true
  | CAt b O, Some k' => Pos.eqb b k'
  | _, _ => false
  end.
(** [s + n] *)
Definition cs_plus (s : cstring) (n : nat) : cstring :=
  match s with
  | CNull => CNull
  | CAt b off => CAt b (off + n)
  | CLit l => CLit (drop n l)
  end.
Definition cs_of_ptr (p : ptr) : cstring := match p with Some b => CAt b 0 | None => CNull end.

(** [s[i]] *)
Definition ld_byte (s : cstring) (i : nat) : M Z :=
  match s with
  | CNull => fail NullDeref
  | CAt b off =>
      bs <~ ld_str (Some b) ;;
      match bs !! (off + i)%nat with Some c => ret c | None => fail OutOfBounds end
  | CLit l => match (l ++ [0]) !! i with Some c => ret c | None => fail OutOfBounds end
  end.
(** the C string that starts at [s] (a read that runs to the terminator: strlen, strcmp, strrchr, …) *)
Definition ld_cs (s : cstring) : M bytes :=
  match s with
  | CNull => fail NullDeref
  | CAt b off =>
      bs <~ ld_str (Some b) ;;
      if existsb (Z.eqb 0) (drop off bs) then ret (cstr (drop off bs)) else fail OutOfBounds
  | CLit l => ret l
  end.
(** [s[i] = v] *)
Definition st_byte (s : cstring) (i : nat) (v : Z) : M unit :=
  match s with
  | CNull => fail NullDeref
  | CAt b off =>
      bs <~ ld_str (Some b) ;;
      if (off + i <? length bs)%nat then st_str (Some b) (upd bs (off + i) v) else fail OutOfBounds
  | CLit _ => fail ForeignWrite
  end.
(** bound for a loop that walks the bytes of the string: the size of the block *)
Definition cs_fuel (s : cstring) : M nat :=
  match s with
  | CNull => ret 1%nat
  | CAt b _ => bs <~ ld_str (Some b) ;; ret (S (length bs))
  | CLit l => ret (S (S (length l)))
  end.

(** cJSON_IsArray: [if (item == NULL) return false; return (item->type & 0xFF) == cJSON_Array;] *)
Definition cJSON_IsArray (item : ptr) : M bool :=
  if is_null item then ret false else type_is item c_cJSON_Array.

(** * the functions of cJSON.c that take a name, with the name as a [cstring] *)

(** case_insensitive_strcmp(string1 = the name, string2 = a key block) *)
Definition case_insensitive_strcmp_s (string1 : cstring) (string2 : ptr) : M Z :=
  if cs_is_null string1 || is_null string2 then ret 1 else
  if cs_ptr_eqb string1 string2 then ret 0 else
  a <~ ld_cs string1 ;;
  b <~ ld_cstr string2 ;;
  ret (strcasecmp_c a b).

Fixpoint get_object_item_loop_cs_s (fuel : nat) (current_element : ptr) (name : cstring) : M ptr :=
  match fuel with
  | O => fail NoFuel
  | S f =>
      if is_null current_element then ret current_element else
      k <~ get_key current_element ;;
      if is_null k then ret current_element else
      n <~ ld_cs name ;;
      ks <~ ld_cstr k ;;
      if negb (strcmp n ks =? 0) then
        nx <~ get_next current_element ;;
        get_object_item_loop_cs_s f nx name
      else ret current_element
  end.
Fixpoint get_object_item_loop_ci_s (fuel : nat) (current_element : ptr) (name : cstring) : M ptr :=
  match fuel with
  | O => fail NoFuel
  | S f =>
      if is_null current_element then ret current_element else
      k <~ get_key current_element ;;
      c <~ case_insensitive_strcmp_s name k ;;
      if negb (c =? 0) then
        nx <~ get_next current_element ;;
        get_object_item_loop_ci_s f nx name
      else ret current_element
  end.
Definition get_object_item_s (object : ptr) (name : cstring) (case_sensitive : bool) : M ptr :=
  if is_null object || cs_is_null name then ret None else
  child <~ get_child object ;;
  fuel <~ heap_fuel ;;
  current_element <~ (if case_sensitive then get_object_item_loop_cs_s fuel child name
                      else get_object_item_loop_ci_s fuel child name) ;;
  if is_null current_element then ret None else
  k <~ get_key current_element ;;
  if is_null k then ret None else ret current_element.

Definition cJSON_GetObjectItem_s (object : ptr) (string : cstring) : M ptr := get_object_item_s object string false.
Definition cJSON_GetObjectItemCaseSensitive_s (object : ptr) (string : cstring) : M ptr := get_object_item_s object string true.

Definition cJSON_DetachItemFromObject_s (object : ptr) (string : cstring) : M ptr :=
  to_detach <~ cJSON_GetObjectItem_s object string ;;
  cJSON_DetachItemViaPointer object to_detach.
Definition cJSON_DetachItemFromObjectCaseSensitive_s (object : ptr) (string : cstring) : M ptr :=
  to_detach <~ cJSON_GetObjectItemCaseSensitive_s object string ;;
  cJSON_DetachItemViaPointer object to_detach.
Definition cJSON_DeleteItemFromObject_s (object : ptr) (string : cstring) : M unit :=
  it <~ cJSON_DetachItemFromObject_s object string ;; cJSON_Delete it.
Definition cJSON_DeleteItemFromObjectCaseSensitive_s (object : ptr) (string : cstring) : M unit :=
  it <~ cJSON_DetachItemFromObjectCaseSensitive_s object string ;; cJSON_Delete it.

Section PatchHeap.
  Variable oracle : nat -> bool.

  (** cJSON_strdup(string) of cJSON.c *)
  Definition cJSON_strdup_s (string : cstring) : M ptr :=
    if cs_is_null string then ret None else
    s <~ ld_cs string ;;                                              (* length = strlen(string) + 1 *)
    copy <~ alloc_bytes oracle (repeat 0 (S (length s))) ;;           (* hooks->allocate(length) *)
    if is_null copy then ret None else
    st_str copy (s ++ [0]) ;;;                                        (* memcpy(copy, string, length) *)
    ret copy.

  (** add_item_to_object(object, string, item, hooks, constant_key = false) = cJSON_AddItemToObject *)
  Definition cJSON_AddItemToObject_s (object : ptr) (string : cstring) (item : ptr) : M bool :=
    if is_null object || cs_is_null string || is_null item || ptr_eqb object item then ret false else
    r <~ (new_key <~ cJSON_strdup_s string ;;
          if is_null new_key then ret None else
          t <~ get_type item ;;
          ret (Some (new_key, clear_flag t c_cJSON_StringIsConst))) ;;
    match r with
    | None => ret false
    | Some (new_key, new_type) =>
        t <~ get_type item ;;
        (if has_flag t c_cJSON_StringIsConst then ret tt else
           k <~ get_key item ;;
           when (negb (is_null k)) (k2 <~ get_key item ;; free_block k2)) ;;;
        set_key item new_key ;;;
        set_type item new_type ;;;
        add_item_to_array object item
    end.

  (** * cJSON_Utils.c *)

  (** static unsigned char* cJSONUtils_strdup(const unsigned char* const string): no NULL test on the argument
      ([strlen(NULL)]) *)
  Definition cJSONUtils_strdup (string : ptr) : M ptr :=
    s <~ ld_cstr string ;;                                            (* length = strlen(string) + sizeof("") *)
    copy <~ cJSON_malloc oracle (repeat 0 (S (length s))) ;;
    if is_null copy then ret None else
    st_str copy (s ++ [0]) ;;;                                        (* memcpy(copy, string, length) *)
    ret copy.

  (** static cJSON *get_array_item(const cJSON *array, size_t item)   ("non broken version of cJSON_GetArrayItem"):
        cJSON *child = array ? array->child : NULL;
        while ((child != NULL) && (item > 0)) { item--; child = child->next; }
        return child;
      the loop is, statement for statement, [CoreDefs.get_array_item_loop] *)
  Definition u_get_array_item (array : ptr) (item : Z) : M ptr :=
    child <~ (if is_null array then ret None else get_child array) ;;
    fuel <~ heap_fuel ;;
    get_array_item_loop fuel child item.

  (** static cJSON_bool decode_array_index_from_pointer(const unsigned char * const pointer, size_t * const index):
      [None] = returns 0, [Some i] = returns 1 with [*index = i]; reads forward from [pointer] and stops at
      the terminator at the latest *)
  Definition decode_array_index_from_pointer (pointer : cstring) : M (option Z) :=
    p <~ ld_cs pointer ;;
    ret (PointerDefs.decode_array_index_from_pointer p).

  (** static cJSON_bool compare_pointers(const unsigned char *name, const unsigned char *pointer, case_sensitive) *)
  Definition compare_pointers (name : ptr) (pointer : cstring) (case_sensitive : bool) : M bool :=
    if is_null name || cs_is_null pointer then ret false else
    n <~ ld_cstr name ;;
    p <~ ld_cs pointer ;;
    ret (PointerDefs.compare_pointers n p case_sensitive).

  (** [while ((pointer[0] != '\0') && (pointer[0] != '/')) pointer++;] *)
  Fixpoint skip_token_loop (fuel : nat) (pointer : cstring) : M cstring :=
    match fuel with
    | O => fail NoFuel
    | S f =>
        c <~ ld_byte pointer 0 ;;
        if negb (c =? 0) && negb (c =? 47) then skip_token_loop f (cs_plus pointer 1)
        else ret pointer
    end.

  (** [while ((current_element != NULL) && !compare_pointers(current_element->string, pointer, case_sensitive))
         current_element = current_element->next;] *)
  Fixpoint gip_member_loop (fuel : nat) (current_element : ptr) (pointer : cstring) (case_sensitive : bool) : M ptr :=
    match fuel with
    | O => fail NoFuel
    | S f =>
        if is_null current_element then ret current_element else
        k <~ get_key current_element ;;
        m <~ compare_pointers k pointer case_sensitive ;;
        if negb m then
          nx <~ get_next current_element ;;
          gip_member_loop f nx pointer case_sensitive
        else ret current_element
    end.

  (** static cJSON *get_item_from_pointer(cJSON * const object, const char * pointer, case_sensitive):
      the outer while loop and the tail; [tfuel] bounds the number of tokens, [sfuel] the skip loop (both: the
      size of the pointer's block), [lfuel] the sibling loops *)
  Fixpoint get_item_from_pointer_loop (tfuel sfuel lfuel : nat) (current_element : ptr) (pointer : cstring)
      (case_sensitive : bool) {struct tfuel} : M ptr :=
    match tfuel with
    | O => fail NoFuel
    | S tf =>
        c <~ ld_byte pointer 0 ;;
        if (c =? 47) && negb (is_null current_element) then      (* while ((pointer[0] == '/') && (current_element != NULL)) *)
          let pointer := cs_plus pointer 1 in                      (* pointer++ *)
          isarr <~ cJSON_IsArray current_element ;;
          if isarr then
            oi <~ decode_array_index_from_pointer pointer ;;
            match oi with
            | None => ret None                                     (* return NULL *)
            | Some index =>
                ce <~ u_get_array_item current_element index ;;
                pointer' <~ skip_token_loop sfuel pointer ;;
                get_item_from_pointer_loop tf sfuel lfuel ce pointer' case_sensitive
            end
          else
            isobj <~ cJSON_IsObject current_element ;;
            if isobj then
              ce0 <~ get_child current_element ;;                  (* current_element = current_element->child *)
              ce <~ gip_member_loop lfuel ce0 pointer case_sensitive ;;
              pointer' <~ skip_token_loop sfuel pointer ;;
              get_item_from_pointer_loop tf sfuel lfuel ce pointer' case_sensitive
            else ret None                                          (* return NULL *)
        else
          (* if ((current_element != NULL) && (pointer[0] != '\0')) return NULL; *)
          if negb (is_null current_element) then
            c' <~ ld_byte pointer 0 ;;
            if negb (c' =? 0) then ret None else ret current_element
          else ret current_element
    end.

  Definition get_item_from_pointer (object : ptr) (pointer : cstring) (case_sensitive : bool) : M ptr :=
    if cs_is_null pointer then ret None else                       (* if (pointer == NULL) return NULL; *)
    sfuel <~ cs_fuel pointer ;;
    lfuel <~ heap_fuel ;;
    get_item_from_pointer_loop sfuel sfuel lfuel object pointer case_sensitive.

  Definition cJSONUtils_GetPointer (object : ptr) (pointer : cstring) : M ptr := get_item_from_pointer object pointer false.
  Definition cJSONUtils_GetPointerCaseSensitive (object : ptr) (pointer : cstring) : M ptr := get_item_from_pointer object pointer true.

  (** [strrchr(s, '/')]: the offset of the last '/' from [s], or NULL *)
  Definition strrchr_slash (s : cstring) : M (option nat) :=
    l <~ ld_cs s ;;
    ret (PatchDefs.last_slash l 0 None).

  (** static void decode_pointer_inplace(unsigned char *string): the buffer is the rest of the block from
      [string] on; reads and writes are those of PatchDefs.dpi_loop (checked against the end of the block) *)
  Definition decode_pointer_inplace (string : cstring) : M unit :=
    match string with
    | CNull => ret tt                                              (* if (string == NULL) return; *)
    | CAt b off =>
        bs <~ ld_str (Some b) ;;
        match PatchDefs.decode_pointer_inplace (drop off bs) with
        | Ok buf' => st_str (Some b) (take off bs ++ buf')
        | _ => fail OutOfBounds
        end
    | CLit _ => fail ForeignWrite
    end.

  (** static cJSON *detach_path(cJSON *object, const unsigned char *path, const cJSON_bool case_sensitive) *)
  Definition detach_path (object : ptr) (path : ptr) (case_sensitive : bool) : M ptr :=
    parent_pointer <~ cJSONUtils_strdup path ;;                   (* copy path and split it in parent and child *)
    if is_null parent_pointer then ret None else                   (* goto cleanup (nothing to release) *)
    let pp := cs_of_ptr parent_pointer in
    last <~ strrchr_slash pp ;;                                    (* child_pointer = strrchr(parent_pointer, '/') *)
    detached_item <~
      match last with
      | None => ret None                                           (* goto cleanup *)
      | Some i =>
          st_byte pp i 0 ;;;                                       (* child_pointer[0] = '\0'; *)
          let child_pointer := cs_plus pp (S i) in                 (* child_pointer++; *)
          parent <~ get_item_from_pointer object pp case_sensitive ;;
          isarr <~ cJSON_IsArray parent ;;
          if isarr then
            oi <~ decode_array_index_from_pointer child_pointer ;;
            match oi with
            | None => ret None                                     (* goto cleanup *)
            | Some index => detach_item_from_array parent index
            end
          else
            isobj <~ cJSON_IsObject parent ;;
            if isobj then
              decode_pointer_inplace child_pointer ;;;
              if case_sensitive then cJSON_DetachItemFromObjectCaseSensitive_s parent child_pointer
              else cJSON_DetachItemFromObject_s parent child_pointer
            else ret None                                          (* Couldn't find object to remove child from. *)
      end ;;
    (* cleanup: if (parent_pointer != NULL) cJSON_free(parent_pointer); *)
    cJSON_free parent_pointer ;;;
    ret detached_item.
End PatchHeap.

(** * the forest side: paths *)

(** the node a path of child indices leads to *)
Fixpoint subtree_t (t : tree) (p : Tree.path) : option tree :=
  match p with
  | [] => Some t
  | i :: p' => match tchildren t !! i with Some c => subtree_t c p' | None => None end
  end.
(** the tree with the node at [p] replaced *)
Fixpoint put_t (t : tree) (p : Tree.path) (new : tree) : tree :=
  match p with
  | [] => new
  | i :: p' =>
      match tchildren t !! i with
      | Some c => T (tid t) (tdata t) (<[i := put_t c p' new]> (tchildren t))
      | None => t
      end
  end.
