(** PrintStrictRef.v — C05, parts 5 and 6: the reference C library of LibcPrint.v against the
    contract [PrintStrict.LibcStrictSpec], and a concrete non-trivial instance.

    * [ref_fmt_d_strict]: PROVED for all ints — the "%d" clauses of the contract (RFC number,
      length, plain decimal) hold of the reference [fmt_d].
    * [ref_table_test], [ref_table_texts_test]: TESTS (vm_compute on a table of boundary doubles,
      not proofs about all doubles): the "%g" clauses hold on the table and the reference prints
      the same characters as glibc (expected strings generated with printf on this machine).
      The "%g" clauses for ALL finite doubles are not proved for the reference implementation;
      they remain the named hypothesis [LibcStrictSpec] of the C05 theorems.
    * [ex_tree]: nested object/array, a string with every escape class and bytes >= 0x80, numbers
      of all three formatting branches, NaN and -inf; [printable], rendered in both formats. *)
From CJ Require Import Base Dbl Tree Grammar PrintDefs LibcNum LibcPrint PrintStrict PrintStrictWs PrintStrictUtf8.
Local Open Scope Z_scope.

(** ------------------------------------------------------------------ "%d", proved *)
Lemma ndigits_nonneg fuel : forall m, 0 <= ndigits fuel m.
Proof.
  induction fuel as [|f IH]; intro m; cbn [ndigits]; [lia|].
  destruct (m <? 10); [lia|]. specialize (IH (m / 10)). lia.
Qed.

Lemma ndigits_spec fuel : forall m, 0 < m -> m < 10 ^ Z.of_nat fuel ->
  1 <= ndigits fuel m /\ 10 ^ (ndigits fuel m - 1) <= m < 10 ^ ndigits fuel m.
Proof.
  induction fuel as [|f IH]; intros m Hm Hlt.
  - change (10 ^ Z.of_nat 0) with 1 in Hlt. lia.
  - cbn [ndigits]. destruct (Z.ltb_spec m 10) as [H10|H10].
    + change (10 ^ (1 - 1)) with 1. change (10 ^ 1) with 10. lia.
    + rewrite Nat2Z.inj_succ, Z.pow_succ_r in Hlt by lia.
      assert (Hq : 0 < m / 10) by (apply Z.div_str_pos; lia).
      assert (Hq2 : m / 10 < 10 ^ Z.of_nat f) by (apply Z.div_lt_upper_bound; lia).
      destruct (IH (m / 10) Hq Hq2) as [Hk [Hlo Hhi]].
      set (k := ndigits f (m / 10)) in *.
      replace (1 + k - 1) with (Z.succ (k - 1)) by lia.
      replace (1 + k) with (Z.succ k) by lia.
      rewrite !Z.pow_succ_r by lia.
      pose proof (Z.mul_div_le m 10 ltac:(lia)) as Hd1.
      pose proof (Z.mul_succ_div_gt m 10 ltac:(lia)) as Hd2.
      lia.
Qed.

Lemma dec_fixed_length k : forall z, length (dec_fixed k z) = k.
Proof. induction k as [|k IH]; intro z; cbn [dec_fixed]; [reflexivity|]. rewrite app_length, IH. cbn [length]. lia. Qed.

Lemma dec_fixed_digits k : forall z, forallb digit (dec_fixed k z) = true.
Proof.
  induction k as [|k IH]; intro z; cbn [dec_fixed]; [reflexivity|].
  rewrite forallb_app, IH. cbn [forallb]. unfold digit.
  pose proof (Z.mod_pos_bound z 10 ltac:(lia)) as Hm.
  destruct (Z.leb_spec 48 (48 + z mod 10)); [|lia]. destruct (Z.leb_spec (48 + z mod 10) 57); [reflexivity|lia].
Qed.

(** the digits most significant first: head digit, then the low k digits *)
Lemma dec_fixed_head k : forall z, 0 <= z -> dec_fixed (S k) z = (48 + (z / 10 ^ Z.of_nat k) mod 10) :: dec_fixed k z.
Proof.
  induction k as [|k IH]; intros z Hz.
  - cbn [dec_fixed app]. change (10 ^ Z.of_nat 0) with 1. rewrite Z.div_1_r. reflexivity.
  - change (dec_fixed (S (S k)) z) with (dec_fixed (S k) (z / 10) ++ [48 + z mod 10]).
    rewrite IH by (apply Z.div_pos; lia). cbn [app].
    rewrite Nat2Z.inj_succ, Z.pow_succ_r by lia.
    rewrite Z.div_div by lia. reflexivity.
Qed.

Lemma skip_digits_all l : forallb digit l = true -> skip_digits l = [].
Proof.
  induction l as [|c l IH]; [reflexivity|]. cbn [forallb skip_digits]. intro H.
  apply andb_true_iff in H as [Hc Hl]. rewrite Hc. apply IH, Hl.
Qed.

Lemma dec_nat_pos z : 0 < z -> z < 10 ^ 10 ->
  exists d ds, dec_nat z = d :: ds /\ 49 <= d <= 57 /\ forallb digit ds = true /\ (length ds <= 9)%nat.
Proof.
  intros Hz Hlt. unfold dec_nat.
  assert (Hf : z < 10 ^ Z.of_nat 2000).
  { eapply Z.lt_le_trans; [exact Hlt|]. apply Z.leb_le. vm_compute. reflexivity. }
  destruct (ndigits_spec 2000 z Hz Hf) as [Hk [Hlo Hhi]].
  set (k := ndigits 2000 z) in *.
  assert (Hk10 : k <= 10).
  { destruct (Z.le_gt_cases k 10) as [|Hgt]; [assumption|].
    assert (10 ^ 10 <= 10 ^ (k - 1)) by (apply Z.pow_le_mono_r; lia). lia. }
  destruct (Z.to_nat k) as [|k'] eqn:Ek; [lia|].
  rewrite dec_fixed_head by lia.
  assert (Ek' : Z.of_nat k' = k - 1) by lia. rewrite Ek'.
  exists (48 + (z / 10 ^ (k - 1)) mod 10), (dec_fixed k' z).
  split; [reflexivity|].
  assert (Hp : 0 < 10 ^ (k - 1)) by (apply Z.pow_pos_nonneg; lia).
  assert (Hq : 1 <= z / 10 ^ (k - 1) < 10).
  { split.
    - apply Z.div_le_lower_bound; lia.
    - apply Z.div_lt_upper_bound; [lia|].
      replace (10 ^ (k - 1) * 10) with (10 ^ k); [lia|].
      replace k with (Z.succ (k - 1)) at 1 by lia. rewrite Z.pow_succ_r by lia. lia. }
  rewrite Z.mod_small by lia.
  split; [lia|]. split; [apply dec_fixed_digits|]. rewrite dec_fixed_length. lia.
Qed.

Lemma digits_number d ds : 49 <= d <= 57 -> forallb digit ds = true -> rfc_number (d :: ds) = true.
Proof.
  intros Hd Hds. rewrite rfc_number_head_ne by lia.
  destruct (Z.eqb_spec d 48); [lia|].
  rewrite (skip_digits_all _ Hds). unfold digit.
  destruct (Z.leb_spec 48 d); [|lia]. destruct (Z.leb_spec d 57); [reflexivity|lia].
Qed.

Lemma digit_of_range d : 49 <= d <= 57 -> digit d = true.
Proof. intro H. unfold digit. destruct (Z.leb_spec 48 d); [|lia]. destruct (Z.leb_spec d 57); [reflexivity|lia]. Qed.

Lemma plain_int_b_nominus c l : c <> 45 -> plain_int_b (c :: l) = forallb digit (c :: l).
Proof. intro N. unfold plain_int_b. lit_cases c N. Qed.

(** the reference "%d": all three "%d" clauses of [LibcStrictSpec], for every int *)
Theorem ref_fmt_d_strict z : int_range z = true ->
  rfc_number (fmt_d z) = true /\ zlen (fmt_d z) <= c_NUMBER_BUFFER_SIZE - 1 /\ plain_int_b (fmt_d z) = true.
Proof.
  intro Hr. unfold int_range in Hr. apply andb_true_iff in Hr as [Hlo Hhi].
  apply Z.leb_le in Hlo, Hhi. change c_INT_MIN with (-2147483648) in Hlo. change c_INT_MAX with 2147483647 in Hhi.
  change (c_NUMBER_BUFFER_SIZE - 1) with 25. unfold fmt_d.
  destruct (Z.ltb_spec z 0) as [Hneg|Hpos].
  - destruct (dec_nat_pos (- z) ltac:(lia) ltac:(change (10 ^ 10) with 10000000000; lia))
      as [d [ds [E [Hd [Hds Hlen]]]]].
    rewrite E. split; [|split].
    + rewrite rfc_number_minus. destruct (Z.eqb_spec d 48); [lia|].
      rewrite (digit_of_range _ Hd), (skip_digits_all _ Hds). reflexivity.
    + unfold zlen. cbn [length]. lia.
    + unfold plain_int_b. cbn [forallb]. rewrite (digit_of_range _ Hd), Hds. reflexivity.
  - destruct (Z.eq_dec z 0) as [->|Hnz].
    + split; [|split]; vm_compute; try reflexivity. discriminate.
    + destruct (dec_nat_pos z ltac:(lia) ltac:(change (10 ^ 10) with 10000000000; lia))
        as [d [ds [E [Hd [Hds Hlen]]]]].
      rewrite E. split; [|split].
      * apply digits_number; assumption.
      * unfold zlen. cbn [length]. lia.
      * rewrite plain_int_b_nominus by lia. cbn [forallb]. rewrite (digit_of_range _ Hd), Hds. reflexivity.
Qed.

(** ------------------------------------------------------------------ "%g", tested on a table *)
(** (IEEE 754 bit pattern, glibc's "%1.15g", glibc's "%1.17g") *)
Definition g_table : list (Z * bytes * bytes) := [
    (0x0000000000000000, [48], [48]);   (* 0.0 *)
    (0x8000000000000000, [45; 48], [45; 48]);   (* -0.0 *)
    (0x3FF0000000000000, [49], [49]);   (* 1.0 *)
    (0x3FB999999999999A, [48; 46; 49], [48; 46; 49; 48; 48; 48; 48; 48; 48; 48; 48; 48; 48; 48; 48; 48; 48; 48; 49]);   (* 0.1 *)
    (0x3FD5555555555555, [48; 46; 51; 51; 51; 51; 51; 51; 51; 51; 51; 51; 51; 51; 51; 51; 51], [48; 46; 51; 51; 51; 51; 51; 51; 51; 51; 51; 51; 51; 51; 51; 51; 51; 51; 49]);   (* 0.3333333333333333 *)
    (0x430C6BF526340000, [49; 101; 43; 49; 53], [49; 48; 48; 48; 48; 48; 48; 48; 48; 48; 48; 48; 48; 48; 48; 48]);   (* 1000000000000000.0 *)
    (0x4341C37937E08000, [49; 101; 43; 49; 54], [49; 48; 48; 48; 48; 48; 48; 48; 48; 48; 48; 48; 48; 48; 48; 48; 48]);   (* 1e+16 *)
    (0x437B69B4BA630F35, [49; 46; 50; 51; 52; 53; 54; 55; 56; 57; 48; 49; 50; 51; 52; 54; 101; 43; 49; 55], [49; 46; 50; 51; 52; 53; 54; 55; 56; 57; 48; 49; 50; 51; 52; 53; 54; 56; 101; 43; 49; 55]);   (* 1.2345678901234568e+17 *)
    (0x3EE4F8B588E368F1, [49; 101; 45; 48; 53], [49; 46; 48; 48; 48; 48; 48; 48; 48; 48; 48; 48; 48; 48; 48; 48; 48; 49; 101; 45; 48; 53]);   (* 1e-05 *)
    (0x3F1A36E2EB1C432D, [48; 46; 48; 48; 48; 49], [48; 46; 48; 48; 48; 49]);   (* 0.0001 *)
    (0x7FEFFFFFFFFFFFFF, [49; 46; 55; 57; 55; 54; 57; 51; 49; 51; 52; 56; 54; 50; 51; 50; 101; 43; 51; 48; 56], [49; 46; 55; 57; 55; 54; 57; 51; 49; 51; 52; 56; 54; 50; 51; 49; 53; 55; 101; 43; 51; 48; 56]);   (* 1.7976931348623157e+308 *)
    (0x0000000000000001, [52; 46; 57; 52; 48; 54; 53; 54; 52; 53; 56; 52; 49; 50; 52; 55; 101; 45; 51; 50; 52], [52; 46; 57; 52; 48; 54; 53; 54; 52; 53; 56; 52; 49; 50; 52; 54; 53; 52; 101; 45; 51; 50; 52]);   (* 5e-324 *)
    (0x4340000000000000, [57; 46; 48; 48; 55; 49; 57; 57; 50; 53; 52; 55; 52; 48; 57; 57; 101; 43; 49; 53], [57; 48; 48; 55; 49; 57; 57; 50; 53; 52; 55; 52; 48; 57; 57; 50]);   (* 9007199254740992.0 *)
    (0x3FD3333333333334, [48; 46; 51], [48; 46; 51; 48; 48; 48; 48; 48; 48; 48; 48; 48; 48; 48; 48; 48; 48; 48; 52]);   (* 0.30000000000000004 *)
    (0x444B1AE4D6E2EF50, [49; 101; 43; 50; 49], [49; 101; 43; 50; 49]);   (* 1e+21 *)
    (0x4480F0CF064DD592, [49; 101; 43; 50; 50], [49; 101; 43; 50; 50]);   (* 1e+22 *)
    (0xBDE49DA7E361CE4C, [45; 49; 46; 53; 101; 45; 49; 48], [45; 49; 46; 53; 101; 45; 49; 48]);   (* -1.5e-10 *)
    (0x0010000000000000, [50; 46; 50; 50; 53; 48; 55; 51; 56; 53; 56; 53; 48; 55; 50; 101; 45; 51; 48; 56], [50; 46; 50; 50; 53; 48; 55; 51; 56; 53; 56; 53; 48; 55; 50; 48; 49; 52; 101; 45; 51; 48; 56]);   (* 2.2250738585072014e-308 *)
    (0xFFEFFFFFFFFFFFFF, [45; 49; 46; 55; 57; 55; 54; 57; 51; 49; 51; 52; 56; 54; 50; 51; 50; 101; 43; 51; 48; 56], [45; 49; 46; 55; 57; 55; 54; 57; 51; 49; 51; 52; 56; 54; 50; 51; 49; 53; 55; 101; 43; 51; 48; 56]);   (* -1.7976931348623157e+308 *)
    (0x44B52D02C7E14AF6, [49; 101; 43; 50; 51], [57; 46; 57; 57; 57; 57; 57; 57; 57; 57; 57; 57; 57; 57; 57; 57; 57; 50; 101; 43; 50; 50]);   (* 1e+23 *)
    (0x430C6BF52633FFFF, [49; 101; 43; 49; 53], [57; 57; 57; 57; 57; 57; 57; 57; 57; 57; 57; 57; 57; 57; 57; 46; 56; 56]);   (* 999999999999999.9 *)
    (0x3EE9E0FCAF9380FC, [49; 46; 50; 51; 52; 101; 45; 48; 53], [49; 46; 50; 51; 52; 101; 45; 48; 53]);   (* 1.234e-05 *)
    (0x42DC12218377DE66, [49; 50; 51; 52; 53; 54; 55; 56; 57; 48; 49; 50; 51; 52; 54], [49; 50; 51; 52; 53; 54; 55; 56; 57; 48; 49; 50; 51; 52; 53; 46; 53; 57]);   (* 123456789012345.6 *)
    (0x54B249AD2594C37D, [49; 101; 43; 49; 48; 48], [49; 101; 43; 49; 48; 48]);   (* 1e+100 *)
    (0x3FF8000000000000, [49; 46; 53], [49; 46; 53]);   (* 1.5 *)
    (0xBE90C6F7A0B5ED8D, [45; 50; 46; 53; 101; 45; 48; 55], [45; 50; 46; 52; 57; 57; 57; 57; 57; 57; 57; 57; 57; 57; 57; 57; 57; 57; 57; 101; 45; 48; 55]);   (* -2.5e-07 *)
    (0x4011666666666666, [52; 46; 51; 53], [52; 46; 51; 52; 57; 57; 57; 57; 57; 57; 57; 57; 57; 57; 57; 57; 57; 54]);   (* 4.35 *)
    (0x43E0000000000000, [57; 46; 50; 50; 51; 51; 55; 50; 48; 51; 54; 56; 53; 52; 55; 56; 101; 43; 49; 56], [57; 46; 50; 50; 51; 51; 55; 50; 48; 51; 54; 56; 53; 52; 55; 55; 53; 56; 101; 43; 49; 56]);   (* 9.223372036854776e+18 *)
    (0x000012688B70E62B, [57; 46; 57; 57; 57; 57; 57; 57; 57; 57; 57; 57; 57; 57; 57; 55; 101; 45; 51; 49; 49], [57; 46; 57; 57; 57; 57; 57; 57; 57; 57; 57; 57; 57; 57; 57; 54; 57; 52; 101; 45; 51; 49; 49]);   (* 1e-310 *)
    (0x3FE0000000000000, [48; 46; 53], [48; 46; 53]);   (* 0.5 *)
    (0x430B0028E44B0000, [57; 53; 48; 48; 48; 48; 48; 48; 48; 48; 48; 48; 48; 48; 48], [57; 53; 48; 48; 48; 48; 48; 48; 48; 48; 48; 48; 48; 48; 48]);   (* 950000000000000.0 *)
    (0x430C6BF52633FFFB, [57; 57; 57; 57; 57; 57; 57; 57; 57; 57; 57; 57; 57; 57; 57], [57; 57; 57; 57; 57; 57; 57; 57; 57; 57; 57; 57; 57; 57; 57; 46; 51; 56])   (* 999999999999999.4 *)
].

Definition g_clauses (d : dbl) : bool :=
  is_finite d && valid_dbl d && rfc_number (fmt_g15 d) && rfc_number (fmt_g17 d)
  && (zlen (fmt_g15 d) <=? c_NUMBER_BUFFER_SIZE - 1) && (zlen (fmt_g17 d) <=? c_NUMBER_BUFFER_SIZE - 1).

(** TEST (not a proof about all doubles): the executable "%g" clauses of the contract on the table *)
Example ref_table_test : forallb (fun r => g_clauses (sf_of_bits (fst (fst r)))) g_table = true.
Proof. vm_compute. reflexivity. Qed.

(** TEST: the reference prints exactly glibc's characters on the table *)
Example ref_table_texts_test :
  forallb (fun r => let d := sf_of_bits (fst (fst r)) in
                    bytes_eqb (fmt_g15 d) (snd (fst r)) && bytes_eqb (fmt_g17 d) (snd r)) g_table = true.
Proof. vm_compute. reflexivity. Qed.

(** TEST: "%d" at the boundaries (the general statement is [ref_fmt_d_strict]) *)
Example ref_int_texts_test :
  map fmt_d [0; 7; -1; 10; -999; 2147483647; -2147483648] =
  [[48]; [55]; [45; 49]; [49; 48]; [45; 57; 57; 57];
   [50; 49; 52; 55; 52; 56; 51; 54; 52; 55]; [45; 50; 49; 52; 55; 52; 56; 51; 54; 52; 56]].
Proof. vm_compute. reflexivity. Qed.

(** ------------------------------------------------------------------ a concrete instance *)
Definition ex_num vi d := Node c_cJSON_Number None vi d None [].
Definition ex_str s := Node c_cJSON_String (Some s) 0 dzero None [].
Definition ex_key k n := match n with Node t vs vi vd _ ch => Node t vs vi vd (Some k) ch end.
Definition ex_arr l := Node c_cJSON_Array None 0 dzero None l.
Definition ex_obj l := Node c_cJSON_Object None 0 dzero None l.
Definition ex_lit t := Node t None 0 dzero None [].

(** an object with the members: a = [42, 0.5, 1/3, NaN, -inf]; a member whose name is quote backslash
    and whose value is the string: quote, backslash, 08 0C 0A 0D 09, 01, 1F, space, slash, A, 7F, 80, FF
    (then a terminator and a byte that is not part of the C string); a member with a NULL name whose
    value is an empty object carrying the IsReference flag; b = {c:null, d:false, e:true (with the
    StringIsConst flag), f:[]}; g = [[[]],{}] *)
Definition ex_tree : node :=
  ex_obj [ ex_key [97; 0] (ex_arr [ ex_num 42 (dbl_of_int 42);                       (* "%d" branch *)
                                    ex_num 0 (sf_of_bits 0x3FE0000000000000);        (* 0.5: "%1.15g" branch *)
                                    ex_num 0 (sf_of_bits 0x3FD5555555555555);        (* 1/3: "%1.17g" branch *)
                                    ex_num 0 S754_nan;
                                    ex_num 5 (S754_infinity true) ]);
           ex_key [34; 92; 0] (ex_str [34; 92; 8; 12; 10; 13; 9; 1; 31; 32; 47; 65; 127; 128; 255; 0; 66]);
           Node (c_cJSON_Object + c_cJSON_IsReference) None 0 dzero None [];
           ex_key [98; 0] (ex_obj [ ex_key [99; 0] (ex_lit c_cJSON_NULL); ex_key [100; 0] (ex_lit c_cJSON_False);
                                    ex_key [101; 0] (ex_lit (c_cJSON_True + c_cJSON_StringIsConst));
                                    ex_key [102; 0] (ex_arr []) ]);
           ex_key [103; 0] (ex_arr [ex_arr [ex_arr []]; ex_obj []]) ].

Definition ref_render := render fmt_d fmt_g15 fmt_g17 sscanf_lg.

Definition ex_text_unformatted : bytes :=
  [123; 34; 97; 34; 58; 91; 52; 50; 44; 48; 46; 53; 44; 48; 46; 51;
   51; 51; 51; 51; 51; 51; 51; 51; 51; 51; 51; 51; 51; 51; 51; 49; 44;
   110; 117; 108; 108; 44; 110; 117; 108; 108; 93; 44; 34; 92; 34; 92;
   92; 34; 58; 34; 92; 34; 92; 92; 92; 98; 92; 102; 92; 110; 92; 114;
   92; 116; 92; 117; 48; 48; 48; 49; 92; 117; 48; 48; 49; 102; 32; 47;
   65; 127; 128; 255; 34; 44; 34; 34; 58; 123; 125; 44; 34; 98; 34;
   58; 123; 34; 99; 34; 58; 110; 117; 108; 108; 44; 34; 100; 34; 58;
   102; 97; 108; 115; 101; 44; 34; 101; 34; 58; 116; 114; 117; 101;
   44; 34; 102; 34; 58; 91; 93; 125; 44; 34; 103; 34; 58; 91; 91; 91;
   93; 93; 44; 123; 125; 93; 125].

Definition ex_text_formatted : bytes :=
  [123; 10; 9; 34; 97; 34; 58; 9; 91; 52; 50; 44; 32; 48; 46; 53; 44;
   32; 48; 46; 51; 51; 51; 51; 51; 51; 51; 51; 51; 51; 51; 51; 51; 51;
   51; 51; 49; 44; 32; 110; 117; 108; 108; 44; 32; 110; 117; 108; 108;
   93; 44; 10; 9; 34; 92; 34; 92; 92; 34; 58; 9; 34; 92; 34; 92; 92;
   92; 98; 92; 102; 92; 110; 92; 114; 92; 116; 92; 117; 48; 48; 48;
   49; 92; 117; 48; 48; 49; 102; 32; 47; 65; 127; 128; 255; 34; 44;
   10; 9; 34; 34; 58; 9; 123; 10; 9; 125; 44; 10; 9; 34; 98; 34; 58;
   9; 123; 10; 9; 9; 34; 99; 34; 58; 9; 110; 117; 108; 108; 44; 10; 9;
   9; 34; 100; 34; 58; 9; 102; 97; 108; 115; 101; 44; 10; 9; 9; 34;
   101; 34; 58; 9; 116; 114; 117; 101; 44; 10; 9; 9; 34; 102; 34; 58;
   9; 91; 93; 10; 9; 125; 44; 10; 9; 34; 103; 34; 58; 9; 91; 91; 91;
   93; 93; 44; 32; 123; 10; 9; 9; 125; 93; 10; 125].

(** the hypotheses of the C05 theorems are satisfiable on a non-trivial tree, and this is what comes out *)
Example ex_tree_printable : printable ex_tree = true /\ cdepth ex_tree = 4%nat.
Proof. split; vm_compute; reflexivity. Qed.

Example ex_tree_renders :
  ref_render false 0 ex_tree = Some ex_text_unformatted /\ ref_render true 0 ex_tree = Some ex_text_formatted.
Proof. split; vm_compute; reflexivity. Qed.

Example ex_tree_strip : strip_ws ex_text_formatted = ex_text_unformatted.
Proof. vm_compute. reflexivity. Qed.

Example ex_tree_value :
  val_of fmt_d fmt_g15 fmt_g17 sscanf_lg ex_tree =
  JObj [([97], JArr [JNum [52; 50]; JNum [48; 46; 53];
                     JNum [48; 46; 51; 51; 51; 51; 51; 51; 51; 51; 51; 51; 51; 51; 51; 51; 51; 51; 49]; JNull; JNull]);
        ([34; 92], JStr [34; 92; 8; 12; 10; 13; 9; 1; 31; 32; 47; 65; 127; 128; 255]);
        ([], JObj []);
        ([98], JObj [([99], JNull); ([100], JBool false); ([101], JBool true); ([102], JArr [])]);
        ([103], JArr [JArr [JArr []]; JObj []])].
Proof. vm_compute. reflexivity. Qed.

(** the scanner does look inside the text: whitespace inside a literal stays, an escaped quote does
    not end the literal, whitespace outside goes *)
Example strip_ws_example :
  strip_ws [91; 32; 34; 97; 32; 92; 34; 32; 9; 34; 32; 44; 10; 9; 49; 32; 93]     (* [ 'a \' <tab>' ,<nl><tab>1 ]   (with ' for the double quote) *)
  = [91; 34; 97; 32; 92; 34; 32; 9; 34; 44; 49; 93].                              (* ['a \' <tab>',1] *)
Proof. vm_compute. reflexivity. Qed.

(** an integer-valued number with a consistent int view *)
Example ex_int_plain :
  ref_render true 3 (ex_num (-2147483648) (dbl_of_int (-2147483648))) = Some [45; 50; 49; 52; 55; 52; 56; 51; 54; 52; 56]
  /\ plain_int_b [45; 50; 49; 52; 55; 52; 56; 51; 54; 52; 56] = true
  /\ plain_int_b [49; 46; 53] = false /\ plain_int_b [49; 101; 43; 50; 49] = false /\ plain_int_b [45] = false.
Proof. repeat split; vm_compute; reflexivity. Qed.

(** The contract has an inhabitant that IS the reference implementation wherever the reference
    passes a run-time check: the reference "%d" (proved above for all ints) and the reference "%g"
    behind a guard that replaces an output which is not an RFC number of at most 25 bytes by "0".
    The guard never fires on the table (test below), nor on any double of the correspondence runs;
    that it never fires at all is the unproved part of the reference "%g". *)
Definition sguard (t : bytes) : bytes :=
  if rfc_number t && (zlen t <=? c_NUMBER_BUFFER_SIZE - 1) then t else [48].
Definition sg_fmt_g15 (d : dbl) : bytes := sguard (fmt_g15 d).
Definition sg_fmt_g17 (d : dbl) : bytes := sguard (fmt_g17 d).

Lemma sguard_ok t : rfc_number (sguard t) = true /\ zlen (sguard t) <= c_NUMBER_BUFFER_SIZE - 1.
Proof.
  unfold sguard. destruct (rfc_number t && (zlen t <=? c_NUMBER_BUFFER_SIZE - 1)) eqn:E.
  - apply andb_true_iff in E as [E1 E2]. apply Z.leb_le in E2. split; assumption.
  - split; [reflexivity|]. unfold zlen. cbn [length]. change (c_NUMBER_BUFFER_SIZE - 1) with 25. lia.
Qed.

Lemma strict_spec_satisfiable : LibcStrictSpec fmt_d sg_fmt_g15 sg_fmt_g17.
Proof.
  constructor.
  - intros z Hz. apply (ref_fmt_d_strict z Hz).
  - intros d _ _. apply sguard_ok.
  - intros d _ _. apply sguard_ok.
  - intros z Hz. apply (ref_fmt_d_strict z Hz).
  - intros d _ _. apply sguard_ok.
  - intros d _ _. apply sguard_ok.
  - intros z Hz. apply (ref_fmt_d_strict z Hz).
Qed.

(** TEST: the guard is the identity on the table *)
Example sguard_identity_test :
  forallb (fun r => let d := sf_of_bits (fst (fst r)) in
                    bytes_eqb (sg_fmt_g15 d) (fmt_g15 d) && bytes_eqb (sg_fmt_g17 d) (fmt_g17 d)) g_table = true.
Proof. vm_compute. reflexivity. Qed.

(** the example tree prints the same with the guarded conversions ... *)
Example ex_tree_renders_guarded :
  render fmt_d sg_fmt_g15 sg_fmt_g17 sscanf_lg false 0 ex_tree = Some ex_text_unformatted /\
  render fmt_d sg_fmt_g15 sg_fmt_g17 sscanf_lg true 0 ex_tree = Some ex_text_formatted.
Proof. split; vm_compute; reflexivity. Qed.

(** ... so the main theorem applies to it: both texts are RFC 8259 JSON texts denoting its value *)
Lemma ex_tree_texts_rfc :
  RFC_text ex_text_unformatted (val_of fmt_d sg_fmt_g15 sg_fmt_g17 sscanf_lg ex_tree) /\
  RFC_text ex_text_formatted (val_of fmt_d sg_fmt_g15 sg_fmt_g17 sscanf_lg ex_tree).
Proof.
  assert (Hd : (cdepth ex_tree <= nesting_limit)%nat).
  { rewrite (proj2 ex_tree_printable). apply Nat.leb_le. vm_compute. reflexivity. }
  split.
  - destruct (render_rfc_text _ _ _ sscanf_lg strict_spec_satisfiable ex_tree false (proj1 ex_tree_printable) Hd)
      as [txt [R T]].
    rewrite (proj1 ex_tree_renders_guarded) in R. injection R as <-. exact T.
  - destruct (render_rfc_text _ _ _ sscanf_lg strict_spec_satisfiable ex_tree true (proj1 ex_tree_printable) Hd)
      as [txt [R T]].
    rewrite (proj2 ex_tree_renders_guarded) in R. injection R as <-. exact T.
Qed.

Example ex_tree_fields_ok : fields_ok ex_tree = true.
Proof. vm_compute. reflexivity. Qed.

(** a tree with non-ASCII strings that are valid UTF-8: the object with the single member named
    e-acute (C3 A9) whose value is the array of the strings "euro sign" (E2 82 AC) and "U+10348"
    (F0 90 8D 88) followed by a tab; hypotheses and conclusion of [render_utf8] on it *)
Definition ex_tree_u : node :=
  ex_obj [ ex_key [195; 169; 0] (ex_arr [ ex_str [226; 130; 172; 0]; ex_str [240; 144; 141; 136; 9; 0] ]) ].
Example ex_tree_u_ok :
  printable ex_tree_u = true /\ strings_utf8 ex_tree_u = true /\ strings_utf8 ex_tree = false /\
  ref_render false 0 ex_tree_u =
    Some [123; 34; 195; 169; 34; 58; 91; 34; 226; 130; 172; 34; 44; 34; 240; 144; 141; 136; 92; 116; 34; 93; 125] /\
  option_map utf8_valid (ref_render true 0 ex_tree_u) = Some true.
Proof. repeat split; vm_compute; reflexivity. Qed.
