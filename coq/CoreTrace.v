(** CoreTrace.v — property C14 on the heap monad: every allocation / release event carries the
    function pointer prescribed by [h_hooks] at the time of the call, and the event trace obeys
    the ledger discipline.

    Layout:
    - the ledger predicate [tr_wf] on traces and the heap invariant [trace_wf];
    - the one-step relation [tr_step h h'] (hooks unchanged, trace extended by events tagged
      as [h_hooks h] prescribes, fresh identities, [trace_wf] preserved) — reflexive, transitive;
    - [tr_ok m]: every successful run of [m] is a [tr_step]; closure under [ret]/[fail]/[bindM]/
      [when]/[if]/[match]; every primitive of Heap.v;
    - the tactic [tr_auto].
    The functions of CoreDefs.v are in CoreTraceFns.v, the interpreter in CoreTraceOps.v. *)
From stdpp Require Import gmap.
From CJ Require Import Base Dbl Heap CoreDefs.
Local Open Scope positive_scope.
Local Open Scope list_scope.

(** * the trace ledger *)

(** identities allocated / released in a trace *)
Fixpoint allocated (tr : list event) : list positive :=
  match tr with
  | [] => []
  | EvAlloc id _ :: r => id :: allocated r
  | _ :: r => allocated r
  end.
Fixpoint freed (tr : list event) : list positive :=
  match tr with
  | [] => []
  | EvFree id _ :: r => id :: freed r
  | _ :: r => freed r
  end.

(** the discipline (the trace is newest first, so the tail is the past): an allocation returns an
    identity that was never allocated before; a release is given a block that was allocated before
    and has not been released before; [free(NULL)] is always allowed.  Hence the events of one
    identity are: exactly one [EvAlloc], optionally followed (later) by exactly one [EvFree]. *)
Fixpoint tr_wf (tr : list event) : Prop :=
  match tr with
  | [] => True
  | EvAlloc id _ :: r => id ∉ allocated r ∧ tr_wf r
  | EvFree id _ :: r => id ∈ allocated r ∧ id ∉ freed r ∧ tr_wf r
  | EvFreeNull _ :: r => tr_wf r
  end.

(** the heap invariant tying the trace to the allocator state *)
Record trace_wf (h : heap) : Prop := mkTraceWf {
  twf_tr : tr_wf (h_trace h);
  (* every identity in the trace was handed out already *)
  twf_next : ∀ id, id ∈ allocated (h_trace h) → id < h_next h;
  (* every identity in the trace is a library block *)
  twf_own : ∀ id, id ∈ allocated (h_trace h) → h_own h !! id = Some Lib;
  (* a library block is live iff it was allocated and not yet released *)
  twf_live : ∀ id, h_own h !! id = Some Lib →
     (id ∈ h_live h ↔ id ∈ allocated (h_trace h) ∧ id ∉ freed (h_trace h))
}.

Lemma allocated_app a b : allocated (a ++ b) = allocated a ++ allocated b.
Proof. induction a as [|[id v|id v|v] a IH]; cbn; congruence. Qed.
Lemma freed_app a b : freed (a ++ b) = freed a ++ freed b.
Proof. induction a as [|[id v|id v|v] a IH]; cbn; congruence. Qed.

Lemma freed_allocated tr id : tr_wf tr → id ∈ freed tr → id ∈ allocated tr.
Proof.
  induction tr as [|[i v|i v|v] tr IH]; cbn; intros Hwf Hin.
  - exact Hin.
  - destruct Hwf as [_ Hwf]. apply elem_of_cons. right. auto.
  - destruct Hwf as (Ha & _ & Hwf). apply elem_of_cons in Hin as [->|Hin]; auto.
  - auto.
Qed.

Lemma tr_wf_app a b : tr_wf (a ++ b) → tr_wf b.
Proof.
  induction a as [|[i v|i v|v] a IH]; cbn; auto.
  - intros [_ H]. auto.
  - intros (_ & _ & H). auto.
Qed.

(** * events tagged as the hooks prescribe *)
Definition via_of (custom : bool) : via := if custom then UserHook else LibcFn.
Definition ev_via (hk : hooks) (e : event) : Prop :=
  match e with
  | EvAlloc _ v => v = via_of (hk_malloc_custom hk)
  | EvFree _ v => v = via_of (hk_free_custom hk)
  | EvFreeNull v => v = via_of (hk_free_custom hk)
  end.

Lemma via_malloc_of h : via_malloc h = via_of (hk_malloc_custom (h_hooks h)).
Proof. reflexivity. Qed.
Lemma via_free_of h : via_free h = via_of (hk_free_custom (h_hooks h)).
Proof. reflexivity. Qed.

(** * one step *)

(** [tr_ext hk h h']: the trace of [h'] extends the trace of [h] by events tagged according to
    [hk]; the identities allocated in the extension are fresh; the ledger invariant is kept *)
Record tr_ext (hk : hooks) (h h' : heap) : Prop := mkTrExt {
  te_next : h_next h ≤ h_next h';
  te_new : ∃ new, h_trace h' = new ++ h_trace h ∧ Forall (ev_via hk) new ∧
                  ∀ id, id ∈ allocated new → h_next h ≤ id ∧ id < h_next h';
  te_wf : trace_wf h → trace_wf h'
}.

Record tr_step (h h' : heap) : Prop := mkTrStep {
  ts_hooks : h_hooks h' = h_hooks h;
  ts_ext : tr_ext (h_hooks h) h h'
}.

Lemma tr_ext_refl hk h : tr_ext hk h h.
Proof.
  split; [lia| |auto]. exists []. split; [reflexivity|]. split; [constructor|].
  cbn. intros id Hid. inversion Hid.
Qed.

Lemma tr_ext_trans hk h1 h2 h3 : tr_ext hk h1 h2 → tr_ext hk h2 h3 → tr_ext hk h1 h3.
Proof.
  intros [N1 (n1 & E1 & F1 & A1) W1] [N2 (n2 & E2 & F2 & A2) W2].
  split; [lia| |auto].
  exists (n2 ++ n1). split; [rewrite E2, E1; apply app_assoc|].
  split; [apply Forall_app; auto|].
  intros id Hid. rewrite allocated_app in Hid. apply elem_of_app in Hid as [Hid|Hid].
  - apply A2 in Hid. lia.
  - apply A1 in Hid. lia.
Qed.

Lemma tr_step_refl h : tr_step h h.
Proof. split; [reflexivity|apply tr_ext_refl]. Qed.

Lemma tr_step_trans h1 h2 h3 : tr_step h1 h2 → tr_step h2 h3 → tr_step h1 h3.
Proof.
  intros [H1 X1] [H2 X2]. split; [congruence|].
  rewrite H1 in X2. eapply tr_ext_trans; eauto.
Qed.

(** a step that changes neither the allocator-relevant fields nor the trace *)
Lemma tr_step_same h h' :
  h_hooks h' = h_hooks h → h_trace h' = h_trace h → h_next h' = h_next h →
  h_own h' = h_own h → h_live h' = h_live h → tr_step h h'.
Proof.
  intros Hh Ht Hn Ho Hl. split; [exact Hh|]. split; [lia| |].
  - exists []. rewrite Ht. split; [reflexivity|]. split; [constructor|]. intros id Hid. inversion Hid.
  - intros [W1 W2 W3 W4]. split; rewrite ?Ht, ?Hn, ?Ho, ?Hl; auto.
Qed.

(** * the invariant for computations *)
Definition tr_ok {A} (m : M A) : Prop :=
  ∀ h a h', m h = Ret (a, h') → tr_step h h'.

Lemma tr_ok_ret {A} (a : A) : tr_ok (ret a).
Proof. intros h a' h' E. inversion E; subst. apply tr_step_refl. Qed.
Lemma tr_ok_fail {A} e : tr_ok (@fail A e).
Proof. intros h a' h' E. discriminate. Qed.
Lemma tr_ok_bind {A B} (m : M A) (f : A → M B) :
  tr_ok m → (∀ a, tr_ok (f a)) → tr_ok (bindM m f).
Proof.
  intros Hm Hf h b h' E. unfold bindM in E.
  destruct (m h) as [[a h1]|e] eqn:Em; [|discriminate].
  eapply tr_step_trans; [eapply Hm; eauto|eapply Hf; eauto].
Qed.
Lemma tr_ok_when b m : tr_ok m → tr_ok (when b m).
Proof. intros H. destruct b; cbn; [exact H|apply tr_ok_ret]. Qed.
Lemma tr_ok_if {A} (b : bool) (m1 m2 : M A) : tr_ok m1 → tr_ok m2 → tr_ok (if b then m1 else m2).
Proof. destruct b; auto. Qed.
Lemma tr_ok_get_heap : tr_ok get_heap.
Proof. intros h a h' E. inversion E; subst. apply tr_step_refl. Qed.
Lemma tr_ok_heap_fuel : tr_ok heap_fuel.
Proof. intros h a h' E. inversion E; subst. apply tr_step_refl. Qed.

(** ** primitives of Heap.v *)

Lemma tr_ok_chk p : tr_ok (chk p).
Proof.
  intros h a h' E. unfold chk in E. destruct p as [id|]; [|discriminate].
  destruct (decide (id ∈ h_live h)); inversion E; subst. apply tr_step_refl.
Qed.

(** a read that returns the heap unchanged *)
Lemma tr_ok_read {A B} (g : heap → option B) (k : B → A) :
  tr_ok (fun h => match g h with Some x => Ret (k x, h) | None => Err BadBlock end).
Proof.
  intros h a h' E. cbn in E. destruct (g h); inversion E; subst. apply tr_step_refl.
Qed.

Lemma tr_ok_ld_lnk p : tr_ok (ld_lnk p).
Proof.
  apply tr_ok_bind; [apply tr_ok_chk|]. intros id h a h' E.
  destruct (h_lnk h !! id); inversion E; subst. apply tr_step_refl.
Qed.
Lemma tr_ok_ld_dat p : tr_ok (ld_dat p).
Proof.
  apply tr_ok_bind; [apply tr_ok_chk|]. intros id h a h' E.
  destruct (h_dat h !! id); inversion E; subst. apply tr_step_refl.
Qed.
Lemma tr_ok_ld_str p : tr_ok (ld_str p).
Proof.
  apply tr_ok_bind; [apply tr_ok_chk|]. intros id h a h' E.
  destruct (h_str h !! id); inversion E; subst. apply tr_step_refl.
Qed.
Lemma tr_ok_st_lnk p l : tr_ok (st_lnk p l).
Proof.
  apply tr_ok_bind; [apply tr_ok_chk|]. intros id h a h' E.
  destruct (h_lnk h !! id); inversion E; subst. apply tr_step_same; reflexivity.
Qed.
Lemma tr_ok_st_dat p d : tr_ok (st_dat p d).
Proof.
  apply tr_ok_bind; [apply tr_ok_chk|]. intros id h a h' E.
  destruct (h_dat h !! id); inversion E; subst. apply tr_step_same; reflexivity.
Qed.
Lemma tr_ok_st_str p s : tr_ok (st_str p s).
Proof.
  apply tr_ok_bind; [apply tr_ok_chk|]. intros id h a h' E.
  destruct (h_str h !! id) as [old|]; [|discriminate].
  destruct (h_own h !! id) as [[|]|]; try discriminate.
  destruct (length s =? length old)%nat; inversion E; subst. apply tr_step_same; reflexivity.
Qed.

(** foreign_bytes: caller memory appears; no event *)
Lemma tr_ok_foreign_bytes c : tr_ok (foreign_bytes c).
Proof.
  intros h a h' E. unfold foreign_bytes in E. inversion E; subst; clear E.
  split; [reflexivity|]. split; cbn.
  - lia.
  - exists []. split; [reflexivity|]. split; [constructor|]. intros id Hid. inversion Hid.
  - intros [W1 W2 W3 W4]. split; cbn; auto.
    + intros id Hid. apply W2 in Hid. lia.
    + intros id Hid. rewrite lookup_insert_ne; [auto|]. apply W2 in Hid. lia.
    + intros id Hown. destruct (decide (id = h_next h)) as [->|Hne].
      * rewrite lookup_insert in Hown. discriminate.
      * rewrite lookup_insert_ne in Hown by congruence. rewrite <- (W4 id Hown). set_solver.
Qed.

Section Alloc.
  Variable oracle : nat → bool.

  Lemma tr_step_bump h : tr_step h (bump h).
  Proof. apply tr_step_same; reflexivity. Qed.

  (** the common part of alloc_node / alloc_bytes *)
  Lemma tr_step_alloc h h' :
    h_hooks h' = h_hooks h →
    h_trace h' = EvAlloc (h_next h) (via_malloc h) :: h_trace h →
    h_next h' = Pos.succ (h_next h) →
    h_own h' = <[h_next h := Lib]> (h_own h) →
    h_live h' = {[h_next h]} ∪ h_live h →
    tr_step h h'.
  Proof.
    intros Hh Ht Hn Ho Hl. split; [exact Hh|]. split.
    - lia.
    - exists [EvAlloc (h_next h) (via_malloc h)]. split; [exact Ht|]. split.
      + constructor; [|constructor]. cbn. apply via_malloc_of.
      + cbn. intros id Hid. apply elem_of_list_singleton in Hid. subst. lia.
    - intros [W1 W2 W3 W4].
      assert (Hfresh : h_next h ∉ allocated (h_trace h)).
      { intros Hin. apply W2 in Hin. lia. }
      split; rewrite ?Ht, ?Hn, ?Ho, ?Hl; cbn.
      + auto.
      + intros id Hid. apply elem_of_cons in Hid as [->|Hid]; [lia|]. apply W2 in Hid. lia.
      + intros id Hid. apply elem_of_cons in Hid as [->|Hid]; [apply lookup_insert|].
        rewrite lookup_insert_ne; [auto|]. intros E0. apply Hfresh. rewrite E0. exact Hid.
      + intros id Hown. destruct (decide (id = h_next h)) as [->|Hne].
        * split; [intros _|set_solver]. split; [apply elem_of_cons; auto|].
          intros Hf. apply Hfresh. eapply freed_allocated; eauto.
        * rewrite lookup_insert_ne in Hown by congruence.
          rewrite elem_of_cons. rewrite <- (W4 id Hown) || idtac.
          specialize (W4 id Hown). set_solver.
  Qed.

  Lemma tr_ok_alloc_node : tr_ok (alloc_node oracle).
  Proof.
    intros h a h' E. unfold alloc_node in E. destruct (oracle (h_req h)); inversion E; subst; clear E.
    - apply tr_step_bump.
    - apply tr_step_alloc; reflexivity.
  Qed.
  Lemma tr_ok_alloc_bytes init : tr_ok (alloc_bytes oracle init).
  Proof.
    intros h a h' E. unfold alloc_bytes in E. destruct (oracle (h_req h)); inversion E; subst; clear E.
    - apply tr_step_bump.
    - apply tr_step_alloc; reflexivity.
  Qed.
End Alloc.

Lemma tr_ok_free_block p : tr_ok (free_block p).
Proof.
  intros h a h' E. unfold free_block in E. destruct p as [id|].
  - destruct (h_own h !! id) as [[|]|] eqn:Hown; try discriminate.
    destruct (decide (id ∈ h_live h)) as [Hlive|]; [|discriminate].
    inversion E; subst; clear E. split; [reflexivity|]. split; cbn.
    + lia.
    + exists [EvFree id (via_free h)]. split; [reflexivity|]. split.
      * constructor; [|constructor]. cbn. apply via_free_of.
      * cbn. intros i Hi. inversion Hi.
    + intros [W1 W2 W3 W4]. destruct (proj1 (W4 id Hown) Hlive) as [Ha Hf].
      split; cbn; auto.
      intros i Hi. specialize (W4 i Hi). rewrite elem_of_cons.
      destruct (decide (i = id)) as [->|Hne]; set_solver.
  - inversion E; subst; clear E. split; [reflexivity|]. split; cbn.
    + lia.
    + exists [EvFreeNull (via_free h)]. split; [reflexivity|]. split.
      * constructor; [|constructor]. cbn. apply via_free_of.
      * cbn. intros i Hi. inversion Hi.
    + intros [W1 W2 W3 W4]. split; cbn; auto.
Qed.

(** * the tactic *)
Create HintDb tr discriminated.
Global Hint Resolve tr_ok_get_heap tr_ok_heap_fuel tr_ok_chk tr_ok_ld_lnk tr_ok_ld_dat tr_ok_ld_str
  tr_ok_st_lnk tr_ok_st_dat tr_ok_st_str tr_ok_foreign_bytes tr_ok_alloc_node tr_ok_alloc_bytes
  tr_ok_free_block : tr.

Ltac tr_step1 :=
  lazymatch goal with
  | |- tr_ok (bindM _ _) => apply tr_ok_bind; [|intros ?]
  | |- tr_ok (ret _) => apply tr_ok_ret
  | |- tr_ok (fail _) => apply tr_ok_fail
  | |- tr_ok (when _ _) => apply tr_ok_when
  | |- tr_ok (match ?x with _ => _ end) => destruct x
  | |- tr_ok _ => solve [assumption | auto 1 with tr nocore]
  end.
Ltac tr_auto := repeat tr_step1.

(** single fields *)
Lemma tr_ok_get_next p : tr_ok (get_next p). Proof. unfold get_next. tr_auto. Qed.
Lemma tr_ok_get_prev p : tr_ok (get_prev p). Proof. unfold get_prev. tr_auto. Qed.
Lemma tr_ok_set_next p v : tr_ok (set_next p v). Proof. unfold set_next. tr_auto. Qed.
Lemma tr_ok_set_prev p v : tr_ok (set_prev p v). Proof. unfold set_prev. tr_auto. Qed.
Lemma tr_ok_get_child p : tr_ok (get_child p). Proof. unfold get_child. tr_auto. Qed.
Lemma tr_ok_get_type p : tr_ok (get_type p). Proof. unfold get_type. tr_auto. Qed.
Lemma tr_ok_get_vstr p : tr_ok (get_vstr p). Proof. unfold get_vstr. tr_auto. Qed.
Lemma tr_ok_get_key p : tr_ok (get_key p). Proof. unfold get_key. tr_auto. Qed.
Lemma tr_ok_get_vint p : tr_ok (get_vint p). Proof. unfold get_vint. tr_auto. Qed.
Lemma tr_ok_get_vdbl p : tr_ok (get_vdbl p). Proof. unfold get_vdbl. tr_auto. Qed.
Lemma tr_ok_set_child p v : tr_ok (set_child p v). Proof. unfold set_child. tr_auto. Qed.
Lemma tr_ok_set_type p v : tr_ok (set_type p v). Proof. unfold set_type. tr_auto. Qed.
Lemma tr_ok_set_vstr p v : tr_ok (set_vstr p v). Proof. unfold set_vstr. tr_auto. Qed.
Lemma tr_ok_set_key p v : tr_ok (set_key p v). Proof. unfold set_key. tr_auto. Qed.
Lemma tr_ok_set_vint p v : tr_ok (set_vint p v). Proof. unfold set_vint. tr_auto. Qed.
Lemma tr_ok_set_vdbl p v : tr_ok (set_vdbl p v). Proof. unfold set_vdbl. tr_auto. Qed.
Global Hint Resolve tr_ok_get_next tr_ok_get_prev tr_ok_set_next tr_ok_set_prev tr_ok_get_child
  tr_ok_get_type tr_ok_get_vstr tr_ok_get_key tr_ok_get_vint tr_ok_get_vdbl tr_ok_set_child
  tr_ok_set_type tr_ok_set_vstr tr_ok_set_key tr_ok_set_vint tr_ok_set_vdbl : tr.
Lemma tr_ok_ld_cstr p : tr_ok (ld_cstr p). Proof. unfold ld_cstr. tr_auto. Qed.
Lemma tr_ok_type_is p k : tr_ok (type_is p k). Proof. unfold type_is. tr_auto. Qed.
Global Hint Resolve tr_ok_ld_cstr tr_ok_type_is : tr.

Lemma accesses_tr_ok :
  (∀ p, tr_ok (chk p)) ∧ (∀ p, tr_ok (ld_lnk p)) ∧ (∀ p, tr_ok (ld_dat p)) ∧
  (∀ p, tr_ok (ld_str p)) ∧ (∀ p, tr_ok (ld_cstr p)) ∧
  (∀ p l, tr_ok (st_lnk p l)) ∧ (∀ p d, tr_ok (st_dat p d)) ∧ (∀ p s, tr_ok (st_str p s)) ∧
  (∀ p, tr_ok (get_next p)) ∧ (∀ p, tr_ok (get_prev p)) ∧ (∀ p, tr_ok (get_child p)) ∧
  (∀ p, tr_ok (get_type p)) ∧ (∀ p, tr_ok (get_vstr p)) ∧ (∀ p, tr_ok (get_key p)) ∧
  (∀ p, tr_ok (get_vint p)) ∧ (∀ p, tr_ok (get_vdbl p)) ∧
  (∀ p v, tr_ok (set_next p v)) ∧ (∀ p v, tr_ok (set_prev p v)) ∧ (∀ p v, tr_ok (set_child p v)) ∧
  (∀ p v, tr_ok (set_type p v)) ∧ (∀ p v, tr_ok (set_vstr p v)) ∧ (∀ p v, tr_ok (set_key p v)) ∧
  (∀ p v, tr_ok (set_vint p v)) ∧ (∀ p v, tr_ok (set_vdbl p v)) ∧
  tr_ok heap_fuel ∧ tr_ok get_heap.
Proof. repeat lazymatch goal with |- _ ∧ _ => split end; intros; auto 1 with tr nocore. Qed.

(** * consequences of a step for single events (clause (iii) spelled out) *)

(** the events added by a step *)
Definition added (h h' : heap) (new : list event) : Prop := h_trace h' = new ++ h_trace h.

Lemma tr_step_added h h' : tr_step h h' → ∃ new, added h h' new ∧ Forall (ev_via (h_hooks h)) new.
Proof. intros [_ [_ (new & E & F & _) _]]. eauto. Qed.

(** every identity allocated by the step is fresh: at or above the allocator's counter before
    the step, hence (with [trace_wf]) never allocated before *)
Lemma tr_step_alloc_fresh h h' new id :
  tr_step h h' → added h h' new → id ∈ allocated new → h_next h ≤ id.
Proof.
  intros [_ [_ (new' & E & _ & A) _]] E' Hid. unfold added in E'.
  rewrite E in E'. apply app_inv_tail in E'. subst. apply A in Hid. lia.
Qed.
Lemma tr_step_alloc_new h h' new id :
  trace_wf h → tr_step h h' → added h h' new → id ∈ allocated new → id ∉ allocated (h_trace h).
Proof.
  intros W S E Hid Hin. pose proof (tr_step_alloc_fresh _ _ _ _ S E Hid).
  apply (twf_next _ W) in Hin. lia.
Qed.

(** every block released by the step is a library block that is not live afterwards, was
    allocated (once, by [tr_wf]) and had not been released before the step *)
Lemma tr_step_free_once h h' new id :
  trace_wf h → tr_step h h' → added h h' new → id ∈ freed new →
  id ∈ allocated (h_trace h') ∧ h_own h' !! id = Some Lib ∧ id ∉ h_live h' ∧ id ∉ freed (h_trace h).
Proof.
  intros W S E Hid. pose proof (te_wf _ _ _ (ts_ext _ _ S) W) as W'. unfold added in E.
  assert (Hf : id ∈ freed (h_trace h')). { rewrite E, freed_app. apply elem_of_app. auto. }
  pose proof (freed_allocated _ _ (twf_tr _ W') Hf) as Ha.
  pose proof (twf_own _ W' _ Ha) as Ho.
  split; [exact Ha|]. split; [exact Ho|]. split.
  - intros Hl. apply (twf_live _ W' _ Ho) in Hl. tauto.
  - pose proof (twf_tr _ W') as T. rewrite E in T. clear - T Hid.
    induction new as [|[i v|i v|v] new IH]; cbn in *.
    + inversion Hid.
    + apply IH; tauto.
    + destruct T as (_ & Hnf & T). apply elem_of_cons in Hid as [->|Hid].
      * rewrite freed_app in Hnf. intros Hx. apply Hnf. apply elem_of_app. auto.
      * apply IH; auto.
    + apply IH; auto.
Qed.

(** * what [tr_wf] means for one identity *)

(** no identity is allocated twice or released twice, and only allocated identities are released *)
Lemma tr_wf_NoDup tr : tr_wf tr → base.NoDup (allocated tr) ∧ base.NoDup (freed tr) ∧ (∀ id, id ∈ freed tr → id ∈ allocated tr).
Proof.
  intros W. split; [|split; [|intros id; apply freed_allocated; exact W]].
  - induction tr as [|[i v|i v|v] tr IH]; cbn in *.
    + constructor.
    + destruct W as [H1 H2]. constructor; [exact H1|apply IH; exact H2].
    + destruct W as (_ & _ & H2). apply IH; exact H2.
    + apply IH; exact W.
  - induction tr as [|[i v|i v|v] tr IH]; cbn in *.
    + constructor.
    + destruct W as [_ H2]. apply IH; exact H2.
    + destruct W as (_ & H1 & H2). constructor; [exact H1|apply IH; exact H2].
    + apply IH; exact W.
Qed.

(** the release comes after the allocation: at a release event, the past (the tail of the
    newest-first trace) contains the allocation of that identity and no release of it *)
Lemma tr_wf_free_after_alloc a id v b :
  tr_wf (a ++ EvFree id v :: b) → id ∈ allocated b ∧ id ∉ freed b ∧ id ∉ allocated a ∧ id ∉ freed a.
Proof.
  intros W. pose proof (tr_wf_app _ _ W) as Wb. cbn in Wb. destruct Wb as (Ha & Hf & Wb).
  split; [exact Ha|]. split; [exact Hf|].
  destruct (tr_wf_NoDup _ W) as (ND1 & ND2 & _).
  rewrite allocated_app in ND1. rewrite freed_app in ND2. cbn in ND1, ND2.
  apply NoDup_app in ND1 as (_ & D1 & _). apply NoDup_app in ND2 as (_ & D2 & _).
  split.
  - intros Hin. apply (D1 _ Hin). exact Ha.
  - intros Hin. apply (D2 _ Hin). apply elem_of_cons. auto.
Qed.
(** an allocation event returns an identity that occurs nowhere in the past *)
Lemma tr_wf_alloc_first a id v b :
  tr_wf (a ++ EvAlloc id v :: b) → id ∉ allocated b ∧ id ∉ freed b ∧ id ∉ allocated a.
Proof.
  intros W. pose proof (tr_wf_app _ _ W) as Wb. cbn in Wb. destruct Wb as (Ha & Wb).
  split; [exact Ha|]. split; [intros Hf; apply Ha; eapply freed_allocated; eauto|].
  destruct (tr_wf_NoDup _ W) as (ND1 & _ & _).
  rewrite allocated_app in ND1. cbn in ND1. apply NoDup_app in ND1 as (_ & D1 & _).
  intros Hin. apply (D1 _ Hin). apply elem_of_cons. auto.
Qed.
